import Verif.Spec.SvgPath
import Verif.Spec.SvgHazard
import Verif.Model.SvgPath
/-!
# C05 helper lemmas: the lexer reads back what the separator-eliding printer writes
-/
namespace Verif.Proofs.SvgLex
open Verif.Spec.SvgPath Verif.Spec.SvgHazard Verif.Model.SvgPath

/-! ## `lexNumber` on a rendered number followed by a harmless character -/

/-- the rest of the output cannot extend a number lexeme: it does not start with a digit or `e`/`E`,
    nor — after a plain integer — with a dot -/
def Stop (isInt : Bool) (rest : List Char) : Prop :=
  ∀ c r, rest = c :: r → isDigit c = false ∧ isExpChar c = false ∧ (isInt = true → c ≠ '.')

theorem span_digits_stop (ds rest : List Char) (hd : ∀ c ∈ ds, isDigit c = true)
    (hs : ∀ c r, rest = c :: r → isDigit c = false) :
    spanD (ds ++ rest) = (ds, rest) := by
  unfold spanD
  induction ds with
  | nil =>
    cases rest with
    | nil => simp
    | cons c r => simp [List.takeWhile_cons, List.dropWhile_cons, hs c r rfl]
  | cons d ds ih =>
    have hd1 : isDigit d = true := hd d (by simp)
    have ih' := ih (fun c hc => hd c (by simp [hc]))
    simp only [List.cons_append, List.takeWhile_cons, List.dropWhile_cons, hd1, if_true]
    simp only [Prod.mk.injEq] at ih' ⊢
    exact ⟨by rw [ih'.1], ih'.2⟩

theorem takeSign_nosign (c : Char) (r : List Char) (h1 : c ≠ '+') (h2 : c ≠ '-') :
    takeSign (c :: r) = ([], c :: r) := by
  unfold takeSign
  split
  · rename_i heq; cases heq; exact absurd rfl h1
  · rename_i heq; cases heq; exact absurd rfl h2
  · rfl

theorem digit_not_sign (c : Char) (h : isDigit c = true) : c ≠ '+' ∧ c ≠ '-' ∧ c ≠ '.' ∧ isExpChar c = false := by
  refine ⟨?_, ?_, ?_, ?_⟩ <;> (try intro e; subst e; revert h; decide)
  simp only [isExpChar]
  by_cases h1 : c = 'e'
  · subst h1; revert h; decide
  · by_cases h2 : c = 'E'
    · subst h2; revert h; decide
    · simp [h1, h2]

theorem lexExp_stop (acc rest : List Char) (hs : ∀ c r, rest = c :: r → isExpChar c = false) :
    lexExp acc rest = (acc, rest) := by
  cases rest with
  | nil => rfl
  | cons c r => simp [lexExp, hs c r rfl]

theorem lexExp_exp (acc ds rest : List Char) (n : Bool) (hd : ∀ c ∈ ds, isDigit c = true) (hne : ds ≠ [])
    (hs : ∀ c r, rest = c :: r → isDigit c = false) :
    lexExp acc ('e' :: ((if n then ['-'] else []) ++ ds) ++ rest) =
      (acc ++ 'e' :: ((if n then ['-'] else []) ++ ds), rest) := by
  have hsp := span_digits_stop ds rest hd hs
  cases ds with
  | nil => exact absurd rfl hne
  | cons d ds' =>
    have hd1 : isDigit d = true := hd d (by simp)
    obtain ⟨h1, h2, _, _⟩ := digit_not_sign d hd1
    cases n
    · simp only [Bool.false_eq_true, if_false, List.nil_append, List.cons_append]
      simp only [List.cons_append] at hsp
      simp [lexExp, isExpChar, takeSign_nosign d (ds' ++ rest) h1 h2, hsp]
    · simp only [if_true, List.cons_append, List.nil_append]
      simp only [List.cons_append] at hsp
      simp [lexExp, isExpChar, takeSign, hsp]

/-- the part of `lexNumber` after the sign -/
def lexU (sg r0 : List Char) : Option (List Char × List Char) :=
  let ip := spanD r0
  match ip.2 with
  | '.' :: r =>
    let fp := spanD r
    if ip.1.isEmpty && fp.1.isEmpty then none
    else some (lexExp (sg ++ ip.1 ++ '.' :: fp.1) fp.2)
  | r1 => if ip.1.isEmpty then none else some (lexExp (sg ++ ip.1) r1)

theorem lexNumber_eq (s : List Char) : lexNumber s = lexU (takeSign s).1 (takeSign s).2 := rfl

def exStr : Option (Bool × List Char) → List Char
  | none => []
  | some (n, ds) => 'e' :: ((if n then ['-'] else []) ++ ds)

theorem render_eq (v : NumView) :
    v.render = (if v.neg then ['-'] else []) ++ (v.ip ++ ((if v.dot then '.' :: v.fp else []) ++ exStr v.ex)) := by
  unfold NumView.render exStr
  cases v.ex with
  | none => rfl
  | some p => rfl

/-- exponent part followed by a harmless rest -/
theorem lexExp_ex (acc rest : List Char) (ex : Option (Bool × List Char))
    (hex : match ex with | none => True | some (_, ds) => (∀ c ∈ ds, isDigit c = true) ∧ ds ≠ [])
    (hs : ∀ c r, rest = c :: r → isDigit c = false ∧ isExpChar c = false) :
    lexExp acc (exStr ex ++ rest) = (acc ++ exStr ex, rest) := by
  cases ex with
  | none => simp [exStr, lexExp_stop acc rest (fun c r h => (hs c r h).2)]
  | some p =>
    obtain ⟨n, ds⟩ := p
    simp only [exStr]
    exact lexExp_exp acc ds rest n hex.1 hex.2 (fun c r h => (hs c r h).1)

theorem exStr_head (ex : Option (Bool × List Char)) (rest : List Char) (isInt : Bool)
    (hs : Stop isInt rest) (hi : isInt = ex.isNone) :
    ∀ c r, exStr ex ++ rest = c :: r → isDigit c = false ∧ (ex.isNone = true → c ≠ '.') := by
  intro c r h
  cases ex with
  | none =>
    simp only [exStr, List.nil_append] at h
    have := hs c r h
    simp only [Option.isNone_none] at hi
    exact ⟨this.1, fun _ => this.2.2 hi⟩
  | some p =>
    obtain ⟨n, ds⟩ := p
    simp only [exStr, List.cons_append, List.cons.injEq] at h
    rw [← h.1]
    exact ⟨by decide, by simp⟩

def fracStr (dot : Bool) (fp : List Char) : List Char := if dot then '.' :: fp else []

theorem lexU_body (sg ip fp : List Char) (dot : Bool) (ex : Option (Bool × List Char)) (rest : List Char)
    (hip : ∀ c ∈ ip, isDigit c = true) (hfp : ∀ c ∈ fp, isDigit c = true)
    (hdf : dot = false → fp = []) (hne : ip ≠ [] ∨ fp ≠ [])
    (hex : match ex with | none => True | some (_, ds) => (∀ c ∈ ds, isDigit c = true) ∧ ds ≠ [])
    (hs : Stop (!dot && ex.isNone) rest) :
    lexU sg (ip ++ ((fracStr dot fp ++ exStr ex) ++ rest)) = some (sg ++ (ip ++ (fracStr dot fp ++ exStr ex)), rest) := by
  have hs2 : ∀ c r, rest = c :: r → isDigit c = false ∧ isExpChar c = false :=
    fun c r h => ⟨(hs c r h).1, (hs c r h).2.1⟩
  cases dot with
  | true =>
    have hhead := exStr_head ex rest false (by
      intro c r h; exact ⟨(hs c r h).1, (hs c r h).2.1, by simp⟩) 
    simp only [fracStr, if_true, List.cons_append, List.append_assoc]
    have h1 : spanD (ip ++ '.' :: (fp ++ (exStr ex ++ rest))) = (ip, '.' :: (fp ++ (exStr ex ++ rest))) :=
      span_digits_stop ip _ hip (by intro c r h; cases h; decide)
    have h2 : spanD (fp ++ (exStr ex ++ rest)) = (fp, exStr ex ++ rest) := by
      apply span_digits_stop fp _ hfp
      intro c r h
      cases ex with
      | none => simp only [exStr, List.nil_append] at h; exact (hs c r h).1
      | some p =>
        obtain ⟨n, ds⟩ := p
        simp only [exStr, List.cons_append, List.cons.injEq] at h
        rw [← h.1]; decide
    have hne' : (ip.isEmpty && fp.isEmpty) = false := by
      cases hne with
      | inl h => cases ip with | nil => exact absurd rfl h | cons _ _ => rfl
      | inr h => cases fp with | nil => exact absurd rfl h | cons _ _ => simp
    simp only [lexU, h1, h2, hne', Bool.false_eq_true, if_false]
    rw [lexExp_ex _ rest ex hex hs2]
    simp [List.append_assoc]
  | false =>
    have hfp0 : fp = [] := hdf rfl
    subst hfp0
    simp only [fracStr, Bool.false_eq_true, if_false, List.nil_append]
    have hhd : ∀ c r, exStr ex ++ rest = c :: r → isDigit c = false ∧ c ≠ '.' := by
      intro c r h
      cases ex with
      | none =>
        simp only [exStr, List.nil_append] at h
        exact ⟨(hs c r h).1, (hs c r h).2.2 (by simp)⟩
      | some p =>
        obtain ⟨n, ds⟩ := p
        simp only [exStr, List.cons_append, List.cons.injEq] at h
        rw [← h.1]; exact ⟨by decide, by decide⟩
    have h1 : spanD (ip ++ (exStr ex ++ rest)) = (ip, exStr ex ++ rest) :=
      span_digits_stop ip _ hip (fun c r h => (hhd c r h).1)
    have hipne : ip.isEmpty = false := by
      cases hne with
      | inl h => cases ip with | nil => exact absurd rfl h | cons _ _ => rfl
      | inr h => exact absurd rfl h
    simp only [lexU, h1]
    cases hr : exStr ex ++ rest with
    | nil =>
      simp only [hipne, Bool.false_eq_true, if_false]
      have := lexExp_ex (sg ++ ip) rest ex hex hs2
      rw [hr] at this
      rw [this]; simp [List.append_assoc]
    | cons c r =>
      have hc := (hhd c r hr).2
      have := lexExp_ex (sg ++ ip) rest ex hex hs2
      rw [hr] at this
      split
      · rename_i heq; cases heq; exact absurd rfl hc
      · simp only [hipne, Bool.false_eq_true, if_false]
        rw [this]; simp [List.append_assoc]

structure WfView (v : NumView) : Prop where
  hip : ∀ c ∈ v.ip, isDigit c = true
  hfp : ∀ c ∈ v.fp, isDigit c = true
  hdf : v.dot = false → v.fp = []
  hne : v.ip ≠ [] ∨ v.fp ≠ []
  hex : match v.ex with | none => True | some (_, ds) => (∀ c ∈ ds, isDigit c = true) ∧ ds ≠ []

theorem wf_of_bool (v : NumView) (h : v.wf = true) : WfView v := by
  unfold NumView.wf at h
  simp only [Bool.and_eq_true, List.all_eq_true, Bool.or_eq_true, Bool.not_eq_true', List.isEmpty_eq_false_iff,
    List.isEmpty_iff] at h
  obtain ⟨⟨⟨⟨h1, h2⟩, h3⟩, h4⟩, h5⟩ := h
  refine ⟨h1, h2, ?_, ?_, ?_⟩
  · intro hd; cases h3 with
    | inl h => rw [hd] at h; exact absurd h (by decide)
    | inr h => exact h
  · exact h4
  · cases hx : v.ex with
    | none => trivial
    | some p =>
      obtain ⟨n, ds⟩ := p
      rw [hx] at h5
      simp only [Bool.and_eq_true, List.all_eq_true, Bool.not_eq_true', List.isEmpty_eq_false_iff] at h5
      exact h5

theorem body_eq (v : NumView) :
    v.render = (if v.neg then ['-'] else []) ++ (v.ip ++ (fracStr v.dot v.fp ++ exStr v.ex)) := by
  rw [render_eq]; rfl

/-- the lexer's number scanner reads back exactly a rendered number when what follows cannot extend it -/
theorem lexNumber_render (v : NumView) (rest : List Char) (hwf : WfView v) (hs : Stop v.isInt rest) :
    lexNumber (v.render ++ rest) = some (v.render, rest) := by
  have hb := lexU_body (if v.neg then ['-'] else []) v.ip v.fp v.dot v.ex rest hwf.hip hwf.hfp hwf.hdf hwf.hne hwf.hex
    (by simpa [NumView.isInt] using hs)
  rw [lexNumber_eq, body_eq]
  cases hn : v.neg with
  | true =>
    rw [hn] at hb
    simp only [if_true, List.cons_append, List.nil_append, takeSign] at hb ⊢
    simpa [List.append_assoc] using hb
  | false =>
    rw [hn] at hb
    simp only [Bool.false_eq_true, if_false, List.nil_append] at hb ⊢
    -- the first character is a digit or the dot
    have hts : takeSign (v.ip ++ (fracStr v.dot v.fp ++ exStr v.ex) ++ rest) =
        ([], v.ip ++ (fracStr v.dot v.fp ++ exStr v.ex) ++ rest) := by
      cases hip : v.ip with
      | cons d t =>
        have hd := hwf.hip d (by rw [hip]; simp)
        obtain ⟨h1, h2, _, _⟩ := digit_not_sign d hd
        simpa using takeSign_nosign d _ h1 h2
      | nil =>
        have hfpne : v.fp ≠ [] := by
          cases hwf.hne with
          | inl h => exact absurd hip h
          | inr h => exact h
        have hdot : v.dot = true := by
          cases hd : v.dot with
          | true => rfl
          | false => exact absurd (hwf.hdf hd) hfpne
        simp only [hdot, fracStr, if_true, List.nil_append, List.cons_append]
        exact takeSign_nosign '.' _ (by decide) (by decide)
    rw [hts]
    simpa [List.append_assoc] using hb

/-! ## what `copyNumber` writes -/

theorem goodNum_view (s : List Char) (h : goodNum s = true) :
    ∃ v : NumView, WfView v ∧ v.zeroOk = true ∧ s = v.render := by
  unfold goodNum at h
  simp only [Bool.and_eq_true, beq_iff_eq] at h
  exact ⟨viewOf s, wf_of_bool _ h.1.1, h.1.2, h.2.symm⟩

theorem ne_of_lt_A (c l : Char) (h : c < 'A') (hl : 'A' ≤ l) : c ≠ l := by
  intro e; subst e
  rw [Char.lt_def] at h; rw [Char.le_def] at hl
  have h1 := UInt32.lt_iff_toNat_lt.1 h
  have h2 := UInt32.le_iff_toNat_le.1 hl
  omega

theorem digit_lt_A (c : Char) (h : isDigit c = true) : c < 'A' := by
  simp only [isDigit, Bool.and_eq_true, decide_eq_true_eq] at h
  have h2 := h.2
  rw [Char.le_def] at h2; rw [Char.lt_def]
  have := UInt32.le_iff_toNat_le.1 h2
  apply UInt32.lt_iff_toNat_lt.2
  have e1 : ('9' : Char).val.toNat = 57 := by decide
  have e2 : ('A' : Char).val.toNat = 65 := by decide
  omega

theorem kindOf_none_of_lt (c : Char) (h : c < 'A') : kindOf c = none := by
  have n := fun l hl => ne_of_lt_A c l h hl
  simp [kindOf, n 'M' (by decide), n 'm' (by decide), n 'L' (by decide), n 'l' (by decide), n 'H' (by decide), n 'h' (by decide),
    n 'V' (by decide), n 'v' (by decide), n 'C' (by decide), n 'c' (by decide), n 'S' (by decide), n 's' (by decide),
    n 'Q' (by decide), n 'q' (by decide), n 'T' (by decide), n 't' (by decide), n 'A' (by decide), n 'a' (by decide),
    n 'Z' (by decide), n 'z' (by decide)]

/-- characters a printed number can start with -/
def NumStart (c : Char) : Prop := isDigit c = true ∨ c = '.' ∨ c = '-'

theorem numStart_facts (c : Char) (h : NumStart c) :
    isWsp c = false ∧ (c == ',') = false ∧ kindOf c = none ∧ isExpChar c = false := by
  have hlt : c < 'A' := by
    rcases h with h | h | h
    · exact digit_lt_A c h
    · subst h; decide
    · subst h; decide
  refine ⟨?_, ?_, kindOf_none_of_lt c hlt, ?_⟩
  · rcases h with h | h | h
    · simp only [isWsp, Bool.or_eq_false_iff, beq_eq_false_iff_ne]
      refine ⟨⟨⟨?_, ?_⟩, ?_⟩, ?_⟩ <;> (intro e; subst e; revert h; decide)
    · subst h; decide
    · subst h; decide
  · rcases h with h | h | h
    · simp only [beq_eq_false_iff_ne]; intro e; subst e; revert h; decide
    · subst h; decide
    · subst h; decide
  · rcases h with h | h | h
    · exact (digit_not_sign c h).2.2.2
    · subst h; decide
    · subst h; decide

theorem render_head (v : NumView) (hwf : WfView v) :
    ∃ c t, v.render = c :: t ∧ NumStart c ∧
      (v.neg = false → (isDigit c = true ∧ v.ip = c :: v.ip.tail ∧ v.ip ≠ []) ∨ (c = '.' ∧ v.ip = [])) ∧
      (v.neg = true → c = '-') := by
  rw [body_eq]
  cases hn : v.neg with
  | true => exact ⟨'-', _, rfl, Or.inr (Or.inr rfl), by simp, by simp⟩
  | false =>
    cases hip : v.ip with
    | cons d t =>
      have hd := hwf.hip d (by rw [hip]; simp)
      exact ⟨d, _, rfl, Or.inl hd, by simp [hd], by simp⟩
    | nil =>
      have hfpne : v.fp ≠ [] := by
        cases hwf.hne with
        | inl h => exact absurd hip h
        | inr h => exact h
      have hdot : v.dot = true := by
        cases hd : v.dot with
        | true => rfl
        | false => exact absurd (hwf.hdf hd) hfpne
      simp only [hdot, fracStr, if_true, Bool.false_eq_true, if_false, List.nil_append, List.cons_append]
      exact ⟨'.', _, rfl, Or.inr (Or.inl rfl), by simp, by simp⟩

theorem any_digits (ds : List Char) (h : ∀ c ∈ ds, isDigit c = true) :
    ds.any (fun c => c == '.' || c == 'e' || c == 'E') = false := by
  rw [List.any_eq_false]
  intro c hc
  obtain ⟨_, _, h3, h4⟩ := digit_not_sign c (h c hc)
  simp only [isExpChar, Bool.or_eq_false_iff, beq_eq_false_iff_ne] at h4
  simp [h3, h4.1, h4.2]

theorem isPlainInt_render (v : NumView) (hwf : WfView v) : isPlainInt v.render = v.isInt := by
  rw [body_eq]
  unfold isPlainInt NumView.isInt
  simp only [List.any_append, any_digits v.ip hwf.hip]
  have hsg : (if v.neg = true then ['-'] else []).any (fun c => c == '.' || c == 'e' || c == 'E') = false := by
    cases v.neg <;> simp
  rw [hsg]
  cases hd : v.dot with
  | true => simp [fracStr]
  | false =>
    simp only [fracStr, Bool.false_eq_true, if_false, List.any_nil, Bool.false_or, Bool.not_false, Bool.true_and]
    cases hx : v.ex with
    | none => simp [exStr]
    | some p => obtain ⟨n, ds⟩ := p; simp [exStr]

theorem render_int (v : NumView) (hwf : WfView v) (hi : v.isInt = true) :
    v.render = (if v.neg then ['-'] else []) ++ v.ip := by
  rw [body_eq]
  unfold NumView.isInt at hi
  simp only [Bool.and_eq_true, Bool.not_eq_true', Option.isNone_iff_eq_none] at hi
  simp [hi.1, hi.2, fracStr, exStr]

/-- the `00` → `e2` rewrite produces a well-formed non-integer lexeme with the same first character -/
theorem body00_view (v : NumView) (hwf : WfView v) (hz : v.zeroOk = true) :
    ∃ v' : NumView, WfView v' ∧ body00 v.render = v'.render ∧
      v'.isInt = (isPlainInt v.render && !rewrites00 v.render) ∧ v'.neg = v.neg ∧
      (v.ip = [] → v'.ip = []) ∧ (∀ d t, v.ip = d :: t → ∃ t', v'.ip = d :: t') := by
  cases hr : rewrites00 v.render with
  | false =>
    refine ⟨v, hwf, by simp [body00, hr], by simp [isPlainInt_render v hwf], rfl, fun h => h, fun d t h => ⟨t, h⟩⟩
  | true =>
    have hr' := hr
    unfold rewrites00 at hr'
    simp only [Bool.and_eq_true] at hr'
    have hi : v.isInt = true := by rw [← isPlainInt_render v hwf]; exact hr'.1
    have hren := render_int v hwf hi
    have hm := hr'.2
    rw [hren, List.reverse_append] at hm
    -- shape of ip.reverse
    cases hrev : v.ip.reverse with
    | nil =>
      rw [hrev] at hm
      cases hn : v.neg <;> simp [hn] at hm
    | cons a t1 =>
      cases t1 with
      | nil =>
        rw [hrev] at hm
        cases hn : v.neg <;> simp [hn] at hm
      | cons b t =>
        rw [hrev] at hm
        simp only [List.cons_append] at hm
        have ha : a = '0' := by
          by_cases h : a = '0'
          · exact h
          · exfalso; revert hm; split <;> simp_all
        have hb : b = '0' := by
          by_cases h : b = '0'
          · exact h
          · exfalso; revert hm; split <;> simp_all
        subst ha; subst hb
        have hip : v.ip = t.reverse ++ ['0', '0'] := by
          have := congrArg List.reverse hrev
          simpa using this
        have htne : t ≠ [] := by
          intro ht; subst ht
          unfold NumView.zeroOk at hz
          rw [hip] at hz
          simp at hz
        refine ⟨{ v with ip := t.reverse, ex := some (false, ['2']) }, ?_, ?_, ?_, rfl, ?_, ?_⟩
        · refine ⟨?_, hwf.hfp, hwf.hdf, Or.inl (by simpa using htne), ?_⟩
          · intro c hc; exact hwf.hip c (by rw [hip]; simp at hc ⊢; exact Or.inl hc)
          · exact ⟨by intro c hc; simp at hc; subst hc; decide, by simp⟩
        · unfold body00
          rw [hr, if_pos rfl, hren, List.reverse_append, hrev]
          rw [body_eq]
          unfold NumView.isInt at hi
          simp only [Bool.and_eq_true, Bool.not_eq_true', Option.isNone_iff_eq_none] at hi
          simp [hi.1, fracStr, exStr, List.reverse_append]
        · simp [NumView.isInt, hr, isPlainInt_render v hwf]
        · intro h; rw [h] at hip; simp at hip
        · intro d t' h
          rw [hip] at h
          cases hrt : t.reverse with
          | nil => exact absurd (by simpa using hrt) htne
          | cons x xs =>
            rw [hrt] at h
            simp only [List.cons_append, List.cons.injEq] at h
            exact ⟨xs, by simp [h.1]⟩

def headOf (v : NumView) : Char :=
  if v.neg then '-' else match v.ip with | d :: _ => d | [] => '.'

theorem render_headD (v : NumView) (hwf : WfView v) :
    ∃ t, v.render = headOf v :: t ∧ NumStart (headOf v) := by
  obtain ⟨c, t, h1, h2, h3, h4⟩ := render_head v hwf
  refine ⟨t, ?_, ?_⟩
  · rw [h1]; congr 1
    unfold headOf
    cases hn : v.neg with
    | true => simp [h4 hn]
    | false =>
      rcases h3 hn with ⟨_, h, _⟩ | ⟨h, hip⟩
      · rw [h]; simp
      · simp [hip, h]
  · unfold headOf
    cases hn : v.neg with
    | true => exact Or.inr (Or.inr (by simp))
    | false =>
      cases hip : v.ip with
      | nil => exact Or.inr (Or.inl (by simp))
      | cons d t => exact Or.inl (by simpa using hwf.hip d (by rw [hip]; simp))

/-- the lexeme `copyNumber` writes for `s` in state `st` -/
def numLexeme (st : PState) (s : List Char) : List Char :=
  if needSep st (s.headD ' ') && (s.headD ' ' == '0') && !st.prevDigitIsInt then ['.', '0'] else body00 s

def dotZero : NumView := { neg := false, ip := [], dot := true, fp := ['0'], ex := none }

theorem dotZero_wf : WfView dotZero :=
  ⟨by simp [dotZero], by intro c hc; simp [dotZero] at hc; subst hc; decide, by simp [dotZero], Or.inr (by simp [dotZero]),
   by simp [dotZero]⟩

theorem copyNumber_spec (st : PState) (s : List Char) (hg : goodNum s = true)
    (hinv : st.prevDigit = true → st.prevFlag = false) :
    ∃ (pv : NumView) (sep : List Char), WfView pv ∧ (sep = [] ∨ sep = [' ']) ∧
      (copyNumber st s).2 = sep ++ pv.render ∧ numLexeme st s = pv.render ∧
      (copyNumber st s).1.prevDigit = true ∧ (copyNumber st s).1.prevDigitIsInt = pv.isInt ∧
      (copyNumber st s).1.prevFlag = false ∧ (copyNumber st s).1.cmd = st.cmd ∧
      (st.prevDigit = true → ∀ rest, Stop st.prevDigitIsInt ((copyNumber st s).2 ++ rest)) := by
  obtain ⟨v, hwf, hz, hs⟩ := goodNum_view s hg
  obtain ⟨t, hrt, hns⟩ := render_headD v hwf
  have hc0 : s.headD ' ' = headOf v := by rw [hs, hrt]; rfl
  cases hA : (needSep st (s.headD ' ') && (s.headD ' ' == '0') && !st.prevDigitIsInt) with
  | true =>
    have hA' := hA
    simp only [Bool.and_eq_true, Bool.not_eq_true', beq_iff_eq] at hA'
    obtain ⟨⟨hsep, h0⟩, hni⟩ := hA'
    have hpd : st.prevDigit = true := by
      unfold needSep at hsep; simp only [Bool.and_eq_true] at hsep; exact hsep.1
    have hcn : copyNumber st s = (st, ['.', '0']) := by
      simp only [copyNumber, hA, if_true]
    refine ⟨dotZero, [], dotZero_wf, Or.inl rfl, ?_, ?_, ?_, ?_, ?_, ?_, ?_⟩
    · rw [hcn]; rfl
    · simp only [numLexeme, hA, if_true]; rfl
    · rw [hcn]; exact hpd
    · rw [hcn]; exact hni
    · rw [hcn]; exact hinv hpd
    · rw [hcn]
    · intro _ rest c r h
      rw [hcn] at h
      simp only [List.cons_append, List.cons.injEq] at h
      rw [← h.1, hni]
      exact ⟨by decide, by decide, by simp⟩
  | false =>
    obtain ⟨v', hwf', hb, hint, hneg, hip0, hipc⟩ := body00_view v hwf hz
    have hhead : headOf v' = headOf v := by
      unfold headOf
      rw [hneg]
      cases hn : v.neg with
      | true => rfl
      | false =>
        cases hip : v.ip with
        | nil => simp [hip0 hip]
        | cons d t =>
          obtain ⟨t', ht'⟩ := hipc d t hip
          simp [ht']
    obtain ⟨t2, hrt2, _⟩ := render_headD v' hwf'
    have hcn : copyNumber st s =
        ({ st with prevDigit := true, prevDigitIsInt := isPlainInt s && !rewrites00 s, prevFlag := false },
          (if needSep st (s.headD ' ') then [' '] else []) ++ body00 s) := by
      simp only [copyNumber, hA, Bool.false_eq_true, if_false]
    have hout : (copyNumber st s).2 = (if needSep st (s.headD ' ') then [' '] else []) ++ v'.render := by
      rw [hcn, hs, hb]
    refine ⟨v', if needSep st (s.headD ' ') then [' '] else [], hwf', ?_, hout, ?_, ?_, ?_, ?_, ?_, ?_⟩
    · cases needSep st (s.headD ' ') <;> simp
    · simp only [numLexeme, hA, Bool.false_eq_true, if_false]; rw [hs, hb]
    · rw [hcn]
    · rw [hcn, hint, hs]
    · rw [hcn]
    · rw [hcn]
    · intro hpd rest c r h
      rw [hout] at h
      cases hsep : needSep st (s.headD ' ') with
      | true =>
        rw [hsep] at h
        simp only [if_true, List.cons_append, List.nil_append, List.cons.injEq] at h
        rw [← h.1]; exact ⟨by decide, by decide, by simp⟩
      | false =>
        rw [hsep, hrt2, hhead] at h
        simp only [Bool.false_eq_true, if_false, List.nil_append, List.cons_append, List.cons.injEq] at h
        rw [← h.1]
        rw [hc0] at hsep
        unfold needSep at hsep
        simp only [hpd, Bool.true_and, Bool.or_eq_false_iff, Bool.and_eq_false_iff, beq_eq_false_iff_ne] at hsep
        refine ⟨hsep.1, (numStart_facts _ hns).2.2.2, ?_⟩
        intro hi
        rcases hsep.2 with h | h
        · exact h
        · rw [hi] at h; exact absurd h (by decide)

/-! ## single lexer steps -/

theorem lexGo_space (f : Nat) (cur : Char) (k : Nat) (r : List Char) :
    lexGo (f + 1) cur k (' ' :: r) = lexGo f cur k r := by
  simp [lexGo, isWsp]

theorem lexGo_number (f : Nat) (cur : Char) (k : Nat) (c : Char) (t rest lx : List Char)
    (hc : NumStart c) (hfp : flagPos cur k = false) (hl : lexNumber (c :: (t ++ rest)) = some (lx, rest)) :
    lexGo (f + 1) cur k (c :: (t ++ rest)) = (lexGo f cur (k + 1) rest).map (PTok.num lx :: ·) := by
  obtain ⟨h1, h2, h3, _⟩ := numStart_facts c hc
  simp only [lexGo, h1, h2, Bool.or_self, Bool.false_eq_true, if_false, h3, Option.isSome_none, hfp, hl]

theorem lexGo_flagchar (f : Nat) (cur : Char) (k : Nat) (b : Bool) (rest : List Char) (hfp : flagPos cur k = true) :
    lexGo (f + 1) cur k ((if b then '1' else '0') :: rest) = (lexGo f cur (k + 1) rest).map (PTok.flag b :: ·) := by
  cases b
  · have : kindOf '0' = none := by decide
    simp [lexGo, isWsp, this, hfp]
  · have : kindOf '1' = none := by decide
    simp [lexGo, isWsp, this, hfp]

/-- a number item is read back as one number token -/
theorem lex_number_item (st : PState) (s rest : List Char) (cur : Char) (k f : Nat)
    (hg : goodNum s = true) (hinv : st.prevDigit = true → st.prevFlag = false) (hfp : flagPos cur k = false)
    (hrest : Stop (copyNumber st s).1.prevDigitIsInt rest)
    (hf : ((copyNumber st s).2 ++ rest).length < f) :
    ∃ f', rest.length < f' ∧
      lexGo f cur k ((copyNumber st s).2 ++ rest) =
        (lexGo f' cur (k + 1) rest).map (PTok.num (numLexeme st s) :: ·) := by
  obtain ⟨pv, sep, hwf, hsep, hout, hlx, _, hint, _, _, _⟩ := copyNumber_spec st s hg hinv
  obtain ⟨t, hrt, hns⟩ := render_headD pv hwf
  have hl : lexNumber (headOf pv :: (t ++ rest)) = some (pv.render, rest) := by
    have := lexNumber_render pv rest hwf (by rw [← hint]; exact hrest)
    rw [hrt] at this ⊢
    simpa using this
  rw [hout] at hf ⊢
  rw [hlx]
  rcases hsep with rfl | rfl
  · simp only [List.nil_append, hrt, List.cons_append, List.length_cons, List.length_append] at hf ⊢
    obtain ⟨f0, rfl⟩ : ∃ f0, f = f0 + 1 := ⟨f - 1, by omega⟩
    refine ⟨f0, by omega, ?_⟩
    rw [lexGo_number f0 cur k (headOf pv) t rest _ hns hfp hl, hrt]
  · simp only [hrt, List.cons_append, List.nil_append, List.length_cons, List.length_append] at hf ⊢
    obtain ⟨f0, rfl⟩ : ∃ f0, f = f0 + 2 := ⟨f - 2, by omega⟩
    refine ⟨f0, by omega, ?_⟩
    rw [lexGo_space, lexGo_number f0 cur k (headOf pv) t rest _ hns hfp hl, hrt]

/-- a flag item is read back as one flag token, whatever follows -/
theorem lex_flag_item (st : PState) (b : Bool) (rest : List Char) (cur : Char) (k f : Nat)
    (hfp : flagPos cur k = true) (hf : ((copyFlag st b).2 ++ rest).length < f) :
    ∃ f', rest.length < f' ∧
      lexGo f cur k ((copyFlag st b).2 ++ rest) = (lexGo f' cur (k + 1) rest).map (PTok.flag b :: ·) := by
  unfold copyFlag at hf ⊢
  cases hp : st.prevFlag with
  | true =>
    simp only [hp, if_true, List.cons_append, List.nil_append, List.length_cons] at hf ⊢
    obtain ⟨f0, rfl⟩ : ∃ f0, f = f0 + 1 := ⟨f - 1, by omega⟩
    exact ⟨f0, by omega, lexGo_flagchar f0 cur k b rest hfp⟩
  | false =>
    simp only [hp, Bool.false_eq_true, if_false, List.cons_append, List.nil_append, List.length_cons] at hf ⊢
    obtain ⟨f0, rfl⟩ : ∃ f0, f = f0 + 2 := ⟨f - 2, by omega⟩
    refine ⟨f0, by omega, ?_⟩
    rw [lexGo_space, lexGo_flagchar f0 cur k b rest hfp]

/-! ## item lists -/

def itemTok (st : PState) : PItem → PTok
  | .num s => .num (numLexeme st s)
  | .flag b => .flag b

/-- the tokens an item list is printed as (with the `.0` / `e2` spellings the printer chooses) -/
def itemsToks : PState → List PItem → List PTok
  | _, [] => []
  | st, it :: r => itemTok st it :: itemsToks (emitItem st it).1 r

/-- flags sit exactly at the arc-flag positions of the lexer's context -/
def posOk (cur : Char) : Nat → List PItem → Bool
  | _, [] => true
  | k, .num _ :: r => !flagPos cur k && posOk cur (k + 1) r
  | k, .flag _ :: r => flagPos cur k && posOk cur (k + 1) r

def GoodItems (items : List PItem) : Prop := ∀ s, PItem.num s ∈ items → goodNum s = true

def PInv (st : PState) : Prop := st.prevDigit = true → st.prevFlag = false

def StopAfter (st : PState) (rest : List Char) : Prop := st.prevDigit = true → Stop st.prevDigitIsInt rest

theorem emitItem_inv (st : PState) (it : PItem) (hg : ∀ s, it = .num s → goodNum s = true) (hinv : PInv st) :
    PInv (emitItem st it).1 := by
  cases it with
  | num s =>
    obtain ⟨_, _, _, _, _, _, _, _, hpf, _, _⟩ := copyNumber_spec st s (hg s rfl) hinv
    intro _; exact hpf
  | flag b => intro h; simp [emitItem, copyFlag] at h

theorem stopAfter_emitItem (st : PState) (it : PItem) (rest : List Char)
    (hg : ∀ s, it = .num s → goodNum s = true) (hinv : PInv st) :
    StopAfter st ((emitItem st it).2 ++ rest) := by
  intro hpd
  cases it with
  | num s =>
    obtain ⟨_, _, _, _, _, _, _, _, _, _, hst⟩ := copyNumber_spec st s (hg s rfl) hinv
    exact hst hpd rest
  | flag b =>
    intro c r h
    simp only [emitItem, copyFlag, hinv hpd, Bool.false_eq_true, if_false, List.cons_append, List.cons.injEq] at h
    rw [← h.1]; exact ⟨by decide, by decide, by simp⟩

theorem emitItems_cons (st : PState) (it : PItem) (r : List PItem) :
    emitItems st (it :: r) = ((emitItems (emitItem st it).1 r).1, (emitItem st it).2 ++ (emitItems (emitItem st it).1 r).2) := rfl

theorem lex_items : ∀ (items : List PItem) (st : PState) (cur : Char) (k : Nat) (rest : List Char) (f : Nat),
    GoodItems items → posOk cur k items = true → PInv st →
    StopAfter (emitItems st items).1 rest → ((emitItems st items).2 ++ rest).length < f →
    ∃ f', rest.length < f' ∧
      lexGo f cur k ((emitItems st items).2 ++ rest) =
        (lexGo f' cur (k + items.length) rest).map (itemsToks st items ++ ·) := by
  intro items
  induction items with
  | nil =>
    intro st cur k rest f _ _ _ _ hf
    refine ⟨f, by simpa [emitItems] using hf, ?_⟩
    simp [emitItems, itemsToks]
  | cons it r ih =>
    intro st cur k rest f hg hpos hinv hstop hf
    rw [emitItems_cons] at hstop hf ⊢
    simp only [List.append_assoc] at hf ⊢
    have hg1 : ∀ s, it = .num s → goodNum s = true := fun s e => hg s (by rw [e]; simp)
    have hgr : GoodItems r := fun s hs => hg s (by simp [hs])
    have hinv' := emitItem_inv st it hg1 hinv
    -- what follows the first item cannot extend it
    have hnext : StopAfter (emitItem st it).1 ((emitItems (emitItem st it).1 r).2 ++ rest) := by
      cases r with
      | nil => simpa [emitItems] using hstop
      | cons it2 r2 =>
        rw [emitItems_cons]
        simp only [List.append_assoc]
        exact stopAfter_emitItem _ it2 _ (fun s e => hg s (by rw [e]; simp)) hinv'
    cases it with
    | num s =>
      simp only [posOk, Bool.and_eq_true, Bool.not_eq_true'] at hpos
      obtain ⟨_, _, _, _, _, _, hpd, _, _, _, _⟩ := copyNumber_spec st s (hg1 s rfl) hinv
      obtain ⟨f1, hf1, h1⟩ := lex_number_item st s _ cur k f (hg1 s rfl) hinv hpos.1 (hnext hpd) hf
      obtain ⟨f2, hf2, h2⟩ := ih (emitItem st (.num s)).1 cur (k + 1) rest f1 hgr hpos.2 hinv' hstop hf1
      refine ⟨f2, hf2, ?_⟩
      simp only [emitItem] at h1 h2 ⊢
      rw [h1, h2, Option.map_map]
      simp only [itemsToks, itemTok, emitItem, List.length_cons, List.cons_append]
      have : k + 1 + r.length = k + (r.length + 1) := by omega
      rw [this]; rfl
    | flag b =>
      simp only [posOk, Bool.and_eq_true] at hpos
      obtain ⟨f1, hf1, h1⟩ := lex_flag_item st b _ cur k f hpos.1 hf
      obtain ⟨f2, hf2, h2⟩ := ih (emitItem st (.flag b)).1 cur (k + 1) rest f1 hgr hpos.2 hinv' hstop hf1
      refine ⟨f2, hf2, ?_⟩
      simp only [emitItem] at h1 h2 ⊢
      rw [h1, h2, Option.map_map]
      simp only [itemsToks, itemTok, emitItem, List.length_cons, List.cons_append]
      have : k + 1 + r.length = k + (r.length + 1) := by omega
      rw [this]; rfl

/-! ## groups -/

theorem letter_facts (k : Kind) (rel : Bool) :
    isWsp (letter k rel) = false ∧ (letter k rel == ',') = false ∧ kindOf (letter k rel) = some (k, rel) ∧
    isDigit (letter k rel) = false ∧ isExpChar (letter k rel) = false ∧ letter k rel ≠ '.' ∧
    isArc (letter k rel) = (k == .A) := by
  cases k <;> cases rel <;> decide

theorem lexGo_letter (f : Nat) (cur : Char) (n : Nat) (k : Kind) (rel : Bool) (r : List Char) :
    lexGo (f + 1) cur n (letter k rel :: r) = (lexGo f (letter k rel) 0 r).map (PTok.cmd (letter k rel) :: ·) := by
  obtain ⟨h1, h2, h3, _⟩ := letter_facts k rel
  simp [lexGo, h1, h2, h3]

theorem copyNumber_cmd (st : PState) (s : List Char) : (copyNumber st s).1.cmd = st.cmd := by
  unfold copyNumber
  dsimp only
  split <;> rfl

theorem emitItems_cmd : ∀ (items : List PItem) (st : PState), (emitItems st items).1.cmd = st.cmd := by
  intro items
  induction items with
  | nil => intro st; rfl
  | cons it r ih =>
    intro st
    rw [emitItems_cons]
    simp only
    rw [ih]
    cases it with
    | num s => exact copyNumber_cmd st s
    | flag b => rfl

/-- numbers at non-flag indices, flags at the flag indices of an arc group -/
def itemsOk (k : Kind) : Nat → List PItem → Bool
  | _, [] => true
  | i, .num _ :: r => !isFlagIdx k i && itemsOk k (i + 1) r
  | i, .flag _ :: r => isFlagIdx k i && itemsOk k (i + 1) r

theorem posOk_of_itemsOk (cur : Char) (kind : Kind) (k0 : Nat) (harc : isArc cur = (kind == .A))
    (hk0 : isArc cur = true → k0 % 7 = 0) :
    ∀ (items : List PItem) (i : Nat), itemsOk kind i items = true → posOk cur (k0 + i) items = true := by
  intro items
  induction items with
  | nil => intro i _; rfl
  | cons it r ih =>
    intro i h
    have hfp : flagPos cur (k0 + i) = isFlagIdx kind i := by
      unfold flagPos isFlagIdx
      rw [harc]
      cases hA : (kind == Kind.A) with
      | false => simp
      | true =>
        have := hk0 (by rw [harc, hA])
        have e : (k0 + i) % 7 = i % 7 := by omega
        simp [e]
    cases it with
    | num s =>
      simp only [itemsOk, Bool.and_eq_true] at h
      simp only [posOk, hfp, Bool.and_eq_true]
      exact ⟨h.1, by have := ih (i + 1) h.2; rwa [Nat.add_assoc]⟩
    | flag b =>
      simp only [itemsOk, Bool.and_eq_true] at h
      simp only [posOk, hfp, Bool.and_eq_true]
      exact ⟨h.1, by have := ih (i + 1) h.2; rwa [Nat.add_assoc]⟩

theorem emitItems_inv : ∀ (items : List PItem) (st : PState), GoodItems items → PInv st → PInv (emitItems st items).1 := by
  intro items
  induction items with
  | nil => intro st _ h; exact h
  | cons it r ih =>
    intro st hg hinv
    rw [emitItems_cons]
    exact ih _ (fun s hs => hg s (by simp [hs])) (emitItem_inv st it (fun s e => hg s (by rw [e]; simp)) hinv)

structure WfGroup (g : OutGroup) : Prop where
  len : g.k ≠ .Z → g.items.length = g.k.arity
  good : GoodItems g.items
  ok : itemsOk g.k 0 g.items = true
  force : g.k = .M → g.force = true

/-- the tokens one group is printed as -/
def groupToks (st : PState) (g : OutGroup) : List PTok :=
  if g.k == .Z then [.cmd 'z']
  else
    let st0 := if g.force then { st with cmd := none } else st
    (if needLetter st0 g.k g.rel then [PTok.cmd (letter g.k g.rel)] else []) ++
      itemsToks (emitCmd st0 g.k g.rel).1 g.items

def groupsToks : PState → List OutGroup → List PTok
  | _, [] => []
  | st, g :: r => groupToks st g ++ groupsToks (emitGroup st g).1 r

/-- relation between the printer state and the lexer's context between groups -/
structure LInv (st : PState) (cur : Char) (k0 : Nat) : Prop where
  cmd : match st.cmd with | none => cur = '\x00' | some (k, rel) => cur = letter k rel
  arc : isArc cur = true → k0 % 7 = 0
  inv : PInv st

theorem arity_pos (k : Kind) (h : k ≠ .Z) : 0 < k.arity := by cases k <;> simp [Kind.arity] at h ⊢

theorem lex_group (st : PState) (g : OutGroup) (rest : List Char) (cur : Char) (k0 f : Nat)
    (hwf : WfGroup g) (hinv : LInv st cur k0) (hstop : StopAfter (emitGroup st g).1 rest)
    (hf : ((emitGroup st g).2 ++ rest).length < f) :
    ∃ f' cur' k0', rest.length < f' ∧ LInv (emitGroup st g).1 cur' k0' ∧
      lexGo f cur k0 ((emitGroup st g).2 ++ rest) = (lexGo f' cur' k0' rest).map (groupToks st g ++ ·) := by
  cases hz : (g.k == Kind.Z) with
  | true =>
    simp only [emitGroup, hz, if_true, List.cons_append, List.nil_append, List.length_cons] at hf hstop ⊢
    obtain ⟨f0, rfl⟩ : ∃ f0, f = f0 + 1 := ⟨f - 1, by omega⟩
    refine ⟨f0, 'z', 0, by omega, ⟨rfl, by intro h; exact absurd h (by decide), by intro h; exact absurd h (by decide)⟩, ?_⟩
    have := lexGo_letter f0 cur k0 .Z true rest
    simp only [letter, Kind.lower, if_true] at this
    rw [this]; simp [groupToks, hz]
  | false =>
    have hkz : g.k ≠ .Z := by intro e; rw [e] at hz; exact absurd hz (by decide)
    -- st0: state after the optional reset
    generalize hst0 : (if g.force then { st with cmd := none } else st : PState) = st0
    have hinv0 : PInv st0 := by
      rw [← hst0]; cases g.force
      · exact hinv.inv
      · exact hinv.inv
    have heg : emitGroup st g = ((emitItems (emitCmd st0 g.k g.rel).1 g.items).1,
        (emitCmd st0 g.k g.rel).2 ++ (emitItems (emitCmd st0 g.k g.rel).1 g.items).2) := by
      simp only [emitGroup, hz, Bool.false_eq_true, if_false, hst0]
    have hgt : groupToks st g = (if needLetter st0 g.k g.rel then [PTok.cmd (letter g.k g.rel)] else []) ++
        itemsToks (emitCmd st0 g.k g.rel).1 g.items := by
      simp only [groupToks, hz, Bool.false_eq_true, if_false, hst0]
    rw [heg] at hstop hf ⊢
    rw [hgt]
    have hlen := hwf.len hkz
    cases hnl : needLetter st0 g.k g.rel with
    | true =>
      have hec : emitCmd st0 g.k g.rel =
          ({ st0 with cmd := some (g.k, g.rel), prevDigit := false, prevDigitIsInt := false }, [letter g.k g.rel]) := by
        simp only [emitCmd, hnl, if_true]
      rw [hec] at hstop hf ⊢
      simp only [List.cons_append, List.nil_append, List.length_cons, if_true] at hf hstop ⊢
      obtain ⟨f0, rfl⟩ : ∃ f0, f = f0 + 1 := ⟨f - 1, by omega⟩
      rw [lexGo_letter]
      have hpos : posOk (letter g.k g.rel) (0 + 0) g.items = true :=
        posOk_of_itemsOk (letter g.k g.rel) g.k 0 (letter_facts g.k g.rel).2.2.2.2.2.2 (by intro _; rfl) g.items 0 hwf.ok
      obtain ⟨f1, hf1, h1⟩ := lex_items g.items _ (letter g.k g.rel) 0 rest f0 hwf.good (by simpa using hpos)
        (by intro h; exact absurd h (by simp)) hstop (by omega)
      refine ⟨f1, letter g.k g.rel, 0 + g.items.length, hf1, ⟨?_, ?_, ?_⟩, ?_⟩
      · rw [emitItems_cmd]
      · intro ha
        rw [(letter_facts g.k g.rel).2.2.2.2.2.2] at ha
        have : g.k = .A := by simpa using ha
        rw [hlen, this]; rfl
      · exact emitItems_inv _ _ hwf.good (by intro h; exact absurd h (by simp))
      · rw [h1, Option.map_map]; rfl
    | false =>
      have hec : emitCmd st0 g.k g.rel = (st0, []) := by
        simp only [emitCmd, hnl, Bool.false_eq_true, if_false]
      rw [hec] at hstop hf ⊢
      simp only [List.nil_append, Bool.false_eq_true, if_false] at hf hstop ⊢
      -- no reset happened and the previous letter implies this command
      have hforce : g.force = false := by
        cases hfo : g.force with
        | false => rfl
        | true =>
          rw [hfo] at hst0
          simp only [if_true] at hst0
          rw [← hst0] at hnl
          simp [needLetter] at hnl
      have hst : st0 = st := by rw [← hst0, hforce]; rfl
      subst hst
      have hcmd : st0.cmd = some (g.k, g.rel) ∨ (st0.cmd = some (.M, g.rel) ∧ g.k = .L) := by
        unfold needLetter at hnl
        simp only [Bool.and_eq_false_iff, bne_eq_false_iff_eq, Bool.not_eq_false', Bool.and_eq_true, beq_iff_eq] at hnl
        rcases hnl with h | h
        · exact Or.inl h
        · exact Or.inr h
      have hcur : isArc cur = (g.k == .A) := by
        have hc := hinv.cmd
        rcases hcmd with h | ⟨h, hk⟩
        · rw [h] at hc; simp only at hc; rw [hc]; exact (letter_facts g.k g.rel).2.2.2.2.2.2
        · rw [h] at hc; simp only at hc; rw [hc, hk]; exact (letter_facts .M g.rel).2.2.2.2.2.2
      have hpos : posOk cur (k0 + 0) g.items = true :=
        posOk_of_itemsOk cur g.k k0 hcur hinv.arc g.items 0 hwf.ok
      obtain ⟨f1, hf1, h1⟩ := lex_items g.items st0 cur k0 rest f hwf.good (by simpa using hpos) hinv.inv hstop hf
      refine ⟨f1, cur, k0 + g.items.length, hf1, ⟨?_, ?_, ?_⟩, ?_⟩
      · rw [emitItems_cmd]; exact hinv.cmd
      · intro ha
        have h7 := hinv.arc ha
        rw [hcur] at ha
        have : g.k = .A := by simpa using ha
        rw [hlen, this]; simp only [Kind.arity]; omega
      · exact emitItems_inv _ _ hwf.good hinv.inv
      · rw [h1]

def WfGroups (gs : List OutGroup) : Prop := ∀ g ∈ gs, WfGroup g

theorem renderFrom_cons (st : PState) (g : OutGroup) (r : List OutGroup) :
    renderFrom st (g :: r) = (emitGroup st g).2 ++ renderFrom (emitGroup st g).1 r := rfl

/-- what a group list is printed as can never extend the number printed before it -/
theorem stopAfter_render (st : PState) (gs : List OutGroup) (hwf : WfGroups gs) (hinv : PInv st) :
    StopAfter st (renderFrom st gs) := by
  intro hpd
  cases gs with
  | nil => intro c r h; simp [renderFrom] at h
  | cons g r =>
    rw [renderFrom_cons]
    have hg := hwf g (by simp)
    cases hz : (g.k == Kind.Z) with
    | true =>
      intro c t h
      simp only [emitGroup, hz, if_true, List.cons_append, List.cons.injEq] at h
      rw [← h.1]; exact ⟨by decide, by decide, by simp⟩
    | false =>
      have hkz : g.k ≠ .Z := by intro e; rw [e] at hz; exact absurd hz (by decide)
      generalize hst0 : (if g.force then { st with cmd := none } else st : PState) = st0
      have heg : (emitGroup st g).2 = (emitCmd st0 g.k g.rel).2 ++ (emitItems (emitCmd st0 g.k g.rel).1 g.items).2 := by
        simp only [emitGroup, hz, Bool.false_eq_true, if_false, hst0]
      rw [heg]
      cases hnl : needLetter st0 g.k g.rel with
      | true =>
        intro c t h
        simp only [emitCmd, hnl, if_true, List.cons_append, List.nil_append, List.cons.injEq] at h
        obtain ⟨_, _, _, h4, h5, h6, _⟩ := letter_facts g.k g.rel
        rw [← h.1]; exact ⟨h4, h5, fun _ => h6⟩
      | false =>
        have hforce : g.force = false := by
          cases hfo : g.force with
          | false => rfl
          | true =>
            rw [hfo] at hst0
            simp only [if_true] at hst0
            rw [← hst0] at hnl
            simp [needLetter] at hnl
        have hst : st0 = st := by rw [← hst0, hforce]; rfl
        subst hst
        have hec : emitCmd st0 g.k g.rel = (st0, []) := by
          simp only [emitCmd, hnl, Bool.false_eq_true, if_false]
        rw [hec]
        simp only [List.nil_append]
        have hlen := hg.len hkz
        have hpos := arity_pos g.k hkz
        cases hit : g.items with
        | nil => rw [hit] at hlen; simp at hlen; omega
        | cons it r2 =>
          rw [emitItems_cons]
          simp only [List.append_assoc]
          exact stopAfter_emitItem st0 it _ (fun s e => hg.good s (by rw [hit, e]; simp)) hinv hpd

theorem emitCmd_inv (st0 : PState) (k : Kind) (rel : Bool) (h : PInv st0) : PInv (emitCmd st0 k rel).1 := by
  cases hnl : needLetter st0 k rel with
  | true => simp only [emitCmd, hnl, if_true]; intro h'; exact absurd h' (by simp)
  | false => simp only [emitCmd, hnl, Bool.false_eq_true, if_false]; exact h

theorem emitGroup_inv (st : PState) (g : OutGroup) (hwf : WfGroup g) (hinv : PInv st) : PInv (emitGroup st g).1 := by
  cases hz : (g.k == Kind.Z) with
  | true => simp only [emitGroup, hz, if_true]; intro h; exact absurd h (by decide)
  | false =>
    simp only [emitGroup, hz, Bool.false_eq_true, if_false]
    apply emitItems_inv _ _ hwf.good
    apply emitCmd_inv
    cases g.force
    · exact hinv
    · exact hinv

/-- **the lexer reads back a printed group list** (any start state related to the lexer context) -/
theorem lex_groups : ∀ (gs : List OutGroup) (st : PState) (cur : Char) (k0 f : Nat),
    WfGroups gs → LInv st cur k0 → (renderFrom st gs).length < f →
    lexGo f cur k0 (renderFrom st gs) = some (groupsToks st gs) := by
  intro gs
  induction gs with
  | nil =>
    intro st cur k0 f _ _ hf
    obtain ⟨f0, rfl⟩ : ∃ f0, f = f0 + 1 := ⟨f - 1, by simp [renderFrom] at hf; omega⟩
    simp [renderFrom, groupsToks, lexGo]
  | cons g r ih =>
    intro st cur k0 f hwf hinv hf
    rw [renderFrom_cons] at hf ⊢
    have hg := hwf g (by simp)
    have hr : WfGroups r := fun g' h' => hwf g' (by simp [h'])
    have hstop := stopAfter_render (emitGroup st g).1 r hr (emitGroup_inv st g hg hinv.inv)
    obtain ⟨f1, cur1, k1, hf1, hinv1, h1⟩ := lex_group st g _ cur k0 f hg hinv hstop hf
    rw [h1, ih _ cur1 k1 f1 hr hinv1 hf1]
    simp [groupsToks]

end Verif.Proofs.SvgLex

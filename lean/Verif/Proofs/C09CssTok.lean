import Verif.Spec.C09CssTok
/-!
# Lemmas about the independent CSS tokeniser (`Verif.Spec.C09CssTok`)

* fuel independence of the scanners and of `next`/`tokAux` (`next_fuel`, `tokAux_fuel`);
* **locality** (`next_loc`): when the lexeme `p` followed by one space reads as the token `(tt, p)`, then `p` followed
  by anything that starts with a *stop* code point reads as `(tt, p)` too;
* self-terminated lexemes (`next_str_any`, `next_url_any`): a closed string / url is read as itself whatever follows.
-/
namespace Verif.Proofs.C09CssTok
open Verif.Spec.CssValue (TT)
open Verif.Spec.C09CssTok

/-! ## stop code points -/

theorem U_space : U ' ' = true := by decide

structure UF (c : Char) : Prop where
  name : isName c = false
  nameStart : isNameStart c = false
  digit : isDigit c = false
  nl : isNl c = false
  bs : (c == '\\') = false
  dot : (c == '.') = false
  plus : (c == '+') = false
  minus : (c == '-') = false
  pct : (c == '%') = false
  lp : (c == '(') = false
  star : (c == '*') = false
  gt : (c == '>') = false

theorem isHex_name {c : Char} (h : isName c = false) : isHex c = false := by
  simp only [isName, isNameStart, isDigit, Bool.or_eq_false_iff, Bool.and_eq_false_iff, decide_eq_false_iff_not] at h
  simp only [isHex, Bool.or_eq_false_iff, Bool.and_eq_false_iff, decide_eq_false_iff_not]
  obtain ⟨⟨⟨⟨⟨h1, h2⟩, _⟩, _⟩, h3⟩, _⟩ := h
  refine ⟨⟨h3, ?_⟩, ?_⟩
  · rcases h1 with h1 | h1
    · exact Or.inl h1
    · exact Or.inr (fun hh => h1 (Char.le_trans hh (by decide)))
  · rcases h2 with h2 | h2
    · exact Or.inl h2
    · exact Or.inr (fun hh => h2 (Char.le_trans hh (by decide)))

theorem UF_of_U {c : Char} (h : U c = true) : UF c := by
  simp only [U, Bool.not_eq_true', Bool.or_eq_false_iff] at h
  obtain ⟨⟨⟨⟨⟨⟨⟨⟨h1, h2⟩, h3⟩, h4⟩, h5⟩, h6⟩, h7⟩, h8⟩, h9⟩ := h
  have hn := h1
  simp only [isName, Bool.or_eq_false_iff] at hn
  exact ⟨h1, hn.1.1, hn.1.2, h2, h3, h4, h5, hn.2, h6, h7, h8, h9⟩

/-! ## escapes -/

theorem wsOne_le (s : List Char) : wsOne s ≤ 2 := by
  unfold wsOne; split <;> (try split) <;> omega

/-- the white space behind a hex escape does not depend on what follows a stop code point -/
theorem wsOne_loc (u : List Char) (c : Char) (r : List Char) (hc : UF c)
    (h : wsOne (u ++ [' ']) ≤ u.length) : wsOne (u ++ c :: r) = wsOne (u ++ [' ']) := by
  match u with
  | [] => simp [wsOne, isWs] at h
  | [x] =>
    have hn : (c == '\n') = false := by
      have := hc.nl; simp only [isNl, Bool.or_eq_false_iff] at this; exact this.1.1
    by_cases hx : x = '\r'
    · subst hx
      have : c ≠ '\n' := by simpa using hn
      simp [wsOne, isWs, this]
    · simp [wsOne, hx]
  | x :: y :: u' =>
    by_cases hx : x = '\r' <;> by_cases hy : y = '\n' <;> simp [wsOne, hx, hy]

theorem escTail_loc (k : Nat) : ∀ (u : List Char) (c : Char) (r : List Char), UF c →
    escTail k (u ++ [' ']) ≤ u.length → escTail k (u ++ c :: r) = escTail k (u ++ [' ']) := by
  induction k with
  | zero => intro u c r hc h; simp only [escTail] at h ⊢; exact wsOne_loc u c r hc h
  | succ k ih =>
    intro u c r hc h
    match u with
    | [] => simp [escTail, wsOne, isWs, isHex] at h
    | x :: u' =>
      simp only [List.cons_append, escTail] at h ⊢
      by_cases hx : isHex x = true
      · simp only [hx, if_true] at h ⊢
        rw [ih u' c r hc (by simp only [List.length_cons] at h; omega)]
      · simp only [hx] at h ⊢
        exact wsOne_loc (x :: u') c r hc h

theorem escLen_loc (u : List Char) (c : Char) (r : List Char) (hc : UF c)
    (h : escLen (u ++ [' ']) ≤ u.length) : escLen (u ++ c :: r) = escLen (u ++ [' ']) := by
  match u with
  | [] => simp [escLen, isHex] at h
  | x :: u' =>
    simp only [List.cons_append, escLen] at h ⊢
    by_cases hx : isHex x = true
    · simp only [hx, if_true] at h ⊢
      rw [escTail_loc 5 u' c r hc (by simp only [List.length_cons] at h; omega)]
    · simp [hx]

/-- an escape that ends strictly inside `u` does not depend on what follows `u` -/
theorem wsOne_lt (u g g' : List Char) (h : wsOne (u ++ g) < u.length) : wsOne (u ++ g') = wsOne (u ++ g) := by
  match u with
  | [] => simp at h
  | [x] =>
    by_cases hx : x = '\r'
    · subst hx
      cases g with
      | nil => simp [wsOne, isWs] at h
      | cons a g1 => by_cases ha : a = '\n' <;> simp [wsOne, isWs, ha] at h
    · have : isWs x = false := by
        cases hw : isWs x with
        | false => rfl
        | true => simp [wsOne, hx, hw] at h
      simp [wsOne, hx, this]
  | x :: y :: u' =>
    by_cases hx : x = '\r' <;> by_cases hy : y = '\n' <;> simp [wsOne, hx, hy]

theorem escTail_lt (k : Nat) : ∀ (u g g' : List Char),
    escTail k (u ++ g) < u.length → escTail k (u ++ g') = escTail k (u ++ g) := by
  induction k with
  | zero => intro u g g' h; simp only [escTail] at h ⊢; exact wsOne_lt u g g' h
  | succ k ih =>
    intro u g g' h
    match u with
    | [] => simp at h
    | x :: u' =>
      simp only [List.cons_append, escTail] at h ⊢
      by_cases hx : isHex x = true
      · simp only [hx, if_true] at h ⊢
        rw [ih u' g g' (by simp only [List.length_cons] at h; omega)]
      · simp only [hx] at h ⊢
        exact wsOne_lt (x :: u') g g' h

theorem escLen_lt (u g g' : List Char) (h : escLen (u ++ g) < u.length) :
    escLen (u ++ g') = escLen (u ++ g) := by
  match u with
  | [] => simp at h
  | x :: u' =>
    simp only [List.cons_append, escLen] at h ⊢
    by_cases hx : isHex x = true
    · simp only [hx, if_true] at h ⊢
      rw [escTail_lt 5 u' g g' (by simp only [List.length_cons] at h; omega)]
    · simp [hx]


/-! ## look-ahead checks -/

theorem validEsc_loc (q : List Char) (c : Char) (r : List Char) (hc : UF c) :
    validEsc (q ++ c :: r) = validEsc (q ++ [' ']) := by
  match q with
  | [] =>
    have : c ≠ '\\' := by simpa using hc.bs
    simp [validEsc]
    split <;> simp_all
  | [x] =>
    by_cases hx : x = '\\'
    · subst hx
      show (!isNl c) = (!isNl ' ')
      rw [hc.nl]; decide
    · simp [validEsc]
      split <;> simp_all
  | x :: y :: q' =>
    by_cases hx : x = '\\'
    · subst hx; simp [validEsc]
    · simp [validEsc]
      split <;> simp_all


theorem nameLen_loc : ∀ (n m : Nat) (p : List Char) (c : Char) (r : List Char), UF c →
    p.length + 1 ≤ n → p.length + 1 + r.length ≤ m →
    nameLen n (p ++ [' ']) ≤ p.length → nameLen m (p ++ c :: r) = nameLen n (p ++ [' ']) := by
  intro n
  induction n with
  | zero => intro m p c r _ h; omega
  | succ n ih =>
    intro m p c r hc hn hm h
    cases m with
    | zero => omega
    | succ m =>
    match p with
    | [] =>
      have h1 : validEsc (c :: r) = false := by
        have := validEsc_loc [] c r hc
        simpa [validEsc] using this
      have h2 : isName ' ' = false := by decide
      have h3 : validEsc [' '] = false := by decide
      simp only [List.nil_append, nameLen, hc.name, h1, h2, h3, Bool.false_eq_true, if_false]
    | x :: p' =>
      simp only [List.cons_append, nameLen] at h ⊢
      by_cases hx : isName x = true
      · simp only [hx, if_true] at h ⊢
        rw [ih m p' c r hc (by simp only [List.length_cons] at hn; omega)
          (by simp only [List.length_cons] at hm; omega) (by simp only [List.length_cons] at h; omega)]
      · have hv := validEsc_loc (x :: p') c r hc
        simp only [List.cons_append] at hv
        simp only [hx, hv] at h ⊢
        by_cases he : validEsc (x :: (p' ++ [' '])) = true
        · simp only [he, if_true, Bool.false_eq_true, if_false] at h ⊢
          have hk : escLen (p' ++ [' ']) ≤ p'.length := by simp only [List.length_cons] at h; omega
          rw [escLen_loc p' c r hc hk, List.drop_append_of_le_length hk, List.drop_append_of_le_length hk]
          rw [ih m (p'.drop (escLen (p' ++ [' ']))) c r hc
            (by simp only [List.length_cons, List.length_drop] at hn ⊢; omega)
            (by simp only [List.length_cons, List.length_drop] at hm ⊢; omega)
            (by rw [List.drop_append_of_le_length hk] at h
                simp only [List.length_cons, List.length_drop] at h ⊢; omega)]
        · simp [he]


theorem validEsc_two (x : Char) (a : List Char) (y : Char) (g g' : List Char) :
    validEsc (x :: (a ++ y :: g')) = validEsc (x :: (a ++ y :: g)) := by
  cases a with
  | nil => by_cases hx : x = '\\' <;> simp [validEsc, hx]
  | cons z a' => by_cases hx : x = '\\' <;> simp [validEsc, hx]

/-- a name that stops in front of `x` (not a name code point, not a backslash) does not depend on what follows `x` -/
theorem nameLen_stop : ∀ (n m : Nat) (a : List Char) (x : Char) (g g' : List Char),
    isName x = false → (x == '\\') = false →
    a.length + 1 + g.length ≤ n → a.length + 1 + g'.length ≤ m →
    nameLen n (a ++ x :: g) = a.length → nameLen m (a ++ x :: g') = a.length := by
  intro n
  induction n with
  | zero => intro m a x g g' _ _ h; omega
  | succ n ih =>
    intro m a x g g' hx1 hx2 hn hm h
    cases m with
    | zero => omega
    | succ m =>
    match a with
    | [] =>
      have h1 : validEsc (x :: g') = false := by
        have : x ≠ '\\' := by simpa using hx2
        simp [validEsc]; split <;> simp_all
      simp only [List.nil_append, nameLen, hx1, h1, Bool.false_eq_true, if_false, List.length_nil]
    | y :: a' =>
      simp only [List.cons_append, nameLen, List.length_cons] at h ⊢
      by_cases hy : isName y = true
      · simp only [hy, if_true] at h ⊢
        rw [ih m a' x g g' hx1 hx2 (by simp only [List.length_cons] at hn; omega)
          (by simp only [List.length_cons] at hm; omega) (by omega)]
        omega
      · have hv := validEsc_two y a' x g g'
        simp only [hy, hv] at h ⊢
        by_cases he : validEsc (y :: (a' ++ x :: g)) = true
        · simp only [he, if_true, Bool.false_eq_true, if_false] at h ⊢
          have hk : escLen (a' ++ x :: g) ≤ a'.length := by omega
          have e1 : a' ++ x :: g = (a' ++ [x]) ++ g := by simp
          have e2 : a' ++ x :: g' = (a' ++ [x]) ++ g' := by simp
          have hk2 : escLen (a' ++ x :: g') = escLen (a' ++ x :: g) := by
            rw [e1, e2]; apply escLen_lt; rw [← e1]; simp only [List.length_append, List.length_cons, List.length_nil]; omega
          rw [hk2, List.drop_append_of_le_length hk]
          rw [List.drop_append_of_le_length hk] at h
          rw [ih m (a'.drop (escLen (a' ++ x :: g))) x g g' hx1 hx2
            (by simp only [List.length_cons, List.length_drop] at hn ⊢; omega)
            (by simp only [List.length_cons, List.length_drop] at hm ⊢; omega)
            (by simp only [List.length_drop]; omega)]
          simp only [List.length_drop]; omega
        · simp only [he, Bool.false_eq_true, if_false] at h
          omega


/-! ## numbers -/

theorem sp_digit : isDigit ' ' = false := by decide

theorem digitRun_loc (q : List Char) (c : Char) (r : List Char) (hc : UF c) :
    digitRun (q ++ c :: r) = digitRun (q ++ [' ']) ∧ digitRun (q ++ [' ']) ≤ q.length := by
  induction q with
  | nil => simp [digitRun, hc.digit, sp_digit]
  | cons x q ih =>
    simp only [List.cons_append, digitRun, List.length_cons]
    by_cases hx : isDigit x = true
    · simp only [hx, if_true]; omega
    · simp [hx]

theorem signLen_loc (q : List Char) (c : Char) (r : List Char) (hc : UF c) :
    signLen (q ++ c :: r) = signLen (q ++ [' ']) ∧ signLen (q ++ [' ']) ≤ q.length := by
  match q with
  | [] =>
    have h1 : c ≠ '+' := by simpa using hc.plus
    have h2 : c ≠ '-' := by simpa using hc.minus
    simp [signLen]
    split <;> simp_all
  | x :: q' =>
    simp only [List.cons_append, List.length_cons]
    by_cases h1 : x = '+'
    · subst h1; simp [signLen]
    · by_cases h2 : x = '-'
      · subst h2; simp [signLen]
      · simp [signLen]
        split <;> simp_all

theorem fracLen_loc (q : List Char) (c : Char) (r : List Char) (hc : UF c) :
    fracLen (q ++ c :: r) = fracLen (q ++ [' ']) ∧ fracLen (q ++ [' ']) ≤ q.length := by
  have hd : c ≠ '.' := by simpa using hc.dot
  match q with
  | [] =>
    simp [fracLen]
    split <;> simp_all
  | [x] =>
    by_cases hx : x = '.'
    · subst hx; simp [fracLen, hc.digit, sp_digit]
    · simp [fracLen]
      constructor <;> (split <;> simp_all)
  | x :: y :: q' =>
    by_cases hx : x = '.'
    · subst hx
      have := digitRun_loc q' c r hc
      simp only [List.cons_append, fracLen, List.length_cons]
      by_cases hy : isDigit y = true
      · simp only [hy, if_true]; omega
      · simp [hy]
    · simp [fracLen]
      constructor <;> (split <;> simp_all)


theorem expLen_loc (q : List Char) (c : Char) (r : List Char) (hc : UF c) :
    expLen (q ++ c :: r) = expLen (q ++ [' ']) ∧ expLen (q ++ [' ']) ≤ q.length := by
  have hn : isName c = false := hc.name
  have he1 : (c == 'e') = false := by
    cases h : c == 'e' with
    | false => rfl
    | true => have : c = 'e' := by simpa using h
              subst this; exact absurd hn (by decide)
  have he2 : (c == 'E') = false := by
    cases h : c == 'E' with
    | false => rfl
    | true => have : c = 'E' := by simpa using h
              subst this; exact absurd hn (by decide)
  match q with
  | [] =>
    cases r with
    | nil => simp [expLen]
    | cons d r' => simp [expLen, he1, he2]
  | [e] =>
    simp only [List.cons_append, List.nil_append, expLen, hc.digit, hc.plus, hc.minus, sp_digit,
      List.length_cons, List.length_nil]
    simp
  | [e, d] =>
    simp only [List.cons_append, List.nil_append, expLen, List.length_cons, List.length_nil]
    by_cases h1 : (e == 'e' || e == 'E') = true
    · simp only [h1, if_true]
      by_cases h2 : isDigit d = true
      · simp [h2, digitRun, hc.digit, sp_digit]
      · simp only [h2, Bool.false_eq_true, if_false]
        by_cases h3 : (d == '+' || d == '-') = true
        · simp [h3, hc.digit, sp_digit]
        · simp [h3]
    · simp [h1]
  | e :: d :: d2 :: q' =>
    have := digitRun_loc (d2 :: q') c r hc
    have := digitRun_loc q' c r hc
    simp only [List.cons_append, expLen, List.length_cons] at *
    by_cases h1 : (e == 'e' || e == 'E') = true
    · simp only [h1, if_true]
      by_cases h2 : isDigit d = true
      · simp only [h2, if_true]; omega
      · simp only [h2, Bool.false_eq_true, if_false]
        by_cases h3 : (d == '+' || d == '-') = true
        · simp only [h3, if_true]
          by_cases h4 : isDigit d2 = true
          · simp only [h4, if_true]; omega
          · simp [h4]
        · simp [h3]
    · simp [h1]

theorem numLen_loc (q : List Char) (c : Char) (r : List Char) (hc : UF c) :
    numLen (q ++ c :: r) = numLen (q ++ [' ']) ∧ numLen (q ++ [' ']) ≤ q.length := by
  obtain ⟨s1, s2⟩ := signLen_loc q c r hc
  have d := digitRun_loc (q.drop (signLen (q ++ [' ']))) c r hc
  have hA : ∀ X : List Char, List.drop (signLen (q ++ [' '])) (q ++ X) = q.drop (signLen (q ++ [' '])) ++ X :=
    fun X => List.drop_append_of_le_length s2
  -- a = sign + digits
  let a := signLen (q ++ [' ']) + digitRun (q.drop (signLen (q ++ [' '])) ++ [' '])
  have ha : a ≤ q.length := by
    have := d.2; simp only [List.length_drop] at this; omega
  have f := fracLen_loc (q.drop a) c r hc
  have hB : ∀ X : List Char, List.drop a (q ++ X) = q.drop a ++ X := fun X => List.drop_append_of_le_length ha
  let b := a + fracLen (q.drop a ++ [' '])
  have hb : b ≤ q.length := by
    have := f.2; simp only [List.length_drop] at this; omega
  have e := expLen_loc (q.drop b) c r hc
  have hC : ∀ X : List Char, List.drop b (q ++ X) = q.drop b ++ X := fun X => List.drop_append_of_le_length hb
  have e2 := e.2; simp only [List.length_drop] at e2
  constructor
  · simp only [numLen]
    rw [s1, hA, hA, d.1]
    show (a + fracLen (List.drop a (q ++ c :: r))) + expLen (List.drop (a + fracLen (List.drop a (q ++ c :: r))) (q ++ c :: r)) =
      (a + fracLen (List.drop a (q ++ [' ']))) + expLen (List.drop (a + fracLen (List.drop a (q ++ [' ']))) (q ++ [' ']))
    rw [hB, hB, f.1]
    show b + expLen (List.drop b (q ++ c :: r)) = b + expLen (List.drop b (q ++ [' ']))
    rw [hC, hC, e.1]
  · simp only [numLen]
    rw [hA]
    show (a + fracLen (List.drop a (q ++ [' ']))) + expLen (List.drop (a + fracLen (List.drop a (q ++ [' ']))) (q ++ [' '])) ≤ q.length
    rw [hB]
    show b + expLen (List.drop b (q ++ [' '])) ≤ q.length
    rw [hC]; omega


theorem startsIdent_loc (q : List Char) (c : Char) (r : List Char) (hc : UF c) :
    startsIdent (q ++ c :: r) = startsIdent (q ++ [' ']) := by
  have hm : c ≠ '-' := by simpa using hc.minus
  have v0 := validEsc_loc [] c r hc
  simp only [List.nil_append] at v0
  have v0' : validEsc [' '] = false := by decide
  match q with
  | [] =>
    have : startsIdent (c :: r) = (isNameStart c || validEsc (c :: r)) := by
      cases r <;> simp [startsIdent] <;> split <;> simp_all
    rw [List.nil_append, this, hc.nameStart, v0, v0']; decide
  | [x] =>
    by_cases hx : x = '-'
    · subst hx
      simp only [List.cons_append, List.nil_append, startsIdent, hc.nameStart, hc.minus, v0, v0']
      decide
    · have v1 := validEsc_loc [x] c r hc
      simp only [List.cons_append, List.nil_append] at v1
      have e1 : startsIdent (x :: c :: r) = (isNameStart x || validEsc (x :: c :: r)) := by
        simp [startsIdent]; split <;> simp_all
      have e2 : startsIdent [x, ' '] = (isNameStart x || validEsc [x, ' ']) := by
        simp [startsIdent]; split <;> simp_all
      simp only [List.cons_append, List.nil_append]
      rw [e1, e2, v1]
  | x :: y :: q' =>
    by_cases hx : x = '-'
    · subst hx
      have v1 := validEsc_loc (y :: q') c r hc
      simp only [List.cons_append] at v1 ⊢
      simp only [startsIdent, v1]
    · have v1 := validEsc_loc (x :: y :: q') c r hc
      simp only [List.cons_append] at v1 ⊢
      have e1 : ∀ X : List Char, startsIdent (x :: y :: (q' ++ X)) = (isNameStart x || validEsc (x :: y :: (q' ++ X))) := by
        intro X; simp [startsIdent]; split <;> simp_all
      rw [e1, e1, v1]

theorem startsNumber_loc (q : List Char) (c : Char) (r : List Char) (hc : UF c) :
    startsNumber (q ++ c :: r) = startsNumber (q ++ [' ']) := by
  have h1 : c ≠ '+' := by simpa using hc.plus
  have h2 : c ≠ '-' := by simpa using hc.minus
  have h3 : c ≠ '.' := by simpa using hc.dot
  match q with
  | [] =>
    have : startsNumber (c :: r) = isDigit c := by
      cases r <;> simp [startsNumber] <;> split <;> simp_all
    rw [List.nil_append, this, hc.digit]; decide
  | [x] =>
    simp only [List.cons_append, List.nil_append]
    by_cases hx1 : x = '+'
    · subst hx1; simp [startsNumber, hc.digit, hc.dot, sp_digit]
    · by_cases hx2 : x = '-'
      · subst hx2; simp [startsNumber, hc.digit, hc.dot, sp_digit]
      · by_cases hx3 : x = '.'
        · subst hx3; simp [startsNumber, hc.digit, sp_digit]
        · have e : ∀ X : List Char, startsNumber (x :: X) = isDigit x := by
            intro X; cases X <;> simp [startsNumber] <;> split <;> simp_all
          rw [e, e]
  | [x, y] =>
    simp only [List.cons_append, List.nil_append]
    by_cases hx1 : x = '+'
    · subst hx1; simp [startsNumber, hc.digit, sp_digit]
    · by_cases hx2 : x = '-'
      · subst hx2; simp [startsNumber, hc.digit, sp_digit]
      · by_cases hx3 : x = '.'
        · subst hx3; simp [startsNumber]
        · have e : ∀ X : List Char, startsNumber (x :: X) = isDigit x := by
            intro X; cases X <;> simp [startsNumber] <;> split <;> simp_all
          rw [e, e]
  | x :: y :: z :: q' =>
    simp only [List.cons_append]
    by_cases hx1 : x = '+'
    · subst hx1; simp [startsNumber]
    · by_cases hx2 : x = '-'
      · subst hx2; simp [startsNumber]
      · by_cases hx3 : x = '.'
        · subst hx3; simp [startsNumber]
        · have e : ∀ X : List Char, startsNumber (x :: X) = isDigit x := by
            intro X; cases X <;> simp [startsNumber] <;> split <;> simp_all
          rw [e, e]


/-! ## strings -/

theorem nlLen_lt (u g g' : List Char) (h : nlLen (u ++ g) < u.length) : nlLen (u ++ g') = nlLen (u ++ g) := by
  match u with
  | [] => simp at h
  | [x] =>
    by_cases hx : x = '\r'
    · subst hx
      cases g with
      | nil => simp [nlLen, isNl] at h
      | cons a g1 => by_cases ha : a = '\n' <;> simp [nlLen, isNl, ha] at h
    · have : isNl x = false := by
        cases hw : isNl x with
        | false => rfl
        | true => simp [nlLen, hx, hw] at h
      simp [nlLen, hx, this]
  | x :: y :: u' =>
    by_cases hx : x = '\r' <;> by_cases hy : y = '\n' <;> simp [nlLen, hx, hy]

theorem strEscLen_lt (u g g' : List Char) (h : strEscLen (u ++ g) < u.length) :
    strEscLen (u ++ g') = strEscLen (u ++ g) := by
  unfold strEscLen at h ⊢
  by_cases hn : 0 < nlLen (u ++ g)
  · simp only [hn, if_true] at h
    rw [nlLen_lt u g g' h]; simp only [hn, if_true]
  · simp only [hn, if_false] at h
    have h0 : nlLen (u ++ g) = 0 := by omega
    have hu : 0 < u.length := by omega
    have : nlLen (u ++ g') = nlLen (u ++ g) := nlLen_lt u g g' (by omega)
    rw [this, escLen_lt u g g' h]

theorem strLen_nil (n : Nat) (q : Char) : strLen n q [] = (0, true) := by
  cases n <;> rfl

theorem strLen_any : ∀ (n m : Nat) (q : Char) (b f : List Char), (q == ' ') = false →
    b.length + 1 ≤ n → b.length + f.length ≤ m →
    strLen n q (b ++ [' ']) = (b.length, true) → strLen m q (b ++ f) = (b.length, true) := by
  intro n
  induction n with
  | zero => intro m q b f _ h; omega
  | succ n ih =>
    intro m q b f hq hn hm h
    have hsp1 : (' ' == q) = false := by
      cases hh : ' ' == q with
      | false => rfl
      | true => have : q = ' ' := by have := hh; simp at this; exact this.symm
                subst this; simp at hq
    match b with
    | [] =>
      have h1 : isNl ' ' = false := by decide
      have h2 : (' ' == '\\') = false := by decide
      simp [strLen, hsp1, h1, h2, strLen_nil] at h
    | x :: b' =>
      cases m with
      | zero => simp at hm
      | succ m =>
      simp only [List.cons_append, strLen, List.length_cons] at h ⊢
      by_cases hx : (x == q) = true
      · simp only [hx, if_true] at h ⊢
        simpa using h
      · simp only [hx, Bool.false_eq_true, if_false] at h ⊢
        by_cases hnl : isNl x = true
        · simp [hnl] at h
        · simp only [hnl, Bool.false_eq_true, if_false] at h ⊢
          by_cases hb : (x == '\\') = true
          · simp only [hb, if_true] at h ⊢
            have e1 : (b' ++ [' ']).isEmpty = false := by cases b' <;> rfl
            simp only [e1, Bool.false_eq_true, if_false] at h
            have hk1 : (1 + strEscLen (b' ++ [' '])) + (strLen n q (List.drop (strEscLen (b' ++ [' '])) (b' ++ [' ']))).1 = b'.length + 1 := by
              have := congrArg Prod.fst h; simpa using this
            have hk2 : (strLen n q (List.drop (strEscLen (b' ++ [' '])) (b' ++ [' ']))).2 = true := by
              have := congrArg Prod.snd h; simpa using this
            -- the escape ends strictly inside b'
            have hlt : strEscLen (b' ++ [' ']) < b'.length := by
              rcases Nat.lt_trichotomy (strEscLen (b' ++ [' '])) b'.length with hl | hl | hl
              · exact hl
              · exfalso
                have : List.drop (strEscLen (b' ++ [' '])) (b' ++ [' ']) = [' '] := by
                  rw [hl, List.drop_append_of_le_length (Nat.le_refl _)]; simp
                rw [this] at hk1
                have hn1 : 0 < n := by simp only [List.length_cons] at hn; omega
                obtain ⟨n', rfl⟩ : ∃ n', n = n' + 1 := ⟨n - 1, by omega⟩
                have h1 : isNl ' ' = false := by decide
                have h2 : (' ' == '\\') = false := by decide
                simp [strLen, hsp1, h1, h2, strLen_nil] at hk1
                omega
              · exfalso; omega
            have e2 : (b' ++ f).isEmpty = false := by
              cases b' with
              | nil => simp at hlt
              | cons _ _ => rfl
            simp only [e2, Bool.false_eq_true, if_false]
            rw [strEscLen_lt b' [' '] f hlt]
            rw [List.drop_append_of_le_length (Nat.le_of_lt hlt)] at hk1 hk2
            rw [List.drop_append_of_le_length (Nat.le_of_lt hlt)]
            have hrec : strLen n q (List.drop (strEscLen (b' ++ [' '])) b' ++ [' ']) =
                ((List.drop (strEscLen (b' ++ [' '])) b').length, true) := by
              apply Prod.ext
              · simp only [List.length_drop]; omega
              · exact hk2
            rw [ih m q _ f hq (by simp only [List.length_cons, List.length_drop] at hn ⊢; omega)
              (by simp only [List.length_cons, List.length_drop] at hm ⊢; omega) hrec]
            simp only [List.length_drop]
            apply Prod.ext <;> simp <;> omega
          · simp only [hb, Bool.false_eq_true, if_false] at h ⊢
            have hk1 : 1 + (strLen n q (b' ++ [' '])).1 = b'.length + 1 := by
              have := congrArg Prod.fst h; simpa using this
            have hk2 : (strLen n q (b' ++ [' '])).2 = true := by
              have := congrArg Prod.snd h; simpa using this
            have hrec : strLen n q (b' ++ [' ']) = (b'.length, true) := by
              apply Prod.ext
              · simp only; omega
              · exact hk2
            rw [ih m q b' f hq (by simp only [List.length_cons] at hn; omega)
              (by simp only [List.length_cons] at hm; omega) hrec]
            apply Prod.ext <;> simp <;> omega


/-! ## urls -/

theorem wsRun_le (s : List Char) : wsRun s ≤ s.length := by
  induction s with
  | nil => simp [wsRun]
  | cons x s ih => simp only [wsRun, List.length_cons]; split <;> omega

theorem wsRun_lt (u g g' : List Char) (h : wsRun (u ++ g) < u.length) : wsRun (u ++ g') = wsRun (u ++ g) := by
  induction u with
  | nil => simp at h
  | cons x u ih =>
    simp only [List.cons_append, wsRun, List.length_cons] at h ⊢
    by_cases hx : isWs x = true
    · simp only [hx, if_true] at h ⊢
      rw [ih (by omega)]
    · simp [hx]

theorem urlLen_nil (n : Nat) : urlLen n [] = (0, true) := by cases n <;> rfl

theorem urlLen_any : ∀ (n m : Nat) (b f : List Char),
    b.length + 1 ≤ n → b.length + f.length ≤ m →
    urlLen n (b ++ [' ']) = (b.length, true) → urlLen m (b ++ f) = (b.length, true) := by
  intro n
  induction n with
  | zero => intro m b f h; omega
  | succ n ih =>
    intro m b f hn hm h
    match b with
    | [] => simp [urlLen, isWs, wsRun] at h
    | x :: b' =>
      cases m with
      | zero => simp at hm
      | succ m =>
      simp only [List.cons_append, urlLen, List.length_cons] at h ⊢
      by_cases hx : (x == ')') = true
      · simp only [hx, if_true] at h ⊢
        simpa using h
      · simp only [hx, Bool.false_eq_true, if_false] at h ⊢
        by_cases hw : isWs x = true
        · simp only [hw, if_true] at h ⊢
          -- w = white space run, then `)`
          have hle := wsRun_le (x :: (b' ++ [' ']))
          simp only [List.length_cons, List.length_append, List.length_nil] at hle
          by_cases he : (List.drop (wsRun (x :: (b' ++ [' ']))) (x :: (b' ++ [' ']))).isEmpty = true
          · simp only [he, if_true] at h
            have h1 := congrArg Prod.fst h
            simp only at h1
            have : (x :: (b' ++ [' '])).length ≤ wsRun (x :: (b' ++ [' '])) := by
              have := List.drop_eq_nil_iff.mp (List.isEmpty_iff.mp he); exact this
            simp only [List.length_cons, List.length_append, List.length_nil] at this
            omega
          · simp only [he, Bool.false_eq_true, if_false] at h
            by_cases hp : ((List.drop (wsRun (x :: (b' ++ [' ']))) (x :: (b' ++ [' ']))).head? == some ')') = true
            · simp only [hp, if_true] at h
              have h1 := congrArg Prod.fst h
              simp only at h1
              have hlt : wsRun ((x :: b') ++ [' ']) < (x :: b').length := by
                simp only [List.cons_append, List.length_cons]; omega
              have hw2 := wsRun_lt (x :: b') [' '] f hlt
              simp only [List.cons_append] at hw2 hlt
              rw [hw2]
              have hd : ∀ X : List Char, List.drop (wsRun (x :: (b' ++ [' ']))) (x :: (b' ++ X)) =
                  List.drop (wsRun (x :: (b' ++ [' ']))) (x :: b') ++ X := by
                intro X
                have := List.drop_append_of_le_length (l₂ := X) (Nat.le_of_lt hlt)
                simpa using this
              rw [hd] at hp
              rw [hd]
              have hne : List.drop (wsRun (x :: (b' ++ [' ']))) (x :: b') ≠ [] := by
                intro hh
                have := List.drop_eq_nil_iff.mp hh
                simp only [List.length_cons] at this hlt; omega
              cases hdd : List.drop (wsRun (x :: (b' ++ [' ']))) (x :: b') with
              | nil => exact absurd hdd hne
              | cons y ys =>
                rw [hdd] at hp
                simp only [List.cons_append, List.head?_cons] at hp
                simp only [List.cons_append, List.isEmpty_cons, Bool.false_eq_true, if_false, List.head?_cons, hp, if_true]
                apply Prod.ext <;> simp <;> omega
            · simp only [hp, Bool.false_eq_true, if_false] at h
              have := congrArg Prod.snd h
              simp at this
        · simp only [hw, Bool.false_eq_true, if_false] at h ⊢
          by_cases hbad : (x == '"' || x == '\'' || x == '(' || isNonPrintable x) = true
          · simp [hbad] at h
          · simp only [hbad, Bool.false_eq_true, if_false] at h ⊢
            by_cases hb : (x == '\\') = true
            · simp only [hb, if_true] at h ⊢
              have hx' : x = '\\' := by simpa using hb
              subst hx'
              by_cases hv : validEsc ('\\' :: (b' ++ [' '])) = true
              · simp only [hv, if_true] at h
                have hk1 := congrArg Prod.fst h
                have hk2 := congrArg Prod.snd h
                simp only at hk1 hk2
                have hlt : escLen (b' ++ [' ']) < b'.length := by
                  rcases Nat.lt_trichotomy (escLen (b' ++ [' '])) b'.length with hl | hl | hl
                  · exact hl
                  · exfalso
                    have : List.drop (escLen (b' ++ [' '])) (b' ++ [' ']) = [' '] := by
                      rw [hl, List.drop_append_of_le_length (Nat.le_refl _)]; simp
                    rw [this] at hk1
                    obtain ⟨n', rfl⟩ : ∃ n', n = n' + 1 := ⟨n - 1, by simp only [List.length_cons] at hn; omega⟩
                    simp [urlLen, isWs, wsRun] at hk1
                    omega
                  · exfalso; omega
                have hv2 : validEsc ('\\' :: (b' ++ f)) = true := by
                  cases b' with
                  | nil => simp at hlt
                  | cons y ys => simpa [validEsc] using hv
                simp only [hv2, if_true]
                rw [escLen_lt b' [' '] f hlt]
                rw [List.drop_append_of_le_length (Nat.le_of_lt hlt)] at hk1 hk2
                rw [List.drop_append_of_le_length (Nat.le_of_lt hlt)]
                have hrec : urlLen n (List.drop (escLen (b' ++ [' '])) b' ++ [' ']) =
                    ((List.drop (escLen (b' ++ [' '])) b').length, true) := by
                  apply Prod.ext
                  · simp only [List.length_drop]; omega
                  · exact hk2
                rw [ih m _ f (by simp only [List.length_cons, List.length_drop] at hn ⊢; omega)
                  (by simp only [List.length_cons, List.length_drop] at hm ⊢; omega) hrec]
                simp only [List.length_drop]
                apply Prod.ext <;> simp <;> omega
              · simp [hv] at h
            · simp only [hb, Bool.false_eq_true, if_false] at h ⊢
              have hk1 := congrArg Prod.fst h
              have hk2 := congrArg Prod.snd h
              simp only at hk1 hk2
              have hrec : urlLen n (b' ++ [' ']) = (b'.length, true) := by
                apply Prod.ext
                · simp only; omega
                · exact hk2
              rw [ih m b' f (by simp only [List.length_cons] at hn; omega)
                (by simp only [List.length_cons] at hm; omega) hrec]
              apply Prod.ext <;> simp <;> omega


/-! ## numeric tokens -/

theorem numeric_loc (n m : Nat) (q : List Char) (c : Char) (r : List Char) (tt : TT) (hc : UF c)
    (hn : q.length + 1 ≤ n) (hm : q.length + 1 + r.length ≤ m)
    (h : numeric n (q ++ [' ']) = (tt, q.length)) : numeric m (q ++ c :: r) = (tt, q.length) := by
  obtain ⟨e1, e2⟩ := numLen_loc q c r hc
  have hd : ∀ X : List Char, List.drop (numLen (q ++ [' '])) (q ++ X) = q.drop (numLen (q ++ [' '])) ++ X :=
    fun X => List.drop_append_of_le_length e2
  simp only [numeric] at h ⊢
  rw [e1, hd]
  rw [hd] at h
  rw [startsIdent_loc _ c r hc]
  by_cases hs : startsIdent (List.drop (numLen (q ++ [' '])) q ++ [' ']) = true
  · simp only [hs, if_true] at h ⊢
    have h1 := congrArg Prod.fst h
    have h2 := congrArg Prod.snd h
    simp only at h1 h2
    rw [nameLen_loc n m _ c r hc (by simp only [List.length_drop]; omega)
      (by simp only [List.length_drop]; omega) (by simp only [List.length_drop]; omega)]
    exact h
  · simp only [hs, Bool.false_eq_true, if_false] at h ⊢
    have hh : ((List.drop (numLen (q ++ [' '])) q ++ c :: r).head? == some '%') =
        ((List.drop (numLen (q ++ [' '])) q ++ [' ']).head? == some '%') := by
      cases List.drop (numLen (q ++ [' '])) q with
      | nil =>
        have : c ≠ '%' := by simpa using hc.pct
        simp [this]
      | cons y ys => simp
    rw [hh]; exact h


/-! ## ident-like tokens -/

theorem unescape_fuel (b : Bool) : ∀ (n m : Nat) (s : List Char), s.length ≤ n → s.length ≤ m →
    unescape b n s = unescape b m s := by
  intro n
  induction n with
  | zero =>
    intro m s h _
    have : s = [] := List.eq_nil_of_length_eq_zero (by omega)
    subst this
    cases m <;> rfl
  | succ n ih =>
    intro m s hn hm
    match s with
    | [] => cases m <;> rfl
    | c :: r =>
      cases m with
      | zero => simp at hm
      | succ m =>
      simp only [List.length_cons] at hn hm
      simp only [unescape]
      by_cases hc : (c == '\\') = true
      · simp only [hc, if_true]
        match r with
        | [] => rfl
        | d :: r' =>
          simp only [List.length_cons] at hn hm
          simp only []
          have e1 := ih m (List.drop 1 r') (by simp only [List.length_drop]; omega) (by simp only [List.length_drop]; omega)
          have e2 := ih m r' (by omega) (by omega)
          have e3 := ih m (List.drop (escLen (d :: r')) (d :: r'))
            (by simp only [List.length_drop, List.length_cons]; omega) (by simp only [List.length_drop, List.length_cons]; omega)
          rw [e1, e2, e3]
      · simp only [hc, Bool.false_eq_true, if_false]
        rw [ih m r (by omega) (by omega)]

theorem head?_drop_append {α} (l : List α) (k : Nat) (X : List α) (h : k < l.length) :
    (List.drop k (l ++ X)).head? = (List.drop k l).head? := by
  rw [List.drop_append_of_le_length (Nat.le_of_lt h)]
  cases hd : List.drop k l with
  | nil => have := List.drop_eq_nil_iff.mp hd; omega
  | cons y ys => rfl

theorem identLike_ident_loc (n m : Nat) (p : List Char) (c : Char) (r : List Char) (hc : UF c)
    (hn : p.length + 1 ≤ n) (hm : p.length + 1 + r.length ≤ m)
    (h : identLike n (p ++ [' ']) = (.ident, p.length)) : identLike m (p ++ c :: r) = (.ident, p.length) := by
  simp only [identLike] at h
  have hk : nameLen n (p ++ [' ']) = p.length := by
    by_cases h1 : ((List.drop (nameLen n (p ++ [' '])) (p ++ [' '])).head? == some '(') = true
    · simp only [h1, if_true] at h
      by_cases h2 : isUrlName (List.take (nameLen n (p ++ [' '])) (p ++ [' '])) = true
      · simp only [h2, if_true, urlRest] at h
        split at h
        · simp at h
        · split at h
          · simp at h
          · split at h <;> simp at h
      · simp [h2] at h
    · simp only [h1, Bool.false_eq_true, if_false] at h
      simpa using congrArg Prod.snd h
  have hk2 := nameLen_loc n m p c r hc hn hm (by omega)
  simp only [identLike]
  rw [hk2, hk]
  have : List.drop p.length (p ++ c :: r) = c :: r := by
    rw [List.drop_append_of_le_length (Nat.le_refl _)]; simp
  rw [this]
  have hlp : c ≠ '(' := by simpa using hc.lp
  simp [hlp]

/-- a function token is read as itself whatever follows its parenthesis -/
theorem identLike_fun_any (n m : Nat) (p f : List Char)
    (hn : p.length + 1 ≤ n) (hm : p.length + f.length ≤ m)
    (h : identLike n (p ++ [' ']) = (.function, p.length)) : identLike m (p ++ f) = (.function, p.length) := by
  simp only [identLike] at h
  by_cases h1 : ((List.drop (nameLen n (p ++ [' '])) (p ++ [' '])).head? == some '(') = true
  · simp only [h1, if_true] at h
    have hkey : nameLen n (p ++ [' ']) + 1 = p.length ∧
        isUrlName (List.take (nameLen n (p ++ [' '])) (p ++ [' '])) = false := by
      by_cases h2 : isUrlName (List.take (nameLen n (p ++ [' '])) (p ++ [' '])) = true
      · exfalso
        simp only [h2, if_true, urlRest] at h
        split at h
        · simp at h
        · rename_i hne
          split at h
          · -- `url(` + quote: the parenthesis would be the last code point of `p`, and a space follows it
            have hl := congrArg Prod.snd h
            simp only at hl
            have hd : List.drop (nameLen n (p ++ [' ']) + 1) (p ++ [' ']) = [' '] := by
              rw [hl, List.drop_append_of_le_length (Nat.le_refl _)]; simp
            rw [hd] at hne
            simp [wsRun, isWs] at hne
          · split at h <;> simp at h
      · simp only [h2, Bool.false_eq_true, if_false] at h
        exact ⟨by simpa using congrArg Prod.snd h, by simpa using h2⟩
    obtain ⟨hk, hu⟩ := hkey
    -- p = a ++ ['('] with a = the name
    have hlt : nameLen n (p ++ [' ']) < p.length := by omega
    have hhead : (List.drop (nameLen n (p ++ [' '])) p).head? = some '(' := by
      rw [head?_drop_append p _ [' '] hlt] at h1; simpa using h1
    have hp : p = List.take (nameLen n (p ++ [' '])) p ++ ['('] := by
      have h3 : List.drop (nameLen n (p ++ [' '])) p = ['('] := by
        cases hd : List.drop (nameLen n (p ++ [' '])) p with
        | nil => rw [hd] at hhead; simp at hhead
        | cons y ys =>
          rw [hd] at hhead
          have hy : y = '(' := by simpa using hhead
          have hlen : (List.drop (nameLen n (p ++ [' '])) p).length = 1 := by
            simp only [List.length_drop]; omega
          rw [hd] at hlen
          have : ys = [] := List.eq_nil_of_length_eq_zero (by simpa using hlen)
          rw [hy, this]
      conv => lhs; rw [← List.take_append_drop (nameLen n (p ++ [' '])) p, h3]
    generalize ha : List.take (nameLen n (p ++ [' '])) p = a at hp
    have hal : a.length = nameLen n (p ++ [' ']) := by
      rw [← ha, List.length_take]; omega
    subst hp
    have hnm : nameLen m ((a ++ ['(']) ++ f) = a.length := by
      have e1 : (a ++ ['(']) ++ f = a ++ '(' :: f := by simp
      have e2 : (a ++ ['(']) ++ [' '] = a ++ '(' :: [' '] := by simp
      rw [e1]
      apply nameLen_stop n m a '(' [' '] f (by decide) (by decide)
      · simp only [List.length_append, List.length_cons, List.length_nil] at hn ⊢; omega
      · simp only [List.length_append, List.length_cons, List.length_nil] at hm ⊢; omega
      · rw [← e2]; omega
    simp only [identLike]
    rw [hnm]
    have e3 : List.drop a.length ((a ++ ['(']) ++ f) = '(' :: f := by
      rw [List.append_assoc, List.drop_append_of_le_length (Nat.le_refl _)]; simp
    have e4 : List.take a.length ((a ++ ['(']) ++ f) = a := by
      rw [List.append_assoc, List.take_append_of_le_length (Nat.le_refl _)]; simp
    have e5 : List.take (nameLen n ((a ++ ['(']) ++ [' '])) ((a ++ ['(']) ++ [' ']) = a := by
      rw [← hal, List.append_assoc, List.take_append_of_le_length (Nat.le_refl _)]; simp
    rw [e5] at hu
    rw [e3, e4, hu]
    simp
  · simp only [h1, Bool.false_eq_true, if_false] at h
    simp at h

theorem split_at_paren (p : List Char) (k : Nat) (h : (List.drop k p).head? = some '(') :
    ∃ a body, p = a ++ '(' :: body ∧ a.length = k := by
  cases hd : List.drop k p with
  | nil => rw [hd] at h; simp at h
  | cons y ys =>
    rw [hd] at h
    have hy : y = '(' := by simpa using h
    refine ⟨List.take k p, ys, ?_, ?_⟩
    · conv => lhs; rw [← List.take_append_drop k p, hd, hy]
    · rw [List.length_take]
      have : k < p.length := by
        rcases Nat.lt_or_ge k p.length with hc | hc
        · exact hc
        · have := List.drop_eq_nil_iff.mpr hc
          rw [this] at hd; simp at hd
      omega

/-- a url token is read as itself whatever follows its closing parenthesis -/
theorem identLike_url_any (n m : Nat) (p f : List Char)
    (hn : p.length + 1 ≤ n) (hm : p.length + f.length ≤ m)
    (h : identLike n (p ++ [' ']) = (.url, p.length)) : identLike m (p ++ f) = (.url, p.length) := by
  simp only [identLike] at h
  by_cases h1 : ((List.drop (nameLen n (p ++ [' '])) (p ++ [' '])).head? == some '(') = true
  · simp only [h1, if_true] at h
    by_cases h2 : isUrlName (List.take (nameLen n (p ++ [' '])) (p ++ [' '])) = true
    · simp only [h2, if_true] at h
      -- the parenthesis lies inside p
      have hlt : nameLen n (p ++ [' ']) < p.length := by
        rcases Nat.lt_or_ge (nameLen n (p ++ [' '])) p.length with hc | hge
        · exact hc
        exfalso
        rcases Nat.eq_or_lt_of_le hge with he | hgt
        · rw [← he, List.drop_append_of_le_length (Nat.le_refl _)] at h1; simp at h1
        · have : List.drop (nameLen n (p ++ [' '])) (p ++ [' ']) = [] := by
            apply List.drop_eq_nil_iff.mpr; simp only [List.length_append, List.length_cons, List.length_nil]; omega
          rw [this] at h1; simp at h1
      have hhead : (List.drop (nameLen n (p ++ [' '])) p).head? = some '(' := by
        rw [head?_drop_append p _ [' '] hlt] at h1; simpa using h1
      obtain ⟨a, body, hp, hal⟩ := split_at_paren p _ hhead
      generalize hkk : nameLen n (p ++ [' ']) = k at *
      subst hp
      simp only [List.length_append, List.length_cons] at hn hm hlt
      have e1 : ∀ X : List Char, List.drop (k + 1) ((a ++ '(' :: body) ++ X) = body ++ X := by
        intro X
        rw [List.append_assoc, ← hal, List.drop_append]
        simp
      have e2 : ∀ X : List Char, List.take k ((a ++ '(' :: body) ++ X) = a := by
        intro X
        rw [List.append_assoc, ← hal, List.take_append_of_le_length (Nat.le_refl _)]; simp
      rw [e1] at h
      rw [e2] at h2
      simp only [urlRest, List.length_append, List.length_cons] at h
      have hwle := wsRun_le (body ++ [' '])
      simp only [List.length_append, List.length_cons, List.length_nil] at hwle
      by_cases he : (List.drop (wsRun (body ++ [' '])) (body ++ [' '])).isEmpty = true
      · exfalso
        simp only [he, if_true] at h
        have hl := congrArg Prod.snd h
        simp only at hl
        have : (body ++ [' ']).length ≤ wsRun (body ++ [' ']) := List.drop_eq_nil_iff.mp (List.isEmpty_iff.mp he)
        simp only [List.length_append, List.length_cons, List.length_nil] at this
        omega
      · simp only [he, Bool.false_eq_true, if_false] at h
        by_cases hq : isQuote ((List.drop (wsRun (body ++ [' '])) (body ++ [' '])).headD ' ') = true
        · simp only [hq, if_true] at h
          simp at h
        · simp only [hq, Bool.false_eq_true, if_false] at h
          have hl := congrArg Prod.snd h
          have ht := congrArg Prod.fst h
          simp only at hl ht
          have hgood : (urlLen n (List.drop (wsRun (body ++ [' '])) (body ++ [' ']))).2 = true := by
            cases hb : (urlLen n (List.drop (wsRun (body ++ [' '])) (body ++ [' ']))).2 with
            | true => rfl
            | false => simp [hb] at ht
          -- the white space ends inside the body
          have hwlt : wsRun (body ++ [' ']) < body.length := by
            rcases Nat.lt_trichotomy (wsRun (body ++ [' '])) body.length with hl' | hl' | hl'
            · exact hl'
            · exfalso
              have hd : List.drop (wsRun (body ++ [' '])) (body ++ [' ']) = [' '] := by
                rw [hl', List.drop_append_of_le_length (Nat.le_refl _)]; simp
              rw [hd] at hl
              obtain ⟨n', rfl⟩ : ∃ n', n = n' + 1 := ⟨n - 1, by omega⟩
              simp [urlLen, isWs, wsRun] at hl
              omega
            · exfalso
              have : List.drop (wsRun (body ++ [' '])) (body ++ [' ']) = [] := by
                apply List.drop_eq_nil_iff.mpr
                simp only [List.length_append, List.length_cons, List.length_nil]; omega
              rw [this] at he; simp at he
          have hd : ∀ X : List Char, List.drop (wsRun (body ++ [' '])) (body ++ X) =
              List.drop (wsRun (body ++ [' '])) body ++ X :=
            fun X => List.drop_append_of_le_length (Nat.le_of_lt hwlt)
          rw [hd] at hl hgood hq
          have hrec : urlLen n (List.drop (wsRun (body ++ [' '])) body ++ [' ']) =
              ((List.drop (wsRun (body ++ [' '])) body).length, true) := by
            apply Prod.ext
            · simp only [List.length_drop]; omega
            · exact hgood
          have hrec2 := urlLen_any n m _ f (by simp only [List.length_drop]; omega)
            (by simp only [List.length_drop] at hm ⊢; omega) hrec
          have hne : List.drop (wsRun (body ++ [' '])) body ≠ [] := by
            intro hh
            have := List.drop_eq_nil_iff.mp hh; omega
          have hnm : nameLen m ((a ++ '(' :: body) ++ f) = k := by
            have e3 : (a ++ '(' :: body) ++ f = a ++ '(' :: (body ++ f) := by simp
            have e4 : (a ++ '(' :: body) ++ [' '] = a ++ '(' :: (body ++ [' ']) := by simp
            rw [e3, ← hal]
            apply nameLen_stop n m a '(' (body ++ [' ']) (body ++ f) (by decide) (by decide)
            · simp only [List.length_append, List.length_cons, List.length_nil] at hn ⊢; omega
            · simp only [List.length_append] at hm ⊢; omega
            · rw [← e4, hkk, hal]
          simp only [identLike]
          rw [hnm, e1, e2, h2]
          have e5 : (List.drop k ((a ++ '(' :: body) ++ f)).head? = some '(' := by
            rw [List.append_assoc, ← hal, List.drop_append_of_le_length (Nat.le_refl _)]; simp
          simp only [e5, beq_self_eq_true, if_true, urlRest]
          rw [wsRun_lt body [' '] f hwlt, hd]
          cases hb2 : List.drop (wsRun (body ++ [' '])) body with
          | nil => exact absurd hb2 hne
          | cons y ys =>
            rw [hb2] at hq hrec2
            simp only [List.cons_append, List.headD_cons] at hq
            simp only [List.cons_append, List.isEmpty_cons, Bool.false_eq_true, if_false, List.headD_cons, hq]
            simp only [List.cons_append] at hrec2
            simp only [hrec2]
            have : ys.length + 1 = body.length - wsRun (body ++ [' ']) := by
              have := congrArg List.length hb2
              simp only [List.length_drop, List.length_cons] at this; omega
            apply Prod.ext
            · simp
            · simp only [List.length_cons, List.length_append]; omega
    · simp [h2] at h
  · simp only [h1, Bool.false_eq_true, if_false] at h
    simp at h


/-! ## the first token of `p ++ follower` -/

theorem identLike_types (n : Nat) (s : List Char) :
    (identLike n s).1 = .ident ∨ (identLike n s).1 = .function ∨ (identLike n s).1 = .url ∨ (identLike n s).1 = .badUrl := by
  simp only [identLike, urlRest]
  split
  · split
    · split
      · simp
      · split
        · simp
        · split <;> simp
    · simp
  · simp

theorem take2_loc (q : List Char) (c : Char) (r : List Char) (hc : UF c) :
    ((q ++ c :: r).take 2 == ['-', '>']) = ((q ++ [' ']).take 2 == ['-', '>']) := by
  have h1 : c ≠ '-' := by simpa using hc.minus
  have h2 : c ≠ '>' := by simpa using hc.gt
  match q with
  | [] => cases r <;> simp [h1]
  | [y] => simp [h2]
  | y :: z :: q' => simp

theorem take3_loc (q : List Char) (c : Char) (r : List Char) (hc : UF c) (hb : c = '!' → r.head? ≠ some '-') :
    ((q ++ c :: r).take 3 == ['!', '-', '-']) = ((q ++ [' ']).take 3 == ['!', '-', '-']) := by
  have h1 : c ≠ '-' := by simpa using hc.minus
  match q with
  | [] =>
    by_cases hcb : c = '!'
    · have := hb hcb
      subst hcb
      match r with
      | [] => simp
      | [a] => simp
      | a :: b :: r' => simp at this; simp [this]
    · match r with
      | [] => simp
      | [a] => simp
      | a :: b :: r' => simp [hcb]
  | [y] => cases r <;> simp [h1]
  | [y, z] => simp [h1]
  | y :: z :: w :: q' => simp

theorem headD_name_loc (q : List Char) (c : Char) (r : List Char) (hc : UF c) :
    isName ((q ++ c :: r).headD ' ') = isName ((q ++ [' ']).headD ' ') := by
  cases q with
  | nil => simp only [List.nil_append, List.headD_cons, hc.name]; decide
  | cons y ys => rfl

theorem head_star_loc (q : List Char) (c : Char) (r : List Char) (hc : UF c) :
    ((q ++ c :: r).head? == some '*') = ((q ++ [' ']).head? == some '*') := by
  have h1 : c ≠ '*' := by simpa using hc.star
  cases q with
  | nil => simp [h1]
  | cons y ys => rfl

/-- the token types that end where the next token starts (not self-delimited by a closing quote or parenthesis) -/
def PlainTT (tt : TT) : Prop :=
  tt ≠ .whitespace ∧ tt ≠ .comment ∧ tt ≠ .string ∧ tt ≠ .badString ∧ tt ≠ .url ∧ tt ≠ .badUrl ∧ tt ≠ .function

theorem identLike_plain (n : Nat) (s : List Char) (tt : TT) (k : Nat) (ht : PlainTT tt)
    (h : identLike n s = (tt, k)) : tt = .ident := by
  have := identLike_types n s
  rw [h] at this
  obtain ⟨_, _, _, _, h5, h6, h7⟩ := ht
  rcases this with h1 | h1 | h1 | h1
  · exact h1
  · exact absurd h1 h7
  · exact absurd h1 h5
  · exact absurd h1 h6

/-- **locality**: if `p` followed by one space reads as the token `(tt, p)`, so does `p` followed by any stop code
    point `c` and anything behind it -/
theorem next_loc (n m : Nat) (p : List Char) (c : Char) (r : List Char) (tt : TT) (hc : UF c)
    (hb : c = '!' → r.head? ≠ some '-') (ht : PlainTT tt)
    (hn : p.length + 1 ≤ n) (hm : p.length + 1 + r.length ≤ m)
    (h : next n (p ++ [' ']) = (tt, p.length)) : next m (p ++ c :: r) = (tt, p.length) := by
  match p with
  | [] =>
    exfalso
    have : next n [' '] = (.whitespace, 1) := by simp [next, isWs, wsRun]
    rw [List.nil_append, this] at h
    exact ht.1 (congrArg Prod.fst h).symm
  | x :: p' =>
    have hnum : ∀ t, numeric n (x :: (p' ++ [' '])) = (t, (x :: p').length) →
        numeric m (x :: (p' ++ c :: r)) = (t, (x :: p').length) :=
      fun t hh => numeric_loc n m (x :: p') c r t hc hn hm hh
    have hid : identLike n (x :: (p' ++ [' '])) = (tt, (x :: p').length) →
        identLike m (x :: (p' ++ c :: r)) = (tt, (x :: p').length) := by
      intro hh
      have := identLike_plain _ _ _ _ ht hh
      subst this
      exact identLike_ident_loc n m (x :: p') c r hc hn hm hh
    simp only [List.cons_append, next] at h ⊢
    by_cases c1 : isWs x = true
    · simp only [c1, if_true] at h
      exact absurd (congrArg Prod.fst h).symm ht.1
    simp only [c1, Bool.false_eq_true, if_false] at h ⊢
    by_cases c2 : isQuote x = true
    · simp only [c2, if_true] at h
      have := congrArg Prod.fst h
      simp only at this
      split at this
      · exact absurd this.symm ht.2.2.1
      · exact absurd this.symm ht.2.2.2.1
    simp only [c2, Bool.false_eq_true, if_false] at h ⊢
    by_cases c3 : (x == '#') = true
    · simp only [c3, if_true] at h ⊢
      rw [headD_name_loc p' c r hc, validEsc_loc p' c r hc]
      by_cases c3a : (isName ((p' ++ [' ']).headD ' ') || validEsc (p' ++ [' '])) = true
      · simp only [c3a, if_true] at h ⊢
        have hl := congrArg Prod.snd h
        simp only [List.length_cons] at hl hn hm
        rw [nameLen_loc n m p' c r hc (by omega) (by omega) (by omega)]
        exact h
      · simp only [c3a, Bool.false_eq_true, if_false] at h ⊢; exact h
    simp only [c3, Bool.false_eq_true, if_false] at h ⊢
    by_cases c4 : (x == '(') = true
    · simp only [c4, if_true] at h ⊢; exact h
    simp only [c4, Bool.false_eq_true, if_false] at h ⊢
    by_cases c5 : (x == ')') = true
    · simp only [c5, if_true] at h ⊢; exact h
    simp only [c5, Bool.false_eq_true, if_false] at h ⊢
    have hsn := startsNumber_loc (x :: p') c r hc
    have hsi := startsIdent_loc (x :: p') c r hc
    simp only [List.cons_append] at hsn hsi
    by_cases c6 : (x == '+') = true
    · simp only [c6, if_true, hsn] at h ⊢
      by_cases c6a : startsNumber (x :: (p' ++ [' '])) = true
      · simp only [c6a, if_true] at h ⊢; exact hnum _ h
      · simp only [c6a, Bool.false_eq_true, if_false] at h ⊢; exact h
    simp only [c6, Bool.false_eq_true, if_false] at h ⊢
    by_cases c7 : (x == ',') = true
    · simp only [c7, if_true] at h ⊢; exact h
    simp only [c7, Bool.false_eq_true, if_false] at h ⊢
    by_cases c8 : (x == '-') = true
    · simp only [c8, if_true, hsn, hsi, take2_loc p' c r hc] at h ⊢
      by_cases c8a : startsNumber (x :: (p' ++ [' '])) = true
      · simp only [c8a, if_true] at h ⊢; exact hnum _ h
      · simp only [c8a, Bool.false_eq_true, if_false] at h ⊢
        by_cases c8b : ((p' ++ [' ']).take 2 == ['-', '>']) = true
        · simp only [c8b, if_true] at h ⊢; exact h
        · simp only [c8b, Bool.false_eq_true, if_false] at h ⊢
          by_cases c8c : startsIdent (x :: (p' ++ [' '])) = true
          · simp only [c8c, if_true] at h ⊢; exact hid h
          · simp only [c8c, Bool.false_eq_true, if_false] at h ⊢; exact h
    simp only [c8, Bool.false_eq_true, if_false] at h ⊢
    by_cases c9 : (x == '.') = true
    · simp only [c9, if_true, hsn] at h ⊢
      by_cases c9a : startsNumber (x :: (p' ++ [' '])) = true
      · simp only [c9a, if_true] at h ⊢; exact hnum _ h
      · simp only [c9a, Bool.false_eq_true, if_false] at h ⊢; exact h
    simp only [c9, Bool.false_eq_true, if_false] at h ⊢
    by_cases c10 : (x == '/') = true
    · simp only [c10, if_true, head_star_loc p' c r hc] at h ⊢
      by_cases c10a : ((p' ++ [' ']).head? == some '*') = true
      · simp only [c10a, if_true] at h
        exact absurd (congrArg Prod.fst h).symm ht.2.1
      · simp only [c10a, Bool.false_eq_true, if_false] at h ⊢; exact h
    simp only [c10, Bool.false_eq_true, if_false] at h ⊢
    by_cases c11 : (x == ':') = true
    · simp only [c11, if_true] at h ⊢; exact h
    simp only [c11, Bool.false_eq_true, if_false] at h ⊢
    by_cases c12 : (x == ';') = true
    · simp only [c12, if_true] at h ⊢; exact h
    simp only [c12, Bool.false_eq_true, if_false] at h ⊢
    by_cases c13 : (x == '<') = true
    · simp only [c13, if_true, take3_loc p' c r hc hb] at h ⊢; exact h
    simp only [c13, Bool.false_eq_true, if_false] at h ⊢
    by_cases c14 : (x == '@') = true
    · simp only [c14, if_true, startsIdent_loc p' c r hc] at h ⊢
      by_cases c14a : startsIdent (p' ++ [' ']) = true
      · simp only [c14a, if_true] at h ⊢
        have hl := congrArg Prod.snd h
        simp only [List.length_cons] at hl hn hm
        rw [nameLen_loc n m p' c r hc (by omega) (by omega) (by omega)]
        exact h
      · simp only [c14a, Bool.false_eq_true, if_false] at h ⊢; exact h
    simp only [c14, Bool.false_eq_true, if_false] at h ⊢
    by_cases c15 : (x == '[') = true
    · simp only [c15, if_true] at h ⊢; exact h
    simp only [c15, Bool.false_eq_true, if_false] at h ⊢
    by_cases c16 : (x == '\\') = true
    · have hv := validEsc_loc (x :: p') c r hc
      simp only [List.cons_append] at hv
      simp only [c16, if_true, hv] at h ⊢
      by_cases c16a : validEsc (x :: (p' ++ [' '])) = true
      · simp only [c16a, if_true] at h ⊢; exact hid h
      · simp only [c16a, Bool.false_eq_true, if_false] at h ⊢; exact h
    simp only [c16, Bool.false_eq_true, if_false] at h ⊢
    by_cases c17 : (x == ']') = true
    · simp only [c17, if_true] at h ⊢; exact h
    simp only [c17, Bool.false_eq_true, if_false] at h ⊢
    by_cases c18 : (x == '{') = true
    · simp only [c18, if_true] at h ⊢; exact h
    simp only [c18, Bool.false_eq_true, if_false] at h ⊢
    by_cases c19 : (x == '}') = true
    · simp only [c19, if_true] at h ⊢; exact h
    simp only [c19, Bool.false_eq_true, if_false] at h ⊢
    by_cases c20 : isDigit x = true
    · simp only [c20, if_true] at h ⊢; exact hnum _ h
    simp only [c20, Bool.false_eq_true, if_false] at h ⊢
    by_cases c21 : isNameStart x = true
    · simp only [c21, if_true] at h ⊢; exact hid h
    simp only [c21, Bool.false_eq_true, if_false] at h ⊢
    exact h


theorem numeric_types (n : Nat) (s : List Char) :
    (numeric n s).1 = .dimension ∨ (numeric n s).1 = .percentage ∨ (numeric n s).1 = .number := by
  simp only [numeric]
  split
  · simp
  · split <;> simp

/-- token types that are decided without an ident-like or numeric scan -/
def simpleTypes : List TT :=
  [.hash, .delim, .leftParen, .rightParen, .comma, .cdc, .comment, .colon, .semicolon, .cdo, .atKeyword,
   .leftBracket, .rightBracket, .leftBrace, .rightBrace]

/-- how `next` dispatches on a first code point that is neither white space nor a quote -/
theorem next_dispatch (n : Nat) (x : Char) (r : List Char) (hw : isWs x = false) (hq : isQuote x = false) :
    (next n (x :: r) = identLike n (x :: r) ∧
      ((x == '-') = true ∨ (x == '\\') = true ∨ isNameStart x = true)) ∨
    next n (x :: r) = numeric n (x :: r) ∨
    (next n (x :: r)).1 ∈ simpleTypes := by
  simp only [next, hw, hq, Bool.false_eq_true, if_false]
  by_cases c3 : (x == '#') = true
  · simp only [c3, if_true]; right; right; split <;> simp [simpleTypes]
  simp only [c3, Bool.false_eq_true, if_false]
  by_cases c4 : (x == '(') = true
  · simp only [c4, if_true]; right; right; simp [simpleTypes]
  simp only [c4, Bool.false_eq_true, if_false]
  by_cases c5 : (x == ')') = true
  · simp only [c5, if_true]; right; right; simp [simpleTypes]
  simp only [c5, Bool.false_eq_true, if_false]
  by_cases c6 : (x == '+') = true
  · simp only [c6, if_true]
    split
    · right; left; rfl
    · right; right; simp [simpleTypes]
  simp only [c6, Bool.false_eq_true, if_false]
  by_cases c7 : (x == ',') = true
  · simp only [c7, if_true]; right; right; simp [simpleTypes]
  simp only [c7, Bool.false_eq_true, if_false]
  by_cases c8 : (x == '-') = true
  · simp only [c8, if_true]
    split
    · right; left; rfl
    · split
      · right; right; simp [simpleTypes]
      · split
        · left; exact ⟨rfl, by simp_all⟩
        · right; right; simp [simpleTypes]
  simp only [c8, Bool.false_eq_true, if_false]
  by_cases c9 : (x == '.') = true
  · simp only [c9, if_true]
    split
    · right; left; rfl
    · right; right; simp [simpleTypes]
  simp only [c9, Bool.false_eq_true, if_false]
  by_cases c10 : (x == '/') = true
  · simp only [c10, if_true]; right; right; split <;> simp [simpleTypes]
  simp only [c10, Bool.false_eq_true, if_false]
  by_cases c11 : (x == ':') = true
  · simp only [c11, if_true]; right; right; simp [simpleTypes]
  simp only [c11, Bool.false_eq_true, if_false]
  by_cases c12 : (x == ';') = true
  · simp only [c12, if_true]; right; right; simp [simpleTypes]
  simp only [c12, Bool.false_eq_true, if_false]
  by_cases c13 : (x == '<') = true
  · simp only [c13, if_true]; right; right; split <;> simp [simpleTypes]
  simp only [c13, Bool.false_eq_true, if_false]
  by_cases c14 : (x == '@') = true
  · simp only [c14, if_true]; right; right; split <;> simp [simpleTypes]
  simp only [c14, Bool.false_eq_true, if_false]
  by_cases c15 : (x == '[') = true
  · simp only [c15, if_true]; right; right; simp [simpleTypes]
  simp only [c15, Bool.false_eq_true, if_false]
  by_cases c16 : (x == '\\') = true
  · simp only [c16, if_true]
    split
    · left; exact ⟨rfl, by simp_all⟩
    · right; right; simp [simpleTypes]
  simp only [c16, Bool.false_eq_true, if_false]
  by_cases c17 : (x == ']') = true
  · simp only [c17, if_true]; right; right; simp [simpleTypes]
  simp only [c17, Bool.false_eq_true, if_false]
  by_cases c18 : (x == '{') = true
  · simp only [c18, if_true]; right; right; simp [simpleTypes]
  simp only [c18, Bool.false_eq_true, if_false]
  by_cases c19 : (x == '}') = true
  · simp only [c19, if_true]; right; right; simp [simpleTypes]
  simp only [c19, Bool.false_eq_true, if_false]
  by_cases c20 : isDigit x = true
  · simp only [c20, if_true]; right; left; trivial
  simp only [c20, Bool.false_eq_true, if_false]
  by_cases c21 : isNameStart x = true
  · simp only [c21, if_true]; left; simp
  simp only [c21, Bool.false_eq_true, if_false]
  right; right; simp [simpleTypes]

theorem not_digit_of_nameStart {x : Char} (h : isNameStart x = true) : isDigit x = false := by
  cases hd : isDigit x with
  | false => rfl
  | true =>
    exfalso
    simp only [isDigit, Bool.and_eq_true, decide_eq_true_eq] at hd
    simp only [isNameStart, Bool.or_eq_true, Bool.and_eq_true, decide_eq_true_eq, beq_iff_eq] at h
    rcases h with ((h | h) | h) | h
    · exact absurd (Char.le_trans h.1 hd.2) (by decide)
    · exact absurd (Char.le_trans h.1 hd.2) (by decide)
    · subst h; exact absurd hd.2 (by decide)
    · have h9 : x.toNat ≤ '9'.toNat := by
        have := hd.2
        simp only [Char.le_def, UInt32.le_iff_toNat_le] at this
        exact this
      have : '9'.toNat = 57 := by decide
      omega

/-- an identifier start code point always starts an ident-like token -/
theorem next_nameStart (n : Nat) (x : Char) (r : List Char) (h : isNameStart x = true) :
    next n (x :: r) = identLike n (x :: r) := by
  have hd := not_digit_of_nameStart h
  have e : ∀ y : Char, isNameStart y = false → (x == y) = false := by
    intro y hy
    cases hh : x == y with
    | false => rfl
    | true => have : x = y := by simpa using hh
              subst this; rw [h] at hy; exact absurd hy (by decide)
  have hw : isWs x = false := by
    simp only [isWs, e ' ' (by decide), e '\t' (by decide), e '\n' (by decide), e '\r' (by decide),
      e '\x0c' (by decide), Bool.or_false]
  have hq : isQuote x = false := by
    simp only [isQuote, e '"' (by decide), e '\'' (by decide), Bool.or_false]
  simp only [next, hw, hq, e '#' (by decide), e '(' (by decide), e ')' (by decide), e '+' (by decide),
    e ',' (by decide), e '-' (by decide), e '.' (by decide), e '/' (by decide), e ':' (by decide),
    e ';' (by decide), e '<' (by decide), e '@' (by decide), e '[' (by decide), e '\\' (by decide),
    e ']' (by decide), e '{' (by decide), e '}' (by decide), hd, h, Bool.false_eq_true, if_false, if_true]

/-- `-` and two more code points decide the dispatch -/
theorem next_minus (n : Nat) (a b : Char) (t : List Char) :
    next n ('-' :: a :: b :: t) =
      if (isDigit a || (a == '.' && isDigit b)) = true then numeric n ('-' :: a :: b :: t)
      else if (a == '-' && b == '>') = true then (.cdc, 3)
      else if (isNameStart a || a == '-' || (a == '\\' && !isNl b)) = true then identLike n ('-' :: a :: b :: t)
      else (.delim, 1) := by
  have h1 : isWs '-' = false := by decide
  have h2 : isQuote '-' = false := by decide
  have e1 : startsNumber ('-' :: a :: b :: t) = (isDigit a || (a == '.' && isDigit b)) := by simp [startsNumber]
  have e2 : (List.take 2 (a :: b :: t) == ['-', '>']) = (a == '-' && b == '>') := by
    simp [List.take]
  have e3 : startsIdent ('-' :: a :: b :: t) = (isNameStart a || a == '-' || (a == '\\' && !isNl b)) := by
    by_cases ha : a = '\\'
    · subst ha; simp [startsIdent, validEsc]
    · simp [startsIdent, validEsc, ha]
  simp only [next, h1, h2, e1, e2, e3, Bool.false_eq_true, if_false,
    show ('-' == '#') = false by decide, show ('-' == '(') = false by decide, show ('-' == ')') = false by decide,
    show ('-' == '+') = false by decide, show ('-' == ',') = false by decide, show ('-' == '-') = true by decide, if_true]

/-! ## self-delimited lexemes: strings, urls, function tokens -/

/-- a closed string is read as itself whatever follows -/
theorem next_str_any (n m : Nat) (p f : List Char)
    (hn : p.length + 1 ≤ n) (hm : p.length + f.length ≤ m)
    (h : next n (p ++ [' ']) = (.string, p.length)) : next m (p ++ f) = (.string, p.length) := by
  match p with
  | [] => simp [next, isWs, wsRun] at h
  | x :: p' =>
    by_cases c1 : isWs x = true
    · simp [next, c1] at h
    by_cases c2 : isQuote x = true
    · simp only [List.cons_append, next, c1, c2, Bool.false_eq_true, if_false, if_true] at h ⊢
      have hq : (x == ' ') = false := by
        cases hh : x == ' ' with
        | false => rfl
        | true => have : x = ' ' := by simpa using hh
                  subst this; simp [isWs] at c1
      have h1 := congrArg Prod.fst h
      have h2 := congrArg Prod.snd h
      simp only [List.length_cons] at h1 h2 hn hm
      have hgood : (strLen n x (p' ++ [' '])).2 = true := by
        cases hb : (strLen n x (p' ++ [' '])).2 with
        | true => rfl
        | false => simp [hb] at h1
      have hrec : strLen n x (p' ++ [' ']) = (p'.length, true) := by
        apply Prod.ext
        · simp only; omega
        · exact hgood
      rw [strLen_any n m x p' f hq (by omega) (by omega) hrec]
      simp only [if_true, List.length_cons]
      apply Prod.ext <;> simp <;> omega
    · exfalso
      have hw : isWs x = false := by simpa using c1
      have hq : isQuote x = false := by simpa using c2
      rcases next_dispatch n x (p' ++ [' ']) hw hq with hd | hd | hd
      · have := identLike_types n (x :: (p' ++ [' ']))
        rw [← hd.1] at this
        simp only [List.cons_append] at h
        rw [h] at this; simp at this
      · have := numeric_types n (x :: (p' ++ [' ']))
        rw [← hd] at this
        simp only [List.cons_append] at h
        rw [h] at this; simp at this
      · simp only [List.cons_append] at h
        rw [h] at hd; simp [simpleTypes] at hd

/-- a url token whose name starts with an identifier start code point is read as itself whatever follows -/
theorem next_url_any (n m : Nat) (x : Char) (p' f : List Char) (hx : isNameStart x = true)
    (hn : (x :: p').length + 1 ≤ n) (hm : (x :: p').length + f.length ≤ m)
    (h : next n ((x :: p') ++ [' ']) = (.url, (x :: p').length)) :
    next m ((x :: p') ++ f) = (.url, (x :: p').length) := by
  simp only [List.cons_append] at h ⊢
  rw [next_nameStart _ _ _ hx] at h ⊢
  exact identLike_url_any n m (x :: p') f hn hm h

/-- a function token (name starting with an identifier start code point, or with `-` and at least two more code
    points) is read as itself whatever follows -/
theorem next_fun_any (n m : Nat) (p f : List Char)
    (hx : isNameStart (p.headD ' ') = true ∨ (p.head? = some '-' ∧ 3 ≤ p.length))
    (hn : p.length + 1 ≤ n) (hm : p.length + f.length ≤ m)
    (h : next n (p ++ [' ']) = (.function, p.length)) : next m (p ++ f) = (.function, p.length) := by
  rcases hx with hx | ⟨hx1, hx2⟩
  · match p with
    | [] => simp [isNameStart] at hx
    | x :: p' =>
      simp only [List.headD_cons] at hx
      simp only [List.cons_append] at h ⊢
      rw [next_nameStart _ _ _ hx] at h ⊢
      exact identLike_fun_any n m (x :: p') f hn hm h
  · match p, hx1, hx2 with
    | x :: a :: b :: p'', hx1, _ =>
      have : x = '-' := by simpa using hx1
      subst this
      simp only [List.cons_append] at h ⊢
      rw [next_minus] at h ⊢
      by_cases c1 : (isDigit a || (a == '.' && isDigit b)) = true
      · exfalso
        simp only [c1, if_true] at h
        have := numeric_types n ('-' :: a :: b :: (p'' ++ [' ']))
        rw [h] at this; simp at this
      · simp only [c1, Bool.false_eq_true, if_false] at h ⊢
        by_cases c2 : (a == '-' && b == '>') = true
        · simp [c2] at h
        · simp only [c2, Bool.false_eq_true, if_false] at h ⊢
          by_cases c3 : (isNameStart a || a == '-' || (a == '\\' && !isNl b)) = true
          · simp only [c3, if_true] at h ⊢
            exact identLike_fun_any n m ('-' :: a :: b :: p'') f hn hm h
          · simp [c3] at h


end Verif.Proofs.C09CssTok

import Verif.Spec.JsSem
import Verif.Model.JsOpt
/-!
# C01 — helper lemmas: monad laws of the semantics, evaluation equations, facts about the generated tables
-/
namespace Verif.Proofs.JsSemLemmas
open Verif.Spec.JsSyntax Verif.Spec.JsSem Verif.Model.JsAst Verif.Model.JsOpt

variable {H : Host}

/-! ## structural induction over the nested syntax -/

mutual
theorem E.ind {P : E → Prop}
    (hvar : ∀ n, P (.var n)) (hlit : ∀ l, P (.lit l))
    (hun : ∀ op x, P x → P (.unary op x)) (hbin : ∀ op x y, P x → P y → P (.bin op x y))
    (hcond : ∀ c x y, P c → P x → P y → P (.cond c x y))
    (hcomma : ∀ l, (∀ a ∈ l, P a) → P (.comma l))
    (hcall : ∀ f args, P f → (∀ a ∈ args, P a) → P (.call f args))
    (hdot : ∀ x n, P x → P (.dot x n)) (hindex : ∀ x y, P x → P y → P (.index x y))
    (hgroup : ∀ x, P x → P (.group x)) (hopt : ∀ a e, P e → P (.opt a e)) : ∀ e : E, P e
  | .var n => hvar n
  | .lit l => hlit l
  | .unary op x => hun op x (E.ind hvar hlit hun hbin hcond hcomma hcall hdot hindex hgroup hopt x)
  | .bin op x y => hbin op x y (E.ind hvar hlit hun hbin hcond hcomma hcall hdot hindex hgroup hopt x)
      (E.ind hvar hlit hun hbin hcond hcomma hcall hdot hindex hgroup hopt y)
  | .cond c x y => hcond c x y (E.ind hvar hlit hun hbin hcond hcomma hcall hdot hindex hgroup hopt c)
      (E.ind hvar hlit hun hbin hcond hcomma hcall hdot hindex hgroup hopt x)
      (E.ind hvar hlit hun hbin hcond hcomma hcall hdot hindex hgroup hopt y)
  | .comma l => hcomma l (E.indL hvar hlit hun hbin hcond hcomma hcall hdot hindex hgroup hopt l)
  | .call f args => hcall f args (E.ind hvar hlit hun hbin hcond hcomma hcall hdot hindex hgroup hopt f)
      (E.indL hvar hlit hun hbin hcond hcomma hcall hdot hindex hgroup hopt args)
  | .dot x n => hdot x n (E.ind hvar hlit hun hbin hcond hcomma hcall hdot hindex hgroup hopt x)
  | .index x y => hindex x y (E.ind hvar hlit hun hbin hcond hcomma hcall hdot hindex hgroup hopt x)
      (E.ind hvar hlit hun hbin hcond hcomma hcall hdot hindex hgroup hopt y)
  | .group x => hgroup x (E.ind hvar hlit hun hbin hcond hcomma hcall hdot hindex hgroup hopt x)
  | .opt a e => hopt a e (E.ind hvar hlit hun hbin hcond hcomma hcall hdot hindex hgroup hopt e)
theorem E.indL {P : E → Prop}
    (hvar : ∀ n, P (.var n)) (hlit : ∀ l, P (.lit l))
    (hun : ∀ op x, P x → P (.unary op x)) (hbin : ∀ op x y, P x → P y → P (.bin op x y))
    (hcond : ∀ c x y, P c → P x → P y → P (.cond c x y))
    (hcomma : ∀ l, (∀ a ∈ l, P a) → P (.comma l))
    (hcall : ∀ f args, P f → (∀ a ∈ args, P a) → P (.call f args))
    (hdot : ∀ x n, P x → P (.dot x n)) (hindex : ∀ x y, P x → P y → P (.index x y))
    (hgroup : ∀ x, P x → P (.group x)) (hopt : ∀ a e, P e → P (.opt a e)) : ∀ l : List E, ∀ a ∈ l, P a
  | [] => fun _ h => by cases h
  | b :: t => fun a h => by
    cases h with
    | head => exact E.ind hvar hlit hun hbin hcond hcomma hcall hdot hindex hgroup hopt b
    | tail _ h' => exact E.indL hvar hlit hun hbin hcond hcomma hcall hdot hindex hgroup hopt t a h'
end

theorem snoc_of_getLast? {α : Type} (l : List α) (a : α) (h : l.getLast? = some a) : l = l.dropLast ++ [a] := by
  have hne : l ≠ [] := by intro h0; simp [h0] at h
  have h1 := List.dropLast_concat_getLast hne
  have h2 : l.getLast? = some (l.getLast hne) := List.getLast?_eq_some_getLast hne
  rw [h] at h2
  injection h2 with h2
  rw [h2]
  exact h1.symm

/-! ## monad laws -/

@[simp] theorem retM_bind {α β : Type} (a : α) (f : α → M β) : bindM (retM a) f = f a := by
  funext s; simp [bindM, retM]

@[simp] theorem bind_retM {α : Type} (m : M α) : bindM m retM = m := by
  funext s; simp only [bindM, retM]; cases m s <;> rfl

@[simp] theorem bindM_assoc {α β γ : Type} (m : M α) (f : α → M β) (g : β → M γ) :
    bindM (bindM m f) g = bindM m (fun a => bindM (f a) g) := by
  funext s; simp only [bindM]; cases m s <;> rfl

@[simp] theorem throw_bind {α β : Type} (v : Val) (f : α → M β) : bindM (throwV v) f = throwV v := by
  funext s; simp [bindM, throwV]

theorem bindM_congr {α β : Type} (m : M α) (f g : α → M β) (h : ∀ a, f a = g a) : bindM m f = bindM m g := by
  have : f = g := funext h
  rw [this]

/-- `if` distributes over a following bind -/
theorem bind_ite {α β : Type} (c : Bool) (m n : M α) (f : α → M β) :
    bindM (if c then m else n) f = if c then bindM m f else bindM n f := by
  cases c <;> rfl

/-! ## values -/

@[simp] theorem truthy_bool (b : Bool) : truthy (.bool b) = b := rfl
@[simp] theorem truthy_undef : truthy .undef = false := rfl
@[simp] theorem truthy_null : truthy .null = false := rfl
@[simp] theorem isNullish_undef : isNullish .undef = true := rfl
@[simp] theorem isNullish_null : isNullish .null = true := rfl
@[simp] theorem isNullish_bool (b : Bool) : isNullish (.bool b) = false := rfl

/-! ## evaluation equations -/

@[simp] theorem eval_group (x : E) : eval H (.group x) = eval H x := by simp [eval]
@[simp] theorem eval_var (n : String) : eval H (.var n) = getVar n := by simp [eval]
@[simp] theorem eval_num (n : Nat) : eval H (.lit (.num n)) = retM (.num n) := by simp [eval]
@[simp] theorem eval_str (s : String) : eval H (.lit (.str s)) = retM (.str s) := by simp [eval]
@[simp] theorem eval_true : eval H (.lit .true) = retM (.bool true) := by simp [eval]
@[simp] theorem eval_false : eval H (.lit .false) = retM (.bool false) := by simp [eval]
@[simp] theorem eval_null : eval H (.lit .null) = retM .null := by simp [eval]
@[simp] theorem eval_not (x : E) :
    eval H (.unary .not x) = bindM (eval H x) (fun v => retM (.bool (!truthy v))) := by simp [eval]
@[simp] theorem eval_void (x : E) : eval H (.unary .void x) = bindM (eval H x) (fun _ => retM .undef) := by
  simp [eval]
@[simp] theorem eval_land (x y : E) :
    eval H (.bin .land x y) = bindM (eval H x) (fun v => if truthy v then eval H y else retM v) := by simp [eval]
@[simp] theorem eval_lor (x y : E) :
    eval H (.bin .lor x y) = bindM (eval H x) (fun v => if truthy v then retM v else eval H y) := by simp [eval]
@[simp] theorem eval_nullish (x y : E) :
    eval H (.bin .nullish x y) = bindM (eval H x) (fun v => if isNullish v then eval H y else retM v) := by
  simp [eval]
@[simp] theorem eval_opt (a : String) (e : E) :
    eval H (.opt a e) = bindM (getVar a) (fun v => if isNullish v then retM .undef else eval H e) := by simp [eval]
@[simp] theorem eval_cond (c x y : E) :
    eval H (.cond c x y) = bindM (eval H c) (fun v => if truthy v then eval H x else eval H y) := by simp [eval]
@[simp] theorem eval_comma (l : List E) :
    eval H (.comma l) = bindM (evalL H l) (fun vs => retM (vs.getLast?.getD .undef)) := by simp [eval]
@[simp] theorem eval_call (f : E) (args : List E) :
    eval H (.call f args) = bindM (eval H f) (fun fv => bindM (evalL H args) (fun vs => hostEv (.call fv vs) H.call)) := by
  simp [eval]
@[simp] theorem evalL_nil : evalL H [] = retM [] := by simp [evalL]
@[simp] theorem evalL_cons (a : E) (t : List E) :
    evalL H (a :: t) = bindM (eval H a) (fun v => bindM (evalL H t) (fun vs => retM (v :: vs))) := by simp [evalL]

theorem eval_assign (x y : E) :
    eval H (.bin .assign x y) =
      bindM (lref H x) (fun r => bindM (eval H y) (fun v => bindM (putRef H r v) (fun _ => retM v))) := by
  simp [eval]

/-- the operators evaluated as "both operands, then a pure function" -/
def isStrictOp : BOp → Bool
  | .exp | .mul | .div | .mod | .add | .sub | .shl | .shr | .ushr | .lt | .le | .gt | .ge | .inOp | .instOf
  | .eq | .ne | .seq | .sne | .band | .bxor | .bor => true
  | _ => false

theorem eval_strict (op : BOp) (x y : E) (h : isStrictOp op = true) :
    eval H (.bin op x y) = bindM (eval H x) (fun a => bindM (eval H y) (fun b => strictBin H op a b)) := by
  cases op <;> simp [isStrictOp] at h <;> simp [eval, compoundOp]

/-! ## evaluating a list that ends in `x` -/

theorem evalL_snoc (l : List E) (x : E) :
    evalL H (l ++ [x]) = bindM (evalL H l) (fun vs => bindM (eval H x) (fun v => retM (vs ++ [v]))) := by
  induction l with
  | nil => simp
  | cons a t ih => simp [ih]

theorem evalL_append_single (l : List E) (x : E) :
    bindM (evalL H (l ++ [x])) (fun vs => retM (vs.getLast?.getD .undef)) =
      bindM (evalL H l) (fun _ => eval H x) := by
  rw [evalL_snoc]
  simp

/-! ## facts about the regenerated tables used by the rewrites -/

theorem prec_eq_and (op : BOp) (h : op.prec = opAnd) : op = .land := by
  have : ∀ o ∈ BOp.all, o.prec = opAnd → o = .land := by decide
  exact this op (BOp.mem_all op) h

theorem prec_eq_or (op : BOp) (h : op.prec = opOr) : op = .lor := by
  have : ∀ o ∈ BOp.all, o.prec = opOr → o = .lor := by decide
  exact this op (BOp.mem_all op) h

theorem prec_eq_equals (op : BOp) (h : op.prec = opEquals) : op = .eq ∨ op = .ne ∨ op = .seq ∨ op = .sne := by
  have : ∀ o ∈ BOp.all, o.prec = opEquals → (o = .eq ∨ o = .ne ∨ o = .seq ∨ o = .sne) := by decide
  exact this op (BOp.mem_all op) h

theorem prec_eq_compare (op : BOp) (h : op.prec = opCompare) :
    op = .lt ∨ op = .le ∨ op = .gt ∨ op = .ge ∨ op = .inOp ∨ op = .instOf := by
  have : ∀ o ∈ BOp.all, o.prec = opCompare →
      (o = .lt ∨ o = .le ∨ o = .gt ∨ o = .ge ∨ o = .inOp ∨ o = .instOf) := by decide
  exact this op (BOp.mem_all op) h

theorem prec_assign_ne (op : BOp) (h : (op.prec == opAssign) = false) :
    op ≠ .assign ∧ compoundOp op = none := by
  have : ∀ o ∈ BOp.all, (o.prec == opAssign) = false → (o ≠ .assign ∧ compoundOp o = none) := by decide
  exact this op (BOp.mem_all op) h

end Verif.Proofs.JsSemLemmas

import Verif.Proofs.DataURIDecode
/-!
# helper lemmas for C18: the two default-stripping steps of `minify.DataURI`
-/
set_option maxRecDepth 100000
namespace Verif.Proofs.DataURI
open Verif Verif.Model.DataURI

theorem toLower_of_nonlower {c d : Char} (h : toLower c = d) (hd : ¬('a' ≤ d ∧ d ≤ 'z')) : c = d := by
  unfold toLower at h
  split at h
  · rename_i hu
    exfalso
    apply hd
    simp only [char_le_iff] at hu ⊢
    have hA : 'A'.toNat = 65 := by decide
    have hZ : 'Z'.toNat = 90 := by decide
    have ha : 'a'.toNat = 97 := by decide
    have hz : 'z'.toNat = 122 := by decide
    rw [hA, hZ] at hu
    rw [ha, hz, ← h, toNat_ofNat_small (by omega)]
    omega
  · exact h

theorem toLower_ws {c : Char} (h : isWs c = true) : toLower c = c := by
  simp only [isWs, Bool.or_eq_true, decide_eq_true_eq] at h
  rcases h with (((h | h) | h) | h) | h <;> subst h <;> decide

theorem fold_no_semi {p k : List Char} (h : p.map toLower = k) (hk : ';' ∉ k) : ';' ∉ p := by
  intro hc
  apply hk
  rw [← h]
  have : toLower ';' = ';' := by decide
  rw [← this]
  exact List.mem_map_of_mem hc

theorem fold_no_ws {p k : List Char} (h : p.map toLower = k) (hk : ∀ c ∈ k, isWs c = false) :
    ∀ c ∈ p, isWs c = false := by
  intro c hc
  cases hw : isWs c
  · rfl
  · have := toLower_ws hw
    have hm : toLower c ∈ k := by rw [← h]; exact List.mem_map_of_mem hc
    rw [this] at hm
    rw [hk c hm] at hw
    cases hw

/-! ## `;base64` is appended before the stripping steps; they do not interact with it -/

theorem endOrSemi_append (r : List Char) : endOrSemi (r ++ semiBase64) = endOrSemi r := by
  cases r with
  | nil => decide
  | cons d t => rfl

theorem stripTextPlain_append (m : List Char) : stripTextPlain (m ++ semiBase64) = stripTextPlain m ++ semiBase64 := by
  unfold stripTextPlain
  by_cases hl : 10 ≤ m.length
  · have h1 : 10 ≤ (m ++ semiBase64).length := by simp; omega
    have h2 : (m ++ semiBase64).take 10 = m.take 10 := by
      rw [List.take_append_of_le_length hl]
    have h3 : (m ++ semiBase64).drop 10 = m.drop 10 ++ semiBase64 := List.drop_append_of_le_length hl
    simp only [hl, h1, h2, h3, endOrSemi_append, true_and]
    split
    · rfl
    · rfl
  · have h3 : ¬(10 ≤ m.length ∧ equalFold (m.take 10) textPlain = true ∧ endOrSemi (m.drop 10) = true) := fun h => hl h.1
    rw [if_neg h3]
    rw [if_neg]
    intro ⟨_, hf, _⟩
    simp only [equalFold, beq_iff_eq] at hf
    have hsemi : ';' ∈ (m ++ semiBase64).take 10 := by
      have : (m ++ semiBase64).take 10 = m ++ semiBase64.take (10 - m.length) := by
        rw [List.take_append, List.take_of_length_le (by omega)]
      rw [this]
      apply List.mem_append_right
      have : 10 - m.length = (10 - m.length - 1) + 1 := by omega
      rw [this]
      simp [semiBase64]
    exact fold_no_semi hf (by decide) hsemi

theorem stripCharset_append (m : List Char) : stripCharset (m ++ semiBase64) = stripCharset m ++ semiBase64 := by
  induction m with
  | nil => decide
  | cons c r ih =>
    simp only [List.cons_append, stripCharset]
    by_cases hl : 16 ≤ r.length
    · have h1 : 16 ≤ (r ++ semiBase64).length := by simp; omega
      have h2 : (r ++ semiBase64).take 16 = r.take 16 := List.take_append_of_le_length hl
      have h3 : (r ++ semiBase64).drop 16 = r.drop 16 ++ semiBase64 := List.drop_append_of_le_length hl
      have h4 : endOrSemi (r.drop 16 ++ semiBase64) = endOrSemi (r.drop 16) := endOrSemi_append _
      simp only [hl, h1, h2, h3, h4, true_and]
      split
      · rfl
      · simp [ih]
    · have hn : ¬(c = ';' ∧ 16 ≤ r.length ∧ equalFold (r.take 16) charsetAscii = true ∧ endOrSemi (r.drop 16) = true) :=
        fun h => hl h.2.1
      rw [if_neg hn, if_neg, ih]
      · rfl
      · intro ⟨_, h16, hf, _⟩
        simp only [equalFold, beq_iff_eq] at hf
        have hsemi : ';' ∈ (r ++ semiBase64).take 16 := by
          have : (r ++ semiBase64).take 16 = r ++ semiBase64.take (16 - r.length) := by
            rw [List.take_append, List.take_of_length_le (by omega)]
          rw [this]
          apply List.mem_append_right
          have : 16 - r.length = (16 - r.length - 1) + 1 := by omega
          rw [this]
          simp [semiBase64]
        exact fold_no_semi hf (by decide) hsemi

/-- what `stripCharset` does: nothing, or it removes one parameter `;charset=us-ascii` (any case) that is
    followed by `;` or the end -/
theorem stripCharset_cases (m : List Char) :
    stripCharset m = m ∨
    ∃ a c b, m = a ++ ';' :: c ++ b ∧ c.map toLower = charsetAscii ∧ (b = [] ∨ ∃ b', b = ';' :: b') ∧
      stripCharset m = a ++ b := by
  induction m with
  | nil => left; rfl
  | cons x r ih =>
    simp only [stripCharset]
    split
    · rename_i h
      right
      obtain ⟨hx, h16, hf, he⟩ := h
      simp only [equalFold, beq_iff_eq] at hf
      refine ⟨[], r.take 16, r.drop 16, ?_, hf, ?_, by simp⟩
      · simp [hx]
      · cases hd : r.drop 16 with
        | nil => left; rfl
        | cons d t =>
          right
          rw [hd] at he
          simp only [endOrSemi, decide_eq_true_eq] at he
          exact ⟨t, by rw [he]⟩
    · rcases ih with h | ⟨a, c, b, he, hf, hb, hs⟩
      · left; rw [h]
      · right
        exact ⟨x :: a, c, b, by simp [he], hf, hb, by simp [hs]⟩

/-! ## the media type normal form -/

/-- whitespace-free lower-case text: all that `mtNorm` looks at -/
def key (m : List Char) : List Char := (S.stripWs m).map S.lower

def normOf (s : List Char) : List Char × List (List Char) :=
  match S.splitSemi s with
  | [] => ([], [])
  | ty :: ps => (if ty = "text/plain".toList then [] else ty, ps.filter (fun p => p ≠ "charset=us-ascii".toList))

theorem mtNorm_eq (mt : List Char) : S.mtNorm mt = normOf (key mt) := rfl

theorem key_append (a b : List Char) : key (a ++ b) = key a ++ key b := by
  simp [key, stripWs_append]

theorem key_of_strip_eq {a b : List Char} (h : S.stripWs a = S.stripWs b) : key a = key b := by
  simp [key, h]

theorem key_semi (r : List Char) : key (';' :: r) = ';' :: key r := by
  have : (';' :: r) = [';'] ++ r := rfl
  rw [this, key_append]
  rfl

theorem key_block {p k : List Char} (h : p.map toLower = k) (hk : ∀ c ∈ k, isWs c = false) : key p = k := by
  have hw := fold_no_ws h hk
  have : S.stripWs p = p := by
    simp only [S.stripWs, ws_eq]
    apply List.filter_eq_self.2
    intro c hc
    simp [hw c hc]
  simp only [key, this, lower_eq, h]

theorem norm_textplain (p r : List Char) (hp : p.map toLower = textPlain) (hr : r = [] ∨ ∃ r', r = ';' :: r') :
    S.mtNorm (p ++ r) = S.mtNorm r := by
  have hkp : key p = textPlain := key_block hp (by decide)
  rw [mtNorm_eq, mtNorm_eq, key_append, hkp]
  rcases hr with rfl | ⟨r', rfl⟩
  · decide
  · rw [key_semi]
    simp only [normOf, S.splitSemi, if_true]
    rfl

theorem normOf_append_semi (a b : List Char) :
    normOf (a ++ ';' :: b) =
      ((normOf a).1, (normOf a).2 ++ (S.splitSemi b).filter (fun p => p ≠ "charset=us-ascii".toList)) := by
  simp only [normOf, splitSemi_append_semi]
  cases hs : S.splitSemi a with
  | nil => exact absurd hs (splitSemi_ne_nil a)
  | cons ty ps => simp only [List.cons_append, List.filter_append]

theorem norm_charset (a c b : List Char) (hc : c.map toLower = charsetAscii) (hb : b = [] ∨ ∃ b', b = ';' :: b') :
    S.mtNorm (a ++ b) = S.mtNorm (a ++ ';' :: c ++ b) := by
  have hkc : key c = charsetAscii := key_block hc (by decide)
  have e : a ++ ';' :: c ++ b = a ++ ';' :: (c ++ b) := by simp
  rw [mtNorm_eq, mtNorm_eq, e, key_append, key_append, key_semi, key_append, hkc, normOf_append_semi]
  rcases hb with rfl | ⟨b', rfl⟩
  · have : key [] = [] := rfl
    simp only [this, List.append_nil]
    have : S.splitSemi charsetAscii = [charsetAscii] := by decide
    rw [this]
    have : [charsetAscii].filter (fun p => p ≠ "charset=us-ascii".toList) = [] := by decide
    rw [this]
    simp
  · rw [key_semi, normOf_append_semi, splitSemi_append_semi]
    have : S.splitSemi charsetAscii = [charsetAscii] := by decide
    rw [this]
    have : ([charsetAscii] ++ S.splitSemi (key b')).filter (fun p => p ≠ "charset=us-ascii".toList)
        = (S.splitSemi (key b')).filter (fun p => p ≠ "charset=us-ascii".toList) := by
      rw [List.filter_append]
      have : [charsetAscii].filter (fun p => p ≠ "charset=us-ascii".toList) = [] := by decide
      rw [this]; rfl
    rw [this]

/-! ## `goodTail` through the stripping steps, and what it means for the reader of the output -/

theorem goodTail_drop (p t : List Char) (hp : ';' ∉ p) (h : goodTail (p ++ t)) : goodTail t := by
  unfold goodTail at *
  rw [splitSemi_prepend p t hp] at h
  exact h

theorem goodTail_charset (a c b : List Char) (hc : c.map toLower = charsetAscii) (hb : b = [] ∨ ∃ b', b = ';' :: b')
    (h : goodTail (a ++ ';' :: c ++ b)) : goodTail (a ++ b) := by
  unfold goodTail at *
  have e : a ++ ';' :: c ++ b = a ++ ';' :: (c ++ b) := by simp
  rw [e, splitSemi_append_semi] at h
  cases hs : S.splitSemi a with
  | nil => exact absurd hs (splitSemi_ne_nil a)
  | cons x t =>
    rw [hs] at h
    rcases hb with rfl | ⟨b', rfl⟩
    · intro s hsm
      simp only [List.append_nil, hs, List.tail_cons] at hsm
      exact h s (by simp [hsm])
    · intro s hsm
      rw [splitSemi_append_semi, hs] at hsm
      simp only [List.cons_append, List.tail_cons] at hsm
      apply h s
      simp only [List.cons_append, List.tail_cons]
      rw [splitSemi_append_semi]
      rcases List.mem_append.1 hsm with h1 | h1
      · exact List.mem_append_left _ h1
      · exact List.mem_append_right _ (List.mem_append_right _ h1)

theorem exists_last_semi (m : List Char) (h : ';' ∈ m) : ∃ x y, m = x ++ ';' :: y ∧ ';' ∉ y := by
  induction m with
  | nil => simp at h
  | cons c r ih =>
    by_cases hr : ';' ∈ r
    · obtain ⟨x, y, he, hy⟩ := ih hr
      exact ⟨c :: x, y, by simp [he], hy⟩
    · have : c = ';' := by
        rcases List.mem_cons.1 h with e | e
        · exact e.symm
        · exact absurd e hr
      exact ⟨[], r, by simp [this], hr⟩

/-- a media type whose later `;`-items are not the word `base64` is read as "not base64" -/
theorem marker_of_goodTail (m : List Char) (h : goodTail m) : S.splitMarker m = (m, false) := by
  by_cases hs : ';' ∈ m
  · obtain ⟨x, y, he, hy⟩ := exists_last_semi m hs
    have hy' : trimWs y ≠ base64Word := by
      apply h
      rw [he, splitSemi_append_semi, splitSemi_noSemi y hy]
      cases hsx : S.splitSemi x with
      | nil => exact absurd hsx (splitSemi_ne_nil x)
      | cons a t => simp
    have hb : base64Word = "base64".toList := rfl
    rw [hb] at hy'
    simp only [S.splitMarker, he, splitLastSemi_append x y hy, trim_eq, hy', if_false]
  · simp [S.splitMarker, splitLastSemi_none m hs]

theorem marker_b64 (m : List Char) : S.splitMarker (m ++ semiBase64) = (m, true) := by
  have : m ++ semiBase64 = m ++ ';' :: base64Word := rfl
  rw [this]
  simp only [S.splitMarker, splitLastSemi_append m base64Word (by decide)]
  rfl

theorem goodTail_textPlain : goodTail textPlain := by
  unfold goodTail; decide

theorem goodTail_finish (x : List Char) (h : goodTail x) : goodTail (finishMt x) := by
  unfold finishMt
  split
  · exact goodTail_textPlain
  · split
    · exact goodTail_textPlain
    · exact h

theorem comma_finish (x : List Char) (h : ',' ∉ x) : ',' ∉ finishMt x := by
  unfold finishMt
  split
  · decide
  · split
    · decide
    · exact h

end Verif.Proofs.DataURI

import Verif.Proofs.JsCondSound
set_option linter.unusedSimpArgs false
set_option linter.unnecessarySimpa false
/-!
# C01-B — soundness of the nullish rewrites: `isUndefinedOrNullVar`, `toNullishExpr`
-/
namespace Verif.Proofs.JsNullishSound
open Verif.Spec.JsSyntax Verif.Spec.JsSem Verif.Model.JsAst Verif.Model.JsOpt Verif.Proofs.JsSemLemmas
open Verif.Proofs.JsOptSound Verif.Proofs.JsPure Verif.Proofs.JsCondSound
open Verif.Spec.JsSyntax.E

variable {H : Host}

/-- the constant `null` / `undefined` denoted by an operand accepted by `isUndefinedOrNull` -/
def constOf (k : E) : Val := if isNullLit k then .null else .undef

theorem iuon_pure (k : E) (h : isUndefinedOrNull k = true) : PureVal H k (fun v => v = constOf k) := by
  unfold isUndefinedOrNull at h
  unfold constOf isNullLit
  intro s
  rw [← eval_inner k]
  split at h
  · rename_i l hi
    rw [hi]
    have : l = .null := by simpa using h
    subst this
    exact ⟨.null, by simp [retM], by simp⟩
  · rename_i e hne
    obtain ⟨v, hv, rfl⟩ := isUndefined_pure (H := H) k.inner h s
    refine ⟨.undef, hv, ?_⟩
    cases hk : k.inner <;> simp_all

/-- the test performed by one comparison against the constant `k` -/
def nullTest (op : BOp) (k w : Val) : Bool :=
  match op with
  | .eq => isNullish w
  | .ne => !isNullish w
  | .seq => decide (w = k)
  | .sne => !decide (w = k)
  | _ => false

theorem strictEq_const (w k : Val) (hk : k = .null ∨ k = .undef) :
    strictEq w k = decide (w = k) ∧ strictEq k w = decide (w = k) := by
  rcases hk with rfl | rfl <;> cases w <;> simp [strictEq]

theorem looseEq_const (w k : Val) (hk : k = .null ∨ k = .undef) (s : St) :
    looseEq H w k s = .ok (isNullish w) s ∧ looseEq H k w s = .ok (isNullish w) s := by
  rcases hk with rfl | rfl <;> simp [looseEq, retM]

theorem strictBin_const (op : BOp) (w k : Val) (hk : k = .null ∨ k = .undef)
    (hop : op = .eq ∨ op = .ne ∨ op = .seq ∨ op = .sne) (s : St) :
    strictBin H op w k s = .ok (.bool (nullTest op k w)) s ∧ strictBin H op k w s = .ok (.bool (nullTest op k w)) s := by
  have h1 := strictEq_const w k hk
  have h2 := looseEq_const (H := H) w k hk s
  rcases hop with rfl | rfl | rfl | rfl <;> simp [strictBin, nullTest, bindM, retM, h1.1, h1.2, h2.1, h2.2]

theorem constOf_cases (k : E) : constOf k = .null ∨ constOf k = .undef := by
  unfold constOf; split <;> simp

theorem varName?_eq (x : E) (n : String) (h : varName? x = some n) : x = .var n := by
  cases x <;> simp [varName?] at h
  subst h; rfl

theorem isNullLit_var (n : String) : isNullLit (.var n) = false := by simp [isNullLit, E.inner]

theorem constOf_null (k : E) : (constOf k = .null ↔ isNullLit k = true) := by
  unfold constOf; split <;> simp_all

/-- what `nullCmp_sound` states about one comparison `x op y` that tests the variable `a` -/
def CmpSpec (H : Host) (op : BOp) (x y : E) (a : String) : Prop :=
  ∃ k : Val, (k = .null ∨ k = .undef) ∧ (k = .null ↔ (isNullLit x || isNullLit y) = true) ∧
    ∀ s, eval H (.bin op x y) s = .ok (.bool (nullTest op k (lookup s a))) s

theorem cmp_left (op : BOp) (n : String) (k : E) (hk : isUndefinedOrNull k = true)
    (hop : op = .eq ∨ op = .ne ∨ op = .seq ∨ op = .sne) : CmpSpec H op (.var n) k n := by
  have hs : isStrictOp op = true := by rcases hop with rfl | rfl | rfl | rfl <;> rfl
  refine ⟨constOf k, constOf_cases k, by simp [isNullLit_var, constOf_null], ?_⟩
  intro s
  obtain ⟨v, hv, rfl⟩ := iuon_pure (H := H) k hk s
  rw [eval_strict op _ _ hs]
  simp only [bindM, eval_var, getVar, hv]
  exact (strictBin_const (H := H) op (lookup s n) (constOf k) (constOf_cases k) hop s).1

theorem cmp_right (op : BOp) (n : String) (k : E) (hk : isUndefinedOrNull k = true)
    (hop : op = .eq ∨ op = .ne ∨ op = .seq ∨ op = .sne) : CmpSpec H op k (.var n) n := by
  have hs : isStrictOp op = true := by rcases hop with rfl | rfl | rfl | rfl <;> rfl
  refine ⟨constOf k, constOf_cases k, by simp [isNullLit_var, constOf_null], ?_⟩
  intro s
  obtain ⟨v, hv, rfl⟩ := iuon_pure (H := H) k hk s
  rw [eval_strict op _ _ hs]
  simp only [bindM, eval_var, getVar, hv]
  exact (strictBin_const (H := H) op (lookup s n) (constOf k) (constOf_cases k) hop s).2

theorem nullCmpR_sound (op : BOp) (x y : E) (a : String) (h : nullCmpVarR x y = some a)
    (hop : op = .eq ∨ op = .ne ∨ op = .seq ∨ op = .sne) : CmpSpec H op x y a := by
  unfold nullCmpVarR at h
  cases hy : varName? y with
  | none => simp [hy] at h
  | some w =>
    simp only [hy] at h
    split at h
    · rename_i hk
      injection h with h
      subst h
      have := varName?_eq y w hy
      subst this
      exact cmp_right op w x hk hop
    · cases h

/-- a comparison of the variable `a` with `null`/`undefined` -/
theorem nullCmp_sound (op : BOp) (x y : E) (a : String) (h : nullCmpVar x y = some a)
    (hop : op = .eq ∨ op = .ne ∨ op = .seq ∨ op = .sne) : CmpSpec H op x y a := by
  unfold nullCmpVar at h
  cases hx : varName? x with
  | none =>
    simp only [hx] at h
    exact nullCmpR_sound op x y a h hop
  | some v =>
    simp only [hx] at h
    split at h
    · rename_i hk
      injection h with h
      subst h
      have := varName?_eq x v hx
      subst this
      exact cmp_left op v y hk hop
    · exact nullCmpR_sound op x y a h hop

/-! ## two tests joined by `||` / `&&` -/

theorem nullTests_or (lop rop : BOp) (k1 k2 w : Val) (hk1 : k1 = .null ∨ k1 = .undef) (hk2 : k2 = .null ∨ k2 = .undef)
    (hl : lop = .eq ∨ lop = .seq) (hr : rop = .eq ∨ rop = .seq)
    (hc : (lop = .seq ∧ rop = .seq) → ¬ (k1 = .null ↔ k2 = .null)) :
    (nullTest lop k1 w || nullTest rop k2 w) = isNullish w := by
  rcases hl with rfl | rfl <;> rcases hr with rfl | rfl <;> rcases hk1 with rfl | rfl <;> rcases hk2 with rfl | rfl <;>
    simp at hc <;> cases w <;> simp [nullTest, isNullish]

theorem nullTests_and (lop rop : BOp) (k1 k2 w : Val) (hk1 : k1 = .null ∨ k1 = .undef) (hk2 : k2 = .null ∨ k2 = .undef)
    (hl : lop = .ne ∨ lop = .sne) (hr : rop = .ne ∨ rop = .sne)
    (hc : (lop = .sne ∧ rop = .sne) → ¬ (k1 = .null ↔ k2 = .null)) :
    (nullTest lop k1 w && nullTest rop k2 w) = !isNullish w := by
  rcases hl with rfl | rfl <;> rcases hr with rfl | rfl <;> rcases hk1 with rfl | rfl <;> rcases hk2 with rfl | rfl <;>
    simp at hc <;> cases w <;> simp [nullTest, isNullish]

/-- the value of a nullish test of `w` -/
def testVal (neg : Bool) (w : Val) : Val := .bool (if neg then !isNullish w else isNullish w)

theorem nullPair_sound (isAnd : Bool) (lop : BOp) (lx ly : E) (rop : BOp) (rx ry : E) (a : String) (neg : Bool)
    (h : nullPair isAnd lop lx ly rop rx ry = some (a, neg)) (s : St) :
    neg = isAnd ∧
    eval H (.bin (if isAnd then .land else .lor) (.bin lop lx ly) (.bin rop rx ry)) s = .ok (testVal neg (lookup s a)) s := by
  unfold nullPair at h
  by_cases hok : (okNullOp isAnd lop && okNullOp isAnd rop) = true
  · simp only [hok, if_true] at h
    cases hv : nullCmpVar lx ly with
    | none => simp [hv] at h
    | some v =>
      cases hw : nullCmpVar rx ry with
      | none => simp [hv, hw] at h
      | some w =>
        simp only [hv, hw] at h
        by_cases hcond : (v == w && (!(isStrictEqOp lop && isStrictEqOp rop)
            || (isNullLit lx || isNullLit ly) != (isNullLit rx || isNullLit ry))) = true
        · simp only [hcond, if_true, Option.some.injEq, Prod.mk.injEq] at h
          obtain ⟨h1, h2⟩ := h
          subst h1 h2
          refine ⟨rfl, ?_⟩
          simp only [Bool.and_eq_true, beq_iff_eq] at hcond hok
          obtain ⟨hvw, hstrict⟩ := hcond
          subst hvw
          cases isAnd with
          | true =>
            have hl : lop = .ne ∨ lop = .sne := by simpa [okNullOp] using hok.1
            have hr : rop = .ne ∨ rop = .sne := by simpa [okNullOp] using hok.2
            obtain ⟨k1, hk1, hn1, e1⟩ := nullCmp_sound (H := H) lop lx ly v hv (by rcases hl with h | h <;> simp [h])
            obtain ⟨k2, hk2, hn2, e2⟩ := nullCmp_sound (H := H) rop rx ry v hw (by rcases hr with h | h <;> simp [h])
            have hcomb := nullTests_and lop rop k1 k2 (lookup s v) hk1 hk2 hl hr (by
              intro ⟨h1, h2⟩
              subst h1 h2
              rw [hn1, hn2]
              simp [isStrictEqOp] at hstrict
              intro hiff
              exact hstrict (by
                cases hA : (isNullLit lx || isNullLit ly) <;> cases hB : (isNullLit rx || isNullLit ry) <;> simp_all))
            simp only [if_true, eval_land, bindM, e1, testVal]
            by_cases ht : nullTest lop k1 (lookup s v) = true
            · simp only [truthy_bool, ht, if_true]
              try simp only [Bool.false_eq_true, if_false, if_true]
              try rw [e2]
              simp [← hcomb, ht, e2]
            · simp only [truthy_bool, ht]
              simp [← hcomb, ht, retM]
          | false =>
            have hl : lop = .eq ∨ lop = .seq := by simpa [okNullOp] using hok.1
            have hr : rop = .eq ∨ rop = .seq := by simpa [okNullOp] using hok.2
            obtain ⟨k1, hk1, hn1, e1⟩ := nullCmp_sound (H := H) lop lx ly v hv (by rcases hl with h | h <;> simp [h])
            obtain ⟨k2, hk2, hn2, e2⟩ := nullCmp_sound (H := H) rop rx ry v hw (by rcases hr with h | h <;> simp [h])
            have hcomb := nullTests_or lop rop k1 k2 (lookup s v) hk1 hk2 hl hr (by
              intro ⟨h1, h2⟩
              subst h1 h2
              rw [hn1, hn2]
              simp [isStrictEqOp] at hstrict
              intro hiff
              exact hstrict (by
                cases hA : (isNullLit lx || isNullLit ly) <;> cases hB : (isNullLit rx || isNullLit ry) <;> simp_all))
            simp only [Bool.false_eq_true, if_false, eval_lor, bindM, e1, testVal]
            by_cases ht : nullTest lop k1 (lookup s v) = true
            · simp only [truthy_bool, ht, if_true]
              simp [← hcomb, ht, retM]
            · simp only [truthy_bool, ht]
              try simp only [Bool.false_eq_true, if_false, if_true]
              try rw [e2]
              simp [← hcomb, ht, e2]
        · rw [if_neg hcond] at h
          cases h
  · rw [if_neg hok] at h
    cases h

/-- `isUndefinedOrNullVar c = some (a, neg)`: `c` is a pure test whether the variable `a` is (not) `null`/`undefined` -/
theorem iuonv_sound (c : E) (a : String) (neg : Bool) (h : isUndefinedOrNullVar c = some (a, neg)) (s : St) :
    eval H c s = .ok (testVal neg (lookup s a)) s := by
  unfold isUndefinedOrNullVar at h
  rw [← eval_inner c]
  cases hci : c.inner with
  | bin op x y =>
    simp only [hci] at h
    by_cases hop : (op == .lor || op == .land) = true
    · simp only [hop, if_true] at h
      cases hxi : x.inner with
      | bin lop lx ly =>
        cases hyi : y.inner with
        | bin rop rx ry =>
          simp only [hxi, hyi] at h
          obtain ⟨_, hev⟩ := nullPair_sound (H := H) (op == .land) lop lx ly rop rx ry a neg h s
          have hx : eval H x = eval H (.bin lop lx ly) := by rw [← eval_inner x, hxi]
          have hy : eval H y = eval H (.bin rop rx ry) := by rw [← eval_inner y, hyi]
          simp only [Bool.or_eq_true, beq_iff_eq] at hop
          rcases hop with rfl | rfl
          · simp only [eval_lor, hx, hy]
            simpa using hev
          · simp only [eval_land, hx, hy]
            simpa using hev
        | _ => simp [hxi, hyi] at h
      | _ => simp [hxi] at h
    · simp only [hop] at h
      by_cases hop2 : (op == .eq || op == .ne) = true
      · simp only [hop2, if_true, Bool.false_eq_true, if_false] at h
        cases hn : nullCmpVar x y with
        | none => simp [hn] at h
        | some v =>
          simp only [hn, Option.map_some, Option.some.injEq, Prod.mk.injEq] at h
          obtain ⟨h1, h2⟩ := h
          subst h1
          simp only [Bool.or_eq_true, beq_iff_eq] at hop2
          obtain ⟨k, hk, _, e⟩ := nullCmp_sound (H := H) op x y v hn (by rcases hop2 with h | h <;> simp [h])
          rw [e]
          rcases hop2 with rfl | rfl
          · have : neg = false := by rw [← h2]; rfl
            subst this; simp [nullTest, testVal]
          · have : neg = true := by rw [← h2]; rfl
            subst this; simp [nullTest, testVal]
      · simp [hop2] at h
  | _ => simp [hci] at h

/-- `a==null?b:a → a??b`, `a!=null?a:b → a??b`, `a==null?undefined:a.b.c → a?.b.c` -/
theorem toNullish_sound (c x y e : E) (h : toNullish c x y = .yes e) : eval H e = eval H (.cond c x y) := by
  unfold toNullish at h
  cases hi : isUndefinedOrNullVar c with
  | none => simp [hi] at h
  | some r =>
    obtain ⟨v, neg⟩ := r
    simp only [hi] at h
    by_cases heq : isEqualExpr (.var v) (if neg then x else y) = true
    · simp only [heq, if_true] at h
      injection h with h
      subst h
      obtain ⟨n, hn1, hn2⟩ := isEqualExpr_vars _ _ heq
      simp only [E.inner] at hn1
      injection hn1 with hn1
      subst hn1
      funext s
      have hc := iuonv_sound (H := H) c v neg hi s
      simp only [eval_nullish, eval_cond, groupExpr_sound, bindM, hc, eval_of_inner_var _ v hn2, getVar, testVal]
      cases neg with
      | true =>
        simp only [if_true] at hn2 ⊢
        by_cases hnl : isNullish (lookup s v) = true
        · simp [hnl]
        · simp [hnl, eval_of_inner_var x v hn2, getVar, retM]
      | false =>
        simp only [Bool.false_eq_true, if_false] at hn2 ⊢
        by_cases hnl : isNullish (lookup s v) = true
        · simp [hnl]
        · simp [hnl, eval_of_inner_var y v hn2, getVar, retM]
    · rw [if_neg heq] at h
      by_cases hu : isUndefined (if neg then y else x) = true
      · rw [if_pos hu] at h
        by_cases hcb : ((chainBase (if neg then x else y)).2 && isEqualExpr (.var v) (chainBase (if neg then x else y)).1) = true
        · rw [if_pos hcb] at h
          -- `a==null?undefined:a.b.c ⇒ a?.b.c`: the absent branch evaluates to `undefined`, which is what the
          -- short-circuited chain yields
          by_cases hbad : (v == "undefined" || v == "NaN") = true
          · rw [if_pos hbad] at h; cases h
          · rw [if_neg hbad] at h
            injection h with h; subst h
            funext s
            have hc := iuonv_sound (H := H) c v neg hi s
            obtain ⟨u, hu1, hu2⟩ := isUndefined_pure (H := H) _ hu s
            subst hu2
            simp only [eval_opt, eval_cond, bindM, hc, getVar, testVal]
            cases neg with
            | true =>
              simp only [if_true] at hu1 ⊢
              by_cases hnl : isNullish (lookup s v) = true
              · simp [hnl, hu1, retM]
              · simp [hnl]
            | false =>
              simp only [Bool.false_eq_true, if_false] at hu1 ⊢
              by_cases hnl : isNullish (lookup s v) = true
              · simp [hnl, hu1, retM]
              · simp [hnl]
        · rw [if_neg hcb] at h; cases h
      · rw [if_neg hu] at h; cases h

/-! ## `optimizeCondExpr` -/

/-- every branch of `optimizeCondExpr` (guarded: call merging only below a pure condition) keeps the behaviour -/
theorem optCondN_sound (v20 : Bool) (c x y : E) (p : Prec) (r : E) (h : optCondN true v20 c x y p = some r) :
    eval H r = eval H (.cond c x y) := by
  unfold optCondN at h
  cases ht : isTruthy c with
  | some b =>
    have hp := isTruthy_sound (H := H) c b ht
    rw [cond_of_pure c x y b hp]
    cases b <;> simp [ht] at h <;> subst h <;> rfl
  | none =>
    simp only [ht] at h
    by_cases h1 : orSelfGuard c x y = true
    · rw [if_pos h1] at h
      injection h with h; subst h
      simp only [orSelfGuard, Bool.and_eq_true] at h1
      exact orSelf_sound c x y _ h1.1.1
    · rw [if_neg h1] at h
      by_cases h2 : andSelfGuard c x y = true
      · rw [if_pos h2] at h
        injection h with h; subst h
        simp only [andSelfGuard, Bool.and_eq_true] at h2
        exact andSelf_sound c x y _ h2.1.1
      · rw [if_neg h2] at h
        by_cases h3 : isEqualExpr x y = true
        · rw [if_pos h3] at h
          injection h with h; subst h
          exact sameBranches_sound c x y p h3
        · rw [if_neg h3] at h
          cases hn : (if v20 = true then toNullish c x y else Nullish.no) with
          | unmodelled => simp [hn] at h
          | yes e =>
            simp only [hn] at h
            injection h with h; subst h
            cases v20 with
            | true => exact toNullish_sound c x y _ (by simpa using hn)
            | false => simp at hn
          | no =>
            simp only [hn] at h
            cases hm : callMerge c x y with
            | some e =>
              simp only [hm] at h
              by_cases hs : hasSideEffects c = true
              · simp [hs] at h
              · simp only [hs, Bool.true_and, Bool.false_eq_true, if_false] at h
                injection h with h; subst h
                exact callMerge_sound c x y _ (by simpa using hs) hm
            | none =>
              simp only [hm] at h
              injection h with h; subst h
              exact optCondTail_sound c x y p

theorem optCond_sound (v20 : Bool) (c x y : E) (p : Prec) (r : E) (h : optCond true v20 c x y p = some r) :
    eval H r = eval H (.cond c x y) := by
  unfold optCond at h
  rw [optCondN_sound v20 _ _ _ p r h, condNormalize_sound]

/-- the guarded function agrees with the model wherever it is defined -/
theorem optCond_guarded_agrees (v20 : Bool) (c x y : E) (p : Prec) (r : E) (h : optCond true v20 c x y p = some r) :
    optCond false v20 c x y p = some r := by
  unfold optCond optCondN at h ⊢
  generalize (condNormalize c x y).1 = c1 at h ⊢
  generalize (condNormalize c x y).2.1 = x1 at h ⊢
  generalize (condNormalize c x y).2.2 = y1 at h ⊢
  cases ht : isTruthy c1 with
  | some b => cases b <;> simpa [ht] using h
  | none =>
    simp only [ht] at h ⊢
    by_cases h1 : orSelfGuard c1 x1 y1 = true
    · simpa [h1] using h
    · by_cases h2 : andSelfGuard c1 x1 y1 = true
      · simpa [h1, h2] using h
      · by_cases h3 : isEqualExpr x1 y1 = true
        · simpa [h1, h2, h3] using h
        · simp only [h1, h2, h3, Bool.false_eq_true, if_false] at h ⊢
          cases hn : (if v20 = true then toNullish c1 x1 y1 else Nullish.no) with
          | unmodelled => simp [hn] at h
          | yes e => simpa [hn] using h
          | no =>
            simp only [hn] at h ⊢
            cases hm : callMerge c1 x1 y1 with
            | some e =>
              simp only [hm] at h ⊢
              by_cases hs : hasSideEffects c1 = true
              · simp [hs] at h
              · simpa [hs] using h
            | none => simpa [hm] using h

end Verif.Proofs.JsNullishSound
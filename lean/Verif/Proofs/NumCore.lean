import Verif.Proofs.NumPrint
set_option linter.unusedSimpArgs false
/-!
# C08 — `number`: lexing and trimming, assembled with the print stage
-/
namespace Verif.Proofs.Num
open Verif.Model.Num

/-! ## lengths (any bytes) -/

def dotLen : Option (List Char) → Nat
  | none => 0
  | some f => f.length + 1

theorem splitLastDot_length (l : List Char) :
    (splitLastDot l).1.length + dotLen (splitLastDot l).2 = l.length := by
  induction l with
  | nil => simp [splitLastDot, dotLen]
  | cons c r ih =>
    unfold splitLastDot
    cases h : splitLastDot r with
    | mk a b =>
      rw [h] at ih
      cases b with
      | some f =>
        simp only [dotLen, List.length_cons] at ih ⊢
        omega
      | none =>
        simp only [dotLen] at ih ⊢
        by_cases hc : c = '.'
        · simp only [hc, beq_self_eq_true, if_true, List.length_nil, List.length_cons, dotLen]; omega
        · have : (c == '.') = false := by simpa using hc
          simp only [this, Bool.false_eq_true, if_false, List.length_cons, dotLen]; omega

theorem takeWhile_length_le (p : Char → Bool) (l : List Char) : (l.takeWhile p).length ≤ l.length := by
  induction l with
  | nil => simp
  | cons c r ih => rw [List.takeWhile_cons]; split <;> simp <;> omega

theorem skipPlus_length (l : List Char) : (skipPlus l).length ≤ l.length := by
  unfold skipPlus; split <;> simp

theorem signSplit_length (l : List Char) :
    (signSplit l).2.length + (if (signSplit l).1 then 1 else 0) ≤ l.length := by
  unfold signSplit; split <;> simp

theorem parseExp_len {r : List Char} {e : Int} (h : parseExp r = some e) : expLen e ≤ 1 + r.length := by
  unfold parseExp at h
  simp only [] at h
  have h1 := skipPlus_length r
  have h2 := signSplit_length (skipPlus r)
  generalize signSplit (skipPlus r) = sd at h h2
  obtain ⟨ng, ds0⟩ := sd
  simp only [] at h h2
  split at h
  · cases h
  · rename_i hne
    have hds := allDig_takeWhile ds0
    have hlen := takeWhile_length_le Char.isDigit ds0
    have hne' : ds0.takeWhile Char.isDigit ≠ [] := by
      intro hh; apply hne; simp [hh]
    have hL := lenNat_of_digits hds hne'
    generalize natOf (ds0.takeWhile Char.isDigit) = n at h hL
    have hE := expLen_cases e
    cases ng with
    | true =>
      simp only [if_true] at h h2
      split at h
      · injection h with h; subst h
        have : lenInt (-(n:Int)) = lenNat n := by rw [lenInt_eq]; simp
        rw [this] at hE
        omega
      · cases h
    | false =>
      simp only [Bool.false_eq_true, if_false] at h h2
      split at h
      · injection h with h; subst h
        have : lenInt (n:Int) = lenNat n := by rw [lenInt_eq]; simp
        rw [this] at hE
        omega
      · cases h

/-- the rounding step of `numberCore` -/
def rnd (prec : Int) (m0 : Mant) : Mant := if 0 < prec then roundP m0 prec.toNat else m0

theorem rnd_nonpos {prec : Int} (h : prec ≤ 0) (m0 : Mant) : rnd prec m0 = m0 := by
  unfold rnd; rw [if_neg (by omega)]

/-- number of leading zeros that `numberCore` drops from the mantissa -/
def droppedZeros (mant : List Char) : Nat :=
  min ((splitLastDot mant).1.length - (dropZeros (splitLastDot mant).1).length) (mant.length - 1)

/-- `numberCore` returns its input, or `0`, or something that fits after the sign and the dropped zeros -/
theorem numberCore_shape (s : List Char) (neg signed : Bool) (mant : List Char) (e prec : Int)
    (hs : (if signed then 1 else 0) + mant.length + expLen e ≤ s.length)
    (hneg : neg = true → signed = true)
    (hround : ∀ m0 : Mant, m0.e = e → mlen m0.ip m0.fp ≤ mant.length →
      (decide (0 < prec) && expNearEdge e s.length) = false →
      mlen (rnd prec m0).ip (rnd prec m0).fp + expLen (rnd prec m0).e ≤ mlen m0.ip m0.fp + expLen m0.e) :
    numberCore s neg signed mant e prec = s ∨ numberCore s neg signed mant e prec = ['0'] ∨
    (numberCore s neg signed mant e prec).length + droppedZeros mant ≤ s.length := by
  unfold numberCore droppedZeros
  simp only []
  have hsp := splitLastDot_length mant
  generalize splitLastDot mant = sp at hsp ⊢
  obtain ⟨ipart, fo⟩ := sp
  simp only [] at hsp ⊢
  generalize hdr : min (ipart.length - (dropZeros ipart).length) (mant.length - 1) = dropped
  have hdl : dropped ≤ ipart.length := by omega
  split
  · right; left; rfl
  · split
    · right; left; rfl
    · split
      · left; rfl
      · rename_i hguard
        have hguard' : (decide (0 < prec) && expNearEdge e s.length) = false := by
          cases h : (decide (0 < prec) && expNearEdge e s.length) with
          | true => exact absurd h hguard
          | false => rfl
        have hfpl := dropTrail_length_le '0' (fo.getD [])
        have hml : mlen (ipart.drop dropped) (dropTrail '0' (fo.getD [])) + dropped ≤ mant.length := by
          have h1 := mlen_cases (ipart.drop dropped) (dropTrail '0' (fo.getD []))
          simp only [List.length_drop] at h1
          cases fo with
          | none =>
            simp only [dotLen, Option.getD_none, dropTrail_nil, List.length_nil] at hsp h1 hfpl ⊢
            omega
          | some f =>
            simp only [dotLen, Option.getD_some] at hsp h1 hfpl ⊢
            omega
        have hm := hround { ip := ipart.drop dropped, fp := dropTrail '0' (fo.getD []), e := e } rfl
          (by simp only []; omega) hguard'
        simp only [] at hm
        have hW : mlen (rnd prec { ip := ipart.drop dropped, fp := dropTrail '0' (fo.getD []), e := e }).ip
            (rnd prec { ip := ipart.drop dropped, fp := dropTrail '0' (fo.getD []), e := e }).fp +
            expLen (rnd prec { ip := ipart.drop dropped, fp := dropTrail '0' (fo.getD []), e := e }).e ≤
            s.length - ((if signed then 1 else 0) + dropped) := by
          omega
        have hpn := printNum_length s neg (s.length - ((if signed then 1 else 0) + dropped)) _ hW
        unfold rnd at hpn
        rcases hpn with hp | ⟨u, hp, hu⟩
        · left; exact hp
        · right; right
          rw [hp, sgn_length]
          have : (if neg then 1 else 0) ≤ (if signed then 1 else 0) := by
            cases neg with
            | false => simp
            | true => simp [hneg rfl]
          omega

theorem numberCore_length (s : List Char) (neg signed : Bool) (mant : List Char) (e prec : Int)
    (hs : (if signed then 1 else 0) + mant.length + expLen e ≤ s.length)
    (hneg : neg = true → signed = true) (hlen : 1 ≤ s.length)
    (hround : ∀ m0 : Mant, m0.e = e → mlen m0.ip m0.fp ≤ mant.length →
      (decide (0 < prec) && expNearEdge e s.length) = false →
      mlen (rnd prec m0).ip (rnd prec m0).fp + expLen (rnd prec m0).e ≤ mlen m0.ip m0.fp + expLen m0.e) :
    (numberCore s neg signed mant e prec).length ≤ s.length := by
  rcases numberCore_shape s neg signed mant e prec hs hneg hround with h | h | h
  · rw [h]; exact Nat.le_refl _
  · rw [h]; simpa using hlen
  · omega

/-- the exponent that `number` reads from `s` (`none`: the input is returned unchanged) -/
def modelExp (s : List Char) : Option Int :=
  expOfRest ((if ((s.head? == some '-') || (s.head? == some '+')) = true then s.drop 1 else s).dropWhile notE)

theorem number_length_gen (s : List Char) (prec : Int)
    (hround : ∀ m0 : Mant, modelExp s = some m0.e → mlen m0.ip m0.fp ≤ s.length →
      (decide (0 < prec) && expNearEdge m0.e s.length) = false →
      mlen (rnd prec m0).ip (rnd prec m0).fp + expLen (rnd prec m0).e ≤ mlen m0.ip m0.fp + expLen m0.e) :
    (number s prec).length ≤ s.length := by
  unfold number
  split
  · exact Nat.le_refl _
  · rename_i hlen
    simp only []
    have hme : modelExp s = expOfRest ((if ((s.head? == some '-') || (s.head? == some '+')) = true then s.drop 1 else s).dropWhile notE) := rfl
    generalize hneg : (s.head? == some '-') = neg at hme ⊢
    generalize hsg : (neg || s.head? == some '+') = signed at hme ⊢
    have hns : neg = true → signed = true := by intro h; rw [← hsg, h]; rfl
    generalize hbody : (if signed = true then s.drop 1 else s) = body at hme ⊢
    have hbl : body.length + (if signed then 1 else 0) = s.length := by
      rw [← hbody]; cases signed <;> simp <;> omega
    have htd : (body.takeWhile notE).length + (body.dropWhile notE).length = body.length := by
      have := congrArg List.length (List.takeWhile_append_dropWhile (p := notE) (l := body))
      rw [List.length_append] at this
      exact this
    generalize body.takeWhile notE = mant at htd ⊢
    generalize body.dropWhile notE = rest at htd hme ⊢
    split
    · exact Nat.le_refl _
    · rename_i e he
      apply numberCore_length s neg signed mant e prec _ hns (by omega)
        (fun m0 h1 h2 h3 => hround m0 (by rw [hme, he, h1]) (by omega) (by rw [h1]; exact h3))
      have : expLen e ≤ rest.length := by
        cases rest with
        | nil => simp [expOfRest] at he; subst he; simp [expLen]
        | cons c r => simp [expOfRest] at he; have := parseExp_len he; simp; omega
      omega

end Verif.Proofs.Num

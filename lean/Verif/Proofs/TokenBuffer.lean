import Verif.Model.TokenBuffer
/-! helper lemmas for the token buffer refinement (C10) -/
namespace Verif.Proofs.TokenBuffer
open Verif.Model.TokenBuffer

theorem readUpTo_length_le (E c n : Nat) : (readUpTo E c n).length ≤ n := by
  induction n generalizing c with
  | zero => simp [readUpTo]
  | succ n ih =>
    simp only [readUpTo]
    split
    · simp
    · simp only [List.length_cons]; have := ih (c + 1); omega

theorem readUpTo_get (E c n k : Nat) (hk : k < (readUpTo E c n).length) :
    (readUpTo E c n)[k]? = some (lexTok E (c + k)) := by
  induction n generalizing c k with
  | zero => simp [readUpTo] at hk
  | succ n ih =>
    simp only [readUpTo] at hk ⊢
    split
    · rename_i h
      rw [if_pos h] at hk
      simp only [List.length_cons, List.length_nil] at hk
      have : k = 0 := by omega
      subst this
      simp [h]
    · rename_i h
      rw [if_neg h] at hk
      cases k with
      | zero => simp
      | succ k =>
        simp only [List.length_cons] at hk
        simp only [List.getElem?_cons_succ]
        rw [ih (c + 1) k (by omega)]
        congr 2; omega

/-- either the loop ran to completion without meeting the error token, or it stopped at it -/
theorem readUpTo_last (E c n : Nat) (hn : 0 < n) :
    ((readUpTo E c n).getLast? = some E) ∨
    ((readUpTo E c n).getLast? ≠ some E ∧ (readUpTo E c n).length = n) := by
  induction n generalizing c with
  | zero => omega
  | succ n ih =>
    simp only [readUpTo]
    split
    · left; simp
    · rename_i h
      cases n with
      | zero => right; simp [readUpTo]; exact fun e => h e
      | succ m =>
        rcases ih (c + 1) (by omega) with hl | ⟨hl, hlen⟩
        · left
          have hne : readUpTo E (c + 1) (m + 1) ≠ [] := by
            intro e; rw [e] at hl; simp at hl
          rw [List.getLast?_cons_of_ne_nil hne]; exact hl
        · right
          have hne : readUpTo E (c + 1) (m + 1) ≠ [] := by
            intro e; rw [e] at hlen; simp at hlen
          refine ⟨?_, by simp [hlen]⟩
          rw [List.getLast?_cons_of_ne_nil hne]; exact hl

theorem readUpTo_pos (E c n : Nat) (hn : 0 < n) : 0 < (readUpTo E c n).length := by
  cases n with
  | zero => omega
  | succ n => simp only [readUpTo]; split <;> simp

theorem getLast?_eq_get (l : List Nat) : l.getLast? = l[l.length - 1]? := by
  rw [List.getLast?_eq_getElem?]

end Verif.Proofs.TokenBuffer

import Verif.Proofs.JsPure
set_option linter.unusedSimpArgs false
set_option linter.unnecessarySimpa false
/-!
# C01-B — soundness of `optimizeCondExpr`, branch by branch
-/
namespace Verif.Proofs.JsCondSound
open Verif.Spec.JsSyntax Verif.Spec.JsSem Verif.Model.JsAst Verif.Model.JsOpt Verif.Proofs.JsSemLemmas
open Verif.Proofs.JsOptSound Verif.Proofs.JsPure
open Verif.Spec.JsSyntax.E

variable {H : Host}

/-! ## normalisation of the condition -/

theorem condNormalize_sound (c x y : E) :
    eval H (.cond (condNormalize c x y).1 (condNormalize c x y).2.1 (condNormalize c x y).2.2) = eval H (.cond c x y) := by
  unfold condNormalize
  split
  · rename_i z
    split
    · simp only [eval_cond, eval_not, bindM_assoc, retM_bind, truthy_bool, Bool.not_not] <;> rfl
    · rfl
  · rename_i z _
    simp only [eval_cond, eval_not, bindM_assoc, retM_bind, truthy_bool]
    apply bindM_congr; intro v
    cases truthy v <;> rfl
  · rfl

/-! ## known condition -/

theorem cond_of_pure (c x y : E) (b : Bool) (h : PureVal H c (fun v => truthy v = b)) :
    eval H (.cond c x y) = if b then eval H x else eval H y := by
  funext s
  obtain ⟨v, hv, hb⟩ := h s
  simp only [eval_cond, bindM, hv, hb]

/-! ## the value of the condition is a variable -/

/-- after a normal evaluation of `c` the variable `a` holds the value of `c` -/
def EndsInVar (H : Host) (c : E) (a : String) : Prop :=
  ∀ s v s', eval H c s = .ok v s' → lookup s' a = v

theorem lref_of_inner_var (t : E) (a : String) (h : t.inner = .var a) : lref H t = retM (.var a) := by
  induction t using E.ind with
  | hgroup x ih => simp only [E.inner] at h; simp [lref, ih h]
  | hvar n => simp only [E.inner] at h; injection h with h; subst h; simp [lref]
  | _ => simp [E.inner] at h

theorem endsIn_var (e : E) (a : String) (h : e.inner = .var a) : EndsInVar H e a := by
  intro s v s' hev
  rw [← eval_inner e, h] at hev
  simp only [eval_var, getVar] at hev
  injection hev with h1 h2
  subst h2
  exact h1

theorem endsIn_assign (t rhs : E) (a : String) (h : t.inner = .var a) : EndsInVar H (.bin .assign t rhs) a := by
  intro s v s' hev
  rw [eval_assign, lref_of_inner_var t a h] at hev
  simp only [retM_bind, bindM, retM, putRef] at hev
  cases hr : eval H rhs s with
  | thr w s1 => simp [hr] at hev
  | ok w s1 =>
    simp only [hr, putVar] at hev
    by_cases hn : (a == "undefined" || a == "NaN") = true
    · simp [hn] at hev
    · simp only [hn] at hev
      simp only [Bool.false_eq_true, if_false, Out.ok.injEq] at hev
      obtain ⟨h1, h2⟩ := hev
      subst h1 h2
      simp only [Bool.or_eq_true, beq_iff_eq, not_or] at hn
      simp [lookup, hn.1, hn.2]

/-- the step of `finalExpr` below the comma -/
theorem endsIn_core (i : E) (a : String) (h : (finalCore i).inner = .var a) : EndsInVar H i a := by
  unfold finalCore at h
  split at h
  · rename_i x rhs
    exact endsIn_assign x rhs a h
  · exact endsIn_var i a h

theorem endsIn_of_inner (c : E) (a : String) (h : EndsInVar H c.inner a) : EndsInVar H c a := by
  intro s v s' hev
  rw [← eval_inner c] at hev
  exact h s v s' hev

theorem endsIn_mid (i : E) (a : String) (h : (finalCore (finalMid i)).inner = .var a) : EndsInVar H i a := by
  unfold finalMid at h
  split at h
  · -- comma
    rename_i l
    cases hl : l.getLast? with
    | none =>
      -- the empty comma: `finalExpr` is the comma itself, not a variable
      simp [hl, finalCore, E.inner] at h
    | some last =>
      simp only [hl, Option.getD_some] at h
      have hcore := endsIn_core (H := H) last a h
      obtain ⟨init, rfl⟩ : ∃ init, l = init ++ [last] := ⟨l.dropLast, snoc_of_getLast? l last hl⟩
      intro s v s' hev
      rw [eval_comma, evalL_append_single] at hev
      simp only [bindM] at hev
      cases h1 : evalL H init s with
      | thr w s1 => simp [h1] at hev
      | ok vs s1 =>
        simp only [h1] at hev
        exact hcore s1 v s' hev
  · exact endsIn_core _ a h

theorem finalExpr_endsIn (c : E) (a : String) (h : (finalExpr c).inner = .var a) : EndsInVar H c a :=
  endsIn_of_inner c a (endsIn_mid c.inner a h)

theorem isEqualExpr_vars (a b : E) (h : isEqualExpr a b = true) : ∃ n, a.inner = .var n ∧ b.inner = .var n := by
  unfold isEqualExpr at h
  split at h
  · rename_i x y hx hy
    have : x = y := by simpa using h
    subst this
    exact ⟨x, hx, hy⟩
  · cases h

theorem eval_of_inner_var (e : E) (n : String) (h : e.inner = .var n) : eval H e = getVar n := by
  rw [← eval_inner e, h, eval_var]

/-- `c?x:y → c||y` -/
theorem orSelf_sound (c x y : E) (p : Prec) (h : isEqualExpr (finalExpr c) x = true) :
    eval H (.bin .lor (groupExpr c p) y) = eval H (.cond c x y) := by
  obtain ⟨a, hf, hx⟩ := isEqualExpr_vars _ _ h
  have hend := finalExpr_endsIn (H := H) c a hf
  rw [eval_lor, eval_cond, groupExpr_sound, eval_of_inner_var x a hx]
  funext s
  simp only [bindM]
  cases hc : eval H c s with
  | thr w s1 => rfl
  | ok v s1 =>
    have := hend s v s1 hc
    by_cases ht : truthy v = true
    · simp [ht, getVar, this, retM]
    · simp [ht]

/-- `c?x:y → c&&x` -/
theorem andSelf_sound (c x y : E) (p : Prec) (h : isEqualExpr (finalExpr c) y = true) :
    eval H (.bin .land (groupExpr c p) x) = eval H (.cond c x y) := by
  obtain ⟨a, hf, hy⟩ := isEqualExpr_vars _ _ h
  have hend := finalExpr_endsIn (H := H) c a hf
  rw [eval_land, eval_cond, groupExpr_sound, eval_of_inner_var y a hy]
  funext s
  simp only [bindM]
  cases hc : eval H c s with
  | thr w s1 => rfl
  | ok v s1 =>
    have := hend s v s1 hc
    by_cases ht : truthy v = true
    · simp [ht]
    · simp [ht, getVar, this, retM]

/-- `c?x:x → (c,x)` -/
theorem sameBranches_sound (c x y : E) (p : Prec) (h : isEqualExpr x y = true) :
    eval H (groupExpr (.comma [c, x]) p) = eval H (.cond c x y) := by
  obtain ⟨a, hx, hy⟩ := isEqualExpr_vars _ _ h
  rw [groupExpr_sound, eval_cond, eval_of_inner_var x a hx, eval_of_inner_var y a hy]
  have : eval H (.comma [c, x]) = bindM (eval H c) (fun _ => eval H x) := by
    have := evalL_append_single (H := H) [c] x
    simpa using this
  rw [this, eval_of_inner_var x a hx]
  apply bindM_congr; intro v
  cases truthy v <;> rfl

/-! ## call merging (partial: the condition must be side-effect free) -/

/-- `c?f(a):f(b) → f(c?a:b)` when `c` is pure (the known finding K-C01-2 is the general case: an assignment to `f`
    inside `c` is then evaluated after the callee has been read) -/
theorem callMerge_sound (c x y r : E) (hc : hasSideEffects c = false) (h : callMerge c x y = some r) :
    eval H r = eval H (.cond c x y) := by
  unfold callMerge at h
  split at h
  · rename_i fx ax fy ay
    split at h
    · rename_i heq
      injection h with h
      subst h
      obtain ⟨a, hfx, hfy⟩ := isEqualExpr_vars _ _ heq
      have hpure := hse_pure (H := H) c hc
      funext s
      obtain ⟨v, hv, _⟩ := hpure s
      have hcond : ∀ p q, eval H (.cond c p q) s = if truthy v = true then eval H p s else eval H q s := by
        intro p q
        simp only [eval_cond, bindM, hv]
        split <;> rfl
      rw [hcond]
      simp only [eval_call, evalL_cons, evalL_nil, eval_of_inner_var fx a hfx, eval_of_inner_var fy a hfy]
      simp only [bindM, getVar, hcond, retM]
      by_cases ht : truthy v = true <;> simp [ht]
    · cases h
  · cases h

/-! ## boolean bodies -/

theorem isTrue_pure (x : E) (h : Verif.Model.JsOpt.isTrue x = true) : PureVal H x (fun v => v = .bool true) := by
  unfold Verif.Model.JsOpt.isTrue at h
  intro s
  rw [← eval_inner x]
  split at h
  · rename_i hi; rw [hi]; exact ⟨_, by simp [retM], rfl⟩
  · rename_i z hi
    rw [hi]
    obtain ⟨w, hw, hp⟩ := isFalsy_sound (H := H) z true (by simpa using h) s
    exact ⟨.bool (!truthy w), by simp [bindM, hw, retM], by simp [hp]⟩
  · cases h

theorem isFalse_pure (x : E) (h : Verif.Model.JsOpt.isFalse x = true) : PureVal H x (fun v => v = .bool false) := by
  unfold Verif.Model.JsOpt.isFalse at h
  intro s
  rw [← eval_inner x]
  split at h
  · rename_i l hi
    rw [hi]
    have : l = .false := by simpa using h
    subst this
    exact ⟨_, by simp [retM], rfl⟩
  · rename_i z hi
    rw [hi]
    obtain ⟨w, hw, hp⟩ := isTruthy_sound (H := H) z true (by simpa using h) s
    exact ⟨.bool (!truthy w), by simp [bindM, hw, retM], by simp [hp]⟩
  · cases h

/-- a conditional whose branches are the pure constants `vx`, `vy` -/
theorem cond_const (c x y : E) (vx vy : Val) (hx : PureVal H x (fun v => v = vx)) (hy : PureVal H y (fun v => v = vy)) :
    eval H (.cond c x y) = bindM (eval H c) (fun v => retM (if truthy v then vx else vy)) := by
  rw [eval_cond]
  apply bindM_congr; intro v
  funext s
  obtain ⟨a, ha, rfl⟩ := hx s
  obtain ⟨b, hb, rfl⟩ := hy s
  cases truthy v <;> simp [ha, hb, retM]

theorem cond_constX (c x y : E) (vx : Val) (hx : PureVal H x (fun v => v = vx)) :
    eval H (.cond c x y) = bindM (eval H c) (fun v => if truthy v then retM vx else eval H y) := by
  rw [eval_cond]
  apply bindM_congr; intro v
  funext s
  obtain ⟨a, ha, rfl⟩ := hx s
  cases truthy v <;> simp [ha, retM]

theorem cond_constY (c x y : E) (vy : Val) (hy : PureVal H y (fun v => v = vy)) :
    eval H (.cond c x y) = bindM (eval H c) (fun v => if truthy v then eval H x else retM vy) := by
  rw [eval_cond]
  apply bindM_congr; intro v
  funext s
  obtain ⟨b, hb, rfl⟩ := hy s
  cases truthy v <;> simp [hb, retM]

/-- `a?(b?x:y):y → a&&b?x:y` -/
theorem nestedCond_sound (c x y r : E) (h : nestedCond c x y = some r) : eval H r = eval H (.cond c x y) := by
  unfold nestedCond at h
  split at h
  · rename_i c2 x2 y2
    split at h
    · rename_i heq
      injection h with h
      subst h
      obtain ⟨a, hy, hy2⟩ := isEqualExpr_vars _ _ heq
      simp only [eval_cond, eval_land, groupExpr_sound, bindM_assoc, eval_of_inner_var y a hy,
        eval_of_inner_var y2 a hy2]
      apply bindM_congr; intro v
      by_cases ht : truthy v = true
      · simp [ht]
      · simp [ht]
    · cases h
  · cases h

/-- `(a,b)?c:d → a,b?c:d` -/
theorem commaCond_sound (c x y : E) (p : Prec) : eval H (commaCond c x y p) = eval H (.cond c x y) := by
  unfold commaCond
  split
  · split
    · rename_i l
      split
      · cases hl : l.getLast? with
        | none =>
          have : l = [] := by simpa using hl
          subst this
          simp [lastD, evalL_nil]
        | some last =>
          obtain ⟨init, rfl⟩ : ∃ init, l = init ++ [last] := ⟨l.dropLast, snoc_of_getLast? l last hl⟩
          have hlast : lastD (init ++ [last]) (group (comma (init ++ [last]))) = last := by simp [lastD]
          rw [hlast]
          simp only [List.dropLast_concat, eval_comma, evalL_append_single, eval_cond, eval_group, bindM_assoc]
      · rfl
    · rfl
  · rfl

/-- the last part of `optimizeCondExpr` -/
theorem optCondTail_sound (c x y : E) (p : Prec) : eval H (optCondTail c x y p) = eval H (.cond c x y) := by
  unfold optCondTail
  simp only
  split
  · -- true/false bodies
    rename_i h
    simp only [Bool.or_eq_true, Bool.and_eq_true] at h
    rw [optBool_sound]
    rcases h with ⟨hx, hy⟩ | ⟨hx, hy⟩
    · rw [cond_const c x y _ _ (isTrue_pure x hx) (isFalse_pure y hy)]
      have : Verif.Model.JsOpt.isFalse x = false := by
        cases hf : Verif.Model.JsOpt.isFalse x
        · rfl
        · exfalso
          obtain ⟨v, hv, h1⟩ := isTrue_pure (H := H) x hx ⟨fun _ => .undef, []⟩
          obtain ⟨w, hw, h2⟩ := isFalse_pure (H := H) x hf ⟨fun _ => .undef, []⟩
          rw [hv] at hw
          injection hw with hw
          subst hw h1
          cases h2
      rw [this, bval_false]
      apply bindM_congr; intro v
      cases truthy v <;> rfl
    · rw [hx, cond_const c x y _ _ (isFalse_pure x hx) (isTrue_pure y hy), bval_true]
      apply bindM_congr; intro v
      cases truthy v <;> rfl
  · split
    · rename_i _ h
      simp only [Bool.or_eq_true] at h
      rw [eval_lor, optBool_sound, groupExpr_sound]
      cases hty : Verif.Model.JsOpt.isTrue y
      · -- trueX
        have hx : Verif.Model.JsOpt.isTrue x = true := by rcases h with h | h; exact h; rw [hty] at h; cases h
        simp only [Bool.false_eq_true, if_false]
        rw [cond_constX c x y _ (isTrue_pure x hx), bval_false, bindM_assoc]
        apply bindM_congr; intro v
        cases truthy v <;> simp
      · simp only [if_true]
        rw [cond_constY c x y _ (isTrue_pure y hty), bval_true, bindM_assoc]
        apply bindM_congr; intro v
        cases truthy v <;> simp
    · split
      · rename_i _ _ h
        simp only [Bool.or_eq_true] at h
        rw [eval_land, optBool_sound, groupExpr_sound]
        cases hfx : Verif.Model.JsOpt.isFalse x
        · have hy : Verif.Model.JsOpt.isFalse y = true := by rcases h with h | h; rw [hfx] at h; cases h; exact h
          simp only [Bool.false_eq_true, if_false]
          rw [cond_constY c x y _ (isFalse_pure y hy), bval_false, bindM_assoc]
          apply bindM_congr; intro v
          cases truthy v <;> simp
        · simp only [if_true]
          rw [cond_constX c x y _ (isFalse_pure x hfx), bval_true, bindM_assoc]
          apply bindM_congr; intro v
          cases truthy v <;> simp
      · split
        · rename_i r hr
          exact nestedCond_sound c x y r hr
        · exact commaCond_sound c x y p

end Verif.Proofs.JsCondSound

import Verif.Model.SvgDoc
/-!
# C16 — `KeepComments` in the C05B model of the document loop of `svg.Minify` (`Verif.Model.SvgDoc.plan`)
-/
namespace Verif.Proofs.C16Svg
open Verif.Model.SvgDoc Verif.SvgDoc

/-- the attribute step looks at the option record only through `Inline` -/
theorem attrStep_keep (num : List Char → List Char) (k1 k2 inl : Bool) (st : St) (n : List Char) (v : Option (List Char)) :
    attrStep num ⟨k1, inl⟩ st n v = attrStep num ⟨k2, inl⟩ st n v := by
  unfold attrStep attrEmit
  simp only [isDefaultAttr]

/-- a comment token met by the loop is written as it is -/
theorem plan_comment (num : List Char → List Char) (inl : Bool) (st : St) (d : List Char) (r : List STok) :
    plan num ⟨true, inl⟩ st 0 (.comment d :: r) = PTok.tok (.comment d) :: plan num ⟨true, inl⟩ st 0 r := by
  simp [plan]

/-- what the loop writes without `KeepComments` is a subsequence of what it writes with it: the option only adds
    tokens (same states, same look-ahead decisions) -/
theorem plan_sublist (num : List Char → List Char) (inl : Bool) (ts : List STok) :
    ∀ (st : St) (k : Nat), List.Sublist (plan num ⟨false, inl⟩ st k ts) (plan num ⟨true, inl⟩ st k ts) := by
  induction ts with
  | nil => intro st k; simp [plan]
  | cons t r ih =>
    intro st k
    cases k with
    | succ k => simp only [plan]; exact ih st k
    | zero =>
      cases t with
      | comment d =>
        simp only [plan, Bool.false_eq_true, if_false, if_true, List.nil_append, List.singleton_append]
        exact List.Sublist.cons _ (ih st 0)
      | doctype d tx =>
        simp only [plan]
        exact List.Sublist.append (List.Sublist.refl _) (ih st 0)
      | text d => simp only [plan]; exact List.Sublist.cons_cons _ (ih st 0)
      | cdata d tx => simp only [plan]; exact List.Sublist.cons_cons _ (ih st 0)
      | startTagPI n =>
        simp only [plan]
        split
        · exact ih st _
        · exact List.Sublist.cons_cons _ (List.Sublist.append (List.Sublist.refl _) (ih st _))
      | startTagClosePI => simp only [plan]; exact ih st 0
      | startTag n =>
        simp only [plan]
        split
        · exact ih _ _
        · exact List.Sublist.cons_cons _ (ih _ 0)
      | attr dd n v =>
        simp only [plan]
        rw [attrStep_keep num false true inl st n v]
        exact List.Sublist.append (List.Sublist.refl _) (ih _ 0)
      | startTagClose =>
        simp only [plan]
        split
        · exact List.Sublist.cons_cons _ (ih _ _)
        · split
          · exact List.Sublist.cons_cons _ (List.Sublist.append (List.Sublist.refl _) (ih st _))
          · exact List.Sublist.cons_cons _ (ih st 0)
      | startTagCloseVoid => simp only [plan]; exact List.Sublist.cons_cons _ (ih _ 0)
      | endTag d n => simp only [plan]; exact List.Sublist.cons_cons _ (ih _ 0)

/-- is the planned token something other than a comment token? -/
def notComment : PTok → Bool
  | .tok (.comment _) => false
  | _ => true

/-- … and the only tokens it adds are comment tokens: apart from comments both runs write the same -/
theorem plan_filter (num : List Char → List Char) (inl : Bool) (ts : List STok) :
    ∀ (st : St) (k : Nat), (plan num ⟨true, inl⟩ st k ts).filter notComment = (plan num ⟨false, inl⟩ st k ts).filter notComment := by
  induction ts with
  | nil => intro st k; simp [plan]
  | cons t r ih =>
    intro st k
    cases k with
    | succ k => simp only [plan]; exact ih st k
    | zero =>
      cases t with
      | comment d => simp [plan, notComment, ih]
      | attr dd n v => simp only [plan]; rw [attrStep_keep num false true inl st n v]; simp [List.filter_append, ih]
      | startTagPI n => simp only [plan]; split <;> simp [List.filter_append, List.filter_cons, ih]
      | startTag n => simp only [plan]; split <;> simp [List.filter_cons, ih]
      | startTagClose =>
        simp only [plan]
        split
        · simp [List.filter_cons, ih]
        · split <;> simp [List.filter_append, List.filter_cons, ih]
      | _ => simp [plan, List.filter_append, List.filter_cons, ih]

/-- a planned token that is not a hole is written as it is, whatever was written before -/
theorem fillAt_tok (e : Env) (br : Nat) (t : STok) : (fillAt e br (.tok t)).1 = t := rfl

end Verif.Proofs.C16Svg

import Verif.Proofs.JsStringDec
/-!
# C01E proofs, part 4: heads of the model output (the seams between emitted chunks)
-/
set_option linter.unusedSimpArgs false
namespace Verif.Proofs.JsString
open Verif.JsStrBase Verif.Spec.JsStringSem Verif.Model.JsString

theorem octParse_bounds {e : Nat} {r1 : List Nat} (he : isOct e = true) :
    ((octParse e r1).2 = 1 ∧ (octParse e r1).1 = e - 48) ∨
    ((octParse e r1).2 = 2 ∧ ∃ d2, r1.head? = some d2 ∧ isOct d2 = true ∧ (octParse e r1).1 = (e - 48) * 8 + (d2 - 48)) ∨
    ((octParse e r1).2 = 3 ∧ e ≤ 51 ∧ ∃ d2 d3, r1.head? = some d2 ∧ (r1.drop 1).head? = some d3 ∧ isOct d2 = true ∧ isOct d3 = true ∧
        (octParse e r1).1 = (e - 48) * 64 + (d2 - 48) * 8 + (d3 - 48)) := by
  simp only [isOct, Bool.and_eq_true, decide_eq_true_eq] at he
  unfold octParse
  cases r1 with
  | nil => left; simp
  | cons d2 r2 =>
    simp only
    split
    · rename_i h2
      cases r2 with
      | nil => right; left; exact ⟨rfl, d2, rfl, h2, rfl⟩
      | cons d3 r3 =>
        simp only
        split
        · rename_i h3
          right; right
          have h2' := h2
          simp only [isOct, Bool.and_eq_true, decide_eq_true_eq] at h2'
          refine ⟨rfl, by omega, d2, d3, rfl, rfl, h2, h3.2, ?_⟩
          simp only
          omega
        · right; left; exact ⟨rfl, d2, rfl, h2, rfl⟩
    · left; simp

theorem step_head_raw {q : Nat} {an : Bool} {c : Nat} {r : List Nat} (hc : c ≠ 92) :
    (step q an c r).1.head? = some 92 ∨ (step q an c r).1.head? = some c ∨ ((step q an c r).1.head? = some 10 ∧ c = 13) := by
  simp only [step, if_neg hc]
  split
  · left; rfl
  · split
    · right; right; simp_all
    · split
      · split
        · right; left; rfl
        · split <;> (right; left; rfl)
      · right; left; rfl

theorem step_ne_nil_raw {q : Nat} {an : Bool} {c : Nat} {r : List Nat} (hc : c ≠ 92) : (step q an c r).1 ≠ [] := by
  simp only [step, if_neg hc]
  split
  · simp
  · split
    · simp
    · split
      · split
        · simp
        · split <;> simp
      · simp

theorem head_repA_raw {q : Nat} {an : Bool} {c : Nat} {r : List Nat} (hc : c ≠ 92) :
    (repA q an (c :: r)).head? = (step q an c r).1.head? := by
  rw [repA_cons]
  have := step_ne_nil_raw (q := q) (an := an) (r := r) hc
  cases h : (step q an c r).1 with
  | nil => exact absurd h this
  | cons a b => simp

/-- head of the model output for a raw byte: a backslash, the byte itself, or LF for a CR -/
theorem head_raw_cases {q : Nat} {an : Bool} {c : Nat} {r : List Nat} (hc : c ≠ 92) :
    (repA q an (c :: r)).head? = some 92 ∨ (repA q an (c :: r)).head? = some c ∨
      ((repA q an (c :: r)).head? = some 10 ∧ c = 13) := by
  rw [head_repA_raw hc]; exact step_head_raw hc

/-- the proved fragment: `\0` only occurs at the end of the body or in front of a raw byte that is neither a digit nor
    a backslash (so: no `\00`, `\000`, `\0d…`, no `\0` directly followed by a digit or by another escape sequence);
    with `cf` (string input, template output, sloppy mode) additionally: the counting loop's `gate` fires nowhere -/
def Guard (cf : Bool) : List Nat → Bool
  | [] => true
  | c :: r => (c != 92 || match r with
      | e :: r1 => e != 48 || (match r1 with
          | [] => true
          | x :: _ => x != 92 && !isDig x)
      | [] => true) && (!cf || !gate c r) && Guard cf r

theorem guard_tail {cf : Bool} {c : Nat} {r : List Nat} (h : Guard cf (c :: r) = true) : Guard cf r = true := by
  simp only [Guard, Bool.and_eq_true] at h; exact h.2

theorem guard_drop {cf : Bool} {l : List Nat} (h : Guard cf l = true) : ∀ k, Guard cf (l.drop k) = true := by
  intro k
  induction k generalizing l with
  | zero => simpa using h
  | succ k ih =>
    cases l with
    | nil => simp [Guard]
    | cons c r => simpa using ih (guard_tail h)

theorem guard_esc {cf : Bool} {e : Nat} {r1 : List Nat} (h : Guard cf (92 :: e :: r1) = true) :
    (e = 48 → (r1 = [] ∨ ∃ c r', r1 = c :: r' ∧ c ≠ 92 ∧ isDig c = false)) ∧ (cf = true → gate 92 (e :: r1) = false) := by
  simp only [Guard, Bool.and_eq_true] at h
  obtain ⟨⟨h1, h2⟩, _⟩ := h
  refine ⟨fun he => ?_, fun hc => ?_⟩
  · subst he
    cases r1 with
    | nil => exact Or.inl rfl
    | cons x r' =>
      right
      refine ⟨x, r', rfl, ?_⟩
      simpa using h1
  · subst hc
    simpa using h2

/-- value of a legacy octal escape whose first digit is not `1` is not `{` -/
theorem octParse_ne_lbrace {e : Nat} {r1 : List Nat} (he : isOct e = true) (h1 : e ≠ 49) : (octParse e r1).1 ≠ 123 := by
  have he' := he
  simp only [isOct, Bool.and_eq_true, decide_eq_true_eq] at he'
  rcases octParse_bounds (r1 := r1) he with ⟨_, h⟩ | ⟨_, d2, _, hd, h⟩ | ⟨_, _, d2, d3, _, _, hd2, hd3, h⟩
  · omega
  · simp only [isOct, Bool.and_eq_true, decide_eq_true_eq] at hd; omega
  · simp only [isOct, Bool.and_eq_true, decide_eq_true_eq] at hd2 hd3; omega

/-- first byte the model emits for the escape `\e…` in a template when `e` is none of `{ x u 1 LF CR 0xE2`:
    never `{`; if it emits nothing, it re-scans `e` (no bytes consumed) -/
theorem escM_head_tmpl {e : Nat} {r1 : List Nat}
    (h : e ≠ 123 ∧ e ≠ 120 ∧ e ≠ 117 ∧ e ≠ 49 ∧ e ≠ 10 ∧ e ≠ 13 ∧ e ≠ 226) :
    ((escM 96 false e r1).1 = [] ∧ (escM 96 false e r1).2.1 = 0 ∧ e ≠ 92) ∨
    (∃ x, (escM 96 false e r1).1.head? = some x ∧ x ≠ 123) := by
  obtain ⟨h1, h2, h3, h4, h5, h6, h7⟩ := h
  unfold escM
  split
  · right; exact ⟨92, rfl, by omega⟩
  · rename_i hk
    have hl : lcLen e r1 = 0 := by simp [lcLen, h5, h6, h7]
    simp only [Bool.false_eq_true, false_and, if_false, hl, Nat.lt_irrefl, h2, h3]
    split
    · rename_i ho
      right
      unfold octM
      have hne := octParse_ne_lbrace (r1 := r1) ho h4
      simp only []
      split
      · exact ⟨92, rfl, by omega⟩
      · split
        · exact ⟨92, rfl, by omega⟩
        · split
          · exact ⟨92, rfl, by omega⟩
          · split
            · exact ⟨92, rfl, by omega⟩
            · exact ⟨_, rfl, hne⟩
    · split
      · right; exact ⟨10, rfl, by omega⟩
      · split
        · right; exact ⟨9, rfl, by omega⟩
        · split
          · right; exact ⟨12, rfl, by omega⟩
          · split
            · right; exact ⟨11, rfl, by omega⟩
            · split
              · right; exact ⟨8, rfl, by omega⟩
              · left
                refine ⟨rfl, rfl, ?_⟩
                intro h92; exact hk (Or.inr (Or.inl h92))


/-- **seam `$`·`{`**: after a raw `$` that the model did not escape, its output does not continue with `{` -/
theorem head_after_dollar {r : List Nat} (h : dollarDanger r = false) : (repA 96 false r).head? ≠ some 123 := by
  cases r with
  | nil => simp
  | cons c r' =>
    by_cases hc : c = 92
    · subst hc
      cases r' with
      | nil => rw [repA_cons]; simp [step]
      | cons e r1 =>
        have hd : e ≠ 123 ∧ e ≠ 120 ∧ e ≠ 117 ∧ e ≠ 49 ∧ e ≠ 10 ∧ e ≠ 13 ∧ e ≠ 226 := by
          simp [dollarDanger] at h
          omega
        rw [repA_cons]
        have hs : step 96 false 92 (e :: r1) = escM 96 false e r1 := by simp [step]
        rw [hs]
        rcases escM_head_tmpl (r1 := r1) hd with ⟨h1, h2, h3⟩ | ⟨x, hx, hne⟩
        · rw [h1, h2]
          simp only [List.nil_append, List.drop_zero]
          rcases head_raw_cases (q := 96) (an := (escM 96 false e r1).2.2) (r := r1) h3 with h' | h' | ⟨h', _⟩ <;>
            rw [h'] <;> simp <;> omega
        · cases ho : (escM 96 false e r1).1 with
          | nil => rw [ho] at hx; simp at hx
          | cons a b =>
            rw [ho] at hx
            simp only [List.head?_cons, Option.some.injEq] at hx
            simp only [List.cons_append, List.head?_cons, ne_eq, Option.some.injEq]
            omega
    · have hne : c ≠ 123 := by
        intro h'; subst h'; simp [dollarDanger] at h
      rcases head_raw_cases (q := 96) (an := false) (r := r') hc with h' | h' | ⟨h', _⟩ <;>
        rw [h'] <;> simp <;> omega

end Verif.Proofs.JsString

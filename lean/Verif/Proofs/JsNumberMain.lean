import Verif.Proofs.JsNumberRadix
/-!
# C01N — the literal printer on every `NumericLiteral` the lexer accepts
-/
namespace Verif.Proofs.JsNumber
open Verif.Spec.JsNumberSem
open Verif.Model.JsNumber

/-- every accepted numeric literal is printed as a numeric literal with the same mathematical value and
    the same type (Number / BigInt) -/
theorem lit_main {s t : List Char} (hlit : isNumericLiteral s = true) (ht : minifyNumLit s = some t) :
    Good s t := by
  unfold isNumericLiteral at hlit
  simp only at hlit
  cases hr : radixPrefix (splitSuffix s).1 with
  | some x =>
    obtain ⟨base, r⟩ := x
    rw [hr] at hlit
    simp only at hlit
    obtain ⟨c, R⟩ := radixLit_of hr hlit
    exact radix_case R ht
  | none =>
    rw [hr] at hlit
    simp only at hlit
    cases hb : (splitSuffix s).2 with
    | true =>
      rw [hb] at hlit
      simp only [if_true] at hlit
      exact bigdec_case hb hlit ht
    | false =>
      rw [hb] at hlit
      simp only [Bool.false_eq_true, if_false, Bool.or_eq_true] at hlit
      have hs := splitSuffix_false hb
      rw [hs] at hlit hr
      obtain ⟨hne, htp⟩ := minifyNumLit_some ht
      obtain ⟨hnl, htok⟩ := tokOf_noRadix hr hne
      rcases hlit with hd | ho
      · obtain ⟨L, hL, hdl⟩ := isDecimalLiteral_inv hd
        subst hL
        obtain ⟨l', h1, h2, h3, h4⟩ := decimal_case L hdl hnl
        rw [htp, printTok_dec htok, ← h2]
        exact good_of_plain l' h1 h4 (by rw [h3, mathValue_str L hdl.shape hnl]) hb
      · rw [isLegacyOctal_imp_like ho] at hnl; cases hnl

/-- the lexer (by contract) rejects exactly the legacy forms `0` *digit* … among the numeric literals -/
theorem rejected_iff {s : List Char} (hlit : isNumericLiteral s = true) :
    minifyNumLit s = none ↔ isLegacyLike s = true := by
  unfold minifyNumLit
  constructor
  · intro h
    split at h
    · rename_i hrej
      by_cases hz : ∃ c r, s = '0' :: c :: r
      · obtain ⟨c, r, e⟩ := hz
        subst e
        rw [tokOf_zero] at hrej
        unfold isLegacyLike
        simp only
        by_cases h1 : (c == 'x' || c == 'X') = true
        · rw [if_pos h1] at hrej; cases hrej
        · rw [if_neg h1] at hrej
          by_cases h2 : (c == 'b' || c == 'B') = true
          · rw [if_pos h2] at hrej; cases hrej
          · rw [if_neg h2] at hrej
            by_cases h3 : (c == 'o' || c == 'O') = true
            · rw [if_pos h3] at hrej; cases hrej
            · rw [if_neg h3] at hrej
              by_cases h4 : c.isDigit = true
              · exact h4
              · rw [if_neg h4] at hrej
                rcases dfltTok_cases ('0' :: c :: r) with e | e <;> rw [e] at hrej <;> cases hrej
      · have hne : ∀ c r, s ≠ '0' :: c :: r := fun c r e => hz ⟨c, r, e⟩
        rw [(tokOf_other hne).1] at hrej
        rcases dfltTok_cases s with e | e <;> rw [e] at hrej <;> cases hrej
    · cases h
  · intro h
    unfold isLegacyLike at h
    split at h
    · rename_i c r
      have hx : ∀ d : Char, d.isDigit = false → (c == d) = false := by
        intro d hd
        have : c ≠ d := digit_ne h hd
        simpa using this
      rw [tokOf_zero]
      simp [hx 'x' (by decide), hx 'X' (by decide), hx 'b' (by decide), hx 'B' (by decide), hx 'o' (by decide),
        hx 'O' (by decide), h]
    · cases h

end Verif.Proofs.JsNumber

import Verif.Proofs.NumValue
set_option linter.unusedSimpArgs false
/-!
# C08 — `number` on a lexeme of the grammar: trimming, zero cases, assembly with the print stage
-/
namespace Verif.Proofs.Num
open Verif.Model.Num
open Verif.Spec.Num (parse Parsed isNumber isDecimal numVal)

theorem digit_ne_dot {c : Char} (h : c.isDigit = true) : c ≠ '.' := digit_ne h (by decide)

theorem splitLastDot_nodot {l : List Char} (h : ∀ c ∈ l, c ≠ '.') : splitLastDot l = (l, none) := by
  induction l with
  | nil => rfl
  | cons c r ih =>
    unfold splitLastDot
    rw [ih (fun x hx => h x (by simp [hx]))]
    have : (c == '.') = false := by simpa using h c (by simp)
    simp [this]

theorem splitLastDot_dot {a b : List Char} (ha : ∀ c ∈ a, c ≠ '.') (hb : ∀ c ∈ b, c ≠ '.') :
    splitLastDot (a ++ '.' :: b) = (a, some b) := by
  induction a with
  | nil =>
    simp only [List.nil_append]
    unfold splitLastDot
    rw [splitLastDot_nodot hb]
    simp
  | cons c r ih =>
    simp only [List.cons_append]
    unfold splitLastDot
    rw [ih (fun x hx => ha x (by simp [hx]))]

/-- the integer digits after dropping leading zeros (`start < end-1` keeps one byte) -/
theorem trim_ip (ip : List Char) (rest : Nat) :
    (0 < rest ∨ dropZeros ip ≠ [] →
      ip.drop (min (ip.length - (dropZeros ip).length) (ip.length + rest - 1)) = dropZeros ip ∧
      min (ip.length - (dropZeros ip).length) (ip.length + rest - 1) = ip.length - (dropZeros ip).length) ∧
    (rest = 0 → dropZeros ip = [] → ip ≠ [] →
      ip.drop (min (ip.length - (dropZeros ip).length) (ip.length + rest - 1)) = ['0']) := by
  obtain ⟨h1, h2, h3⟩ := dropZeros_spec ip
  constructor
  · intro h
    have hmin : min (ip.length - (dropZeros ip).length) (ip.length + rest - 1) = ip.length - (dropZeros ip).length := by
      rcases h with h | h
      · omega
      · have : 0 < (dropZeros ip).length := List.length_pos_iff.mpr h
        omega
    rw [hmin]
    refine ⟨?_, rfl⟩
    have := List.drop_left' (l₁ := List.replicate (ip.length - (dropZeros ip).length) '0') (l₂ := dropZeros ip)
      (i := ip.length - (dropZeros ip).length) (by simp)
    rwa [← h1] at this
  · intro hr hz hne
    rw [hz] at h1
    simp only [List.length_nil, Nat.sub_zero, List.append_nil] at h1
    have hl : 0 < ip.length := List.length_pos_iff.mpr hne
    rw [hz, hr]
    simp only [List.length_nil, Nat.sub_zero, Nat.add_zero]
    have : min ip.length (ip.length - 1) = ip.length - 1 := by omega
    rw [this]
    have h4 : (List.replicate ip.length '0').drop (ip.length - 1) = ['0'] := by
      rw [List.drop_replicate]
      have : ip.length - (ip.length - 1) = 1 := by omega
      rw [this]; rfl
    rwa [← h1] at h4


theorem trim_val (neg : Bool) (ip fp : List Char) (e : Int) :
    dval neg (natOf (ip ++ fp)) (e - (fp.length : Int)) =
      dval neg (natOf (dropZeros ip ++ dropTrail '0' fp)) (e - ((dropTrail '0' fp).length : Int)) := by
  obtain ⟨h1, _, _⟩ := dropZeros_spec ip
  obtain ⟨h2, h2l, _⟩ := dropTrail_spec '0' fp
  generalize dropZeros ip = dz at h1
  generalize dropTrail '0' fp = dt at h2 h2l
  generalize hk : fp.length - dt.length = k at h2
  generalize ip.length - dz.length = a at h1
  have hfl : fp.length = dt.length + k := by omega
  subst h1 h2
  have : List.replicate a '0' ++ dz ++ (dt ++ List.replicate k '0') =
      List.replicate a '0' ++ ((dz ++ dt) ++ List.replicate k '0') := by simp
  rw [this, natOf_zeros_append, natOf_append_zeros, dval_shift]
  apply dval_congr
  omega

theorem natOf_of_dropZeros_nil {l : List Char} (h : dropZeros l = []) : natOf l = 0 := by
  rw [← natOf_dropZeros, h]; rfl

theorem natOf_of_dropTrail_nil {l : List Char} (h : dropTrail '0' l = []) : natOf l = 0 := by
  obtain ⟨h2, _, _⟩ := dropTrail_spec '0' l
  rw [h] at h2
  rw [h2]; simp [natOf_replicate_zero]

/-- the lexeme `0` -/
def zeroLex : Lex := ⟨.none, ['0'], false, [], none⟩

theorem zeroLex_wf : zeroLex.WF :=
  ⟨by intro c h; simp [zeroLex] at h; rw [h]; decide, AllDig.nil, fun _ => rfl, Or.inl (by simp [zeroLex]),
    by intro c sg ds h; cases h⟩

theorem zeroLex_str : zeroLex.str = ['0'] := rfl

theorem zeroLex_shape : MinShape0 zeroLex :=
  ⟨(by intro h; cases h), (by intro t e; simp [zeroLex] at e; exact e)⟩

theorem zeroLex_val : zeroLex.val = 0 := by
  have : natOf (['0'] ++ []) = 0 := by decide
  simp only [Lex.val, zeroLex, this]
  exact dval_zero _ _

theorem numberCore_lex (s : List Char) (neg signed : Bool) (ip fp : List Char) (dot : Bool) (e p : Int)
    (hip : AllDig ip) (hfp : AllDig fp) (hd : dot = false → fp = []) (hne : ip ≠ [] ∨ fp ≠ [])
    (hr : ∀ m0 : Mant, MantWF m0.ip m0.fp → MantWF (rnd p m0).ip (rnd p m0).fp) :
    numberCore s neg signed (ip ++ (if dot then '.' :: fp else [])) e p = s ∨
    ∃ l' : Lex, l'.WF ∧ l'.str = numberCore s neg signed (ip ++ (if dot then '.' :: fp else [])) e p ∧
      l'.sg ≠ .plus ∧
      ((if signed then 1 else 0) + (ip ++ (if dot then '.' :: fp else [])).length + expLen e ≤ s.length →
        (natOf (ip ++ fp) = 0 ∧ l'.val = 0 ∧ l' = zeroLex) ∨
        (MantWF (dropZeros ip) (dropTrail '0' fp) ∧ (decide (0 < p) && expNearEdge e s.length) = false ∧
          (mlen (rnd p ⟨dropZeros ip, dropTrail '0' fp, e⟩).ip (rnd p ⟨dropZeros ip, dropTrail '0' fp, e⟩).fp +
              expLen (rnd p ⟨dropZeros ip, dropTrail '0' fp, e⟩).e ≤
            mlen (dropZeros ip) (dropTrail '0' fp) + expLen e →
           l'.val = mantVal neg (rnd p ⟨dropZeros ip, dropTrail '0' fp, e⟩)) ∧
          numberCore s neg signed (ip ++ (if dot then '.' :: fp else [])) e p =
            printNum s neg (s.length - ((if signed then 1 else 0) + (ip.length - (dropZeros ip).length)))
              (rnd p ⟨dropZeros ip, dropTrail '0' fp, e⟩))) ∧
      MinShape0 l' := by
  have hipd : ∀ c ∈ ip, c ≠ '.' := fun c hc => digit_ne_dot (hip c hc)
  have hfpd : ∀ c ∈ fp, c ≠ '.' := fun c hc => digit_ne_dot (hfp c hc)
  have hsp : splitLastDot (ip ++ (if dot then '.' :: fp else [])) = (ip, if dot then some fp else none) := by
    cases dot with
    | true => simp only [if_true]; exact splitLastDot_dot hipd hfpd
    | false => simp only [Bool.false_eq_true, if_false, List.append_nil]; exact splitLastDot_nodot hipd
  have hgetD : (if dot then some fp else none).getD [] = fp := by
    cases dot with
    | true => rfl
    | false => simp [hd rfl]
  have hsome : (if dot then some fp else none : Option (List Char)).isSome = dot := by cases dot <;> rfl
  generalize hrest : (if dot then 1 + fp.length else 0) = rest
  have hml : (ip ++ (if dot then '.' :: fp else [])).length = ip.length + rest := by
    rw [← hrest]; cases dot <;> simp; omega
  unfold numberCore
  simp only [hsp, hgetD, hsome, hml]
  obtain ⟨htr1, htr2⟩ := trim_ip ip rest
  obtain ⟨_, _, hz3⟩ := dropZeros_spec ip
  obtain ⟨_, hdtl, hdt3⟩ := dropTrail_spec '0' fp
  by_cases hc : 0 < rest ∨ dropZeros ip ≠ []
  · obtain ⟨hip', hdropped⟩ := htr1 hc
    rw [hip', hdropped]
    split
    · -- zero: `000.000`
      rename_i hz
      simp only [Bool.and_eq_true, List.isEmpty_iff] at hz
      right
      refine ⟨zeroLex, zeroLex_wf, zeroLex_str, by simp [zeroLex], ?_, zeroLex_shape⟩
      intro _
      left
      refine ⟨?_, zeroLex_val, rfl⟩
      rw [natOf_append, natOf_of_dropZeros_nil hz.2, natOf_of_dropTrail_nil hz.1.2]
      simp
    · rename_i hz1
      split
      · rename_i hz2
        simp only [Bool.and_eq_true, beq_iff_eq] at hz2
        exact absurd hz2.2 (hz3 [])
      · -- the general case
        split
        · left; rfl
        · rename_i hguard
          have hguard' : (decide (0 < p) && expNearEdge e s.length) = false := by
            cases h : (decide (0 < p) && expNearEdge e s.length) with
            | true => exact absurd h hguard
            | false => rfl
          have hwf0 : MantWF (dropZeros ip) (dropTrail '0' fp) := by
            refine ⟨hip.dropZeros, hfp.dropTrail '0', ?_, hz3, hdt3⟩
            by_cases h1 : dropZeros ip = []
            · right
              intro h2
              cases hdot : dot with
              | true => apply hz1; simp [hdot, h1, h2]
              | false =>
                have hfp0 := hd hdot
                rcases hc with hc | hc
                · rw [← hrest, hdot] at hc; simp at hc
                · exact hc h1
            · left; exact h1
          have hwf := hr ⟨dropZeros ip, dropTrail '0' fp, e⟩ hwf0
          rcases printNum_lex s neg (s.length - ((if signed then 1 else 0) + (ip.length - (dropZeros ip).length)))
            (rnd p ⟨dropZeros ip, dropTrail '0' fp, e⟩) hwf with hs | ⟨l', hl', hv⟩
          · left; unfold rnd at hs; exact hs
          · right
            refine ⟨l', hl'.wf, ?_, ?_, ?_, hl'.shape.to0⟩
            · unfold rnd at hl'; exact hl'.str
            · rw [hl'.sg]; exact sgOf_ne_plus neg
            · intro hs
              right
              refine ⟨hwf0, hguard', fun hR => ?_, rfl⟩
              apply hv
              refine Nat.le_trans hR ?_
              have hm := mlen_cases (dropZeros ip) (dropTrail '0' fp)
              have hzl := dropZeros_length_le ip
              rw [← hrest] at hs
              cases hdot : dot with
              | true => rw [hdot] at hs; simp only [if_true] at hs; omega
              | false =>
                have hfp0 := hd hdot
                rw [hfp0] at hm hdtl
                simp only [dropTrail_nil, List.length_nil] at hm hdtl
                rw [hdot] at hs; simp only [Bool.false_eq_true, if_false] at hs
                rw [hfp0, dropTrail_nil]
                omega
  · -- `000` without a dot
    have hrest0 : rest = 0 := by omega
    have hdz : dropZeros ip = [] := by
      cases h : dropZeros ip with
      | nil => rfl
      | cons _ _ => exact absurd (Or.inr (by simp [h])) hc
    have hdot : dot = false := by
      cases hdot : dot with
      | false => rfl
      | true => rw [← hrest, hdot] at hrest0; simp at hrest0
    have hfp0 := hd hdot
    have hipne : ip ≠ [] := by rcases hne with h | h; exact h; exact absurd hfp0 h
    rw [htr2 hrest0 hdz hipne]
    right
    simp only [hdot, Bool.false_and, Bool.false_eq_true, if_false, Bool.not_false, Bool.true_and, beq_self_eq_true, if_true]
    refine ⟨zeroLex, zeroLex_wf, zeroLex_str, by simp [zeroLex], ?_, zeroLex_shape⟩
    intro _
    left
    refine ⟨?_, zeroLex_val, rfl⟩
    rw [hfp0, List.append_nil, natOf_of_dropZeros_nil hdz]

theorem takeWhile_all {p : Char → Bool} {l : List Char} (h : ∀ x ∈ l, p x = true) : l.takeWhile p = l := by
  have := takeWhile_append_stop (p := p) (a := l) (b := []) h (by intro c t e; cases e)
  simpa using this

theorem parseExp_lex (esg : Sg) (ds : List Char) (hds : AllDig ds) (hne : ds ≠ []) :
    parseExp (esg.chars ++ ds) = none ∨
    parseExp (esg.chars ++ ds) = some (if esg.neg then -(natOf ds : Int) else (natOf ds : Int)) := by
  obtain ⟨c, t, hct⟩ : ∃ c t, ds = c :: t := by
    cases ds with | nil => exact absurd rfl hne | cons c t => exact ⟨c, t, rfl⟩
  have hc : c.isDigit = true := hds c (by rw [hct]; simp)
  have hcp : c ≠ '+' := digit_ne hc (by decide)
  have hcm : c ≠ '-' := digit_ne hc (by decide)
  have hss : signSplit (skipPlus (esg.chars ++ ds)) = (esg.neg, ds) := by
    cases esg with
    | plus =>
      simp only [Sg.chars, List.cons_append, List.nil_append, skipPlus, Sg.neg]
      rw [hct]; unfold signSplit
      split
      · rename_i r e; injection e with e1 _; exact absurd e1 hcm
      · rename_i r e; injection e with e1 _; exact absurd e1 hcp
      · rfl
    | minus =>
      simp only [Sg.chars, List.cons_append, List.nil_append, Sg.neg]
      have : skipPlus ('-' :: ds) = '-' :: ds := by
        unfold skipPlus; split
        · rename_i r e; injection e with e1 _; cases e1
        · rfl
      rw [this]; rfl
    | none =>
      simp only [Sg.chars, List.nil_append, Sg.neg]
      have : skipPlus ds = ds := by
        rw [hct]; unfold skipPlus; split
        · rename_i r e; injection e with e1 _; exact absurd e1 hcp
        · rfl
      rw [this, hct]; unfold signSplit
      split
      · rename_i r e; injection e with e1 _; exact absurd e1 hcm
      · rename_i r e; injection e with e1 _; exact absurd e1 hcp
      · rfl
  unfold parseExp
  simp only [hss, takeWhile_all hds, nonempty_of_ne_nil hne, Bool.false_eq_true, if_false]
  cases esg.neg with
  | true =>
    simp only [if_true]
    split
    · right; rfl
    · left; rfl
  | false =>
    simp only [Bool.false_eq_true, if_false]
    split
    · right; rfl
    · left; rfl


theorem notE_dotPart (l : Lex) (hwf : l.WF) : ∀ x ∈ l.ip ++ l.dotPart, notE x = true := by
  intro x hx
  rcases List.mem_append.mp hx with h | h
  · exact digit_notE (hwf.ip x h)
  · unfold Lex.dotPart at h
    split at h
    · rcases List.mem_cons.mp h with h | h
      · rw [h]; decide
      · exact digit_notE (hwf.fp x h)
    · cases h

theorem exPart_notE (l : Lex) (hwf : l.WF) : ∀ c t, l.exPart = c :: t → notE c = false := by
  intro c t e
  rcases exPart_head l hwf c t e with rfl | rfl <;> decide

/-- lexing of a lexeme of the grammar by `number` -/
theorem number_lex (l : Lex) (hwf : l.WF) (p : Int)
    (hr : ∀ m0 : Mant, MantWF m0.ip m0.fp → MantWF (rnd p m0).ip (rnd p m0).fp) :
    number l.str p = l.str ∨
    ∃ l' : Lex, l'.WF ∧ l'.str = number l.str p ∧ l'.sg ≠ .plus ∧ (p ≤ 0 → l'.val = l.val) ∧
      ((l.val = 0 ∧ l'.val = 0 ∧ l' = zeroLex) ∨
       (MantWF (dropZeros l.ip) (dropTrail '0' l.fp) ∧
        (decide (0 < p) && expNearEdge l.expVal l.str.length) = false ∧
        (mlen (rnd p ⟨dropZeros l.ip, dropTrail '0' l.fp, l.expVal⟩).ip (rnd p ⟨dropZeros l.ip, dropTrail '0' l.fp, l.expVal⟩).fp +
            expLen (rnd p ⟨dropZeros l.ip, dropTrail '0' l.fp, l.expVal⟩).e ≤
          mlen (dropZeros l.ip) (dropTrail '0' l.fp) + expLen l.expVal →
         l'.val = mantVal l.sg.neg (rnd p ⟨dropZeros l.ip, dropTrail '0' l.fp, l.expVal⟩)) ∧
        number l.str p =
          printNum l.str l.sg.neg
            (l.str.length - ((if (l.sg != .none) = true then 1 else 0) + (l.ip.length - (dropZeros l.ip).length)))
            (rnd p ⟨dropZeros l.ip, dropTrail '0' l.fp, l.expVal⟩))) ∧
      MinShape0 l' := by
  unfold number
  split
  · left; rfl
  · rename_i hlen
    -- sign
    have hbody := str_body_head l hwf
    generalize hB : l.ip ++ (l.dotPart ++ l.exPart) = B at hbody
    have hstr : l.str = l.sg.chars ++ B := by rw [← hB]; rfl
    have hsign : (l.str.head? == some '-') = l.sg.neg ∧
        (l.sg.neg || (l.str.head? == some '+')) = (l.sg != .none) ∧
        (if (l.sg != .none) = true then l.str.drop 1 else l.str) = B ∧
        l.str.length = (if (l.sg != .none) = true then 1 else 0) + B.length := by
      rw [hstr]
      cases hsg : l.sg with
      | minus => simp [Sg.chars, Sg.neg]; omega
      | plus => simp [Sg.chars, Sg.neg]; omega
      | none =>
        simp only [Sg.chars, List.nil_append, Sg.neg]
        cases B with
        | nil => simp
        | cons c t =>
          obtain ⟨h1, h2⟩ := hbody c t rfl
          simp [h1, h2]
    obtain ⟨hs1, hs2, hs3, hs4⟩ := hsign
    simp only [hs1, hs2, hs3]
    -- mantissa / exponent part
    have hB2 : B = (l.ip ++ l.dotPart) ++ l.exPart := by rw [← hB]; simp
    have htw : B.takeWhile notE = l.ip ++ l.dotPart := by
      rw [hB2]; exact takeWhile_append_stop (notE_dotPart l hwf) (exPart_notE l hwf)
    have hdw : B.dropWhile notE = l.exPart := by
      rw [hB2]; exact dropWhile_append_stop (notE_dotPart l hwf) (exPart_notE l hwf)
    rw [htw, hdw]
    have hBl : B.length = (l.ip ++ l.dotPart).length + l.exPart.length := by rw [hB2]; simp; omega
    -- the exponent
    have hexp : expOfRest l.exPart = none ∨
        (expOfRest l.exPart = some l.expVal ∧
          expLen l.expVal ≤ l.exPart.length) := by
      unfold Lex.exPart Lex.expVal
      cases hx : l.ex with
      | none => right; simp [expLen, expOfRest]
      | some x =>
        obtain ⟨c, esg, ds⟩ := x
        obtain ⟨_, hd, hne⟩ := hwf.ex c esg ds hx
        simp only [expOfRest]
        rcases parseExp_lex esg ds hd hne with h | h
        · left; exact h
        · right
          refine ⟨h, ?_⟩
          have := parseExp_len h
          simp only [List.length_cons]
          omega
    rcases hexp with he | ⟨he, hel⟩
    · left; rw [he]
    · rw [he]
      simp only []
      have hdp : l.dotPart = if l.dot then '.' :: l.fp else [] := rfl
      rw [hdp] at hBl ⊢
      rcases numberCore_lex l.str l.sg.neg (l.sg != .none) l.ip l.fp l.dot l.expVal p hwf.ip hwf.fp hwf.nodot
        hwf.nonempty hr with h | ⟨l', h1, h2, h3, h4, hsh⟩
      · left; exact h
      · right
        have hs : (if (l.sg != Sg.none) = true then 1 else 0) +
            (l.ip ++ if l.dot = true then '.' :: l.fp else []).length + expLen l.expVal ≤ l.str.length := by
          rw [hs4, hBl]; omega
        have hval0 : l.val = dval l.sg.neg (natOf (l.ip ++ l.fp)) (l.expVal - (l.fp.length : Int)) := rfl
        refine ⟨l', h1, h2, h3, ?_, ?_, hsh⟩
        · intro hp
          rcases h4 hs with ⟨z1, z2, _⟩ | ⟨_, _, hv, _⟩
          · rw [z2, hval0, z1, dval_zero]
          · rw [rnd_nonpos hp] at hv
            rw [hv (Nat.le_refl _), hval0, trim_val]
            rfl
        · rcases h4 hs with ⟨z1, z2, z3⟩ | ⟨hm, hgd, hv, hW⟩
          · left; exact ⟨by rw [hval0, z1, dval_zero], z2, z3⟩
          · right; exact ⟨hm, hgd, hv, hW⟩

end Verif.Proofs.Num

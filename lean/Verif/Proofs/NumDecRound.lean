import Verif.Proofs.NumRoundBound
set_option linter.unusedSimpArgs false
/-!
# C08 — `Decimal` with a precision: the result is within half a unit of the last retained digit
-/
namespace Verif.Proofs.Num
open Verif.Model.Num
open Verif.Spec.Num (parse Parsed isNumber isDecimal numVal stripZeros leadExp WithinHalfUnit WithinHalfUnitDec)

theorem stripZeros_eq (l : List Char) : stripZeros l = dropZeros l := by
  unfold stripZeros
  induction l with
  | nil => rfl
  | cons c t ih =>
    by_cases hc : c = '0'
    · subst hc; rw [dropZeros_zero_cons, ← ih]; simp
    · rw [dropZeros_cons_ne t hc]
      have : (c == '0') = false := by simpa using hc
      simp [this]

theorem within_refl (s : List Char) (p : Int) (v : Rat) : WithinHalfUnit s p v v := by
  unfold WithinHalfUnit
  split
  · rfl
  · rename_i L _
    have := ten_zpow_nonneg (L - p + 1)
    constructor <;> grind

theorem withinDec_refl (s : List Char) (p : Int) (v : Rat) : WithinHalfUnitDec s p v v := by
  unfold WithinHalfUnitDec
  split
  · rfl
  · rename_i L _
    have := ten_zpow_nonneg (min (L - p + 1) 0)
    constructor <;> grind

/-- trailing-zero trimming does not change the number of leading zeros -/
theorem leadZeros_dropTrail (fp : List Char) (h : dropTrail '0' fp ≠ []) :
    fp.length - (dropZeros fp).length = (dropTrail '0' fp).length - (dropZeros (dropTrail '0' fp)).length := by
  obtain ⟨t1, t2, t3⟩ := dropTrail_spec '0' fp
  generalize dropTrail '0' fp = f' at *
  obtain ⟨z1, z2, z3⟩ := dropZeros_spec f'
  generalize hd : dropZeros f' = d at *
  generalize ha : f'.length - d.length = a at *
  generalize hj : fp.length - f'.length = j at *
  cases d with
  | nil =>
    exfalso
    simp only [List.append_nil, List.length_nil, Nat.sub_zero] at z1 ha
    cases a with
    | zero => exact h (List.eq_nil_of_length_eq_zero ha)
    | succ b => rw [replicate_succ_snoc] at z1; exact t3 _ z1
  | cons c r =>
    have hc : c ≠ '0' := by intro e; rw [e] at z3; exact z3 r rfl
    have e1 : fp = List.replicate a '0' ++ ((c :: r) ++ List.replicate j '0') := by
      rw [t1, z1]; simp
    have e2 : dropZeros fp = (c :: r) ++ List.replicate j '0' := by
      rw [e1, dropZeros_replicate_append]
      exact dropZeros_cons_ne _ hc
    rw [e2]
    have : fp.length = a + ((c :: r).length + j) := by rw [e1]; simp; omega
    simp only [List.length_append, List.length_replicate] at *
    omega

theorem decimalCore_cases (neg : Bool) (ip fp : List Char) (dot : Bool) (p : Int)
    (hip : AllDig ip) (hfp : AllDig fp) (hd : dot = false → fp = []) (hne : ip ≠ [] ∨ fp ≠ []) :
    (decimalCore neg (ip ++ (if dot then '.' :: fp else [])) p = ['0'] ∧ dropZeros ip = [] ∧
      dropTrail '0' fp = []) ∨
    (MantWF (dropZeros ip) (dropTrail '0' fp) ∧
      decimalCore neg (ip ++ (if dot then '.' :: fp else [])) p =
        sgn neg ((rndD p (dropZeros ip) (dropTrail '0' fp)).1 ++
          (if (rndD p (dropZeros ip) (dropTrail '0' fp)).2.isEmpty then []
           else '.' :: (rndD p (dropZeros ip) (dropTrail '0' fp)).2))) := by
  have hipd : ∀ c ∈ ip, c ≠ '.' := fun c hc => digit_ne_dot (hip c hc)
  have hsp : splitFirstDot (ip ++ (if dot then '.' :: fp else [])) = (ip, if dot then some fp else none) := by
    cases dot with
    | true => simp only [if_true]; exact splitFirstDot_dot fp hipd
    | false => simp only [Bool.false_eq_true, if_false, List.append_nil]; exact splitFirstDot_nodot hipd
  have hgetD : (if dot then some fp else none).getD [] = fp := by
    cases dot with
    | true => rfl
    | false => simp [hd rfl]
  have hsome : (if dot then some fp else none : Option (List Char)).isSome = dot := by cases dot <;> rfl
  generalize hrest : (if dot then 1 + fp.length else 0) = rest
  have hml : (ip ++ (if dot then '.' :: fp else [])).length = ip.length + rest := by
    rw [← hrest]; cases dot <;> simp; omega
  unfold decimalCore
  simp only [hsp, hgetD, hsome, hml]
  obtain ⟨htr1, htr2⟩ := trim_ip ip rest
  obtain ⟨_, _, hz3⟩ := dropZeros_spec ip
  obtain ⟨_, hdtl, hdt3⟩ := dropTrail_spec '0' fp
  by_cases hc : 0 < rest ∨ dropZeros ip ≠ []
  · obtain ⟨hip', hdropped⟩ := htr1 hc
    rw [hip']
    split
    · rename_i hz
      simp only [Bool.and_eq_true, List.isEmpty_iff] at hz
      left; exact ⟨rfl, hz.2, hz.1.2⟩
    · rename_i hz1
      split
      · rename_i hz2
        simp only [Bool.and_eq_true, beq_iff_eq] at hz2
        exact absurd hz2.2 (hz3 [])
      · right
        refine ⟨⟨hip.dropZeros, hfp.dropTrail '0', ?_, hz3, hdt3⟩, rfl⟩
        by_cases h1 : dropZeros ip = []
        · right
          intro h2
          cases hdot : dot with
          | true => apply hz1; simp [hdot, h1, h2]
          | false =>
            rcases hc with hc | hc
            · rw [← hrest, hdot] at hc; simp at hc
            · exact hc h1
        · left; exact h1
  · have hrest0 : rest = 0 := by omega
    have hdz : dropZeros ip = [] := by
      cases h : dropZeros ip with
      | nil => rfl
      | cons _ _ => exact absurd (Or.inr (by simp [h])) hc
    have hdot : dot = false := by
      cases hdot : dot with
      | false => rfl
      | true => rw [← hrest, hdot] at hrest0; simp at hrest0
    have hfp0 := hd hdot
    have hipne : ip ≠ [] := by rcases hne with h | h; exact h; exact absurd hfp0 h
    rw [htr2 hrest0 hdz hipne]
    left
    simp only [hdot, Bool.false_and, Bool.false_eq_true, if_false, Bool.not_false, Bool.true_and, beq_self_eq_true, if_true]
    exact ⟨(by first | rfl | trivial), hdz, by rw [hfp0]; rfl⟩

theorem dropTrail_nil_of_dropZeros_nil {fp : List Char} (h : dropZeros fp = []) : dropTrail '0' fp = [] := by
  obtain ⟨z1, _, _⟩ := dropZeros_spec fp
  rw [h] at z1
  simp only [List.length_nil, Nat.sub_zero, List.append_nil] at z1
  obtain ⟨t1, _, t3⟩ := dropTrail_spec '0' fp
  rcases List.eq_nil_or_concat (dropTrail '0' fp) with hn | ⟨x, y, hxy⟩
  · exact hn
  · exfalso
    rw [List.concat_eq_append] at hxy
    have hy : y ∈ fp := by rw [t1, hxy]; simp
    rw [z1] at hy
    have := (List.mem_replicate.mp hy).2
    rw [this] at hxy
    exact t3 _ hxy

/-- exponent of the leading significant digit of a lexeme, from its trimmed mantissa -/
theorem leadExp_lex (l : Lex) (hwf : l.WF)
    (hm : MantWF (dropZeros l.ip) (dropTrail '0' l.fp)) :
    leadExp l.str = some (l.expVal + (if (dropZeros l.ip).isEmpty then
        -(((dropTrail '0' l.fp).length - (dropZeros (dropTrail '0' l.fp)).length : Nat) : Int) - 1
      else ((dropZeros l.ip).length : Int) - 1)) := by
  unfold leadExp
  rw [parse_str l hwf]
  simp only [Option.bind_some, Parsed.leadExp, stripZeros_eq]
  cases hi : dropZeros l.ip with
  | cons c t => simp; omega
  | nil =>
    have hfne : dropTrail '0' l.fp ≠ [] := by
      rcases hm.nonempty with h | h
      · exact absurd hi h
      · exact h
    have hdz : dropZeros l.fp ≠ [] := fun h => hfne (dropTrail_nil_of_dropZeros_nil h)
    have := leadZeros_dropTrail l.fp hfne
    simp [nonempty_of_ne_nil hdz, this]; omega

theorem leadExp_decimal (l : Lex) (hwf : l.WF) (hex : l.ex = none)
    (hm : MantWF (dropZeros l.ip) (dropTrail '0' l.fp)) :
    leadExp l.str = some (if (dropZeros l.ip).isEmpty then
        -(((dropTrail '0' l.fp).length - (dropZeros (dropTrail '0' l.fp)).length : Nat) : Int) - 1
      else ((dropZeros l.ip).length : Int) - 1) := by
  rw [leadExp_lex l hwf hm]
  have he : l.expVal = 0 := by simp [Lex.expVal, hex]
  rw [he]; simp

theorem numVal_zero : numVal ['0'] = some 0 := by
  have := numVal_str zeroLex zeroLex_wf
  rw [zeroLex_str, zeroLex_val] at this
  exact this

theorem decimal_round_lex (l : Lex) (hwf : l.WF) (hex : l.ex = none) (p : Int) (hp : 0 < p) :
    ∃ w, numVal (decimal l.str p) = some w ∧ WithinHalfUnitDec l.str p l.val w := by
  unfold decimal
  split
  · exact ⟨l.val, numVal_str l hwf, withinDec_refl _ _ _⟩
  · obtain ⟨hs1, hs2, hs3⟩ := str_sign_facts l hwf
    simp only [hs1, hs2, hs3]
    have hexp : l.exPart = [] := by simp [Lex.exPart, hex]
    have hdp : l.dotPart = if l.dot then '.' :: l.fp else [] := rfl
    rw [hexp, List.append_nil, hdp]
    have hval : l.val = dval l.sg.neg (natOf (l.ip ++ l.fp)) (0 - (l.fp.length : Int)) := by
      simp [Lex.val, Lex.expVal, hex]
    rcases decimalCore_cases l.sg.neg l.ip l.fp l.dot p hwf.ip hwf.fp hwf.nodot hwf.nonempty with
      ⟨ho, hz1, hz2⟩ | ⟨hm, ho⟩
    · rw [ho]
      refine ⟨0, numVal_zero, ?_⟩
      have : l.val = 0 := by
        rw [hval, natOf_append, natOf_of_dropZeros_nil hz1, natOf_of_dropTrail_nil hz2]
        simp [dval_zero]
      rw [this]; exact withinDec_refl _ _ _
    · rw [ho]
      have hrw := rndD_wf hm p
      generalize hr : rndD p (dropZeros l.ip) (dropTrail '0' l.fp) = r at hrw
      obtain ⟨r1, r2⟩ := r
      simp only [] at hrw ⊢
      have hol := outLex_plain l.sg.neg r1 r2 (!r2.isEmpty) hrw.dip hrw.dfp
        (by intro h; cases r2 with | nil => rfl | cons _ _ => simp at h) hrw.nonempty
        (by intro h; cases r2 with | nil => simp at h | cons _ _ => simp) hrw.lead
      have hstr : (if (!r2.isEmpty) = true then '.' :: r2 else []) = (if r2.isEmpty = true then [] else '.' :: r2) := by
        cases r2 <;> simp
      rw [hstr] at hol
      refine ⟨_, by rw [← hol.str]; exact numVal_str _ hol.wf, ?_⟩
      rw [hval, trim_val]
      simp only [Lex.val, Lex.expVal, sgOf_neg]
      -- the rounding step
      unfold rndD at hr
      split at hr
      · rename_i hc
        simp only [Bool.and_eq_true, decide_eq_true_eq] at hc
        unfold roundD at hr
        generalize hk : ((if (dropZeros l.ip).isEmpty then (dropTrail '0' l.fp).length - (dropZeros (dropTrail '0' l.fp)).length else 0) +
            p.toNat - (dropZeros l.ip).length) = k at hr
        by_cases hkl : k < (dropTrail '0' l.fp).length
        · have hb := roundDAt_bound l.sg.neg (dropZeros l.ip) (dropTrail '0' l.fp) k hm.dip hm.dfp hkl
          rw [hr] at hb
          simp only [] at hb
          unfold WithinHalfUnitDec
          rw [leadExp_decimal l hwf hex hm]
          simp only []
          have hL : (if (dropZeros l.ip).isEmpty then
              -(((dropTrail '0' l.fp).length - (dropZeros (dropTrail '0' l.fp)).length : Nat) : Int) - 1
            else ((dropZeros l.ip).length : Int) - 1) - p + 1 = -(k : Int) := by
            rw [← hk]
            cases hi : dropZeros l.ip with
            | nil => simp; omega
            | cons c t =>
              rw [hi] at hc
              simp only [List.isEmpty_cons, Bool.false_eq_true, if_false, List.length_cons] at hc ⊢
              omega
          rw [hL]
          have hmin : min (-(k : Int)) 0 = -(k : Int) := by omega
          rw [hmin]
          simp only [Int.zero_sub]
          exact hb
        · have : roundDAt (dropZeros l.ip) (dropTrail '0' l.fp) k = (dropZeros l.ip, dropTrail '0' l.fp) := by
            unfold roundDAt; rw [if_neg hkl]
          rw [this] at hr
          injection hr with e1 e2
          subst e1 e2
          exact withinDec_refl _ _ _
      · injection hr with e1 e2
        subst e1 e2
        exact withinDec_refl _ _ _

end Verif.Proofs.Num

import Verif.Model.CliFs
/-!
# Helper lemmas about the file-system model `Verif.Model.CliFs`

* association-list facts (`setFile`, `delFile` against `lookup`);
* what one `step` does to `Fs.get`;
* `AllPrefixes P ops s` — "`P` holds after every prefix of `ops`" — with its composition rules;
* the shape of `minifyOps`: which paths each segment can touch, what the middle segment leaves in `dst`.
-/
namespace Verif.Proofs.CliFs
open Verif Verif.Model.CliFs

/-! ## association lists -/

theorem lookup_delFile_self (l : List (Path × Bytes)) (p : Path) : (delFile l p).lookup p = none := by
  induction l with
  | nil => rfl
  | cons e r ih =>
    obtain ⟨k, v⟩ := e
    simp only [delFile, List.filter] at ih ⊢
    by_cases hk : k = p
    · subst hk; simpa using ih
    · have h1 : (k != p) = true := by simpa using hk
      have h2 : (p == k) = false := by simpa using fun e => hk e.symm
      simp only [h1, List.lookup, h2]; exact ih

theorem lookup_delFile_ne (l : List (Path × Bytes)) (p q : Path) (h : q ≠ p) :
    (delFile l p).lookup q = l.lookup q := by
  induction l with
  | nil => rfl
  | cons e r ih =>
    obtain ⟨k, v⟩ := e
    simp only [delFile, List.filter] at ih ⊢
    by_cases hk : k = p
    · subst hk
      have h2 : (q == k) = false := by simpa using h
      simp only [bne_self_eq_false, List.lookup, h2]; exact ih
    · have h1 : (k != p) = true := by simpa using hk
      simp only [h1, List.lookup]
      cases (q == k) <;> simp [ih]

theorem lookup_setFile_self (l : List (Path × Bytes)) (p : Path) (v : Bytes) :
    (setFile l p v).lookup p = some v := by
  simp [setFile]

theorem lookup_setFile_ne (l : List (Path × Bytes)) (p q : Path) (v : Bytes) (h : q ≠ p) :
    (setFile l p v).lookup q = l.lookup q := by
  have h2 : (q == p) = false := by simpa using h
  simp only [setFile, List.lookup, h2]
  exact lookup_delFile_ne l p q h

/-! ## one step -/

theorem bak_ne (p : Path) : bak p ≠ p := by
  intro h
  have := congrArg List.length h
  simp [bak, bakSuffix] at this

theorem get_step_untouched (fs : Fs) (op : Op) (q : Path) (h : q ∉ touches op) :
    (step fs op).get q = fs.get q := by
  cases op with
  | rename a b =>
    simp only [touches, List.mem_cons, List.not_mem_nil, or_false, not_or] at h
    simp only [step]
    cases hg : fs.get a with
    | none => rfl
    | some v =>
      simp only [Fs.get]
      rw [lookup_setFile_ne _ _ _ _ h.2, lookup_delFile_ne _ _ _ h.1]
  | openTrunc p =>
    simp only [touches, List.mem_cons, List.not_mem_nil, or_false] at h
    simp only [step, Fs.get]
    exact lookup_setFile_ne _ _ _ _ h
  | write p c =>
    simp only [touches, List.mem_cons, List.not_mem_nil, or_false] at h
    simp only [step]
    cases hg : fs.get p with
    | none => rfl
    | some v => simp only [Fs.get]; exact lookup_setFile_ne _ _ _ _ h
  | remove p =>
    simp only [touches, List.mem_cons, List.not_mem_nil, or_false] at h
    simp only [step, Fs.get]
    exact lookup_delFile_ne _ _ _ h
  | close p => simp only [step]; split <;> rfl
  | openRead p => rfl
  | mkdir d => rfl
  | chmod p => rfl
  | chown p => rfl
  | chtimes p => rfl

theorem get_rename_dst (fs : Fs) (a b : Path) : (step fs (.rename a b)).get b = (fs.get a).or (fs.get b) := by
  simp only [step]
  cases hg : fs.get a with
  | none => simp
  | some v => simp only [Fs.get, Option.some_or]; exact lookup_setFile_self _ _ _

theorem get_rename_src (fs : Fs) (a b : Path) (h : a ≠ b) (he : (fs.get a).isSome) :
    (step fs (.rename a b)).get a = none := by
  simp only [step]
  cases hg : fs.get a with
  | none => simp [hg] at he
  | some v =>
    simp only [Fs.get]
    rw [lookup_setFile_ne _ _ _ _ h]; exact lookup_delFile_self _ _

theorem get_openTrunc (fs : Fs) (p : Path) : (step fs (.openTrunc p)).get p = some [] := by
  simp only [step, Fs.get]; exact lookup_setFile_self _ _ _

theorem get_write (fs : Fs) (p : Path) (c v : Bytes) (h : fs.get p = some v) :
    (step fs (.write p c)).get p = some (v ++ c) := by
  have h' : List.lookup p fs.files = some v := h
  simp only [step, Fs.get, h']; exact lookup_setFile_self _ _ _

theorem get_remove (fs : Fs) (p : Path) : (step fs (.remove p)).get p = none := by
  simp only [step, Fs.get]; exact lookup_delFile_self _ _

/-! ## runs -/

theorem run_nil (fs : Fs) : run [] fs = fs := rfl
theorem run_cons (op : Op) (ops : List Op) (fs : Fs) : run (op :: ops) fs = run ops (step fs op) := rfl
theorem run_append (a b : List Op) (fs : Fs) : run (a ++ b) fs = run b (run a fs) := by
  simp [run, List.foldl_append]

theorem get_run_untouched (ops : List Op) (fs : Fs) (q : Path)
    (h : ∀ op ∈ ops, q ∉ touches op) : (run ops fs).get q = fs.get q := by
  induction ops generalizing fs with
  | nil => rfl
  | cons op r ih =>
    rw [run_cons, ih _ (fun o ho => h o (List.mem_cons_of_mem _ ho)),
      get_step_untouched _ _ _ (h op (List.mem_cons_self ..))]

theorem get_run_writes (fs : Fs) (p : Path) (cs : List Bytes) (v : Bytes) (h : fs.get p = some v) :
    (run (cs.map (Op.write p)) fs).get p = some (v ++ cs.flatten) := by
  induction cs generalizing fs v with
  | nil => simpa [run] using h
  | cons c r ih =>
    rw [List.map_cons, run_cons, ih _ _ (get_write fs p c v h)]
    simp [List.append_assoc]

/-! ## properties of all prefixes -/

/-- `P` holds in the state reached after every prefix of `ops` (every crash point) -/
def AllPrefixes (P : Fs → Prop) (ops : List Op) (s : Fs) : Prop := ∀ k, P (run (ops.take k) s)

theorem AllPrefixes.nil {P : Fs → Prop} {s : Fs} (h : P s) : AllPrefixes P [] s := by
  intro k; simpa [run] using h

theorem AllPrefixes.cons {P : Fs → Prop} {s : Fs} {op : Op} {ops : List Op}
    (h0 : P s) (h : AllPrefixes P ops (step s op)) : AllPrefixes P (op :: ops) s := by
  intro k
  cases k with
  | zero => simpa [run] using h0
  | succ n => simpa [List.take_succ_cons, run_cons] using h n

theorem AllPrefixes.append {P : Fs → Prop} {s : Fs} {a b : List Op}
    (ha : AllPrefixes P a s) (hb : AllPrefixes P b (run a s)) : AllPrefixes P (a ++ b) s := by
  intro k
  rw [List.take_append, run_append]
  by_cases hk : k ≤ a.length
  · have : k - a.length = 0 := by omega
    rw [this, List.take_zero, run_nil]; exact ha k
  · have : a.take k = a := List.take_of_length_le (by omega)
    rw [this]; exact hb _

theorem AllPrefixes.mono {P Q : Fs → Prop} {s : Fs} {ops : List Op}
    (h : ∀ fs, P fs → Q fs) (hp : AllPrefixes P ops s) : AllPrefixes Q ops s := fun k => h _ (hp k)

theorem AllPrefixes.stable {P : Fs → Prop} {s : Fs} {ops : List Op}
    (hs : ∀ fs op, op ∈ ops → P fs → P (step fs op)) (h0 : P s) : AllPrefixes P ops s := by
  induction ops generalizing s with
  | nil => exact .nil h0
  | cons op r ih =>
    exact .cons h0 (ih (fun fs o ho => hs fs o (List.mem_cons_of_mem _ ho)) (hs s op (List.mem_cons_self ..) h0))

/-- the final state is one of the prefixes -/
theorem AllPrefixes.last {P : Fs → Prop} {s : Fs} {ops : List Op} (h : AllPrefixes P ops s) :
    P (run ops s) := by
  have := h ops.length
  simpa using this

/-- a value stored at a path that no op of the list touches stays there at every prefix -/
theorem AllPrefixes.untouched (ops : List Op) (s : Fs) (q : Path) (v : Option Bytes)
    (h : ∀ op ∈ ops, q ∉ touches op) (h0 : s.get q = v) :
    AllPrefixes (fun fs => fs.get q = v) ops s :=
  AllPrefixes.stable (fun fs op ho hp => by rw [get_step_untouched _ _ _ (h op ho)]; exact hp) h0

/-! ## shape of `minifyOps` -/

theorem touches_mkdirOps (fs : Fs) (d : Path) : ∀ op ∈ mkdirOps fs d, touches op = [] := by
  intro op h
  simp only [mkdirOps, List.mem_map] at h
  obtain ⟨q, _, rfl⟩ := h
  rfl

theorem touches_rOpen (p : Path) : ∀ op ∈ rOpen p, touches op = [] := by
  intro op h
  simp only [rOpen] at h
  split at h
  · simp at h
  · simp only [List.mem_cons, List.not_mem_nil, or_false] at h; subst h; rfl

theorem touches_cl (p : Path) : ∀ op ∈ cl p, touches op = [] := by
  intro op h
  simp only [cl] at h
  split at h
  · simp at h
  · simp only [List.mem_cons, List.not_mem_nil, or_false] at h; subst h; rfl

theorem touches_openOps (ss : List Path) : ∀ op ∈ openOps ss, touches op = [] := by
  intro op h
  cases ss with
  | nil => simp [openOps] at h
  | cons s r => exact touches_rOpen s op (by simpa [openOps] using h)

theorem touches_lazyOps (ss : List Path) : ∀ op ∈ lazyOps ss, touches op = [] := by
  intro op h
  match ss, h with
  | [], h => simp [lazyOps] at h
  | [_], h => simp [lazyOps] at h
  | s :: s2 :: rest, h =>
    simp only [lazyOps, List.mem_append, List.mem_flatMap] at h
    rcases h with h | ⟨q, _, h | h⟩
    · exact touches_cl _ _ h
    · exact touches_rOpen _ _ h
    · exact touches_cl _ _ h

theorem touches_closeOps (t : Task) (ss : List Path) : ∀ op ∈ closeOps t ss, touches op = [] := by
  intro op h
  simp only [closeOps, List.mem_append] at h
  rcases h with h | h
  · split at h
    · exact touches_cl _ _ h
    · simp at h
  · exact touches_cl _ _ h

theorem touches_attrLevel (cfg : Cfg) (b : Bool) (p : Path) : ∀ op ∈ attrLevel cfg b p, touches op = [] := by
  intro op h
  simp only [attrLevel, List.mem_append] at h
  rcases h with (h | h) | h <;>
    (split at h
     · simp only [List.mem_cons, List.not_mem_nil, or_false] at h; subst h; rfl
     · simp at h)

theorem touches_attrOps (cfg : Cfg) (t : Task) (ss : List Path) (fsP : Fs) :
    ∀ op ∈ attrOps cfg t ss fsP, touches op = [] := by
  intro op h
  unfold attrOps at h
  split at h
  · simp at h
  split at h
  · simp at h
  split at h
  · simp at h
  split at h
  · split at h
    · simp at h
    · simp only [List.mem_flatMap] at h
      obtain ⟨q, _, hq⟩ := h
      exact touches_attrLevel _ _ _ _ hq
  · exact touches_attrLevel _ _ _ _ h

/-- every op of the middle segment touches at most the destination -/
theorem touches_midOps (w : Writes) (t : Task) (fs : Fs) :
    ∀ op ∈ midOps w t fs, ∀ q ∈ touches op, q = t.dst := by
  intro op h q hq
  simp only [midOps, List.mem_append] at h
  rcases h with (((h | h) | h) | h) | h
  · rw [touches_openOps _ _ h] at hq; simp at hq
  · simp only [outOps] at h
    split at h
    · simp at h
    · simp only [List.mem_append, List.mem_cons, List.not_mem_nil, or_false] at h
      rcases h with h | h
      · rw [touches_mkdirOps _ _ _ h] at hq; simp at hq
      · subst h; simpa [touches] using hq
  · split at h
    · simp at h
    · rw [touches_lazyOps _ _ h] at hq; simp at hq
  · simp only [writeOps] at h
    split at h
    · simp at h
    · simp only [List.mem_map] at h
      obtain ⟨c, _, rfl⟩ := h
      simpa [touches] using hq
  · rw [touches_closeOps _ _ _ h] at hq; simp at hq

/-- after the middle segment the destination holds exactly what the write loop delivered -/
theorem get_dst_after_mid (w : Writes) (t : Task) (fs s : Fs) (hd : t.dst ≠ []) :
    (run (midOps w t fs) s).get t.dst = some w.chunks.flatten := by
  have hne : t.dst.isEmpty = false := by
    cases h : t.dst with
    | nil => exact absurd h hd
    | cons _ _ => rfl
  simp only [midOps, run_append]
  rw [get_run_untouched (closeOps t _) _ _ (fun op ho => by rw [touches_closeOps _ _ _ ho]; simp)]
  simp only [writeOps, hne, Bool.false_eq_true, if_false]
  have hpre : ∀ s', (run (if t.sync then [] else lazyOps (srcs1 t fs))
      (run (outOps t fs) s')).get t.dst = some [] := by
    intro s'
    rw [get_run_untouched _ _ _ (fun op ho => by
      split at ho
      · simp at ho
      · rw [touches_lazyOps _ _ ho]; simp)]
    simp only [outOps, hne, Bool.false_eq_true, if_false, run_append, run_cons, run_nil]
    exact get_openTrunc _ _
  rw [get_run_writes _ _ _ [] (hpre _)]
  simp

/-- the initial rename and the clean-up touch only `dst` and `dst.bak` -/
theorem touches_preOps (t : Task) (fs : Fs) :
    ∀ op ∈ preOps t fs, ∀ q ∈ touches op, q = t.dst ∨ q = bak t.dst := by
  intro op h q hq
  simp only [preOps] at h
  split at h
  · simp only [List.mem_cons, List.not_mem_nil, or_false] at h; subst h
    simpa [touches] using hq
  · simp at h

theorem touches_postOps (t : Task) (fs : Fs) (w : Writes) :
    ∀ op ∈ postOps t fs w, ∀ q ∈ touches op, q = t.dst ∨ q = bak t.dst := by
  intro op h q hq
  simp only [postOps] at h
  split at h
  · split at h
    · simp only [List.mem_cons, List.not_mem_nil, or_false] at h; subst h
      simp only [touches, List.mem_cons, List.not_mem_nil, or_false] at hq; exact Or.inr hq
    · split at h
      · simp at h
      · simp only [List.mem_cons, List.not_mem_nil, or_false] at h
        rcases h with h | h <;> subst h
        · simp only [touches, List.mem_cons, List.not_mem_nil, or_false] at hq; exact Or.inl hq
        · simp only [touches, List.mem_cons, List.not_mem_nil, or_false] at hq
          rcases hq with hq | hq
          · exact Or.inr hq
          · exact Or.inl hq
  · simp at h

theorem touches_tailOps (cfg : Cfg) (w : Writes) (t : Task) (fs : Fs) :
    ∀ op ∈ tailOps cfg w t fs, ∀ q ∈ touches op, q = t.dst ∨ q = bak t.dst := by
  intro op h q hq
  simp only [tailOps] at h
  split at h
  · split at h
    · rw [touches_attrOps _ _ _ _ _ h] at hq; simp at hq
    · simp at h
  · simp only [List.mem_append] at h
    rcases h with h | h
    · exact touches_postOps _ _ _ _ h _ hq
    · rw [touches_attrOps _ _ _ _ _ h] at hq; simp at hq

/-- **frame**: `minify(t)` can change the content or existence of `dst` and `dst.bak` only -/
theorem touches_minifyOps (cfg : Cfg) (w : Writes) (t : Task) (fs : Fs) :
    ∀ op ∈ minifyOps cfg w t fs, ∀ q ∈ touches op, q = t.dst ∨ q = bak t.dst := by
  intro op h q hq
  simp only [minifyOps] at h
  split at h
  · simp at h
  · simp only [List.mem_append] at h
    rcases h with (h | h) | h
    · exact touches_preOps _ _ _ h _ hq
    · exact Or.inl (touches_midOps _ _ _ _ h _ hq)
    · exact touches_tailOps _ _ _ _ _ h _ hq

end Verif.Proofs.CliFs

namespace Verif.Proofs.CliFs
open Verif Verif.Model.CliFs

/-! ## view-level semantics and locality (for interleavings of several tasks) -/

/-- what one op does to the *view* `path ↦ content` -/
def stepGet (g : Path → Option Bytes) (op : Op) (q : Path) : Option Bytes :=
  match op with
  | .rename a b =>
    match g a with
    | none => g q
    | some v => if q = b then some v else if q = a then none else g q
  | .openTrunc p => if q = p then some [] else g q
  | .write p c =>
    match g p with
    | none => g q
    | some v => if q = p then some (v ++ c) else g q
  | .remove p => if q = p then none else g q
  | _ => g q

theorem get_step (fs : Fs) (op : Op) (q : Path) : (step fs op).get q = stepGet fs.get op q := by
  cases op with
  | rename a b =>
    simp only [stepGet]
    cases hg : fs.get a with
    | none => simp [step, hg]
    | some v =>
      simp only
      by_cases hb : q = b
      · subst hb; rw [if_pos rfl, get_rename_dst, hg]; rfl
      · rw [if_neg hb]
        by_cases ha : q = a
        · subst ha; rw [if_pos rfl]
          exact get_rename_src _ _ _ hb (by simp [hg])
        · rw [if_neg ha]
          exact get_step_untouched _ _ _ (by simp [touches, ha, hb])
  | openTrunc p =>
    simp only [stepGet]
    by_cases h : q = p
    · subst h; rw [if_pos rfl]; exact get_openTrunc _ _
    · rw [if_neg h]; exact get_step_untouched _ _ _ (by simp [touches, h])
  | write p c =>
    simp only [stepGet]
    cases hg : fs.get p with
    | none => simp [step, hg]
    | some v =>
      simp only
      by_cases h : q = p
      · subst h; rw [if_pos rfl]; exact get_write _ _ _ _ hg
      · rw [if_neg h]; exact get_step_untouched _ _ _ (by simp [touches, h])
  | remove p =>
    simp only [stepGet]
    by_cases h : q = p
    · subst h; rw [if_pos rfl]; exact get_remove _ _
    · rw [if_neg h]; exact get_step_untouched _ _ _ (by simp [touches, h])
  | close p => exact get_step_untouched _ _ _ (by simp [touches])
  | openRead p => rfl
  | mkdir d => rfl
  | chmod p => rfl
  | chown p => rfl
  | chtimes p => rfl

/-- two states show the same content on the paths of `S` -/
def AgreeOn (S : List Path) (s1 s2 : Fs) : Prop := ∀ q ∈ S, s1.get q = s2.get q

theorem AgreeOn.refl (S : List Path) (s : Fs) : AgreeOn S s s := fun _ _ => rfl

/-- **locality**: an op whose touched paths lie in `S` maps states that agree on `S` to states that agree on `S` -/
theorem step_agree (S : List Path) (s1 s2 : Fs) (op : Op) (hs : ∀ q ∈ touches op, q ∈ S)
    (h : AgreeOn S s1 s2) : AgreeOn S (step s1 op) (step s2 op) := by
  intro q hq
  rw [get_step, get_step]
  cases op with
  | rename a b =>
    have ha := h a (hs a (by simp [touches]))
    simp only [stepGet, ha, h q hq]
  | openTrunc p => simp only [stepGet, h q hq]
  | write p c =>
    have hp := h p (hs p (by simp [touches]))
    simp only [stepGet, hp, h q hq]
  | remove p => simp only [stepGet, h q hq]
  | close p => simp only [stepGet, h q hq]
  | openRead p => simp only [stepGet, h q hq]
  | mkdir d => simp only [stepGet, h q hq]
  | chmod p => simp only [stepGet, h q hq]
  | chown p => simp only [stepGet, h q hq]
  | chtimes p => simp only [stepGet, h q hq]

theorem run_agree (S : List Path) (l : List Op) (s1 s2 : Fs)
    (hs : ∀ op ∈ l, ∀ q ∈ touches op, q ∈ S) (h : AgreeOn S s1 s2) :
    AgreeOn S (run l s1) (run l s2) := by
  induction l generalizing s1 s2 with
  | nil => exact h
  | cons op r ih =>
    rw [run_cons, run_cons]
    exact ih _ _ (fun o ho => hs o (List.mem_cons_of_mem _ ho))
      (step_agree S s1 s2 op (hs op (List.mem_cons_self ..)) h)

/-- an op that touches nothing in `S` is invisible on `S` -/
theorem step_invisible (S : List Path) (s : Fs) (op : Op) (hs : ∀ q ∈ touches op, q ∉ S) :
    AgreeOn S (step s op) s := by
  intro q hq
  exact get_step_untouched _ _ _ (fun hm => hs q hm hq)

/-! ## interleavings -/

/-- **projection**: on a set `S` of paths that only task `i` touches, an interleaved run looks like a
    prefix of task `i` run alone. -/
theorem interleave_project (S : List Path) (i : Nat) (sch : List Nat) :
    ∀ (rem : List (List Op)) (s1 s2 : Fs), AgreeOn S s1 s2 →
      (∀ op ∈ rem[i]?.getD [], ∀ q ∈ touches op, q ∈ S) →
      (∀ j l, j ≠ i → rem[j]? = some l → ∀ op ∈ l, ∀ q ∈ touches op, q ∉ S) →
      ∃ k, AgreeOn S (run (interleave rem sch) s1) (run ((rem[i]?.getD []).take k) s2) := by
  induction sch with
  | nil => intro rem s1 s2 h _ _; exact ⟨0, by simpa [interleave, run] using h⟩
  | cons j rest ih =>
    intro rem s1 s2 h hi ho
    simp only [interleave]
    cases hj : rem[j]? with
    | none => exact ih rem s1 s2 h hi ho
    | some l =>
      cases l with
      | nil => exact ih rem s1 s2 h hi ho
      | cons op tl =>
        simp only
        have hjlt : j < rem.length := by
          rcases List.getElem?_eq_some_iff.mp hj with ⟨hlt, _⟩; exact hlt
        by_cases hji : j = i
        · subst hji
          have hi' : ∀ o ∈ op :: tl, ∀ q ∈ touches o, q ∈ S := by simpa [hj] using hi
          have hset : (rem.set j tl)[j]? = some tl := by simp [hjlt]
          obtain ⟨k, hk⟩ := ih (rem.set j tl) (step s1 op) (step s2 op)
            (step_agree S s1 s2 op (hi' op (List.mem_cons_self ..)) h)
            (by rw [hset]; exact fun o ho' => hi' o (List.mem_cons_of_mem _ ho'))
            (by
              intro j' l' hne hl'
              rw [List.getElem?_set_ne (Ne.symm hne)] at hl'
              exact ho j' l' hne hl')
          refine ⟨k + 1, ?_⟩
          rw [hset] at hk
          simpa [hj, List.take_succ_cons, run_cons] using hk
        · have hop : ∀ q ∈ touches op, q ∉ S := ho j _ hji hj op (List.mem_cons_self ..)
          have hseti : (rem.set j tl)[i]? = rem[i]? := List.getElem?_set_ne hji
          obtain ⟨k, hk⟩ := ih (rem.set j tl) (step s1 op) s2
            (fun q hq => (step_invisible S s1 op hop q hq).trans (h q hq))
            (by rw [hseti]; exact hi)
            (by
              intro j' l' hne hl'
              by_cases hjj : j = j'
              · subst hjj
                have : l' = tl := by simpa [hjlt] using hl'.symm
                subst this
                exact fun o ho' => ho j _ hne hj o (List.mem_cons_of_mem _ ho')
              · rw [List.getElem?_set_ne hjj] at hl'
                exact ho j' l' hne hl')
          refine ⟨k, ?_⟩
          rw [hseti] at hk
          simpa [run_cons] using hk

end Verif.Proofs.CliFs

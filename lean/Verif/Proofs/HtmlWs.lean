import Verif.Model.Html
import Verif.Spec.HtmlWs
/-!
# C03 — the whitespace state machine of html.go refines the document (helper definitions and lemmas)
-/
namespace Verif.Proofs.HtmlWs
open Verif.Model.Html Verif.Model.HtmlAttr Verif.Spec.HtmlWs

/-! ## items of ordinary text -/

/-- `p`: kind of the previous character (0 none, 1 whitespace, 2 other) -/
def textItemsAux : Nat → List Char → List Item
  | _, [] => []
  | p, c :: s =>
    if isWhitespace c then (if p = 1 then textItemsAux 1 s else .ws :: textItemsAux 1 s)
    else (if p = 2 then textItemsAux 2 s else .word :: textItemsAux 2 s)

/-- maximal whitespace runs and maximal non-whitespace runs of a text -/
def textItems (d : List Char) : List Item := textItemsAux 0 d

theorem aux_ws_head (s : List Char) :
    textItemsAux 1 s = textItemsAux 0 s ∨ .ws :: textItemsAux 1 s = textItemsAux 0 s := by
  cases s with
  | nil => left; rfl
  | cons c s =>
    simp only [textItemsAux]
    by_cases hc : isWhitespace c = true
    · right; simp [hc]
    · left; simp [hc]

/-- removing one leading whitespace character removes the leading `ws` item or nothing -/
theorem textItems_dropHead (w : Char) (s : List Char) (hw : isWhitespace w = true) :
    textItems (w :: s) = textItems s ∨ textItems (w :: s) = .ws :: textItems s := by
  simp only [textItems, textItemsAux, hw, if_true]
  rcases aux_ws_head s with h | h
  · right; simp [h]
  · left; simp [h]

theorem aux_append_ws (w : Char) (hw : isWhitespace w = true) : ∀ (s : List Char) (p : Nat),
    textItemsAux p (s ++ [w]) = textItemsAux p s ∨ textItemsAux p (s ++ [w]) = textItemsAux p s ++ [.ws] := by
  intro s
  induction s with
  | nil =>
    intro p
    simp only [List.nil_append, textItemsAux, hw, if_true]
    by_cases hp : p = 1
    · left; simp [hp]
    · right; simp [hp]
  | cons c s ih =>
    intro p
    simp only [List.cons_append, textItemsAux]
    cases hc : isWhitespace c with
    | true =>
      simp only [if_true]
      by_cases hp : p = 1
      · simp only [hp, if_true]; exact ih 1
      · simp only [hp, if_false]
        rcases ih 1 with h | h
        · left; rw [h]
        · right; rw [h]; rfl
    | false =>
      simp only [Bool.false_eq_true, if_false]
      by_cases hp : p = 2
      · simp only [hp, if_true]; exact ih 2
      · simp only [hp, if_false]
        rcases ih 2 with h | h
        · left; rw [h]
        · right; rw [h]; rfl

/-- removing one trailing whitespace character removes the trailing `ws` item or nothing -/
theorem textItems_dropLast (s : List Char) (w : Char) (hw : isWhitespace w = true) :
    textItems (s ++ [w]) = textItems s ∨ textItems (s ++ [w]) = textItems s ++ [.ws] :=
  aux_append_ws w hw s 0

theorem aux_last_ws (w : Char) (hw : isWhitespace w = true) : ∀ (s : List Char) (p : Nat),
    (textItemsAux p (s ++ [w])).getLast? = some .ws ∨ (p = 1 ∧ textItemsAux p (s ++ [w]) = []) := by
  intro s
  induction s with
  | nil =>
    intro p
    simp only [List.nil_append, textItemsAux, hw, if_true]
    by_cases hp : p = 1
    · right; simp [hp]
    · left; simp [hp]
  | cons c s ih =>
    intro p
    simp only [List.cons_append, textItemsAux]
    cases hc : isWhitespace c with
    | true =>
      simp only [if_true]
      by_cases hp : p = 1
      · simp only [hp, if_true]; rcases ih 1 with h | h
        · left; exact h
        · right; exact ⟨trivial, h.2⟩
      · simp only [hp, if_false]
        rcases ih 1 with h | h
        · left
          cases hh : textItemsAux 1 (s ++ [w]) with
          | nil => rw [hh] at h; simp at h
          | cons y ys => rw [hh] at h; simpa [List.getLast?_cons_cons] using h
        · left; simp [h.2]
    | false =>
      simp only [Bool.false_eq_true, if_false]
      by_cases hp : p = 2
      · simp only [hp, if_true]
        rcases ih 2 with h | h
        · left; exact h
        · exact absurd h.1 (by decide)
      · simp only [hp, if_false]
        rcases ih 2 with h | h
        · left
          cases hh : textItemsAux 2 (s ++ [w]) with
          | nil => rw [hh] at h; simp at h
          | cons y ys => rw [hh] at h; simpa [List.getLast?_cons_cons] using h
        · exact absurd h.1 (by decide)

/-- a text that ends in whitespace ends in a `ws` item -/
theorem textItems_last_ws (s : List Char) (w : Char) (hw : isWhitespace w = true) :
    (textItems (s ++ [w])).getLast? = some .ws := by
  rcases aux_last_ws w hw s 0 with h | h
  · exact h
  · exact absurd h.1 (by decide)

/-! ## tokens as items -/

/-- class of an element boundary according to html/table.go: object-like, block-like, else inline -/
def cls (n : List Char) (isEnd : Bool) : Item :=
  if isObject n then (if isEnd then .objE else .objS) else if isBlock n then .blk else .inl

/-- how `step` treats a text token: 0 dropped (text in select), 1 raw text, 2 inside pre, 3 ordinary -/
def textMode (st : St) (tmpl : Bool) : Nat :=
  if st.dropText && !tmpl then 0
  else if !st.rawTag.isEmpty && !tmpl then 1
  else if st.inPre then 2
  else 3

/-- the text of a `script` or `style` element is not rendered at all -/
def hiddenRaw (rawTag : List Char) : Bool := hashIs rawTag "script" || hashIs rawTag "style"

def collapsed (data : List Char) : List Char := textCollapsed data

/-- items of an input token in state `st` -/
def tokIn (st : St) : HTok → List Item
  | .text data tmpl =>
    match textMode st tmpl with
    | 0 => [.ws]                         -- guard: the dropped text is inter-element whitespace
    | 1 => if hiddenRaw st.rawTag then [] else [.raw]
    | 2 => [.raw]
    | _ => textItems (collapsed data)
  | .startTag n _ => [cls n false]
  | .endTag n _ => [cls n true]
  | .svg _ => [.objV]
  | .math _ => [.objV]
  | .template _ => [.objV]
  | .comment _ _ => []
  | .doctype => []

/-- items of what `step` wrote for the token (`out` = the bytes written) -/
def tokOut (st : St) (t : HTok) (out : List Char) : List Item :=
  match t with
  | .text _ tmpl =>
    match textMode st tmpl with
    | 0 => []
    | 1 => if hiddenRaw st.rawTag then [] else [.raw]
    | 2 => [.raw]
    | _ => textItems out
  | t => tokIn st t

/-- input items and output items of a run of the model -/
def inOut (o : Opts) (ext : Ext) (sub : Sub) : St → List HTok → List Item × List Item
  | _, [] => ([], [])
  | st, t :: rest =>
    match step o ext sub st t rest with
    | .error _ => ([], [])
    | .ok (st', out) =>
      let r := inOut o ext sub st' rest
      (tokIn st t ++ r.1, tokOut st t out ++ r.2)

/-- side conditions (see `ws_refine_partial`) at one token -/
def tokGuard (o : Opts) (st : St) (h : List Item) (t : HTok) (rest : List HTok) (nextIn : List Item) : Bool :=
  if st.dropEnd then (match t with | .endTag n _ => !isObject n | _ => false) else
  match t with
  | .text data tmpl =>
    !tmpl &&
    (if textMode st tmpl = 0 then isAllWhitespace data && (leftOK h || rightOK nextIn)
     else if textMode st tmpl = 3 then !(collapsed data).isEmpty
     else if textMode st tmpl = 1 then hiddenRaw st.rawTag || !st.omitSpace
     else true)
  | _ => true

def guard (o : Opts) (ext : Ext) (sub : Sub) : St → List Item → List HTok → Bool
  | _, _, [] => true
  | st, h, t :: rest =>
    match step o ext sub st t rest with
    | .error _ => true
    | .ok (st', out) =>
      tokGuard o st h t rest (inOut o ext sub st' rest).1 &&
      guard o ext sub st' ((tokOut st t out).reverse ++ h) rest

/-- invariant: when the pending-space flag is set (outside `pre`), whitespace is deletable on its left -/
def Inv (st : St) (h : List Item) : Prop := st.omitSpace = true → st.inPre = false → leftOK h = true

/-! ## `Refine` helpers -/

theorem refine_keep_list (L : List Item) : ∀ (h A B : List Item),
    Refine (L.reverse ++ h) A B → Refine h (L ++ A) (L ++ B) := by
  induction L with
  | nil => intro h A B r; simpa using r
  | cons x L ih =>
    intro h A B r
    simp only [List.cons_append]
    apply Refine.keep
    apply ih
    simpa using r

theorem refine_drop_last (L : List Item) : ∀ (h A B : List Item), rightOK A = true →
    Refine (L.reverse ++ h) A B → Refine h (L ++ .ws :: A) (L ++ B) := by
  induction L with
  | nil => intro h A B hr r; exact Refine.dropR _ _ _ hr (by simpa using r)
  | cons x L ih =>
    intro h A B hr r
    simp only [List.cons_append]
    apply Refine.keep
    apply ih _ _ _ hr
    simpa using r

/-- a text token: the output items `O` are the input items `I` minus, possibly, a leading and a trailing `ws` -/
theorem refine_text (h I O A B : List Item)
    (rel : I = O ∨ (I = .ws :: O ∧ leftOK h = true) ∨ (I = O ++ [.ws] ∧ rightOK A = true) ∨
      (I = .ws :: O ++ [.ws] ∧ leftOK h = true ∧ rightOK A = true))
    (r : Refine (O.reverse ++ h) A B) : Refine h (I ++ A) (O ++ B) := by
  rcases rel with rfl | ⟨rfl, hl⟩ | ⟨rfl, hr⟩ | ⟨rfl, hl, hr⟩
  · exact refine_keep_list _ _ _ _ r
  · exact Refine.dropL _ _ _ hl (refine_keep_list _ _ _ _ r)
  · have := refine_drop_last O h A B hr r
    simpa using this
  · apply Refine.dropL _ _ _ hl
    have := refine_drop_last O h A B hr r
    simpa using this

/-! ## facts about the regenerated trait tables -/

theorem lookup_mem' {β : Type} (l : List (List Char × β)) (k : List Char) (v : β)
    (h : l.lookup k = some v) : (k, v) ∈ l := by
  induction l with
  | nil => simp [List.lookup] at h
  | cons a l ih =>
    obtain ⟨ka, va⟩ := a
    simp only [List.lookup] at h
    split at h
    · next hk =>
      have : k = ka := by simpa using hk
      simp at h; subst h; subst this; simp
    · exact List.mem_cons_of_mem _ (ih h)

/-- no tag of `tagMap` is both object-like and block-like -/
theorem not_obj_and_blk_table :
    Verif.Gen.C03Tables.tagMap.all (fun e => !(has e.2 Verif.Gen.C03Tables.objectTag && has e.2 Verif.Gen.C03Tables.blockTag)) = true := by
  decide +kernel

theorem not_obj_and_blk (n : List Char) : ¬ (isObject n = true ∧ isBlock n = true) := by
  intro ⟨h1, h2⟩
  unfold isObject tagTraits at h1
  unfold isBlock tagTraits at h2
  cases hl : Verif.Gen.C03Tables.tagMap.lookup n with
  | none => simp [hl, has] at h1
  | some tr =>
    simp only [hl, Option.getD_some] at h1 h2
    have := List.all_eq_true.mp not_obj_and_blk_table _ (lookup_mem' _ _ _ hl)
    simp [h1, h2] at this

theorem cls_block (n : List Char) (b : Bool) (h : isBlock n = true) : cls n b = .blk := by
  have : isObject n = false := by
    cases ho : isObject n with
    | false => rfl
    | true => exact absurd ⟨ho, h⟩ (not_obj_and_blk n)
  simp [cls, this, h]

theorem name_facts :
    isObject "html".toList = false ∧ isObject "head".toList = false ∧ isObject "body".toList = false ∧
    isObject "colgroup".toList = false ∧ isBlock "pre".toList = true ∧
    isObject "script".toList = false ∧ isObject "style".toList = false := by
  decide +kernel

theorem hashIs_eq {n : List Char} {x : String} (h : hashIs n x = true) : n = x.toList := by
  simpa [hashIs, s] using h

theorem dropped_not_obj (o : Opts) (n : List Char) (h : isDroppedTag o n = true) : isObject n = false := by
  have t := name_facts
  simp only [isDroppedTag, Bool.or_eq_true, Bool.and_eq_true] at h
  rcases h with ⟨_, (h | h) | h⟩ | h
  · rw [hashIs_eq h]; exact t.1
  · rw [hashIs_eq h]; exact t.2.1
  · rw [hashIs_eq h]; exact t.2.2.1
  · rw [hashIs_eq h]; exact t.2.2.2.1

/-- the left context is still fine after an element boundary that is not object-like, if it was before or the
    boundary is a block boundary -/
theorem leftOK_cls (n : List Char) (b : Bool) (h : List Item) (hno : isObject n = false)
    (hl : isBlock n = false → leftOK h = true) : leftOK (cls n b :: h) = true := by
  unfold cls
  simp only [hno, Bool.false_eq_true, if_false]
  cases hb : isBlock n with
  | true => simp [leftOK]
  | false => simp [leftOK, hl hb]

/-! ## what `step` does -/

theorem step_dropEnd (o : Opts) (ext : Ext) (sub : Sub) (st : St) (t : HTok) (rest : List HTok)
    (h : st.dropEnd = true) : step o ext sub st t rest = .ok ({ st with dropEnd := false }, []) := by
  unfold step; simp [h]

theorem step_end (o : Opts) (ext : Ext) (sub : Sub) (st : St) (n d : List Char) (rest : List HTok)
    (h : st.dropEnd = false) :
    step o ext sub st (.endTag n d) rest = .ok (endStep o { st with dropText := false, afterPre := 0 } n d rest) := by
  unfold step; simp [h]

theorem step_text_mode (o : Opts) (ext : Ext) (sub : Sub) (st : St) (data : List Char) (tmpl : Bool)
    (rest : List HTok) (h : st.dropEnd = false) :
    ∃ st' out, step o ext sub st (.text data tmpl) rest = .ok (st', out) ∧
      st'.inPre = st.inPre ∧ st'.rawTag = st.rawTag ∧ st'.dropEnd = false ∧ st'.dropText = false ∧
      (textMode st tmpl ≠ 3 → st'.omitSpace = st.omitSpace) ∧
      (textMode st tmpl = 3 →
        st'.omitSpace = (textNormal o.keepWhitespace st.omitSpace data rest).1 ∧
        out = (textNormal o.keepWhitespace st.omitSpace data rest).2) := by
  unfold step
  simp only [h, Bool.false_eq_true, if_false]
  unfold textMode
  by_cases h1 : (st.dropText && !tmpl) = true
  · simp only [h1, if_true]
    exact ⟨_, _, rfl, by simp_all, rfl, rfl, rfl, fun _ => rfl, fun hh => absurd hh (by decide)⟩
  · by_cases h2 : (!st.rawTag.isEmpty && !tmpl) = true
    · simp only [h1, h2, if_true, Bool.false_eq_true, if_false]
      split
      · exact ⟨_, _, rfl, by simp_all, rfl, rfl, rfl, fun _ => rfl, fun hh => absurd hh (by decide)⟩
      · exact ⟨_, _, rfl, by simp_all, rfl, rfl, rfl, fun _ => rfl, fun hh => absurd hh (by decide)⟩
    · by_cases h3 : st.inPre = true
      · simp only [h1, h2, h3, if_true, Bool.false_eq_true, if_false]
        exact ⟨_, _, rfl, by simp_all, rfl, rfl, rfl, fun _ => rfl, fun hh => absurd hh (by decide)⟩
      · simp only [h1, h2, h3, Bool.false_eq_true, if_false]
        exact ⟨_, _, rfl, by simp_all, rfl, rfl, rfl, fun hh => absurd rfl hh, fun _ => ⟨rfl, rfl⟩⟩

theorem step_start (o : Opts) (ext : Ext) (sub : Sub) (st st' : St) (n : List Char) (a : List Attr)
    (rest : List HTok) (out : List Char) (h : st.dropEnd = false)
    (hs : step o ext sub st (.startTag n a) rest = .ok (st', out)) :
    (emptyRawElement n a rest = true ∧ st' = { st with dropText := false, afterPre := 0, rawTag := [], dropEnd := true }) ∨
    (emptyRawElement n a rest = false ∧ isDroppedTag o n = true ∧ st' = startPre { st with dropText := false, afterPre := 0 } n a) ∨
    (emptyRawElement n a rest = false ∧ ∃ mt, st' = startPost o (startPre { st with dropText := false, afterPre := 0 } n a) n rest mt) := by
  unfold step at hs
  simp only [h, Bool.false_eq_true, if_false] at hs
  cases he : emptyRawElement n a rest with
  | true =>
    simp only [he, if_true, Except.ok.injEq, Prod.mk.injEq] at hs
    left; exact ⟨rfl, hs.1.symm⟩
  | false =>
    simp only [he, Bool.false_eq_true, if_false] at hs
    right
    split at hs
    · next hd =>
      simp only [Except.ok.injEq, Prod.mk.injEq] at hs
      simp only [Bool.and_eq_true] at hd
      left; refine ⟨rfl, hd.2, ?_⟩; rw [← hs.1]; simp only [h]
    · right
      refine ⟨rfl, ?_⟩
      simp only [bind, Except.bind] at hs
      split at hs
      · simp at hs
      · split at hs
        · simp at hs
        · next v hv =>
          simp only [Except.ok.injEq, Prod.mk.injEq] at hs
          refine ⟨v.2, ?_⟩; rw [← hs.1]; simp only [h]

/-! ## the invariant is preserved -/

theorem inv_end (o : Opts) (st : St) (h : List Item) (n d : List Char) (rest : List HTok)
    (hinv : Inv st h) (hde : st.dropEnd = false) :
    Inv (endStep o { st with dropText := false, afterPre := 0 } n d rest).1 (cls n true :: h) ∧
    (endStep o { st with dropText := false, afterPre := 0 } n d rest).1.dropEnd = false := by
  have hpre := name_facts.2.2.2.2.1
  -- common end: the boundary is not object-like; if it is not a block boundary the old context is needed
  have key : ∀ (st3 : St), isObject n = false → (isBlock n = false → st3.omitSpace = true → st3.inPre = false →
      st.omitSpace = true ∧ st.inPre = false) →
      (st3.omitSpace = true → st3.inPre = false → leftOK (cls n true :: h) = true) := by
    intro st3 hno hk h1 h2
    apply leftOK_cls n true h hno
    intro hb
    have := hk hb h1 h2
    exact hinv this.1 this.2
  unfold endStep
  simp only
  by_cases hd : (isDroppedTag o n && !(o.keepEndTags && isDroppedTag o n && st.docOpen.contains n)) = true
  · simp only [hd, if_true]
    refine ⟨?_, by split <;> simp [hde]⟩
    apply key _ (dropped_not_obj o n (by simp only [Bool.and_eq_true] at hd; exact hd.1))
    intro hb h1 h2
    by_cases hp : hashIs n "pre" = true
    · rw [hashIs_eq hp, hpre] at hb; exact absurd hb (by decide)
    · simp only [hp, Bool.false_eq_true, if_false] at h1 h2
      exact ⟨h1, h2⟩
  · simp only [hd, Bool.false_eq_true, if_false]
    by_cases ho : omitEndTag o n rest = true
    · simp only [ho, if_true]
      refine ⟨?_, by split <;> simp [hde]⟩
      cases hob : isObject n with
      | true => intro h1; simp at h1
      | false =>
        apply key _ hob
        intro hb h1 h2
        by_cases hp : hashIs n "pre" = true
        · rw [hashIs_eq hp, hpre] at hb; exact absurd hb (by decide)
        · simp only [hp, Bool.false_eq_true, if_false] at h1 h2
          exact ⟨h1, h2⟩
    · simp only [ho, Bool.false_eq_true, if_false]
      refine ⟨?_, by split <;> simp [hde]⟩
      by_cases hk : (o.keepWhitespace || isObject n) = true
      · intro h1; simp [updOmitSpace, hk] at h1
      · have hno : isObject n = false := by
          simp only [Bool.or_eq_true, not_or, Bool.not_eq_true] at hk; exact hk.2
        apply key _ hno
        intro hb h1 h2
        simp only [updOmitSpace, hk, Bool.false_eq_true, if_false, hb] at h1
        by_cases hp : hashIs n "pre" = true
        · rw [hashIs_eq hp, hpre] at hb; exact absurd hb (by decide)
        · simp only [hp, Bool.false_eq_true, if_false] at h1 h2
          exact ⟨h1, h2⟩

theorem startPre_proj (st0 : St) (n : List Char) (a : List Attr) :
    (startPre st0 n a).omitSpace = st0.omitSpace ∧ (startPre st0 n a).dropEnd = st0.dropEnd ∧
    (startPre st0 n a).inPre = (if hashIs n "pre" then true else st0.inPre) := by
  unfold startPre
  simp only
  split <;> simp

theorem startPost_proj (o : Opts) (st3 : St) (n : List Char) (rest : List HTok) (mt : Option (List Char)) :
    (startPost o st3 n rest mt).inPre = st3.inPre ∧ (startPost o st3 n rest mt).dropEnd = st3.dropEnd ∧
    ((startPost o st3 n rest mt).omitSpace = true → updOmitSpace o n st3.omitSpace = true) := by
  unfold startPost
  simp only
  cases mt <;> (simp only []; split <;> (try split) <;> simp)

theorem emptyRaw_not_obj (n : List Char) (a : List Attr) (rest : List HTok)
    (h : emptyRawElement n a rest = true) : isObject n = false := by
  have t := name_facts
  simp only [emptyRawElement, Bool.and_eq_true, Bool.or_eq_true] at h
  rcases h.1.2 with h | h
  · rw [hashIs_eq h]; exact t.2.2.2.2.2.1
  · rw [hashIs_eq h]; exact t.2.2.2.2.2.2

theorem inv_start (o : Opts) (ext : Ext) (sub : Sub) (st st' : St) (h : List Item) (n : List Char)
    (a : List Attr) (rest : List HTok) (out : List Char) (hinv : Inv st h) (hde : st.dropEnd = false)
    (hs : step o ext sub st (.startTag n a) rest = .ok (st', out)) :
    Inv st' (cls n false :: h) := by
  have hpre := name_facts.2.2.2.2.1
  have key : ∀ (st3 : St), st3.omitSpace = st.omitSpace → st3.inPre = (if hashIs n "pre" then true else st.inPre) →
      isObject n = false → (st3.omitSpace = true → st3.inPre = false → leftOK (cls n false :: h) = true) := by
    intro st3 e1 e2 hno h1 h2
    apply leftOK_cls n false h hno
    intro hb
    by_cases hp : hashIs n "pre" = true
    · rw [hashIs_eq hp, hpre] at hb; exact absurd hb (by decide)
    · simp only [hp, Bool.false_eq_true, if_false] at e2
      exact hinv (e1 ▸ h1) (e2 ▸ h2)
  rcases step_start o ext sub st st' n a rest out hde hs with ⟨he, rfl⟩ | ⟨_, hd, rfl⟩ | ⟨_, mt, rfl⟩
  · intro h1 h2
    apply leftOK_cls n false h (emptyRaw_not_obj n a rest he)
    intro _
    exact hinv h1 h2
  · have p := startPre_proj { st with dropText := false, afterPre := 0 } n a
    exact key _ p.1 p.2.2 (dropped_not_obj o n hd)
  · have p := startPre_proj { st with dropText := false, afterPre := 0 } n a
    have q := startPost_proj o (startPre { st with dropText := false, afterPre := 0 } n a) n rest mt
    intro h1 h2
    have hu := q.2.2 h1
    rw [p.1] at hu
    simp only [updOmitSpace] at hu
    by_cases hk : (o.keepWhitespace || isObject n) = true
    · simp [hk] at hu
    · simp only [hk, Bool.false_eq_true, if_false] at hu
      have hno : isObject n = false := by
        simp only [Bool.or_eq_true, not_or, Bool.not_eq_true] at hk; exact hk.2
      apply leftOK_cls n false h hno
      intro hb
      simp only [hb, Bool.false_eq_true, if_false] at hu
      by_cases hp : hashIs n "pre" = true
      · rw [hashIs_eq hp, hpre] at hb; exact absurd hb (by decide)
      · rw [q.1, p.2.2] at h2
        simp only [hp, Bool.false_eq_true, if_false] at h2
        exact hinv hu h2

theorem endStep_proj (o : Opts) (st0 : St) (n d : List Char) (rest : List HTok) :
    (endStep o st0 n d rest).1.rawTag = [] ∧ (endStep o st0 n d rest).1.dropEnd = st0.dropEnd ∧
    (st0.inPre = false → (endStep o st0 n d rest).1.inPre = false) := by
  unfold endStep
  simp only
  refine ⟨?_, ?_, ?_⟩ <;> (repeat' split) <;> simp_all

/-! ## whitespace-only text collapses to (at most) one `ws` item -/

theorem replWsEnt_allws (em : EntMap) (rev : RevMap) : ∀ (sx : List Char), sx.all isWhitespace = true →
    replWsEnt em rev 0 true sx = [] := by
  intro sx
  induction sx with
  | nil => intro _; rfl
  | cons c sx ih =>
    intro h
    simp only [List.all_cons, Bool.and_eq_true] at h
    simp only [replWsEnt, h.1, if_true]
    exact ih h.2

theorem hasGlue_allws : ∀ (d : List Char) (b : Bool), d.all isWhitespace = true → hasGlueFrom b d = false := by
  intro d
  induction d with
  | nil => intro b _; rfl
  | cons c r ih =>
    intro b h
    simp only [List.all_cons, Bool.and_eq_true] at h
    have hc : c ≠ '&' := by intro e; subst e; exact absurd h.1 (by decide)
    simp only [hasGlueFrom, hc, if_false]
    exact ih _ h.2

theorem ltAmp_allws : ∀ (d : List Char), d.all isWhitespace = true → bytesContain ['<', '&'] d = false := by
  intro d
  induction d with
  | nil => intro _; rfl
  | cons c r ih =>
    intro h
    simp only [List.all_cons, Bool.and_eq_true] at h
    have hc : c ≠ '<' := by intro e; subst e; exact absurd h.1 (by decide)
    simp only [bytesContain, List.isPrefixOf, Bool.or_eq_false_iff, Bool.and_eq_false_iff, beq_eq_false_iff_ne]
    exact ⟨Or.inl (Ne.symm hc), ih h.2⟩

theorem collapsed_allws (d : List Char) (h : isAllWhitespace d = true) :
    textItems (collapsed d) = [] ∨ textItems (collapsed d) = [.ws] := by
  cases d with
  | nil => left; rfl
  | cons c sx =>
    right
    have hg : hasReferenceGlue (c :: sx) = false := hasGlue_allws _ false h
    have hl : bytesContain ['<', '&'] (c :: sx) = false := ltAmp_allws _ h
    simp only [isAllWhitespace, List.all_cons, Bool.and_eq_true] at h
    simp only [collapsed, textCollapsed, hg, hl, Bool.or_self, Bool.false_eq_true, if_false, replaceWsEntities, replWsEnt, h.1, if_true]
    rw [replWsEnt_allws _ _ sx h.2]
    split <;> rfl

/-! ## the look-ahead of the text branch only fires where whitespace is deletable on its right -/

theorem trimRight_rightOK (o : Opts) (ext : Ext) (sub : Sub) : ∀ (rest : List HTok) (st : St),
    st.inPre = false → st.rawTag = [] → st.dropEnd = false → trimRight o.keepWhitespace rest = true →
    rightOK (inOut o ext sub st rest).1 = true := by
  intro rest
  induction rest with
  | nil => intro st _ _ _ _; rfl
  | cons t r ih =>
    intro st hp hr hd ht
    unfold inOut
    cases hs : step o ext sub st t r with
    | error e => rfl
    | ok v =>
      obtain ⟨st', out⟩ := v
      simp only
      cases t with
      | text d tmpl =>
        simp only [trimRight] at ht
        split at ht
        · next haw =>
          obtain ⟨st2, out2, hs2, h1, h2, h3, _, _, _⟩ := step_text_mode o ext sub st d tmpl r hd
          rw [hs2] at hs
          simp only [Except.ok.injEq, Prod.mk.injEq] at hs
          obtain ⟨rfl, rfl⟩ := hs
          have hrec := ih st2 (h1.trans hp) (h2.trans hr) h3 ht
          simp only [tokIn]
          have hm : textMode st tmpl = 0 ∨ textMode st tmpl = 3 := by
            unfold textMode
            simp only [hr, List.isEmpty_nil, Bool.not_true, Bool.false_and, Bool.false_eq_true, if_false, hp]
            split <;> simp
          rcases hm with hm | hm
          · simp only [hm]; simpa [rightOK] using hrec
          · simp only [hm]
            rcases collapsed_allws d haw with e | e
            · rw [e]; simpa using hrec
            · rw [e]; simpa [rightOK] using hrec
        · simp at ht
      | startTag n a =>
        simp only [trimRight, Bool.and_eq_true] at ht
        simp only [tokIn, cls_block n false ht.2]
        rfl
      | endTag n d =>
        simp only [trimRight] at ht
        split at ht
        · simp at ht
        · split at ht
          · simp at ht
          · split at ht
            · next hb => simp only [tokIn, cls_block n true hb]; rfl
            · next hb =>
              rw [step_end o ext sub st n d r hd] at hs
              simp only [Except.ok.injEq] at hs
              have p := endStep_proj o { st with dropText := false, afterPre := 0 } n d r
              rw [hs] at p
              have hrec := ih st' (p.2.2 hp) p.1 (p.2.1.trans hd) ht
              simp only [tokIn, cls]
              split
              · rfl
              · simp only [hb, Bool.false_eq_true, if_false, List.singleton_append, rightOK]; exact hrec
      | comment d tx =>
        simp only [trimRight] at ht
        unfold step at hs
        simp only [hd, Bool.false_eq_true, if_false, bind, Except.bind] at hs
        split at hs
        · simp at hs
        · simp only [Except.ok.injEq, Prod.mk.injEq] at hs
          have hrec := ih st' (by rw [← hs.1]; exact hp) (by rw [← hs.1]; exact hr) (by rw [← hs.1]) ht
          simpa [tokIn] using hrec
      | doctype =>
        simp only [trimRight] at ht
        unfold step at hs
        simp only [hd, Bool.false_eq_true, if_false, Except.ok.injEq, Prod.mk.injEq] at hs
        have hrec := ih st' (by rw [← hs.1]; exact hp) (by rw [← hs.1]; exact hr) (by rw [← hs.1]) ht
        simpa [tokIn] using hrec
      | svg d => simp [trimRight] at ht
      | math d => simp [trimRight] at ht
      | template d => simp [trimRight] at ht

/-! ## the ordinary text branch -/

theorem dropLast_append_last {α} : ∀ (l : List α) (a : α), l.getLast? = some a → l.dropLast ++ [a] = l := by
  intro l
  induction l with
  | nil => intro a h; simp at h
  | cons x l ih =>
    intro a h
    cases l with
    | nil => simp at h; simp [h]
    | cons y l =>
      rw [List.getLast?_cons_cons] at h
      simp only [List.dropLast_cons_cons, List.cons_append]
      rw [ih a h]

theorem leftOK_of_last_ws (L h : List Item) (hl : L.getLast? = some .ws) : leftOK (L.reverse ++ h) = true := by
  have : L = L.dropLast ++ [.ws] := (dropLast_append_last _ _ hl).symm
  rw [this]; simp [leftOK]

theorem headIs_ws {d : List Char} (h : headIs isWhitespace d = true) :
    ∃ w sx, d = w :: sx ∧ isWhitespace w = true := by
  cases d with
  | nil => simp [headIs] at h
  | cons w sx => exact ⟨w, sx, rfl, by simpa [headIs] using h⟩

theorem textNormal_spec (kw om : Bool) (data : List Char) (rest : List HTok) (h A : List Item)
    (hne : collapsed data ≠ []) (hl : om = true → leftOK h = true)
    (hr : trimRight kw rest = true → rightOK A = true) :
    (textItems (collapsed data) = textItems (textNormal kw om data rest).2 ∨
     (textItems (collapsed data) = .ws :: textItems (textNormal kw om data rest).2 ∧ leftOK h = true) ∨
     (textItems (collapsed data) = textItems (textNormal kw om data rest).2 ++ [.ws] ∧ rightOK A = true) ∨
     (textItems (collapsed data) = .ws :: textItems (textNormal kw om data rest).2 ++ [.ws] ∧
        leftOK h = true ∧ rightOK A = true)) ∧
    ((textNormal kw om data rest).1 = true →
      leftOK ((textItems (textNormal kw om data rest).2).reverse ++ h) = true) := by
  -- first the left trim
  have hd1 : ∃ d1, (textNormal kw om data rest) =
      (match d1.getLast? with
       | none => (true, [])
       | some l => if isWhitespace l then (if trimRight kw rest then (false, d1.dropLast) else (true, d1)) else (false, d1)) ∧
      (textItems (collapsed data) = textItems d1 ∨ (textItems (collapsed data) = .ws :: textItems d1 ∧ leftOK h = true)) ∧
      (d1 = [] → leftOK h = true) := by
    unfold textNormal
    show ∃ d1, (match (if (om && headIs isWhitespace (collapsed data)) = true then (collapsed data).drop 1
          else collapsed data).getLast? with
        | none => (true, [])
        | some l => if isWhitespace l = true then
            (if trimRight kw rest = true then (false, (if (om && headIs isWhitespace (collapsed data)) = true then (collapsed data).drop 1
              else collapsed data).dropLast)
             else (true, (if (om && headIs isWhitespace (collapsed data)) = true then (collapsed data).drop 1 else collapsed data)))
          else (false, (if (om && headIs isWhitespace (collapsed data)) = true then (collapsed data).drop 1 else collapsed data))) = _ ∧ _
    by_cases hc : (om && headIs isWhitespace (collapsed data)) = true
    · simp only [hc, if_true]
      simp only [Bool.and_eq_true] at hc
      obtain ⟨w, sx, hd, hw⟩ := headIs_ws hc.2
      refine ⟨(collapsed data).drop 1, rfl, ?_, fun _ => hl hc.1⟩
      rw [hd]
      rcases textItems_dropHead w sx hw with e | e
      · left; simpa using e
      · right; exact ⟨by simpa using e, hl hc.1⟩
    · simp only [hc, Bool.false_eq_true, if_false]
      exact ⟨collapsed data, rfl, Or.inl rfl, fun e => absurd e hne⟩
  obtain ⟨d1, heq, hI, hemp⟩ := hd1
  rw [heq]
  cases hgl : d1.getLast? with
  | none =>
    have : d1 = [] := by simpa using hgl
    subst this
    simp only
    refine ⟨?_, fun _ => by simpa [textItems, textItemsAux] using hemp rfl⟩
    rcases hI with e | ⟨e, hh⟩
    · left; exact e
    · right; left; exact ⟨e, hh⟩
  | some l =>
    have hsplit : d1 = d1.dropLast ++ [l] := (dropLast_append_last _ _ hgl).symm
    simp only
    cases hlw : isWhitespace l with
    | false =>
      simp only [Bool.false_eq_true, if_false]
      refine ⟨?_, fun hh => absurd hh (by decide)⟩
      rcases hI with e | ⟨e, hh⟩
      · left; exact e
      · right; left; exact ⟨e, hh⟩
    | true =>
      simp only [if_true]
      by_cases htr : trimRight kw rest = true
      · simp only [htr, if_true]
        refine ⟨?_, fun hh => absurd hh (by decide)⟩
        have hR := hr htr
        have hT : textItems d1 = textItems d1.dropLast ∨ textItems d1 = textItems d1.dropLast ++ [.ws] := by
          conv => lhs; lhs; rw [hsplit]
          conv => rhs; lhs; rw [hsplit]
          exact textItems_dropLast d1.dropLast l hlw
        rcases hI with e | ⟨e, hh⟩ <;> rcases hT with t | t
        · left; rw [e, t]
        · right; right; left; exact ⟨by rw [e, t], hR⟩
        · right; left; exact ⟨by rw [e, t], hh⟩
        · right; right; right; exact ⟨by rw [e, t]; simp, hh, hR⟩
      · simp only [htr, Bool.false_eq_true, if_false]
        refine ⟨?_, fun _ => ?_⟩
        · rcases hI with e | ⟨e, hh⟩
          · left; exact e
          · right; left; exact ⟨e, hh⟩
        · apply leftOK_of_last_ws
          rw [hsplit]; exact textItems_last_ws _ l hlw

/-! ## the whole run -/

theorem textMode3' {st : St} (h : textMode st false = 3) :
    st.dropText = false ∧ st.rawTag = [] ∧ st.inPre = false := by
  unfold textMode at h
  simp only [Bool.not_false, Bool.and_true] at h
  split at h
  · simp at h
  · split at h
    · simp at h
    · split at h
      · simp at h
      · next a b c =>
        refine ⟨by simpa using a, ?_, by simpa using c⟩
        cases hr : st.rawTag with
        | nil => rfl
        | cons x xs => simp [hr] at b

theorem textMode_range (st : St) (tmpl : Bool) : textMode st tmpl ≤ 3 := by
  unfold textMode
  split
  · omega
  · split
    · omega
    · split <;> omega

theorem textMode2 {st : St} {tmpl : Bool} (h : textMode st tmpl = 2) : st.inPre = true := by
  unfold textMode at h
  split at h
  · simp at h
  · split at h
    · simp at h
    · split at h
      · assumption
      · simp at h

theorem inv_same (st st' : St) (h : List Item) (hinv : Inv st h)
    (e1 : st'.omitSpace = st.omitSpace) (e2 : st'.inPre = st.inPre) : Inv st' h := by
  intro h1 h2; exact hinv (e1 ▸ h1) (e2 ▸ h2)

theorem ws_refine_core (o : Opts) (ext : Ext) (sub : Sub) : ∀ (toks : List HTok) (st : St) (h : List Item),
    Inv st h → guard o ext sub st h toks = true →
    Refine h (inOut o ext sub st toks).1 (inOut o ext sub st toks).2 := by
  intro toks
  induction toks with
  | nil => intro st h _ _; exact Refine.nil h
  | cons t rest ih =>
    intro st h hinv hg
    unfold inOut
    unfold guard at hg
    cases hs : step o ext sub st t rest with
    | error e => exact Refine.nil h
    | ok v =>
      obtain ⟨st', out⟩ := v
      simp only [hs, Bool.and_eq_true] at hg
      obtain ⟨htg, hgr⟩ := hg
      simp only
      -- the generic situation: the token contributes the same items on both sides
      have same : ∀ L, tokIn st t = L → tokOut st t out = L → Inv st' (L.reverse ++ h) →
          Refine h (tokIn st t ++ (inOut o ext sub st' rest).1) (tokOut st t out ++ (inOut o ext sub st' rest).2) := by
        intro L e1 e2 hi
        rw [e1, e2]
        apply refine_keep_list
        apply ih st' _ hi
        rw [← e2]; exact hgr
      unfold tokGuard at htg
      by_cases hde : st.dropEnd = true
      · -- the end tag of an empty script/style element is skipped
        simp only [hde, if_true] at htg
        rw [step_dropEnd o ext sub st t rest hde] at hs
        simp only [Except.ok.injEq, Prod.mk.injEq] at hs
        cases t with
        | endTag n d =>
          simp only [Bool.not_eq_true'] at htg
          apply same [cls n true] rfl rfl
          rw [← hs.1]
          intro h1 h2
          exact leftOK_cls n true h htg (fun _ => hinv h1 h2)
        | _ => simp at htg
      · have hde' : st.dropEnd = false := by simpa using hde
        simp only [hde', Bool.false_eq_true, if_false] at htg
        cases t with
        | endTag n d =>
          rw [step_end o ext sub st n d rest hde'] at hs
          simp only [Except.ok.injEq] at hs
          have hi := (inv_end o st h n d rest hinv hde').1
          rw [hs] at hi
          exact same [cls n true] rfl rfl hi
        | startTag n a =>
          exact same [cls n false] rfl rfl (inv_start o ext sub st st' h n a rest out hinv hde' hs)
        | svg d =>
          apply same [.objV] rfl rfl
          unfold step at hs
          simp only [hde', Bool.false_eq_true, if_false, Except.ok.injEq, Prod.mk.injEq] at hs
          rw [← hs.1]; intro h1; simp at h1
        | math d =>
          apply same [.objV] rfl rfl
          unfold step at hs
          simp only [hde', Bool.false_eq_true, if_false, Except.ok.injEq, Prod.mk.injEq] at hs
          rw [← hs.1]; intro h1; simp at h1
        | template d =>
          apply same [.objV] rfl rfl
          unfold step at hs
          simp only [hde', Bool.false_eq_true, if_false, Except.ok.injEq, Prod.mk.injEq] at hs
          rw [← hs.1]; intro h1; simp at h1
        | doctype =>
          apply same [] rfl rfl
          unfold step at hs
          simp only [hde', Bool.false_eq_true, if_false, Except.ok.injEq, Prod.mk.injEq] at hs
          rw [← hs.1]
          exact inv_same st _ h hinv rfl rfl
        | comment d tx =>
          apply same [] rfl rfl
          unfold step at hs
          simp only [hde', Bool.false_eq_true, if_false, bind, Except.bind] at hs
          split at hs
          · simp at hs
          · simp only [Except.ok.injEq, Prod.mk.injEq] at hs
            rw [← hs.1]
            exact inv_same st _ h hinv rfl rfl
        | text data tmpl =>
          obtain ⟨st2, out2, hs2, e1, e2, e3, e4, hm, hm3⟩ := step_text_mode o ext sub st data tmpl rest hde'
          rw [hs2] at hs
          simp only [Except.ok.injEq, Prod.mk.injEq] at hs
          obtain ⟨rfl, rfl⟩ := hs
          simp only [Bool.and_eq_true, Bool.not_eq_true'] at htg
          obtain ⟨htm, htg⟩ := htg
          subst htm
          by_cases h0 : textMode st false = 0
          · -- text inside select: dropped
            simp only [h0, if_true, Bool.and_eq_true, Bool.or_eq_true] at htg
            have hi : Inv st2 h := inv_same st st2 h hinv (hm (by rw [h0]; decide)) e1
            have hrec := ih st2 h hi (by simpa [tokOut, h0] using hgr)
            simp only [tokIn, tokOut, h0, List.nil_append, List.singleton_append]
            rcases htg.2 with hl | hr
            · exact Refine.dropL _ _ _ hl hrec
            · exact Refine.dropR _ _ _ hr hrec
          · by_cases h3 : textMode st false = 3
            · -- ordinary text
              rw [h3] at htg
              simp only [show (3 : Nat) ≠ 0 by decide, if_false, if_true, Bool.not_eq_true', List.isEmpty_eq_false_iff] at htg
              obtain ⟨eo, eout⟩ := hm3 h3
              have hnp := textMode3' h3
              have spec := textNormal_spec o.keepWhitespace st.omitSpace data rest h (inOut o ext sub st2 rest).1
                htg (fun ho => hinv ho hnp.2.2)
                (fun ht => trimRight_rightOK o ext sub rest st2 (e1.trans hnp.2.2) (e2.trans hnp.2.1) e3 ht)
              have hi : Inv st2 ((textItems out2).reverse ++ h) := by
                intro h1 _
                rw [eout]; apply spec.2; rw [← eo]; exact h1
              have hrec := ih st2 _ hi (by simpa [tokOut, h3] using hgr)
              simp only [tokIn, tokOut, h3]
              apply refine_text h _ _ _ _ _ hrec
              rw [eout]; exact spec.1
            · -- raw text / text in pre: untouched
              have hi : Inv st2 h := inv_same st st2 h hinv (hm h3) e1
              have hmm : textMode st false = 1 ∨ textMode st false = 2 := by
                have := textMode_range st false; omega
              rcases hmm with h1 | h2
              · by_cases hh : hiddenRaw st.rawTag = true
                · exact same [] (by simp [tokIn, h1, hh]) (by simp [tokOut, h1, hh]) hi
                · have hh' : hiddenRaw st.rawTag = false := by simpa using hh
                  rw [h1] at htg
                  simp only [show (1 : Nat) ≠ 0 by decide, show (1 : Nat) ≠ 3 by decide, if_false, if_true, hh',
                    Bool.false_or, Bool.not_eq_true'] at htg
                  apply same [.raw] (by simp [tokIn, h1, hh']) (by simp [tokOut, h1, hh'])
                  intro a _
                  rw [hm h3, htg] at a; exact absurd a (by decide)
              · apply same [.raw] (by simp [tokIn, h2]) (by simp [tokOut, h2])
                intro _ b
                have : st.inPre = true := textMode2 h2
                rw [e1, this] at b; exact absurd b (by decide)

end Verif.Proofs.HtmlWs

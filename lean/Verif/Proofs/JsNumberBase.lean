import Verif.Model.JsNumber
import Verif.Spec.JsNumberSem
/-!
# C01N — helper lemmas: lists, digits, zero stripping, digit values, `lenInt`
-/
namespace Verif.Proofs.JsNumber
open Verif.Model.JsNumber.JsNumberDec

/-! ## takeWhile / dropWhile over an append -/

theorem takeWhile_append_stop {p : Char → Bool} {a b : List Char}
    (ha : ∀ x ∈ a, p x = true) (hb : ∀ c t, b = c :: t → p c = false) :
    (a ++ b).takeWhile p = a := by
  induction a with
  | nil =>
    cases b with
    | nil => rfl
    | cons c t => simp [hb c t rfl]
  | cons x a ih =>
    have hx : p x = true := ha x (by simp)
    simp only [List.cons_append, List.takeWhile_cons, hx, if_true]
    rw [ih (fun y hy => ha y (by simp [hy]))]

theorem dropWhile_append_stop {p : Char → Bool} {a b : List Char}
    (ha : ∀ x ∈ a, p x = true) (hb : ∀ c t, b = c :: t → p c = false) :
    (a ++ b).dropWhile p = b := by
  induction a with
  | nil =>
    cases b with
    | nil => rfl
    | cons c t => simp [hb c t rfl]
  | cons x a ih =>
    have hx : p x = true := ha x (by simp)
    simp only [List.cons_append, List.dropWhile_cons, hx, if_true]
    rw [ih (fun y hy => ha y (by simp [hy]))]

theorem mem_takeWhile_imp {p : Char → Bool} {l : List Char} {b : Char} (h : b ∈ l.takeWhile p) :
    p b = true := by
  induction l with
  | nil => simp at h
  | cons x t ih =>
    rw [List.takeWhile_cons] at h
    split at h
    · rcases List.mem_cons.mp h with h | h
      · subst h; assumption
      · exact ih h
    · simp at h

/-- the list after `dropWhile p` is empty or starts with a character failing `p` -/
theorem dropWhile_head {p : Char → Bool} (l : List Char) :
    ∀ c t, l.dropWhile p = c :: t → p c = false := by
  intro c t h
  have hne : l.dropWhile p ≠ [] := by rw [h]; simp
  have := List.head_dropWhile_not p (l := l) hne
  simpa [h] using this

/-! ## digits -/

def AllDig (l : List Char) : Prop := ∀ c ∈ l, c.isDigit = true

theorem AllDig.nil : AllDig [] := by intro c h; cases h
theorem AllDig.append {a b : List Char} (ha : AllDig a) (hb : AllDig b) : AllDig (a ++ b) := by
  intro c hc
  rcases List.mem_append.mp hc with h | h
  · exact ha c h
  · exact hb c h
theorem AllDig.cons {c : Char} {l : List Char} (hc : c.isDigit = true) (hl : AllDig l) : AllDig (c :: l) := by
  intro x hx
  rcases List.mem_cons.mp hx with h | h
  · subst h; exact hc
  · exact hl x h
theorem AllDig.of_cons {c : Char} {l : List Char} (h : AllDig (c :: l)) : c.isDigit = true ∧ AllDig l :=
  ⟨h c (by simp), fun x hx => h x (by simp [hx])⟩
theorem AllDig.left {a b : List Char} (h : AllDig (a ++ b)) : AllDig a := fun c hc => h c (by simp [hc])
theorem AllDig.right {a b : List Char} (h : AllDig (a ++ b)) : AllDig b := fun c hc => h c (by simp [hc])
theorem AllDig.replicate_zero (k : Nat) : AllDig (List.replicate k '0') := by
  intro c hc; rw [List.mem_replicate] at hc; rw [hc.2]; decide
theorem AllDig.take {l : List Char} (h : AllDig l) (k : Nat) : AllDig (l.take k) :=
  fun c hc => h c (List.mem_of_mem_take hc)
theorem AllDig.drop {l : List Char} (h : AllDig l) (k : Nat) : AllDig (l.drop k) :=
  fun c hc => h c (List.mem_of_mem_drop hc)
theorem AllDig.decStr (k : Nat) : AllDig (decStr k) :=
  fun c hc => Nat.isDigit_of_mem_toDigits (by decide) (by decide) hc
theorem AllDig.reverse {l : List Char} (h : AllDig l) : AllDig l.reverse :=
  fun c hc => h c (List.mem_reverse.mp hc)

theorem isDigit_iff (c : Char) : c.isDigit = true ↔ 48 ≤ c.toNat ∧ c.toNat ≤ 57 := by
  simpa using (Char.isDigit_iff_toNat (c := c))

theorem digit_ne {c d : Char} (hc : c.isDigit = true) (hd : d.isDigit = false) : c ≠ d := by
  intro h; subst h; rw [hc] at hd; cases hd

/-! ## zero stripping -/

theorem dropZeros_zero_cons (r : List Char) : dropZeros ('0' :: r) = dropZeros r := by
  rw [dropZeros]

theorem dropZeros_of_not_zero {l : List Char} (h : ∀ r, l ≠ '0' :: r) : dropZeros l = l := by
  unfold dropZeros
  split
  · rename_i r; exact absurd rfl (h r)
  · rfl

theorem dropZeros_nil : dropZeros [] = [] := dropZeros_of_not_zero (by intro r h; cases h)

theorem dropZeros_cons_ne {c : Char} (t : List Char) (h : c ≠ '0') : dropZeros (c :: t) = c :: t :=
  dropZeros_of_not_zero (by intro r e; injection e with e1 _; exact h e1)

theorem dropZeros_replicate_append (k : Nat) (l : List Char) :
    dropZeros (List.replicate k '0' ++ l) = dropZeros l := by
  induction k with
  | zero => simp
  | succ k ih => rw [List.replicate_succ, List.cons_append, dropZeros_zero_cons, ih]

/-- `l` is some zeros followed by `dropZeros l`, which does not start with a zero -/
theorem dropZeros_spec (l : List Char) :
    l = List.replicate (l.length - (dropZeros l).length) '0' ++ dropZeros l ∧
    (dropZeros l).length ≤ l.length ∧ (∀ r, dropZeros l ≠ '0' :: r) := by
  induction l with
  | nil => rw [dropZeros_nil]; simp
  | cons c t ih =>
    by_cases hc : c = '0'
    · subst hc
      rw [dropZeros_zero_cons]
      obtain ⟨h1, h2, h3⟩ := ih
      refine ⟨?_, by simp; omega, h3⟩
      have : (('0' :: t).length - (dropZeros t).length) = (t.length - (dropZeros t).length) + 1 := by
        simp; omega
      rw [this, List.replicate_succ, List.cons_append, ← h1]
    · rw [dropZeros_cons_ne t hc]
      refine ⟨by simp, by simp, ?_⟩
      intro r e; injection e with e1 _; exact hc e1

theorem dropZeros_length_le (l : List Char) : (dropZeros l).length ≤ l.length := (dropZeros_spec l).2.1

theorem AllDig.dropZeros {l : List Char} (h : AllDig l) : AllDig (dropZeros l) := by
  have := (dropZeros_spec l).1
  rw [this] at h
  exact h.right

/-- `l` is `dropTrailZeros l` followed by zeros, and `dropTrailZeros l` does not end in a zero -/
theorem dropTrailZeros_spec (l : List Char) :
    l = dropTrailZeros l ++ List.replicate (l.length - (dropTrailZeros l).length) '0' ∧
    (dropTrailZeros l).length ≤ l.length ∧ (∀ t, dropTrailZeros l ≠ t ++ ['0']) := by
  obtain ⟨h1, h2, h3⟩ := dropZeros_spec l.reverse
  unfold dropTrailZeros
  refine ⟨?_, by simpa using h2, ?_⟩
  · have := congrArg List.reverse h1
    rw [List.reverse_reverse, List.reverse_append, List.reverse_replicate] at this
    simpa using this
  · intro t ht
    have := congrArg List.reverse ht
    rw [List.reverse_reverse] at this
    simp at this
    exact h3 _ this

theorem dropTrailZeros_length_le (l : List Char) : (dropTrailZeros l).length ≤ l.length :=
  (dropTrailZeros_spec l).2.1

theorem AllDig.dropTrailZeros {l : List Char} (h : AllDig l) : AllDig (dropTrailZeros l) := by
  have := (dropTrailZeros_spec l).1
  rw [this] at h
  exact h.left

/-! ## digit values -/

theorem natOf_nil : natOf [] = 0 := rfl

theorem natOf_append (a b : List Char) : natOf (a ++ b) = natOf a * 10 ^ b.length + natOf b := by
  unfold natOf
  rw [Nat.ofDigitChars_append, Nat.ofDigitChars_eq_ofDigitChars_zero (l := b)]
  rw [Nat.mul_comm]

theorem natOf_replicate_zero (k : Nat) : natOf (List.replicate k '0') = 0 := by
  unfold natOf; simp

theorem natOf_zeros_append (k : Nat) (l : List Char) : natOf (List.replicate k '0' ++ l) = natOf l := by
  rw [natOf_append, natOf_replicate_zero]; simp

theorem natOf_append_zeros (l : List Char) (k : Nat) : natOf (l ++ List.replicate k '0') = natOf l * 10 ^ k := by
  rw [natOf_append, natOf_replicate_zero]; simp

theorem natOf_decStr (n : Nat) : natOf (decStr n) = n := by
  unfold natOf decStr; simp

theorem natOf_dropZeros (l : List Char) : natOf (dropZeros l) = natOf l := by
  conv => rhs; rw [(dropZeros_spec l).1]
  rw [natOf_zeros_append]

theorem natOf_singleton {c : Char} : natOf [c] = c.toNat - 48 := by
  simp [natOf, Nat.ofDigitChars]

theorem rev_induction {P : List Char → Prop} (hnil : P []) (snoc : ∀ l c, P l → P (l ++ [c])) :
    ∀ l, P l := by
  have : ∀ l : List Char, P l.reverse := by
    intro l
    induction l with
    | nil => simpa using hnil
    | cons c t ih => rw [List.reverse_cons]; exact snoc _ _ ih
  intro l
  simpa using this l.reverse

theorem natOf_lt {l : List Char} (h : AllDig l) : natOf l < 10 ^ l.length := by
  induction l using rev_induction with
  | hnil => simp [natOf_nil]
  | snoc l c ih =>
    have hc := (isDigit_iff c).mp (h c (by simp))
    have hl := ih h.left
    rw [natOf_append, natOf_singleton]
    simp only [List.length_append, List.length_singleton, Nat.pow_succ, Nat.pow_zero]
    omega

/-! ## `lenInt` -/

def lenNat (k : Nat) : Nat := (Nat.toDigits 10 k).length

theorem lenInt_eq (x : Int) : lenInt x = lenNat x.natAbs := rfl
theorem decStr_length (k : Nat) : (decStr k).length = lenNat k := rfl
theorem decStr_ne_nil (k : Nat) : decStr k ≠ [] := by unfold decStr; simp

theorem lenNat_pos (k : Nat) : 1 ≤ lenNat k := Nat.length_toDigits_pos

theorem lenNat_le_iff {n k : Nat} (h : 0 < k) : lenNat n ≤ k ↔ n < 10 ^ k :=
  Nat.length_toDigits_le_iff (by decide) h

theorem lenNat_mono {a b : Nat} (h : a ≤ b) : lenNat a ≤ lenNat b := by
  have hb : b < 10 ^ lenNat b := (lenNat_le_iff (lenNat_pos b)).mp (Nat.le_refl _)
  exact (lenNat_le_iff (lenNat_pos b)).mpr (Nat.lt_of_le_of_lt h hb)

theorem lenNat_of_digits {l : List Char} (h : AllDig l) (hne : l ≠ []) : lenNat (natOf l) ≤ l.length := by
  apply (lenNat_le_iff (by cases l with | nil => exact absurd rfl hne | cons _ _ => simp)).mpr
  exact natOf_lt h

end Verif.Proofs.JsNumber

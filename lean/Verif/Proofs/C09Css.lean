import Verif.Proofs.C09CssTok
import Verif.Model.C09Css
/-!
# C09, CSS slice: the declaration writer's output re-tokenises to the tokens it was given

Model: `Verif.Model.Css.writeDeclaration` / `writeFunction` / `writeRaw` (`/repo/css/css.go`, see docs/C04.md);
specification: the independent tokeniser `Verif.Spec.C09CssTok`.
-/
namespace Verif.Proofs.C09Css
open Verif.Spec.CssValue (TT Tok)
open Verif.Spec.C09CssTok
open Verif.Proofs.C09CssTok
open Verif.Model.Css

/-! ## the token loop -/

theorem tokAux_acc : ∀ (n : Nat) (s : List Char) (acc : List Token),
    tokAux n s acc = acc.reverse ++ tokAux n s [] := by
  intro n
  induction n with
  | zero => intro s acc; simp [tokAux]
  | succ n ih =>
    intro s acc
    cases s with
    | nil => simp [tokAux]
    | cons c r =>
      simp only [tokAux]
      rw [ih _ (_ :: acc), ih _ [_]]
      simp

/-- one step of the loop when the first token is known -/
theorem tokAux_step (n : Nat) (p f : List Char) (tt : TT) (acc : List Token) (hp : p ≠ [])
    (hn : (p ++ f).length ≤ n) (h : next n (p ++ f) = (tt, p.length)) :
    tokAux n (p ++ f) acc = tokAux (n - 1) f ((tt, p) :: acc) := by
  cases n with
  | zero =>
    have : p = [] := by
      cases p with
      | nil => rfl
      | cons _ _ => simp at hn
    exact absurd this hp
  | succ n =>
    cases hpf : p ++ f with
    | nil =>
      cases p with
      | nil => exact absurd rfl hp
      | cons _ _ => simp at hpf
    | cons c r =>
      rw [hpf] at h
      simp only [tokAux, h]
      have hl : 1 ≤ p.length := by
        cases p with
        | nil => exact absurd rfl hp
        | cons _ _ => simp
      have hmax : max p.length 1 = p.length := Nat.max_eq_left hl
      rw [hmax, ← hpf]
      simp

/-- `s` in front of `k` is read as tokens whose significant part is `E`, after which the loop stands at `k` -/
def Reads (s k : List Char) (E : List Token) : Prop :=
  ∀ (n : Nat) (acc : List Token), (s ++ k).length ≤ n →
    ∃ (n' : Nat) (T : List Token), k.length ≤ n' ∧
      tokAux n (s ++ k) acc = tokAux n' k (T.reverse ++ acc) ∧ significant T = E

theorem Reads.nil (k : List Char) : Reads [] k [] := by
  intro n acc hn
  exact ⟨n, [], by simpa using hn, by simp, rfl⟩

theorem significant_append (a b : List Token) : significant (a ++ b) = significant a ++ significant b := by
  simp [significant]

theorem Reads.append {s1 s2 k : List Char} {E1 E2 : List Token}
    (h1 : Reads s1 (s2 ++ k) E1) (h2 : Reads s2 k E2) : Reads (s1 ++ s2) k (E1 ++ E2) := by
  intro n acc hn
  obtain ⟨n1, T1, hn1, e1, s1'⟩ := h1 n acc (by simpa [List.append_assoc] using hn)
  obtain ⟨n2, T2, hn2, e2, s2'⟩ := h2 n1 (T1.reverse ++ acc) hn1
  refine ⟨n2, T1 ++ T2, hn2, ?_, ?_⟩
  · rw [List.append_assoc, e1, e2]; simp
  · rw [significant_append, s1', s2']

/-- a lexeme that is read as one token in front of `k` -/
theorem Reads.tok (p k : List Char) (tt : TT) (hp : p ≠ [])
    (h : ∀ n, (p ++ k).length ≤ n → next n (p ++ k) = (tt, p.length)) :
    Reads p k (significant [(tt, p)]) := by
  intro n acc hn
  refine ⟨n - 1, [(tt, p)], ?_, ?_, rfl⟩
  · have : 1 ≤ p.length := by
      cases p with
      | nil => exact absurd rfl hp
      | cons _ _ => simp
    simp only [List.length_append] at hn; omega
  · rw [tokAux_step n p k tt acc hp hn (h n hn)]; simp

/-! ## single lexemes -/

theorem lexOk_iff {tt : TT} {p : List Char} (h : lexOk tt p = true) :
    p ≠ [] ∧ next (p.length + 1) (p ++ [' ']) = (tt, p.length) := by
  simp only [lexOk, Bool.and_eq_true, Bool.not_eq_true', beq_iff_eq] at h
  exact ⟨by intro hh; rw [hh] at h; simp at h, h.2⟩

theorem plain_of_isPlain {tt : TT} (h : isPlain tt = true) : PlainTT tt := by
  simp only [isPlain, Bool.not_eq_true', Bool.or_eq_false_iff, beq_eq_false_iff_ne, ne_eq] at h
  obtain ⟨⟨⟨⟨⟨⟨h1, h2⟩, h3⟩, h4⟩, h5⟩, h6⟩, h7⟩ := h
  exact ⟨h1, h2, h3, h4, h5, h6, h7⟩

theorem stopStr_cons {c : Char} {r : List Char} (h : stopStr (c :: r) = true) :
    UF c ∧ (c = '!' → r.head? ≠ some '-') := by
  simp only [stopStr, Bool.and_eq_true, Bool.or_eq_true, bne_iff_ne, ne_eq] at h
  refine ⟨UF_of_U h.1, ?_⟩
  intro hc
  rcases h.2 with h2 | h2
  · exact absurd hc h2
  · exact h2

/-- a plain lexeme in front of a stop string -/
theorem next_plain (tt : TT) (p f : List Char) (hl : lexOk tt p = true) (ht : isPlain tt = true)
    (hf : stopStr f = true) (n : Nat) (hn : (p ++ f).length ≤ n) : next n (p ++ f) = (tt, p.length) := by
  obtain ⟨_, h⟩ := lexOk_iff hl
  cases f with
  | nil => simp [stopStr] at hf
  | cons c r =>
    obtain ⟨hc, hb⟩ := stopStr_cons hf
    exact next_loc (p.length + 1) n p c r tt hc hb (plain_of_isPlain ht) (Nat.le_refl _)
      (by simp only [List.length_append, List.length_cons] at hn; omega) h

theorem next_string (p f : List Char) (hl : lexOk .string p = true) (n : Nat) (hn : (p ++ f).length ≤ n) :
    next n (p ++ f) = (.string, p.length) := by
  obtain ⟨_, h⟩ := lexOk_iff hl
  exact next_str_any (p.length + 1) n p f (Nat.le_refl _) (by simpa using hn) h

theorem next_function (p f : List Char) (hl : lexOk .function p = true) (hh : nameHeadOk p = true)
    (n : Nat) (hn : (p ++ f).length ≤ n) : next n (p ++ f) = (.function, p.length) := by
  obtain ⟨_, h⟩ := lexOk_iff hl
  refine next_fun_any (p.length + 1) n p f ?_ (Nat.le_refl _) (by simpa using hn) h
  simp only [nameHeadOk, Bool.or_eq_true, Bool.and_eq_true, beq_iff_eq, decide_eq_true_eq] at hh
  exact hh

theorem next_url (p f : List Char) (hl : lexOk .url p = true) (hh : isNameStart (p.headD ' ') = true)
    (n : Nat) (hn : (p ++ f).length ≤ n) : next n (p ++ f) = (.url, p.length) := by
  obtain ⟨hp, h⟩ := lexOk_iff hl
  cases p with
  | nil => exact absurd rfl hp
  | cons x p' =>
    exact next_url_any (p'.length + 1 + 1) n x p' f hh (by simp)
      (by simp only [List.length_append, List.length_cons] at hn ⊢; omega) h

theorem next_ws (f : List Char) (n : Nat) (hf : isWs (f.headD 'x') = false) : next n (' ' :: f) = (.whitespace, 1) := by
  have : wsRun f = 0 := by
    cases f with
    | nil => rfl
    | cons c r => simp only [List.headD_cons] at hf; simp [wsRun, hf]
  simp [next, isWs, this]

theorem next_comma (f : List Char) (n : Nat) : next n (',' :: f) = (.comma, 1) := by
  simp [next, isWs, isQuote]

theorem next_rparen (f : List Char) (n : Nat) : next n (')' :: f) = (.rightParen, 1) := by
  simp [next, isWs, isQuote]

theorem next_bang (f : List Char) (n : Nat) : next n ('!' :: f) = (.delim, 1) := by
  simp [next, isWs, isQuote, isDigit, isNameStart]

theorem next_slash (f : List Char) (n : Nat) (hf : f.head? ≠ some '*') : next n ('/' :: f) = (.delim, 1) := by
  have : (f.head? == some '*') = false := by simpa using hf
  simp [next, isWs, isQuote, this]

theorem next_lone (c : Char) (f : List Char) (n : Nat) (h : loneDelim c = true) : next n (c :: f) = (.delim, 1) := by
  simp only [loneDelim, Bool.not_eq_true', Bool.or_eq_false_iff] at h
  obtain ⟨⟨⟨⟨⟨⟨⟨⟨⟨⟨⟨⟨⟨⟨⟨⟨⟨⟨⟨⟨h1, h2⟩, h3⟩, h4⟩, h5⟩, h6⟩, h7⟩, h8⟩, h9⟩, h10⟩, h11⟩, h12⟩, h13⟩, h14⟩, h15⟩, h16⟩, h17⟩, h18⟩, h19⟩, h20⟩, h21⟩ := h
  simp only [next, h1, h2, h3, h4, h5, h6, h7, h8, h9, h10, h11, h12, h13, h14, h15, h16, h17, h18, h19, h20, h21,
    Bool.false_eq_true, if_false]

/-- a lexeme that is not white space does not start with white space -/
theorem head_not_ws (tt : TT) (p : List Char) (hl : lexOk tt p = true) (ht : tt ≠ .whitespace) :
    isWs (p.headD 'x') = false := by
  obtain ⟨hp, h⟩ := lexOk_iff hl
  cases p with
  | nil => exact absurd rfl hp
  | cons x p' =>
    simp only [List.headD_cons]
    cases hw : isWs x with
    | false => rfl
    | true =>
      exfalso
      simp only [List.cons_append, next, hw, if_true] at h
      exact ht (congrArg Prod.fst h).symm


/-! ## punctuation, quoted urls -/

/-- a punctuation token (or lone delimiter) is read as itself whatever follows -/
theorem next_punct (tt : TT) (data f : List Char) (n : Nat) (hl : lexOk tt data = true) (hp : punctOk tt data = true)
    (hs : tt = .comma ∨ tt = .colon ∨ tt = .semicolon ∨ tt = .leftParen ∨ tt = .rightParen ∨ tt = .leftBracket ∨
      tt = .rightBracket ∨ tt = .leftBrace ∨ tt = .rightBrace) :
    next n (data ++ f) = (tt, data.length) := by
  rcases hs with h | h | h | h | h | h | h | h | h <;> subst h <;>
    (simp only [punctOk, beq_iff_eq] at hp; subst hp; simp [next, isWs, isQuote])

theorem lexOk_string_head (s : List Char) (h : lexOk .string s = true) : isQuote (s.headD ' ') = true := by
  obtain ⟨hp, h⟩ := lexOk_iff h
  cases s with
  | nil => exact absurd rfl hp
  | cons x s' =>
    simp only [List.headD_cons]
    cases hq : isQuote x with
    | true => rfl
    | false =>
      exfalso
      cases hw : isWs x with
      | true => simp [next, hw] at h
      | false =>
        rcases next_dispatch (s'.length + 1 + 1) x (s' ++ [' ']) hw hq with hd | hd | hd
        · have := identLike_types (s'.length + 1 + 1) (x :: (s' ++ [' ']))
          rw [← hd.1] at this
          simp only [List.cons_append, List.length_cons] at h
          rw [h] at this; simp at this
        · have := numeric_types (s'.length + 1 + 1) (x :: (s' ++ [' ']))
          rw [← hd] at this
          simp only [List.cons_append, List.length_cons] at h
          rw [h] at this; simp at this
        · simp only [List.cons_append, List.length_cons] at h
          rw [h] at hd; simp [simpleTypes] at hd

/-- `url(` in front of a quote is a function token -/
theorem next_urlfun (s f : List Char) (n : Nat) (hq : isQuote (s.headD ' ') = true) (hs : s ≠ [])
    (hn : 4 ≤ n) : next n ('u' :: 'r' :: 'l' :: '(' :: (s ++ f)) = (.function, 4) := by
  obtain ⟨n', rfl⟩ : ∃ n', n = n' + 4 := ⟨n - 4, by omega⟩
  cases s with
  | nil => exact absurd rfl hs
  | cons q s' =>
    simp only [List.headD_cons] at hq
    have hw : isWs q = false := by
      simp only [isQuote, Bool.or_eq_true, beq_iff_eq] at hq
      rcases hq with h | h <;> subst h <;> decide
    have hnm : nameLen (n' + 4) ('u' :: 'r' :: 'l' :: '(' :: (q :: s' ++ f)) = 3 := by
      simp [nameLen, isName, isNameStart, isDigit, validEsc]
    rw [next_nameStart _ _ _ (by decide)]
    simp only [identLike, hnm]
    simp [isUrlName, unescape, lowerAscii, Verif.Spec.CssValue.lowerChar, urlRest, wsRun, hw, hq]

theorem quotedUrl_shape (p s : List Char) (h : quotedUrl p = some s) :
    p = 'u' :: 'r' :: 'l' :: '(' :: (s ++ [')']) := by
  simp only [quotedUrl] at h
  split at h
  · rename_i hc
    simp only [Bool.and_eq_true, beq_iff_eq, decide_eq_true_eq] at hc
    obtain ⟨⟨h1, h2⟩, h3⟩ := hc
    have hs : s = (p.drop 4).dropLast := by simpa using h.symm
    have e1 : p = p.take 4 ++ p.drop 4 := (List.take_append_drop 4 p).symm
    have hne : p.drop 4 ≠ [] := by
      intro hh
      have := congrArg List.length hh
      simp only [List.length_drop, List.length_nil] at this; omega
    have hl : (p.drop 4).getLast? = some ')' := by
      rw [List.getLast?_drop]
      simp only [h2]
      split
      · omega
      · rfl
    have e2 : p.drop 4 = (p.drop 4).dropLast ++ [')'] := by
      have h1 := (List.dropLast_concat_getLast hne).symm
      have h2 : (p.drop 4).getLast hne = ')' := by
        have := List.getLast?_eq_some_getLast hne
        rw [hl] at this
        exact (Option.some.inj this).symm
      rw [h2] at h1; exact h1
    rw [e1, h1, e2, ← hs]
    rfl
  · simp at h


/-! ## one written value -/

/-- `F` may follow the written form of `t` -/
def folOk (t : Tok) (F : List Char) : Prop :=
  (selfDelim t = true ∧ (t.tt = .delim → t.data = ['/'] → F.head? ≠ some '*')) ∨
  (t.tt = .whitespace ∧ isWs (F.headD 'x') = false) ∨
  (isPlain t.tt = true ∧ stopStr F = true)

theorem sig_one (tt : TT) (p : List Char) (h : tt ≠ .whitespace) (h2 : tt ≠ .comment) :
    significant [(tt, p)] = [(tt, p)] := by
  simp [significant, h, h2]

/-- a lexeme of a punctuation / plain / string type in front of an admissible follower -/
theorem reads_simple (tt : TT) (data F : List Char)
    (hf : tt ≠ .function) (hu : tt ≠ .url)
    (hok : tokOk (.mk tt data []) = true) (hfol : folOk (.mk tt data []) F) :
    Reads data F (significant [(tt, data)]) := by
  simp only [tokOk, beq_eq_false_iff_ne.mpr hf, beq_eq_false_iff_ne.mpr hu, Bool.false_eq_true, if_false] at hok
  by_cases hs : tt = .string
  · subst hs
    simp only [beq_self_eq_true, if_true] at hok
    obtain ⟨hp, _⟩ := lexOk_iff hok
    exact Reads.tok data F .string hp (fun n hn => next_string data F hok n hn)
  simp only [beq_eq_false_iff_ne.mpr hs, Bool.false_eq_true, if_false] at hok
  by_cases hw : tt = .whitespace
  · subst hw
    simp only [beq_self_eq_true, if_true, beq_iff_eq] at hok
    subst hok
    rcases hfol with h | h | h
    · simp [selfDelim, Tok.tt] at h
    · exact Reads.tok [' '] F .whitespace (by simp) (fun n _ => next_ws F n h.2)
    · simp [isPlain, Tok.tt] at h
  simp only [beq_eq_false_iff_ne.mpr hw, Bool.false_eq_true, if_false, Bool.and_eq_true] at hok
  obtain ⟨⟨⟨hpl, hl⟩, hpu⟩, _⟩ := hok
  obtain ⟨hp, _⟩ := lexOk_iff hl
  rcases hfol with h | h | h
  · -- self-delimited punctuation or delimiter
    obtain ⟨hsd, hsl⟩ := h
    simp only [selfDelim, Tok.tt, Tok.data, beq_eq_false_iff_ne.mpr hf, beq_eq_false_iff_ne.mpr hu,
      beq_eq_false_iff_ne.mpr hs, Bool.false_or, Bool.or_eq_true, beq_iff_eq, Bool.and_eq_true] at hsd
    have hpunct : (tt = .comma ∨ tt = .colon ∨ tt = .semicolon ∨ tt = .leftParen ∨ tt = .rightParen ∨
        tt = .leftBracket ∨ tt = .rightBracket ∨ tt = .leftBrace ∨ tt = .rightBrace) ∨
        (tt = .delim ∧ (data = ['/'] ∨ loneDelim (data.headD ' ') = true)) := by
      rcases hsd with ((((((((h | h) | h) | h) | h) | h) | h) | h) | h) | h
      · exact Or.inl (Or.inl h)
      · exact Or.inl (Or.inr (Or.inl h))
      · exact Or.inl (Or.inr (Or.inr (Or.inl h)))
      · exact Or.inl (Or.inr (Or.inr (Or.inr (Or.inl h))))
      · exact Or.inl (Or.inr (Or.inr (Or.inr (Or.inr (Or.inl h)))))
      · exact Or.inl (Or.inr (Or.inr (Or.inr (Or.inr (Or.inr (Or.inl h))))))
      · exact Or.inl (Or.inr (Or.inr (Or.inr (Or.inr (Or.inr (Or.inr (Or.inl h)))))))
      · exact Or.inl (Or.inr (Or.inr (Or.inr (Or.inr (Or.inr (Or.inr (Or.inr (Or.inl h))))))))
      · exact Or.inl (Or.inr (Or.inr (Or.inr (Or.inr (Or.inr (Or.inr (Or.inr (Or.inr h))))))))
      · exact Or.inr h
    rcases hpunct with hpc | ⟨hd, hdd⟩
    · exact Reads.tok data F tt hp (fun n _ => next_punct tt data F n hl hpu hpc)
    · subst hd
      simp only [punctOk, beq_iff_eq] at hpu
      rcases hdd with hsl' | hlone
      · subst hsl'
        exact Reads.tok ['/'] F .delim (by simp) (fun n _ => next_slash F n (hsl rfl rfl))
      · match data, hpu with
        | [c], _ =>
          simp only [List.headD_cons] at hlone
          exact Reads.tok [c] F .delim (by simp) (fun n _ => next_lone c F n hlone)
  · exact absurd h.1 hw
  · exact Reads.tok data F tt hp (fun n hn => next_plain tt data F hl hpl h.2 n hn)

/-- a url value, whichever way it is written, in front of anything -/
theorem reads_url (data F : List Char) (hok : urlOk data = true) :
    Reads data F (significant (urlToks data)) := by
  simp only [urlOk] at hok
  simp only [urlToks]
  cases hq : quotedUrl data with
  | none =>
    rw [hq] at hok
    simp only [Bool.and_eq_true] at hok
    obtain ⟨hp, _⟩ := lexOk_iff hok.1
    exact Reads.tok data F .url hp (fun n hn => next_url data F hok.1 hok.2 n hn)
  | some s =>
    rw [hq] at hok
    simp only at hok
    have hshape := quotedUrl_shape data s hq
    obtain ⟨hs, _⟩ := lexOk_iff hok
    have e : data = ['u', 'r', 'l', '('] ++ (s ++ [')']) := by rw [hshape]; rfl
    rw [e]
    have r1 : Reads ['u', 'r', 'l', '('] ((s ++ [')']) ++ F) (significant [(.function, ['u', 'r', 'l', '('])]) := by
      apply Reads.tok _ _ .function (by simp)
      intro n hn
      have := next_urlfun s ([')'] ++ F) n (lexOk_string_head s hok) hs
        (by simp only [List.length_append, List.length_cons] at hn; omega)
      simpa [List.append_assoc] using this
    have r2 : Reads s ([')'] ++ F) (significant [(.string, s)]) :=
      Reads.tok s _ .string hs (fun n hn => next_string s _ hok n hn)
    have r3 : Reads [')'] F (significant [(.rightParen, [')'])]) :=
      Reads.tok [')'] F .rightParen (by simp) (fun n _ => next_rparen F n)
    have r23 := Reads.append (by simpa [List.append_assoc] using r2) r3
    have := Reads.append (by simpa [List.append_assoc] using r1) r23
    simpa [significant_append, significant] using this

/-! ## function arguments -/

theorem tokOk_nonfun (tt : TT) (data : List Char) (args : List Tok) (hf : tt ≠ .function) :
    tokOk (.mk tt data args) = tokOk (.mk tt data []) := by
  simp [tokOk, hf]

/-- the lexeme of an admissible token is not empty and, unless it is white space, does not start with white space -/
theorem tokOk_head (t : Tok) (h : tokOk t = true) :
    t.data ≠ [] ∧ (t.tt ≠ .whitespace → isWs (t.data.headD 'x') = false) := by
  match t with
  | .mk tt data args =>
    simp only [Tok.data, Tok.tt]
    simp only [tokOk] at h
    by_cases hf : tt = .function
    · subst hf
      simp only [beq_self_eq_true, if_true, Bool.and_eq_true] at h
      exact ⟨(lexOk_iff h.1.1).1, fun _ => head_not_ws _ _ h.1.1 (by decide)⟩
    simp only [beq_eq_false_iff_ne.mpr hf, Bool.false_eq_true, if_false] at h
    by_cases hu : tt = .url
    · subst hu
      simp only [beq_self_eq_true, if_true, urlOk] at h
      cases hq : quotedUrl data with
      | none =>
        rw [hq] at h
        simp only [Bool.and_eq_true] at h
        exact ⟨(lexOk_iff h.1).1, fun _ => head_not_ws _ _ h.1 (by decide)⟩
      | some s =>
        have := quotedUrl_shape data s hq
        rw [this]
        exact ⟨by simp, fun _ => by simp only [List.headD_cons]; decide⟩
    simp only [beq_eq_false_iff_ne.mpr hu, Bool.false_eq_true, if_false] at h
    by_cases hs : tt = .string
    · subst hs
      simp only [beq_self_eq_true, if_true] at h
      exact ⟨(lexOk_iff h).1, fun _ => head_not_ws _ _ h (by decide)⟩
    simp only [beq_eq_false_iff_ne.mpr hs, Bool.false_eq_true, if_false] at h
    by_cases hw : tt = .whitespace
    · subst hw
      simp only [beq_self_eq_true, if_true, beq_iff_eq] at h
      subst h
      exact ⟨by simp, fun hh => absurd rfl hh⟩
    simp only [beq_eq_false_iff_ne.mpr hw, Bool.false_eq_true, if_false, Bool.and_eq_true] at h
    exact ⟨(lexOk_iff h.1.1.2).1, fun _ => head_not_ws _ _ h.1.1.2 hw⟩

/-- every admissible token is self-delimited, white space or plain -/
theorem tokOk_class (t : Tok) (h : tokOk t = true) :
    selfDelim t = true ∨ t.tt = .whitespace ∨ isPlain t.tt = true := by
  match t with
  | .mk tt data args =>
    simp only [Tok.tt]
    simp only [tokOk] at h
    by_cases hf : tt = .function
    · left; simp [selfDelim, Tok.tt, hf]
    simp only [beq_eq_false_iff_ne.mpr hf, Bool.false_eq_true, if_false] at h
    by_cases hu : tt = .url
    · left; simp [selfDelim, Tok.tt, hu]
    simp only [beq_eq_false_iff_ne.mpr hu, Bool.false_eq_true, if_false] at h
    by_cases hs : tt = .string
    · left; simp [selfDelim, Tok.tt, hs]
    simp only [beq_eq_false_iff_ne.mpr hs, Bool.false_eq_true, if_false] at h
    by_cases hw : tt = .whitespace
    · right; left; exact hw
    simp only [beq_eq_false_iff_ne.mpr hw, Bool.false_eq_true, if_false, Bool.and_eq_true] at h
    right; right; exact h.1.1.1

theorem writeArg_head (t : Tok) (X : List Char) (h : t.data ≠ []) :
    (writeArg t ++ X).head? = t.data.head? ∧ (writeArg t ++ X).headD 'x' = t.data.headD 'x' := by
  match t with
  | .mk tt data args =>
    simp only [Tok.data] at h ⊢
    cases data with
    | nil => exact absurd rfl h
    | cons c d => simp [writeArg]

theorem stopStr_of_head (p X : List Char) (h : stopHead p = true) : stopStr (p ++ X) = true := by
  cases p with
  | nil => simp [stopHead] at h
  | cons c d =>
    simp only [stopHead, Bool.and_eq_true, bne_iff_ne, ne_eq] at h
    simp [stopStr, h.1, h.2]

theorem folOk_last (t : Tok) (F : List Char) (h : tokOk t = true) : folOk t (')' :: F) := by
  rcases tokOk_class t h with hc | hc | hc
  · exact Or.inl ⟨hc, fun _ _ => by simp⟩
  · exact Or.inr (Or.inl ⟨hc, by simp only [List.headD_cons]; decide⟩)
  · exact Or.inr (Or.inr ⟨hc, by simp [stopStr, U, isName, isNameStart, isDigit, isNl]⟩)

theorem endsInHexEscape_eq (b : List Char) : endsInHexEscape b = Verif.Spec.CssValue.endsHexEsc b := rfl

/-- an admissible token does not end in a hexadecimal escape that the writer would have to terminate -/
theorem tokOk_noesc (t : Tok) (h : tokOk t = true) :
    gluesArgs t.tt t.data .whitespace [' '] = false ∧ (escTT t.tt && endsInHexEscape t.data) = false := by
  match t, h with
  | .mk tt data args, h =>
    simp only [Tok.tt, Tok.data]
    by_cases hp : (tt == .ident || tt == .hash || tt == .number || tt == .dimension || tt == .atKeyword ||
        tt == .customPropertyName) = true
    · have hne : (tt == .function) = false ∧ (tt == .url) = false ∧ (tt == .string) = false ∧
          (tt == .whitespace) = false := by
        simp only [Bool.or_eq_true, beq_iff_eq] at hp
        rcases hp with ((((h1 | h1) | h1) | h1) | h1) | h1 <;> subst h1 <;> decide
      simp only [tokOk, hne.1, hne.2.1, hne.2.2.1, hne.2.2.2, Bool.false_eq_true, if_false, Bool.and_eq_true,
        Bool.not_eq_true'] at h
      have he : endsInHexEscape data = false := by rw [endsInHexEscape_eq]; exact h.2
      constructor
      · simp [gluesArgs, he]
      · simp [he]
    · have hp' : (tt == .ident || tt == .hash || tt == .number || tt == .dimension || tt == .atKeyword ||
        tt == .customPropertyName) = false := by simpa using hp
      constructor
      · simp only [gluesArgs, hp', Bool.not_false, if_true]
        split <;> rfl
      · simp only [Bool.or_eq_false_iff] at hp'
        simp [escTT, hp'.1.1.1.1.1, hp'.1.1.1.1.2, hp'.1.1.2]

/-- the Spec-side description of a gluing pair is the writer's own test -/
theorem gluePair_glues (t u : Tok) (h : gluePair t u = true) :
    gluesArgs t.tt t.data u.tt u.data = true ∧ t.tt ≠ .function := by
  simp only [gluePair, Bool.and_eq_true, Bool.not_eq_true', bne_iff_ne, ne_eq] at h
  obtain ⟨⟨⟨⟨h1, h2⟩, h3⟩, h4⟩, h5⟩ := h
  have hw : (u.tt == TT.whitespace) = false := by simpa using h4
  have hnb : ∀ c : Char, isNameStartByte c = nameStartByte c := by
    intro c; simp [isNameStartByte, nameStartByte, isLetter, Bool.or_assoc]
  refine ⟨?_, ?_⟩
  · simp only [gluesArgs, h1, h2, Bool.or_self, Bool.false_eq_true, if_false, h3, Bool.not_true, hw, hnb]
    exact h5
  · intro hf; rw [hf] at h3; simp at h3

theorem folOk_next (t u : Tok) (r : List Tok) (X : List Char) (ht : tokOk t = true) (hu : tokOk u = true)
    (hs : sepOk t u = true) :
    folOk t (writeFunction (some (t.tt, t.data)) (u :: r) ++ X) := by
  obtain ⟨hune, huws⟩ := tokOk_head u hu
  match u, hune, huws, hs, hu with
  | .mk utt udata uargs, hune, huws, hs, hu =>
  simp only [Tok.data, Tok.tt] at hune huws
  simp only [writeFunction]
  by_cases hg : (t.tt != .function && (opensComment t.data udata || gluesArgs t.tt t.data utt udata)) = true
  · -- the writer separates the two with a space
    simp only [hg, if_true, List.append_assoc, List.cons_append, List.nil_append]
    rcases tokOk_class t ht with hc | hc | hc
    · exact Or.inl ⟨hc, fun _ _ => by simp⟩
    · exfalso
      match t, hc, ht with
      | .mk ttt tdata targs, hc, ht =>
        simp only [Tok.tt] at hc
        subst hc
        simp only [tokOk] at ht
        have : tdata = [' '] := by simpa using ht
        subst this
        simp [opensComment, gluesArgs, Tok.data, Tok.tt] at hg
    · exact Or.inr (Or.inr ⟨hc, by simp [stopStr, U, isName, isNameStart, isDigit, isNl]⟩)
  · have hg' : (t.tt != .function && (opensComment t.data udata || gluesArgs t.tt t.data utt udata)) = false := by
      simpa using hg
    simp only [hg', Bool.false_eq_true, if_false, List.nil_append, List.append_assoc]
    have hh := writeArg_head (.mk utt udata uargs) (writeFunction (some (utt, udata)) r ++ X) hune
    simp only [Tok.data] at hh
    simp only [sepOk, Bool.or_eq_true, Bool.and_eq_true, bne_iff_ne, ne_eq, beq_iff_eq] at hs
    rcases hs with ((hs | hs) | hs) | hs
    · refine Or.inl ⟨hs, ?_⟩
      intro hd hdd
      rw [hh.1]
      intro hstar
      have : (t.tt != .function && (opensComment t.data udata || gluesArgs t.tt t.data utt udata)) = true := by
        simp only [Bool.and_eq_true, bne_iff_ne, ne_eq, Bool.or_eq_true]
        refine ⟨by rw [hd]; decide, Or.inl ?_⟩
        simp [opensComment, hdd, hstar]
      exact hg this
    · refine Or.inr (Or.inl ⟨hs.1, ?_⟩)
      rw [hh.2]
      exact huws hs.2
    · refine Or.inr (Or.inr ⟨hs.1, ?_⟩)
      cases udata with
      | nil => exact absurd rfl hune
      | cons c d =>
        simp only [Tok.data, stopHead, Bool.and_eq_true, bne_iff_ne, ne_eq] at hs
        simp [writeArg, stopStr, hs.2.1, hs.2.2]
    · -- a gluing pair: the writer's test fires, contradiction
      exfalso
      obtain ⟨h1, h2⟩ := gluePair_glues t (.mk utt udata uargs) hs
      simp only [Tok.tt, Tok.data] at h1
      have : (t.tt != .function && (opensComment t.data udata || gluesArgs t.tt t.data utt udata)) = true := by
        simp only [Bool.and_eq_true, bne_iff_ne, ne_eq, Bool.or_eq_true]
        exact ⟨h2, Or.inr h1⟩
      exact hg this

theorem argsOk_cons (t : Tok) (r : List Tok) (h : argsOk (t :: r) = true) :
    tokOk t = true ∧ argsOk r = true ∧ (∀ u r', r = u :: r' → sepOk t u = true ∧ tokOk u = true) := by
  cases r with
  | nil => exact ⟨by simpa [argsOk] using h, by simp [argsOk], fun _ _ hh => by simp at hh⟩
  | cons u r' =>
    simp only [argsOk, Bool.and_eq_true] at h
    refine ⟨h.1.1, h.2, ?_⟩
    intro u' r'' hh
    have h1 : u = u' := (List.cons.inj hh).1
    subst h1
    refine ⟨h.1.2, ?_⟩
    cases r' with
    | nil => simpa [argsOk] using h.2
    | cons _ _ => simp only [argsOk, Bool.and_eq_true] at h; exact h.2.1.1

mutual
/-- the written form of one admissible value re-tokenises to the tokens it stands for -/
theorem reads_arg : ∀ (t : Tok) (F : List Char), tokOk t = true → folOk t F →
    Reads (writeArg t) F (significant (flatTok t))
  | .mk tt data args, F, hok, hfol => by
    by_cases hf : tt = .function
    · subst hf
      simp only [tokOk, beq_self_eq_true, if_true, Bool.and_eq_true] at hok
      obtain ⟨⟨hl, hh⟩, ha⟩ := hok
      obtain ⟨hp, _⟩ := lexOk_iff hl
      simp only [writeArg, flatTok, beq_self_eq_true, if_true]
      have r1 : Reads data ((writeFunction none args ++ [')']) ++ F) (significant [(.function, data)]) :=
        Reads.tok data _ .function hp (fun n hn => next_function data _ hl hh n hn)
      have r2 : Reads (writeFunction none args) ([')'] ++ F) (significant (flatArgs args)) :=
        reads_args args none F ha (by intro _ _ hh; simp at hh)
      have r3 : Reads [')'] F (significant [(.rightParen, [')'])]) :=
        Reads.tok [')'] F .rightParen (by simp) (fun n _ => next_rparen F n)
      have r23 := Reads.append r2 r3
      have := Reads.append r1 r23
      simpa [significant_append, significant] using this
    · have e1 : writeArg (.mk tt data args) = data := by simp [writeArg, hf]
      rw [e1]
      by_cases hu : tt = .url
      · subst hu
        simp only [tokOk] at hok
        simp only [flatTok]
        exact reads_url data F (by simpa using hok)
      · have e2 : flatTok (.mk tt data args) = [(tt, data)] := by simp [flatTok, hf, hu]
        rw [e2]
        rw [tokOk_nonfun tt data args hf] at hok
        exact reads_simple tt data F hf hu hok hfol
/-- the arguments of a function, written back to back, in front of the closing parenthesis -/
theorem reads_args : ∀ (args : List Tok) (prev : Option (TT × List Char)) (F : List Char), argsOk args = true →
    (∀ ptt pdata, prev = some (ptt, pdata) → gluesArgs ptt pdata .whitespace [' '] = false) →
    Reads (writeFunction prev args) ([')'] ++ F) (significant (flatArgs args))
  | [], prev, F, _, _ => by
    simp only [writeFunction, flatArgs]
    exact Reads.nil _
  | .mk tt data args :: r, prev, F, h, hprev => by
    obtain ⟨ht, hr, hnext⟩ := argsOk_cons _ _ h
    obtain ⟨hne, hhw⟩ := tokOk_head _ ht
    simp only [Tok.data] at hne
    simp only [writeFunction, flatArgs]
    -- what follows the written form of this argument
    have hfol : folOk (.mk tt data args) (writeFunction (some (tt, data)) r ++ ([')'] ++ F)) := by
      cases r with
      | nil => simp only [writeFunction, List.nil_append]; exact folOk_last _ F ht
      | cons u r' =>
        obtain ⟨hs, hu⟩ := hnext u r' rfl
        exact folOk_next (.mk tt data args) u r' _ ht hu hs
    have r2 := reads_arg (.mk tt data args) _ ht hfol
    have r3 := reads_args r (some (tt, data)) F hr (by
      intro ptt pdata hh
      have h1 := (Option.some.inj hh)
      have e1 : ptt = tt := (congrArg Prod.fst h1).symm
      have e2 : pdata = data := (congrArg Prod.snd h1).symm
      subst e1; subst e2
      exact (tokOk_noesc _ ht).1)
    have r23 := Reads.append r2 r3
    -- the separating space (in front of `*` behind `/`, or between two arguments that would glue)
    have hsp : ∀ g : List Char, (g = [' '] ∧ isWs (data.headD 'x') = false) ∨ g = [] →
        Reads (g ++ (writeArg (.mk tt data args) ++ writeFunction (some (tt, data)) r)) ([')'] ++ F)
          (significant (flatTok (.mk tt data args)) ++ significant (flatArgs r)) := by
      intro g hg
      rcases hg with ⟨hg, hstar⟩ | hg
      · subst hg
        have r1 : Reads [' '] ((writeArg (.mk tt data args) ++ writeFunction (some (tt, data)) r) ++ ([')'] ++ F))
            (significant [(.whitespace, [' '])]) := by
          apply Reads.tok [' '] _ .whitespace (by simp)
          intro n _
          apply next_ws
          have := (writeArg_head (.mk tt data args) (writeFunction (some (tt, data)) r ++ ([')'] ++ F)) hne).2
          simp only [List.append_assoc, Tok.data, List.append_eq, List.nil_append] at this ⊢
          rw [this]
          exact hstar
        have := Reads.append r1 r23
        simpa [significant] using this
      · subst hg; simpa using r23
    rw [significant_append]
    cases prev with
    | none => simpa using hsp [] (Or.inr rfl)
    | some pr =>
      obtain ⟨ptt, pdata⟩ := pr
      simp only []
      by_cases hg : (ptt != .function && (opensComment pdata data || gluesArgs ptt pdata tt data)) = true
      · simp only [hg, if_true]
        have hstar : isWs (data.headD 'x') = false := by
          by_cases hw : tt = .whitespace
          · exfalso
            subst hw
            have hd : data = [' '] := by simpa [tokOk] using ht
            subst hd
            simp only [Bool.and_eq_true, Bool.or_eq_true] at hg
            rcases hg.2 with h1 | h1
            · simp [opensComment] at h1
            · rw [hprev ptt pdata rfl] at h1; exact absurd h1 (by decide)
          · exact hhw hw
        simpa [List.append_assoc] using hsp [' '] (Or.inl ⟨rfl, hstar⟩)
      · have hg' : (ptt != .function && (opensComment pdata data || gluesArgs ptt pdata tt data)) = false := by
          simpa using hg
        simp only [hg', Bool.false_eq_true, if_false]
        simpa [List.append_assoc] using hsp [] (Or.inr rfl)
end


/-! ## the values of a declaration -/

theorem stopStr_head_ne_star (k : List Char) (h : stopStr k = true) : k.head? ≠ some '*' := by
  cases k with
  | nil => simp
  | cons c r =>
    have := (stopStr_cons h).1.star
    simpa using this

theorem isSlash_data (t : Tok) (ht : tokOk t = true) (hs : isSlash t = true) : t.tt = .delim ∧ t.data = ['/'] := by
  match t with
  | .mk tt data args =>
    simp only [isSlash, Tok.tt, Tok.data, Bool.and_eq_true, beq_iff_eq] at hs ⊢
    obtain ⟨h1, h2⟩ := hs
    subst h1
    have hl : data.length = 1 := by
      simp [tokOk, punctOk] at ht; exact ht.1.2
    match data, hl, h2 with
    | [c], _, h2 => simp at h2; subst h2; exact ⟨rfl, rfl⟩

theorem comma_data (t : Tok) (ht : tokOk t = true) (hs : t.tt = .comma) : t.data = [','] := by
  match t with
  | .mk tt data args =>
    simp only [Tok.tt] at hs
    subst hs
    simp [tokOk, punctOk] at ht
    exact ht.1.2

theorem space_stop (X : List Char) : stopStr (' ' :: X) = true := by
  simp [stopStr, U, isName, isNameStart, isDigit, isNl]

/-- what `writeVals` puts behind a value may follow it -/
theorem folOk_top (t : Tok) (r : List Tok) (k : List Char) (ht : tokOk t = true) (hw : t.tt ≠ .whitespace)
    (hr : valsOk r = true) (hk : stopStr k = true) :
    folOk t (writeVals (some t) (sepAfter t) r ++ k) := by
  cases r with
  | nil =>
    simp only [writeVals, List.nil_append]
    rcases tokOk_class t ht with hc | hc | hc
    · exact Or.inl ⟨hc, fun _ _ => stopStr_head_ne_star k hk⟩
    · exact absurd hc hw
    · exact Or.inr (Or.inr ⟨hc, hk⟩)
  | cons u r' =>
    simp only [valsOk, List.all_cons, Bool.and_eq_true, bne_iff_ne, ne_eq] at hr
    obtain ⟨⟨hu, huw⟩, _⟩ := hr
    obtain ⟨hune, _⟩ := tokOk_head u hu
    have hh := writeArg_head u (writeVals (some u) (sepAfter u) r' ++ k) hune
    simp only [writeVals]
    by_cases hsa : sepAfter t = true
    · -- comma, slash, function, url: self-delimited
      have hsd : selfDelim t = true := by
        simp only [sepAfter, Bool.or_eq_true, beq_iff_eq] at hsa
        rcases hsa with ((h | h) | h) | h
        · simp [selfDelim, h]
        · obtain ⟨h1, h2⟩ := isSlash_data t ht h
          simp [selfDelim, h1, h2]
        · simp [selfDelim, h]
        · simp [selfDelim, h]
      refine Or.inl ⟨hsd, ?_⟩
      intro hd hdd
      simp only [hsa, Bool.not_true, Bool.false_and, Bool.false_eq_true, if_false, hd, beq_self_eq_true, Bool.true_and]
      by_cases hg : opensComment t.data u.data = true
      · simp [hg]
      · simp only [hg, Bool.false_eq_true, if_false, List.nil_append, List.append_assoc]
        rw [hh.1]
        intro hstar
        apply hg
        simp [opensComment, hdd, hstar]
    · have hsa' : sepAfter t = false := by simpa using hsa
      have hcl : selfDelim t = true ∨ isPlain t.tt = true := by
        rcases tokOk_class t ht with hc | hc | hc
        · exact Or.inl hc
        · exact absurd hc hw
        · exact Or.inr hc
      have hnd : ¬ (t.tt = .delim ∧ t.data = ['/']) := by
        intro hh2
        have : isSlash t = true := by simp [isSlash, hh2.1, hh2.2]
        simp [sepAfter, this] at hsa'
      simp only [hsa', Bool.not_false, Bool.true_and]
      by_cases hcs : (u.tt != .comma && !isSlash u) = true
      · simp only [hcs, if_true, List.cons_append]
        rcases hcl with hc | hc
        · exact Or.inl ⟨hc, fun _ _ => by simp⟩
        · exact Or.inr (Or.inr ⟨hc, space_stop _⟩)
      · have hcs' : (u.tt != .comma && !isSlash u) = false := by simpa using hcs
        simp only [hcs', Bool.false_eq_true, if_false]
        -- `u` is a comma or a slash: no guard space (its lexeme does not start with `*`)
        have hud : u.data = [','] ∨ u.data = ['/'] := by
          simp only [Bool.and_eq_false_iff, bne_eq_false_iff_eq, Bool.not_eq_false'] at hcs'
          rcases hcs' with h | h
          · exact Or.inl (comma_data u hu h)
          · exact Or.inr (isSlash_data u hu h).2
        have hng : (t.tt == .delim && opensComment t.data u.data) = false := by
          rcases hud with h | h <;> simp [opensComment, h]
        simp only [hng, Bool.false_eq_true, if_false, List.nil_append, List.append_assoc]
        have hstop : stopStr (writeArg u ++ (writeVals (some u) (sepAfter u) r' ++ k)) = true := by
          match u, hud with
          | .mk utt udata uargs, hud =>
            simp only [Tok.data] at hud
            rcases hud with h | h <;> subst h <;>
              simp [writeArg, stopStr, U, isName, isNameStart, isDigit, isNl]
        rcases hcl with hc | hc
        · refine Or.inl ⟨hc, fun h1 h2 => absurd ⟨h1, h2⟩ hnd⟩
        · exact Or.inr (Or.inr ⟨hc, hstop⟩)

/-- the values of a declaration as `writeVals` separates them -/
theorem reads_vals : ∀ (vs : List Tok) (prev : Option Tok) (prevSep : Bool) (k : List Char),
    valsOk vs = true → stopStr k = true → (∀ p, prev = some p → (escTT p.tt && endsInHexEscape p.data) = false) →
    Reads (writeVals prev prevSep vs) k (significant (flatArgs vs)) := by
  intro vs
  induction vs with
  | nil => intro _ _ k _ _ _; simp only [writeVals, flatArgs]; exact Reads.nil k
  | cons t r ih =>
    intro prev prevSep k hv hk hprev
    have hv' := hv
    simp only [valsOk, List.all_cons, Bool.and_eq_true, bne_iff_ne, ne_eq] at hv'
    obtain ⟨⟨ht, hw⟩, hr⟩ := hv'
    have hr' : valsOk r = true := hr
    obtain ⟨hne, hhw⟩ := tokOk_head t ht
    have hfol := folOk_top t r k ht hw hr' hk
    have r2 := reads_arg t _ ht hfol
    have r3 := ih (some t) (sepAfter t) k hr' hk (by
      intro p hp; have := Option.some.inj hp; subst this; exact (tokOk_noesc t ht).2)
    have r23 := Reads.append r2 r3
    simp only [writeVals, flatArgs, significant_append]
    -- the separator is one space or nothing
    have hsp : ∀ g : List Char, g = [' '] ∨ g = [] →
        Reads (g ++ (writeArg t ++ writeVals (some t) (sepAfter t) r)) k
          (significant (flatTok t) ++ significant (flatArgs r)) := by
      intro g hg
      rcases hg with hg | hg
      · subst hg
        have r1 : Reads [' '] ((writeArg t ++ writeVals (some t) (sepAfter t) r) ++ k)
            (significant [(.whitespace, [' '])]) := by
          apply Reads.tok [' '] _ .whitespace (by simp)
          intro n _
          apply next_ws
          have := (writeArg_head t (writeVals (some t) (sepAfter t) r ++ k) hne).2
          simp only [List.append_assoc, List.append_eq, List.nil_append] at this ⊢
          rw [this]
          exact hhw hw
        have := Reads.append r1 r23
        simpa [significant] using this
      · subst hg; simpa using r23
    rw [List.append_assoc]
    apply hsp
    by_cases c : (!prevSep && t.tt != .comma && !isSlash t) = true
    · simp only [c, if_true]
      cases prev with
      | none => exact Or.inl rfl
      | some p => simp [hprev p rfl]
    · simp only [c, Bool.false_eq_true, if_false]
      cases prev with
      | none => exact Or.inr rfl
      | some p =>
        simp only []
        by_cases c2 : (p.tt == .delim && opensComment p.data t.data) = true
        · simp [c2]
        · simp [c2]

/-- `!important` in front of a stop string -/
theorem reads_important (k : List Char) (hk : stopStr k = true) :
    Reads (S "!important") k [(.delim, ['!']), (.ident, S "important")] := by
  have e : S "!important" = ['!'] ++ S "important" := rfl
  rw [e]
  have r1 : Reads ['!'] (S "important" ++ k) (significant [(.delim, ['!'])]) :=
    Reads.tok ['!'] _ .delim (by simp) (fun n _ => next_bang _ n)
  have hl : lexOk .ident (S "important") = true := by decide
  have r2 : Reads (S "important") k (significant [(.ident, S "important")]) :=
    Reads.tok _ k .ident (by decide) (fun n hn => next_plain .ident _ k hl (by decide) hk n hn)
  have := Reads.append r1 r2
  simpa [significant] using this


/-! ## property-level theorems -/

def importantToks (important : Bool) : List Token :=
  if important then [(.delim, ['!']), (.ident, S "important")] else []

theorem reads_tokenise (s k : List Char) (E : List Token) (h : Reads s k E) :
    ∃ n', k.length ≤ n' ∧ significant (tokenise (s ++ k)) = E ++ significant (tokAux n' k []) := by
  obtain ⟨n', T, hn', e, hs⟩ := h (s ++ k).length [] (Nat.le_refl _)
  refine ⟨n', hn', ?_⟩
  simp only [tokenise]
  rw [e, tokAux_acc, significant_append]
  simp [hs]

/-- **css_writer_retokenises** — for every list of values `vs` handed to the declaration writer of `css.go`
    (`writeDeclaration`, with `writeFunction` for nested functions, including the `/`+`*` guard of e7baddf), every
    `important` flag and every context `k` that starts with a stop code point (`;`, `}`, white space, …): if every
    lexeme is a closed token of its declared type for the independent tokeniser (`valsOk`: `lexOk` = "followed by a
    space it reads as exactly this token", punctuation has its one-byte lexeme, function arguments are pairwise safe
    to write back to back, `sepOk`), then the independent tokeniser reads the written bytes followed by `k` as exactly
    the tokens of `vs` in order (functions: name, arguments, `)`; a quoted url: `url(`, string, `)`), then `!` and
    `important` if set, then the tokens of `k`: no two tokens merge, none splits, no comment or string opens. -/
theorem css_writer_retokenises (vs : List Tok) (important : Bool) (k : List Char)
    (hv : valsOk vs = true) (hk : stopStr k = true) :
    ∃ n', k.length ≤ n' ∧
      significant (tokenise (writeDeclaration vs important ++ k)) =
        significant (flatArgs vs) ++ importantToks important ++ significant (tokAux n' k []) := by
  simp only [writeDeclaration]
  cases important with
  | false =>
    simp only [importantToks, Bool.false_eq_true, if_false, List.append_nil]
    exact reads_tokenise _ k _ (reads_vals vs none true k hv hk (by intro _ hh; simp at hh))
  | true =>
    simp only [importantToks, if_true]
    have hk' : stopStr (S "!important" ++ k) = true := by
      simp [S, stopStr, U, isName, isNameStart, isDigit, isNl]
    have r1 := reads_vals vs none true (S "!important" ++ k) hv hk' (by intro _ hh; simp at hh)
    have r2 := reads_important k hk
    exact reads_tokenise _ k _ (Reads.append r1 r2)

example : valsOk [.mk .ident (S "a\\31 ") [], .mk .number (S "1") [], .mk .ident (S "em") [],
    .mk .function (S "calc(") [.mk .dimension (S "1px") [], .mk .whitespace (S " ") [], .mk .delim (S "+") [],
      .mk .whitespace (S " ") [], .mk .dimension (S "-2px") []], .mk .delim (S "/") [], .mk .delim (S "*") [],
    .mk .url (S "url(\"a b\")") [], .mk .ident (S "b") []] = true := by decide

/-- the full statement: the same conclusion from "every lexeme is a token of its type" alone, without the condition
    on neighbours inside functions.  It is false: `writeFunction` writes the arguments back to back. -/
def css_writer_retokenises_full : Prop :=
  ∀ (vs : List Tok) (important : Bool) (k : List Char), lexemesOk vs = true → stopStr k = true →
    ∃ n', k.length ≤ n' ∧
      significant (tokenise (writeDeclaration vs important ++ k)) =
        significant (flatArgs vs) ++ importantToks important ++ significant (tokAux n' k [])

/-- witness: a delimiter `-` directly in front of the identifier `red` inside a function — a pair the writer's test
    (`gluesArgs`) does not look at — is written `f(-red)`, one identifier.  (No input produces these tokens: the lexer
    reads `-rgb(` as a function name; the pairs that rewriting does produce are separated since a933f35.) -/
theorem css_writer_retokenises_counterexample : ¬ css_writer_retokenises_full := by
  intro h
  obtain ⟨n', _, e⟩ := h [.mk .function (S "f(") [.mk .delim (S "-") [], .mk .ident (S "red") []]] false [';']
    (by decide) (by decide)
  have e2 := congrArg (List.take 2) e
  have l : List.take 2 (significant (tokenise (writeDeclaration
      [.mk .function (S "f(") [.mk .delim (S "-") [], .mk .ident (S "red") []]] false ++ [';']))) =
      [(.function, S "f("), (.ident, S "-red")] := by decide
  rw [l] at e2
  simp [flatArgs, flatTok, significant, importantToks, S] at e2

/-- regression of K-C09-CSS-7 (fixed by a933f35): behind a name that ends in a hexadecimal escape without its
    terminating white space the writer puts two spaces, and the two identifiers stay two (such lexemes are outside
    `valsOk`, which asks for the lexer's lexeme including the terminator) -/
example : writeDeclaration [.mk .ident (S "a\\9") [], .mk .ident (S "b") []] false = S "a\\9  b" ∧
    significant (tokenise (S "a\\9  b;")) = [(.ident, S "a\\9 "), (.ident, S "b"), (.semicolon, S ";")] := by decide

/-- regression of K-C09-CSS-1 and K-C09-CSS-2 (fixed by a933f35): the former counterexamples are admissible now and written with
    the separating space -/
example : valsOk [.mk .function (S "f(") [.mk .ident (S "red") [], .mk .percentage (S "10%") []]] = true ∧
    writeDeclaration [.mk .function (S "f(") [.mk .ident (S "red") [], .mk .percentage (S "10%") []]] false =
      S "f(red 10%)" ∧
    valsOk [.mk .function (S "f(") [.mk .number (S "1") [], .mk .number (S ".5") []]] = true ∧
    writeDeclaration [.mk .function (S "f(") [.mk .number (S "1") [], .mk .number (S ".5") []]] false =
      S "f(1 .5)" := by decide

open Verif.Model.C09Css in
/-- **css_declaration_retokenises** — the same for the whole declaration minifier of the model
    (`minifyDeclaration` = `parseDeclaration`, `minifyTokens`, `minifyProperty`, writer): whenever the model is defined
    on the components, did not take the raw path and the values it chose (`declPlan`) are admissible, the bytes it
    writes read back as exactly those values. -/
theorem css_declaration_retokenises (o : Opts) (prop : List Char) (comps : List Tok) (p : Plan) (k : List Char)
    (hp : declPlan o prop comps = some p) (hr : p.raw = false) (hv : valsOk p.toks = true) (hk : stopStr k = true) :
    minifyDeclaration o prop comps = some (writePlan p) ∧
    ∃ n', k.length ≤ n' ∧
      significant (tokenise (writePlan p ++ k)) =
        significant (flatArgs p.toks) ++ importantToks p.important ++ significant (tokAux n' k []) := by
  refine ⟨by rw [minifyDeclaration_eq_plan, hp]; rfl, ?_⟩
  simp only [writePlan, hr, Bool.false_eq_true, if_false]
  exact css_writer_retokenises p.toks p.important k hv hk


/-! ## the tokens of the output are admissible again; block structure -/

/-- a token of the output: the parser's single space, the `url(` in front of a quoted url, or a closed token of its
    type that is neither a bad-string nor a bad-url -/
def tokFine (x : Token) : Prop :=
  x = (.whitespace, [' ']) ∨ x = (.function, ['u', 'r', 'l', '(']) ∨
  (lexOk x.1 x.2 = true ∧ x.1 ≠ .badString ∧ x.1 ≠ .badUrl)

theorem rparen_fine : tokFine (.rightParen, [')']) := Or.inr (Or.inr ⟨by decide, by decide, by decide⟩)

theorem urlToks_fine (data : List Char) (h : urlOk data = true) : ∀ x ∈ urlToks data, tokFine x := by
  simp only [urlOk] at h
  simp only [urlToks]
  cases hq : quotedUrl data with
  | none =>
    rw [hq] at h
    simp only [Bool.and_eq_true] at h
    intro x hx
    simp only [List.mem_singleton] at hx
    subst hx
    exact Or.inr (Or.inr ⟨h.1, by simp, by simp⟩)
  | some s =>
    rw [hq] at h
    intro x hx
    simp only [List.mem_cons, List.mem_nil_iff, or_false] at hx
    rcases hx with hx | hx | hx
    · subst hx; exact Or.inr (Or.inl rfl)
    · subst hx; exact Or.inr (Or.inr ⟨h, by simp, by simp⟩)
    · subst hx; exact rparen_fine

mutual
theorem flat_tok_fine : ∀ (t : Tok), tokOk t = true → ∀ x ∈ flatTok t, tokFine x
  | .mk tt data args, hok, x, hx => by
    by_cases hf : tt = .function
    · subst hf
      simp only [tokOk, beq_self_eq_true, if_true, Bool.and_eq_true] at hok
      simp only [flatTok, beq_self_eq_true, if_true, List.mem_cons, List.mem_append, List.mem_nil_iff, or_false] at hx
      rcases hx with hx | hx | hx
      · subst hx; exact Or.inr (Or.inr ⟨hok.1.1, by simp, by simp⟩)
      · exact flat_args_fine args hok.2 x hx
      · subst hx; exact rparen_fine
    · by_cases hu : tt = .url
      · subst hu
        simp only [tokOk] at hok
        simp only [flatTok] at hx
        exact urlToks_fine data (by simpa using hok) x (by simpa using hx)
      · have e2 : flatTok (.mk tt data args) = [(tt, data)] := by simp [flatTok, hf, hu]
        rw [e2, List.mem_singleton] at hx
        subst hx
        simp only [tokOk, beq_eq_false_iff_ne.mpr hf, beq_eq_false_iff_ne.mpr hu, Bool.false_eq_true, if_false] at hok
        by_cases hs : tt = .string
        · subst hs
          exact Or.inr (Or.inr ⟨by simpa using hok, by simp, by simp⟩)
        simp only [beq_eq_false_iff_ne.mpr hs, Bool.false_eq_true, if_false] at hok
        by_cases hw : tt = .whitespace
        · subst hw
          have : data = [' '] := by simpa using hok
          subst this; exact Or.inl rfl
        simp only [beq_eq_false_iff_ne.mpr hw, Bool.false_eq_true, if_false, Bool.and_eq_true] at hok
        have hp := plain_of_isPlain hok.1.1.1
        exact Or.inr (Or.inr ⟨hok.1.1.2, hp.2.2.2.1, hp.2.2.2.2.2.1⟩)
theorem flat_args_fine : ∀ (args : List Tok), argsOk args = true → ∀ x ∈ flatArgs args, tokFine x
  | [], _, x, hx => by simp [flatArgs] at hx
  | t :: r, h, x, hx => by
    obtain ⟨ht, hr, _⟩ := argsOk_cons t r h
    simp only [flatArgs, List.mem_append] at hx
    rcases hx with hx | hx
    · exact flat_tok_fine t ht x hx
    · exact flat_args_fine r hr x hx
end

theorem flat_vals_fine : ∀ (vs : List Tok), valsOk vs = true → ∀ x ∈ flatArgs vs, tokFine x := by
  intro vs
  induction vs with
  | nil => intro _ x hx; simp [flatArgs] at hx
  | cons t r ih =>
    intro h x hx
    simp only [valsOk, List.all_cons, Bool.and_eq_true] at h
    simp only [flatArgs, List.mem_append] at hx
    rcases hx with hx | hx
    · exact flat_tok_fine t h.1.1 x hx
    · exact ih h.2 x hx

theorem mem_significant {x : Token} {l : List Token} (h : x ∈ significant l) : x ∈ l := by
  simp only [significant, List.mem_filter] at h; exact h.1

/-- **css_second_pass_tokens** (C09 item 5, first half) — for all admissible values, every `important` flag and
    every context `k` starting with a stop code point: each significant token the independent tokeniser reads in the
    written declaration (up to the tokens of `k`) is again a closed token of its type (`lexOk`; or the `url(` of a
    quoted url) and none is a bad-string or bad-url: the token list of the output satisfies the lexer contract under
    which `css_writer_retokenises` was stated, so the statement applies to the second pass again. -/
theorem css_second_pass_tokens (vs : List Tok) (important : Bool) (k : List Char)
    (hv : valsOk vs = true) (hk : stopStr k = true) :
    ∃ n' E, k.length ≤ n' ∧
      significant (tokenise (writeDeclaration vs important ++ k)) = E ++ significant (tokAux n' k []) ∧
      ∀ x ∈ E, tokFine x := by
  obtain ⟨n', hn', e⟩ := css_writer_retokenises vs important k hv hk
  refine ⟨n', significant (flatArgs vs) ++ importantToks important, hn', e, ?_⟩
  intro x hx
  rcases List.mem_append.mp hx with hx | hx
  · exact flat_vals_fine vs hv x (mem_significant hx)
  · cases important with
    | false => simp [importantToks] at hx
    | true =>
      simp only [importantToks, if_true, List.mem_cons, List.mem_nil_iff, or_false] at hx
      rcases hx with hx | hx <;> subst hx <;> exact Or.inr (Or.inr ⟨by decide, by decide, by decide⟩)

/-! ### block structure -/

theorem balance_append : ∀ (a b : List Token) (st st' : List TT),
    balance a st = some st' → balance (a ++ b) st = balance b st' := by
  intro a
  induction a with
  | nil => intro b st st' h; simp only [balance] at h; cases h; rfl
  | cons t a ih =>
    intro b st st' h
    simp only [List.cons_append, balance] at h ⊢
    by_cases h1 : isOpen t.1 = true
    · simp only [h1, if_true] at h ⊢; exact ih b _ _ h
    · simp only [h1, Bool.false_eq_true, if_false] at h ⊢
      by_cases h2 : isClose t.1 = true
      · simp only [h2, if_true] at h ⊢
        cases st with
        | nil => simp at h
        | cons o st0 =>
          simp only at h ⊢
          by_cases h3 : closes o t.1 = true
          · simp only [h3, if_true] at h ⊢; exact ih b _ _ h
          · simp [h3] at h
      · simp only [h2, Bool.false_eq_true, if_false] at h ⊢; exact ih b _ _ h

theorem hasBad_of_fine (l : List Token) (h : ∀ x ∈ l, tokFine x) : hasBad l = false := by
  simp only [hasBad, List.any_eq_false, Bool.or_eq_true, beq_iff_eq, not_or]
  intro x hx
  rcases h x hx with h1 | h1 | h1
  · subst h1; exact ⟨by decide, by decide⟩
  · subst h1; exact ⟨by decide, by decide⟩
  · exact ⟨h1.2.1, h1.2.2⟩

/-- **css_declaration_closed** — for all admissible values whose brackets match (the functions get their `)` from the
    writer; `balance` of the chosen tokens is a decidable hypothesis) and both declaration terminators `c` = `;` and
    `c` = `}`: the written value followed by `c` is read as tokens `E` followed by exactly the terminator token, where
    `E` has every bracket closed and contains no bad-string and no bad-url: the value neither swallows its terminator
    (no unterminated string, url, comment or escape) nor opens or closes a block.  Covers the writer of values
    (`writeDeclaration`); selectors, at-rule preludes and the raw path are judged on the real output by the harness. -/
theorem css_declaration_closed (vs : List Tok) (important : Bool) (c : Char) (hc : c = ';' ∨ c = '}')
    (hv : valsOk vs = true) (hb : balance (significant (flatArgs vs)) [] = some []) :
    ∃ E, significant (tokenise (writeDeclaration vs important ++ [c])) =
        E ++ [(if c = ';' then TT.semicolon else TT.rightBrace, [c])] ∧
      balance E [] = some [] ∧ hasBad E = false := by
  have hk : stopStr [c] = true := by rcases hc with h | h <;> subst h <;> decide
  obtain ⟨n'', hn'', e2⟩ := css_writer_retokenises vs important [c] hv hk
  refine ⟨significant (flatArgs vs) ++ importantToks important, ?_, ?_, ?_⟩
  · rw [e2]
    congr 1
    obtain ⟨m, rfl⟩ : ∃ m, n'' = m + 1 := ⟨n'' - 1, by simp at hn''; omega⟩
    have hnil : ∀ (m : Nat) (acc : List Token), tokAux m [] acc = acc.reverse := by
      intro m acc; cases m <;> rfl
    rcases hc with h | h <;> subst h <;> simp [tokAux, next, isWs, isQuote, significant, hnil]
  · rw [balance_append _ _ _ _ hb]
    cases important <;> simp [importantToks, balance, isOpen, isClose]
  · apply hasBad_of_fine
    intro x hx
    rcases List.mem_append.mp hx with hx | hx
    · exact flat_vals_fine vs hv x (mem_significant hx)
    · cases important with
      | false => simp [importantToks] at hx
      | true =>
        simp only [importantToks, if_true, List.mem_cons, List.mem_nil_iff, or_false] at hx
        rcases hx with hx | hx <;> subst hx <;> exact Or.inr (Or.inr ⟨by decide, by decide, by decide⟩)

example : valsOk [.mk .function (S "f(") [.mk .leftParen (S "(") [], .mk .ident (S "a") [], .mk .rightParen (S ")") []],
      .mk .string (S "\"}\"") []] = true ∧
    balance (significant (flatArgs [.mk .function (S "f(") [.mk .leftParen (S "(") [], .mk .ident (S "a") [],
      .mk .rightParen (S ")") []], .mk .string (S "\"}\"") []])) [] = some [] := by decide


/-! ## strings and urls -/

/-- full statement: `removeMarkupNewlines` (the string branch of `minifyTokens`) turns every closed string lexeme
    into a closed string lexeme with the same value.  False before a933f35 (`"\31\<LF>2"`); since then no counterexample
    is known (harness: string values of the real output, every run); proved only under the guard below. -/
def css_string_closed_full : Prop :=
  ∀ data : List Char, lexOk .string data = true →
    lexOk .string (removeMarkupNewlines data) = true ∧ stringValue (removeMarkupNewlines data) = stringValue data

/-- regression of K-C09-CSS-11 (fixed by a933f35): `"\31\<LF>2"` keeps its value `12` (`"\31 2"`), `"x\31\<LF> y"` keeps
    `x1 y` -/
example : removeMarkupNewlines (S "\"\\31\\\n2\"") = S "\"\\31 2\"" ∧
    stringValue (removeMarkupNewlines (S "\"\\31\\\n2\"")) = stringValue (S "\"\\31\\\n2\"") ∧
    lexOk .string (removeMarkupNewlines (S "\"x\\31\\\n y\"")) = true ∧
    stringValue (removeMarkupNewlines (S "\"x\\31\\\n y\"")) = stringValue (S "\"x\\31\\\n y\"") := by decide

/-- the guard: no `\`+newline anywhere (then nothing is removed) -/
theorem css_string_closed_partial (data : List Char) (hl : lexOk .string data = true)
    (hg : hasEscapedNewline ((data.take (data.length - 1)).drop 1) = false) :
    lexOk .string (removeMarkupNewlines data) = true ∧ stringValue (removeMarkupNewlines data) = stringValue data := by
  have : removeMarkupNewlines data = data := by
    unfold removeMarkupNewlines
    rw [hg]; rfl
  rw [this]; exact ⟨hl, rfl⟩

example : lexOk .string (S "\"a\\\"b\\41 c\"") = true ∧
    hasEscapedNewline (((S "\"a\\\"b\\41 c\"").take ((S "\"a\\\"b\\41 c\"").length - 1)).drop 1) = false := by decide

/-- what `css.IsURLUnquoted` (for bytes without backslash) guarantees about one code point -/
theorem urlChar_facts (c : Char)
    (h : (!(c == '"' || c == '\'' || c == '(' || c == ')' || c == '\\' || c == ' ' || decide (c.toNat ≤ 0x1F) ||
      c.toNat == 0x7F)) = true) :
    (c == ')') = false ∧ isWs c = false ∧ (c == '"' || c == '\'' || c == '(' || isNonPrintable c) = false ∧
    (c == '\\') = false := by
  simp only [Bool.not_eq_true', Bool.or_eq_false_iff, decide_eq_false_iff_not, beq_eq_false_iff_ne] at h
  obtain ⟨⟨⟨⟨⟨⟨⟨h1, h2⟩, h3⟩, h4⟩, h5⟩, h6⟩, h7⟩, h8⟩ := h
  have ne : ∀ d : Char, d.toNat ≤ 0x1F → c ≠ d := by
    intro d hd hcd; subst hcd; exact h7 hd
  refine ⟨by simpa using h4, ?_, ?_, by simpa using h5⟩
  · simp only [isWs, Bool.or_eq_false_iff, beq_eq_false_iff_ne]
    exact ⟨⟨⟨⟨h6, ne '\t' (by decide)⟩, ne '\n' (by decide)⟩, ne '\r' (by decide)⟩, ne '\x0c' (by decide)⟩
  · simp only [Bool.or_eq_false_iff, beq_eq_false_iff_ne, isNonPrintable, Bool.and_eq_false_iff,
      decide_eq_false_iff_not]
    refine ⟨⟨⟨h1, h2⟩, h3⟩, ⟨⟨⟨by omega, by omega⟩, Or.inr (by omega)⟩, h8⟩⟩

theorem urlLen_plain : ∀ (uri X : List Char) (n : Nat), isURLUnquoted uri = true → uri.length + 1 ≤ n →
    urlLen n (uri ++ ')' :: X) = (uri.length + 1, true) := by
  intro uri
  induction uri with
  | nil =>
    intro X n _ hn
    obtain ⟨n', rfl⟩ : ∃ n', n = n' + 1 := ⟨n - 1, by simp at hn; omega⟩
    simp [urlLen]
  | cons c u ih =>
    intro X n h hn
    obtain ⟨n', rfl⟩ : ∃ n', n = n' + 1 := ⟨n - 1, by simp at hn; omega⟩
    simp only [isURLUnquoted, List.all_cons, Bool.and_eq_true] at h
    obtain ⟨f1, f2, f3, f4⟩ := urlChar_facts c h.1
    simp only [List.cons_append, urlLen, f1, f2, f3, f4, Bool.false_eq_true, if_false]
    rw [ih X n' h.2 (by simp only [List.length_cons] at hn; omega)]
    simp only [List.length_cons]
    apply Prod.ext <;> simp <;> omega

theorem urlBody_plain : ∀ (uri X : List Char) (n : Nat), isURLUnquoted uri = true → uri.length + 1 ≤ n →
    urlBody n (uri ++ ')' :: X) = uri := by
  intro uri
  induction uri with
  | nil =>
    intro X n _ hn
    obtain ⟨n', rfl⟩ : ∃ n', n = n' + 1 := ⟨n - 1, by simp at hn; omega⟩
    simp [urlBody]
  | cons c u ih =>
    intro X n h hn
    obtain ⟨n', rfl⟩ : ∃ n', n = n' + 1 := ⟨n - 1, by simp at hn; omega⟩
    simp only [isURLUnquoted, List.all_cons, Bool.and_eq_true] at h
    obtain ⟨f1, f2, _, f4⟩ := urlChar_facts c h.1
    simp only [List.cons_append, urlBody, f1, f2, f4, Bool.or_self, Bool.false_eq_true, if_false]
    rw [ih X n' h.2 (by simp only [List.length_cons] at hn; omega)]

theorem head_not_ws_plain (uri X : List Char) (h : isURLUnquoted uri = true) : wsRun (uri ++ ')' :: X) = 0 := by
  cases uri with
  | nil => simp [wsRun, isWs]
  | cons c u =>
    simp only [isURLUnquoted, List.all_cons, Bool.and_eq_true] at h
    obtain ⟨_, f2, _, _⟩ := urlChar_facts c h.1
    simp [wsRun, f2]

theorem head_not_quote_plain (uri X : List Char) (h : isURLUnquoted uri = true) :
    isQuote ((uri ++ ')' :: X).headD ' ') = false := by
  cases uri with
  | nil => simp [isQuote]
  | cons c u =>
    simp only [isURLUnquoted, List.all_cons, Bool.and_eq_true] at h
    obtain ⟨_, _, f3, _⟩ := urlChar_facts c h.1
    simp only [Bool.or_eq_false_iff] at f3
    simp [isQuote, f3.1.1.1, f3.1.1.2]

/-- **css_url_closed** — for every byte string `uri` that passes the unquoting test of `minifyTokens`
    (`css.IsURLUnquoted` restricted to bytes without backslash: no quotes, parentheses, backslash, space, control
    characters or DEL), `url(` `uri` `)` is one closed url token for the independent tokeniser (`lexOk`), whose value
    (CSS Syntax 3 §4.3.6) is exactly `uri`: unquoting cannot open a bad-url and keeps the url.  Urls that keep their
    quotes are `url(` string `)` with the string lexeme unchanged (`reads_url`, `urlOk`); `data:` URIs are C18. -/
theorem css_url_closed (uri : List Char) (h : isURLUnquoted uri = true) :
    lexOk .url (S "url(" ++ uri ++ [')']) = true ∧ urlValue (S "url(" ++ uri ++ [')']) = uri := by
  have e : S "url(" ++ uri ++ [')'] = 'u' :: 'r' :: 'l' :: '(' :: (uri ++ [')']) := by simp [S]
  have hname : ∀ (n : Nat) (Y : List Char), nameLen (n + 4) ('u' :: 'r' :: 'l' :: '(' :: Y) = 3 := by
    intro n Y; simp [nameLen, isName, isNameStart, isDigit, validEsc]
  constructor
  · simp only [lexOk, Bool.and_eq_true, Bool.not_eq_true', beq_iff_eq]
    refine ⟨by rw [e]; rfl, ?_⟩
    rw [e]
    have hlen : ('u' :: 'r' :: 'l' :: '(' :: (uri ++ [')'])).length + 1 = (uri.length + 2) + 4 := by
      simp only [List.length_cons, List.length_append, List.length_nil]
    rw [hlen]
    simp only [List.cons_append]
    rw [next_nameStart _ _ _ (by decide)]
    have e2 : uri ++ [')'] ++ [' '] = uri ++ ')' :: [' '] := by simp
    simp only [identLike, hname, e2]
    have hw := head_not_ws_plain uri [' '] h
    have hq := head_not_quote_plain uri [' '] h
    have hu := urlLen_plain uri [' '] (uri.length + 2 + 4) h (by omega)
    have hne : (uri ++ ')' :: [' ']).isEmpty = false := by cases uri <;> rfl
    have hq2 : isQuote (uri.head?.getD ')') = false := by
      cases uri with
      | nil => simp [isQuote]
      | cons c u => simpa using hq
    simp [isUrlName, unescape, lowerAscii, Verif.Spec.CssValue.lowerChar, urlRest, hw, hq2, hu, hne]
    omega
  · rw [e]
    simp only [urlValue]
    have hlen : ('u' :: 'r' :: 'l' :: '(' :: (uri ++ [')'])).length = (uri.length + 1) + 4 := by
      simp only [List.length_cons, List.length_append, List.length_nil]
    rw [hlen, hname]
    have e3 : List.drop (3 + 1) ('u' :: 'r' :: 'l' :: '(' :: (uri ++ [')'])) = uri ++ ')' :: [] := by simp
    rw [e3, head_not_ws_plain uri [] h]
    simp only [List.drop_zero]
    exact urlBody_plain uri [] _ h (by simp)

example : isURLUnquoted (S "a/b.png?x=1#y") = true := by decide


/-! ## the raw path -/

theorem reads_raw_tok (t : Tok) (F : List Char) (hok : rawTokOk t = true) (hfol : folOk t F) :
    Reads t.data F (significant (rawFlat t)) := by
  match t, hok, hfol with
  | .mk tt data args, hok, hfol =>
    simp only [rawTokOk, Tok.tt, Tok.data] at hok ⊢
    have hfol' : folOk (.mk tt data []) F := hfol
    by_cases hf : tt = .function
    · subst hf
      simp only [tokOk, beq_self_eq_true, if_true, Bool.and_eq_true] at hok
      obtain ⟨hp, _⟩ := lexOk_iff hok.1.1
      have : rawFlat (.mk .function data args) = [(.function, data)] := by simp [rawFlat, Tok.tt, Tok.data]
      rw [this]
      exact Reads.tok data F .function hp (fun n hn => next_function data F hok.1.1 hok.1.2 n hn)
    · by_cases hu : tt = .url
      · subst hu
        have : rawFlat (.mk .url data args) = urlToks data := by simp [rawFlat, Tok.tt, Tok.data]
        rw [this]
        simp only [tokOk] at hok
        exact reads_url data F (by simpa using hok)
      · have : rawFlat (.mk tt data args) = [(tt, data)] := by simp [rawFlat, Tok.tt, Tok.data, hu]
        rw [this]
        exact reads_simple tt data F hf hu hok hfol'

theorem rawOk_cons (t : Tok) (r : List Tok) (h : rawOk (t :: r) = true) :
    rawTokOk t = true ∧ rawOk r = true ∧ (∀ u r', r = u :: r' → sepSafe t u = true ∧ rawTokOk u = true) := by
  cases r with
  | nil => exact ⟨by simpa [rawOk] using h, by simp [rawOk], fun _ _ hh => by simp at hh⟩
  | cons u r' =>
    simp only [rawOk, Bool.and_eq_true] at h
    refine ⟨h.1.1, h.2, ?_⟩
    intro u' r'' hh
    have h1 : u = u' := (List.cons.inj hh).1
    subst h1
    refine ⟨h.1.2, ?_⟩
    cases r' with
    | nil => simpa [rawOk] using h.2
    | cons _ _ => simp only [rawOk, Bool.and_eq_true] at h; exact h.2.1.1

theorem rawTokOk_class (t : Tok) (h : rawTokOk t = true) :
    (selfDelim t = true ∨ t.tt = .whitespace ∨ isPlain t.tt = true) ∧
    t.data ≠ [] ∧ (t.tt ≠ .whitespace → isWs (t.data.headD 'x') = false) ∧ (t.tt = .whitespace → t.data = [' ']) := by
  match t, h with
  | .mk tt data args, h =>
    simp only [rawTokOk, Tok.tt, Tok.data] at h
    have c := tokOk_class (.mk tt data []) h
    have d := tokOk_head (.mk tt data []) h
    refine ⟨c, d.1, d.2, ?_⟩
    intro hw
    simp only [Tok.tt] at hw
    subst hw
    simp only [Tok.data]
    simpa [tokOk] using h

theorem rawTokOk_noesc (t : Tok) (h : rawTokOk t = true) : (escTT t.tt && endsInHexEscape t.data) = false := by
  have := (tokOk_noesc (.mk t.tt t.data []) h).2
  simpa [Tok.tt, Tok.data] using this

theorem and3_false (b x y : Bool) (h : (x && y) = false) : (b && x && y) = false := by
  cases b <;> cases x <;> cases y <;> simp_all

/-- what `writeRaw` puts behind a component may follow it -/
theorem folOk_raw (t : Tok) (r : List Tok) (k : List Char) (h : rawOk (t :: r) = true)
    (hk : stopStr k = true) (hkw : isWs (k.headD 'x') = false) :
    folOk t (writeRaw (some t) r ++ k) := by
  obtain ⟨ht, _, hnext⟩ := rawOk_cons t r h
  obtain ⟨hcl, _, _, hwd⟩ := rawTokOk_class t ht
  cases r with
  | nil =>
    simp only [writeRaw, List.nil_append]
    rcases hcl with hc | hc | hc
    · exact Or.inl ⟨hc, fun _ _ => stopStr_head_ne_star k hk⟩
    · exact Or.inr (Or.inl ⟨hc, hkw⟩)
    · exact Or.inr (Or.inr ⟨hc, hk⟩)
  | cons u r' =>
    obtain ⟨hs, hu⟩ := hnext u r' rfl
    obtain ⟨_, hune, huws, _⟩ := rawTokOk_class u hu
    simp only [writeRaw, and3_false _ _ _ (rawTokOk_noesc t ht), Bool.false_eq_true, if_false]
    by_cases hg : opensComment t.data u.data = true
    · simp only [hg, if_true, List.append_assoc, List.cons_append, List.nil_append]
      rcases hcl with hc | hc | hc
      · exact Or.inl ⟨hc, fun _ _ => by simp⟩
      · exfalso
        rw [hwd hc] at hg
        simp [opensComment] at hg
      · exact Or.inr (Or.inr ⟨hc, space_stop _⟩)
    · simp only [hg, Bool.false_eq_true, if_false, List.nil_append, List.append_assoc]
      have hh1 : (u.data ++ (writeRaw (some u) r' ++ k)).head? = u.data.head? := by
        cases hd : u.data with
        | nil => exact absurd hd hune
        | cons c d => rfl
      have hh2 : (u.data ++ (writeRaw (some u) r' ++ k)).headD 'x' = u.data.headD 'x' := by
        cases hd : u.data with
        | nil => exact absurd hd hune
        | cons c d => rfl
      simp only [sepSafe, Bool.or_eq_true, Bool.and_eq_true, bne_iff_ne, ne_eq, beq_iff_eq] at hs
      rcases hs with (hs | hs) | hs
      · refine Or.inl ⟨hs, ?_⟩
        intro _ hdd
        rw [hh1]
        intro hstar
        apply hg
        simp [opensComment, hdd, hstar]
      · refine Or.inr (Or.inl ⟨hs.1, ?_⟩)
        rw [hh2]
        exact huws hs.2
      · exact Or.inr (Or.inr ⟨hs.1, stopStr_of_head _ _ hs.2⟩)

theorem reads_raw : ∀ (comps : List Tok) (prev : Option Tok) (k : List Char),
    rawOk comps = true → stopStr k = true → isWs (k.headD 'x') = false →
    (∀ p, prev = some p → (escTT p.tt && endsInHexEscape p.data) = false) →
    Reads (writeRaw prev comps) k (significant (comps.flatMap rawFlat)) := by
  intro comps
  induction comps with
  | nil => intro _ k _ _ _ _; simp only [writeRaw, List.flatMap_nil]; exact Reads.nil k
  | cons t r ih =>
    intro prev k h hk hkw hprev
    obtain ⟨ht, hr, _⟩ := rawOk_cons t r h
    obtain ⟨_, hne, _, _⟩ := rawTokOk_class t ht
    have hfol := folOk_raw t r k h hk hkw
    have r2 := reads_raw_tok t _ ht hfol
    have r3 := ih (some t) k hr hk hkw (by
      intro p hp; have := Option.some.inj hp; subst this; exact rawTokOk_noesc t ht)
    have r23 := Reads.append r2 r3
    simp only [writeRaw, List.flatMap_cons, significant_append]
    have hsp : ∀ g : List Char, (g = [' '] ∧ t.data.head? = some '*') ∨ g = [] →
        Reads (g ++ (t.data ++ writeRaw (some t) r)) k
          (significant (rawFlat t) ++ significant (r.flatMap rawFlat)) := by
      intro g hg
      rcases hg with ⟨hg, hstar⟩ | hg
      · subst hg
        have r1 : Reads [' '] ((t.data ++ writeRaw (some t) r) ++ k) (significant [(.whitespace, [' '])]) := by
          apply Reads.tok [' '] _ .whitespace (by simp)
          intro n _
          apply next_ws
          cases hd : t.data with
          | nil => exact absurd hd hne
          | cons c d =>
            rw [hd] at hstar
            have : c = '*' := by simpa using hstar
            subst this
            simp only [List.cons_append, List.append_eq, List.nil_append, List.headD_cons]
            decide
        have := Reads.append r1 r23
        simpa [significant] using this
      · subst hg; simpa using r23
    rw [List.append_assoc]
    apply hsp
    cases prev with
    | none => exact Or.inr rfl
    | some p =>
      simp only [and3_false _ _ _ (hprev p rfl), Bool.false_eq_true, if_false]
      by_cases c2 : opensComment p.data t.data = true
      · left
        simp only [c2, if_true, true_and]
        simp only [opensComment, Bool.and_eq_true, beq_iff_eq] at c2
        exact c2.2
      · simp [c2]

/-- **css_raw_retokenises** — the raw path of `minifyDeclaration` (values with brackets, `a=b`, `progid:…`, `!ie`:
    `parseDeclaration` gives up and the parser's components are written as they are, `/` and `*` kept apart): for all
    component lists that are admissible (`rawOk`: every lexeme a closed token of its type, the parser's single-space
    white-space tokens, neighbours pairwise safe — the parser dropped the white space around `, / : ! =`), every
    `important` flag and every context `k` that starts with a stop code point other than white space, the independent
    tokeniser reads the written bytes as exactly the components. -/
theorem css_raw_retokenises (comps : List Tok) (important : Bool) (k : List Char)
    (h : rawOk comps = true) (hk : stopStr k = true) (hkw : isWs (k.headD 'x') = false) :
    ∃ n', k.length ≤ n' ∧
      significant (tokenise (writeRaw none comps ++ (if important then S "!important" else []) ++ k)) =
        significant (comps.flatMap rawFlat) ++ importantToks important ++ significant (tokAux n' k []) := by
  cases important with
  | false =>
    simp only [importantToks, Bool.false_eq_true, if_false, List.append_nil]
    exact reads_tokenise _ k _ (reads_raw comps none k h hk hkw (by intro _ hh; simp at hh))
  | true =>
    simp only [importantToks, if_true]
    have hk' : stopStr (S "!important" ++ k) = true := by
      simp [S, stopStr, U, isName, isNameStart, isDigit, isNl]
    have hkw' : isWs ((S "!important" ++ k).headD 'x') = false := by simp [S, isWs]
    have r1 := reads_raw comps none (S "!important" ++ k) h hk' hkw' (by intro _ hh; simp at hh)
    have r2 := reads_important k hk
    exact reads_tokenise _ k _ (Reads.append r1 r2)

example : rawOk [.mk .leftBracket (S "[") [], .mk .ident (S "a") [], .mk .rightBracket (S "]") [],
    .mk .whitespace (S " ") [], .mk .function (S "minmax(") [], .mk .dimension (S "1em") [], .mk .comma (S ",") [],
    .mk .dimension (S "1fr") [], .mk .rightParen (S ")") [], .mk .whitespace (S " ") [], .mk .ident (S "c") [],
    .mk .delim (S "=") [], .mk .number (S "1") [], .mk .delim (S "/") [], .mk .delim (S "*") []] = true := by decide

/-- the full statement for the raw path: every component a closed token of its type, nothing about neighbours -/
def css_raw_retokenises_full : Prop :=
  ∀ (comps : List Tok) (k : List Char), comps.all rawTokOk = true → stopStr k = true → isWs (k.headD 'x') = false →
    ∃ n', k.length ≤ n' ∧
      significant (tokenise (writeRaw none comps ++ k)) =
        significant (comps.flatMap rawFlat) ++ significant (tokAux n' k [])

/-- `<` `!` `--x` (what the parser makes of `b:< ! --x`: it drops the white space around `!`) is written `<!--x`, a CDO
    token (known finding K-C09-CSS-3, reproduced on the real code) -/
theorem css_raw_retokenises_counterexample : ¬ css_raw_retokenises_full := by
  intro h
  obtain ⟨n', _, e⟩ := h [.mk .delim (S "<") [], .mk .delim (S "!") [], .mk .ident (S "--x") []] [';']
    (by decide) (by decide) (by decide)
  have e2 := congrArg (List.take 1) e
  have l : List.take 1 (significant (tokenise (writeRaw none
      [.mk .delim (S "<") [], .mk .delim (S "!") [], .mk .ident (S "--x") []] ++ [';']))) = [(.cdo, S "<!--")] := by
    decide
  rw [l] at e2
  simp [rawFlat, significant, S, Tok.tt, Tok.data] at e2


open Verif.Model.C09Css in
/-- the same on the raw path of the model's `minifyDeclaration` -/
theorem css_declaration_retokenises_raw (o : Opts) (prop : List Char) (comps : List Tok) (p : Plan) (k : List Char)
    (hp : declPlan o prop comps = some p) (hr : p.raw = true) (hv : rawOk p.toks = true) (hk : stopStr k = true)
    (hkw : isWs (k.headD 'x') = false) :
    minifyDeclaration o prop comps = some (writePlan p) ∧
    ∃ n', k.length ≤ n' ∧
      significant (tokenise (writePlan p ++ k)) =
        significant (p.toks.flatMap rawFlat) ++ importantToks p.important ++ significant (tokAux n' k []) := by
  refine ⟨by rw [minifyDeclaration_eq_plan, hp]; rfl, ?_⟩
  simp only [writePlan, hr, if_true]
  exact css_raw_retokenises p.toks p.important k hv hk hkw


end Verif.Proofs.C09Css

import Verif.Proofs.C09HtmlModelTag
import Verif.Proofs.C09HtmlFlagship
/-!
# C09 / HTML — the special cases for `meta` / `script` / `input` / `a` (`specialAttrs`) keep every attribute's token and change
a name only to `charset`
-/
namespace Verif.Proofs.C09HtmlSpecial
open Verif.Model.Html Verif.Model.HtmlAttr Verif.Proofs.C09HtmlTag Verif.Spec.C09HtmlTok Verif.Spec.C09HtmlShape
open Verif.Proofs.C09HtmlFlagship

/-- same attribute token, same name or the name `charset` -/
def NameRel (x y : AttrSt) : Prop := y.a = x.a ∧ (y.name = x.name ∨ y.name = s "charset")

theorem NameRel.refl (x : AttrSt) : NameRel x x := ⟨rfl, Or.inl rfl⟩

theorem NameRel.trans {x y z : AttrSt} (h1 : NameRel x y) (h2 : NameRel y z) : NameRel x z := by
  refine ⟨h2.1.trans h1.1, ?_⟩
  rcases h2.2 with e | e
  · rcases h1.2 with e' | e'
    · exact Or.inl (e.trans e')
    · exact Or.inr (e.trans e')
  · exact Or.inr e

def Rel (as bs : List AttrSt) : Prop :=
  bs.length = as.length ∧ ∀ (i : Nat) (h1 : i < as.length) (h2 : i < bs.length), NameRel as[i] bs[i]

theorem Rel.refl (as : List AttrSt) : Rel as as := ⟨rfl, fun _ _ _ => NameRel.refl _⟩

theorem Rel.modify {as bs : List AttrSt} (h : Rel as bs) (k : Nat) (f : AttrSt → AttrSt)
    (hf : ∀ x, NameRel x (f x)) : Rel as (modifyAt bs k f) := by
  unfold modifyAt
  refine ⟨by rw [List.length_mapIdx]; exact h.1, fun i h1 h2 => ?_⟩
  rw [List.getElem_mapIdx]
  have h2' : i < bs.length := by rw [List.length_mapIdx] at h2; exact h2
  have := h.2 i h1 h2'
  split
  · exact this.trans (hf _)
  · exact this

theorem Rel.modify_same {as bs : List AttrSt} (h : Rel as bs) (k : Nat) (f : AttrSt → AttrSt)
    (hf : ∀ x, (f x).a = x.a ∧ (f x).name = x.name) : Rel as (modifyAt bs k f) :=
  h.modify k f (fun x => ⟨(hf x).1, Or.inl (hf x).2⟩)

theorem Rel.modify_charset {as bs : List AttrSt} (h : Rel as bs) (k : Nat) (f : AttrSt → AttrSt)
    (hf : ∀ x, (f x).a = x.a ∧ (f x).name = s "charset") : Rel as (modifyAt bs k f) :=
  h.modify k f (fun x => ⟨(hf x).1, Or.inr (hf x).2⟩)

theorem specialAttrs_rel (ext : Ext) (tag : List Char) (as as' : List AttrSt)
    (h : specialAttrs ext tag as = .ok as') : Rel as as' := by
  unfold specialAttrs at h
  simp only [bind, Except.bind, pure, Except.pure] at h
  repeat (any_goals (split at h))
  all_goals first
    | (cases h; done)
    | (cases h
       repeat (first
         | exact Rel.refl _
         | refine Rel.modify_same ?_ _ _ (fun _ => ⟨rfl, rfl⟩)
         | refine Rel.modify_charset ?_ _ _ (fun _ => ⟨rfl, rfl⟩)))

/-- after the special cases every attribute still carries its token (so its template flag) and its name, or the name
    `charset` (`<meta http-equiv=content-type content="text/html;charset=utf-8">`) -/
theorem specialAttrsOpt_rel (o : Opts) (ext : Ext) (tag : List Char) (as as' : List AttrSt)
    (h : specialAttrsOpt o ext tag as = .ok as') : Rel as as' := by
  unfold specialAttrsOpt at h
  split at h
  · cases h; exact Rel.refl _
  · exact specialAttrs_rel ext tag as as' h

theorem specialAttrs_names (o : Opts) (ext : Ext) (tag : List Char) (attrs : List Attr) (as' : List AttrSt)
    (h : specialAttrsOpt o ext tag (attrs.map AttrSt.ofAttr) = .ok as') :
    ∀ y ∈ as', ∃ a ∈ attrs, y.a = a ∧ (y.name = a.name ∨ y.name = s "charset") := by
  obtain ⟨hl, hr⟩ := specialAttrsOpt_rel o ext tag _ _ h
  intro y hy
  obtain ⟨i, hi, e⟩ := List.getElem_of_mem hy
  have hi' : i < (attrs.map AttrSt.ofAttr).length := by rw [← hl]; exact hi
  have := hr i hi' hi
  rw [e] at this
  have hia : i < attrs.length := by simpa using hi'
  refine ⟨attrs[i], List.getElem_mem hia, ?_, ?_⟩
  · rw [this.1]; simp [AttrSt.ofAttr]
  · rcases this.2 with e' | e'
    · left; rw [e']; simp [AttrSt.ofAttr]
    · exact Or.inr e'

/-- **html_start_tag_step** (the start-tag theorem at the level of the token loop, hypotheses on the INPUT token).  For
    every option set, sub-minifier, external-result table, model state and start-tag token of the lexer whose name is a
    good tag name and whose attributes have no template and good names: if `step` writes anything for it (the tag is
    not one of the dropped html/head/body/colgroup tags or an empty script/style), the bytes are `<name` + attributes + `>`
    and the standard's tokenizer reads them, in the data state, as exactly one start tag `name` with the attribute list
    the writer meant (`html_start_tag_retokenises`); the special cases for meta/script/input/a only rename `content` to
    `charset`. -/
theorem html_start_tag_step (o : Opts) (ext : Ext) (sub : Sub) (st st' : St) (name : List Char) (attrs : List Attr)
    (rest : List HTok) (out : List Char)
    (h : Verif.Model.Html.step o ext sub st (.startTag name attrs) rest = .ok (st', out)) (hne : out ≠ [])
    (ht : goodTag name = true) (ha : ∀ a ∈ attrs, a.tmpl = false ∧ goodName a.name = true)
    (m : M) (hs : m.s = .text) (hm : m.mode = .data) :
    ∃ ws : List WAttr, out = '<' :: (name ++ ws.flatMap WAttr.bytes ++ ['>']) ∧
      runO m out = [.startTag name (dedup [] (ws.map WAttr.read)) false] ∧
      runS m out = (emitTag m { isEnd := false, name := name, attrs := ws.map WAttr.read } false).1 := by
  rcases step_startTag_shape o ext sub st name attrs rest st' out h with e | ⟨as0, rawTag, aout, mt, hsp, hw, e⟩
  · exact absurd e hne
  · have hn := specialAttrs_names o ext name attrs as0 hsp
    have h1 : ∀ x ∈ as0, x.keep = true → x.a.tmpl = false := by
      intro x hx _
      obtain ⟨a, hmem, ea, _⟩ := hn x hx
      rw [ea]; exact (ha a hmem).1
    have h2 : ∀ x ∈ as0, goodName x.name = true := by
      intro x hx
      obtain ⟨a, hmem, _, en⟩ := hn x hx
      rcases en with en | en
      · rw [en]; exact (ha a hmem).2
      · rw [en]; decide
    obtain ⟨ws, e1, _, _, o1, o2⟩ := html_start_tag_retokenises o ext sub name rawTag as0 none aout mt hw ht h1 h2 m hs hm
    refine ⟨ws, ?_, ?_, ?_⟩
    · rw [e, e1]; simp
    · rw [e]; simpa using o1
    · rw [e]; simpa using o2

end Verif.Proofs.C09HtmlSpecial

import Verif.Model.Stream
/-!
# Invariants of the `Writer` and `Reader` transition systems (helper lemmas for `Props/C12.lean`)

All lemmas are about the *canonical* programs `canonGo dst` / `canonClose`; `Props/C12.lean` transfers
them to every skeleton satisfying `wfWriter` / `wfRespWriter` / `wfReader` (whose compiled goroutine
program and `Close` body equal the canonical ones).
-/
namespace Verif.Proofs.Stream
open Verif Verif.Skel Verif.Model.Stream

/-- the inductive invariant of the `Writer` system; `input` = concatenation of all chunks -/
structure WInv (mf : Option MinFn) (input : Bytes) (s : WState) : Prop where
  gi_le : s.gi ≤ 4
  cj_le : s.cj ≤ 6
  wg_eq : s.wg = if s.gi ≤ 3 then 1 else 0
  rclosed_eq : s.rclosed = decide (3 ≤ s.gi)
  wclosed_eq : s.wclosed = decide (4 ≤ s.cj)
  zclosed_eq : s.zclosed = decide (3 ≤ s.cj)
  cerr_none : s.cerr = none
  closing : 1 ≤ s.cj → s.todo = [] ∧ s.pend = none
  before : s.gi = 0 → s.delivered = [] ∧ s.merr = none
  conserve : ∀ f, mf = some f → s.gi = 0 → s.acc ++ (s.pend.getD []) ++ s.todo.flatten = input
  after : 1 ≤ s.gi → s.delivered = (plain mf input).1 ∧ s.merr = (plain mf input).2
  eof : ∀ f, mf = some f → 1 ≤ s.gi → 4 ≤ s.cj
  stored : 2 ≤ s.gi → s.zerr = (plain mf input).2
  notstored : s.gi ≤ 1 → s.zerr = none
  waited : 5 ≤ s.cj → s.gi = 4
  cres_eq : s.cres = if s.cj = 6 then some (plain mf input).2 else none

theorem winv_init (mf : Option MinFn) (writer : List WAtom) (hw : wgBefore writer = 1)
    (chunks : List Bytes) : WInv mf chunks.flatten (winit writer chunks) := by
  constructor <;> simp [winit, hw]

theorem canonClose_get (j : Nat) : canonClose[j]? =
    (match j with
     | 0 => some WAtom.returnNilIfClosed | 1 => some .setClosed | 2 => some .pipeWriterClose
     | 3 => some .wgWait | 4 => some .returnStoredOrCloseErr | _ => none) := by
  match j with
  | 0 | 1 | 2 | 3 | 4 => rfl
  | j + 5 => simp [canonClose]

theorem canonGo_get (dst : String) (i : Nat) : (canonGo dst)[i]? =
    (match i with
     | 0 => some (WAtom.callMinify dst "pr") | 1 => some .storeErr | 2 => some .pipeReaderClose
     | 3 => some .wgDone | _ => none) := by
  match i with
  | 0 | 1 | 2 | 3 => rfl
  | i + 4 => simp [canonGo]

/-- try every field of the old invariant verbatim -/
syntax "inv_exact " ident : tactic
macro_rules
  | `(tactic| inv_exact $inv) => `(tactic| first
      | exact ($inv).gi_le | exact ($inv).cj_le | exact ($inv).wg_eq | exact ($inv).rclosed_eq
      | exact ($inv).wclosed_eq | exact ($inv).zclosed_eq | exact ($inv).cerr_none | exact ($inv).closing
      | exact ($inv).before | exact ($inv).conserve | exact ($inv).after | exact ($inv).eof
      | exact ($inv).stored | exact ($inv).notstored | exact ($inv).waited | exact ($inv).cres_eq)

/-- the producer preserves the invariant -/
theorem pstep_inv (mf : Option MinFn) (input : Bytes) (s s' : WState)
    (inv : WInv mf input s) (h : pstep canonClose s = some s') : WInv mf input s' := by
  have hcres := inv.cres_eq
  by_cases hc6 : s.cj = 6
  · simp [pstep, hcres, hc6] at h
  have hcj6 : s.cj ≤ 5 := by have := inv.cj_le; omega
  have hcn : s.cres = none := by rw [hcres]; simp [hc6]
  cases hp : s.pend with
  | some rem =>
    by_cases hr : s.rclosed = true
    · have hs : pstep canonClose s = some { s with pend := none, wfail := s.wfail + 1 } := by
        simp [pstep, hcn, hp, hr]
      rw [hs] at h; cases h
      have hgi : 3 ≤ s.gi := by have := inv.rclosed_eq; rw [hr] at this; simpa using this.symm
      constructor <;> simp only <;> try inv_exact inv
      · intro h1; exact ⟨(inv.closing h1).1, trivial⟩
      · intro f hf h0; omega
    · simp [pstep, hcn, hp, hr] at h
  | none =>
    cases ht : s.todo with
    | cons c r =>
      have hcj0 : s.cj = 0 := by
        by_cases h0 : s.cj = 0
        · exact h0
        · have := (inv.closing (by omega)).1; rw [ht] at this; cases this
      by_cases hr : s.rclosed = true
      · have hs : pstep canonClose s = some { s with todo := r, wfail := s.wfail + 1 } := by
          simp [pstep, hcn, hp, ht, hr]
        rw [hs] at h; cases h
        have hgi : 3 ≤ s.gi := by have := inv.rclosed_eq; rw [hr] at this; simpa using this.symm
        constructor <;> simp only <;> try inv_exact inv
        · intro h1; omega
        · intro f hf h0; omega
      · have hs : pstep canonClose s = some { s with todo := r, pend := some c } := by
          simp [pstep, hcn, hp, ht, hr]
        rw [hs] at h; cases h
        constructor <;> simp only <;> try inv_exact inv
        · intro h1; omega
        · intro f hf h0
          have := inv.conserve f hf h0
          rw [hp, ht] at this
          simpa [List.append_assoc] using this
    | nil =>
      by_cases h0 : s.cj = 0
      · have hs : pstep canonClose s = some { s with cj := 1 } := by
          simp [pstep, hcn, hp, ht, h0]
        rw [hs] at h; cases h
        constructor <;> simp only <;> try inv_exact inv
        · omega
        · rw [inv.wclosed_eq, h0]; simp
        · rw [inv.zclosed_eq, h0]; simp
        · intro _; exact ⟨ht, hp⟩
        · intro f hf h1; have := inv.eof f hf h1; omega
        · intro h5; omega
        · simp [hcn]
      · have hcases : s.cj = 1 ∨ s.cj = 2 ∨ s.cj = 3 ∨ s.cj = 4 ∨ s.cj = 5 := by omega
        have hzc := inv.zclosed_eq
        rcases hcases with hj | hj | hj | hj | hj
        · -- returnNilIfClosed, z.closed is false
          have hz : s.zclosed = false := by rw [hzc, hj]; simp
          have hs : pstep canonClose s = some { s with cj := s.cj + 1 } := by
            simp [pstep, hcn, hp, ht, hj, canonClose_get, hz]
          rw [hs] at h; cases h
          constructor <;> simp only <;> try inv_exact inv
          · omega
          · rw [inv.wclosed_eq, hj]; simp
          · rw [inv.zclosed_eq, hj]; simp
          · intro _; exact ⟨ht, hp⟩
          · intro f hf h1; have := inv.eof f hf h1; omega
          · intro h5; omega
          · simp [hcn, hj]
        · -- setClosed
          have hs : pstep canonClose s = some { s with cj := s.cj + 1, zclosed := true } := by
            simp [pstep, hcn, hp, ht, hj, canonClose_get]
          rw [hs] at h; cases h
          constructor <;> simp only <;> try inv_exact inv
          · omega
          · rw [inv.wclosed_eq, hj]; simp
          · simp [hj]
          · intro _; exact ⟨ht, hp⟩
          · intro f hf h1; have := inv.eof f hf h1; omega
          · intro h5; omega
          · simp [hcn, hj]
        · -- pipeWriterClose
          have hs : pstep canonClose s = some { s with cj := s.cj + 1, wclosed := true, cerr := none } := by
            simp [pstep, hcn, hp, ht, hj, canonClose_get]
          rw [hs] at h; cases h
          constructor <;> simp only <;> try inv_exact inv
          · omega
          · simp [hj]
          · rw [inv.zclosed_eq, hj]; simp
          · intro _; exact ⟨ht, hp⟩
          · intro f hf h1; omega
          · intro h5; omega
          · simp [hcn, hj]
        · -- wgWait
          by_cases hw : s.wg = 0
          · have hs : pstep canonClose s = some { s with cj := s.cj + 1 } := by
              simp [pstep, hcn, hp, ht, hj, canonClose_get, hw]
            rw [hs] at h; cases h
            have hgi : s.gi = 4 := by
              have h1 := inv.wg_eq; rw [hw] at h1
              have h2 := inv.gi_le
              by_cases h3 : s.gi ≤ 3
              · simp [h3] at h1
              · omega
            constructor <;> simp only <;> try inv_exact inv
            · omega
            · rw [inv.wclosed_eq, hj]; simp
            · rw [inv.zclosed_eq, hj]; simp
            · intro _; exact ⟨ht, hp⟩
            · intro f hf h1; omega
            · intro _; exact hgi
            · simp [hcn, hj]
          · simp [pstep, hcn, hp, ht, hj, canonClose_get, hw] at h
        · -- returnStoredOrCloseErr
          have hs : pstep canonClose s =
              some { s with cj := canonClose.length + 1, cres := some (s.zerr.or s.cerr) } := by
            simp [pstep, hcn, hp, ht, hj, canonClose_get]
          rw [hs] at h; cases h
          have hgi : s.gi = 4 := inv.waited (by omega)
          have hz := inv.stored (by omega)
          constructor <;> simp only <;> try inv_exact inv
          · simp [canonClose]
          · rw [inv.wclosed_eq, hj]; simp [canonClose]
          · rw [inv.zclosed_eq, hj]; simp [canonClose]
          · intro _; exact ⟨ht, hp⟩
          · intro f hf h1; simp [canonClose]
          · intro _; exact hgi
          · rw [hz, inv.cerr_none]
            simp only [canonClose, List.length_cons, List.length_nil]
            cases (plain mf input).2 <;> simp

/-- the goroutine preserves the invariant -/
theorem gstep_inv (dst : String) (mf : Option MinFn) (input : Bytes) (n : Nat) (s s' : WState)
    (inv : WInv mf input s) (h : gstep (canonGo dst) mf n s = some s') : WInv mf input s' := by
  have hgi : s.gi = 0 ∨ s.gi = 1 ∨ s.gi = 2 ∨ s.gi = 3 ∨ s.gi = 4 := by have := inv.gi_le; omega
  rcases hgi with hi | hi | hi | hi | hi
  · -- callMinify
    cases hm : mf with
    | none =>
      subst hm
      have hs : gstep (canonGo dst) none n s = some { s with gi := s.gi + 1, merr := some .notExist } := by
        simp [gstep, canonGo_get, hi]
      rw [hs] at h; cases h
      have hb := inv.before hi
      constructor <;> simp only <;> try inv_exact inv
      · omega
      · rw [inv.wg_eq, hi]; simp
      · rw [inv.rclosed_eq, hi]; simp
      · intro h0; omega
      · intro f hf; cases hf
      · intro _; simp [plain, hb.1]
      · intro f hf; cases hf
      · intro h2; omega
      · intro _; exact inv.notstored (by omega)
      · intro h5; have := inv.waited h5; omega
    | some f =>
      subst hm
      cases hp : s.pend with
      | some rem =>
        have hcons := inv.conserve f rfl hi
        rw [hp] at hcons
        simp only [Option.getD_some] at hcons
        by_cases hd : rem.drop (min (n + 1) rem.length) = []
        · have hs : gstep (canonGo dst) (some f) n s =
              some { s with acc := s.acc ++ rem, pend := none, wok := s.wok + 1 } := by
            simp [gstep, canonGo_get, hi, hp, hd]
          rw [hs] at h; cases h
          constructor <;> simp only <;> try inv_exact inv
          · intro h1; have := (inv.closing h1).2; rw [hp] at this; cases this
          · intro f' _ _; simpa using hcons
        · have hs : gstep (canonGo dst) (some f) n s =
              some { s with acc := s.acc ++ rem.take (min (n + 1) rem.length),
                            pend := some (rem.drop (min (n + 1) rem.length)) } := by
            simp [gstep, canonGo_get, hi, hp, hd]
          rw [hs] at h; cases h
          constructor <;> simp only <;> try inv_exact inv
          · intro h1; have := (inv.closing h1).2; rw [hp] at this; cases this
          · intro f' _ _
            simp only [Option.getD_some]
            rw [List.append_assoc s.acc, List.take_append_drop]
            exact hcons
      | none =>
        by_cases hw : s.wclosed = true
        · have hs : gstep (canonGo dst) (some f) n s =
              some { s with gi := s.gi + 1, delivered := s.delivered ++ (f s.acc).1, merr := (f s.acc).2 } := by
            simp [gstep, canonGo_get, hi, hp, hw]
          rw [hs] at h; cases h
          have hcj : 4 ≤ s.cj := by have := inv.wclosed_eq; rw [hw] at this; simpa using this.symm
          have htodo := (inv.closing (by omega)).1
          have hcons := inv.conserve f rfl hi
          rw [hp, htodo] at hcons
          simp only [Option.getD_none, List.append_nil, List.flatten_nil] at hcons
          have hb := inv.before hi
          constructor <;> simp only <;> try inv_exact inv
          · omega
          · rw [inv.wg_eq, hi]; simp
          · rw [inv.rclosed_eq, hi]; simp
          · intro h0; omega
          · intro f' _ h0; omega
          · intro _; simp [plain, hb.1, hcons]
          · intro f' _ _; exact hcj
          · intro h2; omega
          · intro _; exact inv.notstored (by omega)
          · intro h5; have := inv.waited h5; omega
        · simp [gstep, canonGo_get, hi, hp, hw] at h
  · -- storeErr
    have hs : gstep (canonGo dst) mf n s =
        some { s with gi := s.gi + 1, zerr := s.merr.or s.zerr } := by
      simp [gstep, canonGo_get, hi]
    rw [hs] at h; cases h
    have ha := inv.after (by omega)
    have hz := inv.notstored (by omega)
    constructor <;> simp only <;> try inv_exact inv
    · omega
    · rw [inv.wg_eq, hi]; simp
    · rw [inv.rclosed_eq, hi]; simp
    · intro h0; omega
    · intro f hf h0; omega
    · intro _; exact ha
    · intro f hf _; exact inv.eof f hf (by omega)
    · intro _; rw [ha.2, hz]; cases (plain mf input).2 <;> rfl
    · intro h1; omega
    · intro h5; have := inv.waited h5; omega
  · -- pipeReaderClose
    have hs : gstep (canonGo dst) mf n s = some { s with gi := s.gi + 1, rclosed := true } := by
      simp [gstep, canonGo_get, hi]
    rw [hs] at h; cases h
    constructor <;> simp only <;> try inv_exact inv
    · omega
    · rw [inv.wg_eq, hi]; simp
    · simp [hi]
    · intro h0; omega
    · intro f hf h0; omega
    · intro _; exact inv.after (by omega)
    · intro f hf _; exact inv.eof f hf (by omega)
    · intro _; exact inv.stored (by omega)
    · intro h1; omega
    · intro h5; have := inv.waited h5; omega
  · -- wgDone
    have hs : gstep (canonGo dst) mf n s = some { s with gi := s.gi + 1, wg := s.wg - 1 } := by
      simp [gstep, canonGo_get, hi]
    rw [hs] at h; cases h
    constructor <;> simp only <;> try inv_exact inv
    · omega
    · rw [inv.wg_eq, hi]; simp
    · rw [inv.rclosed_eq, hi]; simp
    · intro h0; omega
    · intro f hf h0; omega
    · intro _; exact inv.after (by omega)
    · intro f hf _; exact inv.eof f hf (by omega)
    · intro _; exact inv.stored (by omega)
    · intro h1; omega
    · intro _; omega
  · simp [gstep, canonGo_get, hi] at h

/-! ### progress and termination of the `Writer` system -/

/-- no deadlock: in every state satisfying the invariant in which `Close` has not returned or the
    goroutine has not finished, the producer or the goroutine can make a step -/
theorem wprogress (dst : String) (mf : Option MinFn) (input : Bytes) (s : WState)
    (inv : WInv mf input s) (hnt : ¬ (s.cres.isSome = true ∧ 4 ≤ s.gi)) :
    (pstep canonClose s).isSome = true ∨ (gstep (canonGo dst) mf 0 s).isSome = true := by
  have hgi : s.gi = 0 ∨ s.gi = 1 ∨ s.gi = 2 ∨ s.gi = 3 ∨ s.gi = 4 := by have := inv.gi_le; omega
  -- the producer is enabled whenever it is not inside a pending Write, not at wg.Wait, not finished
  have hprod : s.pend = none → s.cj ≤ 3 → (pstep canonClose s).isSome = true := by
    intro hp hj
    have hcn : s.cres = none := by rw [inv.cres_eq]; simp; omega
    cases ht : s.todo with
    | cons c r => by_cases hr : s.rclosed = true <;> simp [pstep, hcn, hp, ht, hr]
    | nil =>
      have hc : s.cj = 0 ∨ s.cj = 1 ∨ s.cj = 2 ∨ s.cj = 3 := by omega
      rcases hc with hj | hj | hj | hj
      · simp [pstep, hcn, hp, ht, hj]
      · by_cases hz : s.zclosed = true <;> simp [pstep, hcn, hp, ht, hj, canonClose_get, hz]
      · simp [pstep, hcn, hp, ht, hj, canonClose_get]
      · simp [pstep, hcn, hp, ht, hj, canonClose_get]
  rcases hgi with hi | hi | hi | hi | hi
  · cases hm : mf with
    | none => right; simp [gstep, canonGo_get, hi]
    | some f =>
      cases hp : s.pend with
      | some rem =>
        right
        by_cases hd : rem.drop (min (0 + 1) rem.length) = [] <;> simp [gstep, canonGo_get, hi, hp, hd]
      | none =>
        by_cases hw : s.wclosed = true
        · right; simp [gstep, canonGo_get, hi, hp, hw]
        · left
          apply hprod hp
          have := inv.wclosed_eq
          by_cases h4 : 4 ≤ s.cj
          · rw [this] at hw; simp [h4] at hw
          · omega
  · right; simp [gstep, canonGo_get, hi]
  · right; simp [gstep, canonGo_get, hi]
  · right; simp [gstep, canonGo_get, hi]
  · left
    have hc6 : s.cj ≠ 6 := by
      intro h6
      apply hnt
      rw [inv.cres_eq]; simp [h6]; omega
    have hcn : s.cres = none := by rw [inv.cres_eq]; simp [hc6]
    have hr : s.rclosed = true := by rw [inv.rclosed_eq]; simp; omega
    cases hp : s.pend with
    | some rem => simp [pstep, hcn, hp, hr]
    | none =>
      by_cases h3 : s.cj ≤ 3
      · exact hprod hp h3
      · have ht := (inv.closing (by omega)).1
        have hw : s.wg = 0 := by rw [inv.wg_eq]; simp; omega
        have hc : s.cj = 4 ∨ s.cj = 5 := by have := inv.cj_le; omega
        rcases hc with hj | hj
        · simp [pstep, hcn, hp, ht, hj, canonClose_get, hw]
        · simp [pstep, hcn, hp, ht, hj, canonClose_get]

/-- a measure that every step strictly decreases: `Close` returns after finitely many steps -/
def wmeasure (s : WState) : Nat :=
  2 * (s.todo.flatten.length + (s.pend.getD []).length) + 3 * s.todo.length +
    (if s.pend.isSome then 2 else 0) + (6 - s.cj) + (4 - s.gi)

theorem pstep_measure (s s' : WState) (hcj : s.cres = none → s.cj ≤ 5)
    (h : pstep canonClose s = some s') : wmeasure s' < wmeasure s := by
  unfold pstep at h
  by_cases hc : s.cres.isSome = true
  · simp [hc] at h
  have hcn : s.cres = none := by simpa using hc
  have hj := hcj hcn
  simp only [hc, Bool.false_eq_true, if_false] at h
  cases hp : s.pend with
  | some rem =>
    rw [hp] at h
    by_cases hr : s.rclosed = true
    · simp only [hr, if_true, Option.some.injEq] at h
      subst h
      simp [wmeasure, hp]; omega
    · simp [hr] at h
  | none =>
    rw [hp] at h
    cases ht : s.todo with
    | cons c r =>
      rw [ht] at h
      by_cases hr : s.rclosed = true
      · simp only [hr, if_true, Option.some.injEq] at h
        subst h
        simp [wmeasure, hp, ht]; omega
      · simp only [hr, Bool.false_eq_true, if_false, Option.some.injEq] at h
        subst h
        simp [wmeasure, hp, ht]; omega
    | nil =>
      rw [ht] at h
      by_cases h0 : s.cj = 0
      · simp only [h0, if_true, Option.some.injEq] at h
        subst h
        simp [wmeasure, hp, ht, h0]
      · simp only [h0, if_false] at h
        have hlen : canonClose.length = 5 := rfl
        split at h
        · split at h <;> (simp only [Option.some.injEq] at h; subst h; simp [wmeasure, hp, ht, hlen]; omega)
        · simp only [Option.some.injEq] at h; subst h; simp [wmeasure, hp, ht]; omega
        · simp only [Option.some.injEq] at h; subst h; simp [wmeasure, hp, ht]; omega
        · split at h
          · simp only [Option.some.injEq] at h; subst h; simp [wmeasure, hp, ht]; omega
          · cases h
        · simp only [Option.some.injEq] at h; subst h; simp [wmeasure, hp, ht, hlen]; omega
        · cases h

theorem gstep_measure (dst : String) (mf : Option MinFn) (n : Nat) (s s' : WState)
    (h : gstep (canonGo dst) mf n s = some s') : wmeasure s' < wmeasure s := by
  unfold gstep at h
  rw [canonGo_get] at h
  have hgi : s.gi = 0 ∨ s.gi = 1 ∨ s.gi = 2 ∨ s.gi = 3 ∨ 4 ≤ s.gi := by omega
  rcases hgi with hi | hi | hi | hi | hi
  · simp only [hi, bne_self_eq_false, Bool.false_eq_true, if_false] at h
    cases hm : mf with
    | none =>
      rw [hm] at h
      simp only [Option.some.injEq] at h
      subst h; simp [wmeasure, hi]
    | some f =>
      rw [hm] at h
      simp only at h
      cases hp : s.pend with
      | some rem =>
        rw [hp] at h
        simp only at h
        by_cases hd : rem.drop (min (n + 1) rem.length) = []
        · simp only [hd, if_true, Option.some.injEq] at h
          subst h; simp [wmeasure, hp]; omega
        · simp only [hd, if_false, Option.some.injEq] at h
          subst h
          have hne : rem ≠ [] := by intro he; subst he; simp at hd
          have hl : 0 < rem.length := List.length_pos_iff.mpr hne
          simp [wmeasure, hp]; omega
      | none =>
        rw [hp] at h
        simp only at h
        by_cases hw : s.wclosed = true
        · simp only [hw, if_true, Option.some.injEq] at h
          subst h; simp [wmeasure, hp, hi]
        · simp [hw] at h
  · simp only [hi, Option.some.injEq] at h; subst h; simp [wmeasure, hi]
  · simp only [hi, Option.some.injEq] at h; subst h; simp [wmeasure, hi]
  · simp only [hi, Option.some.injEq] at h; subst h; simp [wmeasure, hi]
  · have : ∀ k, 4 ≤ k → (match k with
        | 0 => some (WAtom.callMinify dst "pr") | 1 => some .storeErr | 2 => some .pipeReaderClose
        | 3 => some .wgDone | _ => (none : Option WAtom)) = none := by
      intro k hk
      match k with
      | 0 | 1 | 2 | 3 => omega
      | k + 4 => rfl
    rw [this _ hi] at h
    cases h

/-! ### the `Reader` system -/

def canonReaderGo : List WAtom := [.callMinify "pw" "r", .closeWithErrorElseClose]

structure RInv (out : Bytes) (err : Option Err) (s : RState) : Prop where
  gi_le : s.gi ≤ 2
  conserve : s.got ++ (s.pend.getD []) ++ s.outs.flatten = out
  returned : 1 ≤ s.gi → s.outs = [] ∧ s.pend = none ∧ s.merr = err
  wclosed_eq : s.wclosed = if s.gi = 2 then some err else none
  rres_ok : ∀ e, s.rres = some e → e = err ∧ s.got = out

theorem rinv_init (ws : List Bytes) (err : Option Err) : RInv ws.flatten err (rinit ws) := by
  constructor <;> simp [rinit]

theorem canonReaderGo_get (i : Nat) : canonReaderGo[i]? =
    (match i with
     | 0 => some (WAtom.callMinify "pw" "r") | 1 => some .closeWithErrorElseClose | _ => none) := by
  match i with
  | 0 | 1 => rfl
  | i + 2 => simp [canonReaderGo]

theorem rgstep_inv (out : Bytes) (err : Option Err) (s s' : RState) (inv : RInv out err s)
    (h : rgstep canonReaderGo err s = some s') : RInv out err s' := by
  have hgi : s.gi = 0 ∨ s.gi = 1 ∨ s.gi = 2 := by have := inv.gi_le; omega
  rcases hgi with hi | hi | hi
  · cases hp : s.pend with
    | some rem => simp [rgstep, canonReaderGo_get, hi, hp] at h
    | none =>
      cases ho : s.outs with
      | cons w r =>
        have hs : rgstep canonReaderGo err s = some { s with outs := r, pend := some w } := by
          simp [rgstep, canonReaderGo_get, hi, hp, ho]
        rw [hs] at h; cases h
        have hc := inv.conserve
        rw [hp, ho] at hc
        constructor <;> simp only
        · exact inv.gi_le
        · simpa [List.append_assoc] using hc
        · intro h1; omega
        · exact inv.wclosed_eq
        · exact inv.rres_ok
      | nil =>
        have hs : rgstep canonReaderGo err s = some { s with gi := s.gi + 1, merr := err } := by
          simp [rgstep, canonReaderGo_get, hi, hp, ho]
        rw [hs] at h; cases h
        constructor <;> simp only
        · omega
        · exact inv.conserve
        · intro _; simp [ho, hp]
        · rw [inv.wclosed_eq, hi]; simp
        · exact inv.rres_ok
  · have hs : rgstep canonReaderGo err s = some { s with gi := s.gi + 1, wclosed := some s.merr } := by
      simp [rgstep, canonReaderGo_get, hi]
    rw [hs] at h; cases h
    have hr := inv.returned (by omega)
    constructor <;> simp only
    · omega
    · exact inv.conserve
    · intro _; exact hr
    · simp [hi, hr.2.2]
    · exact inv.rres_ok
  · simp [rgstep, canonReaderGo_get, hi] at h

theorem rcstep_inv (out : Bytes) (err : Option Err) (n : Nat) (s s' : RState) (inv : RInv out err s)
    (h : rcstep n s = some s') : RInv out err s' := by
  unfold rcstep at h
  by_cases hr : s.rres.isSome = true
  · simp [hr] at h
  simp only [hr, Bool.false_eq_true, if_false] at h
  have hrn : s.rres = none := by simpa using hr
  cases hp : s.pend with
  | some rem =>
    rw [hp] at h
    simp only [Option.some.injEq] at h
    subst h
    have hc := inv.conserve
    rw [hp] at hc
    simp only [Option.getD_some] at hc
    constructor <;> simp only
    · exact inv.gi_le
    · by_cases hd : rem.drop (min (n + 1) rem.length) = []
      · simp only [hd, if_true, Option.getD_none, List.append_nil]
        have : rem.take (min (n + 1) rem.length) = rem := by
          have := List.take_append_drop (min (n + 1) rem.length) rem
          rw [hd, List.append_nil] at this; exact this
        rw [this]; exact hc
      · simp only [hd, if_false, Option.getD_some]
        rw [List.append_assoc s.got, List.take_append_drop]; exact hc
    · intro h1; have := (inv.returned h1).2.1; rw [hp] at this; cases this
    · exact inv.wclosed_eq
    · intro e he; rw [hrn] at he; cases he
  | none =>
    rw [hp] at h
    simp only at h
    cases hw : s.wclosed with
    | none => rw [hw] at h; cases h
    | some e =>
      rw [hw] at h
      simp only [Option.some.injEq] at h
      subst h
      have hweq := inv.wclosed_eq
      have hg2 : s.gi = 2 := by
        by_cases h2 : s.gi = 2
        · exact h2
        · rw [hw] at hweq; simp [h2] at hweq
      have hret := inv.returned (by omega)
      have hc := inv.conserve
      rw [hret.1, hret.2.1] at hc
      simp only [Option.getD_none, List.append_nil, List.flatten_nil] at hc
      constructor <;> simp only
      · exact inv.gi_le
      · have := inv.conserve; rw [hp] at this; exact this
      · intro h1; simpa [hp] using inv.returned h1
      · rw [← hw]; exact inv.wclosed_eq
      · intro e' he'
        simp only [Option.some.injEq] at he'
        subst he'
        rw [hw] at hweq
        simp only [hg2, if_true, Option.some.injEq] at hweq
        exact ⟨hweq, hc⟩

theorem rprogress (out : Bytes) (err : Option Err) (s : RState) (inv : RInv out err s)
    (hnt : s.rres = none) :
    (rgstep canonReaderGo err s).isSome = true ∨ (rcstep 0 s).isSome = true := by
  cases hp : s.pend with
  | some rem => right; simp [rcstep, hnt, hp]
  | none =>
    have hgi : s.gi = 0 ∨ s.gi = 1 ∨ s.gi = 2 := by have := inv.gi_le; omega
    rcases hgi with hi | hi | hi
    · left
      cases ho : s.outs <;> simp [rgstep, canonReaderGo_get, hi, hp, ho]
    · left; simp [rgstep, canonReaderGo_get, hi]
    · right
      have := inv.wclosed_eq
      simp only [hi, if_true] at this
      simp [rcstep, hnt, hp, this]

end Verif.Proofs.Stream

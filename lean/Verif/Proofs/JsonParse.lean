import Verif.Proofs.Json
/-!
# `parseJ (render ws v) = some v` — helper lemmas (unambiguity of the RFC 8259 grammar, C07 growth)
-/
namespace Verif.Proofs.JsonParse
open Verif.Spec.Json Verif.Model.Json Verif.Proofs.Json

/-! ## whitespace -/

theorem isWs_toChar (c : WsC) : isWs c.toChar = true := by cases c <;> rfl

theorem skipWs_map (l : List WsC) (t : List Char) : skipWs (l.map WsC.toChar ++ t) = skipWs t := by
  induction l with
  | nil => rfl
  | cons c r ih =>
    simp only [List.map_cons, List.cons_append, skipWs, List.dropWhile, isWs_toChar]
    exact ih

theorem skipWs_gap (w : Ws) (g : Nat) (t : List Char) : skipWs (w.gap g ++ t) = skipWs t :=
  skipWs_map _ t

theorem skipWs_cons (c : Char) (t : List Char) (h : isWs c = false) : skipWs (c :: t) = c :: t := by
  simp [skipWs, List.dropWhile, h]

theorem skipWs_gap_nil (w : Ws) (g : Nat) : skipWs (w.gap g) = [] := by
  have := skipWs_gap w g []
  simpa [skipWs] using this

def noNumHead : List Char → Bool
  | [] => true
  | c :: _ => !isNumChar c

theorem noNumHead_map (l : List WsC) (t : List Char) (h : noNumHead t = true) :
    noNumHead (l.map WsC.toChar ++ t) = true := by
  cases l with
  | nil => simpa using h
  | cons c r => cases c <;> rfl

theorem noNumHead_gap (w : Ws) (g : Nat) (t : List Char) (h : noNumHead t = true) :
    noNumHead (w.gap g ++ t) = true := noNumHead_map _ t h

/-! ## strings -/

theorem scanStr_append : ∀ (body : List Char) (st : SSt) (t : List Char), strOk st body = true →
    scanStr st (body ++ t) = some (body, t)
  | [], st, t, h => by cases st <;> simp [strOk] at h
  | c :: r, .norm, t, h => by
    simp only [strOk] at h
    simp only [List.cons_append, scanStr]
    by_cases h1 : (c == '"') = true
    · simp only [h1, if_true] at h ⊢
      have : r = [] := by simpa using h
      subst this
      have : c = '"' := by simpa using h1
      subst this
      rfl
    · simp only [h1] at h ⊢
      by_cases h2 : (c == '\\') = true
      · simp only [h2, if_true] at h ⊢
        simp [scanStr_append r .esc t h]
      · simp only [h2, Bool.false_eq_true, if_false, Bool.and_eq_true, decide_eq_true_eq] at h ⊢
        simp [h.1, scanStr_append r .norm t h.2]
  | c :: r, .esc, t, h => by
    simp only [strOk] at h
    simp only [List.cons_append, scanStr]
    by_cases h1 : (c == 'u') = true
    · simp only [h1, if_true] at h ⊢
      simp [scanStr_append r (.hex 3) t h]
    · simp only [h1, Bool.false_eq_true, if_false, Bool.and_eq_true] at h ⊢
      simp [h.1, scanStr_append r .norm t h.2]
  | c :: r, .hex 0, t, h => by
    simp only [strOk, Bool.and_eq_true] at h
    simp [scanStr, h.1, scanStr_append r .norm t h.2]
  | c :: r, .hex (n + 1), t, h => by
    simp only [strOk, Bool.and_eq_true] at h
    simp [scanStr, h.1, scanStr_append r (.hex n) t h.2]

theorem isJsonString_cons (k : List Char) (h : isJsonString k = true) :
    ∃ body, k = '"' :: body ∧ strOk .norm body = true := by
  unfold isJsonString at h
  split at h
  · exact ⟨_, rfl, h⟩
  · exact absurd h (by simp)

theorem scanString_append (k : List Char) (t : List Char) (h : isJsonString k = true) :
    scanString (k ++ t) = some (k, t) := by
  obtain ⟨body, rfl, hb⟩ := isJsonString_cons k h
  simp [scanString, scanStr_append body .norm t hb]

/-! ## numbers -/

theorem digit_numChar (c : Char) (h : isDigit c = true) : isNumChar c = true := by
  simp [isNumChar, h]

theorem all_digit_numChar (l : List Char) (h : l.all isDigit = true) : l.all isNumChar = true := by
  simp only [List.all_eq_true] at h ⊢
  exact fun c hc => digit_numChar c (h c hc)

theorem takeWhile_all (p : Char → Bool) (l : List Char) : (l.takeWhile p).all p = true := by
  induction l with
  | nil => rfl
  | cons c r ih =>
    by_cases hc : p c = true
    · simp only [List.takeWhile, hc, List.all_cons, Bool.true_and]
      exact ih
    · simp [List.takeWhile, hc]

theorem expBody_numChar (t : List Char) (h : (expBody t).all isDigit = true) : t.all isNumChar = true := by
  unfold expBody at h
  split at h
  · simp only [List.all_cons, Bool.and_eq_true]; exact ⟨rfl, all_digit_numChar _ h⟩
  · simp only [List.all_cons, Bool.and_eq_true]; exact ⟨rfl, all_digit_numChar _ h⟩
  · exact all_digit_numChar _ h

theorem expOk_numChar (x : List Char) (h : expOk x = true) : x.all isNumChar = true := by
  cases x with
  | nil => rfl
  | cons c t =>
    simp only [expOk, digitsNE, Bool.and_eq_true] at h
    simp only [List.all_cons, Bool.and_eq_true]
    refine ⟨?_, expBody_numChar t h.2.2⟩
    have := h.1
    simp only [isE, Bool.or_eq_true, beq_iff_eq] at this
    rcases this with rfl | rfl <;> rfl

theorem fracExpOk_numChar (r1 : List Char) (h : fracExpOk r1 = true) : r1.all isNumChar = true := by
  simp only [fracExpOk, Bool.and_eq_true] at h
  have h2 := expOk_numChar _ h.2
  unfold afterFrac at h2
  split at h2
  · rename_i t
    have : t = t.takeWhile isDigit ++ t.dropWhile isDigit := (List.takeWhile_append_dropWhile).symm
    rw [List.all_cons, this, List.all_append, h2, all_digit_numChar _ (takeWhile_all isDigit t)]
    rfl
  · exact h2

theorem unsignedOk_numChar (u : List Char) (h : unsignedOk u = true) : u.all isNumChar = true := by
  simp only [unsignedOk, Bool.and_eq_true] at h
  have : u = u.takeWhile isDigit ++ u.dropWhile isDigit := (List.takeWhile_append_dropWhile).symm
  rw [this, List.all_append, fracExpOk_numChar _ h.2, all_digit_numChar _ (takeWhile_all isDigit u)]
  rfl

theorem isJsonNumber_numChar (s : List Char) (h : isJsonNumber s = true) : s.all isNumChar = true := by
  unfold isJsonNumber at h
  rcases stripMinus_cases s with ⟨r, rfl, hr⟩ | ⟨he, _⟩
  · rw [hr] at h
    simp only [List.all_cons, Bool.and_eq_true]
    exact ⟨rfl, unsignedOk_numChar r h⟩
  · rw [he] at h; exact unsignedOk_numChar s h

theorem takeWhile_append_stop (p : Char → Bool) : ∀ (s t : List Char), s.all p = true →
    (∀ c r, t = c :: r → p c = false) → (s ++ t).takeWhile p = s ∧ (s ++ t).dropWhile p = t
  | [], t, _, ht => by
    cases t with
    | nil => exact ⟨rfl, rfl⟩
    | cons c r => simp [ht c r rfl]
  | a :: s, t, hs, ht => by
    simp only [List.all_cons, Bool.and_eq_true] at hs
    have ih := takeWhile_append_stop p s t hs.2 ht
    simp [hs.1, ih.1, ih.2]

theorem scanNumber_append (s t : List Char) (h : isJsonNumber s = true) (ht : noNumHead t = true) :
    scanNumber (s ++ t) = some (s, t) := by
  have := takeWhile_append_stop isNumChar s t (isJsonNumber_numChar s h)
    (fun c r hcr => by subst hcr; simpa [noNumHead] using ht)
  simp [scanNumber, this.1, this.2, h]

/-! ## the parser on rendered values -/

mutual
/-- fuel needed by `parseV` -/
def cost : JV → Nat
  | .lit _ => 1
  | .num _ => 1
  | .str _ => 1
  | .arr xs => 1 + costElems xs
  | .obj ms => 1 + costMems ms
def costElems : List JV → Nat
  | [] => 0
  | x :: r => 1 + cost x + costElems r
def costMems : List (List Char × JV) → Nat
  | [] => 0
  | (_, x) :: r => 1 + cost x + costMems r
end

theorem skipWs_pre_cons (w : Ws) (g : Nat) (c : Char) (t : List Char) (h : isWs c = false) :
    skipWs (w.gap g ++ c :: t) = c :: t := by
  rw [skipWs_gap, skipWs_cons c t h]

theorem parseV_num_head (n : Nat) (c : Char) (X : List Char) (hc : (isDigit c || c == '-') = true) :
    parseV (n + 1) (c :: X) = (scanNumber (c :: X)).map (fun (a, b) => (.num a, b)) := by
  have hws : isWs c = false := by
    cases h : isWs c with
    | false => rfl
    | true =>
      simp only [isWs, Bool.or_eq_true, beq_iff_eq] at h
      rcases h with ((rfl | rfl) | rfl) | rfl <;> simp [isDigit] at hc
  simp only [parseV, skipWs_cons c X hws]
  split
  all_goals first
    | rfl
    | (rename_i heq; injection heq with h1 _; subst h1; simp [isDigit] at hc)

theorem parseV_gap (n : Nat) (w : Ws) (g : Nat) (s : List Char) :
    parseV n (w.gap g ++ s) = parseV n s := by
  cases n with
  | zero => simp [parseV]
  | succ m => simp only [parseV, skipWs_gap]

theorem renderElems_false_cons (w : Ws) (i : Nat) (y : JV) (r : List JV) :
    renderElems w i false (y :: r) = ',' :: renderElems w i true (y :: r) := by
  simp [renderElems]

theorem renderMems_false_cons (w : Ws) (i : Nat) (m : List Char × JV) (r : List (List Char × JV)) :
    renderMems w i false (m :: r) = ',' :: renderMems w i true (m :: r) := by
  obtain ⟨k, x⟩ := m
  simp [renderMems]

/-- after the whitespace in front of a well-formed value comes a character that is neither
    whitespace nor a closing bracket -/
theorem render_head (v : JV) (hw : wf v = true) (w : Ws) (t : List Char) :
    ∃ c t', skipWs (render w v ++ t) = c :: t' ∧ c ≠ ']' ∧ c ≠ '}' := by
  cases v with
  | lit l =>
    cases l <;>
      simp only [render, Lit.text, Ws.pre, List.append_assoc, List.cons_append, List.nil_append] <;>
      rw [skipWs_pre_cons _ _ _ _ rfl] <;> exact ⟨_, _, rfl, by decide, by decide⟩
  | num s =>
    have hs : isJsonNumber s = true := by simpa [wf] using hw
    have hsn := isJsonNumber_startsNum s hs
    cases s with
    | nil => simp [startsNum] at hsn
    | cons c r =>
      simp only [startsNum] at hsn
      have hws : isWs c = false := by
        cases h : isWs c with
        | false => rfl
        | true =>
          simp only [isWs, Bool.or_eq_true, beq_iff_eq] at h
          rcases h with ((rfl | rfl) | rfl) | rfl <;> simp [isDigit] at hsn
      simp only [render, Ws.pre, List.append_assoc, List.cons_append]
      rw [skipWs_pre_cons _ _ _ _ hws]
      refine ⟨_, _, rfl, ?_, ?_⟩ <;> (rintro rfl; simp [isDigit] at hsn)
  | str s =>
    obtain ⟨body, rfl, _⟩ := isJsonString_cons s (by simpa [wf] using hw)
    simp only [render, Ws.pre, List.append_assoc, List.cons_append]
    rw [skipWs_pre_cons _ _ _ _ rfl]
    exact ⟨_, _, rfl, by decide, by decide⟩
  | arr xs =>
    cases xs <;> simp only [render, Ws.pre, List.append_assoc, List.cons_append] <;>
      rw [skipWs_pre_cons _ _ _ _ rfl] <;> exact ⟨_, _, rfl, by decide, by decide⟩
  | obj ms =>
    cases ms <;> simp only [render, Ws.pre, List.append_assoc, List.cons_append] <;>
      rw [skipWs_pre_cons _ _ _ _ rfl] <;> exact ⟨_, _, rfl, by decide, by decide⟩

theorem noNumHead_elems (w : Ws) (i : Nat) (r : List JV) (rest : List Char) :
    noNumHead (renderElems w i false r ++ ']' :: rest) = true := by
  cases r with
  | nil => rfl
  | cons y r' => rw [renderElems_false_cons]; rfl

theorem noNumHead_mems (w : Ws) (i : Nat) (r : List (List Char × JV)) (rest : List Char) :
    noNumHead (renderMems w i false r ++ '}' :: rest) = true := by
  cases r with
  | nil => rfl
  | cons y r' => rw [renderMems_false_cons]; rfl

mutual
theorem parseV_render : ∀ (v : JV), wf v = true → ∀ (w : Ws) (rest : List Char) (n : Nat),
    noNumHead rest = true → cost v ≤ n → parseV n (render w v ++ rest) = some (v, w.post ++ rest)
  | .lit l, _, w, rest, n, _, hn => by
    obtain ⟨m, rfl⟩ : ∃ m, n = m + 1 := ⟨n - 1, by simp only [cost] at hn; omega⟩
    cases l <;>
      simp only [render, Lit.text, Ws.pre, List.append_assoc, List.cons_append, List.nil_append,
        parseV_gap] <;>
      simp only [parseV] <;> rw [skipWs_cons _ _ rfl] <;> rfl
  | .num s, hw, w, rest, n, hr, hn => by
    obtain ⟨m, rfl⟩ : ∃ m, n = m + 1 := ⟨n - 1, by simp only [cost] at hn; omega⟩
    have hs : isJsonNumber s = true := by simpa [wf] using hw
    have hsn := isJsonNumber_startsNum s hs
    have hsc := scanNumber_append s (w.post ++ rest) hs (noNumHead_gap w 1 rest hr)
    cases s with
    | nil => simp [startsNum] at hsn
    | cons c t =>
      simp only [startsNum] at hsn
      simp only [render, Ws.pre, List.append_assoc, parseV_gap]
      simp only [List.cons_append] at hsc ⊢
      rw [parseV_num_head m c _ hsn, hsc]
      rfl
  | .str s, hw, w, rest, n, _, hn => by
    obtain ⟨m, rfl⟩ : ∃ m, n = m + 1 := ⟨n - 1, by simp only [cost] at hn; omega⟩
    have hs : isJsonString s = true := by simpa [wf] using hw
    have hsc := scanString_append s (w.post ++ rest) hs
    obtain ⟨body, rfl, _⟩ := isJsonString_cons s hs
    simp only [render, Ws.pre, List.append_assoc, parseV_gap]
    simp only [List.cons_append] at hsc ⊢
    simp only [parseV]
    rw [skipWs_cons _ _ rfl]
    simp only [hsc]
    rfl
  | .arr [], _, w, rest, n, _, hn => by
    obtain ⟨m, rfl⟩ : ∃ m, n = m + 1 := ⟨n - 1, by simp only [cost] at hn; omega⟩
    simp only [render, Ws.pre, Ws.inner, List.append_assoc, List.cons_append, parseV_gap]
    simp only [parseV]
    rw [skipWs_cons _ _ rfl]
    simp only [skipWs_pre_cons w 2 ']' _ rfl]
  | .arr (x :: xs), hw, w, rest, n, hr, hn => by
    obtain ⟨m, rfl⟩ : ∃ m, n = m + 1 := ⟨n - 1, by simp only [cost] at hn; omega⟩
    have hs : wfElems (x :: xs) = true := by simpa [wf] using hw
    have hc : costElems (x :: xs) ≤ m := by simp only [cost] at hn; omega
    have ih := parseElems_render (x :: xs) hs w 0 (w.post ++ rest) m (by simp) hc
    have hx : wf x = true := by
      simp only [wfElems, Bool.and_eq_true] at hs; exact hs.1
    simp only [render, Ws.pre, List.append_assoc, List.cons_append, parseV_gap]
    simp only [parseV]
    rw [skipWs_cons _ _ rfl]
    simp only
    obtain ⟨c, t', hsk, hne, _⟩ := render_head x hx (w.child 0)
      (renderElems w (0 + 1) false xs ++ ']' :: (w.post ++ rest))
    simp only [renderElems, if_true, List.nil_append, List.append_assoc] at ih ⊢
    rw [hsk]
    split
    · rename_i heq; injection heq with h1 _; exact absurd h1 hne
    · rw [ih]; rfl
  | .obj [], _, w, rest, n, _, hn => by
    obtain ⟨m, rfl⟩ : ∃ m, n = m + 1 := ⟨n - 1, by simp only [cost] at hn; omega⟩
    simp only [render, Ws.pre, Ws.inner, List.append_assoc, List.cons_append, parseV_gap]
    simp only [parseV]
    rw [skipWs_cons _ _ rfl]
    simp only [skipWs_pre_cons w 2 '}' _ rfl]
  | .obj ((k, x) :: ms), hw, w, rest, n, hr, hn => by
    obtain ⟨m, rfl⟩ : ∃ m, n = m + 1 := ⟨n - 1, by simp only [cost] at hn; omega⟩
    have hs : wfMems ((k, x) :: ms) = true := by simpa [wf] using hw
    have hc : costMems ((k, x) :: ms) ≤ m := by simp only [cost] at hn; omega
    have ih := parseMems_render ((k, x) :: ms) hs w 0 (w.post ++ rest) m (by simp) hc
    have hk : isJsonString k = true := by
      simp only [wfMems, Bool.and_eq_true] at hs; exact hs.1.1
    obtain ⟨body, rfl, _⟩ := isJsonString_cons k hk
    simp only [render, Ws.pre, List.append_assoc, List.cons_append, parseV_gap]
    simp only [parseV]
    rw [skipWs_cons _ _ rfl]
    simp only
    simp only [renderMems, if_true, List.nil_append, List.append_assoc, Ws.kpre,
      List.cons_append] at ih ⊢
    rw [skipWs_pre_cons _ _ _ _ rfl]
    split
    · rename_i heq; injection heq with h1 _; exact absurd h1 (by decide)
    · rw [ih]; rfl
theorem parseElems_render : ∀ (xs : List JV), wfElems xs = true → ∀ (w : Ws) (i : Nat)
    (rest : List Char) (n : Nat), xs ≠ [] → costElems xs ≤ n →
    parseElems n (renderElems w i true xs ++ ']' :: rest) = some (xs, rest)
  | [], _, _, _, _, _, hne, _ => absurd rfl hne
  | x :: r, hw, w, i, rest, n, _, hn => by
    obtain ⟨m, rfl⟩ : ∃ m, n = m + 1 := ⟨n - 1, by simp only [costElems] at hn; omega⟩
    have hs : wf x = true ∧ wfElems r = true := by simpa [wfElems] using hw
    have hcx : cost x ≤ m := by simp only [costElems] at hn; omega
    have hcr : costElems r ≤ m := by simp only [costElems] at hn; omega
    have h1 := parseV_render x hs.1 (w.child i) (renderElems w (i + 1) false r ++ ']' :: rest) m
      (noNumHead_elems w (i + 1) r rest) hcx
    simp only [renderElems, if_true, List.nil_append, List.append_assoc, parseElems, h1, Ws.post,
      skipWs_gap]
    cases r with
    | nil => simp only [renderElems, List.nil_append]; rw [skipWs_cons _ _ rfl]; rfl
    | cons y r' =>
      have h2 := parseElems_render (y :: r') hs.2 w (i + 1) rest m (by simp) hcr
      rw [renderElems_false_cons, List.cons_append, skipWs_cons _ _ rfl]
      simp only [h2]
      rfl
theorem parseMems_render : ∀ (ms : List (List Char × JV)), wfMems ms = true → ∀ (w : Ws) (i : Nat)
    (rest : List Char) (n : Nat), ms ≠ [] → costMems ms ≤ n →
    parseMems n (renderMems w i true ms ++ '}' :: rest) = some (ms, rest)
  | [], _, _, _, _, _, hne, _ => absurd rfl hne
  | (k, x) :: r, hw, w, i, rest, n, _, hn => by
    obtain ⟨m, rfl⟩ : ∃ m, n = m + 1 := ⟨n - 1, by simp only [costMems] at hn; omega⟩
    have hs : (isJsonString k = true ∧ wf x = true) ∧ wfMems r = true := by simpa [wfMems] using hw
    have hcx : cost x ≤ m := by simp only [costMems] at hn; omega
    have hcr : costMems r ≤ m := by simp only [costMems] at hn; omega
    have h1 := parseV_render x hs.1.2 (w.child i) (renderMems w (i + 1) false r ++ '}' :: rest) m
      (noNumHead_mems w (i + 1) r rest) hcx
    have hk := scanString_append k (w.kpost i ++ ':' :: (render (w.child i) x ++
      (renderMems w (i + 1) false r ++ '}' :: rest))) hs.1.1
    simp only [renderMems, if_true, List.nil_append, List.append_assoc, List.cons_append, parseMems,
      Ws.kpre, skipWs_gap]
    obtain ⟨body, rfl, _⟩ := isJsonString_cons k hs.1.1
    simp only [List.cons_append] at hk ⊢
    rw [skipWs_cons _ _ rfl]
    rw [hk]
    simp only [Ws.kpost, skipWs_pre_cons _ _ ':' _ rfl, h1, Ws.post, skipWs_gap]
    cases r with
    | nil => simp only [renderMems, List.nil_append]; rw [skipWs_cons _ _ rfl]; rfl
    | cons y r' =>
      have h2 := parseMems_render (y :: r') hs.2 w (i + 1) rest m (by simp) hcr
      rw [renderMems_false_cons, List.cons_append, skipWs_cons _ _ rfl]
      simp only [h2]
      rfl
end

/-! ## the fuel of `parseJ` suffices -/

theorem number_len_pos (s : List Char) (h : isJsonNumber s = true) : 1 ≤ s.length := by
  have := isJsonNumber_startsNum s h
  cases s with
  | nil => simp [startsNum] at this
  | cons _ _ => simp

theorem string_len_pos (s : List Char) (h : isJsonString s = true) : 1 ≤ s.length := by
  obtain ⟨_, rfl, _⟩ := isJsonString_cons s h
  simp

mutual
theorem cost_le : ∀ (v : JV), wf v = true → ∀ w : Ws, cost v ≤ 2 * (render w v).length
  | .lit l, _, w => by
    cases l <;> simp only [cost, render, Lit.text, List.length_append, List.length_cons] <;> omega
  | .num s, hw, w => by
    have := number_len_pos s (by simpa [wf] using hw)
    simp only [cost, render, List.length_append]; omega
  | .str s, hw, w => by
    have := string_len_pos s (by simpa [wf] using hw)
    simp only [cost, render, List.length_append]; omega
  | .arr xs, hw, w => by
    have h1 := costElems_le xs (by simpa [wf] using hw) w 0 true
    have h2 := render_arr_len w xs
    simp only [cost]
    simp only [if_true] at h1
    omega
  | .obj ms, hw, w => by
    have h1 := costMems_le ms (by simpa [wf] using hw) w 0 true
    have h2 := render_obj_len w ms
    simp only [cost]
    simp only [if_true] at h1
    omega
theorem costElems_le : ∀ (xs : List JV), wfElems xs = true → ∀ (w : Ws) (i : Nat) (first : Bool),
    costElems xs ≤ 2 * (renderElems w i first xs).length + (if first = true then 1 else 0)
  | [], _, w, i, first => by simp [costElems]
  | x :: r, hw, w, i, first => by
    have hs : wf x = true ∧ wfElems r = true := by simpa [wfElems] using hw
    have h1 := cost_le x hs.1 (w.child i)
    have h2 := costElems_le r hs.2 w (i + 1) false
    simp only [costElems, renderElems, List.length_append]
    cases first <;> simp at h2 ⊢ <;> omega
theorem costMems_le : ∀ (ms : List (List Char × JV)), wfMems ms = true → ∀ (w : Ws) (i : Nat)
    (first : Bool),
    costMems ms ≤ 2 * (renderMems w i first ms).length + (if first = true then 1 else 0)
  | [], _, w, i, first => by simp [costMems]
  | (k, x) :: r, hw, w, i, first => by
    have hs : (isJsonString k = true ∧ wf x = true) ∧ wfMems r = true := by simpa [wfMems] using hw
    have h1 := cost_le x hs.1.2 (w.child i)
    have h2 := costMems_le r hs.2 w (i + 1) false
    simp only [costMems, renderMems, List.length_append, List.length_cons]
    cases first <;> simp at h2 ⊢ <;> omega
end

/-- the executable parser recovers the value from every rendering of it -/
theorem parseJ_render (v : JV) (hw : wf v = true) (w : Ws) : parseJ (render w v) = some v := by
  have hc := cost_le v hw w
  have h := parseV_render v hw w [] (2 * (render w v).length + 2) rfl (by omega)
  simp only [List.append_nil] at h
  simp [parseJ, parseFuel, h, Ws.post, skipWs_gap_nil]

end Verif.Proofs.JsonParse

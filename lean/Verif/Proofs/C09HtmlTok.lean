import Verif.Spec.C09HtmlTok
/-!
# C09 / HTML — basic facts about the tokenizer machine of `Spec/C09HtmlTok.lean`

Composition of runs, the end-of-input action, and equality of the tail-recursive evaluation used by the driver
(`itemsFast`) with the specification (`items`).
-/
deriving instance DecidableEq for Except

namespace Verif.Proofs.C09HtmlTok
open Verif.Spec.C09HtmlTok

theorem runS_append (m : M) (a b : List Char) : runS m (a ++ b) = runS (runS m a) b := by
  induction a generalizing m with
  | nil => rfl
  | cons c a ih => simp only [List.cons_append, runS]; exact ih _

theorem runO_append (m : M) (a b : List Char) : runO m (a ++ b) = runO m a ++ runO (runS m a) b := by
  induction a generalizing m with
  | nil => rfl
  | cons c a ih => simp only [List.cons_append, runO, runS, ih, List.append_assoc]

theorem run_eq (m : M) (s : List Char) : run m s = runO m s ++ finish (runS m s) := by
  induction s generalizing m with
  | nil => rfl
  | cons c s ih => simp only [run, runO, runS, ih, List.append_assoc]

theorem run_append (m : M) (a b : List Char) : run m (a ++ b) = runO m a ++ run (runS m a) b := by
  rw [run_eq, run_eq, runO_append, runS_append, List.append_assoc]

theorem runS_cons (m : M) (c : Char) (s : List Char) : runS m (c :: s) = runS (step m c).1 s := rfl
theorem runO_cons (m : M) (c : Char) (s : List Char) : runO m (c :: s) = (step m c).2 ++ runO (step m c).1 s := rfl
theorem runS_nil (m : M) : runS m [] = m := rfl
theorem runO_nil (m : M) : runO m [] = [] := rfl

/-! ## the driver's evaluation -/

theorem runRev_eq (m : M) (acc : List Tok) (s : List Char) : runRev m acc s = (run m s).reverse ++ acc := by
  induction s generalizing m acc with
  | nil => rfl
  | cons c s ih => simp only [runRev, run, ih, List.reverse_append, List.append_assoc]

theorem coalesceRev_eq (l t : List Tok) : coalesceRev (coalesce t) l = coalesce (l.reverse ++ t) := by
  induction l generalizing t with
  | nil => rfl
  | cons x l ih =>
    cases x with
    | char c r =>
      have h : coalesceRev (coalesce t) (Tok.char c r :: l) = coalesceRev (coalesce (Tok.char c r :: t)) l := by
        simp only [coalesceRev, coalesce]
        split
        · next d r' more heq =>
          simp only [heq]
          split <;> rfl
        · rfl
      rw [h, ih]; simp only [List.reverse_cons, List.append_assoc, List.singleton_append]
    | startTag n a sc => simp only [coalesceRev, List.reverse_cons, List.append_assoc, List.singleton_append]; exact ih (Tok.startTag n a sc :: t)
    | endTag n => simp only [coalesceRev, List.reverse_cons, List.append_assoc, List.singleton_append]; exact ih (Tok.endTag n :: t)
    | comment d => simp only [coalesceRev, List.reverse_cons, List.append_assoc, List.singleton_append]; exact ih (Tok.comment d :: t)
    | doctype d => simp only [coalesceRev, List.reverse_cons, List.append_assoc, List.singleton_append]; exact ih (Tok.doctype d :: t)

/-- the tail-recursive evaluation used by `spec.c09.html.tokens` is the specification -/
theorem itemsFast_eq (scripting : Bool) (doc : List Char) : itemsFast scripting doc = items scripting doc := by
  unfold itemsFast items tokens
  rw [runRev_eq, List.append_nil]
  have := coalesceRev_eq (run { scripting := scripting } doc).reverse []
  simpa [coalesce] using this

end Verif.Proofs.C09HtmlTok

import Verif.Proofs.JsNumberLex
/-!
# C01N — value and recogniser of the specification on structured decimal lexemes
-/
namespace Verif.Proofs.JsNumber
open Verif.Spec.JsNumberSem

/-- lexemes without separators: digits only, a digit before or after the dot, exponent digits present -/
structure DLex.Plain (l : DLex) : Prop where
  ip : AllDig l.ip
  fp : ∀ f, l.fp = some f → AllDig f
  ex : ∀ c sg d, l.ex = some (c, sg, d) →
    (c = 'e' ∨ c = 'E') ∧ (sg = [] ∨ sg = ['+'] ∨ sg = ['-']) ∧ AllDig d ∧ d ≠ []
  ne : l.ip ≠ [] ∨ ∃ f, l.fp = some f ∧ f ≠ []

theorem DLex.Plain.shape {l : DLex} (h : l.Plain) : l.Shape where
  ip := h.ip.allDS
  fp := fun f hf => (h.fp f hf).allDS
  ex := fun c sg d he => by
    obtain ⟨h1, h2, h3, _⟩ := h.ex c sg d he
    exact ⟨h1, h2, h3.allDS⟩

/-- fraction digits (empty without a dot) -/
def DLex.fpd (l : DLex) : List Char := l.fp.getD []

/-- exponent value -/
def DLex.expVal (l : DLex) : Int :=
  match l.ex with
  | none => 0
  | some (_, sg, d) => if sg = ['-'] then -((natOf10 (stripSep d) : Nat) : Int) else ((natOf10 (stripSep d) : Nat) : Int)

/-- mantissa and exponent of the lexeme -/
def DLex.dec (l : DLex) : Nat × Int :=
  (natOf10 (stripSep l.ip ++ stripSep l.fpd), l.expVal - ((stripSep l.fpd).length : Int))

def DLex.val (l : DLex) : Rat := ((l.dec.1 : Nat) : Rat) * (10 : Rat) ^ l.dec.2

theorem signedInt_of_allDS {sg d : List Char} (hs : sg = [] ∨ sg = ['+'] ∨ sg = ['-']) (hd : AllDS d) :
    signedInt (sg ++ d) = (d, decide (sg = ['-'])) := by
  rcases hs with s | s | s <;> subst s
  · simp only [List.nil_append]
    cases d with
    | nil => rfl
    | cons c r =>
      have hc := hd c (by simp)
      have h1 : c ≠ '+' := by
        rcases hc with hc | hc
        · exact digit_ne hc (by decide)
        · subst hc; decide
      have h2 : c ≠ '-' := by
        rcases hc with hc | hc
        · exact digit_ne hc (by decide)
        · subst hc; decide
      unfold signedInt
      split
      · rename_i heq; injection heq with e _; exact absurd e h1
      · rename_i heq; injection heq with e _; exact absurd e h2
      · rfl
  · rfl
  · rfl

theorem expValue_exText (l : DLex) (h : l.Shape) : expValue l.exText = l.expVal := by
  unfold DLex.exText DLex.expVal
  cases hex : l.ex with
  | none => rfl
  | some x =>
    obtain ⟨c, sg, d⟩ := x
    obtain ⟨_, h2, h3⟩ := h.ex c sg d hex
    simp only [Option.map_some, expValue]
    rw [signedInt_of_allDS h2 h3]
    by_cases hs : sg = ['-'] <;> simp [hs]

theorem decDec_str (l : DLex) (h : l.Shape) : decDec l.str = l.dec := by
  unfold decDec DLex.dec DLex.fpd
  simp only [decParts_str l h, expValue_exText l h]

theorem isLegacyOctal_imp_like {s : List Char} (h : isLegacyOctal s = true) : isLegacyLike s = true := by
  unfold isLegacyOctal at h
  split at h
  · rename_i c r
    have hc : isOctDigit c = true := by
      simp only [List.all_cons, Bool.and_eq_true] at h; exact h.1
    unfold isLegacyLike
    simp only [isOctDigit, Bool.and_eq_true, decide_eq_true_eq] at hc
    have : c.isDigit = true := by
      rw [isDigit_iff]
      have h1 := hc.1; have h2 := hc.2
      rw [Char.le_def] at h1 h2
      have e1 : ('0' : Char).val.toNat = 48 := by decide
      have e2 : ('7' : Char).val.toNat = 55 := by decide
      simp only [UInt32.le_iff_toNat_le] at h1 h2
      unfold Char.toNat
      omega
    exact this
  · cases h

theorem mathDec_str (l : DLex) (h : l.Shape) (hnl : isLegacyLike l.str = false) : mathDec l.str = l.dec := by
  unfold mathDec
  have hdc := l.decChar h
  rw [splitSuffix_none hdc]
  simp only
  rw [radixPrefix_none hdc]
  have : isLegacyOctal l.str = false := by
    cases ho : isLegacyOctal l.str with
    | false => rfl
    | true => rw [isLegacyOctal_imp_like ho] at hnl; cases hnl
  simp only [this]
  exact decDec_str l h

theorem mathValue_str (l : DLex) (h : l.Shape) (hnl : isLegacyLike l.str = false) : mathValue l.str = l.val := by
  unfold mathValue DLex.val
  rw [mathDec_str l h hnl]

theorem isBigIntLit_str (l : DLex) (h : l.Shape) : isBigIntLit l.str = false := by
  unfold isBigIntLit
  rw [splitSuffix_none (l.decChar h)]

/-! ## the recogniser on plain lexemes -/

theorem allDig_isDigit {l : List Char} (h : AllDig l) : ∀ c ∈ l, Char.isDigit c = true := h

theorem isLegacyLike_cons_ne {c : Char} (r : List Char) (h : c ≠ '0') : isLegacyLike (c :: r) = false := by
  unfold isLegacyLike
  split
  · rename_i heq; injection heq with e _; exact absurd e.symm (by intro e'; exact h e'.symm)
  · rfl

theorem isDecIntLit_of {ip : List Char} (hd : AllDig ip) (hne : ip ≠ [])
    (h0 : ip = ['0'] ∨ ∀ r, ip ≠ '0' :: r) : isDecIntLit ip = true := by
  rcases h0 with h0 | h0
  · subst h0; rfl
  · cases ip with
    | nil => exact absurd rfl hne
    | cons c r =>
      have hc0 : c ≠ '0' := fun e => h0 r (by rw [e])
      have hcd := hd c (by simp)
      have hnz : isNonZeroDigit c = true := by
        have := (isDigit_iff c).mp hcd
        have hne48 : c.toNat ≠ 48 := by
          intro e; apply hc0
          exact Char.toNat_inj.mp (by rw [e]; rfl)
        simp only [isNonZeroDigit, Bool.and_eq_true, decide_eq_true_eq]
        rw [Char.le_def, Char.le_def]
        simp only [UInt32.le_iff_toNat_le]
        have e1 : ('1' : Char).val.toNat = 49 := by decide
        have e2 : ('9' : Char).val.toNat = 57 := by decide
        unfold Char.toNat at this hne48
        omega
      unfold isDecIntLit
      split
      · rename_i heq; cases heq
      · rename_i heq; injection heq with e _; exact absurd e hc0
      · rename_i heq; injection heq with e _; exact absurd e hc0
      · rename_i heq
        injection heq with e1 e2; subst e1; subst e2
        rw [hnz, Bool.true_and]
        exact sepDigits_of_all hd (by simp)

/-- a plain lexeme that is not of the legacy form `0` *digit* … is a `NumericLiteral` -/
theorem isNumericLiteral_str (l : DLex) (h : l.Plain) (hnl : isLegacyLike l.str = false) :
    isNumericLiteral l.str = true := by
  have hs := h.shape
  have hdc := l.decChar hs
  unfold isNumericLiteral
  rw [splitSuffix_none hdc]
  simp only
  rw [radixPrefix_none hdc]
  simp only [Bool.false_eq_true, if_false, Bool.or_eq_true]
  left
  unfold isDecimalLiteral
  rw [decParts_str l hs]
  simp only
  -- the integer part
  have hip : l.ip = [] ∨ isDecIntLit l.ip = true := by
    cases hipc : l.ip with
    | nil => exact Or.inl rfl
    | cons c r =>
      right
      rw [← hipc]
      apply isDecIntLit_of h.ip (by rw [hipc]; simp)
      by_cases hc : c = '0'
      · subst hc
        cases r with
        | nil => exact Or.inl hipc
        | cons c2 r2 =>
          exfalso
          have hc2 : c2.isDigit = true := h.ip c2 (by rw [hipc]; simp)
          have : isLegacyLike l.str = true := by
            unfold DLex.str; rw [hipc]
            simp only [List.cons_append]
            unfold isLegacyLike; exact hc2
          rw [this] at hnl; cases hnl
      · right; intro r' e; rw [hipc] at e; injection e with e _; exact hc e
  have hex : exOK l.exText = true := by
    unfold DLex.exText
    cases hexc : l.ex with
    | none => rfl
    | some x =>
      obtain ⟨c, sg, d⟩ := x
      obtain ⟨_, h2, h3, h4⟩ := h.ex c sg d hexc
      simp only [Option.map_some, exOK]
      rw [signedInt_of_allDS h2 h3.allDS]
      exact sepDigits_of_all h3 h4
  rw [hex, Bool.and_true]
  cases hfp : l.fp with
  | none =>
    simp only
    rcases hip with e | e
    · exfalso
      rcases h.ne with h1 | ⟨f, h1, _⟩
      · exact h1 e
      · rw [hfp] at h1; cases h1
    · exact e
  | some f =>
    simp only [Bool.or_eq_true, Bool.and_eq_true]
    have hf := h.fp f hfp
    rcases hip with e | e
    · left
      refine ⟨by rw [e]; rfl, ?_⟩
      rcases h.ne with h1 | ⟨f', h1, h2⟩
      · exact absurd e h1
      · rw [hfp] at h1; injection h1 with h1; subst h1
        exact sepDigits_of_all hf h2
    · right
      refine ⟨e, ?_⟩
      cases f with
      | nil => left; rfl
      | cons c r => right; exact sepDigits_of_all hf (by simp)

end Verif.Proofs.JsNumber

import Verif.Spec.JsDeclSem
/-!
# C01D — lemmas about the semantics `Spec.JsDeclSem`: monad laws, declaration items, and the notion
"two statement lists can replace each other inside one function" (`ListEq`) with its congruence rules.
Core Lean only.
-/
namespace Verif.Proofs.JsDecl
open Verif.Spec.JsDeclSem

/-! ## the monad -/

theorem retM_bind {α β : Type} (a : α) (f : α → M β) : bindM (retM a) f = f a := rfl

theorem bindM_assoc {α β γ : Type} (m : M α) (f : α → M β) (g : β → M γ) :
    bindM (bindM m f) g = bindM m (fun a => bindM (f a) g) := by
  funext s
  unfold bindM
  cases m s <;> rfl

theorem bind_retM {α : Type} (m : M α) : bindM m retM = m := by
  funext s
  unfold bindM retM
  cases m s <;> rfl

theorem stuckM_bind {α β : Type} (w : String) (f : α → M β) : bindM (stuckM w) f = stuckM w := rfl

theorem throwV_bind {α β : Type} (v : Val) (f : α → M β) : bindM (throwV v) f = throwV v := rfl

theorem bindM_congr {α β : Type} (m : M α) (f g : α → M β) (h : ∀ a, f a = g a) : bindM m f = bindM m g := by
  have : f = g := funext h
  rw [this]

/-! ## declaration items -/

/-- an item without initialiser -/
def isBare : DE → Bool
  | .var _ _ => true
  | _ => false

theorem evalItems_cons_assign (H : Host) (K : Val → List Val → M Val) (x : String) (a : Ann) (e : DE) (t : List DE)
    (env : Env) :
    evalItems H K (.assign x a e :: t) env = bindM (eval H K (.assign x a e) env) (fun _ => evalItems H K t env) := by
  simp [evalItems]

theorem evalItems_cons_other (H : Host) (K : Val → List Val → M Val) (i : DE) (t : List DE) (env : Env)
    (h : ∀ x a e, i ≠ .assign x a e) : evalItems H K (i :: t) env = evalItems H K t env := by
  cases i <;> simp [evalItems] <;> exact absurd rfl (h _ _ _)

theorem evalItems_cons_bare (H : Host) (K : Val → List Val → M Val) (x : String) (a : Ann) (t : List DE) (env : Env) :
    evalItems H K (.var x a :: t) env = evalItems H K t env := by
  simp [evalItems]

theorem evalItems_append (H : Host) (K : Val → List Val → M Val) (l1 l2 : List DE) (env : Env) :
    evalItems H K (l1 ++ l2) env = bindM (evalItems H K l1 env) (fun _ => evalItems H K l2 env) := by
  induction l1 with
  | nil => simp [evalItems, retM_bind]
  | cons i t ih =>
    cases i with
    | assign x a e =>
      simp only [List.cons_append, evalItems_cons_assign, ih, bindM_assoc]
    | _ => simp [evalItems, ih]

/-- items without initialiser do nothing -/
theorem evalItems_bares (H : Host) (K : Val → List Val → M Val) (l : List DE) (env : Env)
    (h : l.all isBare = true) : evalItems H K l env = retM () := by
  induction l with
  | nil => simp [evalItems]
  | cons i t ih =>
    rw [List.all_cons, Bool.and_eq_true] at h
    cases i <;> first | (simp [isBare] at h; done) | simp [evalItems, ih h.2]

theorem initItems_append (H : Host) (K : Val → List Val → M Val) (c : Bool) (l1 l2 : List DE) (env : Env) :
    initItems H K c (l1 ++ l2) env = bindM (initItems H K c l1 env) (fun _ => initItems H K c l2 env) := by
  induction l1 with
  | nil => simp [initItems, retM_bind]
  | cons i t ih =>
    cases i <;> simp [initItems, ih, bindM_assoc, stuckM_bind]

/-! ## statement lists that can replace each other inside one function -/

theorem meets_congr (a b b' : List String) (h : ∀ x, b.contains x = b'.contains x) : meets a b = meets a b' := by
  unfold meets
  induction a with
  | nil => rfl
  | cons x t ih => simp only [List.any_cons, h x, ih]

theorem lexDeclsL_cons (s : DS) (t : List DS) : lexDeclsL (s :: t) = lexDeclsL [s] ++ lexDeclsL t := by
  cases s with
  | decl k items => cases k <;> simp [lexDeclsL]
  | _ => simp [lexDeclsL]

theorem fnDeclsL_cons (s : DS) (t : List DS) : fnDeclsL (s :: t) = fnDeclsL [s] ++ fnDeclsL t := by
  cases s <;> simp [fnDeclsL]

theorem contains_append (a b : List String) (x : String) : (a ++ b).contains x = (a.contains x || b.contains x) := by
  simp [List.contains_eq_mem, List.mem_append]

theorem meets_or (a b : List String) (f : String → Bool) (b' : List String)
    (h : ∀ x, b'.contains x = (b.contains x || f x)) : meets a b' = (meets a b || a.any f) := by
  unfold meets
  induction a with
  | nil => rfl
  | cons x t ih =>
    simp only [List.any_cons, h x, ih]
    cases b.contains x <;> cases f x <;> simp

/-- `l'` can replace `l` as (part of) a statement list of a function whose `var` names include `added`:
    same execution in every environment and state, same lexical declarations, same functions, same early errors of the
    items; the `var` names of `l'` are those of `l` and `added` -/
structure ListEqA (added : List String) (l l' : List DS) : Prop where
  dyn : ∀ H K env, execL H K l env = execL H K l' env
  lex : lexDeclsL l = lexDeclsL l'
  vars : ∀ x, (varNamesL l').contains x = ((varNamesL l).contains x || added.contains x)
  fns : fnDeclsL l = fnDeclsL l'
  early : earlyItems l = earlyItems l'
  frag : fragL l = fragL l'
  anyFn : l.any isFn = l'.any isFn

structure StmtEqA (added : List String) (s s' : DS) : Prop where
  dyn : ∀ H K env, exec H K s env = exec H K s' env
  lex : lexDeclsL [s] = lexDeclsL [s']
  vars : ∀ x, (varNamesS s').contains x = ((varNamesS s).contains x || added.contains x)
  fns : fnDeclsL [s] = fnDeclsL [s']
  early : earlyS s = earlyS s'
  frag : fragS s = fragS s'
  isFn : isFn s = isFn s'

/-- replacement without new names -/
abbrev ListEq (l l' : List DS) : Prop := ListEqA [] l l'
abbrev StmtEq (s s' : DS) : Prop := StmtEqA [] s s'

theorem ListEqA.refl (l : List DS) : ListEqA [] l l :=
  ⟨fun _ _ _ => rfl, rfl, fun _ => by simp, rfl, rfl, rfl, rfl⟩

theorem StmtEqA.refl (s : DS) : StmtEqA [] s s :=
  ⟨fun _ _ _ => rfl, rfl, fun _ => by simp, rfl, rfl, rfl, rfl⟩

theorem ListEqA.vars_eq {l l' : List DS} (h : ListEqA [] l l') (x : String) :
    (varNamesL l').contains x = (varNamesL l).contains x := by
  simpa using h.vars x

theorem ListEqA.trans {A B : List String} {a b c : List DS} (h1 : ListEqA A a b) (h2 : ListEqA B b c) :
    ListEqA (A ++ B) a c :=
  ⟨fun H K env => (h1.dyn H K env).trans (h2.dyn H K env), h1.lex.trans h2.lex,
   fun x => by rw [h2.vars x, h1.vars x, contains_append, Bool.or_assoc],
   h1.fns.trans h2.fns, h1.early.trans h2.early, h1.frag.trans h2.frag, h1.anyFn.trans h2.anyFn⟩

theorem ListEqA.cons {A : List String} {s s' : DS} {l l' : List DS} (hs : StmtEqA A s s') (hl : ListEqA [] l l') :
    ListEqA A (s :: l) (s' :: l') where
  dyn := by
    intro H K env
    simp only [execL, hs.dyn H K env, hl.dyn H K env]
  lex := by rw [lexDeclsL_cons s, lexDeclsL_cons s', hs.lex, hl.lex]
  vars := by
    intro x
    simp only [varNamesL, contains_append, hs.vars x, hl.vars_eq x]
    cases (varNamesS s).contains x <;> cases A.contains x <;> simp
  fns := by rw [fnDeclsL_cons s, fnDeclsL_cons s', hs.fns, hl.fns]
  early := by simp only [earlyItems, hs.early, hl.early]
  frag := by simp only [fragL, hs.frag, hl.frag]
  anyFn := by simp only [List.any_cons, hs.isFn, hl.anyFn]

theorem ListEqA.cons_same {A : List String} (s : DS) {l l' : List DS} (hl : ListEqA A l l') :
    ListEqA A (s :: l) (s :: l') where
  dyn := by
    intro H K env
    simp only [execL, hl.dyn H K env]
  lex := by rw [lexDeclsL_cons s, lexDeclsL_cons s (t := l'), hl.lex]
  vars := by
    intro x
    simp only [varNamesL, contains_append, hl.vars x, Bool.or_assoc]
  fns := by rw [fnDeclsL_cons s, fnDeclsL_cons s (t := l'), hl.fns]
  early := by simp only [earlyItems, hl.early]
  frag := by simp only [fragL, hl.frag]
  anyFn := by simp only [List.any_cons, hl.anyFn]

theorem ListEqA.append_left {A : List String} (pre : List DS) {l l' : List DS} (hl : ListEqA A l l') :
    ListEqA A (pre ++ l) (pre ++ l') := by
  induction pre with
  | nil => exact hl
  | cons s t ih => exact ListEqA.cons_same s ih

theorem earlyS_block (l : List DS) : earlyS (.block l) = earlyScope [] l := by simp only [earlyS, earlyScope]

theorem earlyS_for (w : Bool) (i : DS) (c p : Option DE) (b : List DS) :
    earlyS (.forS w i c p b) = (constNoInit i || hasDup ((lexDeclsS i).map (·.1))
      || meets ((lexDeclsS i).map (·.1)) (varNamesL b) || earlyScope [] b) := by
  simp only [earlyS, earlyScope]

theorem earlyS_try (b : List DS) (x : String) (a : Ann) (cb : List DS) :
    earlyS (.tryS b x a cb) = (earlyScope [] b || earlyScope [x] cb) := by
  simp only [earlyS, earlyScope]

theorem earlyScope_congr {A : List String} (outer : List String) {l l' : List DS} (h : ListEqA A l l')
    (hA : meets (lexNamesL l) A = false) : earlyScope outer l = earlyScope outer l' := by
  have hm : meets (lexNamesL l) (varNamesL l') = meets (lexNamesL l) (varNamesL l) := by
    rw [meets_or _ _ (fun x => A.contains x) _ h.vars]
    have : (lexNamesL l).any (fun x => A.contains x) = false := hA
    rw [this, Bool.or_false]
  simp only [earlyScope, scopeClash, lexNamesL, ← h.lex, ← h.early]
  simp only [lexNamesL] at hm
  rw [hm]

theorem earlyBody_congr {A : List String} (ps : List String) {l l' : List DS} (h : ListEqA A l l')
    (hA : meets (lexNamesL l) A = false) : earlyBody ps l = earlyBody ps l' := by
  have hm : meets (lexNamesL l) (varNamesL l') = meets (lexNamesL l) (varNamesL l) := by
    rw [meets_or _ _ (fun x => A.contains x) _ h.vars]
    have : (lexNamesL l).any (fun x => A.contains x) = false := hA
    rw [this, Bool.or_false]
  simp only [earlyBody, bodyClash, lexNamesL, ← h.lex, ← h.early, ← h.fns]
  simp only [lexNamesL] at hm
  rw [hm]

theorem StmtEqA.block {A : List String} {l l' : List DS} (h : ListEqA A l l')
    (hA : meets (lexNamesL l) A = false) : StmtEqA A (.block l) (.block l') where
  dyn := by
    intro H K env
    have : execL H K l = execL H K l' := funext (h.dyn H K)
    simp only [exec, h.lex, this]
  lex := rfl
  vars := by intro x; simp only [varNamesS, h.vars x]
  fns := rfl
  early := by simp only [earlyS_block, earlyScope_congr [] h hA]
  frag := by simp only [fragS, h.frag, h.anyFn]
  isFn := rfl

theorem StmtEqA.ifThen {A : List String} (c : DE) (e : DS) {t t' : DS} (ht : StmtEqA A t t') :
    StmtEqA A (.ifS c t e) (.ifS c t' e) where
  dyn := by
    intro H K env
    simp only [exec, ht.dyn H K env]
  lex := rfl
  vars := by
    intro x
    simp only [varNamesS, contains_append, ht.vars x]
    cases (varNamesS t).contains x <;> cases A.contains x <;> simp
  fns := rfl
  early := by simp only [earlyS, ht.early]
  frag := by simp only [fragS, ht.frag, ht.isFn]
  isFn := rfl

theorem StmtEqA.ifElse {A : List String} (c : DE) (t : DS) {e e' : DS} (he : StmtEqA A e e') :
    StmtEqA A (.ifS c t e) (.ifS c t e') where
  dyn := by
    intro H K env
    simp only [exec, he.dyn H K env]
  lex := rfl
  vars := by
    intro x
    simp only [varNamesS, contains_append, he.vars x, Bool.or_assoc]
  fns := rfl
  early := by simp only [earlyS, he.early]
  frag := by simp only [fragS, he.frag, he.isFn]
  isFn := rfl

theorem StmtEqA.forBody {A : List String} (w : Bool) (i : DS) (c p : Option DE) {b b' : List DS}
    (h : ListEqA A b b') (hA : meets (lexNamesL b) A = false)
    (hi : meets ((lexDeclsS i).map (·.1)) A = false) :
    StmtEqA A (.forS w i c p b) (.forS w i c p b') where
  dyn := by
    intro H K env
    have : execL H K b = execL H K b' := funext (h.dyn H K)
    simp only [exec, h.lex, this]
  lex := rfl
  vars := by intro x; simp only [varNamesS, contains_append, h.vars x, Bool.or_assoc]
  fns := rfl
  early := by
    have hm : meets ((lexDeclsS i).map (·.1)) (varNamesL b') = meets ((lexDeclsS i).map (·.1)) (varNamesL b) := by
      rw [meets_or _ _ (fun x => A.contains x) _ h.vars]
      have : ((lexDeclsS i).map (·.1)).any (fun x => A.contains x) = false := hi
      rw [this, Bool.or_false]
    simp only [earlyS_for, earlyScope_congr [] h hA, hm]
  frag := by simp only [fragS, h.frag, h.anyFn]
  isFn := rfl

theorem StmtEqA.tryBody {A : List String} (x : String) (a : Ann) (cb : List DS) {b b' : List DS}
    (hb : ListEqA A b b') (hA : meets (lexNamesL b) A = false) :
    StmtEqA A (.tryS b x a cb) (.tryS b' x a cb) where
  dyn := by
    intro H K env
    have h1 : execL H K b = execL H K b' := funext (hb.dyn H K)
    rw [exec, exec, hb.lex, h1]
  lex := rfl
  vars := by
    intro y
    simp only [varNamesS, contains_append, hb.vars y]
    cases (varNamesL b).contains y <;> cases A.contains y <;> simp
  fns := rfl
  early := by simp only [earlyS_try, earlyScope_congr [] hb hA]
  frag := by simp only [fragS, hb.frag, hb.anyFn]
  isFn := rfl

theorem StmtEqA.catchBody {A : List String} (x : String) (a : Ann) (b : List DS) {cb cb' : List DS}
    (hc : ListEqA A cb cb') (hA : meets (lexNamesL cb) A = false) :
    StmtEqA A (.tryS b x a cb) (.tryS b x a cb') where
  dyn := by
    intro H K env
    have h2 : execL H K cb = execL H K cb' := funext (hc.dyn H K)
    rw [exec, exec, hc.lex, h2]
  lex := rfl
  vars := by intro y; simp only [varNamesS, contains_append, hc.vars y, Bool.or_assoc]
  fns := rfl
  early := by simp only [earlyS_try, earlyScope_congr [x] hc hA]
  frag := by simp only [fragS, hc.frag, hc.anyFn]
  isFn := rfl

/-- a statement replaced inside a list -/
theorem ListEqA.replace {A : List String} (pre rest : List DS) {s s' : DS} (h : StmtEqA A s s') :
    ListEqA A (pre ++ s :: rest) (pre ++ s' :: rest) :=
  ListEqA.append_left pre (ListEqA.cons h (ListEqA.refl rest))

/-! ## a function body / a program may be replaced by an equivalent list -/

/-- every added name is declared by the function anyway (`var`, parameter or function of the body) -/
def declaredIn (ps : List String) (body : List DS) (x : String) : Bool :=
  (varNamesL body).contains x || ps.contains x || ((fnDeclsL body).map (·.1)).contains x

theorem fnScope_congr {A : List String} (ps : List String) (args : List Val) (self : Env) {l l' : List DS}
    (h : ListEqA A l l') (hA : ∀ x, A.contains x = true → declaredIn ps l x = true) :
    fnScope ps args l self = fnScope ps args l' self := by
  funext x
  simp only [fnScope, ← h.fns, ← h.lex, h.vars x]
  cases hx : A.contains x with
  | false => simp
  | true =>
    have hd := hA x hx
    simp only [declaredIn, Bool.or_eq_true] at hd
    rcases hd with (hd | hd) | hd
    · have hm : x ∈ varNamesL l := by simpa using hd
      simp [hm]
    · -- a parameter: found before the `var` names are consulted
      cases h1 : (fnDeclsL l).reverse.find? (fun d => d.1 == x) with
      | some d => rfl
      | none =>
        have : ∃ d, (ps.zip (args ++ List.replicate ps.length Val.undef)).reverse.find? (fun d => d.1 == x) = some d := by
          have hmem : x ∈ ps := by simpa using hd
          have hlen : ps.length ≤ (args ++ List.replicate ps.length Val.undef).length := by simp
          have : ∃ v, (x, v) ∈ ps.zip (args ++ List.replicate ps.length Val.undef) := by
            obtain ⟨i, hi, hxi⟩ := List.getElem_of_mem hmem
            refine ⟨(args ++ List.replicate ps.length Val.undef)[i]'(by omega), ?_⟩
            rw [List.mem_iff_getElem]
            refine ⟨i, by simp; omega, ?_⟩
            simp [hxi]
          obtain ⟨v, hv⟩ := this
          have hv' : (x, v) ∈ (ps.zip (args ++ List.replicate ps.length Val.undef)).reverse := by simpa using hv
          cases hf : (ps.zip (args ++ List.replicate ps.length Val.undef)).reverse.find? (fun d => d.1 == x) with
          | some d => exact ⟨d, rfl⟩
          | none =>
            have := List.find?_eq_none.mp hf (x, v) hv'
            simp at this
        obtain ⟨d, hd2⟩ := this
        simp [hd2]
    · -- a function of the body: found first
      cases h1 : (fnDeclsL l).reverse.find? (fun d => d.1 == x) with
      | some d => rfl
      | none =>
        exfalso
        have hmem : x ∈ (fnDeclsL l).map (·.1) := by simpa using hd
        obtain ⟨d, hdm, hdx⟩ := List.mem_map.mp hmem
        have hd' : d ∈ (fnDeclsL l).reverse := by simpa using hdm
        have := List.find?_eq_none.mp h1 d hd'
        simp [hdx] at this

/-- the result of a call from the result of the body -/
def callResult : Out Compl → Out Val
  | .ok (.ret v) s2 => .ok v s2
  | .ok .normal s2 => .ok .undef s2
  | .thr v s2 => .thr v s2
  | .stuck w => .stuck w

theorem callN_clo (H : Host) (n : Nat) (ps : List String) (body : List DS) (cenv : Env) (args : List Val) (s : St) :
    callN H (n + 1) (.clo ps body cenv) args s =
      callResult (execL H (callN H n) body (s.heap.length :: cenv)
        { s with heap := s.heap ++ [fnScope ps args body (s.heap.length :: cenv)] }) := by
  unfold callN callResult
  rfl

theorem callN_congr {A : List String} (H : Host) (n : Nat) (ps : List String) (cenv : Env) (args : List Val)
    {l l' : List DS} (h : ListEqA A l l') (hA : ∀ x, A.contains x = true → declaredIn ps l x = true) :
    callN H (n + 1) (.clo ps l cenv) args = callN H (n + 1) (.clo ps l' cenv) args := by
  have hd : execL H (callN H n) l = execL H (callN H n) l' := funext (h.dyn H _)
  funext s
  rw [callN_clo, callN_clo, fnScope_congr ps args _ h hA, hd]

theorem globalInst_congr {A : List String} (lexId : Nat) (g : Scope) {l l' : List DS} (h : ListEqA A l l')
    (hA : ∀ x, A.contains x = true → declaredIn [] l x = true) :
    globalInst l lexId g = globalInst l' lexId g := by
  funext x
  simp only [globalInst, ← h.fns, h.vars x]
  cases hx : A.contains x with
  | false => simp
  | true =>
    have hd := hA x hx
    simp only [declaredIn, Bool.or_eq_true] at hd
    rcases hd with (hd | hd) | hd
    · have hm : x ∈ varNamesL l := by simpa using hd
      simp [hm]
    · simp at hd
    · cases h1 : (fnDeclsL l).reverse.find? (fun d => d.1 == x) with
      | some d => rfl
      | none =>
        exfalso
        have hmem : x ∈ (fnDeclsL l).map (·.1) := by simpa using hd
        obtain ⟨d, hdm, hdx⟩ := List.mem_map.mp hmem
        have hd' : d ∈ (fnDeclsL l).reverse := by simpa using hdm
        have := List.find?_eq_none.mp h1 d hd'
        simp [hdx] at this

theorem runProg_congr {A : List String} (H : Host) (depth : Nat) (s0 : St) {l l' : List DS} (h : ListEqA A l l')
    (hA : ∀ x, A.contains x = true → declaredIn [] l x = true) (hL : meets (lexNamesL l) A = false) :
    runProg H depth l s0 = runProg H depth l' s0 := by
  have hg : globalInst l s0.heap.length = globalInst l' s0.heap.length :=
    funext (fun g => globalInst_congr _ g h hA)
  have hd : execL H (callN H depth) l = execL H (callN H depth) l' := funext (h.dyn H _)
  unfold runProg
  simp only [h.frag, earlyBody_congr [] h hL, hg, h.lex, hd]

end Verif.Proofs.JsDecl

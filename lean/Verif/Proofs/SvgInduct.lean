import Verif.Proofs.SvgSound
import Verif.Proofs.SvgVal
/-!
# C05 helper lemmas: induction over the groups / instructions of a path
(model state, spec state on the input side, spec state on the output side)
-/
namespace Verif.Proofs.SvgInduct
open Verif.Spec.SvgPath Verif.Spec.SvgHazard Verif.Model.SvgPath Verif.Proofs.SvgLex Verif.Proofs.SvgGeom
open Verif.Proofs.SvgModel Verif.Proofs.SvgSound Verif.Proofs.SvgVal Verif.Proofs.SvgParse

/-- number printers that keep the exact value and the `minify.Number` shape (C08.1 + C08.5) -/
structure NumExact (P : NumPr) : Prop where
  cur : ∀ s, goodNum (P.cur s) = true ∧ numVal (P.cur s) = numVal s
  alt : ∀ v, goodNum (P.alt v) = true ∧ numVal (P.alt v) = v

/-- `stepCmd` only looks at the current point, the subpath start and (for S / T) the remembered control point -/
theorem stepCmd_congr (S1 S2 : St) (k : Kind) (rel : Bool) (cs : List Coord) (hs : Shaped k cs)
    (hcur : S1.cur = S2.cur) (hst : S1.start = S2.start)
    (hlc : k = .S → S1.lc = S2.lc) (hlq : k = .T → S1.lq = S2.lq) :
    stepCmd S1 ⟨k, rel, vals cs⟩ = stepCmd S2 ⟨k, rel, vals cs⟩ := by
  obtain ⟨hl, hz⟩ := hs
  have ho : off S1 rel = off S2 rel := by unfold off; rw [hcur]
  cases k <;> simp only [Kind.arity] at hl
  case Z => exact absurd rfl hz
  case H => obtain ⟨a, rfl⟩ := len1 cs hl; simp [stepCmd, vals, ho, hcur, hst]
  case V => obtain ⟨a, rfl⟩ := len1 cs hl; simp [stepCmd, vals, ho, hcur, hst]
  case M => obtain ⟨a, b, rfl⟩ := len2 cs hl; simp [stepCmd, vals, ho]
  case L => obtain ⟨a, b, rfl⟩ := len2 cs hl; simp [stepCmd, vals, ho, hcur, hst]
  case T => obtain ⟨a, b, rfl⟩ := len2 cs hl; simp [stepCmd, vals, ho, hcur, hst, hlq rfl]
  case S => obtain ⟨a, b, c, d, rfl⟩ := len4 cs hl; simp [stepCmd, vals, ho, hcur, hst, hlc rfl]
  case Q => obtain ⟨a, b, c, d, rfl⟩ := len4 cs hl; simp [stepCmd, vals, ho, hcur, hst]
  case C => obtain ⟨a, b, c, d, e, f, rfl⟩ := len6 cs hl; simp [stepCmd, vals, ho, hcur, hst]
  case A => obtain ⟨a, b, c, d, e, f, g, rfl⟩ := len7 cs hl; simp [stepCmd, vals, ho, hcur, hst]

/-! ## values of the candidates -/

def CoordOk (k : Kind) (i : Nat) (c : Coord) : Prop :=
  if isFlagIdx k i = true then ((c.lx.headD ' ' == '1') = true ∧ c.v = 1) ∨ ((c.lx.headD ' ' == '1') = false ∧ c.v = 0)
  else c.v = numVal c.lx

def CoordsOk (k : Kind) : Nat → List Coord → Prop
  | _, [] => True
  | i, c :: r => CoordOk k i c ∧ CoordsOk k (i + 1) r

theorem curVals (P : NumPr) (hP : NumExact P) (k : Kind) :
    ∀ (cs : List Coord) (i : Nat), CoordsOk k i cs → (curItemsFrom P k i cs).map itemVal = vals cs := by
  intro cs
  induction cs with
  | nil => intro i _; rfl
  | cons c r ih =>
    intro i h
    obtain ⟨h1, h2⟩ := h
    simp only [curItemsFrom, List.map_cons, vals, List.map] at ih ⊢
    rw [ih (i + 1) h2]
    congr 1
    unfold CoordOk at h1
    cases hf : isFlagIdx k i with
    | true =>
      rw [hf] at h1; simp only [if_true] at h1 ⊢
      rcases h1 with ⟨e1, e2⟩ | ⟨e1, e2⟩
      · simp only [itemVal, e1, if_true, e2]
      · simp only [itemVal, e1, Bool.false_eq_true, if_false, e2]
    | false =>
      rw [hf] at h1; simp only [Bool.false_eq_true, if_false] at h1 ⊢
      simp only [itemVal]; rw [(hP.cur _).2, h1]

theorem altVals (P : NumPr) (hP : NumExact P) (k : Kind) (dx dy : Rat) :
    ∀ (cs : List Coord) (i : Nat), CoordsOk k i cs →
      (altItemsFrom P k dx dy i cs).map itemVal = shiftArgs k dx dy i (vals cs) := by
  intro cs
  induction cs with
  | nil => intro i _; rfl
  | cons c r ih =>
    intro i h
    obtain ⟨h1, h2⟩ := h
    simp only [altItemsFrom, List.map_cons, vals, List.map, shiftArgs] at ih ⊢
    rw [ih (i + 1) h2]
    congr 1
    unfold CoordOk at h1
    cases hf : isFlagIdx k i with
    | true =>
      rw [hf] at h1; simp only [if_true] at h1 ⊢
      have hoff : altOffset k i dx dy = 0 := by
        unfold isFlagIdx at hf
        simp only [Bool.and_eq_true, beq_iff_eq, Bool.or_eq_true] at hf
        rw [hf.1]; unfold altOffset
        rcases hf.2 with h | h <;> simp [h]
      rw [hoff]
      rcases h1 with ⟨_, e2⟩ | ⟨_, e2⟩ <;> simp [itemVal, e2] <;> grind
    | false =>
      rw [hf] at h1; simp only [Bool.false_eq_true, if_false] at h1 ⊢
      simp only [itemVal]; rw [(hP.alt _).2]

/-! ## the rewritten coordinates are a selection of the original ones; arcs are never rewritten -/

def SubOK (k : Kind) (cs : List Coord) (k1 : Kind) (cs1 : List Coord) : Prop :=
  (∀ c ∈ cs1, c ∈ cs) ∧ (k = .A → k1 = .A ∧ cs1 = cs) ∧ (k ≠ .A → k1 ≠ .A)

theorem SubOK.trans {k k1 k2 : Kind} {cs cs1 cs2 : List Coord} (h1 : SubOK k cs k1 cs1) (h2 : SubOK k1 cs1 k2 cs2) :
    SubOK k cs k2 cs2 := by
  unfold SubOK at *
  refine ⟨fun c hc => h1.1 c (h2.1 c hc), fun e => ?_, fun e => h2.2.2 (h1.2.2 e)⟩
  obtain ⟨e1, e2⟩ := h1.2.1 e
  obtain ⟨e3, e4⟩ := h2.2.1 e1
  exact ⟨e3, by rw [e4, e2]⟩

theorem stageC_sub (p a pc : Pt) (rx ry : Rat) (single kS : Bool) (k : Kind) (cs : List Coord) (hs : Shaped k cs) :
    SubOK k cs (stageC p a pc rx ry single kS k cs).2.1 (stageC p a pc rx ry single kS k cs).2.2 := by
  obtain ⟨hl, hz⟩ := hs
  cases k <;> simp only [Kind.arity] at hl
  case Z => exact absurd rfl hz
  case C =>
    obtain ⟨a1, b, c, d, e, f, rfl⟩ := len6 cs hl
    simp only [stageC]
    repeat' split
    all_goals (unfold SubOK; refine ⟨?_, (fun h => by cases h), (fun _ => by simp)⟩; intro x hx; simp only [List.mem_cons, List.not_mem_nil, or_false] at hx ⊢; grind)
  case S =>
    obtain ⟨a1, b, c, d, rfl⟩ := len4 cs hl
    simp only [stageC]
    repeat' split
    all_goals (unfold SubOK; refine ⟨?_, (fun h => by cases h), (fun _ => by simp)⟩; intro x hx; simp only [List.mem_cons, List.not_mem_nil, or_false] at hx ⊢; grind)
  all_goals (simp only [stageC]; unfold SubOK; exact ⟨fun c hc => hc, fun _ => ⟨by first | rfl | assumption, rfl⟩, fun h => h⟩)

theorem stageQ_sub (p a pq : Pt) (rx ry : Rat) (single kT : Bool) (k : Kind) (cs : List Coord) (hs : Shaped k cs) :
    SubOK k cs (stageQ p a pq rx ry single kT k cs).2.1 (stageQ p a pq rx ry single kT k cs).2.2 := by
  obtain ⟨hl, hz⟩ := hs
  cases k <;> simp only [Kind.arity] at hl
  case Z => exact absurd rfl hz
  case Q =>
    obtain ⟨a1, b, c, d, rfl⟩ := len4 cs hl
    simp only [stageQ]
    repeat' split
    all_goals (unfold SubOK; refine ⟨?_, (fun h => by cases h), (fun _ => by simp)⟩; intro x hx; simp only [List.mem_cons, List.not_mem_nil, or_false] at hx ⊢; grind)
  case T =>
    obtain ⟨a1, b, rfl⟩ := len2 cs hl
    simp only [stageQ]
    repeat' split
    all_goals (unfold SubOK; refine ⟨?_, (fun h => by cases h), (fun _ => by simp)⟩; intro x hx; simp only [List.mem_cons, List.not_mem_nil, or_false] at hx ⊢; grind)
  all_goals (simp only [stageQ]; unfold SubOK; exact ⟨fun c hc => hc, fun _ => ⟨by first | rfl | assumption, rfl⟩, fun h => h⟩)

theorem stageL_sub (p a : Pt) (kz : Bool) (k : Kind) (cs : List Coord) (hs : Shaped k cs) :
    SubOK k cs (stageL p a kz k cs).1 (stageL p a kz k cs).2.1 := by
  obtain ⟨hl, hz⟩ := hs
  cases k <;> simp only [Kind.arity] at hl
  case Z => exact absurd rfl hz
  case L =>
    obtain ⟨a1, b, rfl⟩ := len2 cs hl
    simp only [stageL]
    repeat' split
    all_goals (unfold SubOK; refine ⟨?_, (fun h => by cases h), (fun _ => by simp)⟩; intro x hx; simp only [List.mem_cons, List.not_mem_nil, or_false] at hx ⊢; grind)
  all_goals (simp only [stageL]; unfold SubOK; exact ⟨fun c hc => hc, fun _ => ⟨by first | rfl | assumption, rfl⟩, fun h => h⟩)

theorem rewrite_sub (st : MSt) (k : Kind) (rel single : Bool) (cs : List Coord) (ctx : Ctx) (hs : Shaped k cs) :
    SubOK k cs (rewrite st k rel single cs ctx).k (rewrite st k rel single cs ctx).cs := by
  simp only [rewrite]
  have h1 := stageC_sub (st.x, st.y) (endPoint st.x st.y (if rel then st.x else 0) (if rel then st.y else 0) k cs)
    (reflPt st.x st.y st.c) (if rel then st.x else 0) (if rel then st.y else 0) single ctx.nextS k cs hs
  have s1 := stageC_shaped (st.x, st.y) (endPoint st.x st.y (if rel then st.x else 0) (if rel then st.y else 0) k cs)
    (reflPt st.x st.y st.c) (if rel then st.x else 0) (if rel then st.y else 0) single ctx.nextS k cs hs
  have h2 := stageQ_sub (st.x, st.y) (endPoint st.x st.y (if rel then st.x else 0) (if rel then st.y else 0) k cs)
    (reflPt st.x st.y st.q) (if rel then st.x else 0) (if rel then st.y else 0) single ctx.nextT _ _ s1.1
  have s2 := stageQ_shaped (st.x, st.y) (endPoint st.x st.y (if rel then st.x else 0) (if rel then st.y else 0) k cs)
    (reflPt st.x st.y st.q) (if rel then st.x else 0) (if rel then st.y else 0) single ctx.nextT _ _ s1.1
  have h3 := stageL_sub (st.x, st.y) (endPoint st.x st.y (if rel then st.x else 0) (if rel then st.y else 0) k cs)
    ctx.keepZero _ _ s2.1
  exact (h1.trans h2).trans h3

theorem coordsOk_nonA (k : Kind) (hk : k ≠ .A) :
    ∀ (cs : List Coord) (i : Nat), CoordsOk k i cs ↔ ∀ c ∈ cs, c.v = numVal c.lx := by
  have hf : ∀ i, isFlagIdx k i = false := by
    intro i; unfold isFlagIdx
    have : (k == Kind.A) = false := by simpa using hk
    rw [this]; rfl
  intro cs
  induction cs with
  | nil => intro i; simp [CoordsOk]
  | cons c r ih =>
    intro i
    simp only [CoordsOk, CoordOk, hf i, Bool.false_eq_true, if_false, ih (i + 1), List.mem_cons, forall_eq_or_imp]

theorem coords_rewrite (st : MSt) (k : Kind) (rel single : Bool) (cs : List Coord) (ctx : Ctx) (hs : Shaped k cs)
    (hok : CoordsOk k 0 cs) :
    CoordsOk (rewrite st k rel single cs ctx).k 0 (rewrite st k rel single cs ctx).cs := by
  obtain ⟨h1, h2, h3⟩ := rewrite_sub st k rel single cs ctx hs
  by_cases hk : k = .A
  · obtain ⟨e1, e2⟩ := h2 hk
    rw [e1, e2, ← hk]; exact hok
  · rw [coordsOk_nonA _ (h3 hk)]
    rw [coordsOk_nonA _ hk] at hok
    exact fun c hc => hok c (h1 c hc)

/-- the printed group denotes the rewritten command (whichever of the two candidates was chosen) -/
theorem chosen_cmd (P : NumPr) (hP : NumExact P) (st : MSt) (S : St) (hcur : S.cur = (st.x, st.y))
    (k0 : Kind) (rel first : Bool) (r : Rewritten) (hr : Shaped r.k r.cs) (hok : CoordsOk r.k 0 r.cs) :
    stepCmd S (groupCmd st.ps (chosen P st k0 rel first r)) = stepCmd S ⟨r.k, rel, vals r.cs⟩ := by
  have hcurG : GoodItems (curItemsFrom P r.k 0 r.cs) := fun s hs => curItems_good P (fun s => (hP.cur s).1) _ _ _ s hs
  have hz : (r.k == Kind.Z) = false := by
    have := hr.2; cases hk : r.k <;> simp_all
  unfold chosen
  rcases choose_cases st.ps (candidates P st (isMoveFirst k0 first) rel r).1
    (candidates P st (isMoveFirst k0 first) rel r).2 with e | e
  · rw [e]
    simp only [groupCmd, candidates, hz, Bool.false_eq_true, if_false]
    rw [itemsVals_eq _ _ hcurG, curVals P hP r.k r.cs 0 hok]
  · rw [e]
    simp only [groupCmd, candidates, hz, Bool.false_eq_true, if_false]
    have haltG : GoodItems (altItemsFrom P r.k (if rel then st.x else -st.x) (if rel then st.y else -st.y) 0 r.cs) :=
      fun s hs => altItems_good P (fun v => (hP.alt v).1) _ _ _ _ _ s hs
    rw [itemsVals_eq _ _ haltG, altVals P hP r.k _ _ r.cs 0 hok]
    have hlen : (vals r.cs).length = r.k.arity := by simp [vals, hr.1]
    have e1 : S.cur.1 = st.x := by rw [hcur]
    have e2 : S.cur.2 = st.y := by rw [hcur]
    cases rel with
    | true =>
      simp only [if_true, Bool.not_true]
      rw [toggle_rel_abs S r.k (vals r.cs) hlen, e1, e2]
    | false =>
      simp only [Bool.false_eq_true, if_false, Bool.not_false]
      rw [toggle_abs_rel S r.k (vals r.cs) hlen, e1, e2]

end Verif.Proofs.SvgInduct

import Verif.Proofs.SvgSound
import Verif.Proofs.SvgVal
/-!
# C05 helper lemmas: induction over the groups / instructions of a path
(model state, spec state on the input side, spec state on the output side)
-/
namespace Verif.Proofs.SvgInduct
open Verif.Spec.SvgPath Verif.Spec.SvgHazard Verif.Model.SvgPath Verif.Proofs.SvgLex Verif.Proofs.SvgGeom
open Verif.Model.SvgGuard Verif.Proofs.SvgModel Verif.Proofs.SvgSound Verif.Proofs.SvgVal Verif.Proofs.SvgParse

/-- number printers that keep the exact value and the `minify.Number` shape (C08.1 + C08.5) -/
structure NumExact (P : NumPr) : Prop where
  cur : ∀ s, goodNum (P.cur s) = true ∧ numVal (P.cur s) = numVal s
  alt : ∀ v, goodNum (P.alt v) = true ∧ numVal (P.alt v) = v

/-- `stepCmd` only looks at the current point, the subpath start and (for S / T) the remembered control point -/
theorem stepCmd_congr (S1 S2 : St) (k : Kind) (rel : Bool) (cs : List Coord) (hs : Shaped k cs)
    (hcur : S1.cur = S2.cur) (hst : S1.start = S2.start)
    (hlc : k = .S → S1.lc = S2.lc) (hlq : k = .T → S1.lq = S2.lq) :
    stepCmd S1 ⟨k, rel, vals cs⟩ = stepCmd S2 ⟨k, rel, vals cs⟩ := by
  obtain ⟨hl, hz⟩ := hs
  have ho : off S1 rel = off S2 rel := by unfold off; rw [hcur]
  cases k <;> simp only [Kind.arity] at hl
  case Z => exact absurd rfl hz
  case H => obtain ⟨a, rfl⟩ := len1 cs hl; simp [stepCmd, vals, ho, hcur, hst]
  case V => obtain ⟨a, rfl⟩ := len1 cs hl; simp [stepCmd, vals, ho, hcur, hst]
  case M => obtain ⟨a, b, rfl⟩ := len2 cs hl; simp [stepCmd, vals, ho]
  case L => obtain ⟨a, b, rfl⟩ := len2 cs hl; simp [stepCmd, vals, ho, hcur, hst]
  case T => obtain ⟨a, b, rfl⟩ := len2 cs hl; simp [stepCmd, vals, ho, hcur, hst, hlq rfl]
  case S => obtain ⟨a, b, c, d, rfl⟩ := len4 cs hl; simp [stepCmd, vals, ho, hcur, hst, hlc rfl]
  case Q => obtain ⟨a, b, c, d, rfl⟩ := len4 cs hl; simp [stepCmd, vals, ho, hcur, hst]
  case C => obtain ⟨a, b, c, d, e, f, rfl⟩ := len6 cs hl; simp [stepCmd, vals, ho, hcur, hst]
  case A => obtain ⟨a, b, c, d, e, f, g, rfl⟩ := len7 cs hl; simp [stepCmd, vals, ho, hcur, hst]

/-! ## values of the candidates -/

def CoordOk (k : Kind) (i : Nat) (c : Coord) : Prop :=
  if isFlagIdx k i = true then ((c.lx.headD ' ' == '1') = true ∧ c.v = 1) ∨ ((c.lx.headD ' ' == '1') = false ∧ c.v = 0)
  else c.v = numVal c.lx

def CoordsOk (k : Kind) : Nat → List Coord → Prop
  | _, [] => True
  | i, c :: r => CoordOk k i c ∧ CoordsOk k (i + 1) r

theorem curVals (P : NumPr) (hP : NumExact P) (k : Kind) :
    ∀ (cs : List Coord) (i : Nat), CoordsOk k i cs → (curItemsFrom P k i cs).map itemVal = vals cs := by
  intro cs
  induction cs with
  | nil => intro i _; rfl
  | cons c r ih =>
    intro i h
    obtain ⟨h1, h2⟩ := h
    simp only [curItemsFrom, List.map_cons, vals, List.map] at ih ⊢
    rw [ih (i + 1) h2]
    congr 1
    unfold CoordOk at h1
    cases hf : isFlagIdx k i with
    | true =>
      rw [hf] at h1; simp only [if_true] at h1 ⊢
      rcases h1 with ⟨e1, e2⟩ | ⟨e1, e2⟩
      · simp only [itemVal, e1, if_true, e2]
      · simp only [itemVal, e1, Bool.false_eq_true, if_false, e2]
    | false =>
      rw [hf] at h1; simp only [Bool.false_eq_true, if_false] at h1 ⊢
      simp only [itemVal]; rw [(hP.cur _).2, h1]

theorem altVals (P : NumPr) (hP : NumExact P) (k : Kind) (dx dy : Rat) :
    ∀ (cs : List Coord) (i : Nat), CoordsOk k i cs →
      (altItemsFrom P k dx dy i cs).map itemVal = shiftArgs k dx dy i (vals cs) := by
  intro cs
  induction cs with
  | nil => intro i _; rfl
  | cons c r ih =>
    intro i h
    obtain ⟨h1, h2⟩ := h
    simp only [altItemsFrom, List.map_cons, vals, List.map, shiftArgs] at ih ⊢
    rw [ih (i + 1) h2]
    congr 1
    unfold CoordOk at h1
    cases hf : isFlagIdx k i with
    | true =>
      rw [hf] at h1; simp only [if_true] at h1 ⊢
      have hoff : altOffset k i dx dy = 0 := by
        unfold isFlagIdx at hf
        simp only [Bool.and_eq_true, beq_iff_eq, Bool.or_eq_true] at hf
        rw [hf.1]; unfold altOffset
        rcases hf.2 with h | h <;> simp [h]
      rw [hoff]
      rcases h1 with ⟨_, e2⟩ | ⟨_, e2⟩ <;> simp [itemVal, e2] <;> grind
    | false =>
      rw [hf] at h1; simp only [Bool.false_eq_true, if_false] at h1 ⊢
      simp only [itemVal]; rw [(hP.alt _).2]

/-! ## the rewritten coordinates are a selection of the original ones; arcs are never rewritten -/

def SubOK (k : Kind) (cs : List Coord) (k1 : Kind) (cs1 : List Coord) : Prop :=
  (∀ c ∈ cs1, c ∈ cs) ∧ (k = .A → k1 = .A ∧ cs1 = cs) ∧ (k ≠ .A → k1 ≠ .A)

theorem SubOK.trans {k k1 k2 : Kind} {cs cs1 cs2 : List Coord} (h1 : SubOK k cs k1 cs1) (h2 : SubOK k1 cs1 k2 cs2) :
    SubOK k cs k2 cs2 := by
  unfold SubOK at *
  refine ⟨fun c hc => h1.1 c (h2.1 c hc), fun e => ?_, fun e => h2.2.2 (h1.2.2 e)⟩
  obtain ⟨e1, e2⟩ := h1.2.1 e
  obtain ⟨e3, e4⟩ := h2.2.1 e1
  exact ⟨e3, by rw [e4, e2]⟩

theorem stageC_sub (p a pc : Pt) (rx ry : Rat) (single kS : Bool) (k : Kind) (cs : List Coord) (hs : Shaped k cs) :
    SubOK k cs (stageC p a pc rx ry single kS k cs).2.1 (stageC p a pc rx ry single kS k cs).2.2 := by
  obtain ⟨hl, hz⟩ := hs
  cases k <;> simp only [Kind.arity] at hl
  case Z => exact absurd rfl hz
  case C =>
    obtain ⟨a1, b, c, d, e, f, rfl⟩ := len6 cs hl
    simp only [stageC]
    repeat' split
    all_goals (unfold SubOK; refine ⟨?_, (fun h => by cases h), (fun _ => by simp)⟩; intro x hx; simp only [List.mem_cons, List.not_mem_nil, or_false] at hx ⊢; grind)
  case S =>
    obtain ⟨a1, b, c, d, rfl⟩ := len4 cs hl
    simp only [stageC]
    repeat' split
    all_goals (unfold SubOK; refine ⟨?_, (fun h => by cases h), (fun _ => by simp)⟩; intro x hx; simp only [List.mem_cons, List.not_mem_nil, or_false] at hx ⊢; grind)
  all_goals (simp only [stageC]; unfold SubOK; exact ⟨fun c hc => hc, fun _ => ⟨by first | rfl | assumption, rfl⟩, fun h => h⟩)

theorem stageQ_sub (p a pq : Pt) (rx ry : Rat) (single kT : Bool) (k : Kind) (cs : List Coord) (hs : Shaped k cs) :
    SubOK k cs (stageQ p a pq rx ry single kT k cs).2.1 (stageQ p a pq rx ry single kT k cs).2.2 := by
  obtain ⟨hl, hz⟩ := hs
  cases k <;> simp only [Kind.arity] at hl
  case Z => exact absurd rfl hz
  case Q =>
    obtain ⟨a1, b, c, d, rfl⟩ := len4 cs hl
    simp only [stageQ]
    repeat' split
    all_goals (unfold SubOK; refine ⟨?_, (fun h => by cases h), (fun _ => by simp)⟩; intro x hx; simp only [List.mem_cons, List.not_mem_nil, or_false] at hx ⊢; grind)
  case T =>
    obtain ⟨a1, b, rfl⟩ := len2 cs hl
    simp only [stageQ]
    repeat' split
    all_goals (unfold SubOK; refine ⟨?_, (fun h => by cases h), (fun _ => by simp)⟩; intro x hx; simp only [List.mem_cons, List.not_mem_nil, or_false] at hx ⊢; grind)
  all_goals (simp only [stageQ]; unfold SubOK; exact ⟨fun c hc => hc, fun _ => ⟨by first | rfl | assumption, rfl⟩, fun h => h⟩)

theorem stageL_sub (p a : Pt) (kz : Bool) (k : Kind) (cs : List Coord) (hs : Shaped k cs) :
    SubOK k cs (stageL p a kz k cs).1 (stageL p a kz k cs).2.1 := by
  obtain ⟨hl, hz⟩ := hs
  cases k <;> simp only [Kind.arity] at hl
  case Z => exact absurd rfl hz
  case L =>
    obtain ⟨a1, b, rfl⟩ := len2 cs hl
    simp only [stageL]
    repeat' split
    all_goals (unfold SubOK; refine ⟨?_, (fun h => by cases h), (fun _ => by simp)⟩; intro x hx; simp only [List.mem_cons, List.not_mem_nil, or_false] at hx ⊢; grind)
  all_goals (simp only [stageL]; unfold SubOK; exact ⟨fun c hc => hc, fun _ => ⟨by first | rfl | assumption, rfl⟩, fun h => h⟩)

theorem rewrite_sub (st : MSt) (k : Kind) (rel single : Bool) (cs : List Coord) (ctx : Ctx) (hs : Shaped k cs) :
    SubOK k cs (rewrite st k rel single cs ctx).k (rewrite st k rel single cs ctx).cs := by
  simp only [rewrite]
  have h1 := stageC_sub (st.x, st.y) (endPoint st.x st.y (if rel then st.x else 0) (if rel then st.y else 0) k cs)
    (reflPt st.x st.y st.c) (if rel then st.x else 0) (if rel then st.y else 0) single ctx.nextS k cs hs
  have s1 := stageC_shaped (st.x, st.y) (endPoint st.x st.y (if rel then st.x else 0) (if rel then st.y else 0) k cs)
    (reflPt st.x st.y st.c) (if rel then st.x else 0) (if rel then st.y else 0) single ctx.nextS k cs hs
  have h2 := stageQ_sub (st.x, st.y) (endPoint st.x st.y (if rel then st.x else 0) (if rel then st.y else 0) k cs)
    (reflPt st.x st.y st.q) (if rel then st.x else 0) (if rel then st.y else 0) single ctx.nextT _ _ s1.1
  have s2 := stageQ_shaped (st.x, st.y) (endPoint st.x st.y (if rel then st.x else 0) (if rel then st.y else 0) k cs)
    (reflPt st.x st.y st.q) (if rel then st.x else 0) (if rel then st.y else 0) single ctx.nextT _ _ s1.1
  have h3 := stageL_sub (st.x, st.y) (endPoint st.x st.y (if rel then st.x else 0) (if rel then st.y else 0) k cs)
    ctx.keepZero _ _ s2.1
  exact (h1.trans h2).trans h3

theorem coordsOk_nonA (k : Kind) (hk : k ≠ .A) :
    ∀ (cs : List Coord) (i : Nat), CoordsOk k i cs ↔ ∀ c ∈ cs, c.v = numVal c.lx := by
  have hf : ∀ i, isFlagIdx k i = false := by
    intro i; unfold isFlagIdx
    have : (k == Kind.A) = false := by simpa using hk
    rw [this]; rfl
  intro cs
  induction cs with
  | nil => intro i; simp [CoordsOk]
  | cons c r ih =>
    intro i
    simp only [CoordsOk, CoordOk, hf i, Bool.false_eq_true, if_false, ih (i + 1), List.mem_cons, forall_eq_or_imp]

theorem coords_rewrite (st : MSt) (k : Kind) (rel single : Bool) (cs : List Coord) (ctx : Ctx) (hs : Shaped k cs)
    (hok : CoordsOk k 0 cs) :
    CoordsOk (rewrite st k rel single cs ctx).k 0 (rewrite st k rel single cs ctx).cs := by
  obtain ⟨h1, h2, h3⟩ := rewrite_sub st k rel single cs ctx hs
  by_cases hk : k = .A
  · obtain ⟨e1, e2⟩ := h2 hk
    rw [e1, e2, ← hk]; exact hok
  · rw [coordsOk_nonA _ (h3 hk)]
    rw [coordsOk_nonA _ hk] at hok
    exact fun c hc => hok c (h1 c hc)

/-- the printed group denotes the rewritten command (whichever of the two candidates was chosen) -/
theorem chosen_cmd (P : NumPr) (hP : NumExact P) (st : MSt) (S : St) (hcur : S.cur = (st.x, st.y))
    (k0 : Kind) (rel first : Bool) (r : Rewritten) (hr : Shaped r.k r.cs) (hok : CoordsOk r.k 0 r.cs) :
    stepCmd S (groupCmd st.ps (chosen P st k0 rel first r)) = stepCmd S ⟨r.k, rel, vals r.cs⟩ := by
  have hcurG : GoodItems (curItemsFrom P r.k 0 r.cs) := fun s hs => curItems_good P (fun s => (hP.cur s).1) _ _ _ s hs
  have hz : (r.k == Kind.Z) = false := by
    have := hr.2; cases hk : r.k <;> simp_all
  unfold chosen
  rcases choose_cases st.ps (candidates P st (isMoveFirst k0 first) rel r).1
    (candidates P st (isMoveFirst k0 first) rel r).2 with e | e
  · rw [e]
    simp only [groupCmd, candidates, hz, Bool.false_eq_true, if_false]
    rw [itemsVals_eq _ _ hcurG, curVals P hP r.k r.cs 0 hok]
  · rw [e]
    simp only [groupCmd, candidates, hz, Bool.false_eq_true, if_false]
    have haltG : GoodItems (altItemsFrom P r.k (if rel then st.x else -st.x) (if rel then st.y else -st.y) 0 r.cs) :=
      fun s hs => altItems_good P (fun v => (hP.alt v).1) _ _ _ _ _ s hs
    rw [itemsVals_eq _ _ haltG, altVals P hP r.k _ _ r.cs 0 hok]
    have hlen : (vals r.cs).length = r.k.arity := by simp [vals, hr.1]
    have e1 : S.cur.1 = st.x := by rw [hcur]
    have e2 : S.cur.2 = st.y := by rw [hcur]
    cases rel with
    | true =>
      simp only [if_true, Bool.not_true]
      rw [toggle_rel_abs S r.k (vals r.cs) hlen, e1, e2]
    | false =>
      simp only [Bool.false_eq_true, if_false, Bool.not_false]
      rw [toggle_abs_rel S r.k (vals r.cs) hlen, e1, e2]

/-! ## one group: model state, spec state of the input, spec state of the output -/

structure Base (st : MSt) (Sin Sout : St) : Prop where
  cin : Sin.cur = (st.x, st.y)
  cout : Sout.cur = (st.x, st.y)
  sin : Sin.start = (st.x0, st.y0)
  sout : Sout.start = (st.x0, st.y0)

def SyncC (st : MSt) (Sin Sout : St) : Prop := Sin.lc = st.c ∧ Sout.lc = st.c
def SyncQ (st : MSt) (Sin Sout : St) : Prop := Sin.lq = st.q ∧ Sout.lq = st.q

/-- what is known about the remembered control points, by the class of the previous input command -/
def RelP (prev : PrevClass) (st : MSt) (Sin Sout : St) : Prop :=
  match prev with
  | .normal => SyncC st Sin Sout ∧ SyncQ st Sin Sout
  | .degC => SyncQ st Sin Sout
  | .degQ => SyncC st Sin Sout
  | _ => True

theorem relP_of_sync (prev : PrevClass) (st : MSt) (Sin Sout : St) (hc : SyncC st Sin Sout) (hq : SyncQ st Sin Sout) :
    RelP prev st Sin Sout := by
  cases prev <;> simp [RelP, hc, hq]

def runSpec : St → List Cmd → St
  | s, [] => s
  | s, c :: r => runSpec (stepCmd s c).1 r

theorem classify_congr (S1 S2 : St) (c : Cmd) (h : stepCmd S1 c = stepCmd S2 c) : classify S1 c = classify S2 c := by
  unfold classify; rw [h]

theorem rewrite_M (st : MSt) (rel single : Bool) (a b : Coord) (ctx : Ctx) :
    (rewrite st .M rel single [a, b] ctx).skip = false ∧ (rewrite st .M rel single [a, b] ctx).k = .M := by
  simp [rewrite, stageC, stageQ, stageL]

theorem start_M (S : St) (rel : Bool) (cs : List Coord) (hs : Shaped .M cs) :
    (stepCmd S ⟨.M, rel, vals cs⟩).1.start = (stepCmd S ⟨.M, rel, vals cs⟩).1.cur := by
  obtain ⟨a, b, rfl⟩ := len2 cs hs.1
  simp [stepCmd, vals]

theorem groupKind_M (k0 : Kind) (first : Bool) : groupKind k0 first = .M ↔ isMoveFirst k0 first = true := by
  unfold groupKind isMoveFirst
  cases first <;> cases hk : (k0 == Kind.M) <;> simp_all

theorem sync_of_guard (prev : PrevClass) (st : MSt) (Sin Sout : St) (c : Cmd)
    (hr : RelP prev st Sin Sout) (hz : hazardAt prev c = none) :
    (isCubic c.k = true → SyncC st Sin Sout) ∧ (isQuad c.k = true → SyncQ st Sin Sout) := by
  unfold hazardAt at hz
  constructor
  · intro hk
    simp only [hk, Bool.true_or, if_true] at hz
    cases prev <;> simp_all [RelP]
  · intro hk
    simp only [hk, Bool.or_true, if_true] at hz
    cases prev <;> simp_all [RelP]

theorem groupStep_sound (P : NumPr) (hP : NumExact P) (st : MSt) (Sin Sout : St) (prev : PrevClass)
    (k0 : Kind) (rel first single : Bool) (cs : List Coord) (ctx : Ctx)
    (hb : Base st Sin Sout) (hr : RelP prev st Sin Sout)
    (hs : Shaped (groupKind k0 first) cs) (hok : CoordsOk (groupKind k0 first) 0 cs)
    (hz : hazardAt prev ⟨groupKind k0 first, rel, vals cs⟩ = none) :
    (segsFrom Sout (groupsCmds st.ps (groupStep P st k0 rel first single cs ctx).2)).filterMap simp1 =
      (stepCmd Sin ⟨groupKind k0 first, rel, vals cs⟩).2.filterMap simp1 ∧
    Base (groupStep P st k0 rel first single cs ctx).1 (stepCmd Sin ⟨groupKind k0 first, rel, vals cs⟩).1
      (runSpec Sout (groupsCmds st.ps (groupStep P st k0 rel first single cs ctx).2)) ∧
    RelP (classify Sin ⟨groupKind k0 first, rel, vals cs⟩) (groupStep P st k0 rel first single cs ctx).1
      (stepCmd Sin ⟨groupKind k0 first, rel, vals cs⟩).1
      (runSpec Sout (groupsCmds st.ps (groupStep P st k0 rel first single cs ctx).2)) ∧
    (groupStep P st k0 rel first single cs ctx).1.ps = stateAfter st.ps (groupStep P st k0 rel first single cs ctx).2 := by
  generalize hk : groupKind k0 first = k at hs hok hz ⊢
  obtain ⟨hsc, hsq⟩ := sync_of_guard prev st Sin Sout ⟨k, rel, vals cs⟩ hr hz
  have hE : stepCmd Sin ⟨k, rel, vals cs⟩ = stepCmd Sout ⟨k, rel, vals cs⟩ :=
    stepCmd_congr Sin Sout k rel cs hs (by rw [hb.cin, hb.cout]) (by rw [hb.sin, hb.sout])
      (fun e => by have := hsc (by rw [e]; rfl); rw [this.1, this.2])
      (fun e => by have := hsq (by rw [e]; rfl); rw [this.1, this.2])
  have hcl := classify_congr Sin Sout _ hE
  have RW := rewrite_sound st Sout k rel single cs ctx hs hb.cout (fun h => (hsc h).2) (fun h => (hsq h).2)
  have hco := coords_rewrite st k rel single cs ctx hs hok
  unfold groupStep
  rw [hk]
  generalize hrr : rewrite st k rel single cs ctx = r at RW hco
  rw [hE, hcl]
  by_cases hskip : r.skip = true
  · simp only [hskip, if_true, groupsCmds, segsFrom, runSpec, stateAfter, List.filterMap_nil]
    obtain ⟨h1, h2⟩ := RW.skip hskip
    have hkM : k ≠ .M := by
      intro e; subst e
      obtain ⟨a, b, rfl⟩ := len2 cs hs.1
      have := (rewrite_M st rel single a b ctx).1
      rw [hrr, hskip] at this; exact absurd this (by decide)
    refine ⟨h1.symm, ⟨?_, hb.cout, ?_, hb.sout⟩, ?_, by trivial⟩
    · rw [RW.cur, h2, hb.cout]
    · rw [start_nonM Sout rel k cs hkM, hb.sout]
    · rw [RW.skipClass hskip]; trivial
  · have hskip' : r.skip = false := by simpa using hskip
    simp only [hskip', Bool.false_eq_true, if_false, groupsCmds, segsFrom, runSpec, stateAfter, List.append_nil]
    have hch := chosen_cmd P hP st Sout hb.cout k0 rel first r RW.shaped hco
    rw [hch]
    obtain ⟨hst, hlc, hlq⟩ := RW.emit hskip'
    have hcur' : (stepCmd Sout ⟨r.k, rel, vals r.cs⟩).1.cur = (r.ax, r.ay) := by rw [hst.cur, RW.cur]
    refine ⟨hst.segs, ⟨?_, ?_, ?_, ?_⟩, ?_, rfl⟩
    · simp only [advance]; exact RW.cur
    · simp only [advance]; exact hcur'
    · simp only [advance]
      by_cases hM : k = .M
      · have : isMoveFirst k0 first = true := (groupKind_M k0 first).1 (by rw [hk, hM])
        simp only [this, if_true]
        subst hM
        rw [start_M Sout rel cs hs, RW.cur]
      · have : isMoveFirst k0 first = false := by
          cases h : isMoveFirst k0 first with
          | false => rfl
          | true => exact absurd ((groupKind_M k0 first).2 h ▸ hk.symm ▸ rfl) hM
        simp only [this, Bool.false_eq_true, if_false]
        rw [start_nonM Sout rel k cs hM, hb.sout]
    · simp only [advance]
      rw [hst.start]
      by_cases hM : k = .M
      · have : isMoveFirst k0 first = true := (groupKind_M k0 first).1 (by rw [hk, hM])
        simp only [this, if_true]
        subst hM
        rw [start_M Sout rel cs hs, RW.cur]
      · have : isMoveFirst k0 first = false := by
          cases h : isMoveFirst k0 first with
          | false => rfl
          | true => exact absurd ((groupKind_M k0 first).2 h ▸ hk.symm ▸ rfl) hM
        simp only [this, Bool.false_eq_true, if_false]
        rw [start_nonM Sout rel k cs hM, hb.sout]
    · -- control points
      rcases RW.how hskip' with hsame | ⟨hnc, hnq, hdeg⟩
      · apply relP_of_sync
        · exact ⟨by simp only [advance]; rw [← hsame]; exact hlc, by simp only [advance]; exact hlc⟩
        · exact ⟨by simp only [advance]; rw [← hsame]; exact hlq, by simp only [advance]; exact hlq⟩
      · rcases hdeg with ⟨hkc, hcls⟩ | ⟨hkq, hcls⟩
        · rcases hcls with hcls | hcls <;> rw [hcls]
          · trivial
          · have hkq : isQuad k = false := by revert hkc; cases k <;> decide
            refine ⟨?_, ?_⟩
            · simp only [advance]
              rw [lq_nonquad Sout rel k cs hs hkq, ← hlq, lq_nonquad Sout rel r.k r.cs RW.shaped hnq]
            · simp only [advance]; exact hlq
        · rcases hcls with hcls | hcls <;> rw [hcls]
          · trivial
          · have hkc : isCubic k = false := by revert hkq; cases k <;> decide
            refine ⟨?_, ?_⟩
            · simp only [advance]
              rw [lc_noncubic Sout rel k cs hs hkc, ← hlc, lc_noncubic Sout rel r.k r.cs RW.shaped hnc]
            · simp only [advance]; exact hlc

/-! ## lists of groups and instructions -/

theorem segsFrom_append (S : St) (a b : List Cmd) : segsFrom S (a ++ b) = segsFrom S a ++ segsFrom (runSpec S a) b := by
  induction a generalizing S with
  | nil => rfl
  | cons c r ih => simp [segsFrom, runSpec, ih, List.append_assoc]

theorem runSpec_append (S : St) (a b : List Cmd) : runSpec S (a ++ b) = runSpec (runSpec S a) b := by
  induction a generalizing S with
  | nil => rfl
  | cons c r ih => simp [runSpec, ih]

theorem groupsCmds_append (ps : PState) (a b : List OutGroup) :
    groupsCmds ps (a ++ b) = groupsCmds ps a ++ groupsCmds (stateAfter ps a) b := by
  induction a generalizing ps with
  | nil => rfl
  | cons g r ih => simp [groupsCmds, stateAfter, ih]

theorem stateAfter_append (ps : PState) (a b : List OutGroup) :
    stateAfter ps (a ++ b) = stateAfter (stateAfter ps a) b := by
  induction a generalizing ps with
  | nil => rfl
  | cons g r ih => simp [stateAfter, ih]

/-- class of the last command of a list (the given class for the empty list) -/
def classAfter : St → PrevClass → List Cmd → PrevClass
  | _, p, [] => p
  | s, _, c :: r => classAfter (stepCmd s c).1 (classify s c) r

theorem classAfter_append (S : St) (p : PrevClass) (a b : List Cmd) :
    classAfter S p (a ++ b) = classAfter (runSpec S a) (classAfter S p a) b := by
  induction a generalizing S p with
  | nil => rfl
  | cons c r ih => simp [classAfter, runSpec, ih]

theorem hazardsFrom_append (S : St) (p : PrevClass) (a b : List Cmd) :
    hazardsFrom S p (a ++ b) = hazardsFrom S p a ++ hazardsFrom (runSpec S a) (classAfter S p a) b := by
  induction a generalizing S p with
  | nil => rfl
  | cons c r ih => simp [hazardsFrom, classAfter, runSpec, ih, List.append_assoc]

theorem hazardAt_none_of_nil (S : St) (p : PrevClass) (c : Cmd) (r : List Cmd) (h : hazardsFrom S p (c :: r) = []) :
    hazardAt p c = none ∧ hazardsFrom (stepCmd S c).1 (classify S c) r = [] := by
  simp only [hazardsFrom, List.append_eq_nil_iff] at h
  refine ⟨?_, h.2⟩
  cases hh : hazardAt p c with
  | none => rfl
  | some x => rw [hh] at h; simp at h

/-- what holds after a run of groups -/
structure RunOK (P : NumPr) (st : MSt) (Sin Sout : St) (prev : PrevClass) (cmds : List Cmd)
    (res : MSt × List OutGroup) : Prop where
  segs : (segsFrom Sout (groupsCmds st.ps res.2)).filterMap simp1 = (segsFrom Sin cmds).filterMap simp1
  base : Base res.1 (runSpec Sin cmds) (runSpec Sout (groupsCmds st.ps res.2))
  rel : RelP (classAfter Sin prev cmds) res.1 (runSpec Sin cmds) (runSpec Sout (groupsCmds st.ps res.2))
  ps : res.1.ps = stateAfter st.ps res.2

theorem RunOK.nil (P : NumPr) (st : MSt) (Sin Sout : St) (prev : PrevClass) (hb : Base st Sin Sout)
    (hr : RelP prev st Sin Sout) : RunOK P st Sin Sout prev [] (st, []) :=
  ⟨rfl, hb, hr, rfl⟩

/-- sequential composition -/
theorem RunOK.append {P : NumPr} {st : MSt} {Sin Sout : St} {prev : PrevClass} {c1 c2 : List Cmd}
    {r1 r2 : MSt × List OutGroup}
    (h1 : RunOK P st Sin Sout prev c1 r1)
    (h2 : RunOK P r1.1 (runSpec Sin c1) (runSpec Sout (groupsCmds st.ps r1.2)) (classAfter Sin prev c1) c2 r2) :
    RunOK P st Sin Sout prev (c1 ++ c2) (r2.1, r1.2 ++ r2.2) := by
  have hps := h1.ps
  refine ⟨?_, ?_, ?_, ?_⟩
  · simp only [groupsCmds_append, segsFrom_append, List.filterMap_append, h1.segs]
    rw [← hps, h2.segs]
  · simp only [groupsCmds_append, runSpec_append]
    rw [← hps]; exact h2.base
  · simp only [groupsCmds_append, runSpec_append, classAfter_append]
    rw [← hps]; exact h2.rel
  · simp only [stateAfter_append]; rw [← hps]; exact h2.ps

theorem groupLoop_sound (P : NumPr) (hP : NumExact P) (k0 : Kind) (rel single : Bool) (next : Option Kind) :
    ∀ (gs : List (List Coord)) (st : MSt) (Sin Sout : St) (prev : PrevClass) (first : Bool),
    Base st Sin Sout → RelP prev st Sin Sout →
    (∀ g ∈ gs, Shaped k0 g ∧ CoordsOk k0 0 g) → (k0 = .A ∨ k0 ≠ .A) →
    hazardsFrom Sin prev (cmdsOf k0 rel first gs) = [] →
    RunOK P st Sin Sout prev (cmdsOf k0 rel first gs) (groupLoop P k0 rel single next st first gs) := by
  intro gs
  induction gs with
  | nil => intro st Sin Sout prev first hb hr _ _ _; exact RunOK.nil P st Sin Sout prev hb hr
  | cons g r ih =>
    intro st Sin Sout prev first hb hr hg hk hz
    obtain ⟨hz1, hz2⟩ := hazardAt_none_of_nil Sin prev _ _ hz
    obtain ⟨hsg, hcg⟩ := hg g (by simp)
    have hs : Shaped (groupKind k0 first) g := groupKind_shaped k0 first g hsg.2 hsg.1
    have hok : CoordsOk (groupKind k0 first) 0 g := by
      unfold groupKind
      split
      · rename_i h
        simp only [Bool.and_eq_true, beq_iff_eq] at h
        rw [coordsOk_nonA _ (by decide)]
        rw [h.2, coordsOk_nonA _ (by decide)] at hcg
        exact hcg
      · exact hcg
    have h1 := groupStep_sound P hP st Sin Sout prev k0 rel first (first && single) g
      (ctxOf st.ps k0 r.isEmpty next) hb hr hs hok hz1
    have step1 : RunOK P st Sin Sout prev [⟨groupKind k0 first, rel, vals g⟩]
        (groupStep P st k0 rel first (first && single) g (ctxOf st.ps k0 r.isEmpty next)) := by
      refine ⟨?_, ?_, ?_, h1.2.2.2⟩
      · simpa [segsFrom] using h1.1
      · simpa [runSpec] using h1.2.1
      · simpa [runSpec, classAfter] using h1.2.2.1
    have h2 := ih _ _ _ _ false step1.base step1.rel (fun g' hg' => hg g' (by simp [hg'])) hk
      (by simpa [runSpec, classAfter] using hz2)
    have := RunOK.append step1 h2
    simpa [cmdsOf, groupLoop] using this

/-- the coordinates of an instruction carry the exact values of their lexemes (what the scanner produces) -/
def InstrOk (ins : Instr) : Prop :=
  ∀ di, instrArity ins.k ins.cs.length = some di → ∀ g ∈ chunks di ins.cs.length ins.cs, CoordsOk ins.k 0 g

theorem copyInstr_sound (P : NumPr) (hP : NumExact P) (st : MSt) (Sin Sout : St) (prev : PrevClass) (ins : Instr)
    (next : Option Kind) (hb : Base st Sin Sout) (hr : RelP prev st Sin Sout) (hok : InstrOk ins)
    (hz : hazardsFrom Sin prev (instrCmds ins) = []) :
    RunOK P st Sin Sout prev (instrCmds ins) (copyInstr P st ins next) := by
  unfold copyInstr instrCmds at *
  by_cases h0 : (ins.cs.length == 0) = true
  · simp only [h0, if_true] at hz ⊢
    by_cases hZ : (ins.k == Kind.Z) = true
    · simp only [hZ, if_true] at hz ⊢
      have hgc : groupsCmds st.ps [zGroup] = [⟨.Z, true, []⟩] := by
        simp [groupsCmds, groupCmd, zGroup]
      refine ⟨?_, ⟨?_, ?_, ?_, ?_⟩, ?_, rfl⟩
      · simp only [hgc, segsFrom, stepCmd, List.append_nil, hb.cin, hb.cout, hb.sin, hb.sout]
      · simp only [runSpec, stepCmd]; exact hb.sin
      · simp only [hgc, runSpec, stepCmd]; exact hb.sout
      · simp only [runSpec, stepCmd]; exact hb.sin
      · simp only [hgc, runSpec, stepCmd]; exact hb.sout
      · simp only [classAfter, classify]; trivial
    · simp only [hZ, Bool.false_eq_true, if_false] at hz ⊢
      exact RunOK.nil P st Sin Sout prev hb hr
  · simp only [h0, Bool.false_eq_true, if_false] at hz ⊢
    cases hdi : instrArity ins.k ins.cs.length with
    | none => simp only [hdi] at hz ⊢; exact RunOK.nil P st Sin Sout prev hb hr
    | some di =>
      simp only [hdi] at hz ⊢
      obtain ⟨h1, h2, h3⟩ := instrArity_spec _ _ _ hdi
      apply groupLoop_sound P hP ins.k ins.rel _ next _ st Sin Sout prev true hb hr _ (Classical.em _) hz
      intro g hg
      refine ⟨⟨?_, h3⟩, hok di hdi g hg⟩
      rw [← h1]
      exact chunks_len di (by rw [h1]; exact arity_pos _ h3) _ _ h2 g hg

theorem runInstrs_sound (P : NumPr) (hP : NumExact P) (final : Option Kind) :
    ∀ (is : List Instr) (st : MSt) (Sin Sout : St) (prev : PrevClass),
    Base st Sin Sout → RelP prev st Sin Sout → (∀ i ∈ is, InstrOk i) →
    hazardsFrom Sin prev (instrsCmds is) = [] →
    RunOK P st Sin Sout prev (instrsCmds is) (runInstrs P final st is) := by
  intro is
  induction is with
  | nil => intro st Sin Sout prev hb hr _ _; exact RunOK.nil P st Sin Sout prev hb hr
  | cons i r ih =>
    intro st Sin Sout prev hb hr hok hz
    simp only [instrsCmds, hazardsFrom_append, List.append_eq_nil_iff] at hz
    have h1 := copyInstr_sound P hP st Sin Sout prev i (nextKind r final) hb hr
      (hok i (by simp)) hz.1
    have h2 := ih _ _ _ _ h1.base h1.rel (fun j hj => hok j (by simp [hj])) hz.2
    exact RunOK.append h1 h2

/-- **geometry of the chosen groups**: under the guards (no curve command directly after a closepath, a removed
    segment or a degenerate curve of its family) the commands the model prints denote the same absolute segments
    as the input commands, up to `simp1` (zero-length lines dropped, exactly degenerate curves = lines) -/
theorem groups_geometry (P : NumPr) (hP : NumExact P) (is : List Instr) (final : Option Kind)
    (hok : ∀ i ∈ is, InstrOk i) (hz : noHazard (instrsCmds is) = true) :
    (absSegments (groupsCmds {} (groupsOfInstrs P is final))).filterMap simp1 =
      (absSegments (instrsCmds is)).filterMap simp1 := by
  have hz' : hazardsFrom {} .normal (instrsCmds is) = [] := by
    unfold noHazard hazards at hz; simpa using hz
  have h := runInstrs_sound P hP final is {} {} {} .normal ⟨rfl, rfl, rfl, rfl⟩ ⟨⟨rfl, rfl⟩, ⟨rfl, rfl⟩⟩ hok hz'
  exact h.segs

/-! ## decidable form of the scanner-side guards -/

theorem coordsOk_of_B (k : Kind) : ∀ (cs : List Coord) (i : Nat), coordsOkB k i cs = true → CoordsOk k i cs := by
  intro cs
  induction cs with
  | nil => intro i _; trivial
  | cons c r ih =>
    intro i h
    simp only [coordsOkB, Bool.and_eq_true] at h
    refine ⟨?_, ih _ h.2⟩
    have h1 := h.1
    unfold coordOkB at h1
    unfold CoordOk
    cases hf : isFlagIdx k i with
    | true =>
      simp only [hf, if_true, Bool.or_eq_true, Bool.and_eq_true, beq_iff_eq, Bool.not_eq_true'] at h1 ⊢
      rcases h1 with ⟨a, b⟩ | ⟨a, b⟩
      · exact Or.inl ⟨by simpa using a, b⟩
      · exact Or.inr ⟨by simpa using a, b⟩
    | false =>
      simp only [hf, Bool.false_eq_true, if_false, beq_iff_eq] at h1 ⊢
      exact h1

theorem instrOk_of_B (ins : Instr) (h : instrOkB ins = true) : InstrOk ins := by
  intro di hdi g hg
  unfold instrOkB at h
  rw [hdi] at h
  simp only [List.all_eq_true] at h
  exact coordsOk_of_B _ _ _ (h g hg)

/-! ## repeated closepath letters -/

theorem stepCmd_segs (S : St) (c : Cmd) : (stepCmd S c).2 = [] ∨ ∃ sg, (stepCmd S c).2 = [sg] := by
  unfold stepCmd
  split <;> simp

theorem dedupClose_single (p : Bool) (sg : Seg) (rest : List Seg) :
    dedupClose p ([sg] ++ rest) = (if isClose sg && p then [] else [sg]) ++ dedupClose (isClose sg) rest := by
  simp only [List.cons_append, List.nil_append, dedupClose]
  cases h : isClose sg <;> cases p <;> simp

theorem mergeZ_norm : ∀ (cmds : List Cmd) (prev : Option Bool) (S : St) (p : Bool),
    (prev.isSome = true → S.cur = S.start ∧ S.lc = none ∧ S.lq = none ∧ p = true) →
    dedupClose p ((segsFrom S (mergeZGo prev cmds)).filterMap simp1) =
      dedupClose p ((segsFrom S cmds).filterMap simp1) := by
  intro cmds
  induction cmds with
  | nil => intro prev S p _; rfl
  | cons c r ih =>
    intro prev S p hinv
    by_cases hm : (isZ c && prev == some c.rel) = true
    · -- merged away
      simp only [mergeZGo, hm, if_true]
      simp only [Bool.and_eq_true, beq_iff_eq] at hm
      obtain ⟨hz, hp⟩ := hm
      obtain ⟨h1, h2, h3, h4⟩ := hinv (by rw [hp]; rfl)
      have hk : c.k = .Z ∧ c.a = [] := by
        unfold isZ at hz; simp only [Bool.and_eq_true, beq_iff_eq, List.isEmpty_iff] at hz; exact hz
      have hstep : stepCmd S c = (S, [.close S.cur S.start]) := by
        obtain ⟨k, rel, a⟩ := c
        simp only at hk
        obtain ⟨rfl, rfl⟩ := hk
        simp only [stepCmd]
        congr 1
        obtain ⟨cur, start, lc, lq⟩ := S
        simp only at h1 h2 h3
        subst h1; subst h2; subst h3; rfl
      rw [ih prev S p hinv]
      simp only [segsFrom, hstep, List.cons_append, List.nil_append, List.filterMap_cons, simp1, dedupClose, isClose, h4,
        if_true]
    · simp only [mergeZGo, hm, Bool.false_eq_true, if_false, segsFrom, List.filterMap_append]
      have hpre : (stepCmd S c).2.filterMap simp1 = [] ∨ ∃ sg, (stepCmd S c).2.filterMap simp1 = [sg] := by
        rcases stepCmd_segs S c with h | ⟨sg, h⟩
        · left; rw [h]; rfl
        · rw [h, filterMap_single]
          cases simp1 sg with
          | none => left; rfl
          | some x => right; exact ⟨x, rfl⟩
      rcases hpre with hf | ⟨sg, hf⟩
      · rw [hf]
        simp only [List.nil_append]
        apply ih
        intro hsome
        -- a closepath always leaves a segment
        exfalso
        cases hz : isZ c with
        | false => simp [hz] at hsome
        | true =>
          unfold isZ at hz; simp only [Bool.and_eq_true, beq_iff_eq, List.isEmpty_iff] at hz
          obtain ⟨k, rel, a⟩ := c
          simp only at hz
          obtain ⟨rfl, rfl⟩ := hz
          simp [stepCmd, simp1] at hf
      · rw [hf, dedupClose_single, dedupClose_single]
        congr 1
        apply ih
        intro hsome
        cases hz : isZ c with
        | false => simp [hz] at hsome
        | true =>
          unfold isZ at hz; simp only [Bool.and_eq_true, beq_iff_eq, List.isEmpty_iff] at hz
          obtain ⟨k, rel, a⟩ := c
          simp only at hz
          obtain ⟨rfl, rfl⟩ := hz
          simp only [stepCmd, filterMap_single, simp1, Option.toList, List.cons.injEq] at hf
          refine ⟨by simp [stepCmd], by simp [stepCmd], by simp [stepCmd], ?_⟩
          rw [← hf.1]; rfl

/-- `≃` does not see repeated closepath letters -/
theorem mergeZ_equiv (cmds : List Cmd) : norm (absSegments (mergeZ cmds)) = norm (absSegments cmds) :=
  mergeZ_norm cmds none {} false (by intro h; simp at h)

end Verif.Proofs.SvgInduct

import Verif.Model.Num
import Verif.Spec.Num
/-!
# C08 — helper lemmas: lists of digits, zero stripping, digit values, `lenInt`
-/
namespace Verif.Proofs.Num
open Verif.Model.Num

/-! ## takeWhile / dropWhile over an append -/

theorem takeWhile_append_stop {p : Char → Bool} {a b : List Char}
    (ha : ∀ x ∈ a, p x = true) (hb : ∀ c t, b = c :: t → p c = false) :
    (a ++ b).takeWhile p = a := by
  induction a with
  | nil =>
    cases b with
    | nil => rfl
    | cons c t => simp [hb c t rfl]
  | cons x a ih =>
    have hx : p x = true := ha x (by simp)
    simp only [List.cons_append, List.takeWhile_cons, hx, if_true]
    rw [ih (fun y hy => ha y (by simp [hy]))]

theorem dropWhile_append_stop {p : Char → Bool} {a b : List Char}
    (ha : ∀ x ∈ a, p x = true) (hb : ∀ c t, b = c :: t → p c = false) :
    (a ++ b).dropWhile p = b := by
  induction a with
  | nil =>
    cases b with
    | nil => rfl
    | cons c t => simp [hb c t rfl]
  | cons x a ih =>
    have hx : p x = true := ha x (by simp)
    simp only [List.cons_append, List.dropWhile_cons, hx, if_true]
    rw [ih (fun y hy => ha y (by simp [hy]))]

theorem mem_takeWhile_imp' {p : Char → Bool} {l : List Char} {b : Char} (h : b ∈ l.takeWhile p) :
    p b = true := by
  induction l with
  | nil => simp at h
  | cons x t ih =>
    rw [List.takeWhile_cons] at h
    split at h
    · rcases List.mem_cons.mp h with h | h
      · subst h; assumption
      · exact ih h
    · simp at h

theorem rev_induction {P : List Char → Prop} (hnil : P []) (snoc : ∀ l c, P l → P (l ++ [c])) :
    ∀ l, P l := by
  have : ∀ l : List Char, P l.reverse := by
    intro l
    induction l with
    | nil => simpa using hnil
    | cons c t ih => rw [List.reverse_cons]; exact snoc _ _ ih
  intro l
  simpa using this l.reverse

/-! ## digits -/

/-- all characters are ASCII digits -/
def AllDig (l : List Char) : Prop := ∀ c ∈ l, c.isDigit = true

theorem AllDig.nil : AllDig [] := by intro c h; cases h
theorem AllDig.append {a b : List Char} (ha : AllDig a) (hb : AllDig b) : AllDig (a ++ b) := by
  intro c h; rcases List.mem_append.mp h with h | h
  · exact ha c h
  · exact hb c h
theorem AllDig.cons {c : Char} {l : List Char} (hc : c.isDigit = true) (hl : AllDig l) : AllDig (c :: l) := by
  intro x h; rcases List.mem_cons.mp h with h | h
  · subst h; exact hc
  · exact hl x h
theorem AllDig.of_cons {c : Char} {l : List Char} (h : AllDig (c :: l)) : c.isDigit = true ∧ AllDig l :=
  ⟨h c (by simp), fun x hx => h x (by simp [hx])⟩
theorem AllDig.left {a b : List Char} (h : AllDig (a ++ b)) : AllDig a := fun c hc => h c (by simp [hc])
theorem AllDig.right {a b : List Char} (h : AllDig (a ++ b)) : AllDig b := fun c hc => h c (by simp [hc])
theorem AllDig.replicate_zero (k : Nat) : AllDig (List.replicate k '0') := by
  intro c h; rw [List.mem_replicate] at h; rw [h.2]; decide
theorem AllDig.take {l : List Char} (h : AllDig l) (k : Nat) : AllDig (l.take k) :=
  fun c hc => h c (List.mem_of_mem_take hc)
theorem AllDig.drop {l : List Char} (h : AllDig l) (k : Nat) : AllDig (l.drop k) :=
  fun c hc => h c (List.mem_of_mem_drop hc)
theorem AllDig.decStr (k : Nat) : AllDig (decStr k) :=
  fun _ hc => Nat.isDigit_of_mem_toDigits (by decide) (by decide) hc
theorem AllDig.reverse {l : List Char} (h : AllDig l) : AllDig l.reverse :=
  fun c hc => h c (List.mem_reverse.mp hc)

theorem isDigit_iff (c : Char) : c.isDigit = true ↔ 48 ≤ c.toNat ∧ c.toNat ≤ 57 := by
  simpa using (Char.isDigit_iff_toNat (c := c))

theorem digit_ne {c d : Char} (hc : c.isDigit = true) (hd : d.isDigit = false) : c ≠ d := by
  intro h; subst h; simp [hc] at hd

theorem digit_notE {c : Char} (hc : c.isDigit = true) : notE c = true := by
  have h1 : c ≠ 'e' := digit_ne hc (by decide)
  have h2 : c ≠ 'E' := digit_ne hc (by decide)
  simp [notE, h1, h2]


/-! ## zero stripping -/

theorem dropZeros_zero_cons (r : List Char) : dropZeros ('0' :: r) = dropZeros r := by
  rw [dropZeros]

theorem dropZeros_of_not_zero {l : List Char} (h : ∀ r, l ≠ '0' :: r) : dropZeros l = l := by
  unfold dropZeros
  split
  · rename_i r; exact absurd rfl (h r)
  · rfl

theorem dropZeros_nil : dropZeros [] = [] := dropZeros_of_not_zero (by intro r h; cases h)

theorem dropZeros_cons_ne {c : Char} (t : List Char) (h : c ≠ '0') : dropZeros (c :: t) = c :: t :=
  dropZeros_of_not_zero (by intro r e; injection e with e1 _; exact h e1)

theorem dropZeros_replicate_append (k : Nat) (l : List Char) :
    dropZeros (List.replicate k '0' ++ l) = dropZeros l := by
  induction k with
  | zero => simp
  | succ k ih => rw [List.replicate_succ, List.cons_append, dropZeros_zero_cons, ih]

/-- `l` is some zeros followed by `dropZeros l`, which does not start with a zero -/
theorem dropZeros_spec (l : List Char) :
    l = List.replicate (l.length - (dropZeros l).length) '0' ++ dropZeros l ∧
    (dropZeros l).length ≤ l.length ∧ (∀ r, dropZeros l ≠ '0' :: r) := by
  induction l with
  | nil => rw [dropZeros_nil]; simp
  | cons c t ih =>
    by_cases hc : c = '0'
    · subst hc
      rw [dropZeros_zero_cons]
      obtain ⟨h1, h2, h3⟩ := ih
      refine ⟨?_, by simp; omega, h3⟩
      have : (('0' :: t).length - (dropZeros t).length) = (t.length - (dropZeros t).length) + 1 := by
        simp; omega
      rw [this, List.replicate_succ, List.cons_append, ← h1]
    · rw [dropZeros_cons_ne t hc]
      refine ⟨by simp, by simp, ?_⟩
      intro r e; injection e with e1 _; exact hc e1

theorem dropZeros_length_le (l : List Char) : (dropZeros l).length ≤ l.length := (dropZeros_spec l).2.1

theorem AllDig.dropZeros {l : List Char} (h : AllDig l) : AllDig (dropZeros l) := by
  have := (dropZeros_spec l).1
  rw [this] at h
  exact h.right

theorem takeWhile_beq_eq_replicate (c : Char) (l : List Char) :
    l.takeWhile (· == c) = List.replicate (l.takeWhile (· == c)).length c := by
  rw [List.eq_replicate_iff]
  refine ⟨rfl, ?_⟩
  intro b hb
  have := mem_takeWhile_imp' hb
  simpa using this

/-- `l` is `dropTrail c l` followed by copies of `c`, and `dropTrail c l` does not end in `c` -/
theorem dropTrail_spec (c : Char) (l : List Char) :
    l = dropTrail c l ++ List.replicate (l.length - (dropTrail c l).length) c ∧
    (dropTrail c l).length ≤ l.length ∧ (∀ t, dropTrail c l ≠ t ++ [c]) := by
  have h0 : l.reverse = l.reverse.takeWhile (· == c) ++ l.reverse.dropWhile (· == c) :=
    (List.takeWhile_append_dropWhile).symm
  have hlen : (l.reverse.takeWhile (· == c)).length + (l.reverse.dropWhile (· == c)).length = l.length := by
    have := congrArg List.length h0
    simp only [List.length_reverse, List.length_append] at this
    omega
  have h1 : l = (l.reverse.dropWhile (· == c)).reverse ++ (l.reverse.takeWhile (· == c)).reverse := by
    have := congrArg List.reverse h0
    rw [List.reverse_reverse, List.reverse_append] at this
    exact this
  refine ⟨?_, ?_, ?_⟩
  · unfold dropTrail
    rw [takeWhile_beq_eq_replicate c l.reverse, List.reverse_replicate] at h1
    have e : l.length - (l.reverse.dropWhile (· == c)).reverse.length = (l.reverse.takeWhile (· == c)).length := by
      simp only [List.length_reverse]; omega
    rw [e]; exact h1
  · unfold dropTrail; simp only [List.length_reverse]; omega
  · intro t ht
    unfold dropTrail at ht
    have h2 : l.reverse.dropWhile (· == c) = c :: t.reverse := by
      have := congrArg List.reverse ht
      simpa using this
    have hne : l.reverse.dropWhile (· == c) ≠ [] := by rw [h2]; simp
    have := List.head_dropWhile_not (· == c) (l := l.reverse) hne
    simp [h2] at this

theorem dropTrail_length_le (c : Char) (l : List Char) : (dropTrail c l).length ≤ l.length :=
  (dropTrail_spec c l).2.1

theorem AllDig.dropTrail {l : List Char} (h : AllDig l) (c : Char) : AllDig (dropTrail c l) := by
  have := (dropTrail_spec c l).1
  rw [this] at h
  exact h.left

theorem dropTrail_nil (c : Char) : dropTrail c [] = [] := rfl

/-- stripping trailing `c` keeps a list whose head is not `c` non-empty, with the same head -/
theorem dropTrail_cons_ne {c h : Char} (t : List Char) (hne : h ≠ c) :
    ∃ t', dropTrail c (h :: t) = h :: t' := by
  obtain ⟨h1, _, _⟩ := dropTrail_spec c (h :: t)
  cases hd : dropTrail c (h :: t) with
  | nil =>
    rw [hd] at h1
    simp only [List.nil_append] at h1
    have : h ∈ List.replicate ((h :: t).length - ([] : List Char).length) c := by rw [← h1]; simp
    rw [List.mem_replicate] at this
    exact absurd this.2 hne
  | cons x t' =>
    rw [hd] at h1
    simp only [List.cons_append] at h1
    injection h1 with e1 _
    exact ⟨t', by rw [e1]⟩

/-! ## digit values -/

theorem natOf_nil : natOf [] = 0 := rfl

theorem natOf_append (a b : List Char) : natOf (a ++ b) = natOf a * 10 ^ b.length + natOf b := by
  unfold natOf
  rw [Nat.ofDigitChars_append, Nat.ofDigitChars_eq_ofDigitChars_zero (l := b)]
  rw [Nat.mul_comm]

theorem natOf_replicate_zero (k : Nat) : natOf (List.replicate k '0') = 0 := by
  unfold natOf; simp

theorem natOf_zeros_append (k : Nat) (l : List Char) : natOf (List.replicate k '0' ++ l) = natOf l := by
  rw [natOf_append, natOf_replicate_zero]; simp

theorem natOf_append_zeros (l : List Char) (k : Nat) : natOf (l ++ List.replicate k '0') = natOf l * 10 ^ k := by
  rw [natOf_append, natOf_replicate_zero]; simp

theorem natOf_decStr (n : Nat) : natOf (decStr n) = n := by
  unfold natOf decStr; simp

theorem natOf_dropZeros (l : List Char) : natOf (dropZeros l) = natOf l := by
  conv => rhs; rw [(dropZeros_spec l).1]
  rw [natOf_zeros_append]

theorem natOf_singleton {c : Char} : natOf [c] = c.toNat - 48 := by
  simp [natOf, Nat.ofDigitChars]

theorem natOf_lt {l : List Char} (h : AllDig l) : natOf l < 10 ^ l.length := by
  induction l using rev_induction with
  | hnil => simp [natOf_nil]
  | snoc l c ih =>
    have hc := (isDigit_iff c).mp (h c (by simp))
    have hl := ih h.left
    rw [natOf_append, natOf_singleton]
    simp only [List.length_append, List.length_singleton, Nat.pow_succ, Nat.pow_zero]
    omega

/-! ## `lenInt` -/

def lenNat (k : Nat) : Nat := (Nat.toDigits 10 k).length

theorem lenInt_eq (x : Int) : lenInt x = lenNat x.natAbs := rfl
theorem decStr_length (k : Nat) : (decStr k).length = lenNat k := rfl
theorem decStr_ne_nil (k : Nat) : decStr k ≠ [] := by unfold decStr; simp

theorem lenNat_pos (k : Nat) : 1 ≤ lenNat k := Nat.length_toDigits_pos

theorem lenNat_le_iff {n k : Nat} (h : 0 < k) : lenNat n ≤ k ↔ n < 10 ^ k :=
  Nat.length_toDigits_le_iff (by decide) h

theorem lenNat_mono {a b : Nat} (h : a ≤ b) : lenNat a ≤ lenNat b := by
  have hb : b < 10 ^ lenNat b := (lenNat_le_iff (lenNat_pos b)).mp (Nat.le_refl _)
  exact (lenNat_le_iff (lenNat_pos b)).mpr (Nat.lt_of_le_of_lt h hb)

theorem lenNat_succ_le (x : Nat) : lenNat (x + 1) ≤ lenNat x + 1 := by
  have hx : x < 10 ^ lenNat x := (lenNat_le_iff (lenNat_pos x)).mp (Nat.le_refl _)
  apply (lenNat_le_iff (by omega)).mpr
  rw [Nat.pow_succ]; omega

theorem lenNat_add_le (a b : Nat) : lenNat (a + b) ≤ a + lenNat b := by
  induction a with
  | zero => simp
  | succ a ih =>
    have := lenNat_succ_le (a + b)
    have e : a + 1 + b = a + b + 1 := by omega
    rw [e]; omega

theorem lenNat_le_of_le {x y k : Nat} (h : x ≤ k + y) : lenNat x ≤ k + lenNat y :=
  Nat.le_trans (lenNat_mono h) (lenNat_add_le k y)

theorem lenNat_three : lenNat 3 = 1 := by decide
theorem lenNat_four : lenNat 4 = 1 := by decide

/-- `x ≥ 3 → len x + 1 ≤ x` -/
theorem lenNat_lt_of_three_le {x : Nat} (h : 3 ≤ x) : lenNat x + 1 ≤ x := by
  have := lenNat_le_of_le (x := x) (y := 3) (k := x - 3) (by omega)
  rw [lenNat_three] at this; omega

/-- `x ≥ 4 → len x + 2 ≤ x` -/
theorem lenNat_lt_of_four_le {x : Nat} (h : 4 ≤ x) : lenNat x + 2 ≤ x := by
  have := lenNat_le_of_le (x := x) (y := 4) (k := x - 4) (by omega)
  rw [lenNat_four] at this; omega

theorem lenNat_of_digits {l : List Char} (h : AllDig l) (hne : l ≠ []) : lenNat (natOf l) ≤ l.length := by
  apply (lenNat_le_iff (by cases l with | nil => exact absurd rfl hne | cons _ _ => simp)).mpr
  exact natOf_lt h

end Verif.Proofs.Num

import Verif.Proofs.C09XmlLex
/-!
# C09 (XML) — the output of the model of `xml.Minify` is read back by the independent tokeniser as the intended
token stream, and the second pass is defined on it

Model: `Verif.Model.Xml` (`emit`, `renderAll`, `xmlMinify`); specification: `Verif.Spec.C09XmlLex` (`xmlTokens`,
`view`, `canonOk`, `lexOk`, `piEndHazard`) and `Verif.Spec.Xml`.  Lifted from C06: `attr_token` (`xml_attr_value`),
`wfout_aux` / `rawfree_aux` (`xml_wellformed`), `cdata_token`, `escCD_text`.
-/
namespace Verif.Proofs.C09Xml
open Verif.Xml (XTok)
open Verif.Spec.Xml
open Verif.Spec.C09XmlLex
open Verif.Model.Xml
open Verif.Proofs.Xml
open Verif.Proofs.C09XmlLex

/-! ## serialisation -/

theorem tokBytes_render (t : XTok) : tokBytes t = render t := by cases t <;> rfl

theorem bytesOf_renderAll (ts : List XTok) : bytesOf ts = renderAll ts := by
  have : tokBytes = render := funext tokBytes_render
  simp only [bytesOf, renderAll, this]

/-! ## the `?>` hazard of pseudo-attribute values -/

theorem d2_mono (l : List DCh) (h : d2 false l = true) : ∀ p, d2 p l = true := by
  intro p
  cases l with
  | nil => simp [d2] at h
  | cons x r =>
    simp only [d2, Bool.false_and, Bool.false_or] at h
    simp [d2, h]

theorem has2_append_none (a b : Char) (x y : List Char) (hx : ∀ c ∈ x, c ≠ a) :
    has2 a b (x ++ y) = has2 a b y := by
  induction x with
  | nil => rfl
  | cons c r ih =>
    have hc : c ≠ a := hx c (by simp)
    have : starts2 a b (c :: (r ++ y)) = false := by
      cases hh : r ++ y <;> simp [starts2, hc]
    simp only [List.cons_append, has2, this, Bool.false_or]
    exact ih (fun c hc => hx c (by simp [hc]))

/-- `?>` in a sequence of units shows in the decoded value -/
theorem has2_flat (us : List XUnit) (hok : us.all XUnit.ok = true) :
    has2 '?' '>' (flat us) = true → d2 false (us.map (XUnit.val true)) = true := by
  induction us with
  | nil => intro h; simp [flat, has2] at h
  | cons u r ih =>
    simp only [List.all_cons, Bool.and_eq_true] at hok
    intro h
    rw [flat_cons] at h
    have tailcase : has2 '?' '>' (flat r) = true → d2 false ((u :: r).map (XUnit.val true)) = true := by
      intro h2
      simp only [List.map_cons, d2, Bool.false_and, Bool.false_or]
      exact d2_mono _ (ih hok.2 h2) _
    cases u with
    | lit c =>
      simp only [XUnit.chars, List.cons_append, List.nil_append, has2, Bool.or_eq_true] at h
      rcases h with h | h
      · cases r with
        | nil => simp [flat, starts2] at h
        | cons u' r' =>
          rw [flat_cons] at h
          cases u' with
          | lit c' =>
            simp only [XUnit.chars, List.cons_append, List.nil_append, starts2, Bool.and_eq_true, beq_iff_eq] at h
            obtain ⟨rfl, rfl⟩ := h
            simp [d2, XUnit.val, isS, lit]
          | named nm => simp [XUnit.chars, starts2] at h
          | dec ds => simp [XUnit.chars, starts2] at h
          | hex ds => simp [XUnit.chars, starts2] at h
      · exact tailcase h
    | named nm =>
      rw [has2_append_none _ _ _ _ (ref_chars_avoid _ hok.1 (by intro c h; cases h) '?' (by decide) (by decide) (by decide))] at h
      exact tailcase h
    | dec ds =>
      rw [has2_append_none _ _ _ _ (ref_chars_avoid _ hok.1 (by intro c h; cases h) '?' (by decide) (by decide) (by decide))] at h
      exact tailcase h
    | hex ds =>
      rw [has2_append_none _ _ _ _ (ref_chars_avoid _ hok.1 (by intro c h; cases h) '?' (by decide) (by decide) (by decide))] at h
      exact tailcase h

/-- a well-formed literal whose normalised value is free of `?>` is free of `?>` -/
theorem wfAttrVal_has2 (w : List Char) (hw : WfAttrVal w) (hd : d2 false (attrValue w) = false) :
    has2 '?' '>' w = false := by
  obtain ⟨q, us, hq, hok, _, rfl⟩ := hw
  have hv : attrValue (q :: (flat us ++ [q])) = us.map (XUnit.val true) := by
    simp only [attrValue, unquote_wrap q hq (flat us)]
    exact normAttr_flat us hok
  rw [hv] at hd
  have h1 : has2 '?' '>' (flat us) = false := by
    cases h : has2 '?' '>' (flat us) with
    | false => rfl
    | true => rw [has2_flat us hok h] at hd; cases hd
  have hq1 : q ≠ '?' := by rcases hq with rfl | rfl <;> decide
  have hq2 : q ≠ '>' := by rcases hq with rfl | rfl <;> decide
  have h2 : has2 '?' '>' (flat us ++ [q]) = false :=
    has2_append_safe _ _ _ _ h1 (by simp [has2, starts2]) (by intro c hc; simp at hc; subst hc; exact hq2)
  have := has2_append_none '?' '>' [q] (flat us ++ [q]) (by intro c hc; simp at hc; subst hc; exact hq1)
  simpa using this.trans h2

/-- the written pseudo-attribute value is free of `?>` unless the trigger of K-C09-Xml-1 holds -/
theorem attrOut_has2 (v : List Char) (hv : WfAttrVal v) (h0 : has2 '?' '>' v = false) (hz : piValHazard v = false) :
    has2 '?' '>' (attrOut v) = false := by
  by_cases hh : v.head? = some '"'
  · have hd : d2 false (attrValue v) = false := by
      simpa [piValHazard, hh] using hz
    obtain ⟨e1, e2⟩ := attr_token v hv
    exact wfAttrVal_has2 _ e2 (by rw [e1]; exact hd)
  · have : attrOut v = v := by
      unfold attrOut
      have : (v.head? != some '"') = true := by simpa [bne_iff_ne] using hh
      simp [this]
    rw [this]; exact h0


/-! ## the loop keeps the lexer's shape and the token contracts -/

theorem endTagOk_out (d n : List Char) (h : endTagOk d n = true) : endTagOk (endTagOut d n) n = true := by
  obtain ⟨hn, ws, rfl, hws⟩ := endTagOk_shape d n h
  unfold endTagOut
  split
  · have ht : ('<' :: '/' :: (n ++ ws ++ ['>'])).take (2 + n.length) = '<' :: '/' :: n := by
      have : 2 + n.length = ('<' :: '/' :: n).length := by simp; omega
      rw [this]
      have e : '<' :: '/' :: (n ++ ws ++ ['>']) = ('<' :: '/' :: n) ++ (ws ++ ['>']) := by simp
      rw [e, List.take_left']
      rfl
    rw [ht]
    have hs : stripPrefix ('<' :: '/' :: n) (('<' :: '/' :: n) ++ ['>']) = some ['>'] := stripPrefix_append _ _
    simp only [endTagOk, hn, hs, Bool.true_and]
    decide
  · exact h

theorem lexOk_emitText (d : List Char) (k : List XTok) (h : lexOk .content k = true) :
    lexOk .content (emitText d k) = true := by
  unfold emitText
  split
  · exact h
  · next hne => simp only [lexOk, h, Bool.and_true, Bool.not_eq_true']; simpa using hne

theorem pi_flag (m : LexMode) : (m == LexMode.pi) = true ↔ m = .pi := by
  cases m <;> decide

/-- the emitted stream has the shape and token forms of a lexer's stream again (unless K-C09-Xml-1) -/
theorem emitGo_lexOk (o : XmlOpts) (n : Nat) : ∀ ts : List XTok, ts.length ≤ n → (∀ x ∈ ts, WfTokP x) →
    ∀ (m : LexMode) (om : Bool) (br : Nat), lexOk m ts = true → piEndHazard (m == .pi) ts = false →
    lexOk m (emitGo o om br (m == .pi) 0 ts) = true := by
  induction n with
  | zero =>
    intro ts hl _ m om br h _
    have : ts = [] := List.length_eq_zero_iff.mp (by omega)
    subst this; simpa [emitGo] using h
  | succ n ih =>
    intro ts hl hwf m om br h hz
    cases ts with
    | nil => simpa [emitGo] using h
    | cons t r =>
      simp only [List.length_cons] at hl
      have hlr : r.length ≤ n := by omega
      have hwr := wf_tail hwf
      cases m with
      | content =>
        have hpi : (LexMode.content == LexMode.pi) = false := rfl
        simp only [hpi] at hz ⊢
        cases t with
        | text d =>
          simp only [lexOk, Bool.and_eq_true] at h
          have hz' : piEndHazard false r = false := by simpa [piEndHazard] using hz
          simp only [emitGo]
          exact lexOk_emitText _ _ (ih r hlr hwr .content _ _ h.2 hz')
        | comment d =>
          simp only [lexOk] at h
          have hz' : piEndHazard false r = false := by simpa [piEndHazard] using hz
          simp only [emitGo]
          exact ih r hlr hwr .content om br h hz'
        | cdata data txt =>
          have ht : WfCDataText txt := hwf (.cdata data txt) (by simp)
          simp only [lexOk, Bool.and_eq_true] at h
          have hz' : piEndHazard false r = false := by simpa [piEndHazard] using hz
          by_cases hemp : txt = []
          · subst hemp
            simp only [emitGo, List.isEmpty_nil, if_true]
            exact ih r hlr hwr .content om br h.2 hz'
          · have hne : txt.isEmpty = false := by simpa using hemp
            cases he : escapeCDATAVal txt with
            | none =>
              simp only [emitGo, hne, he, Bool.false_eq_true, if_false, lexOk, h.1, Bool.true_and]
              exact ih r hlr hwr .content _ 0 h.2 hz'
            | some e =>
              have hwe := (cdata_token txt e ht he).2.2 hemp
              have h2 := escCD_text br e (Or.inr hwe)
              have hne2 : escCD br e ≠ [] := by
                intro h0
                exact wfText_ne_nil e hwe (h2.2.2.mp h0)
              simp only [emitGo, hne, he, Bool.false_eq_true, if_false, lexOk, Bool.and_eq_true, Bool.not_eq_true']
              exact ⟨by simpa using hne2, ih r hlr hwr .content _ _ h.2 hz'⟩
        | doctype d =>
          simp only [lexOk, Bool.and_eq_true] at h
          have hz' : piEndHazard false r = false := by simpa [piEndHazard] using hz
          simp only [emitGo, lexOk, h.1, Bool.true_and]
          exact ih r hlr hwr .content om 0 h.2 hz'
        | endTag d nm =>
          simp only [lexOk, Bool.and_eq_true] at h
          have hz' : piEndHazard false r = false := by simpa [piEndHazard] using hz
          simp only [emitGo, lexOk, endTagOk_out d nm h.1, Bool.true_and]
          exact ih r hlr hwr .content _ 0 h.2 hz'
        | startTag nm =>
          simp only [lexOk, Bool.and_eq_true] at h
          have hz' : piEndHazard false r = false := by simpa [piEndHazard] using hz
          simp only [emitGo, lexOk, h.1, Bool.true_and]
          exact ih r hlr hwr .tag _ 0 h.2 hz'
        | startTagPI nm =>
          simp only [lexOk, Bool.and_eq_true] at h
          have hz' : piEndHazard true r = false := by simpa [piEndHazard] using hz
          simp only [emitGo, lexOk, h.1, Bool.true_and]
          exact ih r hlr hwr .pi om 0 h.2 hz'
        | attr nm v => simp [lexOk] at h
        | attrBare d nm => simp [lexOk] at h
        | startTagClose => simp [lexOk] at h
        | startTagCloseVoid => simp [lexOk] at h
        | startTagClosePI => simp [lexOk] at h
      | tag =>
        have hpi : (LexMode.tag == LexMode.pi) = false := rfl
        simp only [hpi] at hz ⊢
        cases t with
        | attr nm v =>
          simp only [lexOk, Bool.and_eq_true] at h
          have hz' : piEndHazard false r = false := by simpa [piEndHazard] using hz
          simp only [emitGo, lexOk, h.1, Bool.true_and]
          exact ih r hlr hwr .tag om 0 h.2 hz'
        | startTagCloseVoid =>
          simp only [lexOk] at h
          have hz' : piEndHazard false r = false := by simpa [piEndHazard] using hz
          simp only [emitGo, lexOk]
          exact ih r hlr hwr .content om 0 h hz'
        | startTagClose =>
          simp only [lexOk] at h
          have hz' : piEndHazard false r = false := by simpa [piEndHazard] using hz
          rcases collapseSkip_cases o r with hc | ⟨d, nm, r', rfl, hc⟩ | ⟨d, d2, nm, r', rfl, _, _, hc⟩
          · simp only [emitGo, hc, lexOk]
            exact ih r hlr hwr .content om 0 h hz'
          · simp only [lexOk, Bool.and_eq_true] at h
            simp only [emitGo, hc, lexOk]
            exact ih r' (by simp at hlr; omega) (wf_tail hwr) .content om 0 h.2
              (show piEndHazard false r' = false by simpa [piEndHazard] using hz')
          · simp only [lexOk, Bool.and_eq_true] at h
            simp only [emitGo, hc, lexOk]
            exact ih r' (by simp at hlr; omega) (wf_tail (wf_tail hwr)) .content om 0 h.2.2
              (show piEndHazard false r' = false by simpa [piEndHazard] using hz')
        | _ => simp [lexOk] at h
      | pi =>
        have hpi : (LexMode.pi == LexMode.pi) = true := rfl
        simp only [hpi] at hz ⊢
        cases t with
        | attr nm v =>
          have hv : WfAttrVal v := hwf (.attr nm v) (by simp)
          simp only [lexOk, Bool.and_eq_true, Bool.not_eq_true'] at h
          simp only [piEndHazard, Bool.or_eq_false_iff] at hz
          simp only [emitGo, lexOk, h.1.1, attrOut_has2 v hv h.1.2 hz.1, Bool.true_and, Bool.not_false]
          exact ih r hlr hwr .pi om 0 h.2 hz.2
        | attrBare d nm =>
          simp only [lexOk, Bool.and_eq_true] at h
          have hz' : piEndHazard true r = false := by simpa [piEndHazard] using hz
          simp only [emitGo, if_true, lexOk, h.1, Bool.true_and]
          exact ih r hlr hwr .pi om 0 h.2 hz'
        | startTagClosePI =>
          simp only [lexOk] at h
          have hz' : piEndHazard false r = false := by simpa [piEndHazard] using hz
          simp only [emitGo, lexOk]
          exact ih r hlr hwr .content om 0 h hz'
        | _ => simp [lexOk] at h


/-! ## no comment is emitted -/

def isCom : XTok → Bool
  | .comment _ => true
  | _ => false

theorem emitGo_no_comment (o : XmlOpts) (n : Nat) : ∀ ts : List XTok, ts.length ≤ n →
    ∀ (om : Bool) (br : Nat) (pi : Bool), ∀ y ∈ emitGo o om br pi 0 ts, isCom y = false := by
  induction n with
  | zero =>
    intro ts hl om br pi
    have : ts = [] := List.length_eq_zero_iff.mp (by omega)
    subst this; simp [emitGo]
  | succ n ih =>
    intro ts hl om br pi
    cases ts with
    | nil => simp [emitGo]
    | cons t r =>
      simp only [List.length_cons] at hl
      have hlr : r.length ≤ n := by omega
      have step : ∀ (t' : XTok) (om' : Bool) (br' : Nat) (pi' : Bool), isCom t' = false →
          ∀ y ∈ t' :: emitGo o om' br' pi' 0 r, isCom y = false := by
        intro t' om' br' pi' ht' y hy
        simp only [List.mem_cons] at hy
        rcases hy with rfl | hy
        · exact ht'
        · exact ih r hlr om' br' pi' y hy
      cases t with
      | startTag nm => simpa only [emitGo] using step (.startTag nm) _ 0 pi rfl
      | endTag d nm => simpa only [emitGo] using step (.endTag (endTagOut d nm) nm) _ 0 pi rfl
      | attr nm v => simpa only [emitGo] using step (.attr nm (attrOut v)) om 0 pi rfl
      | attrBare d nm =>
        simp only [emitGo]
        cases pi with
        | true => simpa using step (.attrBare d nm) om 0 true rfl
        | false => simpa using step (.attr nm []) om 0 false rfl
      | startTagPI nm => simpa only [emitGo] using step (.startTagPI nm) om 0 true rfl
      | startTagClosePI => simpa only [emitGo] using step .startTagClosePI om 0 false rfl
      | doctype d => simpa only [emitGo] using step (.doctype d) om 0 pi rfl
      | comment d => simpa only [emitGo] using ih r hlr om br pi
      | startTagCloseVoid => simpa only [emitGo] using step .startTagCloseVoid om 0 pi rfl
      | startTagClose =>
        rcases collapseSkip_cases o r with hc | ⟨d, nm, r', rfl, hc⟩ | ⟨d, d2, nm, r', rfl, _, _, hc⟩
        · simpa only [emitGo, hc] using step .startTagClose om 0 pi rfl
        · simp only [emitGo, hc]
          intro y hy
          simp only [List.mem_cons] at hy
          rcases hy with rfl | hy
          · rfl
          · exact ih r' (by simp at hlr; omega) om 0 pi y hy
        · simp only [emitGo, hc]
          intro y hy
          simp only [List.mem_cons] at hy
          rcases hy with rfl | hy
          · rfl
          · exact ih r' (by simp at hlr; omega) om 0 pi y hy
      | cdata data txt =>
        simp only [emitGo]
        split
        · exact ih r hlr om br pi
        · split
          · exact step _ _ _ pi rfl
          · exact step _ _ _ pi rfl
      | text d =>
        simp only [emitGo]
        intro y hy
        unfold emitText at hy
        split at hy
        · exact ih r hlr _ _ pi y hy
        · simp only [List.mem_cons] at hy
          rcases hy with rfl | hy
          · rfl
          · exact ih r hlr _ _ pi y hy

theorem emit_no_comment (o : XmlOpts) (ts : List XTok) : ∀ d, XTok.comment d ∉ emit o true ts := by
  intro d hd
  have := emitGo_no_comment o ts.length ts (Nat.le_refl _) true 0 false _ hd
  simp [isCom] at this

/-! ## the lexer contract of C09 implies the hypotheses of the C06 theorems -/

theorem lexOk_shape : ∀ (ts : List XTok) (m : LexMode), lexOk m ts = true →
    lexShape (m == .tag) ts = true ∧ bareInPI (m == .pi) ts = true := by
  have e1 : (LexMode.content == LexMode.tag) = false := rfl
  have e2 : (LexMode.content == LexMode.pi) = false := rfl
  have e3 : (LexMode.tag == LexMode.tag) = true := rfl
  have e4 : (LexMode.tag == LexMode.pi) = false := rfl
  have e5 : (LexMode.pi == LexMode.tag) = false := rfl
  have e6 : (LexMode.pi == LexMode.pi) = true := rfl
  intro ts
  induction ts with
  | nil => intro m _; simp [lexShape, bareInPI]
  | cons t r ih =>
    intro m h
    have ic := ih .content
    have it := ih .tag
    have ip := ih .pi
    simp only [e1, e2, e3, e4, e5, e6] at ic it ip
    cases m with
    | content =>
      simp only [e1, e2]
      cases t with
      | text d => simp only [lexOk, Bool.and_eq_true] at h; simpa [lexShape, bareInPI] using ic h.2
      | comment d => simp only [lexOk] at h; simpa [lexShape, bareInPI] using ic h
      | cdata d t' => simp only [lexOk, Bool.and_eq_true] at h; simpa [lexShape, bareInPI] using ic h.2
      | doctype d => simp only [lexOk, Bool.and_eq_true] at h; simpa [lexShape, bareInPI] using ic h.2
      | endTag d n => simp only [lexOk, Bool.and_eq_true] at h; simpa [lexShape, bareInPI] using ic h.2
      | startTag n => simp only [lexOk, Bool.and_eq_true] at h; simpa [lexShape, bareInPI] using it h.2
      | startTagPI n => simp only [lexOk, Bool.and_eq_true] at h; simpa [lexShape, bareInPI] using ip h.2
      | attr n v => simp [lexOk] at h
      | attrBare d n => simp [lexOk] at h
      | startTagClose => simp [lexOk] at h
      | startTagCloseVoid => simp [lexOk] at h
      | startTagClosePI => simp [lexOk] at h
    | tag =>
      simp only [e3, e4]
      cases t with
      | attr n v => simp only [lexOk, Bool.and_eq_true] at h; simpa [lexShape, bareInPI] using it h.2
      | startTagClose => simp only [lexOk] at h; simpa [lexShape, bareInPI] using ic h
      | startTagCloseVoid => simp only [lexOk] at h; simpa [lexShape, bareInPI] using ic h
      | _ => simp [lexOk] at h
    | pi =>
      simp only [e5, e6]
      cases t with
      | attr n v => simp only [lexOk, Bool.and_eq_true] at h; simpa [lexShape, bareInPI] using ip h.2
      | attrBare d n => simp only [lexOk, Bool.and_eq_true] at h; simpa [lexShape, bareInPI] using ip h.2
      | startTagClosePI => simp only [lexOk] at h; simpa [lexShape, bareInPI] using ic h
      | _ => simp [lexOk] at h


/-! ## the emitted stream: all facts together -/

/-- what is known about the stream written by the loop (C06 `xml_wellformed` lifted, plus shape and contracts) -/
theorem emit_facts (o : XmlOpts) (ts : List XTok) (hwf : ∀ x ∈ ts, WfTokP x) (hlex : lexOk .content ts = true)
    (hz : piEndHazard false ts = false) :
    (∀ y ∈ emit o true ts, WfOutP y) ∧ rawCdEnd (emit o true ts) = false ∧
      lexOk .content (emit o true ts) = true ∧ ∀ d, XTok.comment d ∉ emit o true ts := by
  have hsh := lexOk_shape ts .content hlex
  refine ⟨wfout_aux o ts.length ts (Nat.le_refl _) hwf true 0 false hsh.2, ?_, ?_, emit_no_comment o ts⟩
  · have h := rawfree_aux o ts.length ts (Nat.le_refl _) true 0 false [] rfl rfl
    simp only [rawCdEnd, List.any_eq_false]
    intro run hr
    rw [← cdAuto_hasCdEnd]
    simpa using h run hr
  · exact emitGo_lexOk o ts.length ts (Nat.le_refl _) hwf .content true 0 hlex hz

/-! ## canonical streams are lexer-shaped streams -/

theorem canon_lexOk (n : Nat) : ∀ (vs : List XTok), vs.length ≤ n → ∀ tg, canonOk tg vs = true →
    lexOk (if tg then .tag else .content) vs = true ∧ piEndHazard false vs = false := by
  induction n with
  | zero =>
    intro vs hl tg h
    have : vs = [] := List.length_eq_zero_iff.mp (by omega)
    subst this
    cases tg <;> simp_all [canonOk, lexOk, piEndHazard]
  | succ n ih =>
    intro vs hl tg h
    cases vs with
    | nil => cases tg <;> simp_all [canonOk, lexOk, piEndHazard]
    | cons t r =>
      simp only [List.length_cons] at hl
      have hlr : r.length ≤ n := by omega
      cases tg with
      | false =>
        simp only [Bool.false_eq_true, if_false]
        cases t with
        | text d =>
          simp only [canonOk, Bool.and_eq_true] at h
          have := ih r hlr false h.2
          simp only [Bool.false_eq_true, if_false] at this
          simp only [lexOk, piEndHazard, h.1.1.1, this, Bool.true_and, and_self]
        | comment d =>
          simp only [canonOk, Bool.and_eq_true] at h
          have := ih r hlr false h.2
          simp only [Bool.false_eq_true, if_false] at this
          simp only [lexOk, piEndHazard, this, and_self]
        | cdata d t' =>
          simp only [canonOk, Bool.and_eq_true] at h
          have := ih r hlr false h.2
          simp only [Bool.false_eq_true, if_false] at this
          simp only [lexOk, piEndHazard, h.1, this, Bool.true_and, and_self]
        | doctype d =>
          simp only [canonOk, Bool.and_eq_true] at h
          have := ih r hlr false h.2
          simp only [Bool.false_eq_true, if_false] at this
          simp only [lexOk, piEndHazard, h.1, this, Bool.true_and, and_self]
        | endTag d nm =>
          simp only [canonOk, Bool.and_eq_true] at h
          have := ih r hlr false h.2
          simp only [Bool.false_eq_true, if_false] at this
          simp only [lexOk, piEndHazard, h.1, this, Bool.true_and, and_self]
        | startTag nm =>
          simp only [canonOk, Bool.and_eq_true] at h
          have := ih r hlr true h.2
          simp only [if_true] at this
          simp only [lexOk, piEndHazard, h.1, this, Bool.true_and, and_self]
        | startTagPI nm =>
          cases r with
          | nil => simp [canonOk] at h
          | cons t2 r2 =>
            cases t2 with
            | startTagClosePI =>
              simp only [canonOk, Bool.and_eq_true] at h
              have := ih r2 (by simp at hlr; omega) false h.2
              simp only [Bool.false_eq_true, if_false] at this
              simp only [lexOk, piEndHazard, h.1, this, Bool.true_and, and_self]
            | attrBare d d' =>
              cases r2 with
              | nil => simp [canonOk] at h
              | cons t3 r3 =>
                cases t3 with
                | startTagClosePI =>
                  simp only [canonOk, Bool.and_eq_true, beq_iff_eq] at h
                  obtain ⟨⟨⟨⟨hn, _⟩, hne⟩, hd⟩, hr⟩ := h
                  have := ih r3 (by simp at hlr; omega) false hr
                  simp only [Bool.false_eq_true, if_false] at this
                  simp only [lexOk, piEndHazard, hn, hd, hne, this, Bool.true_and, and_self]
                | _ => simp [canonOk] at h
            | _ => simp [canonOk] at h
        | _ => simp [canonOk] at h
      | true =>
        simp only [if_true]
        cases t with
        | attr nm v =>
          simp only [canonOk, Bool.and_eq_true] at h
          have := ih r hlr true h.2
          simp only [if_true] at this
          simp only [lexOk, piEndHazard, h.1.1, this, Bool.true_and, and_self]
        | startTagClose =>
          simp only [canonOk] at h
          have := ih r hlr false h
          simp only [Bool.false_eq_true, if_false] at this
          simp only [lexOk, piEndHazard, this, and_self]
        | startTagCloseVoid =>
          simp only [canonOk] at h
          have := ih r hlr false h
          simp only [Bool.false_eq_true, if_false] at this
          simp only [lexOk, piEndHazard, this, and_self]
        | _ => simp [canonOk] at h

/-- the reader's view keeps the tokens grammatical (`WfTokP`): merged runs of character data are character data -/
theorem viewGo_wfTokP : ∀ (ts : List XTok), (∀ x ∈ ts, WfTokP x) →
    (∀ acc, (acc = [] ∨ WfText acc) → ∀ x ∈ viewGo (.txt acc) ts, WfTokP x) ∧
    (∀ d, ∀ x ∈ viewGo (.pi d) ts, WfTokP x) := by
  intro ts
  induction ts with
  | nil =>
    intro _
    constructor
    · intro acc ha x hx
      simp only [viewGo, flushText] at hx
      split at hx
      · simp at hx
      · next hne =>
        simp only [List.mem_singleton] at hx
        subst hx
        rcases ha with rfl | ha
        · simp at hne
        · exact ha
    · intro d x hx
      simp only [viewGo, flushPi] at hx
      split at hx
      · simp at hx
      · simp only [List.mem_singleton] at hx; subst hx; trivial
  | cons t r ih =>
    intro hw
    have hwr : ∀ x ∈ r, WfTokP x := fun x hx => hw x (by simp [hx])
    obtain ⟨ih1, ih2⟩ := ih hwr
    have ht : WfTokP t := hw t (by simp)
    have flush : ∀ (acc : List Char) (k : List XTok), (acc = [] ∨ WfText acc) → (∀ x ∈ k, WfTokP x) →
        ∀ x ∈ flushText acc k, WfTokP x := by
      intro acc k ha hk x hx
      unfold flushText at hx
      split at hx
      · exact hk x hx
      · next hne =>
        simp only [List.mem_cons] at hx
        rcases hx with rfl | hx
        · rcases ha with rfl | ha
          · simp at hne
          · exact ha
        · exact hk x hx
    have consP : ∀ (k : List XTok), (∀ x ∈ k, WfTokP x) → ∀ x ∈ t :: k, WfTokP x := by
      intro k hk x hx
      simp only [List.mem_cons] at hx
      rcases hx with rfl | hx
      · exact ht
      · exact hk x hx
    constructor
    · intro acc ha
      cases t with
      | text d =>
        simp only [viewGo]
        exact ih1 (acc ++ d) (Or.inr (wfText_append acc d ha ht))
      | startTagPI nm =>
        simp only [viewGo]
        exact flush acc _ ha (consP _ (ih2 []))
      | _ =>
        simp only [viewGo]
        exact flush acc _ ha (consP _ (ih1 [] (Or.inl rfl)))
    · intro d
      cases t with
      | startTagClosePI =>
        simp only [viewGo, flushPi]
        intro x hx
        split at hx
        · exact consP _ (ih1 [] (Or.inl rfl)) x hx
        · simp only [List.mem_cons] at hx
          rcases hx with rfl | hx
          · trivial
          · exact consP _ (ih1 [] (Or.inl rfl)) x (by simpa using hx)
      | _ =>
        simp only [viewGo]
        exact ih2 _

end Verif.Proofs.C09Xml

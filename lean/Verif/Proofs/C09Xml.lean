import Verif.Proofs.C09XmlLex
/-!
# C09 (XML) — the output of the model of `xml.Minify` is read back by the independent tokeniser as the intended
token stream, and the second pass is defined on it

Model: `Verif.Model.Xml` (`emit`, `renderAll`, `xmlMinify`); specification: `Verif.Spec.C09XmlLex` (`xmlTokens`,
`view`, `canonOk`, `lexOk`, `piEndHazard`) and `Verif.Spec.Xml`.  Lifted from C06: `attr_token` (`xml_attr_value`),
`wfout_aux` / `rawfree_aux` (`xml_wellformed`), `cdata_token`, `escCD_text`.
-/
namespace Verif.Proofs.C09Xml
open Verif.Xml (XTok)
open Verif.Spec.Xml
open Verif.Spec.C09XmlLex
open Verif.Model.Xml
open Verif.Proofs.Xml
open Verif.Proofs.C09XmlLex

/-! ## serialisation -/

theorem tokBytes_render (t : XTok) : tokBytes t = render t := by cases t <;> rfl

theorem bytesOf_renderAll (ts : List XTok) : bytesOf ts = renderAll ts := by
  have : tokBytes = render := funext tokBytes_render
  simp only [bytesOf, renderAll, this]

/-! ## the loop keeps the lexer's shape and the token contracts -/

theorem endTagOk_out (d n : List Char) (h : endTagOk d n = true) : endTagOk (endTagOut d n) n = true := by
  obtain ⟨hn, ws, rfl, hws⟩ := endTagOk_shape d n h
  unfold endTagOut
  split
  · have ht : ('<' :: '/' :: (n ++ ws ++ ['>'])).take (2 + n.length) = '<' :: '/' :: n := by
      have : 2 + n.length = ('<' :: '/' :: n).length := by simp; omega
      rw [this]
      have e : '<' :: '/' :: (n ++ ws ++ ['>']) = ('<' :: '/' :: n) ++ (ws ++ ['>']) := by simp
      rw [e, List.take_left']
      rfl
    rw [ht]
    have hs : stripPrefix ('<' :: '/' :: n) (('<' :: '/' :: n) ++ ['>']) = some ['>'] := stripPrefix_append _ _
    simp only [endTagOk, hn, hs, Bool.true_and]
    decide
  · exact h

theorem lexOk_emitText (d : List Char) (k : List XTok) (h : lexOk .content k = true) :
    lexOk .content (emitText d k) = true := by
  unfold emitText
  split
  · exact h
  · next hne => simp only [lexOk, h, Bool.and_true, Bool.not_eq_true']; simpa using hne

theorem pi_flag (m : LexMode) : (m == LexMode.pi) = true ↔ m = .pi := by
  cases m <;> decide

/-- the emitted stream has the shape and token forms of a lexer's stream again -/
theorem emitGo_lexOk (o : XmlOpts) (n : Nat) : ∀ ts : List XTok, ts.length ≤ n → (∀ x ∈ ts, WfTokP x) →
    ∀ (m : LexMode) (om : Bool) (br : Nat), lexOk m ts = true →
    lexOk m (emitGo o om br (m == .pi) 0 ts) = true := by
  induction n with
  | zero =>
    intro ts hl _ m om br h
    have : ts = [] := List.length_eq_zero_iff.mp (by omega)
    subst this; simpa [emitGo] using h
  | succ n ih =>
    intro ts hl hwf m om br h
    cases ts with
    | nil => simpa [emitGo] using h
    | cons t r =>
      simp only [List.length_cons] at hl
      have hlr : r.length ≤ n := by omega
      have hwr := wf_tail hwf
      cases m with
      | content =>
        have hpi : (LexMode.content == LexMode.pi) = false := rfl
        simp only [hpi]
        cases t with
        | text d =>
          simp only [lexOk, Bool.and_eq_true] at h
          simp only [emitGo]
          exact lexOk_emitText _ _ (ih r hlr hwr .content _ _ h.2 )
        | comment d =>
          simp only [lexOk] at h
          simp only [emitGo]
          exact ih r hlr hwr .content om br h
        | cdata data txt =>
          have ht : WfCDataText txt := hwf (.cdata data txt) (by simp)
          simp only [lexOk, Bool.and_eq_true] at h
          by_cases hemp : txt = []
          · subst hemp
            simp only [emitGo, List.isEmpty_nil, if_true]
            exact ih r hlr hwr .content om br h.2
          · have hne : txt.isEmpty = false := by simpa using hemp
            cases he : escapeCDATAVal txt with
            | none =>
              simp only [emitGo, hne, he, Bool.false_eq_true, if_false, lexOk, h.1, Bool.true_and]
              exact ih r hlr hwr .content _ 0 h.2
            | some e =>
              have hwe := (cdata_token txt e ht he).2.2 hemp
              have h2 := escCD_text br e (Or.inr hwe)
              have hne2 : escCD br e ≠ [] := by
                intro h0
                exact wfText_ne_nil e hwe (h2.2.2.mp h0)
              simp only [emitGo, hne, he, Bool.false_eq_true, if_false, lexOk, Bool.and_eq_true, Bool.not_eq_true']
              exact ⟨by simpa using hne2, ih r hlr hwr .content _ _ h.2⟩
        | doctype d =>
          simp only [lexOk, Bool.and_eq_true] at h
          simp only [emitGo, lexOk, h.1, Bool.true_and]
          exact ih r hlr hwr .content om 0 h.2
        | endTag d nm =>
          simp only [lexOk, Bool.and_eq_true] at h
          simp only [emitGo, lexOk, endTagOk_out d nm h.1, Bool.true_and]
          exact ih r hlr hwr .content _ 0 h.2
        | startTag nm =>
          simp only [lexOk, Bool.and_eq_true] at h
          simp only [emitGo, lexOk, h.1, Bool.true_and]
          exact ih r hlr hwr .tag _ 0 h.2
        | startTagPI nm =>
          simp only [lexOk, Bool.and_eq_true] at h
          simp only [emitGo, lexOk, h.1, Bool.true_and]
          exact ih r hlr hwr .pi om 0 h.2
        | attr nm v => simp [lexOk] at h
        | attrBare d nm => simp [lexOk] at h
        | startTagClose => simp [lexOk] at h
        | startTagCloseVoid => simp [lexOk] at h
        | startTagClosePI => simp [lexOk] at h
      | tag =>
        have hpi : (LexMode.tag == LexMode.pi) = false := rfl
        simp only [hpi]
        cases t with
        | attr nm v =>
          simp only [lexOk, Bool.and_eq_true] at h
          simp only [emitGo, Bool.false_eq_true, if_false, lexOk, h.1, Bool.true_and]
          exact ih r hlr hwr .tag om 0 h.2
        | startTagCloseVoid =>
          simp only [lexOk] at h
          simp only [emitGo, lexOk]
          exact ih r hlr hwr .content om 0 h
        | startTagClose =>
          simp only [lexOk] at h
          rcases collapseSkip_cases o r with hc | ⟨d, nm, r', rfl, hc⟩ | ⟨d, d2, nm, r', rfl, _, _, hc⟩
          · simp only [emitGo, Bool.false_eq_true, if_false, hc, lexOk]
            exact ih r hlr hwr .content om 0 h
          · simp only [lexOk, Bool.and_eq_true] at h
            simp only [emitGo, Bool.false_eq_true, if_false, hc, lexOk]
            exact ih r' (by simp at hlr; omega) (wf_tail hwr) .content om 0 h.2
          · simp only [lexOk, Bool.and_eq_true] at h
            simp only [emitGo, Bool.false_eq_true, if_false, hc, lexOk]
            exact ih r' (by simp at hlr; omega) (wf_tail (wf_tail hwr)) .content om 0 h.2.2
        | _ => simp [lexOk] at h
      | pi =>
        have hpi : (LexMode.pi == LexMode.pi) = true := rfl
        simp only [hpi]
        cases t with
        | attr nm v =>
          have hv : WfAttrVal v := hwf (.attr nm v) (by simp)
          simp only [lexOk, Bool.and_eq_true, Bool.not_eq_true'] at h
          simp only [emitGo, if_true, attrOutPI_id v hv, lexOk, h.1.1, h.1.2, Bool.true_and, Bool.not_false]
          exact ih r hlr hwr .pi om 0 h.2
        | attrBare d nm =>
          simp only [lexOk, Bool.and_eq_true] at h
          simp only [emitGo, if_true, lexOk, h.1, Bool.true_and]
          exact ih r hlr hwr .pi om 0 h.2
        | startTagClosePI =>
          simp only [lexOk] at h
          simp only [emitGo, lexOk]
          exact ih r hlr hwr .content om 0 h
        | _ => simp [lexOk] at h


/-! ## no comment is emitted -/

def isCom : XTok → Bool
  | .comment _ => true
  | _ => false

theorem emitGo_no_comment (o : XmlOpts) (n : Nat) : ∀ ts : List XTok, ts.length ≤ n →
    ∀ (om : Bool) (br : Nat) (pi : Bool), ∀ y ∈ emitGo o om br pi 0 ts, isCom y = false := by
  induction n with
  | zero =>
    intro ts hl om br pi
    have : ts = [] := List.length_eq_zero_iff.mp (by omega)
    subst this; simp [emitGo]
  | succ n ih =>
    intro ts hl om br pi
    cases ts with
    | nil => simp [emitGo]
    | cons t r =>
      simp only [List.length_cons] at hl
      have hlr : r.length ≤ n := by omega
      have step : ∀ (t' : XTok) (om' : Bool) (br' : Nat) (pi' : Bool), isCom t' = false →
          ∀ y ∈ t' :: emitGo o om' br' pi' 0 r, isCom y = false := by
        intro t' om' br' pi' ht' y hy
        simp only [List.mem_cons] at hy
        rcases hy with rfl | hy
        · exact ht'
        · exact ih r hlr om' br' pi' y hy
      cases t with
      | startTag nm => simpa only [emitGo] using step (.startTag nm) _ 0 pi rfl
      | endTag d nm => simpa only [emitGo] using step (.endTag (endTagOut d nm) nm) _ 0 pi rfl
      | attr nm v => simpa only [emitGo] using step (.attr nm (if pi then attrOutPI v else attrOut v)) om 0 pi rfl
      | attrBare d nm =>
        simp only [emitGo]
        cases pi with
        | true => simpa using step (.attrBare d nm) om 0 true rfl
        | false => simpa using step (.attr nm []) om 0 false rfl
      | startTagPI nm => simpa only [emitGo] using step (.startTagPI nm) om 0 true rfl
      | startTagClosePI => simpa only [emitGo] using step .startTagClosePI om 0 false rfl
      | doctype d => simpa only [emitGo] using step (.doctype d) om 0 pi rfl
      | comment d => simpa only [emitGo] using ih r hlr om br pi
      | startTagCloseVoid => simpa only [emitGo] using step .startTagCloseVoid om 0 false rfl
      | startTagClose =>
        cases pi with
        | true => simpa only [emitGo, if_true] using step .startTagClose om 0 false rfl
        | false =>
        simp only [emitGo, Bool.false_eq_true, if_false]
        rcases collapseSkip_cases o r with hc | ⟨d, nm, r', rfl, hc⟩ | ⟨d, d2, nm, r', rfl, _, _, hc⟩
        · simpa only [hc] using step .startTagClose om 0 false rfl
        · simp only [emitGo, hc]
          intro y hy
          simp only [List.mem_cons] at hy
          rcases hy with rfl | hy
          · rfl
          · exact ih r' (by simp at hlr; omega) om 0 false y hy
        · simp only [emitGo, hc]
          intro y hy
          simp only [List.mem_cons] at hy
          rcases hy with rfl | hy
          · rfl
          · exact ih r' (by simp at hlr; omega) om 0 false y hy
      | cdata data txt =>
        simp only [emitGo]
        split
        · exact ih r hlr om br pi
        · split
          · exact step _ _ _ pi rfl
          · exact step _ _ _ pi rfl
      | text d =>
        simp only [emitGo]
        intro y hy
        unfold emitText at hy
        split at hy
        · exact ih r hlr _ _ pi y hy
        · simp only [List.mem_cons] at hy
          rcases hy with rfl | hy
          · rfl
          · exact ih r hlr _ _ pi y hy

theorem emit_no_comment (o : XmlOpts) (ts : List XTok) : ∀ d, XTok.comment d ∉ emit o true ts := by
  intro d hd
  have := emitGo_no_comment o ts.length ts (Nat.le_refl _) true 0 false _ hd
  simp [isCom] at this

/-! ## the lexer contract of C09 implies the hypotheses of the C06 theorems -/

theorem lexOk_shape : ∀ (ts : List XTok) (m : LexMode), lexOk m ts = true →
    lexShape (m == .tag) ts = true ∧ bareInPI (m == .pi) ts = true := by
  have e1 : (LexMode.content == LexMode.tag) = false := rfl
  have e2 : (LexMode.content == LexMode.pi) = false := rfl
  have e3 : (LexMode.tag == LexMode.tag) = true := rfl
  have e4 : (LexMode.tag == LexMode.pi) = false := rfl
  have e5 : (LexMode.pi == LexMode.tag) = false := rfl
  have e6 : (LexMode.pi == LexMode.pi) = true := rfl
  intro ts
  induction ts with
  | nil => intro m _; simp [lexShape, bareInPI]
  | cons t r ih =>
    intro m h
    have ic := ih .content
    have it := ih .tag
    have ip := ih .pi
    simp only [e1, e2, e3, e4, e5, e6] at ic it ip
    cases m with
    | content =>
      simp only [e1, e2]
      cases t with
      | text d => simp only [lexOk, Bool.and_eq_true] at h; simpa [lexShape, bareInPI] using ic h.2
      | comment d => simp only [lexOk] at h; simpa [lexShape, bareInPI] using ic h
      | cdata d t' => simp only [lexOk, Bool.and_eq_true] at h; simpa [lexShape, bareInPI] using ic h.2
      | doctype d => simp only [lexOk, Bool.and_eq_true] at h; simpa [lexShape, bareInPI] using ic h.2
      | endTag d n => simp only [lexOk, Bool.and_eq_true] at h; simpa [lexShape, bareInPI] using ic h.2
      | startTag n => simp only [lexOk, Bool.and_eq_true] at h; simpa [lexShape, bareInPI] using it h.2
      | startTagPI n => simp only [lexOk, Bool.and_eq_true] at h; simpa [lexShape, bareInPI] using ip h.2
      | attr n v => simp [lexOk] at h
      | attrBare d n => simp [lexOk] at h
      | startTagClose => simp [lexOk] at h
      | startTagCloseVoid => simp [lexOk] at h
      | startTagClosePI => simp [lexOk] at h
    | tag =>
      simp only [e3, e4]
      cases t with
      | attr n v => simp only [lexOk, Bool.and_eq_true] at h; simpa [lexShape, bareInPI] using it h.2
      | startTagClose => simp only [lexOk] at h; simpa [lexShape, bareInPI] using ic h
      | startTagCloseVoid => simp only [lexOk] at h; simpa [lexShape, bareInPI] using ic h
      | _ => simp [lexOk] at h
    | pi =>
      simp only [e5, e6]
      cases t with
      | attr n v => simp only [lexOk, Bool.and_eq_true] at h; simpa [lexShape, bareInPI] using ip h.2
      | attrBare d n => simp only [lexOk, Bool.and_eq_true] at h; simpa [lexShape, bareInPI] using ip h.2
      | startTagClosePI => simp only [lexOk] at h; simpa [lexShape, bareInPI] using ic h
      | _ => simp [lexOk] at h


/-- in a stream of the lexer contract no `>` / `/>` occurs inside a PI: its bytes are the concatenation of the tokens' bytes -/
theorem lexOk_noClose : ∀ (ts : List XTok) (m : LexMode), lexOk m ts = true → noCloseInPI (m == .pi) ts = true := by
  have e2 : (LexMode.content == LexMode.pi) = false := rfl
  have e4 : (LexMode.tag == LexMode.pi) = false := rfl
  have e6 : (LexMode.pi == LexMode.pi) = true := rfl
  intro ts
  induction ts with
  | nil => intro m _; rfl
  | cons t r ih =>
    intro m h
    have ic := ih .content
    have it := ih .tag
    have ip := ih .pi
    simp only [e2, e4, e6] at ic it ip
    cases m with
    | content =>
      simp only [e2]
      cases t with
      | text d => simp only [lexOk, Bool.and_eq_true] at h; simpa [noCloseInPI] using ic h.2
      | comment d => simp only [lexOk] at h; simpa [noCloseInPI] using ic h
      | cdata d t' => simp only [lexOk, Bool.and_eq_true] at h; simpa [noCloseInPI] using ic h.2
      | doctype d => simp only [lexOk, Bool.and_eq_true] at h; simpa [noCloseInPI] using ic h.2
      | endTag d n => simp only [lexOk, Bool.and_eq_true] at h; simpa [noCloseInPI] using ic h.2
      | startTag n => simp only [lexOk, Bool.and_eq_true] at h; simpa [noCloseInPI] using it h.2
      | startTagPI n => simp only [lexOk, Bool.and_eq_true] at h; simpa [noCloseInPI] using ip h.2
      | attr n v => simp [lexOk] at h
      | attrBare d n => simp [lexOk] at h
      | startTagClose => simp [lexOk] at h
      | startTagCloseVoid => simp [lexOk] at h
      | startTagClosePI => simp [lexOk] at h
    | tag =>
      simp only [e4]
      cases t with
      | attr n v => simp only [lexOk, Bool.and_eq_true] at h; simpa [noCloseInPI] using it h.2
      | startTagClose => simp only [lexOk] at h; simpa [noCloseInPI] using ic h
      | startTagCloseVoid => simp only [lexOk] at h; simpa [noCloseInPI] using ic h
      | _ => simp [lexOk] at h
    | pi =>
      simp only [e6]
      cases t with
      | attr n v => simp only [lexOk, Bool.and_eq_true] at h; simpa [noCloseInPI] using ip h.2
      | attrBare d n => simp only [lexOk, Bool.and_eq_true] at h; simpa [noCloseInPI] using ip h.2
      | startTagClosePI => simp only [lexOk] at h; simpa [noCloseInPI] using ic h
      | _ => simp [lexOk] at h

/-- the bytes written for the emitted stream of a lexer-contract stream -/
theorem xmlMinify_bytes (o : XmlOpts) (ts : List XTok) (h : lexOk .content (emit o true ts) = true) :
    xmlMinify o ts = bytesOf (emit o true ts) := by
  rw [bytesOf_renderAll]
  exact renderGo_eq_renderAll _ false (lexOk_noClose _ .content h)

/-! ## the emitted stream: all facts together -/

/-- what is known about the stream written by the loop (C06 `xml_wellformed` lifted, plus shape and contracts) -/
theorem emit_facts (o : XmlOpts) (ts : List XTok) (hwf : ∀ x ∈ ts, WfTokP x) (hlex : lexOk .content ts = true) :
    (∀ y ∈ emit o true ts, WfOutP y) ∧ rawCdEnd (emit o true ts) = false ∧
      lexOk .content (emit o true ts) = true ∧ ∀ d, XTok.comment d ∉ emit o true ts := by
  have hsh := lexOk_shape ts .content hlex
  refine ⟨wfout_aux o ts.length ts (Nat.le_refl _) hwf true 0 false hsh.2, ?_, ?_, emit_no_comment o ts⟩
  · have h := rawfree_aux o ts.length ts (Nat.le_refl _) true 0 false [] rfl rfl
    simp only [rawCdEnd, List.any_eq_false]
    intro run hr
    rw [← cdAuto_hasCdEnd]
    simpa using h run hr
  · exact emitGo_lexOk o ts.length ts (Nat.le_refl _) hwf .content true 0 hlex

/-! ## canonical streams are lexer-shaped streams -/

theorem canon_lexOk (n : Nat) : ∀ (vs : List XTok), vs.length ≤ n → ∀ tg, canonOk tg vs = true →
    lexOk (if tg then .tag else .content) vs = true := by
  induction n with
  | zero =>
    intro vs hl tg h
    have : vs = [] := List.length_eq_zero_iff.mp (by omega)
    subst this
    cases tg <;> simp_all [canonOk, lexOk]
  | succ n ih =>
    intro vs hl tg h
    cases vs with
    | nil => cases tg <;> simp_all [canonOk, lexOk]
    | cons t r =>
      simp only [List.length_cons] at hl
      have hlr : r.length ≤ n := by omega
      cases tg with
      | false =>
        simp only [Bool.false_eq_true, if_false]
        cases t with
        | text d =>
          simp only [canonOk, Bool.and_eq_true] at h
          have := ih r hlr false h.2
          simp only [Bool.false_eq_true, if_false] at this
          simp only [lexOk, h.1.1.1, this, Bool.true_and]
        | comment d =>
          simp only [canonOk, Bool.and_eq_true] at h
          have := ih r hlr false h.2
          simp only [Bool.false_eq_true, if_false] at this
          simp only [lexOk, this]
        | cdata d t' =>
          simp only [canonOk, Bool.and_eq_true] at h
          have := ih r hlr false h.2
          simp only [Bool.false_eq_true, if_false] at this
          simp only [lexOk, h.1, this, Bool.true_and]
        | doctype d =>
          simp only [canonOk, Bool.and_eq_true] at h
          have := ih r hlr false h.2
          simp only [Bool.false_eq_true, if_false] at this
          simp only [lexOk, h.1, this, Bool.true_and]
        | endTag d nm =>
          simp only [canonOk, Bool.and_eq_true] at h
          have := ih r hlr false h.2
          simp only [Bool.false_eq_true, if_false] at this
          simp only [lexOk, h.1, this, Bool.true_and]
        | startTag nm =>
          simp only [canonOk, Bool.and_eq_true] at h
          have := ih r hlr true h.2
          simp only [if_true] at this
          simp only [lexOk, h.1, this, Bool.true_and]
        | startTagPI nm =>
          cases r with
          | nil => simp [canonOk] at h
          | cons t2 r2 =>
            cases t2 with
            | startTagClosePI =>
              simp only [canonOk, Bool.and_eq_true] at h
              have := ih r2 (by simp at hlr; omega) false h.2
              simp only [Bool.false_eq_true, if_false] at this
              simp only [lexOk, h.1, this, Bool.true_and]
            | attrBare d d' =>
              cases r2 with
              | nil => simp [canonOk] at h
              | cons t3 r3 =>
                cases t3 with
                | startTagClosePI =>
                  simp only [canonOk, Bool.and_eq_true, beq_iff_eq] at h
                  obtain ⟨⟨⟨⟨hn, _⟩, hne⟩, hd⟩, hr⟩ := h
                  have := ih r3 (by simp at hlr; omega) false hr
                  simp only [Bool.false_eq_true, if_false] at this
                  simp only [lexOk, hn, hd, hne, this, Bool.true_and]
                | _ => simp [canonOk] at h
            | _ => simp [canonOk] at h
        | _ => simp [canonOk] at h
      | true =>
        simp only [if_true]
        cases t with
        | attr nm v =>
          simp only [canonOk, Bool.and_eq_true] at h
          have := ih r hlr true h.2
          simp only [if_true] at this
          simp only [lexOk, h.1.1, this, Bool.true_and]
        | startTagClose =>
          simp only [canonOk] at h
          have := ih r hlr false h
          simp only [Bool.false_eq_true, if_false] at this
          simp only [lexOk, this]
        | startTagCloseVoid =>
          simp only [canonOk] at h
          have := ih r hlr false h
          simp only [Bool.false_eq_true, if_false] at this
          simp only [lexOk, this]
        | _ => simp [canonOk] at h

/-- the reader's view keeps the tokens grammatical (`WfTokP`): merged runs of character data are character data -/
theorem viewGo_wfTokP : ∀ (ts : List XTok), (∀ x ∈ ts, WfTokP x) →
    (∀ acc, (acc = [] ∨ WfText acc) → ∀ x ∈ viewGo (.txt acc) ts, WfTokP x) ∧
    (∀ d, ∀ x ∈ viewGo (.pi d) ts, WfTokP x) := by
  intro ts
  induction ts with
  | nil =>
    intro _
    constructor
    · intro acc ha x hx
      simp only [viewGo, flushText] at hx
      split at hx
      · simp at hx
      · next hne =>
        simp only [List.mem_singleton] at hx
        subst hx
        rcases ha with rfl | ha
        · simp at hne
        · exact ha
    · intro d x hx
      simp only [viewGo, flushPi] at hx
      split at hx
      · simp at hx
      · simp only [List.mem_singleton] at hx; subst hx; trivial
  | cons t r ih =>
    intro hw
    have hwr : ∀ x ∈ r, WfTokP x := fun x hx => hw x (by simp [hx])
    obtain ⟨ih1, ih2⟩ := ih hwr
    have ht : WfTokP t := hw t (by simp)
    have flush : ∀ (acc : List Char) (k : List XTok), (acc = [] ∨ WfText acc) → (∀ x ∈ k, WfTokP x) →
        ∀ x ∈ flushText acc k, WfTokP x := by
      intro acc k ha hk x hx
      unfold flushText at hx
      split at hx
      · exact hk x hx
      · next hne =>
        simp only [List.mem_cons] at hx
        rcases hx with rfl | hx
        · rcases ha with rfl | ha
          · simp at hne
          · exact ha
        · exact hk x hx
    have consP : ∀ (k : List XTok), (∀ x ∈ k, WfTokP x) → ∀ x ∈ t :: k, WfTokP x := by
      intro k hk x hx
      simp only [List.mem_cons] at hx
      rcases hx with rfl | hx
      · exact ht
      · exact hk x hx
    constructor
    · intro acc ha
      cases t with
      | text d =>
        simp only [viewGo]
        exact ih1 (acc ++ d) (Or.inr (wfText_append acc d ha ht))
      | startTagPI nm =>
        simp only [viewGo]
        exact flush acc _ ha (consP _ (ih2 []))
      | _ =>
        simp only [viewGo]
        exact flush acc _ ha (consP _ (ih1 [] (Or.inl rfl)))
    · intro d
      cases t with
      | startTagClosePI =>
        simp only [viewGo, flushPi]
        intro x hx
        split at hx
        · exact consP _ (ih1 [] (Or.inl rfl)) x hx
        · simp only [List.mem_cons] at hx
          rcases hx with rfl | hx
          · trivial
          · exact consP _ (ih1 [] (Or.inl rfl)) x (by simpa using hx)
      | _ =>
        simp only [viewGo]
        exact ih2 _

end Verif.Proofs.C09Xml

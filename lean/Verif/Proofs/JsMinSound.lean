import Verif.Proofs.JsNullishSound
import Verif.Model.JsPrint
set_option linter.unusedSimpArgs false
set_option linter.unnecessarySimpa false
/-!
# C01-B — the whole traversal `minGen rw` keeps the behaviour when the node rewriter `rw` does
-/
namespace Verif.Proofs.JsMinSound
open Verif.Spec.JsSyntax Verif.Spec.JsSem Verif.Model.JsAst Verif.Model.JsOpt Verif.Model.JsPrint
open Verif.Proofs.JsSemLemmas Verif.Proofs.JsOptSound Verif.Proofs.JsPure Verif.Proofs.JsCondSound
open Verif.Proofs.JsNullishSound
open Verif.Spec.JsSyntax.E

variable {H : Host}

/-- the one assumption on the host: `0[0]` (the minifier's spelling of `undefined`) is `undefined` -/
structure HostOk (H : Host) : Prop where
  undef00 : H.primGet (.num 0) (.num 0) = .undef

/-- `t` behaves like `e`, as a value and (when `e` is an assignment target) as a reference -/
def Good (H : Host) (t e : E) : Prop :=
  eval H t = eval H e ∧ (assignable e = true → lref H t = lref H e)

theorem good_refl (e : E) : Good H e e := ⟨rfl, fun _ => rfl⟩

/-! ## congruence -/

theorem mapO_evalL (f : E → Option E) (l l' : List E) (h : mapO f l = some l')
    (hf : ∀ a a', f a = some a' → eval H a' = eval H a) : evalL H l' = evalL H l := by
  induction l generalizing l' with
  | nil => simp [mapO] at h; subst h; rfl
  | cons a t ih =>
    simp only [mapO] at h
    cases ha : f a with
    | none => simp [ha] at h
    | some a' =>
      cases ht : mapO f t with
      | none => simp [ha, ht] at h
      | some t' =>
        simp [ha, ht] at h
        subst h
        simp only [evalL_cons, hf a a' ha, ih t' ht]

/-- operators whose left operand is evaluated as a value (not as a reference) -/
theorem eval_bin_value (op : BOp) (x x' y y' : E) (hop : isAssignLike op = false)
    (hx : eval H x' = eval H x) (hy : eval H y' = eval H y) : eval H (.bin op x' y') = eval H (.bin op x y) := by
  have := nonAssign_class op (by simpa [isAssignLike] using hop)
  rcases this with rfl | rfl | rfl | hs
  · simp [hx, hy]
  · simp [hx, hy]
  · simp [hx, hy]
  · rw [eval_strict op _ _ hs, eval_strict op _ _ hs, hx, hy]

theorem eval_bin_ref (op : BOp) (x x' y y' : E)
    (hx : lref H x' = lref H x) (hy : eval H y' = eval H y) (hop : isAssignLike op = true) :
    eval H (.bin op x' y') = eval H (.bin op x y) := by
  have hcls : ∀ o ∈ BOp.all, isAssignLike o = true →
      (o = .assign ∨ o = .landEq ∨ o = .lorEq ∨ o = .nullishEq ∨ (compoundOp o).isSome = true) := by decide
  rcases hcls op (BOp.mem_all op) hop with rfl | rfl | rfl | rfl | hc
  · simp [eval, hx, hy]
  · simp [eval, hx, hy]
  · simp [eval, hx, hy]
  · simp [eval, hx, hy]
  · cases op <;> simp [compoundOp] at hc <;> simp [eval, compoundOp, hx, hy]

theorem eval_bin_congr (op : BOp) (x x' y y' : E) (hx : Good H x' x) (hy : eval H y' = eval H y)
    (ha : isAssignLike op = true → assignable x = true) : eval H (.bin op x' y') = eval H (.bin op x y) := by
  cases hop : isAssignLike op with
  | true => exact eval_bin_ref op x x' y y' (hx.2 (ha hop)) hy hop
  | false => exact eval_bin_value op x x' y y' hop hx.1 hy

theorem eval_unary_congr (op : UOp) (x x' : E) (hx : Good H x' x)
    (ha : (op == .postinc || op == .postdec || op == .preinc || op == .predec || op == .delete) = true →
      assignable x = true) : eval H (.unary op x') = eval H (.unary op x) := by
  cases op
  all_goals first
    | (simp [eval, hx.1]; done)
    | (have := hx.2 (ha rfl); simp [eval, this])

/-- for every operator that is not an assignment, the left operand is evaluated first, as a value -/
theorem eval_bin_left (op : BOp) (y : E) (hop : isAssignLike op = false) :
    ∃ K : Val → M Val, ∀ x, eval H (.bin op x y) = bindM (eval H x) K := by
  have := nonAssign_class op (by simpa [isAssignLike] using hop)
  rcases this with rfl | rfl | rfl | hs
  · exact ⟨_, fun x => eval_land x y⟩
  · exact ⟨_, fun x => eval_lor x y⟩
  · exact ⟨_, fun x => eval_nullish x y⟩
  · exact ⟨_, fun x => eval_strict op x y hs⟩

/-! ## the pieces of `descend` -/

theorem eval_undefIdx (hH : HostOk H) : eval H undefIdx = retM .undef := by
  simp [undefIdx, eval, getProp, hH.undef00]

theorem eval_var_undefined : eval H (.var "undefined") = retM .undef := by
  funext s; simp [getVar, lookup, retM]

theorem getVar_undefined : getVar "undefined" = retM .undef := by
  funext s; simp [getVar, lookup, retM]

theorem hoistList_some (op : BOp) (x : E) (p : Prec) (l : List E) (h : hoistList op x p = some l) :
    x = .group (.comma l) ∧ op.left ≤ (lastD l x).prec := by
  unfold hoistList at h
  split at h
  · cases x with
    | group g =>
      cases g with
      | comma l0 =>
        simp only at h
        split at h
        · rename_i hp
          injection h with h
          subst h
          exact ⟨rfl, hp⟩
        · cases h
      | _ => simp at h
    | _ => simp at h
  · cases h

theorem notLit_sound (x r : E) (h : notLit x = some r) : eval H r = eval H (.unary .not x) := by
  unfold notLit at h
  split at h
  · rename_i s0
    injection h with h; subst h
    by_cases hs0 : s0 = ""
    · subst hs0; simp [truthy]
    · have : (s0 != "") = true := by simpa using hs0
      simp [truthy, hs0, this]
  · rename_i n
    injection h with h; subst h
    by_cases hn : n = 0
    · subst hn; simp [truthy]
    · have : ((n : Int) != 0) = true := by simp; omega
      simp [truthy, hn, this]
  · cases h

theorem assignable_group (x : E) : assignable (.group x) = assignable x := by simp [assignable, E.inner]

/-- `a==null` computes the nullish test of the variable -/
theorem eval_nullTest (v : String) (neg : Bool) (s : St) :
    eval H (.bin (if neg then BOp.ne else BOp.eq) (.var v) (.lit .null)) s = .ok (testVal neg (lookup s v)) s := by
  have hk : isUndefinedOrNull (.lit .null) = true := by simp [isUndefinedOrNull, E.inner]
  cases neg with
  | true =>
    obtain ⟨k, _, _, e⟩ := cmp_left (H := H) .ne v (.lit .null) hk (by simp)
    simpa [nullTest, testVal] using e s
  | false =>
    obtain ⟨k, _, _, e⟩ := cmp_left (H := H) .eq v (.lit .null) hk (by simp)
    simpa [nullTest, testVal] using e s

/-- an expression whose value is always a string -/
def StrValued (H : Host) (e : E) : Prop :=
  ∀ s, match eval H e s with | .ok v _ => ∃ t, v = .str t | .thr _ _ => True

theorem typeof_strValued (x : E) (h : isTypeof x = true) : StrValued H x := by
  cases x <;> simp [isTypeof] at h
  rename_i op z
  cases op <;> simp [isTypeof] at h
  intro s
  simp only [eval, bindM, retM]
  cases eval H z s with
  | thr _ _ => trivial
  | ok v s' => cases v <;> exact ⟨_, rfl⟩

theorem strLit_strValued (x : E) (h : isStrLit x = true) : StrValued H x := by
  cases x <;> simp [isStrLit] at h
  rename_i l
  cases l <;> simp [isStrLit] at h
  intro s; simp [retM]

/-- on two strings `==` and `===` (and `!=`, `!==`) agree -/
theorem strict_loose_str (a b : String) (s : St) :
    strictBin H .eq (.str a) (.str b) s = strictBin H .seq (.str a) (.str b) s ∧
    strictBin H .ne (.str a) (.str b) s = strictBin H .sne (.str a) (.str b) s := by
  simp [strictBin, looseEq, isNullish, sameKind, bindM, retM]

theorem typeofEq_sound (x y : E) (hx : StrValued H x) (hy : StrValued H y) :
    eval H (.bin .eq x y) = eval H (.bin .seq x y) ∧ eval H (.bin .ne x y) = eval H (.bin .sne x y) := by
  have key : ∀ s, eval H (.bin .eq x y) s = eval H (.bin .seq x y) s ∧ eval H (.bin .ne x y) s = eval H (.bin .sne x y) s := by
    intro s
    rw [eval_strict .eq x y rfl, eval_strict .seq x y rfl, eval_strict .ne x y rfl, eval_strict .sne x y rfl]
    simp only [bindM]
    have h1 := hx s
    cases hxs : eval H x s with
    | thr _ _ => exact ⟨rfl, rfl⟩
    | ok a s1 =>
      rw [hxs] at h1
      obtain ⟨ta, rfl⟩ := h1
      have h2 := hy s1
      dsimp only
      cases hys : eval H y s1 with
      | thr _ _ => exact ⟨rfl, rfl⟩
      | ok b s2 =>
        rw [hys] at h2
        obtain ⟨tb, rfl⟩ := h2
        dsimp only
        exact strict_loose_str ta tb s2
  exact ⟨funext fun s => (key s).1, funext fun s => (key s).2⟩

theorem binCore_sound (rec : E → Prec → Option E) (hrec : ∀ e p t, rec e p = some t → Good H t e)
    (op : BOp) (y x1 t : E) (ha : isAssignLike op = true → assignable x1 = true)
    (h : binCore rec op y x1 = some t) : eval H t = eval H (.bin op x1 y) := by
  unfold binCore at h
  by_cases hio : (op == .inOp || op == .instOf) = true
  · rw [if_pos hio] at h
    cases hx : rec x1 op.left with
    | none => simp [hx] at h
    | some x' =>
      cases hy : rec y op.right with
      | none => simp [hx, hy] at h
      | some y' =>
        simp [hx, hy] at h
        subst h
        exact eval_bin_congr op x1 x' y y' (hrec _ _ _ hx) (hrec _ _ _ hy).1 ha
  · rw [if_neg hio] at h
    simp only [binPrep] at h
    cases hi : isUndefinedOrNullVar (.bin op x1 y) with
    | some r =>
      obtain ⟨v, neg⟩ := r
      simp only [hi] at h
      have hty : ((((if neg then BOp.ne else BOp.eq) == BOp.seq || (if neg then BOp.ne else BOp.eq) == BOp.sne) &&
          ((isTypeof (.var v) && isStrLit (.lit .null)) || (isTypeof (.lit .null) && isStrLit (.var v)))) = true) = False := by
        cases neg <;> simp [isTypeof, isStrLit]
      simp only [hty, if_false] at h
      cases hx : rec (.var v) op.left with
      | none => simp [hx] at h
      | some x' =>
        cases hy : rec (.lit .null) (if neg then BOp.ne else BOp.eq).right with
        | none => simp [hx, hy] at h
        | some y' =>
          simp [hx, hy] at h
          subst h
          have hna : isAssignLike (if neg then BOp.ne else BOp.eq) = false := by cases neg <;> decide
          rw [eval_bin_value _ _ _ _ _ hna (hrec _ _ _ hx).1 (hrec _ _ _ hy).1]
          funext s
          rw [eval_nullTest, iuonv_sound _ v neg hi s]
    | none =>
      simp only [hi] at h
      by_cases hty : ((op == .seq || op == .sne) && ((isTypeof x1 && isStrLit y) || (isTypeof y && isStrLit x1))) = true
      · rw [if_pos hty] at h
        simp only [Bool.and_eq_true, Bool.or_eq_true, beq_iff_eq] at hty
        obtain ⟨hop, hsh⟩ := hty
        have hsx : StrValued H x1 := by
          rcases hsh with ⟨h1, _⟩ | ⟨_, h2⟩
          · exact typeof_strValued x1 h1
          · exact strLit_strValued x1 h2
        have hsy : StrValued H y := by
          rcases hsh with ⟨_, h2⟩ | ⟨h1, _⟩
          · exact strLit_strValued y h2
          · exact typeof_strValued y h1
        have hte := typeofEq_sound (H := H) x1 y hsx hsy
        rcases hop with rfl | rfl
        · simp only [beq_self_eq_true, if_true] at h
          cases hx : rec x1 BOp.seq.left with
          | none => simp [hx] at h
          | some x' =>
            cases hy : rec y BOp.eq.right with
            | none => simp [hx, hy] at h
            | some y' =>
              simp [hx, hy] at h
              subst h
              rw [eval_bin_value .eq _ _ _ _ (by decide) (hrec _ _ _ hx).1 (hrec _ _ _ hy).1, hte.1]
        · have hne : (BOp.sne == BOp.seq) = false := by decide
          simp only [hne, Bool.false_eq_true, if_false] at h
          cases hx : rec x1 BOp.sne.left with
          | none => simp [hx] at h
          | some x' =>
            cases hy : rec y BOp.ne.right with
            | none => simp [hx, hy] at h
            | some y' =>
              simp [hx, hy] at h
              subst h
              rw [eval_bin_value .ne _ _ _ _ (by decide) (hrec _ _ _ hx).1 (hrec _ _ _ hy).1, hte.2]
      · rw [if_neg hty] at h
        cases hx : rec x1 op.left with
        | none => simp [hx] at h
        | some x' =>
          cases hy : rec y op.right with
          | none => simp [hx, hy] at h
          | some y' =>
            simp [hx, hy] at h
            subst h
            exact eval_bin_congr op x1 x' y y' (hrec _ _ _ hx) (hrec _ _ _ hy).1 ha

theorem left_pos (op : BOp) : 0 < op.left := by
  have : ∀ o ∈ BOp.all, 0 < o.left := by decide
  exact this op (BOp.mem_all op)

theorem map_good {f : E → E} {o : Option E} {t e : E} (h : o.map f = some t)
    (hg : ∀ x', o = some x' → Good H (f x') e) : Good H t e := by
  cases o with
  | none => simp at h
  | some x' => simp at h; subst h; exact hg x' rfl

/-- the member / index / call cases -/
theorem descLink_sound (rec : E → Prec → Option E)
    (hrec : ∀ e p t, rec e p = some t → Good H t e)
    (e1 : E) (p : Prec) (t : E) (h : descLink rec e1 p = some t) : Good H t e1 := by
  have hmap : ∀ l l', mapO (fun a => rec a opAssign) l = some l' → evalL H l' = evalL H l :=
    fun l l' hl => mapO_evalL _ l l' hl (fun a a' ha => (hrec _ _ _ ha).1)
  cases e1 with
  | dot x name =>
    simp only [descLink] at h
    cases hd : dotNumObj x with
    | some n =>
      simp only [hd] at h
      have hx : x = .group (.lit (.num n)) := by
        unfold dotNumObj at hd
        split at hd
        · injection hd with hd; subst hd; rfl
        · cases hd
      subst hx
      split at h
      · injection h with h; subst h
        exact ⟨by simp [eval], fun _ => by simp [lref, eval]⟩
      · cases h
    | none =>
      simp only [hd] at h
      exact map_good h (fun x' hx' =>
        ⟨by simp [eval, (hrec _ _ _ hx').1], fun _ => by simp [lref, (hrec _ _ _ hx').1]⟩)
  | index x y =>
    simp only [descLink] at h
    cases hx : rec x (if p < opMember then opCall else opMember) with
    | none => simp [hx] at h
    | some x' =>
      simp only [hx] at h
      have hxe := (hrec _ _ _ hx).1
      cases hs : strLit? y with
      | some s0 =>
        simp only [hs] at h
        have hy : y = .lit (.str s0) := by
          unfold strLit? at hs
          split at hs
          · injection hs with hs; subst hs; rfl
          · cases hs
        subst hy
        split at h
        · injection h with h; subst h
          exact ⟨by simp [eval, hxe], fun _ => by simp [lref, hxe]⟩
        · exact map_good h (fun y' hy' =>
            ⟨by simp [eval, hxe, (hrec _ _ _ hy').1], fun _ => by simp [lref, hxe, (hrec _ _ _ hy').1]⟩)
      | none =>
        simp only [hs] at h
        exact map_good h (fun y' hy' =>
          ⟨by simp [eval, hxe, (hrec _ _ _ hy').1], fun _ => by simp [lref, hxe, (hrec _ _ _ hy').1]⟩)
  | call f args =>
    refine ⟨?_, by simp [assignable, E.inner]⟩
    simp only [descLink] at h
    cases hf : rec f opCall with
    | none => simp [hf] at h
    | some f' =>
      cases hargs : mapO (fun a => rec a opAssign) args with
      | none => simp [hf, hargs] at h
      | some args' =>
        simp [hf, hargs] at h
        subst h
        simp [eval_call, (hrec _ _ _ hf).1, hmap _ _ hargs]
  | _ => simp [descLink] at h

/-- one step of the traversal keeps the behaviour if the recursive calls and the node rewriter do -/
theorem descend_sound (hH : HostOk H) (rw rec : E → Prec → Option E)
    (hrw : ∀ e p r, rw e p = some r → eval H r = eval H e)
    (hrec : ∀ e p t, rec e p = some t → Good H t e)
    (e1 : E) (p : Prec) (t : E) (h : descend rw rec e1 p = some t) : Good H t e1 := by
  have hmap : ∀ l l', mapO (fun a => rec a opAssign) l = some l' → evalL H l' = evalL H l :=
    fun l l' hl => mapO_evalL _ l l' hl (fun a a' ha => (hrec _ _ _ ha).1)
  cases e1 with
  | var n =>
    simp only [descend] at h
    by_cases hu : (n == "undefined") = true
    · rw [if_pos hu] at h
      injection h with h
      subst h
      have hn : n = "undefined" := by simpa using hu
      subst hn
      refine ⟨?_, by simp [assignable, E.inner]⟩
      split <;> simp [eval_undefIdx hH, getVar_undefined]
    · rw [if_neg hu] at h
      split at h
      · cases h
      · injection h with h; subst h; exact good_refl _
  | lit l =>
    have hna : assignable (.lit l) = false := by simp [assignable, E.inner]
    cases l with
    | true =>
      simp only [descend] at h
      injection h with h; subst h
      refine ⟨?_, by simp [hna]⟩
      split <;> simp [truthy]
    | false =>
      simp only [descend] at h
      injection h with h; subst h
      refine ⟨?_, by simp [hna]⟩
      split <;> simp [truthy]
    | str s0 =>
      simp only [descend] at h
      split at h
      · injection h with h; subst h; exact good_refl _
      · cases h
    | num n => simp only [descend] at h; injection h with h; subst h; exact good_refl _
    | null => simp only [descend] at h; injection h with h; subst h; exact good_refl _
  | bin op x y =>
    refine ⟨?_, by simp [assignable, E.inner]⟩
    simp only [descend] at h
    split at h
    · cases h
    · split at h
      · cases h
      · rename_i hguard
        have ha : isAssignLike op = true → assignable x = true := by
          intro hop
          cases hax : assignable x
          · simp [hop, hax] at hguard
          · rfl
        by_cases hlt : ((op == .lt || op == .shl) && startsNotLit y) = true
        · rw [if_pos hlt] at h; cases h
        rw [if_neg hlt] at h
        cases hh : hoistList op x p with
        | none =>
          simp only [hh] at h
          exact binCore_sound rec hrec op y x t ha h
        | some l =>
          simp only [hh] at h
          obtain ⟨hxe, hprec⟩ := hoistList_some op x p l hh
          subst hxe
          have hnal : isAssignLike op = false := by
            cases hop : isAssignLike op
            · rfl
            · have := ha hop
              simp [assignable, E.inner] at this
          cases hi : mapO (fun a => rec a opAssign) l.dropLast with
          | none => simp [hi] at h
          | some init' =>
            cases hb : binCore rec op y (lastD l (.group (.comma l))) with
            | none => simp [hi, hb] at h
            | some b' =>
              simp [hi, hb] at h
              subst h
              cases hl : l.getLast? with
              | none =>
                -- an empty list cannot satisfy the precedence test
                exfalso
                have : l = [] := by simpa using hl
                subst this
                have h0 : (lastD [] (E.group (.comma []))).prec = 0 := by
                  simp [lastD, E.prec]; decide
                rw [h0] at hprec
                have := left_pos op
                exact absurd hprec (Nat.not_le.mpr this)
              | some last =>
                have hsn := snoc_of_getLast? l last hl
                have hlast : lastD l (.group (.comma l)) = last := by simp [lastD, hl]
                rw [hlast] at hb
                have hcore := binCore_sound rec hrec op y last b' (by intro hop; rw [hnal] at hop; cases hop) hb
                obtain ⟨K, hK⟩ := eval_bin_left (H := H) op y hnal
                rw [eval_comma, evalL_append_single, hmap _ _ hi, hcore, hK, hK, eval_group, eval_comma]
                conv => rhs; rw [hsn]
                rw [evalL_append_single, bindM_assoc]
  | unary op x =>
    refine ⟨?_, by simp [assignable, E.inner]⟩
    simp only [descend] at h
    split at h
    · cases h
    · rename_i hguard
      have ha : (op == .postinc || op == .postdec || op == .preinc || op == .predec || op == .delete) = true →
          assignable x = true := by
        intro hop
        cases hax : assignable x
        · simp [hop, hax] at hguard
        · rfl
      have hdef : ∀ o : Option E, o.map (E.unary op) = some t → (∀ x', o = some x' → Good H x' x) →
          eval H t = eval H (.unary op x) := by
        intro o ho hg
        cases o with
        | none => simp at ho
        | some x' => simp at ho; subst ho; exact eval_unary_congr op x x' (hg x' rfl) ha
      split at h
      · exact hdef _ h (fun x' hx' => hrec _ _ _ hx')
      · split at h
        · rename_i hv
          injection h with h; subst h
          simp only [Bool.and_eq_true, beq_iff_eq, Bool.not_eq_true'] at hv
          obtain ⟨rfl, hs⟩ := hv
          rw [eval_undefIdx hH, eval_void]
          funext s
          obtain ⟨v, hv, _⟩ := hse_pure (H := H) x hs s
          simp [bindM, hv, retM]
        · cases hn : (if op == .not then notLit x else none) with
          | some r =>
            simp only [hn] at h
            injection h with h; subst h
            by_cases hop : (op == .not) = true
            · rw [if_pos hop] at hn
              have : op = .not := by simpa using hop
              subst this
              exact notLit_sound x _ hn
            · rw [if_neg hop] at hn; cases hn
          | none =>
            simp only [hn] at h
            exact hdef _ h (fun x' hx' => hrec _ _ _ hx')
  | dot x name => simp only [descend] at h; exact descLink_sound rec hrec _ p t h
  | index x y => simp only [descend] at h; exact descLink_sound rec hrec _ p t h
  | group x =>
    simp only [descend] at h
    -- the conditional directly inside a group is rewritten first
    have hx1 : ∀ x1, groupInner rw x = some x1 → eval H x1 = eval H x ∧ (assignable x = true → x1 = x) := by
      intro x1 hx1
      unfold groupInner at hx1
      cases x with
      | cond c a b => exact ⟨hrw _ _ _ hx1, fun ha => by simp [assignable, E.inner] at ha⟩
      | _ => simp at hx1; subst hx1; exact ⟨rfl, fun _ => rfl⟩
    cases hx : groupInner rw x with
    | none => simp [hx] at h
    | some x1 =>
      simp only [hx] at h
      obtain ⟨he, ht⟩ := hx1 x1 hx
      split at h
      · cases h
      split at h
      · have hg := hrec _ _ _ h
        refine ⟨by rw [hg.1, he, eval_group], fun ha => ?_⟩
        rw [assignable_group] at ha
        have := ht ha
        subst this
        rw [hg.2 ha]; simp [lref]
      · refine map_good h (fun t' ht' => ?_)
        have hg := hrec _ _ _ ht'
        refine ⟨by rw [eval_group, hg.1, he, eval_group], fun ha => ?_⟩
        rw [assignable_group] at ha
        have := ht ha
        subst this
        simp [lref, hg.2 ha]
  | call f args => simp only [descend] at h; exact descLink_sound rec hrec _ p t h
  | opt a e =>
    simp only [descend] at h
    split at h
    · cases h
    · split at h
      · cases h
      · split at h
        · refine map_good h (fun t' ht' => ?_)
          have hg := descLink_sound (H := H) rec hrec e p t' ht'
          exact ⟨by simp [eval_opt, hg.1], fun ha => by simp [assignable, E.inner] at ha⟩
        · cases h
  | cond c x y =>
    refine ⟨?_, by simp [assignable, E.inner]⟩
    simp only [descend] at h
    cases hc : rec c opCoalesce with
    | none => simp [hc] at h
    | some c' =>
      cases hx : rec x opAssign with
      | none => simp [hc, hx] at h
      | some x' =>
        cases hy : rec y opAssign with
        | none => simp [hc, hx, hy] at h
        | some y' =>
          simp [hc, hx, hy] at h
          subst h
          simp [eval_cond, (hrec _ _ _ hc).1, (hrec _ _ _ hx).1, (hrec _ _ _ hy).1]
  | comma l =>
    refine ⟨?_, by simp [assignable, E.inner]⟩
    simp only [descend] at h
    cases hl : mapO (fun a => rec a opAssign) l with
    | none => simp [hl] at h
    | some l' =>
      simp [hl] at h
      subst h
      simp [eval_comma, hmap _ _ hl]

/-- the whole traversal keeps the behaviour if the node rewriter does (and leaves assignment targets alone) -/
theorem minGen_sound (hH : HostOk H) (rw : E → Prec → Option E)
    (hrw : ∀ e p r, rw e p = some r → eval H r = eval H e)
    (hrwA : ∀ e p r, rw e p = some r → assignable e = true → r = e) :
    ∀ fuel e p t, minGen rw fuel e p = some t → Good H t e := by
  intro fuel
  induction fuel with
  | zero => intro e p t h; simp [minGen] at h
  | succ n ih =>
    intro e p t h
    simp only [minGen] at h
    cases hr : rw e p with
    | none => simp [hr] at h
    | some e1 =>
      simp only [hr] at h
      have hg := descend_sound hH rw (minGen rw n) hrw ih e1 p t h
      refine ⟨by rw [hg.1, hrw e p e1 hr], fun ha => ?_⟩
      have := hrwA e p e1 hr ha
      subst this
      exact hg.2 ha

theorem optNode_sound (v20 : Bool) (e : E) (p : Prec) (r : E) (h : optNode true v20 e p = some r) :
    eval H r = eval H e := by
  unfold optNode at h
  split at h
  · exact optCond_sound v20 _ _ _ p r h
  · injection h with h; subst h; exact optUnary_sound _ _ p
  · injection h with h; subst h; rfl

theorem optNode_target (g v20 : Bool) (e : E) (p : Prec) (r : E) (h : optNode g v20 e p = some r)
    (ha : assignable e = true) : r = e := by
  unfold optNode at h
  split at h
  · simp [assignable, E.inner] at ha
  · simp [assignable, E.inner] at ha
  · injection h with h; exact h.symm

/-- the model of `minifyExpr` with its rewrites (guarded against the open known finding) keeps the behaviour -/
theorem minEG_sound (hH : HostOk H) (v20 : Bool) (fuel : Nat) (e : E) (p : Prec) (t : E)
    (h : minEG v20 fuel e p = some t) : eval H t = eval H e :=
  (minGen_sound hH (optNode true v20) (optNode_sound v20) (optNode_target true v20) fuel e p t h).1

/-- the printer alone keeps the behaviour -/
theorem printT_sound (hH : HostOk H) (fuel : Nat) (e : E) (p : Prec) (t : E)
    (h : printT fuel e p = some t) : eval H t = eval H e :=
  (minGen_sound hH (fun e _ => some e) (fun e p r hr => by injection hr with hr; subst hr; rfl)
    (fun e p r hr _ => by injection hr with hr; exact hr.symm) fuel e p t h).1

end Verif.Proofs.JsMinSound

import Verif.Proofs.NumSpec
set_option linter.unusedSimpArgs false
/-!
# C08 — the print stage of `Number`: length, grammar and value of each of the four print cases
-/
namespace Verif.Proofs.Num
open Verif.Model.Num

/-- minimal length of an exponent part that denotes `e` -/
def expLen (e : Int) : Nat := if e = 0 then 0 else if 0 < e then 1 + lenInt e else 2 + lenInt e

/-- length of the trimmed mantissa `ip[.fp]` -/
def mlen (ip fp : List Char) : Nat := ip.length + (if fp.isEmpty then 0 else 1 + fp.length)

theorem lenInt_facts (x : Int) :
    1 ≤ lenInt x ∧ (3 ≤ x.natAbs → lenInt x + 1 ≤ x.natAbs) ∧ (4 ≤ x.natAbs → lenInt x + 2 ≤ x.natAbs) :=
  ⟨lenNat_pos _, lenNat_lt_of_three_le, lenNat_lt_of_four_le⟩

theorem lenInt_le (x y : Int) (k : Nat) (h : x.natAbs ≤ k + y.natAbs) : lenInt x ≤ k + lenInt y :=
  lenNat_le_of_le h

theorem lenNat_toNat {x : Int} (h : 0 ≤ x) : lenNat x.toNat = lenInt x := by
  rw [lenInt_eq]; congr 1; omega

theorem sgn_length (neg : Bool) (u : List Char) : (sgn neg u).length = u.length + (if neg then 1 else 0) := by
  cases neg <;> simp [sgn]

/-- what `sigDigits` says about lengths, by kind of mantissa -/
def KindLen (ip fp ds : List Char) (N0 : Int) : Prop :=
  (ip = [] ∧ ∃ lz : Nat, fp.length = lz + ds.length ∧ N0 = -(lz : Int)) ∨
  (ip ≠ [] ∧ fp = [] ∧ ∃ tz : Nat, ip.length = ds.length + tz ∧ N0 = (ip.length : Int)) ∨
  (ip ≠ [] ∧ fp ≠ [] ∧ ds.length = ip.length + fp.length ∧ N0 = (ip.length : Int))

theorem sigDigits_kindLen (ip fp : List Char) :
    KindLen ip fp (sigDigits ip fp).1 (sigDigits ip fp).2 := by
  unfold sigDigits KindLen
  by_cases hi : ip = []
  · left
    subst hi
    obtain ⟨_, h2, _⟩ := dropZeros_spec fp
    refine ⟨rfl, fp.length - (dropZeros fp).length, ?_, ?_⟩
    · simp; omega
    · simp
  · right
    have hie : ip.isEmpty = false := by cases ip with | nil => exact absurd rfl hi | cons _ _ => rfl
    by_cases hf : fp = []
    · left
      subst hf
      obtain ⟨_, h2, _⟩ := dropTrail_spec '0' ip
      refine ⟨hi, rfl, ip.length - (dropTrail '0' ip).length, ?_, ?_⟩
      · simp [hie]; omega
      · simp [hie]
    · right
      have hfe : fp.isEmpty = false := by cases fp with | nil => exact absurd rfl hf | cons _ _ => rfl
      exact ⟨hi, hf, by simp [hie, hfe], by simp [hie, hfe]⟩

theorem expLen_cases (e : Int) :
    (e = 0 ∧ expLen e = 0) ∨ (0 < e ∧ expLen e = 1 + lenInt e) ∨ (e < 0 ∧ expLen e = 2 + lenInt e) := by
  unfold expLen
  by_cases h0 : e = 0
  · left; simp [h0]
  · by_cases h1 : 0 < e
    · right; left; simp [h0, h1]
    · right; right; simp [h0, h1]; omega

theorem mlen_cases (ip fp : List Char) :
    (fp.length = 0 ∧ mlen ip fp = ip.length) ∨ (0 < fp.length ∧ mlen ip fp = ip.length + 1 + fp.length) := by
  unfold mlen
  cases fp with
  | nil => left; simp
  | cons c t => right; simp; omega

theorem decStr_natAbs_length (x : Int) : (decStr x.natAbs).length = lenInt x := rfl
theorem lenNat_natAbs (x : Int) : lenNat x.natAbs = lenInt x := rfl

/-- closes the leaves of the case analysis of `printCase` for the length statement -/
macro "print_len_leaves" : tactic => `(tactic|
  (repeat' split
   all_goals first
     | (left; rfl)
     | (right; refine ⟨_, rfl, ?_⟩
        try simp only [Bool.and_eq_true, Bool.or_eq_true, decide_eq_true_eq, Bool.not_eq_true',
          Bool.not_eq_true, not_and, not_or, not_lt, not_le] at *
        simp only [List.length_append, List.length_cons, List.length_nil, List.length_replicate,
          List.length_take, List.length_drop, decStr_natAbs_length, decStr_length, lenNat_natAbs]
        omega)))

theorem printCase_length_A (s : List Char) (neg : Bool) (W : Nat) (fp : List Char) (e : Int)
    (ds : List Char) (lz : Nat) (hfp : fp.length = lz + ds.length)
    (hW : mlen [] fp + expLen e ≤ W) :
    printCase s neg W [] fp e ds (-(lz : Int)) = s ∨
      ∃ u, printCase s neg W [] fp e ds (-(lz : Int)) = sgn neg u ∧ u.length ≤ W := by
  unfold printCase
  simp only []
  generalize hn : (ds.length : Int) = n at *
  generalize hNE : (-(lz:Int) + e) = NE at *
  generalize hIE : NE - n = IE at *
  obtain ⟨a1, a2, a3⟩ := lenInt_facts NE
  obtain ⟨b1, b2, b3⟩ := lenInt_facts IE
  obtain ⟨c1, c2, c3⟩ := lenInt_facts e
  have m1 := lenInt_le NE e lz
  have m2 := lenInt_le IE e 0
  have m3 := lenInt_le NE e 0
  have m4 := lenInt_le IE NE 0
  have m5 := lenInt_le NE IE 0
  have z1 := @lenNat_toNat IE
  have hM := mlen_cases [] fp
  have hE := expLen_cases e
  generalize mlen [] fp = M at *
  generalize expLen e = E at *
  have hfe : fp.isEmpty = true ↔ fp.length = 0 := by cases fp <;> simp
  have hfe' : fp.isEmpty = false ↔ 0 < fp.length := by cases fp <;> simp
  simp only [List.length_nil] at hM
  simp only [hfe]
  split
  · left; rfl
  · right
    split
    · split
      · refine ⟨_, rfl, ?_⟩
        simp only [List.length_append, List.length_cons, decStr_length]
        omega
      · refine ⟨_, rfl, ?_⟩
        simp only [List.length_append, List.length_replicate]
        omega
    · split
      · rename_i h2
        simp only [Bool.and_eq_true, decide_eq_true_eq, Bool.not_eq_true', hfe'] at h2
        refine ⟨_, rfl, ?_⟩
        simp only [List.length_append, List.length_cons, decStr_natAbs_length]
        omega
      · rename_i h2
        simp only [Bool.and_eq_true, decide_eq_true_eq, Bool.not_eq_true', hfe'] at h2
        split
        · split
          · refine ⟨_, rfl, ?_⟩
            simp only [List.length_append, List.length_cons, List.length_replicate]
            omega
          · refine ⟨_, rfl, ?_⟩
            simp only [List.length_append, List.length_cons, List.length_take, List.length_drop]
            omega
        · simp only [List.isEmpty_nil, if_true]
          split
          · refine ⟨_, rfl, ?_⟩
            simp only [List.length_append, List.length_cons, decStr_natAbs_length]
            omega
          · refine ⟨_, rfl, ?_⟩
            split
            · simp only [List.length_append, List.length_cons, decStr_natAbs_length, List.length_nil]
              omega
            · simp only [List.length_append, List.length_cons, decStr_natAbs_length, List.length_nil]
              omega

theorem printCase_length_B (s : List Char) (neg : Bool) (W : Nat) (ip : List Char) (e : Int)
    (ds : List Char) (tz : Nat) (hip : ip.length = ds.length + tz) (hne : 0 < ip.length)
    (hW : mlen ip [] + expLen e ≤ W) :
    printCase s neg W ip [] e ds (ip.length : Int) = s ∨
      ∃ u, printCase s neg W ip [] e ds (ip.length : Int) = sgn neg u ∧ u.length ≤ W := by
  unfold printCase
  simp only []
  generalize hn : (ds.length : Int) = n at *
  generalize hNE : ((ip.length : Int) + e) = NE at *
  generalize hIE : NE - n = IE at *
  obtain ⟨a1, a2, a3⟩ := lenInt_facts NE
  obtain ⟨b1, b2, b3⟩ := lenInt_facts IE
  obtain ⟨c1, c2, c3⟩ := lenInt_facts e
  have m1 := lenInt_le IE e tz
  have m2 := lenInt_le IE e 0
  have m3 := lenInt_le NE e 0
  have m4 := lenInt_le IE NE 0
  have m5 := lenInt_le NE IE 0
  have z1 := @lenNat_toNat IE
  have hM := mlen_cases ip []
  have hE := expLen_cases e
  generalize mlen ip [] = M at *
  generalize expLen e = E at *
  have hie : ip.isEmpty = false := by cases ip with | nil => simp at hne | cons _ _ => rfl
  simp only [List.length_nil] at hM
  simp only [hie, List.isEmpty_nil, Bool.not_true, Bool.and_false, Bool.false_eq_true, if_false, if_true]
  split
  · left; rfl
  · right
    split
    · split
      · refine ⟨_, rfl, ?_⟩
        simp only [List.length_append, List.length_cons, List.length_nil, List.length_replicate, List.length_take, List.length_drop, decStr_natAbs_length, decStr_length, lenNat_natAbs]
        omega
      · refine ⟨_, rfl, ?_⟩
        simp only [List.length_append, List.length_cons, List.length_nil, List.length_replicate, List.length_take, List.length_drop, decStr_natAbs_length, decStr_length, lenNat_natAbs]
        omega
    · split
      · split
        · refine ⟨_, rfl, ?_⟩
          simp only [List.length_append, List.length_cons, List.length_nil, List.length_replicate, List.length_take, List.length_drop, decStr_natAbs_length, decStr_length, lenNat_natAbs]
          omega
        · refine ⟨_, rfl, ?_⟩
          simp only [List.length_append, List.length_cons, List.length_nil, List.length_replicate, List.length_take, List.length_drop, decStr_natAbs_length, decStr_length, lenNat_natAbs]
          omega
      · split
        · refine ⟨_, rfl, ?_⟩
          simp only [List.length_append, List.length_cons, List.length_nil, List.length_replicate, List.length_take, List.length_drop, decStr_natAbs_length, decStr_length, lenNat_natAbs]
          omega
        · refine ⟨_, rfl, ?_⟩
          simp only [List.length_append, List.length_cons, List.length_nil, List.length_replicate, List.length_take, List.length_drop, decStr_natAbs_length, decStr_length, lenNat_natAbs]
          omega

theorem printCase_length_C (s : List Char) (neg : Bool) (W : Nat) (ip fp : List Char) (e : Int)
    (ds : List Char) (hds : ds.length = ip.length + fp.length) (hi : 0 < ip.length) (hf : 0 < fp.length)
    (hW : mlen ip fp + expLen e ≤ W) :
    printCase s neg W ip fp e ds (ip.length : Int) = s ∨
      ∃ u, printCase s neg W ip fp e ds (ip.length : Int) = sgn neg u ∧ u.length ≤ W := by
  unfold printCase
  simp only []
  generalize hn : (ds.length : Int) = n at *
  generalize hNE : ((ip.length : Int) + e) = NE at *
  generalize hIE : NE - n = IE at *
  obtain ⟨a1, a2, a3⟩ := lenInt_facts NE
  obtain ⟨b1, b2, b3⟩ := lenInt_facts IE
  obtain ⟨c1, c2, c3⟩ := lenInt_facts e
  have m2 := lenInt_le IE e 0
  have m3 := lenInt_le NE e 0
  have m4 := lenInt_le IE NE 0
  have m5 := lenInt_le NE IE 0
  have z1 := @lenNat_toNat IE
  have hM := mlen_cases ip fp
  have hE := expLen_cases e
  generalize mlen ip fp = M at *
  generalize expLen e = E at *
  have hie : ip.isEmpty = false := by cases ip with | nil => simp at hi | cons _ _ => rfl
  have hfe : fp.isEmpty = false := by cases fp with | nil => simp at hf | cons _ _ => rfl
  simp only [hie, hfe, Bool.not_false, Bool.and_true, Bool.false_eq_true, if_false]
  split
  · left; rfl
  · right
    split
    · split
      · refine ⟨_, rfl, ?_⟩
        simp only [List.length_append, List.length_cons, List.length_nil, List.length_replicate, List.length_take, List.length_drop, decStr_natAbs_length, decStr_length, lenNat_natAbs]
        omega
      · refine ⟨_, rfl, ?_⟩
        simp only [List.length_append, List.length_cons, List.length_nil, List.length_replicate, List.length_take, List.length_drop, decStr_natAbs_length, decStr_length, lenNat_natAbs]
        omega
    · split
      · rename_i h2
        simp only [Bool.and_eq_true, decide_eq_true_eq] at h2
        refine ⟨_, rfl, ?_⟩
        simp only [List.length_append, List.length_cons, List.length_nil, List.length_replicate, List.length_take, List.length_drop, decStr_natAbs_length, decStr_length, lenNat_natAbs]
        omega
      · rename_i h2
        simp only [Bool.and_eq_true, decide_eq_true_eq] at h2
        split
        · split
          · refine ⟨_, rfl, ?_⟩
            simp only [List.length_append, List.length_cons, List.length_nil, List.length_replicate, List.length_take, List.length_drop, decStr_natAbs_length, decStr_length, lenNat_natAbs]
            omega
          · refine ⟨_, rfl, ?_⟩
            simp only [List.length_append, List.length_cons, List.length_nil, List.length_replicate, List.length_take, List.length_drop, decStr_natAbs_length, decStr_length, lenNat_natAbs]
            omega
        · split
          · refine ⟨_, rfl, ?_⟩
            simp only [List.length_append, List.length_cons, List.length_nil, List.length_replicate, List.length_take, List.length_drop, decStr_natAbs_length, decStr_length, lenNat_natAbs]
            omega
          · refine ⟨_, rfl, ?_⟩
            simp only [List.length_append, List.length_cons, List.length_nil, List.length_replicate, List.length_take, List.length_drop, decStr_natAbs_length, decStr_length, lenNat_natAbs]
            omega

/-- length of the output of the print stage: either the input is returned (exponent overflow) or the
    unsigned part fits into the `W` bytes after `start` -/
theorem printNum_length (s : List Char) (neg : Bool) (W : Nat) (m : Mant)
    (hW : mlen m.ip m.fp + expLen m.e ≤ W) :
    printNum s neg W m = s ∨ ∃ u, printNum s neg W m = sgn neg u ∧ u.length ≤ W := by
  unfold printNum
  rcases sigDigits_kindLen m.ip m.fp with ⟨hi, lz, h1, h2⟩ | ⟨hi, hf, tz, h1, h2⟩ | ⟨hi, hf, h1, h2⟩
  · rw [h2]
    rw [hi] at hW h1 ⊢
    exact printCase_length_A s neg W m.fp m.e _ lz h1 hW
  · rw [h2]
    rw [hf] at hW h1 ⊢
    have : 0 < m.ip.length := by cases h : m.ip with | nil => exact absurd h hi | cons _ _ => simp
    exact printCase_length_B s neg W m.ip m.e _ tz h1 this hW
  · rw [h2]
    have h3 : 0 < m.ip.length := by cases h : m.ip with | nil => exact absurd h hi | cons _ _ => simp
    have h4 : 0 < m.fp.length := by cases h : m.fp with | nil => exact absurd h hf | cons _ _ => simp
    exact printCase_length_C s neg W m.ip m.fp m.e _ h1 h3 h4 hW

end Verif.Proofs.Num

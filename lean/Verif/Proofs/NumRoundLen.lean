import Verif.Proofs.NumRoundP
set_option linter.unusedSimpArgs false
/-!
# C08 — the precision branch of `Number` does not lengthen `mantissa + exponent` (no `int` wrap-around)
-/
namespace Verif.Proofs.Num
open Verif.Model.Num

theorem wrap64_id {x : Int} (h1 : -9223372036854775808 ≤ x) (h2 : x < 9223372036854775808) : wrap64 x = x := by
  unfold wrap64; omega

theorem lenNat_one : lenNat 1 = 1 := by decide
theorem lenNat_two : lenNat 2 = 1 := by decide

/-- `len (x+2) ≤ len x + 1` for `x ≥ 1` -/
theorem lenNat_add_two {x : Nat} (_h : 1 ≤ x) : lenNat (x + 2) ≤ lenNat x + 1 := by
  have hx : x < 10 ^ lenNat x := (lenNat_le_iff (lenNat_pos x)).mp (Nat.le_refl _)
  apply (lenNat_le_iff (by omega)).mpr
  have h10 : 10 ≤ 10 ^ lenNat x := by
    have := lenNat_pos x
    calc 10 = 10 ^ 1 := by simp
      _ ≤ 10 ^ lenNat x := Nat.pow_le_pow_right (by decide) this
  rw [Nat.pow_succ]; omega

/-- `len (x+n) ≤ len x + n − 1` for `x ≥ 1`, `n ≥ 2` -/
theorem lenNat_add_ge_two {x n : Nat} (h : 1 ≤ x) (hn : 2 ≤ n) : lenNat (x + n) + 1 ≤ lenNat x + n := by
  have h1 := lenNat_add_two h
  have h2 := lenNat_le_of_le (x := x + n) (y := x + 2) (k := n - 2) (by omega)
  omega

/-- facts about `lenInt` of a sum used by the exponent arithmetic -/
theorem lenInt_small (x : Int) :
    (1 ≤ x.natAbs → lenInt x ≤ x.natAbs) ∧ (2 ≤ x.natAbs → lenInt x + 1 ≤ x.natAbs) ∧
    (3 ≤ x.natAbs → lenInt x + 2 ≤ x.natAbs) := by
  refine ⟨fun h => ?_, fun h => ?_, fun h => ?_⟩
  · have := lenNat_le_of_le (x := x.natAbs) (y := 1) (k := x.natAbs - 1) (by omega)
    rw [lenNat_one] at this; rw [lenInt_eq]; omega
  · have := lenNat_le_of_le (x := x.natAbs) (y := 2) (k := x.natAbs - 2) (by omega)
    rw [lenNat_two] at this; rw [lenInt_eq]; omega
  · have := lenNat_le_of_le (x := x.natAbs) (y := 3) (k := x.natAbs - 3) (by omega)
    rw [lenNat_three] at this; rw [lenInt_eq]; omega

/-- (C1) adding `δ ≥ 0` to the exponent costs at most `δ + 1` bytes -/
theorem expLen_add (e : Int) (d : Nat) : expLen (e + d) ≤ d + 1 + expLen e := by
  have hE := expLen_cases e
  have hE' := expLen_cases (e + d)
  obtain ⟨a1, a2, a3⟩ := lenInt_small (e + d)
  have m1 := lenInt_le (e + d) e d
  have m2 := lenInt_le (e + d) e 0
  have c1 := (lenInt_facts e).1
  omega

/-- (B1) with a resulting exponent ≥ 2 and `δ ≥ 1` the exponent part grows by at most `δ` -/
theorem expLen_add_B1 (e : Int) (d : Nat) (_hd : 1 ≤ d) (h2 : 2 ≤ e + d) : expLen (e + d) ≤ d + expLen e := by
  have hE := expLen_cases e
  have hE' := expLen_cases (e + d)
  obtain ⟨a1, a2, a3⟩ := lenInt_small (e + d)
  have m1 := lenInt_le (e + d) e d
  have c1 := (lenInt_facts e).1
  omega

/-- (B2) carry out of a leading nine: `n ≥ 2` digits become one, exponent `e + n ≥ 3` -/
theorem expLen_add_B2 (e : Int) (n : Nat) (hn : 2 ≤ n) (h3 : 3 ≤ e + n) : expLen (e + n) + 1 ≤ n + expLen e := by
  have hE := expLen_cases e
  have hE' := expLen_cases (e + n)
  obtain ⟨a1, a2, a3⟩ := lenInt_small (e + n)
  have c1 := (lenInt_facts e).1
  by_cases he : 0 < e
  · have := lenNat_add_ge_two (x := e.natAbs) (n := n) (by omega) hn
    have e1 : (e + n).natAbs = e.natAbs + n := by omega
    rw [lenInt_eq, e1] at hE'
    rw [lenInt_eq] at hE
    omega
  · omega


/-- the integer result of the precision branch: `k` digits and the exponent raised by `d`;
    either `k + d = n` (the `n` integer digits were cut down to `k`) or a carry out of a leading nine
    (`k = 1`, `d = n`) -/
theorem roundInt_len (h : Char) (t : List Char) (pend : Bool) (e0 : Int) (n : Nat)
    (ht : t.length + 1 ≤ n) (hpend : pend = true → t = [])
    (hg : -9223372036854775808 ≤ e0 ∧ e0 + (n : Int) < 9223372036854775808) :
    (roundInt h t pend (wrap64 (e0 + ((n : Int) - ((1 + t.length : Nat) : Int))))).fp = [] ∧
    ∃ k d : Nat,
      (roundInt h t pend (wrap64 (e0 + ((n : Int) - ((1 + t.length : Nat) : Int))))).ip.length = k ∧
      (roundInt h t pend (wrap64 (e0 + ((n : Int) - ((1 + t.length : Nat) : Int))))).e = e0 + (d : Int) ∧
      ((k + d = n ∧ k = 1 + t.length) ∨ (k = 1 ∧ d = n ∧ pend = true)) := by
  have hw : wrap64 (e0 + ((n : Int) - ((1 + t.length : Nat) : Int))) = e0 + ((n - (1 + t.length) : Nat) : Int) := by
    rw [wrap64_id (by omega) (by omega)]; omega
  rw [hw]
  unfold roundInt
  cases pend with
  | false =>
    simp only [Bool.false_eq_true, if_false]
    exact ⟨(by first | rfl | trivial), 1 + t.length, n - (1 + t.length), by simp; omega, (by first | rfl | trivial), Or.inl ⟨by omega, (by first | rfl | trivial)⟩⟩
  | true =>
    have ht0 := hpend rfl
    subst ht0
    simp only [if_true, List.length_nil, Nat.add_zero]
    by_cases h9 : h = '9'
    · simp only [h9, beq_self_eq_true, if_true]
      refine ⟨(by first | rfl | trivial), 1, n, (by first | rfl | trivial), ?_, Or.inr ⟨(by first | rfl | trivial), (by first | rfl | trivial), (by first | rfl | trivial)⟩⟩
      rw [wrap64_id (by omega) (by omega)]; omega
    · have : (h == '9') = false := by simpa using h9
      simp only [this, Bool.false_eq_true, if_false]
      exact ⟨(by first | rfl | trivial), 1, n - 1, (by first | rfl | trivial), (by first | rfl | trivial), Or.inl ⟨by omega, (by first | rfl | trivial)⟩⟩

theorem mlen_nil (ip : List Char) : mlen ip [] = ip.length := by simp [mlen]

/-- kind C (and the part of kind B that does not need the guard): budget `n + 2` -/
theorem roundInt_len_C (h : Char) (t : List Char) (pend : Bool) (e0 : Int) (n : Nat)
    (ht : t.length + 1 ≤ n) (hpend : pend = true → t = [])
    (hg : -9223372036854775808 ≤ e0 ∧ e0 + (n : Int) < 9223372036854775808) :
    mlen (roundInt h t pend (wrap64 (e0 + ((n : Int) - ((1 + t.length : Nat) : Int))))).ip
      (roundInt h t pend (wrap64 (e0 + ((n : Int) - ((1 + t.length : Nat) : Int))))).fp +
      expLen (roundInt h t pend (wrap64 (e0 + ((n : Int) - ((1 + t.length : Nat) : Int))))).e ≤ n + 2 + expLen e0 := by
  obtain ⟨h1, k, d, h2, h3, h4⟩ := roundInt_len h t pend e0 n ht hpend hg
  rw [h1, mlen_nil, h2, h3]
  have := expLen_add e0 d
  rcases h4 with ⟨h4, h5⟩ | ⟨h4, h5, _⟩ <;> omega

/-- kind B: under the guard `1 < n − p + e` nothing is lost -/
theorem roundInt_len_B (h : Char) (t : List Char) (pend : Bool) (e0 : Int) (n p : Nat)
    (_hp1 : 1 ≤ p) (hpn : p < n) (ht : t.length + 1 ≤ p) (hpend : pend = true → t = [])
    (hG : 1 < (n : Int) - (p : Int) + e0)
    (hg : -9223372036854775808 ≤ e0 ∧ e0 + (n : Int) < 9223372036854775808) :
    mlen (roundInt h t pend (wrap64 (e0 + ((n : Int) - ((1 + t.length : Nat) : Int))))).ip
      (roundInt h t pend (wrap64 (e0 + ((n : Int) - ((1 + t.length : Nat) : Int))))).fp +
      expLen (roundInt h t pend (wrap64 (e0 + ((n : Int) - ((1 + t.length : Nat) : Int))))).e ≤ n + expLen e0 := by
  obtain ⟨h1, k, d, h2, h3, h4⟩ := roundInt_len h t pend e0 n (by omega) hpend hg
  rw [h1, mlen_nil, h2, h3]
  rcases h4 with ⟨h4, h5⟩ | ⟨h4, h5, _⟩
  · have := expLen_add_B1 e0 d (by omega) (by omega)
    omega
  · have := expLen_add_B2 e0 n (by omega) (by omega)
    rw [h5]; omega


theorem roundIp_len_B (h : Char) (tl : List Char) (p : Nat) (inc : Bool) (e0 : Int)
    (hp1 : 1 ≤ p) (hpn : p < tl.length + 1)
    (hG : 1 < ((tl.length + 1 : Nat) : Int) - (p : Int) + e0)
    (hg : -9223372036854775808 ≤ e0 ∧ e0 + ((tl.length + 1 : Nat) : Int) < 9223372036854775808) :
    mlen (roundIp h tl p inc e0).ip (roundIp h tl p inc e0).fp + expLen (roundIp h tl p inc e0).e ≤
      tl.length + 1 + expLen e0 := by
  unfold roundIp
  obtain ⟨s1, s2⟩ := incStrip_length (((h :: tl).take p).drop 1) inc
  simp only [List.length_drop, List.length_take, List.length_cons] at s1
  exact roundInt_len_B h _ _ e0 (tl.length + 1) p hp1 hpn (by omega) s2 hG hg

theorem roundIp_len_C (h : Char) (tl : List Char) (p : Nat) (inc : Bool) (e0 : Int)
    (_hp1 : 1 ≤ p)
    (hg : -9223372036854775808 ≤ e0 ∧ e0 + ((tl.length + 1 : Nat) : Int) < 9223372036854775808) :
    mlen (roundIp h tl p inc e0).ip (roundIp h tl p inc e0).fp + expLen (roundIp h tl p inc e0).e ≤
      tl.length + 1 + 2 + expLen e0 := by
  unfold roundIp
  obtain ⟨s1, s2⟩ := incStrip_length (((h :: tl).take p).drop 1) inc
  simp only [List.length_drop, List.length_take, List.length_cons] at s1
  exact roundInt_len_C h _ _ e0 (tl.length + 1) (by omega) s2 hg

/-- without `int` wrap-around the precision branch never lengthens `mantissa + exponent part` -/
theorem roundP_len (m : Mant) (p : Nat) (hp : 0 < p)
    (hg : -9223372036854775808 ≤ m.e ∧ m.e + (mlen m.ip m.fp : Int) < 9223372036854775808) :
    mlen (roundP m p).ip (roundP m p).fp + expLen (roundP m p).e ≤ mlen m.ip m.fp + expLen m.e := by
  unfold roundP
  split
  · rename_i hi
    rw [hi] at hg ⊢
    simp only []
    split
    · rename_i hlt
      have hzl := dropZeros_length_le m.fp
      obtain ⟨s1, s2⟩ := incStrip_length (m.fp.take (m.fp.length - (dropZeros m.fp).length + p)) (ge5At (dropZeros m.fp) p)
      simp only [List.length_take] at s1
      have hm := mlen_cases [] m.fp
      cases hpend : (incStrip (m.fp.take (m.fp.length - (dropZeros m.fp).length + p)) (ge5At (dropZeros m.fp) p)).2 with
      | true =>
        simp only [if_true, mlen_nil, List.length_cons, List.length_nil]
        simp only [List.length_nil] at hm
        omega
      | false =>
        simp only [Bool.false_eq_true, if_false]
        have hm2 := mlen_cases [] (incStrip (m.fp.take (m.fp.length - (dropZeros m.fp).length + p)) (ge5At (dropZeros m.fp) p)).1
        simp only [List.length_nil] at hm hm2
        omega
    · rw [hi]; exact Nat.le_refl _
  · rename_i h tl hi
    rw [hi] at hg ⊢
    have hm := mlen_cases (h :: tl) m.fp
    simp only [List.length_cons] at hm
    have hfe : m.fp.isEmpty = true ↔ m.fp.length = 0 := by cases m.fp <;> simp
    simp only []
    split
    · rename_i hf
      have hf0 := hfe.mp hf
      split
      · rename_i hc
        simp only [Bool.and_eq_true, decide_eq_true_eq] at hc
        obtain ⟨hc1, hc2⟩ := hc
        have hw : wrap64 (((tl.length + 1 : Nat) : Int) - (p : Int) + m.e) = ((tl.length + 1 : Nat) : Int) - (p : Int) + m.e :=
          wrap64_id (by omega) (by omega)
        rw [hw] at hc2
        have := roundIp_len_B h tl p (ge5At (h :: tl) p) m.e hp hc1 hc2 (by omega)
        omega
      · rw [hi]; exact Nat.le_refl _
    · rename_i hf
      have hf0 : 0 < m.fp.length := by
        cases hh : m.fp with
        | nil => rw [hh] at hf; simp at hf
        | cons _ _ => simp
      split
      · split
        · have := roundIp_len_C h tl p (if p < tl.length + 1 then ge5At (h :: tl) p else ge5At m.fp 0) m.e hp (by omega)
          omega
        · rename_i hlt hnle
          obtain ⟨s1, s2⟩ := incStrip_length (tl ++ m.fp.take (p - (tl.length + 1))) (ge5At m.fp (p - (tl.length + 1)))
          simp only [List.length_append, List.length_take] at s1
          split
          · rename_i hk
            simp only [Bool.and_eq_true, Bool.not_eq_true', decide_eq_true_eq] at hk
            have hm2 := mlen_cases (h :: (incStrip (tl ++ m.fp.take (p - (tl.length + 1))) (ge5At m.fp (p - (tl.length + 1)))).1.take (tl.length + 1 - 1))
              ((incStrip (tl ++ m.fp.take (p - (tl.length + 1))) (ge5At m.fp (p - (tl.length + 1)))).1.drop (tl.length + 1 - 1))
            simp only [List.length_cons, List.length_take, List.length_drop] at hm2
            simp only []
            omega
          · rename_i hk
            simp only [Bool.and_eq_true, Bool.not_eq_true', decide_eq_true_eq, not_and, Nat.not_le] at hk
            have hlen : (incStrip (tl ++ m.fp.take (p - (tl.length + 1))) (ge5At m.fp (p - (tl.length + 1)))).1.length + 1 ≤ tl.length + 1 := by
              cases hpend : (incStrip (tl ++ m.fp.take (p - (tl.length + 1))) (ge5At m.fp (p - (tl.length + 1)))).2 with
              | true => rw [s2 hpend]; simp
              | false => have := hk hpend; omega
            have := roundInt_len_C h _ _ m.e (tl.length + 1) hlen s2 (by omega)
            omega
      · rw [hi]; exact Nat.le_refl _

end Verif.Proofs.Num

namespace Verif.Proofs.Num
open Verif.Model.Num

theorem expOfRest_exPart (l : Lex) (hwf : l.WF) :
    expOfRest l.exPart = none ∨ expOfRest l.exPart = some l.expVal := by
  unfold Lex.exPart Lex.expVal
  cases hx : l.ex with
  | none => right; simp [expOfRest]
  | some x =>
    obtain ⟨c, esg, ds⟩ := x
    obtain ⟨_, hd, hne⟩ := hwf.ex c esg ds hx
    simp only [expOfRest]
    exact parseExp_lex esg ds hd hne

theorem modelExp_str (l : Lex) (hwf : l.WF) :
    modelExp l.str = none ∨ modelExp l.str = some l.expVal := by
  obtain ⟨hs1, hs2, hs3⟩ := str_sign_facts l hwf
  unfold modelExp
  simp only [hs1, hs2, hs3]
  have hB2 : l.ip ++ (l.dotPart ++ l.exPart) = (l.ip ++ l.dotPart) ++ l.exPart := by simp
  rw [hB2, dropWhile_append_stop (notE_dotPart l hwf) (exPart_notE l hwf)]
  exact expOfRest_exPart l hwf


/-- when the exponent-range exit of `Number` is not taken, the precision branch cannot wrap around -/
theorem noWrap_of_guard {prec : Int} {e : Int} {len n : Nat} (hp : 0 < prec)
    (hg : (decide (0 < prec) && expNearEdge e len) = false) (hn : n ≤ len) :
    -9223372036854775808 ≤ e ∧ e + (n : Int) < 9223372036854775808 := by
  have hpp : decide (0 < prec) = true := by simpa using hp
  rw [hpp, Bool.true_and] at hg
  unfold expNearEdge at hg
  simp only [Bool.or_eq_false_iff, decide_eq_false_iff_not] at hg
  omega

/-- `Number` never lengthens its input: every byte string, every precision -/
theorem number_length_all (s : List Char) (prec : Int) : (number s prec).length ≤ s.length := by
  apply number_length_gen
  intro m0 _ hml hguard
  by_cases hp : prec ≤ 0
  · rw [rnd_nonpos hp]; exact Nat.le_refl _
  · unfold rnd
    rw [if_pos (by omega)]
    exact roundP_len m0 prec.toNat (by omega) (noWrap_of_guard (by omega) hguard hml)

end Verif.Proofs.Num

import Verif.Proofs.C09HtmlStartTag
/-!
# C09 / HTML — the start tags written by the model of html.go (`Model/Html.lean`) have the shape `WAttr.bytes`
-/
namespace Verif.Proofs.C09HtmlTag
open Verif.Spec.C09HtmlTok Verif.Spec.C09HtmlShape Verif.Spec.HtmlAttr Verif.Model.HtmlAttr Verif.Model.Html Verif.Gen

/-- what html.go means by the attribute that it writes for `x` with the final value `val` -/
def wattrOf (o : Opts) (x : AttrSt) (val : List Char) : WAttr :=
  { name := x.name, val := val, bool := has (attrTraits x.a.name) C03Tables.booleanAttr,
    q := origQuote x.a.data, must := o.keepQuotes || isXmlAttr x.hash }

/-- `out` is nothing or one attribute of `x` -/
def AttrShape (o : Opts) (x : AttrSt) (out : List Char) : Prop :=
  out = [] ∨ ∃ val, out = (wattrOf o x val).bytes

theorem shape_nil (o : Opts) (x : AttrSt) : AttrShape o x [] := Or.inl rfl

theorem shape_finish (o : Opts) (x : AttrSt) (val : List Char) :
    AttrShape o x (' ' :: x.name ++
        (if !val.isEmpty && !has (attrTraits x.a.name) C03Tables.booleanAttr then
          '=' :: escapeAttrVal val (origQuote x.a.data) (o.keepQuotes || isXmlAttr x.hash)
         else [])) := Or.inr ⟨val, rfl⟩

theorem ok_inj {α} {a b : α} (h : (Except.ok a : Except String α) = .ok b) : a = b := by cases h; rfl

/-- the attribute loop body of `writeAttr` with the final write (`finish`) as a parameter — a copy of the model's text,
    tied to it by `writeAttr_eq` (`rfl`) -/
def attrBody (o : Opts) (ext : Ext) (sub : Sub) (tag rawTag : List Char) (x : AttrSt) (tr : Nat) (val0 : List Char)
    (finish : List Char → Option (List Char) → Except String (List Char × Option (List Char))) :
    Except String (List Char × Option (List Char)) :=
  if tagTraits tag = 0 then finish val0 none
  else
    if val0.isEmpty && (hashIs x.hash "class" || hashIs x.hash "dir" || hashIs x.hash "id" || hashIs x.hash "name" ||
        (hashIs x.hash "action" && hashIs tag "form")) then .ok ([], none)
    else do
      let mt := if !rawTag.isEmpty && hashIs x.hash "type" then some val0 else none
      let val1 ←
        if hashIs x.hash "enctype" || hashIs x.hash "formenctype" || hashIs x.hash "accept" ||
           (hashIs x.hash "type" && (["a", "link", "embed", "object", "source", "script"].any (hashIs tag)))
        then callExt ext "mediatype" val0 else .ok val0
      if !o.keepDefaultAttrVals && isDefaultAttr tag x.hash val1 then .ok ([], mt)
      else if hashIs x.hash "style" then
        let v := callSub sub (s "text/css") true (trimWhitespace val1)
        if v.isEmpty then .ok ([], mt) else finish v mt
      else if 2 < x.name.length && x.name.take 2 == s "on" then
        let v0 := trimWhitespace val1
        let v1 := if 11 ≤ v0.length && hasPrefixFold v0 "javascript:" then v0.drop 11 else v0
        let v := callSub sub (s "application/javascript") true v1
        if v.isEmpty then .ok ([], mt) else finish v mt
      else if has tr C03Tables.urlAttr then do
        let v ← urlVal ext (trimWhitespace val1)
        finish v mt
      else finish val1 mt

theorem writeAttr_eq (o : Opts) (ext : Ext) (sub : Sub) (tag rawTag : List Char) (x : AttrSt) :
    writeAttr o ext sub tag rawTag x =
      if !x.keep then .ok ([], none)
      else if x.a.tmpl then .ok (x.a.data, none)
      else attrBody o ext sub tag rawTag x (attrTraits x.a.name)
        (attrVal0 (has (attrTraits x.a.name) C03Tables.trimAttr) x.val)
        (fun val mt => .ok (' ' :: x.name ++
          (if !val.isEmpty && !has (attrTraits x.a.name) C03Tables.booleanAttr then
            '=' :: escapeAttrVal val (origQuote x.a.data) (o.keepQuotes || isXmlAttr x.hash)
           else []), mt)) := rfl

/-- every successful result of the loop body is nothing or a result of `finish` -/
theorem attrBody_shape (P : List Char → Prop) (hnil : P [])
    (o : Opts) (ext : Ext) (sub : Sub) (tag rawTag : List Char) (x : AttrSt) (tr : Nat) (val0 : List Char)
    (finish : List Char → Option (List Char) → Except String (List Char × Option (List Char)))
    (hf : ∀ v mt r, finish v mt = .ok r → P r.1)
    (r : List Char × Option (List Char)) (h : attrBody o ext sub tag rawTag x tr val0 finish = .ok r) : P r.1 := by
  unfold attrBody at h
  simp only [bind, Except.bind] at h
  repeat (any_goals (split at h))
  all_goals first | (exact hf _ _ _ h) | (rw [← ok_inj h]; exact hnil) | (cases h)

/-- **shape of one written attribute** (all branches of the attribute loop of html.go: removed, empty, default, `style`,
    `on*`, URL, media type, plain): nothing, or ` name` / ` name=` + `EscapeAttrVal val` for some value `val`. -/
theorem writeAttr_shape (o : Opts) (ext : Ext) (sub : Sub) (tag rawTag : List Char) (x : AttrSt)
    (out : List Char) (mt : Option (List Char)) (ht : x.keep = true → x.a.tmpl = false)
    (h : writeAttr o ext sub tag rawTag x = .ok (out, mt)) : AttrShape o x out := by
  rw [writeAttr_eq] at h
  split at h
  · rw [← (Prod.mk.inj (ok_inj h)).1]; exact shape_nil o x
  · next hk =>
    have hk' : x.keep = true := by simpa using hk
    split at h
    · next hh => rw [ht hk'] at hh; cases hh
    · exact attrBody_shape (AttrShape o x) (shape_nil o x) o ext sub tag rawTag x _ _ _
        (fun v mt' r hr => by rw [← ok_inj hr]; exact shape_finish o x v) (out, mt) h

/-- the attributes written for a whole start tag: a sequence of `WAttr.bytes`, one for each attribute that is written,
    in the order of the token's attributes, each with the (possibly renamed) name of its token -/
theorem writeAttrs_shape (o : Opts) (ext : Ext) (sub : Sub) (tag rawTag : List Char) (as : List AttrSt) :
    ∀ (mt : Option (List Char)) (aout : List Char) (mt' : Option (List Char)),
    (∀ x ∈ as, x.keep = true → x.a.tmpl = false) →
    writeAttrs o ext sub tag rawTag as mt = .ok (aout, mt') →
    ∃ ws : List WAttr, aout = ws.flatMap WAttr.bytes ∧ (ws.map (·.name)).Sublist (as.map (·.name)) ∧
      ∀ w ∈ ws, ∃ x ∈ as, ∃ val, w = wattrOf o x val := by
  induction as with
  | nil =>
    intro mt aout mt' _ h
    simp only [writeAttrs] at h
    have := ok_inj h
    exact ⟨[], by rw [← (Prod.mk.inj this).1]; rfl, List.Sublist.refl _, by simp⟩
  | cons x xs ih =>
    intro mt aout mt' ht h
    simp only [writeAttrs, bind, Except.bind] at h
    split at h
    · cases h
    · next r hr =>
      obtain ⟨out, mt1⟩ := r
      simp only at h
      split at h
      · cases h
      · next r2 hr2 =>
        obtain ⟨outs, mt2⟩ := r2
        simp only at h
        have he := (Prod.mk.inj (ok_inj h)).1
        obtain ⟨ws, h1, h2, h3⟩ := ih _ outs mt2 (fun y hy => ht y (List.mem_cons_of_mem _ hy)) hr2
        rcases writeAttr_shape o ext sub tag rawTag x out mt1 (ht x List.mem_cons_self) hr with h0 | ⟨val, h0⟩
        · refine ⟨ws, by rw [← he, h0, h1]; rfl, ?_, ?_⟩
          · simp only [List.map_cons]; exact List.Sublist.cons _ h2
          · intro w hw
            obtain ⟨y, hy, v, e⟩ := h3 w hw
            exact ⟨y, List.mem_cons_of_mem _ hy, v, e⟩
        · refine ⟨wattrOf o x val :: ws, by rw [← he, h0, h1]; rfl, ?_, ?_⟩
          · simp only [List.map_cons]; exact List.Sublist.cons_cons _ h2
          · intro w hw
            rcases List.mem_cons.mp hw with e | hw
            · exact ⟨x, List.mem_cons_self, val, e⟩
            · obtain ⟨y, hy, v, e⟩ := h3 w hw
              exact ⟨y, List.mem_cons_of_mem _ hy, v, e⟩

/-- **html_start_tag_retokenises.**  For every option set, sub-minifier, external-result table, tag and attribute
    list (after the special cases for `meta`/`script`/`input`/`a`): if the model of html.go writes the attributes
    `aout` — so the start tag is `'<' :: tag ++ aout ++ ['>']` —, the tag name is a lower-case name without `/`, and
    every attribute that is written has no template and a non-empty lower-case name without white space, `=`, `>` (lexer
    contract) and `/` (guard), then the HTML standard's tokenizer, in the data state, reads these bytes as exactly ONE
    start tag with this name whose attribute list is, in order, what the writer meant (`WAttr.read`: name; raw value
    and quote form of `EscapeAttrVal`, whose decoding is the decoding of the value handed to it, `WAttr.read_decodes`;
    no value for an empty value or a boolean attribute) minus later duplicates of a name, is not self-closing —
    also when an unquoted value ends in `/` directly before `>` — and goes on in the state the standard prescribes
    after that tag.  The names read are a subsequence of the names of the token's attributes. -/
theorem html_start_tag_retokenises (o : Opts) (ext : Ext) (sub : Sub) (tag rawTag : List Char) (as : List AttrSt)
    (mt : Option (List Char)) (aout : List Char) (mt' : Option (List Char))
    (h : writeAttrs o ext sub tag rawTag as mt = .ok (aout, mt'))
    (ht : goodTag tag = true)
    (ha : ∀ x ∈ as, x.keep = true → x.a.tmpl = false)
    (hn : ∀ x ∈ as, goodName x.name = true)
    (m : M) (hs : m.s = .text) (hm : m.mode = .data) :
    ∃ ws : List WAttr, aout = ws.flatMap WAttr.bytes ∧ (ws.map (·.name)).Sublist (as.map (·.name)) ∧
      (∀ w ∈ ws, ∃ x ∈ as, ∃ val, w = wattrOf o x val) ∧
      runO m ('<' :: (tag ++ aout ++ ['>'])) = [.startTag tag (dedup [] (ws.map WAttr.read)) false] ∧
      runS m ('<' :: (tag ++ aout ++ ['>'])) =
        (emitTag m { isEnd := false, name := tag, attrs := ws.map WAttr.read } false).1 := by
  obtain ⟨ws, h1, h2, h3⟩ := writeAttrs_shape o ext sub tag rawTag as mt aout mt' ha h
  have hgn : ∀ a ∈ ws, goodName a.name = true := by
    intro a hw
    obtain ⟨x, hx, v, e⟩ := h3 a hw
    rw [e]; exact hn x hx
  have := start_tag_reads_back m hs hm tag ws ht hgn
  rw [h1]
  exact ⟨ws, rfl, h2, h3, this.1, this.2⟩

end Verif.Proofs.C09HtmlTag

import Verif.Spec.TableChecks
import Verif.Gen.EntitiesHtml
/-!
# C17 — the whole-table check of `html.EntitiesMap` (the one expensive kernel evaluation, ≈ 50 s)

Kept in its own module so that `lake` checks it in parallel with `Proofs/C17Tables.lean`.
`Props/C17.lean` turns `entities_html_all` into the quantified statements.
-/
namespace Verif.Proofs.C17
open Verif Verif.Gen Verif.Spec.TableChecks

set_option maxRecDepth 1000000

theorem entities_html_all : EntitiesHtml.table.all entityRowOk = true := by decide +kernel

end Verif.Proofs.C17

import Verif.Base.Pack
import Verif.Spec.HtmlRefs
import Verif.Gen.EntitiesHtml
/-!
# C17 — the whole-table check of `html.EntitiesMap` (the one expensive kernel evaluation, ≈ 50 s)

Kept in its own module so that `lake` checks it in parallel with `Proofs/C17Tables.lean`.
`Props/C17.lean` turns `entities_html_all` into the quantified statements.
-/
namespace Verif.Proofs.C17
open Verif Verif.Gen Verif.Spec.HtmlRefs

set_option maxRecDepth 1000000

/-- source of the reference `&name;` -/
def refOf (name : Nat) : List Nat := cAmp :: (unpack name ++ [cSemi])

/-- `(& [#0-9A-Za-z]+ ;)+` — a sequence of `;`-terminated references (first argument: "at a boundary") -/
def refSeqShape : Bool → List Nat → Bool
  | atBoundary, [] => atBoundary
  | atBoundary, c :: r =>
    if c = cAmp then atBoundary && refSeqShape false r
    else if c = cSemi then !atBoundary && refSeqShape true r
    else !atBoundary && (c = cHash || isAlnum c) && refSeqShape false r

/-- a replacement is *self-contained*: a single character (the lone `&` is only written by
    `parse.replaceEntities` when the next character cannot continue a reference; `<` is covered by
    `textrev_html_covers_lt`), or a sequence of `;`-terminated references that the decoder consumes completely
    (nothing of it is left as a literal `&`).  Such a string decodes the same whatever follows it. -/
def selfContained (repl : List Nat) : Bool :=
  match repl with
  | [_] => true
  | _ => refSeqShape true repl && !(decodeCps .text repl).contains cAmp && !(decodeCps .attr repl).contains cAmp

def entityRowOk (row : Nat × Nat) : Bool :=
  let ref := refOf row.1
  let repl := unpack row.2
  decodeCps .text repl == decodeCps .text ref && decodeCps .attr repl == decodeCps .attr ref &&
  decide (repl.length ≤ ref.length) && selfContained repl

theorem entities_html_all : EntitiesHtml.table.all entityRowOk = true := by decide +kernel

end Verif.Proofs.C17

import Verif.Proofs.DataURI
/-!
# helper lemmas for C18: the scanner of `parse.DataURI` against the RFC 2397 header reading
-/
namespace Verif.Proofs.DataURI
open Verif Verif.Model.DataURI
namespace S
export Verif.Spec.Rfc2397 (ws lower stripWs trim splitLastSemi splitMarker splitURL rfcParse splitSemi mtNorm
  headItems trigB64Item trigPlus trigParamNoType b64Decode pctDecode sextet)
end S

/-! ## the spec's character classes are the model's (both are transcriptions of the same five bytes) -/

theorem ws_eq : S.ws = isWs := rfl
theorem lower_eq : S.lower = toLower := rfl
theorem trim_eq : S.trim = trimWs := rfl

theorem stripWs_append (a b : List Char) : S.stripWs (a ++ b) = S.stripWs a ++ S.stripWs b := by
  simp [S.stripWs]

theorem filter_dropWhile_ws (l : List Char) :
    (l.dropWhile isWs).filter (fun c => !isWs c) = l.filter (fun c => !isWs c) := by
  induction l with
  | nil => rfl
  | cons c r ih =>
    simp only [List.dropWhile, List.filter]
    cases h : isWs c <;> simp [h, ih]

theorem stripWs_trimWs (l : List Char) : S.stripWs (trimWs l) = S.stripWs l := by
  simp only [S.stripWs, ws_eq, trimWs, List.filter_reverse, filter_dropWhile_ws, List.reverse_reverse]

/-! ## `scan` over a comma-free header is an accumulation, as long as no item is taken for the marker -/

/-- the loop of `parse.DataURI` restricted to the branch "ordinary item" -/
def accum (mt seg : List Char) : List Char → List Char × List Char
  | [] => (mt, seg)
  | c :: r => if c = '=' ∨ c = ';' then accum (mt ++ trimWs seg ++ [c]) [] r else accum mt (seg ++ [c]) r

/-- no item that ends inside the header (at a `;`) is the word `base64` -/
def noRec (seg : List Char) : List Char → Bool
  | [] => true
  | c :: r =>
    if c = '=' then noRec [] r
    else if c = ';' then (trimWs seg ≠ base64Word) && noRec [] r
    else noRec (seg ++ [c]) r

theorem scan_head (h p : List Char) (hc : ',' ∉ h) (mt seg : List Char) (b64 : Bool)
    (hn : noRec seg h = true) :
    scan mt b64 seg (h ++ ',' :: p) =
      (if trimWs (accum mt seg h).2 = base64Word then some (finishMt (accum mt seg h).1.dropLast, true, p)
       else some (finishMt ((accum mt seg h).1 ++ trimWs (accum mt seg h).2), b64, p)) := by
  induction h generalizing mt seg with
  | nil =>
    simp only [List.nil_append, scan, accum, isDelim]
    by_cases hb : trimWs seg = base64Word <;> simp [hb]
  | cons c r ih =>
    have hcc : c ≠ ',' := fun e => hc (by simp [e])
    have hr : ',' ∉ r := fun e => hc (by simp [e])
    simp only [List.cons_append, scan, accum, isDelim]
    by_cases h1 : c = '='
    · subst h1
      simp only [noRec, if_true] at hn
      simp [ih hr _ _ hn]
    · by_cases h2 : c = ';'
      · subst h2
        simp only [noRec] at hn
        simp only [show (';' : Char) ≠ '=' by decide, if_false, if_true, Bool.and_eq_true, decide_eq_true_eq] at hn
        simp [hn.1, ih hr _ _ hn.2]
      · simp only [noRec, h1, h2, if_false] at hn
        simp [h1, h2, hcc, ih hr _ _ hn]

/-- the delimiter in front of the last item -/
def lastDelim (prev : Option Char) : List Char → Option Char
  | [] => prev
  | c :: r => if c = '=' ∨ c = ';' then lastDelim (some c) r else lastDelim prev r

/-- what `¬ trigB64Item` says about one item -/
def itemOK (x : Option Char × List Char × Char) : Bool :=
  !(S.trim x.2.1 = "base64".toList && x.2.2 ≠ '=' && !(x.2.2 = ',' && x.1 = some ';'))

theorem items_ok (h : List Char) (prev : Option Char) (cur mt : List Char)
    (hall : (S.headItems prev cur h).all itemOK = true) :
    noRec cur.reverse h = true ∧
      (trimWs (accum mt cur.reverse h).2 = base64Word → lastDelim prev h = some ';') := by
  induction h generalizing prev cur mt with
  | nil =>
    simp only [S.headItems, List.all_cons, List.all_nil, Bool.and_true, itemOK, trim_eq] at hall
    refine ⟨rfl, ?_⟩
    intro hb
    simp only [accum] at hb
    simp only [lastDelim]
    have : base64Word = "base64".toList := rfl
    rw [this] at hb
    simpa [hb] using hall
  | cons c r ih =>
    simp only [S.headItems] at hall
    by_cases h1 : c = '='
    · subst h1
      simp only [true_or, if_true, List.all_cons, Bool.and_eq_true] at hall
      have := ih (some '=') [] (mt ++ trimWs cur.reverse ++ ['=']) hall.2
      simpa [noRec, accum, lastDelim] using this
    · by_cases h2 : c = ';'
      · subst h2
        simp only [or_true, if_true, List.all_cons, Bool.and_eq_true] at hall
        have := ih (some ';') [] (mt ++ trimWs cur.reverse ++ [';']) hall.2
        have hi := hall.1
        simp only [itemOK, trim_eq] at hi
        have hne : trimWs cur.reverse ≠ base64Word := by
          intro e
          have : base64Word = "base64".toList := rfl
          rw [this] at e
          simp [e] at hi
        simp only [noRec, accum, lastDelim, show (';' : Char) ≠ '=' by decide, if_false, if_true, or_true]
        simpa [hne] using this
      · simp only [h1, h2, or_self, if_false] at hall
        have := ih prev (c :: cur) mt hall
        simpa [noRec, accum, lastDelim, h1, h2] using this

/-! ## decomposition of the header at its last delimiter -/

def noDelim (l : List Char) : Prop := ∀ c ∈ l, c ≠ '=' ∧ c ≠ ';'

theorem noDelim_cons {c : Char} {l : List Char} : noDelim (c :: l) ↔ (c ≠ '=' ∧ c ≠ ';') ∧ noDelim l := by
  simp [noDelim]

theorem accum_noDelim (h : List Char) (hn : noDelim h) (mt seg : List Char) : accum mt seg h = (mt, seg ++ h) := by
  induction h generalizing seg with
  | nil => simp [accum]
  | cons c r ih =>
    have := noDelim_cons.1 hn
    simp [accum, this.1.1, this.1.2, ih this.2]

theorem accum_append (a b mt seg : List Char) :
    accum mt seg (a ++ b) = accum (accum mt seg a).1 (accum mt seg a).2 b := by
  induction a generalizing mt seg with
  | nil => rfl
  | cons c r ih =>
    simp only [List.cons_append, accum]
    split <;> exact ih _ _

theorem lastDelim_cases (h : List Char) (prev : Option Char) :
    (noDelim h ∧ lastDelim prev h = prev) ∨
    (∃ a d s, h = a ++ d :: s ∧ (d = '=' ∨ d = ';') ∧ noDelim s ∧ lastDelim prev h = some d) := by
  induction h generalizing prev with
  | nil => left; simp [noDelim, lastDelim]
  | cons c r ih =>
    simp only [lastDelim]
    by_cases hd : c = '=' ∨ c = ';'
    · simp only [hd, if_true]
      rcases ih (some c) with ⟨hn, hl⟩ | ⟨a, d, s, he, hdd, hn, hl⟩
      · right; exact ⟨[], c, r, rfl, hd, hn, hl⟩
      · right; exact ⟨c :: a, d, s, by simp [he], hdd, hn, hl⟩
    · simp only [hd, if_false]
      rcases ih prev with ⟨hn, hl⟩ | ⟨a, d, s, he, hdd, hn, hl⟩
      · left
        refine ⟨noDelim_cons.2 ⟨?_, hn⟩, hl⟩
        exact ⟨fun e => hd (Or.inl e), fun e => hd (Or.inr e)⟩
      · right; exact ⟨c :: a, d, s, by simp [he], hdd, hn, hl⟩

theorem takeWhile_append_stop {α} (p : α → Bool) (l : List α) (x : α) (m : List α)
    (hl : ∀ a ∈ l, p a = true) (hx : p x = false) : (l ++ x :: m).takeWhile p = l := by
  induction l with
  | nil => simp [List.takeWhile, hx]
  | cons a r ih =>
    have ha : p a = true := hl a (by simp)
    simp only [List.cons_append, List.takeWhile, ha]
    rw [ih (fun b hb => hl b (by simp [hb]))]

theorem takeWhile_all {α} (p : α → Bool) (l : List α) (hl : ∀ a ∈ l, p a = true) : l.takeWhile p = l := by
  induction l with
  | nil => rfl
  | cons a r ih =>
    have ha : p a = true := hl a (by simp)
    simp only [List.takeWhile, ha]
    rw [ih (fun b hb => hl b (by simp [hb]))]

theorem splitLastSemi_append (a s : List Char) (hs : ';' ∉ s) : S.splitLastSemi (a ++ ';' :: s) = some (a, s) := by
  unfold S.splitLastSemi
  have h1 : ((a ++ ';' :: s).reverse.takeWhile (· ≠ ';')) = s.reverse := by
    rw [List.reverse_append, List.reverse_cons, List.append_assoc]
    apply takeWhile_append_stop
    · intro c hc
      have : c ∈ s := by simpa using hc
      have : c ≠ ';' := fun e => hs (e ▸ this)
      simpa using this
    · simp
  simp only [h1, List.reverse_reverse, List.length_append, List.length_cons]
  have : s.length < a.length + (s.length + 1) := by omega
  simp only [this, if_true]
  have : a.length + (s.length + 1) - s.length - 1 = a.length := by omega
  rw [this, List.take_left']
  rfl

theorem splitLastSemi_none (h : List Char) (hs : ';' ∉ h) : S.splitLastSemi h = none := by
  unfold S.splitLastSemi
  have h1 : (h.reverse.takeWhile (· ≠ ';')) = h.reverse := by
    apply takeWhile_all
    intro c hc
    have : c ∈ h := by simpa using hc
    have : c ≠ ';' := fun e => hs (e ▸ this)
    simpa using this
  simp only [h1, List.reverse_reverse, Nat.lt_irrefl, if_false]

/-! ## whitespace trimming -/

theorem dropWhile_eq_self {α} (p : α → Bool) (l : List α) (h : ∀ x, l.head? = some x → p x = false) :
    l.dropWhile p = l := by
  cases l with
  | nil => rfl
  | cons a r => simp [List.dropWhile, h a rfl]

theorem head_dropWhile_not {α} (p : α → Bool) (l : List α) (x : α) (h : (l.dropWhile p).head? = some x) :
    p x = false := by
  induction l with
  | nil => simp at h
  | cons a r ih =>
    simp only [List.dropWhile] at h
    cases hp : p a
    · simp [hp] at h; rw [← h]; exact hp
    · simp [hp] at h; exact ih h

theorem mem_dropWhile {α} (p : α → Bool) (l : List α) (x : α) (hx : x ∈ l) (hp : p x = false) :
    x ∈ l.dropWhile p := by
  induction l with
  | nil => simp at hx
  | cons a r ih =>
    simp only [List.dropWhile]
    cases hpa : p a
    · simpa using hx
    · simp only
      rcases List.mem_cons.1 hx with e | e
      · subst e; rw [hp] at hpa; cases hpa
      · exact ih e

theorem dropWhile_sublist_mem {α} (p : α → Bool) (l : List α) (x : α) (hx : x ∈ l.dropWhile p) : x ∈ l :=
  (List.dropWhile_sublist p).subset hx

theorem mem_trimWs_of_mem {l : List Char} {x : Char} (hx : x ∈ trimWs l) : x ∈ l := by
  unfold trimWs at hx
  have := dropWhile_sublist_mem _ _ _ (List.mem_reverse.1 hx)
  exact dropWhile_sublist_mem _ _ _ (List.mem_reverse.1 this)

theorem mem_trimWs {l : List Char} {x : Char} (hx : x ∈ l) (hw : isWs x = false) : x ∈ trimWs l := by
  unfold trimWs
  apply List.mem_reverse.2
  apply mem_dropWhile _ _ _ _ hw
  apply List.mem_reverse.2
  exact mem_dropWhile _ _ _ hx hw

theorem trimWs_idem (l : List Char) : trimWs (trimWs l) = trimWs l := by
  unfold trimWs
  generalize hm : (l.dropWhile isWs).reverse = m
  -- a := dropWhile m ; its last element (head of the reverse) is the head of `dropWhile l`, not whitespace
  have hlast : ∀ x, ((m.dropWhile isWs).reverse).head? = some x → isWs x = false := by
    intro x hx
    cases ha : m.dropWhile isWs with
    | nil => simp [ha] at hx
    | cons a0 ar =>
      -- x is the last element of dropWhile m, hence the last of m, hence the head of dropWhile l
      have hx' : (m.dropWhile isWs).getLast? = some x := by simpa [List.head?_reverse] using hx
      have hsuf : (m.dropWhile isWs) <:+ m := List.dropWhile_suffix isWs
      obtain ⟨pre, hpre⟩ := hsuf
      have hml : m.getLast? = some x := by
        rw [← hpre, List.getLast?_append, hx']; rfl
      have : (l.dropWhile isWs).head? = some x := by
        rw [← hm] at hml
        simpa [List.getLast?_reverse] using hml
      exact head_dropWhile_not _ _ _ this
  rw [dropWhile_eq_self isWs _ hlast, List.reverse_reverse,
    dropWhile_eq_self isWs (m.dropWhile isWs) (fun x hx => head_dropWhile_not _ _ _ hx)]

/-! ## `;`-segments -/

theorem splitSemi_ne_nil (l : List Char) : S.splitSemi l ≠ [] := by
  cases l with
  | nil => simp [S.splitSemi]
  | cons c r =>
    simp only [S.splitSemi]
    split
    · simp
    · split <;> simp

theorem splitSemi_noSemi (l : List Char) (h : ';' ∉ l) : S.splitSemi l = [l] := by
  induction l with
  | nil => rfl
  | cons c r ih =>
    have hc : c ≠ ';' := fun e => h (by simp [e])
    have hr : ';' ∉ r := fun e => h (by simp [e])
    simp [S.splitSemi, hc, ih hr]

/-- L1 -/
theorem splitSemi_append_semi (a b : List Char) :
    S.splitSemi (a ++ ';' :: b) = S.splitSemi a ++ S.splitSemi b := by
  induction a with
  | nil => simp [S.splitSemi]
  | cons c r ih =>
    simp only [List.cons_append, S.splitSemi]
    by_cases hc : c = ';'
    · simp [hc, ih]
    · simp only [hc, if_false, ih]
      cases hs : S.splitSemi r with
      | nil => exact absurd hs (splitSemi_ne_nil r)
      | cons x t => simp

/-- L2 -/
theorem splitSemi_prepend (n m : List Char) (hn : ';' ∉ n) :
    S.splitSemi (n ++ m) = (n ++ (S.splitSemi m).headD []) :: (S.splitSemi m).tail := by
  induction n with
  | nil =>
    cases hs : S.splitSemi m with
    | nil => exact absurd hs (splitSemi_ne_nil m)
    | cons x t => simp [hs]
  | cons c r ih =>
    have hc : c ≠ ';' := fun e => hn (by simp [e])
    have hr : ';' ∉ r := fun e => hn (by simp [e])
    simp only [List.cons_append, S.splitSemi, hc, if_false, ih hr]

/-- every `;`-segment after the first is not the word `base64` -/
def goodTail (m : List Char) : Prop := ∀ s ∈ (S.splitSemi m).tail, trimWs s ≠ base64Word

/-- … and neither is the first -/
def goodAll (m : List Char) : Prop := ∀ s ∈ S.splitSemi m, trimWs s ≠ base64Word

theorem trimWs_ne_of_eq_mem {l : List Char} (h : '=' ∈ l) : trimWs l ≠ base64Word := by
  intro e
  have : '=' ∈ trimWs l := mem_trimWs h (by decide)
  rw [e] at this
  revert this
  decide

/-! ## the media type the scanner builds, as a right fold -/

def render (seg : List Char) : List Char → List Char
  | [] => trimWs seg
  | c :: r => if c = '=' ∨ c = ';' then trimWs seg ++ c :: render [] r else render (seg ++ [c]) r

theorem accum_render (h mt seg : List Char) :
    (accum mt seg h).1 ++ trimWs (accum mt seg h).2 = mt ++ render seg h := by
  induction h generalizing mt seg with
  | nil => simp [accum, render]
  | cons c r ih =>
    simp only [accum, render]
    split
    · rw [ih]; simp
    · rw [ih]

/-- items with a chosen final delimiter (`S.headItems` is the instance `,`) -/
def itemsE (e : Char) (prev : Option Char) (cur : List Char) : List Char → List (Option Char × List Char × Char)
  | [] => [(prev, cur.reverse, e)]
  | c :: r =>
    if c = '=' ∨ c = ';' then (prev, cur.reverse, c) :: itemsE e (some c) [] r
    else itemsE e prev (c :: cur) r

theorem headItems_eq (prev : Option Char) (cur h : List Char) : S.headItems prev cur h = itemsE ',' prev cur h := by
  induction h generalizing prev cur with
  | nil => rfl
  | cons c r ih => simp only [S.headItems, itemsE, ih]

theorem itemsE_append (e : Char) (a s : List Char) (prev : Option Char) (cur : List Char) :
    itemsE e prev cur (a ++ ';' :: s) = itemsE ';' prev cur a ++ itemsE e (some ';') [] s := by
  induction a generalizing prev cur with
  | nil => simp [itemsE]
  | cons c r ih =>
    simp only [List.cons_append, itemsE]
    split
    · simp [ih]
    · exact ih _ _

/-- the last item of a header -/
def lastItem (seg : List Char) : List Char → List Char
  | [] => seg
  | c :: r => if c = '=' ∨ c = ';' then lastItem [] r else lastItem (seg ++ [c]) r

theorem accum_lastItem (h mt seg : List Char) : (accum mt seg h).2 = lastItem seg h := by
  induction h generalizing mt seg with
  | nil => rfl
  | cons c r ih => simp only [accum, lastItem]; split <;> exact ih _ _

theorem render_good (e : Char) (h : List Char) (prev : Option Char) (cur : List Char)
    (hcur : ';' ∉ cur)
    (hall : (itemsE e prev cur h).all itemOK = true)
    (hlast : trimWs (lastItem cur.reverse h) = base64Word → lastDelim prev h ≠ some ';') :
    goodTail (render cur.reverse h) ∧
      (prev = some ';' → trimWs ((S.splitSemi (render cur.reverse h)).headD []) ≠ base64Word) := by
  unfold goodTail
  induction h generalizing prev cur with
  | nil =>
    have hns : ';' ∉ trimWs cur.reverse := fun hm => hcur (List.mem_reverse.1 (mem_trimWs_of_mem hm))
    simp only [render, splitSemi_noSemi _ hns, List.tail_cons, List.not_mem_nil, false_implies,
      implies_true, true_and, List.headD_cons]
    intro hp
    rw [trimWs_idem]
    intro hb
    exact hlast hb (by simp [lastDelim, hp])
  | cons c r ih =>
    simp only [itemsE] at hall
    simp only [render, lastItem, lastDelim] at *
    by_cases h2 : c = ';'
    · subst h2
      simp only [or_true, if_true, List.all_cons, Bool.and_eq_true] at hall hlast ⊢
      have hns : ';' ∉ trimWs cur.reverse := fun hm => hcur (List.mem_reverse.1 (mem_trimWs_of_mem hm))
      have := ih (some ';') [] (by simp) hall.2 (by simpa using hlast)
      simp only [List.reverse_nil] at this
      rw [splitSemi_append_semi, splitSemi_noSemi _ hns]
      constructor
      · intro s hs
        simp only [List.singleton_append, List.tail_cons] at hs
        cases hsp : S.splitSemi (render [] r) with
        | nil => exact absurd hsp (splitSemi_ne_nil _)
        | cons x t =>
          rw [hsp] at hs this
          rcases List.mem_cons.1 hs with e1 | e1
          · subst e1; simpa using this.2 trivial
          · exact this.1 s (by simpa [hsp] using e1)
      · intro hp
        simp only [List.singleton_append, List.headD_cons]
        rw [trimWs_idem]
        have hi := hall.1
        simp only [itemOK, trim_eq, hp] at hi
        intro e1
        have : base64Word = "base64".toList := rfl
        rw [this] at e1
        simp [e1] at hi
    · by_cases h1 : c = '='
      · subst h1
        simp only [true_or, if_true, List.all_cons, Bool.and_eq_true] at hall hlast ⊢
        have := ih (some '=') [] (by simp) hall.2 (by simpa using hlast)
        simp only [List.reverse_nil] at this
        have hns : ';' ∉ trimWs cur.reverse ++ ['='] := by
          intro hm
          rcases List.mem_append.1 hm with hm | hm
          · exact hcur (List.mem_reverse.1 (mem_trimWs_of_mem hm))
          · simp at hm
        have hre : trimWs cur.reverse ++ '=' :: render [] r = (trimWs cur.reverse ++ ['=']) ++ render [] r := by simp
        rw [hre, splitSemi_prepend _ _ hns]
        constructor
        · intro s hs
          exact this.1 s (by simpa using hs)
        · intro _
          simp only [List.headD_cons]
          apply trimWs_ne_of_eq_mem
          simp
      · simp only [h1, h2, or_self, if_false] at hall hlast ⊢
        have := ih prev (c :: cur) (by simp [hcur, Ne.symm h2]) hall (by simpa using hlast)
        simpa using this

theorem lastItem_mem (e : Char) (h : List Char) (prev : Option Char) (cur : List Char) :
    (lastDelim prev h, lastItem cur.reverse h, e) ∈ itemsE e prev cur h := by
  induction h generalizing prev cur with
  | nil => simp [itemsE, lastItem, lastDelim]
  | cons c r ih =>
    simp only [itemsE, lastItem, lastDelim]
    split
    · exact List.mem_cons_of_mem _ (by simpa using ih (some c) [])
    · simpa using ih prev (c :: cur)

theorem takeWhile_append_all {α} (p : α → Bool) (l m : List α) (hl : ∀ a ∈ l, p a = true) :
    (l ++ m).takeWhile p = l ++ m.takeWhile p := by
  induction l with
  | nil => rfl
  | cons a r ih =>
    have ha : p a = true := hl a (by simp)
    simp only [List.cons_append, List.takeWhile, ha]
    rw [ih (fun b hb => hl b (by simp [hb]))]

theorem noDelim_semi {s : List Char} (h : noDelim s) : ';' ∉ s := fun hm => (h _ hm).2 rfl

theorem lastItem_append (a s : List Char) (d : Char) (hd : d = '=' ∨ d = ';') (hs : noDelim s) (seg : List Char) :
    lastItem seg (a ++ d :: s) = s := by
  rw [← accum_lastItem (mt := []), accum_append]
  simp only [accum, hd, if_true]
  rw [accum_noDelim _ hs]
  simp

theorem marker_cases (head : List Char) (hall : (itemsE ',' none [] head).all itemOK = true) :
    (trimWs (lastItem [] head) ≠ base64Word ∧ S.splitMarker head = (head, false)) ∨
    (∃ a s, head = a ++ ';' :: s ∧ noDelim s ∧ trimWs s = base64Word ∧ S.splitMarker head = (a, true)) := by
  have hio := items_ok head none [] [] (by rw [headItems_eq]; exact hall)
  simp only [List.reverse_nil, accum_lastItem] at hio
  rcases lastDelim_cases head none with ⟨hn, hl⟩ | ⟨a, d, s, he, hd, hn, hl⟩
  · left
    have h1 : trimWs (lastItem [] head) ≠ base64Word := fun e => by
      have := hio.2 e; rw [hl] at this; cases this
    refine ⟨h1, ?_⟩
    simp [S.splitMarker, splitLastSemi_none head (noDelim_semi hn)]
  · have hli : lastItem [] head = s := by rw [he]; exact lastItem_append a s d hd hn []
    rcases hd with hd | hd
    · left
      subst hd
      have h1 : trimWs (lastItem [] head) ≠ base64Word := fun e => by
        have := hio.2 e; rw [hl] at this; cases this
      refine ⟨h1, ?_⟩
      -- the text after the last `;` contains the `=`
      unfold S.splitMarker S.splitLastSemi
      have hrev : head.reverse.takeWhile (· ≠ ';') = (s.reverse ++ ['=']) ++ (a.reverse.takeWhile (· ≠ ';')) := by
        rw [he, List.reverse_append, List.reverse_cons, List.append_assoc]
        rw [← List.append_assoc]
        apply takeWhile_append_all
        intro c hc
        rcases List.mem_append.1 hc with hc | hc
        · have : c ≠ ';' := fun e => noDelim_semi hn (e ▸ List.mem_reverse.1 hc)
          simpa using this
        · have : c = '=' := by simpa using hc
          subst this; decide
      split
      · rename_i mt last heq
        dsimp only at heq
        split at heq
        · simp only [Option.some.injEq, Prod.mk.injEq] at heq
          have hm : '=' ∈ last := by
            rw [← heq.2, hrev]; simp
          have : S.trim last ≠ "base64".toList := by
            rw [trim_eq]; exact trimWs_ne_of_eq_mem hm
          rw [if_neg this]
        · cases heq
      · rfl
    · subst hd
      have hsp := splitLastSemi_append a s (noDelim_semi hn)
      by_cases hb : trimWs s = base64Word
      · right
        refine ⟨a, s, he, hn, hb, ?_⟩
        have : base64Word = "base64".toList := rfl
        simp [S.splitMarker, he, hsp, trim_eq, hb, ← this]
      · left
        rw [hli]
        refine ⟨hb, ?_⟩
        have : base64Word = "base64".toList := rfl
        simp [S.splitMarker, he, hsp, trim_eq, hb, ← this]

/-! ## the URL split -/

theorem mem_takeWhile_sat {α} (p : α → Bool) (l : List α) (x : α) (h : x ∈ l.takeWhile p) : p x = true := by
  induction l with
  | nil => simp at h
  | cons a r ih =>
    simp only [List.takeWhile] at h
    cases hp : p a
    · simp [hp] at h
    · simp only [hp] at h
      rcases List.mem_cons.1 h with e | e
      · subst e; exact hp
      · exact ih e

theorem itemOK_semi {pre : Option Char} {it : List Char} (h : itemOK (pre, it, ';') = true) :
    trimWs it ≠ base64Word := by
  intro e
  have hb : base64Word = "base64".toList := rfl
  rw [hb] at e
  simp [itemOK, trim_eq, e] at h


theorem splitURL_spec (u head p : List Char) (hs : S.splitURL u = some (head, p)) :
    u = dataPrefix ++ head ++ ',' :: p ∧ ',' ∉ head := by
  unfold S.splitURL at hs
  split at hs
  · rename_i hpre
    dsimp only at hs
    split at hs
    · cases hs
    · rename_i c r hdw
      simp only [Option.some.injEq, Prod.mk.injEq] at hs
      have hc : c = ',' := by
        have := head_dropWhile_not (fun x => decide (x ≠ ',')) (u.drop 5) c (by rw [hdw]; rfl)
        simpa using this
      have hsplit := List.takeWhile_append_dropWhile (p := fun x => decide (x ≠ ',')) (l := u.drop 5)
      rw [hdw, hs.1, hs.2, hc] at hsplit
      constructor
      · have h5 : u = u.take 5 ++ u.drop 5 := (List.take_append_drop 5 u).symm
        rw [h5, hpre, ← hsplit]
        simp [dataPrefix]
      · intro hm
        rw [← hs.1] at hm
        have := mem_takeWhile_sat _ _ _ hm
        simp at this
  · cases hs

theorem any_false_all {α} (f : α → Bool) (l : List α) (h : l.any f = false) : l.all (fun x => !f x) = true := by
  induction l with
  | nil => rfl
  | cons a r ih =>
    simp only [List.any_cons, Bool.or_eq_false_iff] at h
    simp [h.1, ih h.2]

theorem hall_of_trig (u head p : List Char) (hs : S.splitURL u = some (head, p)) (hg : S.trigB64Item u = false) :
    (itemsE ',' none [] head).all itemOK = true := by
  unfold S.trigB64Item at hg
  rw [hs] at hg
  dsimp only at hg
  rw [headItems_eq] at hg
  exact any_false_all _ _ hg

/-! ## facts about `render` -/

theorem stripWs_single {c : Char} (h : isWs c = false) : S.stripWs [c] = [c] := by
  simp [S.stripWs, ws_eq, h]

theorem stripWs_render (h seg : List Char) : S.stripWs (render seg h) = S.stripWs seg ++ S.stripWs h := by
  induction h generalizing seg with
  | nil => simp only [render]; rw [stripWs_trimWs]; simp [S.stripWs]
  | cons c r ih =>
    simp only [render]
    split
    · rename_i hd
      have hw : isWs c = false := by rcases hd with e | e <;> subst e <;> decide
      have e1 : trimWs seg ++ c :: render [] r = trimWs seg ++ ([c] ++ render [] r) := by simp
      have e2 : c :: r = [c] ++ r := rfl
      rw [e1, e2, stripWs_append, stripWs_append, stripWs_append, stripWs_trimWs, ih, stripWs_single hw]
      simp [S.stripWs]
    · rename_i hd
      have e2 : c :: r = [c] ++ r := rfl
      rw [ih, e2, stripWs_append, stripWs_append, List.append_assoc]

theorem comma_render (h seg : List Char) (hs : ',' ∉ seg) (hh : ',' ∉ h) : ',' ∉ render seg h := by
  induction h generalizing seg with
  | nil => exact fun hm => hs (mem_trimWs_of_mem hm)
  | cons c r ih =>
    have hc : c ≠ ',' := fun e => hh (by simp [e])
    have hr : ',' ∉ r := fun e => hh (by simp [e])
    simp only [render]
    split
    · intro hm
      rcases List.mem_append.1 hm with hm | hm
      · exact hs (mem_trimWs_of_mem hm)
      · rcases List.mem_cons.1 hm with e | hm
        · exact hc e.symm
        · exact ih [] (by simp) hr hm
    · apply ih _ _ hr
      intro hm
      rcases List.mem_append.1 hm with hm | hm
      · exact hs hm
      · simp at hm; exact hc hm.symm

def notDelimB (c : Char) : Bool := !(c = '=' || c = ';')

/-- the first item of the rendered media type and what follows it -/
theorem render_first (h seg : List Char) :
    render seg h = trimWs (seg ++ h.takeWhile notDelimB) ++
      (match h.dropWhile notDelimB with | [] => [] | d :: r => d :: render [] r) := by
  induction h generalizing seg with
  | nil => simp [render]
  | cons c r ih =>
    simp only [render, List.takeWhile, List.dropWhile]
    by_cases hd : c = '=' ∨ c = ';'
    · have : notDelimB c = false := by rcases hd with e | e <;> subst e <;> decide
      simp [hd, this]
    · have : notDelimB c = true := by
        simp only [not_or] at hd
        simp [notDelimB, hd.1, hd.2]
      simp only [hd, if_false, this]
      rw [ih]
      simp

theorem dropWhile_append_stop {α} (p : α → Bool) (l : List α) (x : α) (m : List α) (hx : p x = false) :
    (l ++ x :: m).dropWhile p = l.dropWhile p ++ x :: m := by
  induction l with
  | nil => simp [List.dropWhile, hx]
  | cons a r ih =>
    simp only [List.cons_append, List.dropWhile]
    cases p a <;> simp [ih]

theorem takeWhile_append_stop' {α} (p : α → Bool) (l : List α) (x : α) (m : List α) (hx : p x = false) :
    (l ++ x :: m).takeWhile p = l.takeWhile p := by
  induction l with
  | nil => simp [List.takeWhile, hx]
  | cons a r ih =>
    simp only [List.cons_append, List.takeWhile]
    cases p a <;> simp [ih]

theorem drop_length_takeWhile {α} (p : α → Bool) (l : List α) : l.drop (l.takeWhile p).length = l.dropWhile p := by
  induction l with
  | nil => rfl
  | cons a r ih =>
    simp only [List.takeWhile, List.dropWhile]
    cases p a <;> simp [ih]

theorem dropWhile_length_le {α} (p : α → Bool) (l : List α) : (l.dropWhile p).length ≤ l.length :=
  (List.dropWhile_sublist p).length_le

theorem trimWs_length_le (l : List Char) : (trimWs l).length ≤ l.length := by
  unfold trimWs
  have h1 := dropWhile_length_le isWs l
  have h2 := dropWhile_length_le isWs (l.dropWhile isWs).reverse
  simp only [List.length_reverse] at *
  omega

theorem render_length (h seg : List Char) : (render seg h).length ≤ seg.length + h.length := by
  induction h generalizing seg with
  | nil => simpa [render] using trimWs_length_le seg
  | cons c r ih =>
    simp only [render]
    split
    · have := ih []
      have := trimWs_length_le seg
      simp only [List.length_append, List.length_cons, List.length_nil] at *
      omega
    · have := ih (seg ++ [c])
      simp only [List.length_append, List.length_cons, List.length_nil] at *
      omega

/-- what the rest of the proof needs to know about the media type `parse.DataURI` returns (before its
    `text/plain` default) for a header `head` -/
structure HeadFacts (head x : List Char) : Prop where
  strip : S.stripWs x = S.stripWs (S.splitMarker head).1
  comma : ',' ∉ x
  good : goodTail x
  len : x.length ≤ (S.splitMarker head).1.length
  first : ∃ tl, x = trimWs (head.takeWhile notDelimB) ++ tl ∧
    (tl = [] ∨ ∃ d tl', tl = d :: tl' ∧ (head.drop (head.takeWhile notDelimB).length).head? = some d)

theorem parse_structure (u head p : List Char) (hs : S.splitURL u = some (head, p))
    (hg : S.trigB64Item u = false) :
    ∃ x, HeadFacts head x ∧
      parseDataURI u = (if (S.splitMarker head).2 then (b64dec p).map (fun d => (finishMt x, d))
                        else some (finishMt x, decodeURL p)) := by
  obtain ⟨hu, hcomma⟩ := splitURL_spec u head p hs
  have hall := hall_of_trig u head p hs hg
  have hio := items_ok head none [] [] (by rw [headItems_eq]; exact hall)
  simp only [List.reverse_nil] at hio
  have hlen : 5 < u.length := by rw [hu]; simp [dataPrefix]; omega
  have htake : u.take 5 = dataPrefix := by rw [hu]; simp [dataPrefix]
  have hdrop : u.drop 5 = head ++ ',' :: p := by rw [hu]; simp [dataPrefix]
  have hscan := scan_head head p hcomma [] [] false hio.1
  have hren := accum_render head [] []
  simp only [List.nil_append] at hren
  simp only [accum_lastItem] at hio hscan hren
  unfold parseDataURI
  simp only [hlen, htake, and_self, if_true, hdrop, hscan]
  rcases marker_cases head hall with ⟨hnb, hm⟩ | ⟨a, s, he, hn, hb, hm⟩
  · -- not base64
    refine ⟨render [] head, ⟨?_, ?_, ?_, ?_, ?_⟩, ?_⟩
    · rw [hm, stripWs_render]; simp [S.stripWs]
    · exact comma_render _ _ (by simp) hcomma
    · exact (render_good ',' head none [] (by simp) hall (fun e => absurd e (by simpa using hnb))).1
    · rw [hm]; simpa using render_length head []
    · have hrf := render_first head []
      simp only [List.nil_append] at hrf
      refine ⟨_, hrf, ?_⟩
      rw [drop_length_takeWhile]
      cases hdw : head.dropWhile notDelimB with
      | nil => left; rfl
      | cons d r => right; exact ⟨d, _, rfl, rfl⟩
    · simp only [hnb, if_false, hm, Bool.false_eq_true, hren]
  · -- base64
    have hli : lastItem [] head = s := by rw [he]; exact lastItem_append a s ';' (Or.inr rfl) hn []
    have hacc : (accum [] [] head).1 = (accum [] [] a).1 ++ trimWs (accum [] [] a).2 ++ [';'] := by
      rw [he, accum_append]
      simp only [accum, or_true, if_true]
      rw [accum_noDelim _ hn]
    have hra := accum_render a [] []
    simp only [List.nil_append] at hra
    have hall_a : (itemsE ';' none [] a).all itemOK = true := by
      rw [he, itemsE_append, List.all_append, Bool.and_eq_true] at hall
      exact hall.1
    have hcomma_a : ',' ∉ a := fun hm' => hcomma (by rw [he]; simp [hm'])
    refine ⟨render [] a, ⟨?_, ?_, ?_, ?_, ?_⟩, ?_⟩
    · rw [hm, stripWs_render]; simp [S.stripWs]
    · exact comma_render _ _ (by simp) hcomma_a
    · refine (render_good ';' a none [] (by simp) hall_a ?_).1
      intro e
      have hmem := lastItem_mem ';' a none []
      have hok := (List.all_eq_true.1 hall_a) _ hmem
      exact absurd e (itemOK_semi hok)
    · rw [hm]; simpa using render_length a []
    · have ht : head.takeWhile notDelimB = a.takeWhile notDelimB := by
        rw [he]; exact takeWhile_append_stop' _ _ _ _ (by decide)
      have hd : head.dropWhile notDelimB = a.dropWhile notDelimB ++ ';' :: s := by
        rw [he]; exact dropWhile_append_stop _ _ _ _ (by decide)
      have hrf := render_first a []
      simp only [List.nil_append] at hrf
      rw [← ht] at hrf
      refine ⟨_, hrf, ?_⟩
      rw [drop_length_takeWhile, hd]
      cases hdw : a.dropWhile notDelimB with
      | nil => left; rfl
      | cons d r => right; exact ⟨d, _, rfl, rfl⟩
    · rw [hli]
      simp only [hb, if_true, hm, hacc, List.dropLast_concat, hra]

end Verif.Proofs.DataURI

import Verif.Proofs.NumRound
set_option linter.unusedSimpArgs false
/-!
# C08 — `decimal`: length, grammar, value
-/
namespace Verif.Proofs.Num
open Verif.Model.Num
open Verif.Spec.Num (parse Parsed isNumber isDecimal numVal)

theorem splitFirstDot_length (l : List Char) :
    (splitFirstDot l).1.length + dotLen (splitFirstDot l).2 = l.length := by
  induction l with
  | nil => simp [splitFirstDot, dotLen]
  | cons c r ih =>
    unfold splitFirstDot
    by_cases hc : c = '.'
    · simp only [hc, beq_self_eq_true, if_true, dotLen, List.length_nil, List.length_cons]; omega
    · have : (c == '.') = false := by simpa using hc
      simp only [this, Bool.false_eq_true, if_false, List.length_cons]
      omega

theorem rndD_length (prec : Int) (ip fp : List Char) :
    mlen (rndD prec ip fp).1 (rndD prec ip fp).2 ≤ mlen ip fp := by
  unfold rndD
  split
  · exact roundD_length ip fp _
  · exact Nat.le_refl _

theorem mlen_eq (a b : List Char) : (a ++ (if b.isEmpty then [] else '.' :: b)).length = mlen a b := by
  unfold mlen
  cases b <;> simp <;> omega

theorem decimalCore_length (neg : Bool) (body : List Char) (prec : Int) (hb : 1 ≤ body.length) :
    (decimalCore neg body prec).length ≤ body.length + (if neg then 1 else 0) := by
  unfold decimalCore
  simp only []
  have hsp := splitFirstDot_length body
  generalize splitFirstDot body = sp at hsp ⊢
  obtain ⟨ipart, fo⟩ := sp
  simp only [] at hsp ⊢
  generalize hdr : min (ipart.length - (dropZeros ipart).length) (body.length - 1) = dropped
  split
  · simp; omega
  · split
    · simp; omega
    · rw [sgn_length, mlen_eq]
      have h1 := rndD_length prec (ipart.drop dropped) (dropTrail '0' (fo.getD []))
      have h2 := mlen_cases (ipart.drop dropped) (dropTrail '0' (fo.getD []))
      have h3 := dropTrail_length_le '0' (fo.getD [])
      simp only [List.length_drop] at h2
      cases fo with
      | none =>
        simp only [dotLen, Option.getD_none, dropTrail_nil, List.length_nil] at hsp h2 h3 h1 ⊢
        omega
      | some f =>
        simp only [dotLen, Option.getD_some] at hsp h2 h3 h1 ⊢
        omega

theorem decimal_length_all (s : List Char) (prec : Int) : (decimal s prec).length ≤ s.length := by
  unfold decimal
  split
  · exact Nat.le_refl _
  · rename_i hlen
    simp only []
    cases s with
    | nil => simp at hlen
    | cons c t =>
      simp only [List.head?_cons, List.drop_one, List.tail_cons]
      by_cases hm : c = '-'
      · subst hm
        have := decimalCore_length true t prec (by simp only [List.length_cons] at hlen; omega)
        simpa using this
      · have hneg : (some c == some '-') = false := by simpa using hm
        rw [hneg]
        by_cases hp : c = '+'
        · subst hp
          have := decimalCore_length false t prec (by simp only [List.length_cons] at hlen; omega)
          simp at this ⊢; omega
        · have hpl : (some c == some '+') = false := by simpa using hp
          rw [hpl]
          have := decimalCore_length false (c :: t) prec (by simp)
          simpa using this


/-! ## grammar and value -/

theorem incStrip_nil_of_not_pend {t : List Char} {inc : Bool}
    (h1 : (incStrip t inc).1 = []) (h2 : (incStrip t inc).2 = false) : dropTrail '0' t = [] := by
  unfold incStrip at h1 h2
  cases inc with
  | false => simpa using h1
  | true =>
    simp only [if_true] at h1 h2
    split at h2
    · cases h2
    · rename_i c r hr
      rw [hr] at h1
      simp at h1

theorem take_zeros_nonzero {fp ds : List Char} {lz k : Nat} (hf : fp = List.replicate lz '0' ++ ds)
    (hds : ∀ r, ds ≠ '0' :: r) (hne : ds ≠ []) (hk : lz + 1 ≤ k) : dropTrail '0' (fp.take k) ≠ [] := by
  intro hnil
  obtain ⟨h1, _, _⟩ := dropTrail_spec '0' (fp.take k)
  rw [hnil] at h1
  simp only [List.nil_append, List.length_nil, Nat.sub_zero] at h1
  cases ds with
  | nil => exact hne rfl
  | cons d r =>
    have hd : d ≠ '0' := by intro h; rw [h] at hds; exact hds r rfl
    have hmem : d ∈ fp.take k := by
      rw [hf, List.take_append]
      simp only [List.length_replicate]
      apply List.mem_append_right
      have : k - lz = (k - lz - 1) + 1 := by omega
      rw [this, List.take_succ_cons]
      simp
    rw [h1] at hmem
    exact hd (List.mem_replicate.mp hmem).2

theorem roundD_wf {ip fp : List Char} (h : MantWF ip fp) {p : Nat} (hp : 0 < p) :
    MantWF (roundD ip fp p).1 (roundD ip fp p).2 := by
  unfold roundD roundDAt
  generalize hk : ((if ip.isEmpty then fp.length - (dropZeros fp).length else 0) + p - ip.length) = k
  split
  · rename_i hkl
    obtain ⟨s1, s2, s3, s4⟩ := incStrip_spec (fp.take k) (ge5At fp k) (h.dfp.take k)
    simp only []
    cases hpend : (incStrip (fp.take k) (ge5At fp k)).2 with
    | true =>
      simp only [if_true]
      obtain ⟨i1, i2, i3, i4⟩ := incInt_spec ip h.dip h.lead
      exact ⟨i1, AllDig.nil, Or.inl i3, i4, by intro t e; simp at e⟩
    | false =>
      simp only [Bool.false_eq_true, if_false]
      refine ⟨h.dip, s1, ?_, h.lead, s4⟩
      by_cases hi : ip = []
      · right
        intro hnil
        have hdt := incStrip_nil_of_not_pend hnil hpend
        obtain ⟨z1, z2, z3⟩ := dropZeros_spec fp
        have hdz : dropZeros fp ≠ [] := by
          have := (sigDigits_kindDig h).2.2.1
          simpa [sigDigits, hi] using this
        refine take_zeros_nonzero z1 z3 hdz ?_ hdt
        rw [← hk]; simp [hi]; omega
      · left; exact hi
  · exact h

theorem rndD_wf {ip fp : List Char} (h : MantWF ip fp) (prec : Int) :
    MantWF (rndD prec ip fp).1 (rndD prec ip fp).2 := by
  unfold rndD
  split
  · rename_i hc
    simp only [Bool.and_eq_true, decide_eq_true_eq] at hc
    exact roundD_wf h (by omega)
  · exact h


theorem splitFirstDot_nodot {l : List Char} (h : ∀ c ∈ l, c ≠ '.') : splitFirstDot l = (l, none) := by
  induction l with
  | nil => rfl
  | cons c r ih =>
    unfold splitFirstDot
    have : (c == '.') = false := by simpa using h c (by simp)
    simp only [this, Bool.false_eq_true, if_false]
    rw [ih (fun x hx => h x (by simp [hx]))]

theorem splitFirstDot_dot {a : List Char} (b : List Char) (ha : ∀ c ∈ a, c ≠ '.') :
    splitFirstDot (a ++ '.' :: b) = (a, some b) := by
  induction a with
  | nil => simp [splitFirstDot]
  | cons c r ih =>
    simp only [List.cons_append]
    unfold splitFirstDot
    have : (c == '.') = false := by simpa using ha c (by simp)
    simp only [this, Bool.false_eq_true, if_false]
    rw [ih (fun x hx => ha x (by simp [hx]))]

theorem rndD_nonpos {prec : Int} (h : prec ≤ 0) (ip fp : List Char) : rndD prec ip fp = (ip, fp) := by
  unfold rndD
  have : decide (0 < prec) = false := by simp; omega
  simp [this]

theorem decimalCore_lex (neg : Bool) (ip fp : List Char) (dot : Bool) (p : Int)
    (hip : AllDig ip) (hfp : AllDig fp) (hd : dot = false → fp = []) (hne : ip ≠ [] ∨ fp ≠ []) :
    ∃ l' : Lex, l'.WF ∧ l'.ex = none ∧
      l'.str = decimalCore neg (ip ++ (if dot then '.' :: fp else [])) p ∧ l'.sg ≠ .plus ∧
      (p ≤ 0 → l'.val = dval neg (natOf (ip ++ fp)) (0 - (fp.length : Int))) := by
  have hipd : ∀ c ∈ ip, c ≠ '.' := fun c hc => digit_ne_dot (hip c hc)
  have hsp : splitFirstDot (ip ++ (if dot then '.' :: fp else [])) = (ip, if dot then some fp else none) := by
    cases dot with
    | true => simp only [if_true]; exact splitFirstDot_dot fp hipd
    | false => simp only [Bool.false_eq_true, if_false, List.append_nil]; exact splitFirstDot_nodot hipd
  have hgetD : (if dot then some fp else none).getD [] = fp := by
    cases dot with
    | true => rfl
    | false => simp [hd rfl]
  have hsome : (if dot then some fp else none : Option (List Char)).isSome = dot := by cases dot <;> rfl
  generalize hrest : (if dot then 1 + fp.length else 0) = rest
  have hml : (ip ++ (if dot then '.' :: fp else [])).length = ip.length + rest := by
    rw [← hrest]; cases dot <;> simp; omega
  unfold decimalCore
  simp only [hsp, hgetD, hsome, hml]
  obtain ⟨htr1, htr2⟩ := trim_ip ip rest
  obtain ⟨_, _, hz3⟩ := dropZeros_spec ip
  obtain ⟨_, hdtl, hdt3⟩ := dropTrail_spec '0' fp
  by_cases hc : 0 < rest ∨ dropZeros ip ≠ []
  · obtain ⟨hip', hdropped⟩ := htr1 hc
    rw [hip']
    split
    · rename_i hz
      simp only [Bool.and_eq_true, List.isEmpty_iff] at hz
      refine ⟨zeroLex, zeroLex_wf, rfl, zeroLex_str, by simp [zeroLex], ?_⟩
      intro _
      rw [zeroLex_val, natOf_append, natOf_of_dropZeros_nil hz.2, natOf_of_dropTrail_nil hz.1.2]
      simp [dval_zero]
    · rename_i hz1
      split
      · rename_i hz2
        simp only [Bool.and_eq_true, beq_iff_eq] at hz2
        exact absurd hz2.2 (hz3 [])
      · have hwf0 : MantWF (dropZeros ip) (dropTrail '0' fp) := by
          refine ⟨hip.dropZeros, hfp.dropTrail '0', ?_, hz3, hdt3⟩
          by_cases h1 : dropZeros ip = []
          · right
            intro h2
            cases hdot : dot with
            | true => apply hz1; simp [hdot, h1, h2]
            | false =>
              rcases hc with hc | hc
              · rw [← hrest, hdot] at hc; simp at hc
              · exact hc h1
          · left; exact h1
        have hwf := rndD_wf hwf0 p
        generalize hrr : rndD p (dropZeros ip) (dropTrail '0' fp) = r at hwf
        obtain ⟨r1, r2⟩ := r
        simp only [] at hwf ⊢
        have hol := outLex_plain neg r1 r2 (!r2.isEmpty) hwf.dip hwf.dfp
          (by intro h; cases r2 with | nil => rfl | cons _ _ => simp at h) hwf.nonempty
          (by intro h; cases r2 with | nil => simp at h | cons _ _ => simp) hwf.lead
        have hstr : (if (!r2.isEmpty) = true then '.' :: r2 else []) = (if r2.isEmpty = true then [] else '.' :: r2) := by
          cases r2 <;> simp
        rw [hstr] at hol
        refine ⟨_, hol.wf, rfl, hol.str, by rw [hol.sg]; exact sgOf_ne_plus neg, ?_⟩
        intro hp
        rw [rndD_nonpos hp] at hrr
        injection hrr with e1 e2
        subst e1 e2
        rw [trim_val]
        simp only [Lex.val, Lex.expVal, sgOf_neg]
  · have hrest0 : rest = 0 := by omega
    have hdz : dropZeros ip = [] := by
      cases h : dropZeros ip with
      | nil => rfl
      | cons _ _ => exact absurd (Or.inr (by simp [h])) hc
    have hdot : dot = false := by
      cases hdot : dot with
      | false => rfl
      | true => rw [← hrest, hdot] at hrest0; simp at hrest0
    have hfp0 := hd hdot
    have hipne : ip ≠ [] := by rcases hne with h | h; exact h; exact absurd hfp0 h
    rw [htr2 hrest0 hdz hipne]
    simp only [hdot, Bool.false_and, Bool.false_eq_true, if_false, Bool.not_false, Bool.true_and, beq_self_eq_true, if_true]
    refine ⟨zeroLex, zeroLex_wf, rfl, zeroLex_str, by simp [zeroLex], ?_⟩
    intro _
    rw [zeroLex_val, hfp0, List.append_nil, natOf_of_dropZeros_nil hdz]
    simp [dval_zero]


theorem str_sign_facts (l : Lex) (hwf : l.WF) :
    (l.str.head? == some '-') = l.sg.neg ∧
    (l.sg.neg || (l.str.head? == some '+')) = (l.sg != .none) ∧
    (if (l.sg != .none) = true then l.str.drop 1 else l.str) = l.ip ++ (l.dotPart ++ l.exPart) := by
  have hbody := str_body_head l hwf
  generalize hB : l.ip ++ (l.dotPart ++ l.exPart) = B at hbody
  have hstr : l.str = l.sg.chars ++ B := by rw [← hB]; rfl
  rw [hstr]
  cases hsg : l.sg with
  | minus => simp [Sg.chars, Sg.neg]
  | plus => simp [Sg.chars, Sg.neg]
  | none =>
    simp only [Sg.chars, List.nil_append, Sg.neg]
    cases B with
    | nil => simp
    | cons c t =>
      obtain ⟨h1, h2⟩ := hbody c t rfl
      simp [h1, h2]

theorem decimal_lex (l : Lex) (hwf : l.WF) (hex : l.ex = none) (p : Int) :
    decimal l.str p = l.str ∨
    ∃ l' : Lex, l'.WF ∧ l'.ex = none ∧ l'.str = decimal l.str p ∧ l'.sg ≠ .plus ∧ (p ≤ 0 → l'.val = l.val) := by
  unfold decimal
  split
  · left; rfl
  · right
    obtain ⟨hs1, hs2, hs3⟩ := str_sign_facts l hwf
    simp only [hs1, hs2, hs3]
    have hexp : l.exPart = [] := by simp [Lex.exPart, hex]
    have hdp : l.dotPart = if l.dot then '.' :: l.fp else [] := rfl
    rw [hexp, List.append_nil, hdp]
    obtain ⟨l', h1, h2, h3, h4, h5⟩ := decimalCore_lex l.sg.neg l.ip l.fp l.dot p hwf.ip hwf.fp hwf.nodot hwf.nonempty
    refine ⟨l', h1, h2, h3, h4, ?_⟩
    intro hp
    rw [h5 hp]
    simp [Lex.val, Lex.expVal, hex]

end Verif.Proofs.Num

import Verif.Proofs.SvgLex
import Verif.Proofs.SvgParse
/-!
# C05 helper lemmas: the value of a printed number does not depend on the spelling the printer chooses
(`.0` for `0`, `e2` for a trailing `00`)
-/
namespace Verif.Proofs.SvgVal
open Verif.Spec.SvgPath Verif.Spec.SvgHazard Verif.Model.SvgPath Verif.Proofs.SvgLex Verif.Proofs.SvgParse

def exVal : Option (Bool × List Char) → Int
  | none => 0
  | some (n, ds) => if n then -(digitsVal ds : Int) else (digitsVal ds : Int)

/-- value of a decomposed number -/
def viewVal (v : NumView) : Rat :=
  let m : Rat := ((digitsVal (v.ip ++ v.fp) : Nat) : Rat) * pow10 (exVal v.ex - v.fp.length)
  if v.neg then -m else m

theorem numVal_unsigned (neg : Bool) (ip fp : List Char) (dot : Bool) (ex : Option (Bool × List Char))
    (hip : ∀ c ∈ ip, isDigit c = true) (hfp : ∀ c ∈ fp, isDigit c = true)
    (hdf : dot = false → fp = [])
    (hex : match ex with | none => True | some (_, ds) => (∀ c ∈ ds, isDigit c = true) ∧ ds ≠ [])
    (s : List Char) (hs : takeSign s = ((if neg then ['-'] else []), ip ++ (fracStr dot fp ++ exStr ex))) :
    numVal s = (let m : Rat := ((digitsVal (ip ++ fp) : Nat) : Rat) * pow10 (exVal ex - fp.length)
                if neg then -m else m) := by
  have hexhead : ∀ c r, exStr ex = c :: r → isDigit c = false ∧ c ≠ '.' := by
    intro c r h
    cases ex with
    | none => simp [exStr] at h
    | some p =>
      obtain ⟨n, ds⟩ := p
      simp only [exStr, List.cons.injEq] at h
      rw [← h.1]; exact ⟨by decide, by decide⟩
  have hexval : expOf (exStr ex) = exVal ex := by
    cases ex with
    | none => simp [exStr, exVal, expOf]
    | some p =>
      obtain ⟨n, ds⟩ := p
      have hsp := span_digits_stop ds [] hex.1 (by intro c r h; cases h)
      simp only [List.append_nil] at hsp
      cases ds with
      | nil => exact absurd rfl hex.2
      | cons d t =>
        obtain ⟨h1, h2, _, _⟩ := digit_not_sign d (hex.1 d (by simp))
        cases n
        · simp [exStr, exVal, expOf, isExpChar, takeSign_nosign d t h1 h2, hsp]
        · simp [exStr, exVal, expOf, isExpChar, takeSign, hsp]
  unfold numVal
  rw [hs]
  cases dot with
  | true =>
    have h1 : spanD (ip ++ (fracStr true fp ++ exStr ex)) = (ip, '.' :: (fp ++ exStr ex)) := by
      simpa [fracStr] using span_digits_stop ip ('.' :: (fp ++ exStr ex)) hip (by intro c r h; cases h; decide)
    have h2 : spanD (fp ++ exStr ex) = (fp, exStr ex) :=
      span_digits_stop fp _ hfp (fun c r h => (hexhead c r h).1)
    simp only [h1, fracOf, h2, hexval]
    cases neg <;> simp
  | false =>
    have hfp0 : fp = [] := hdf rfl
    subst hfp0
    have h1 : spanD (ip ++ (fracStr false [] ++ exStr ex)) = (ip, exStr ex) := by
      simpa [fracStr] using span_digits_stop ip (exStr ex) hip (fun c r h => (hexhead c r h).1)
    have hm : fracOf (exStr ex) = ([], exStr ex) := by
      unfold fracOf
      cases hr : exStr ex with
      | nil => rfl
      | cons c r =>
        have := (hexhead c r hr).2
        split
        · rename_i heq; cases heq; exact absurd rfl this
        · rfl
    simp only [h1, hm, hexval]
    cases neg <;> simp

theorem takeSign_render (v : NumView) (hwf : WfView v) :
    takeSign v.render = ((if v.neg then ['-'] else []), v.ip ++ (fracStr v.dot v.fp ++ exStr v.ex)) := by
  rw [body_eq]
  cases hn : v.neg with
  | true => simp [takeSign]
  | false =>
    simp only [Bool.false_eq_true, if_false, List.nil_append]
    cases hip : v.ip with
    | cons d t =>
      have hd := hwf.hip d (by rw [hip]; simp)
      obtain ⟨h1, h2, _, _⟩ := digit_not_sign d hd
      simpa using takeSign_nosign d _ h1 h2
    | nil =>
      have hfpne : v.fp ≠ [] := by
        cases hwf.hne with
        | inl h => exact absurd hip h
        | inr h => exact h
      have hdot : v.dot = true := by
        cases hd : v.dot with
        | true => rfl
        | false => exact absurd (hwf.hdf hd) hfpne
      simp only [hdot, fracStr, if_true, List.nil_append, List.cons_append]
      exact takeSign_nosign '.' _ (by decide) (by decide)

theorem numVal_render (v : NumView) (hwf : WfView v) : numVal v.render = viewVal v :=
  numVal_unsigned v.neg v.ip v.fp v.dot v.ex hwf.hip hwf.hfp hwf.hdf hwf.hex v.render (takeSign_render v hwf)

theorem digitsVal_append (a b : List Char) :
    digitsVal (a ++ b) = b.foldl (fun x c => x * 10 + (c.toNat - 48)) (digitsVal a) := by
  unfold digitsVal; rw [List.foldl_append]

theorem pow10_two : pow10 2 = 100 := by decide +kernel
theorem pow10_zero : pow10 0 = 1 := by decide +kernel

/-- the `00` → `e2` rewrite keeps the value -/
theorem numVal_body00 (v : NumView) (hwf : WfView v) (hz : v.zeroOk = true) :
    numVal (body00 v.render) = numVal v.render := by
  cases hr : rewrites00 v.render with
  | false => simp [body00, hr]
  | true =>
    have hr' := hr
    unfold rewrites00 at hr'
    simp only [Bool.and_eq_true] at hr'
    have hi : v.isInt = true := by rw [← isPlainInt_render v hwf]; exact hr'.1
    have hren := render_int v hwf hi
    have hm := hr'.2
    rw [hren, List.reverse_append] at hm
    cases hrev : v.ip.reverse with
    | nil =>
      rw [hrev] at hm
      cases hn : v.neg <;> simp [hn] at hm
    | cons a t1 =>
      cases t1 with
      | nil =>
        rw [hrev] at hm
        cases hn : v.neg <;> simp [hn] at hm
      | cons b t =>
        rw [hrev] at hm
        simp only [List.cons_append] at hm
        have ha : a = '0' := by
          by_cases h : a = '0'
          · exact h
          · exfalso; revert hm; split <;> simp_all
        have hb : b = '0' := by
          by_cases h : b = '0'
          · exact h
          · exfalso; revert hm; split <;> simp_all
        subst ha; subst hb
        have hip : v.ip = t.reverse ++ ['0', '0'] := by
          have := congrArg List.reverse hrev
          simpa using this
        have htne : t ≠ [] := by
          intro ht; subst ht
          unfold NumView.zeroOk at hz
          rw [hip] at hz
          simp at hz
        have hi' := hi
        unfold NumView.isInt at hi'
        simp only [Bool.and_eq_true, Bool.not_eq_true', Option.isNone_iff_eq_none] at hi'
        have hfp : v.fp = [] := hwf.hdf hi'.1
        have hwf' : WfView { v with ip := t.reverse, ex := some (false, ['2']) } := by
          refine ⟨?_, hwf.hfp, hwf.hdf, Or.inl (by simpa using htne), ?_⟩
          · intro c hc; exact hwf.hip c (by rw [hip]; simp at hc ⊢; exact Or.inl hc)
          · exact ⟨by intro c hc; simp at hc; subst hc; decide, by simp⟩
        have hb : body00 v.render = ({ v with ip := t.reverse, ex := some (false, ['2']) } : NumView).render := by
          unfold body00
          rw [hr, if_pos rfl, hren, List.reverse_append, hrev]
          rw [body_eq]
          simp [hi'.1, fracStr, exStr, List.reverse_append]
        rw [hb, numVal_render _ hwf', numVal_render v hwf]
        unfold viewVal
        simp only [hfp, hi'.2, hip, exVal, List.append_nil, List.length_nil, Bool.false_eq_true, if_false]
        have e1 : digitsVal (t.reverse ++ ['0', '0']) = digitsVal t.reverse * 100 := by
          rw [digitsVal_append]; simp only [List.foldl_cons, List.foldl_nil]
          have : ('0' : Char).toNat - 48 = 0 := by decide
          rw [this]; omega
        have e2 : digitsVal ['2'] = 2 := by decide
        rw [e1, e2]
        have p2 : pow10 ((2 : Nat) - (0 : Nat) : Int) = 100 := by
          have : ((2 : Nat) - (0 : Nat) : Int) = 2 := by omega
          rw [this, pow10_two]
        have p0 : pow10 ((0 : Int) - ((0 : Nat) : Int)) = 1 := by
          have : ((0 : Int) - ((0 : Nat) : Int)) = 0 := by omega
          rw [this, pow10_zero]
        rw [p2, p0]
        have hc : ((digitsVal t.reverse * 100 : Nat) : Rat) = ((digitsVal t.reverse : Nat) : Rat) * 100 := by
          simp [Rat.natCast_mul]
        rw [hc]
        cases v.neg <;> simp <;> grind

/-- **the spelling chosen by `copyNumber` keeps the value** -/
theorem numVal_numLexeme (st : PState) (s : List Char) (hg : goodNum s = true) :
    numVal (numLexeme st s) = numVal s := by
  obtain ⟨v, hwf, hz, hs⟩ := goodNum_view s hg
  obtain ⟨t, hrt, _⟩ := render_headD v hwf
  unfold numLexeme
  split
  · rename_i hA
    simp only [Bool.and_eq_true, Bool.not_eq_true', beq_iff_eq] at hA
    have h0 : headOf v = '0' := by
      have : s.headD ' ' = headOf v := by rw [hs, hrt]; rfl
      rw [← this]; exact hA.1.2
    -- the number is `0`
    have hneg : v.neg = false := by
      cases hn : v.neg with
      | false => rfl
      | true => simp [headOf, hn] at h0
    have hipv : ∃ r, v.ip = '0' :: r := by
      cases hip : v.ip with
      | nil => simp [headOf, hneg, hip] at h0
      | cons d r => simp only [headOf, hneg, hip, Bool.false_eq_true, if_false] at h0; exact ⟨r, by rw [h0]⟩
    obtain ⟨r, hipr⟩ := hipv
    have hzz := hz
    unfold NumView.zeroOk at hzz
    rw [hipr] at hzz
    simp only [Bool.and_eq_true, List.isEmpty_iff, Bool.not_eq_true', Option.isNone_iff_eq_none] at hzz
    have hfp : v.fp = [] := hwf.hdf hzz.1.2
    rw [hs, numVal_render v hwf]
    unfold viewVal
    rw [hipr, hzz.1.1, hfp, hzz.2, hneg]
    decide +kernel
  · rw [hs]; exact numVal_body00 v hwf hz

/-- the value an item denotes, independent of the printer state -/
def itemVal : PItem → Rat
  | .num s => numVal s
  | .flag b => if b then 1 else 0

theorem itemsVals_eq : ∀ (items : List PItem) (st : PState), GoodItems items → itemsVals st items = items.map itemVal := by
  intro items
  induction items with
  | nil => intro st _; rfl
  | cons it r ih =>
    intro st hg
    have ihr := ih (emitItem st it).1 (fun s hs => hg s (by simp [hs]))
    unfold itemsVals at ihr ⊢
    simp only [itemsToks, List.map_cons, ihr]
    congr 1
    cases it with
    | num s => simp only [itemTok, tokValD, tokVal, Option.getD_some, itemVal]; exact numVal_numLexeme st s (hg s (by simp))
    | flag b => simp [itemTok, tokValD, tokVal, itemVal]

end Verif.Proofs.SvgVal

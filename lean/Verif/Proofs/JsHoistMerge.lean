import Verif.Proofs.JsDeclLemmas
import Verif.Model.JsHoist
/-!
# C01D — the declaration merges of `optimizeStmtList` preserve the semantics

`addDefinition` / `mergeVarDecls` on item lists (evaluation, declared names), and the list rewrites
"adjacent declarations", "`var a;a=5`", "`a=5;var b`", "into the head of a `for`" as `ListEqA` facts.
-/
namespace Verif.Proofs.JsDecl
open Verif.Spec.JsDeclSem Verif.Model.JsHoist

/-! ## item lists -/

theorem itemNames_append (l1 l2 : List DE) : itemNames (l1 ++ l2) = itemNames l1 ++ itemNames l2 := by
  simp [itemNames, List.filterMap_append]

theorem itemNames_cons (i : DE) (t : List DE) : itemNames (i :: t) = (itemName i).toList ++ itemNames t := by
  cases h : itemName i <;> simp [itemNames, h]

theorem removeBare_eval (H : Host) (K : Val → List Val → M Val) (x : String) (env : Env) :
    ∀ (l r : List DE), removeBare x l = some r → evalItems H K r env = evalItems H K l env := by
  intro l
  induction l with
  | nil => intro r h; simp [removeBare] at h
  | cons i t ih =>
    intro r h
    cases i with
    | var y a =>
      simp only [removeBare] at h
      split at h
      · cases h; simp [evalItems]
      · cases h2 : removeBare x t with
        | none => simp [h2] at h
        | some r2 =>
          simp [h2] at h
          subst h
          simp [evalItems, ih r2 h2]
    | assign y a e =>
      simp only [removeBare] at h
      cases h2 : removeBare x t with
      | none => simp [h2] at h
      | some r2 =>
        simp [h2] at h
        subst h
        simp only [evalItems_cons_assign, ih r2 h2]
    | _ =>
      simp only [removeBare] at h
      cases h2 : removeBare x t with
      | none => simp [h2] at h
      | some r2 =>
        simp [h2] at h
        subst h
        simp [evalItems, ih r2 h2]

theorem mem_itemNames_cons (i : DE) (t : List DE) (y : String) :
    y ∈ itemNames (i :: t) ↔ itemName i = some y ∨ y ∈ itemNames t := by
  cases h : itemName i <;> simp [itemNames, h, eq_comm]

theorem removeBare_names (x : String) :
    ∀ (l r : List DE), removeBare x l = some r →
      ∀ y, y ∈ itemNames l ↔ (y = x ∨ y ∈ itemNames r) := by
  intro l
  induction l with
  | nil => intro r h; simp [removeBare] at h
  | cons i t ih =>
    intro r h y
    cases i with
    | var z a =>
      simp only [removeBare] at h
      split at h
      · rename_i hz
        cases h
        have : z = x := by simpa using hz
        subst this
        simp [mem_itemNames_cons, itemName, eq_comm]
      · cases h2 : removeBare x t with
        | none => simp [h2] at h
        | some r2 =>
          simp [h2] at h
          subst h
          simp only [mem_itemNames_cons, itemName, ih r2 h2 y]
          grind
    | assign z a e =>
      simp only [removeBare] at h
      cases h2 : removeBare x t with
      | none => simp [h2] at h
      | some r2 =>
        simp [h2] at h
        subst h
        simp only [mem_itemNames_cons, itemName, ih r2 h2 y]
        grind
    | _ =>
      simp only [removeBare] at h
      cases h2 : removeBare x t with
      | none => simp [h2] at h
      | some r2 =>
        simp [h2] at h
        subst h
        simp only [mem_itemNames_cons, itemName, ih r2 h2 y]
        grind

/-- the items of the destination after the removal step of `addDefinition` -/
def addBase (k : DeclKind) (items : List DE) (it : DE) : List DE :=
  if k == .hoisted then items else
  match itemName it with
  | some x => (removeBare x items).getD items
  | none => items

theorem addDefinition_eq (k : DeclKind) (items : List DE) (it : DE) (forward : Bool) :
    addDefinition k items it forward = if forward then it :: addBase k items it else addBase k items it ++ [it] := rfl

theorem addBase_eval (H : Host) (K : Val → List Val → M Val) (k : DeclKind) (items : List DE) (it : DE) (env : Env) :
    evalItems H K (addBase k items it) env = evalItems H K items env := by
  unfold addBase
  split
  · rfl
  · cases h : itemName it with
    | none => rfl
    | some x =>
      simp only
      cases h2 : removeBare x items with
      | none => rfl
      | some r => simpa using removeBare_eval H K x env items r h2

theorem addBase_names (k : DeclKind) (items : List DE) (it : DE) (y : String) :
    (itemName it = some y ∨ y ∈ itemNames (addBase k items it)) ↔ (itemName it = some y ∨ y ∈ itemNames items) := by
  unfold addBase
  split
  · rfl
  · cases h : itemName it with
    | none => rfl
    | some x =>
      simp only
      cases h2 : removeBare x items with
      | none => rfl
      | some r =>
        simp only [Option.getD_some, removeBare_names x items r h2 y, Option.some.injEq]
        constructor
        · rintro (h | h)
          · exact Or.inl h
          · exact Or.inr (Or.inr h)
        · rintro (h | h | h)
          · exact Or.inl h
          · exact Or.inl h.symm
          · exact Or.inr h

/-- evaluation after `addDefinition`, appended (`forward = false`) -/
theorem addDefinition_eval_back (H : Host) (K : Val → List Val → M Val) (k : DeclKind) (items : List DE) (it : DE)
    (env : Env) :
    evalItems H K (addDefinition k items it false) env
      = bindM (evalItems H K items env) (fun _ => evalItems H K [it] env) := by
  simp only [addDefinition_eq, Bool.false_eq_true, if_false, evalItems_append, addBase_eval]

/-- evaluation after `addDefinition`, prepended (`forward = true`) -/
theorem addDefinition_eval_fwd (H : Host) (K : Val → List Val → M Val) (k : DeclKind) (items : List DE) (it : DE)
    (env : Env) :
    evalItems H K (addDefinition k items it true) env
      = bindM (evalItems H K [it] env) (fun _ => evalItems H K items env) := by
  have : it :: addBase k items it = [it] ++ addBase k items it := rfl
  simp only [addDefinition_eq, if_true, this, evalItems_append, addBase_eval]

theorem addDefinition_names (k : DeclKind) (items : List DE) (it : DE) (forward : Bool) (y : String) :
    y ∈ itemNames (addDefinition k items it forward) ↔ (y ∈ itemNames items ∨ itemName it = some y) := by
  have h := addBase_names k items it y
  cases forward
  · simp only [addDefinition_eq, Bool.false_eq_true, if_false, itemNames_append, List.mem_append]
    have : y ∈ itemNames [it] ↔ itemName it = some y := by
      simp [itemNames]
    rw [this]
    grind
  · simp only [addDefinition_eq, if_true, mem_itemNames_cons]
    grind

theorem mergeBack_eval (H : Host) (K : Val → List Val → M Val) (k : DeclKind) (env : Env) :
    ∀ (src dst : List DE),
      evalItems H K (src.foldl (fun d it => addDefinition k d it false) dst) env
        = bindM (evalItems H K dst env) (fun _ => evalItems H K src env) := by
  intro src
  induction src with
  | nil =>
    intro dst
    simp only [List.foldl_nil, evalItems]
    exact (bind_retM _).symm
  | cons it t ih =>
    intro dst
    have h1 : it :: t = [it] ++ t := rfl
    rw [List.foldl_cons, ih, addDefinition_eval_back, bindM_assoc, h1, evalItems_append]

theorem mergeFwd_eval (H : Host) (K : Val → List Val → M Val) (k : DeclKind) (env : Env) :
    ∀ (l dst : List DE),
      evalItems H K (l.foldl (fun d it => addDefinition k d it true) dst) env
        = bindM (evalItems H K l.reverse env) (fun _ => evalItems H K dst env) := by
  intro l
  induction l with
  | nil => intro dst; simp [evalItems, retM_bind]
  | cons it t ih =>
    intro dst
    rw [List.foldl_cons, ih, addDefinition_eval_fwd, List.reverse_cons, evalItems_append, bindM_assoc]

theorem mergeFold_names (k : DeclKind) (forward : Bool) (y : String) :
    ∀ (l dst : List DE),
      y ∈ itemNames (l.foldl (fun d it => addDefinition k d it forward) dst)
        ↔ (y ∈ itemNames dst ∨ y ∈ itemNames l) := by
  intro l
  induction l with
  | nil => intro dst; simp [itemNames]
  | cons it t ih =>
    intro dst
    rw [List.foldl_cons, ih, addDefinition_names, mem_itemNames_cons]
    grind

/-- `mergeVarDecls`: the initialisers of both lists run in source order -/
theorem mergeVarDecls_eval (H : Host) (K : Val → List Val → M Val) (k : DeclKind) (dst src : List DE) (forward : Bool)
    (env : Env) :
    evalItems H K (mergeVarDecls k dst src forward) env
      = if forward then bindM (evalItems H K src env) (fun _ => evalItems H K dst env)
        else bindM (evalItems H K dst env) (fun _ => evalItems H K src env) := by
  cases forward
  · simp only [mergeVarDecls, Bool.false_eq_true, if_false, mergeBack_eval]
  · simp only [mergeVarDecls, if_true, mergeFwd_eval, List.reverse_reverse]

theorem itemNames_reverse (l : List DE) : itemNames l.reverse = (itemNames l).reverse := by
  simp [itemNames, List.filterMap_reverse]

/-- `mergeVarDecls`: the declared names are those of both lists -/
theorem mergeVarDecls_names (k : DeclKind) (dst src : List DE) (forward : Bool) (y : String) :
    y ∈ itemNames (mergeVarDecls k dst src forward) ↔ (y ∈ itemNames dst ∨ y ∈ itemNames src) := by
  cases forward
  · simp only [mergeVarDecls, Bool.false_eq_true, if_false, mergeFold_names]
  · simp only [mergeVarDecls, if_true, mergeFold_names, itemNames_reverse, List.mem_reverse]

/-! ## statements -/

theorem exec_declVar (H : Host) (K : Val → List Val → M Val) (items : List DE) (env : Env) :
    exec H K (.decl .var items) env = bindM (evalItems H K items env) (fun _ => retM .normal) := by
  simp [exec]

theorem exec_declHoisted (H : Host) (K : Val → List Val → M Val) (items : List DE) (env : Env) :
    exec H K (.decl .hoisted items) env = bindM (evalItems H K items env) (fun _ => retM .normal) := by
  simp [exec]

/-- what follows a statement in a list -/
def contL (H : Host) (K : Val → List Val → M Val) (t : List DS) (env : Env) : Compl → M Compl := fun c =>
  match c with
  | .normal => execL H K t env
  | .ret v => retM (.ret v)

theorem execL_cons (H : Host) (K : Val → List Val → M Val) (s : DS) (t : List DS) (env : Env) :
    execL H K (s :: t) env = bindM (exec H K s env) (contL H K t env) := by
  rw [execL]
  rfl

/-- a statement that runs `m` and completes normally, followed by `rest` -/
theorem seq_normal (m : M Unit) (k : Compl → M Compl) :
    bindM (bindM m (fun _ => retM Compl.normal)) k = bindM m (fun _ => k .normal) := by
  rw [bindM_assoc]
  rfl

theorem withLex_nil {α : Type} (env : Env) (m : Env → M α) : withLex [] env m = m env := rfl

theorem contains_eq_of_iff (l' l A : List String) (y : String) (h : y ∈ l' ↔ (y ∈ l ∨ y ∈ A)) :
    l'.contains y = (l.contains y || A.contains y) := by
  rw [Bool.eq_iff_iff]
  simp [h]

/-- a statement that runs `m` and completes normally, followed by `t` -/
theorem execL_unit (H : Host) (K : Val → List Val → M Val) (s : DS) (t : List DS) (env : Env) (m : M Unit)
    (h : exec H K s env = bindM m (fun _ => retM .normal)) :
    execL H K (s :: t) env = bindM m (fun _ => execL H K t env) := by
  rw [execL_cons, h, bindM_assoc]
  rfl

theorem exec_declLet (H : Host) (K : Val → List Val → M Val) (items : List DE) (env : Env) :
    exec H K (.decl .let_ items) env = bindM (initItems H K false items env) (fun _ => retM .normal) := by
  simp [exec]

theorem exec_declConst (H : Host) (K : Val → List Val → M Val) (items : List DE) (env : Env) :
    exec H K (.decl .const_ items) env = bindM (initItems H K true items env) (fun _ => retM .normal) := by
  simp [exec]

/-- what a declaration statement runs -/
def declM (H : Host) (K : Val → List Val → M Val) (k : DeclKind) (items : List DE) (env : Env) : M Unit :=
  match k with
  | .var => evalItems H K items env
  | .hoisted => evalItems H K items env
  | .let_ => initItems H K false items env
  | .const_ => initItems H K true items env

theorem exec_decl (H : Host) (K : Val → List Val → M Val) (k : DeclKind) (items : List DE) (env : Env) :
    exec H K (.decl k items) env = bindM (declM H K k items env) (fun _ => retM .normal) := by
  cases k <;> simp [exec, declM]

theorem declM_append (H : Host) (K : Val → List Val → M Val) (k : DeclKind) (l1 l2 : List DE) (env : Env) :
    declM H K k (l1 ++ l2) env = bindM (declM H K k l1 env) (fun _ => declM H K k l2 env) := by
  cases k <;> simp only [declM, evalItems_append, initItems_append]

theorem constNoInit_append (k : DeclKind) (l1 l2 : List DE) :
    constNoInit (.decl k (l1 ++ l2)) = (constNoInit (.decl k l1) || constNoInit (.decl k l2)) := by
  cases k <;> simp [constNoInit, List.any_append]

theorem earlyS_expr (e : DE) : earlyS (.expr e) = false := by simp [earlyS, constNoInit]

theorem earlyS_decl (k : DeclKind) (l : List DE) : earlyS (.decl k l) = constNoInit (.decl k l) := by
  simp [earlyS]

/-- **adjacent declarations of the same kind** `k l1; k l2` and `k l1,l2` can replace each other -/
theorem mergeAdjacent_eq (k : DeclKind) (l1 l2 : List DE) (rest : List DS) :
    ListEqA [] (.decl k l1 :: .decl k l2 :: rest) (.decl k (l1 ++ l2) :: rest) where
  dyn := by
    intro H K env
    rw [execL_unit H K _ _ env _ (exec_decl H K k l1 env), execL_unit H K _ _ env _ (exec_decl H K k (l1 ++ l2) env),
      declM_append, bindM_assoc]
    apply bindM_congr
    intro _
    rw [execL_unit H K _ _ env _ (exec_decl H K k l2 env)]
  lex := by cases k <;> simp [lexDeclsL, itemNames_append]
  vars := by
    intro x
    cases k <;> simp [varNamesL, varNamesS, itemNames_append]
  fns := by simp [fnDeclsL]
  early := by
    simp only [earlyItems, earlyS_decl, constNoInit_append, Bool.or_assoc]
  frag := by simp [fragL, fragS]
  anyFn := by simp [isFn]

/-! ## `var a;a=5` and `a=5;var b` -/

theorem exec_expr' (H : Host) (K : Val → List Val → M Val) (e : DE) (env : Env) :
    exec H K (.expr e) env = bindM (eval H K e env) (fun _ => retM .normal) := by
  simp only [exec]

theorem exec_expr (H : Host) (K : Val → List Val → M Val) (e : DE) (env : Env) :
    exec H K (.expr e) env = bindM (bindM (eval H K e env) (fun _ => retM ())) (fun _ => retM .normal) := by
  rw [exec_expr', bindM_assoc]
  rfl

theorem evalItems_single (H : Host) (K : Val → List Val → M Val) (x : String) (a : Ann) (e : DE) (env : Env) :
    evalItems H K [.assign x a e] env = bindM (eval H K (.assign x a e) env) (fun _ => retM ()) := by
  simp [evalItems]

theorem eval_hdecl (H : Host) (K : Val → List Val → M Val) (items : List DE) (env : Env) :
    eval H K (.hdecl items) env = bindM (evalItems H K items env) (fun _ => retM .undef) := rfl

theorem exec_hdecl (H : Host) (K : Val → List Val → M Val) (items : List DE) (env : Env) :
    exec H K (.expr (.hdecl items)) env = bindM (evalItems H K items env) (fun _ => retM .normal) := by
  rw [exec_expr', eval_hdecl, bindM_assoc]
  rfl

theorem mem_of_contains {l : List String} {x : String} : l.contains x = true ↔ x ∈ l := by simp

/-- the names declared by `var` in a list that starts with a `var` declaration -/
theorem varNamesL_declVar (items : List DE) (rest : List DS) :
    varNamesL (.decl .var items :: rest) = itemNames items ++ varNamesL rest := by
  simp [varNamesL, varNamesS]

theorem varNamesL_expr (e : DE) (rest : List DS) : varNamesL (.expr e :: rest) = varNamesL rest := by
  simp [varNamesL, varNamesS]

/-- **`var items; x = e`** and **`var items', x = e`** (`addDefinition`, `forward = false`): same execution; the
    `var` names gain `x` -/
theorem mergeAssignBack_eq (items : List DE) (x : String) (a : Ann) (e : DE) (rest : List DS) :
    ListEqA [x] (.decl .var items :: .expr (.assign x a e) :: rest)
      (.decl .var (addDefinition .var items (.assign x a e) false) :: rest) where
  dyn := by
    intro H K env
    simp only [execL_unit H K (.decl .var items) _ env _ (exec_declVar H K items env),
      execL_unit H K (.decl .var (addDefinition .var items (.assign x a e) false)) rest env _ (exec_declVar H K _ env),
      execL_unit H K (.expr (.assign x a e)) rest env _ (exec_expr H K _ env),
      addDefinition_eval_back, evalItems_single, bindM_assoc, retM_bind]
  lex := by simp [lexDeclsL]
  vars := by
    intro y
    rw [varNamesL_declVar, varNamesL_declVar, varNamesL_expr]
    apply contains_eq_of_iff
    simp only [List.mem_append, addDefinition_names, itemName, Option.some.injEq, List.mem_singleton]
    constructor
    · rintro ((h | h) | h)
      · exact Or.inl (Or.inl h)
      · exact Or.inr h.symm
      · exact Or.inl (Or.inr h)
    · rintro ((h | h) | h)
      · exact Or.inl (Or.inl h)
      · exact Or.inr h
      · exact Or.inl (Or.inr h.symm)
  fns := by simp [fnDeclsL]
  early := by simp [earlyItems, earlyS, constNoInit]
  frag := by simp [fragL, fragS]
  anyFn := by simp [isFn]

/-- **`x = e; var items`** and **`var x = e, items'`** (`addDefinition`, `forward = true`) -/
theorem mergeAssignFwd_eq (items : List DE) (x : String) (a : Ann) (e : DE) (rest : List DS) :
    ListEqA [x] (.expr (.assign x a e) :: .decl .var items :: rest)
      (.decl .var (addDefinition .var items (.assign x a e) true) :: rest) where
  dyn := by
    intro H K env
    simp only [execL_unit H K (.expr (.assign x a e)) _ env _ (exec_expr H K _ env),
      execL_unit H K (.decl .var (addDefinition .var items (.assign x a e) true)) rest env _ (exec_declVar H K _ env),
      execL_unit H K (.decl .var items) rest env _ (exec_declVar H K items env),
      addDefinition_eval_fwd, evalItems_single, bindM_assoc, retM_bind]
  lex := by simp [lexDeclsL]
  vars := by
    intro y
    rw [varNamesL_declVar, varNamesL_expr, varNamesL_declVar]
    apply contains_eq_of_iff
    simp only [List.mem_append, addDefinition_names, itemName, Option.some.injEq, List.mem_singleton]
    constructor
    · rintro ((h | h) | h)
      · exact Or.inl (Or.inl h)
      · exact Or.inr h.symm
      · exact Or.inl (Or.inr h)
    · rintro ((h | h) | h)
      · exact Or.inl (Or.inl h)
      · exact Or.inr h
      · exact Or.inl (Or.inr h.symm)
  fns := by simp [fnDeclsL]
  early := by simp [earlyItems, earlyS, constNoInit]
  frag := by simp [fragL, fragS]
  anyFn := by simp [isFn]

/-- **`var items; <hoisted declaration src>`** and **`var items ⊕ src`** (`mergeVarDecls`; the second statement is a
    `var` declaration that `hoistVars` turned into an expression) -/
theorem mergeHoistedBack_eq (items src : List DE) (rest : List DS) :
    ListEqA (itemNames src) (.decl .var items :: .expr (.hdecl src) :: rest)
      (.decl .var (mergeVarDecls .var items src false) :: rest) where
  dyn := by
    intro H K env
    simp only [execL_unit H K (.decl .var items) _ env _ (exec_declVar H K items env),
      execL_unit H K (.decl .var (mergeVarDecls .var items src false)) rest env _ (exec_declVar H K _ env),
      execL_unit H K (.expr (.hdecl src)) rest env _ (exec_hdecl H K _ env),
      mergeVarDecls_eval, Bool.false_eq_true, if_false, bindM_assoc]
  lex := by simp [lexDeclsL]
  vars := by
    intro y
    rw [varNamesL_declVar, varNamesL_declVar, varNamesL_expr]
    apply contains_eq_of_iff
    simp only [List.mem_append, mergeVarDecls_names]
    constructor
    · rintro ((h | h) | h)
      · exact Or.inl (Or.inl h)
      · exact Or.inr h
      · exact Or.inl (Or.inr h)
    · rintro ((h | h) | h)
      · exact Or.inl (Or.inl h)
      · exact Or.inr h
      · exact Or.inl (Or.inr h)
  fns := by simp [fnDeclsL]
  early := by simp [earlyItems, earlyS, constNoInit]
  frag := by simp [fragL, fragS]
  anyFn := by simp [isFn]

theorem mergeHoistedFwd_eq (items src : List DE) (rest : List DS) :
    ListEqA (itemNames src) (.expr (.hdecl src) :: .decl .var items :: rest)
      (.decl .var (mergeVarDecls .var items src true) :: rest) where
  dyn := by
    intro H K env
    simp only [execL_unit H K (.expr (.hdecl src)) _ env _ (exec_hdecl H K _ env),
      execL_unit H K (.decl .var (mergeVarDecls .var items src true)) rest env _ (exec_declVar H K _ env),
      execL_unit H K (.decl .var items) rest env _ (exec_declVar H K items env),
      mergeVarDecls_eval, if_true, bindM_assoc]
  lex := by simp [lexDeclsL]
  vars := by
    intro y
    rw [varNamesL_declVar, varNamesL_expr, varNamesL_declVar]
    apply contains_eq_of_iff
    simp only [List.mem_append, mergeVarDecls_names]
    constructor
    · rintro ((h | h) | h)
      · exact Or.inl (Or.inl h)
      · exact Or.inr h
      · exact Or.inl (Or.inr h)
    · rintro ((h | h) | h)
      · exact Or.inl (Or.inl h)
      · exact Or.inr h
      · exact Or.inl (Or.inr h)
  fns := by simp [fnDeclsL]
  early := by simp [earlyItems, earlyS, constNoInit]
  frag := by simp [fragL, fragS]
  anyFn := by simp [isFn]

/-! ## merging into the head of a `for` -/

/-- the loop of a `for` after its head has run -/
def forRest (H : Host) (K : Val → List Val → M Val) (c p : Option DE) (b : List DS) (env : Env) : M Compl :=
  loopN (optCond H K c env) (withLex (lexDeclsL b) env (fun env'' => execL H K b env'')) (optPost H K p env) loopFuel

theorem exec_for_nolex (H : Host) (K : Val → List Val → M Val) (w : Bool) (i : DS) (c p : Option DE) (b : List DS)
    (env : Env) (h : lexDeclsS i = []) :
    exec H K (.forS w i c p b) env = bindM (exec H K i env) (fun _ => forRest H K c p b env) := by
  rw [exec, h]
  rfl

theorem exec_empty (H : Host) (K : Val → List Val → M Val) (env : Env) : exec H K .empty env = retM .normal := by
  simp only [exec]

/-- a `for` whose head runs `m` (no lexical declarations), followed by `rest` -/
theorem execL_for (H : Host) (K : Val → List Val → M Val) (w : Bool) (i : DS) (c p : Option DE) (b rest : List DS)
    (env : Env) (m : M Unit) (hl : lexDeclsS i = []) (hi : exec H K i env = bindM m (fun _ => retM .normal)) :
    execL H K (.forS w i c p b :: rest) env
      = bindM m (fun _ => bindM (forRest H K c p b env) (contL H K rest env)) := by
  rw [execL_cons, exec_for_nolex H K w i c p b env hl, hi]
  simp only [bindM_assoc, retM_bind]

theorem earlyS_for_nolex (w : Bool) (i : DS) (c p : Option DE) (b : List DS) (hl : lexDeclsS i = [])
    (hc : constNoInit i = false) : earlyS (.forS w i c p b) = earlyScope [] b := by
  simp [earlyS_for, hl, hc, hasDup, meets]

theorem varNamesL_for (w : Bool) (i : DS) (c p : Option DE) (b rest : List DS) :
    varNamesL (.forS w i c p b :: rest) = forInitNames i ++ varNamesL b ++ varNamesL rest := by
  simp [varNamesL, varNamesS]

theorem evalItems_noDefines (H : Host) (K : Val → List Val → M Val) (l : List DE) (env : Env)
    (h : hasDefines l = false) : evalItems H K l env = retM () := by
  induction l with
  | nil => simp [evalItems]
  | cons i t ih =>
    simp only [hasDefines, List.any_cons, Bool.or_eq_false_iff] at h
    have ht : hasDefines t = false := h.2
    cases i <;> first | (simp at h; done) | simp [evalItems, ih ht]

/-- **`var items; for(;c;p)`** and **`for(var items;c;p)`** -/
theorem forInitDeclEmpty_eq (items : List DE) (w : Bool) (c p : Option DE) (b rest : List DS) :
    ListEqA [] (.decl .var items :: .forS w .empty c p b :: rest) (.forS w (.decl .var items) c p b :: rest) where
  dyn := by
    intro H K env
    have he : exec H K .empty env = bindM (retM ()) (fun _ => retM .normal) := by rw [exec_empty]; rfl
    simp only [execL_unit H K (.decl .var items) _ env _ (exec_declVar H K items env),
      execL_for H K w .empty c p b rest env _ rfl he,
      execL_for H K w (.decl .var items) c p b rest env _ rfl (exec_declVar H K items env), retM_bind]
  lex := by simp [lexDeclsL]
  vars := by
    intro x
    rw [varNamesL_declVar, varNamesL_for, varNamesL_for]
    simp [forInitNames]
  fns := by simp [fnDeclsL]
  early := by
    simp only [earlyItems, earlyS_decl, constNoInit, Bool.false_or,
      earlyS_for_nolex w .empty c p b rfl rfl, earlyS_for_nolex w (.decl .var items) c p b rfl rfl]
  frag := by simp [fragL, fragS]
  anyFn := by simp [isFn]

/-- **`e; for(;c;p)`** and **`for(e;c;p)`** -/
theorem forInitExprEmpty_eq (e : DE) (w : Bool) (c p : Option DE) (b rest : List DS) :
    ListEqA [] (.expr e :: .forS w .empty c p b :: rest) (.forS w (.expr e) c p b :: rest) where
  dyn := by
    intro H K env
    have he : exec H K .empty env = bindM (retM ()) (fun _ => retM .normal) := by rw [exec_empty]; rfl
    simp only [execL_unit H K (.expr e) _ env _ (exec_expr H K e env),
      execL_for H K w .empty c p b rest env _ rfl he,
      execL_for H K w (.expr e) c p b rest env _ rfl (exec_expr H K e env), retM_bind]
  lex := by simp [lexDeclsL]
  vars := by
    intro x
    rw [varNamesL_expr, varNamesL_for, varNamesL_for]
    simp [forInitNames]
  fns := by simp [fnDeclsL]
  early := by
    simp only [earlyItems, earlyS_expr, constNoInit, Bool.false_or,
      earlyS_for_nolex w .empty c p b rfl rfl, earlyS_for_nolex w (.expr e) c p b rfl rfl]
  frag := by simp [fragL, fragS]
  anyFn := by simp [isFn]

/-- **`var items; for(var items2;c;p)`** and **`for(var items ⊕ items2;c;p)`** (`mergeVarDecls(left, decl, false)`);
    the head may be a hoisted declaration (`for(a=1;…)`), whose names then become `var` names of this declaration -/
theorem forInitMerge_eq (items items2 : List DE) (k2 : DeclKind) (hk : k2 = .var ∨ k2 = .hoisted) (w : Bool)
    (c p : Option DE) (b rest : List DS) :
    ListEqA (itemNames items2) (.decl .var items :: .forS w (.decl k2 items2) c p b :: rest)
      (.forS w (.decl .var (mergeVarDecls .var items items2 false)) c p b :: rest) where
  dyn := by
    intro H K env
    have h2 : exec H K (.decl k2 items2) env = bindM (evalItems H K items2 env) (fun _ => retM .normal) := by
      rcases hk with hk | hk <;> subst hk
      · exact exec_declVar H K items2 env
      · exact exec_declHoisted H K items2 env
    have hl : lexDeclsS (.decl k2 items2) = [] := by rcases hk with hk | hk <;> subst hk <;> rfl
    simp only [execL_unit H K (.decl .var items) _ env _ (exec_declVar H K items env),
      execL_for H K w (.decl k2 items2) c p b rest env _ hl h2,
      execL_for H K w (.decl .var (mergeVarDecls .var items items2 false)) c p b rest env _ rfl (exec_declVar H K _ env),
      mergeVarDecls_eval, Bool.false_eq_true, if_false, bindM_assoc]
  lex := by rcases hk with hk | hk <;> subst hk <;> simp [lexDeclsL]
  vars := by
    intro x
    rw [varNamesL_declVar, varNamesL_for, varNamesL_for]
    apply contains_eq_of_iff
    rcases hk with hk | hk <;> subst hk <;>
      simp only [forInitNames, List.mem_append, mergeVarDecls_names, List.not_mem_nil, false_or] <;> grind
  fns := by simp [fnDeclsL]
  early := by
    have hl : lexDeclsS (.decl k2 items2) = [] := by rcases hk with hk | hk <;> subst hk <;> rfl
    have hc : constNoInit (.decl k2 items2) = false := by rcases hk with hk | hk <;> subst hk <;> rfl
    simp only [earlyItems, earlyS_decl, constNoInit, Bool.false_or,
      earlyS_for_nolex w (.decl k2 items2) c p b hl hc, earlyS_for_nolex w (.decl .var _) c p b rfl rfl]
  frag := by simp [fragL, fragS]
  anyFn := by simp [isFn]

/-- **`var items; for(<hoisted head without initialisers>;c;p)`** and **`for(var items;c;p)`** -/
theorem forInitReplace_eq (items items2 : List DE) (h2 : hasDefines items2 = false) (w : Bool)
    (c p : Option DE) (b rest : List DS) :
    ListEqA [] (.decl .var items :: .forS w (.decl .hoisted items2) c p b :: rest)
      (.forS w (.decl .var items) c p b :: rest) where
  dyn := by
    intro H K env
    simp only [execL_unit H K (.decl .var items) _ env _ (exec_declVar H K items env),
      execL_for H K w (.decl .hoisted items2) c p b rest env _ rfl (exec_declHoisted H K items2 env),
      execL_for H K w (.decl .var items) c p b rest env _ rfl (exec_declVar H K items env),
      evalItems_noDefines H K items2 env h2, retM_bind]
  lex := by simp [lexDeclsL]
  vars := by
    intro x
    rw [varNamesL_declVar, varNamesL_for, varNamesL_for]
    simp [forInitNames]
  fns := by simp [fnDeclsL]
  early := by
    simp only [earlyItems, earlyS_decl, constNoInit, Bool.false_or,
      earlyS_for_nolex w (.decl .hoisted items2) c p b rfl rfl, earlyS_for_nolex w (.decl .var items) c p b rfl rfl]
  frag := by simp [fragL, fragS]
  anyFn := by simp [isFn]

/-- **`x = e; for(var items;c;p)`** and **`for(var x = e, items';c;p)`** (`mergeVarDeclExprStmt(decl, left, true)`) -/
theorem forInitAssign_eq (items : List DE) (x : String) (a : Ann) (e : DE) (w : Bool) (c p : Option DE)
    (b rest : List DS) :
    ListEqA [x] (.expr (.assign x a e) :: .forS w (.decl .var items) c p b :: rest)
      (.forS w (.decl .var (addDefinition .var items (.assign x a e) true)) c p b :: rest) where
  dyn := by
    intro H K env
    simp only [execL_unit H K (.expr (.assign x a e)) _ env _ (exec_expr H K _ env),
      execL_for H K w (.decl .var items) c p b rest env _ rfl (exec_declVar H K items env),
      execL_for H K w (.decl .var (addDefinition .var items (.assign x a e) true)) c p b rest env _ rfl
        (exec_declVar H K _ env),
      addDefinition_eval_fwd, evalItems_single, bindM_assoc, retM_bind]
  lex := by simp [lexDeclsL]
  vars := by
    intro y
    rw [varNamesL_expr, varNamesL_for, varNamesL_for]
    apply contains_eq_of_iff
    simp only [forInitNames, List.mem_append, addDefinition_names, itemName, Option.some.injEq, List.mem_singleton]
    grind
  fns := by simp [fnDeclsL]
  early := by
    simp only [earlyItems, earlyS_expr, constNoInit, Bool.false_or,
      earlyS_for_nolex w (.decl .var items) c p b rfl rfl, earlyS_for_nolex w (.decl .var _) c p b rfl rfl]
  frag := by simp [fragL, fragS]
  anyFn := by simp [isFn]

/-- the same when the head is a hoisted declaration (`for(i=0;…)`): it stays an expression, no name is declared -/
theorem forInitAssignHoisted_eq (items : List DE) (x : String) (a : Ann) (e : DE) (w : Bool) (c p : Option DE)
    (b rest : List DS) :
    ListEqA [] (.expr (.assign x a e) :: .forS w (.decl .hoisted items) c p b :: rest)
      (.forS w (.decl .hoisted (addDefinition .hoisted items (.assign x a e) true)) c p b :: rest) where
  dyn := by
    intro H K env
    simp only [execL_unit H K (.expr (.assign x a e)) _ env _ (exec_expr H K _ env),
      execL_for H K w (.decl .hoisted items) c p b rest env _ rfl (exec_declHoisted H K items env),
      execL_for H K w (.decl .hoisted (addDefinition .hoisted items (.assign x a e) true)) c p b rest env _ rfl
        (exec_declHoisted H K _ env),
      addDefinition_eval_fwd, evalItems_single, bindM_assoc, retM_bind]
  lex := by simp [lexDeclsL]
  vars := by
    intro y
    rw [varNamesL_expr, varNamesL_for, varNamesL_for]
    simp [forInitNames]
  fns := by simp [fnDeclsL]
  early := by
    simp only [earlyItems, earlyS_expr, constNoInit, Bool.false_or,
      earlyS_for_nolex w (.decl .hoisted items) c p b rfl rfl, earlyS_for_nolex w (.decl .hoisted _) c p b rfl rfl]
  frag := by simp [fragL, fragS]
  anyFn := by simp [isFn]

end Verif.Proofs.JsDecl

import Verif.Proofs.C09JsSep
import Verif.Proofs.JsSemLemmas
/-!
# C09 (JS) — the tokens of every derivation tree of the expression grammar are safe for the writer

For every tree `t` of the grammar `Spec.JsGrammar` (`gwfA`) with plain names and strings, the terminal string
`yield t` consists of valid tokens, contains no adjacent pair that the writer cannot keep apart (`adjChain`), and the
goal tracker of the independent lexer is in operator position at every `/` (`goalsOk`) — by structural induction, with
"the first token starts an operand, the last one ends an operand" as invariant.
-/
namespace Verif.Proofs.C09JsTree
open Verif.Spec.C09JsLex Verif.Spec.JsSyntax Verif.Spec.JsGrammar Verif.Model.JsPrint Verif.Proofs.C09JsSep
open Verif.Proofs.C09JsScan

set_option maxRecDepth 100000

/-! ## running the goal tracker over writer tokens -/

def run (σ : St) (nl : Bool) : List Tok → St
  | [] => σ
  | t :: ts => run (step σ (lexTok nl t)) false ts

theorem run_append (σ : St) (nl : Bool) (xs ys : List Tok) (h : xs ≠ []) :
    run σ nl (xs ++ ys) = run (run σ nl xs) false ys := by
  induction xs generalizing σ nl with
  | nil => exact absurd rfl h
  | cons a t ih =>
    cases t with
    | nil => simp [run]
    | cons b t' => simp only [List.cons_append, run]; exact ih _ _ (by simp)

theorem goalsOk_cons (σ : St) (nl : Bool) (t : Tok) (ts : List Tok) :
    goalsOk σ nl (t :: ts) = (((txt t).head? != some '/' || σ.exprEnd) && (txt t != ['}'] || !tmplClose σ)
      && goalsOk (step σ (lexTok nl t)) false ts) := rfl

theorem run_cons (σ : St) (nl : Bool) (t : Tok) (ts : List Tok) :
    run σ nl (t :: ts) = run (step σ (lexTok nl t)) false ts := rfl

theorem goalsOk_append (σ : St) (nl : Bool) (xs ys : List Tok) (h : xs ≠ []) :
    goalsOk σ nl (xs ++ ys) = (goalsOk σ nl xs && goalsOk (run σ nl xs) false ys) := by
  induction xs generalizing σ nl with
  | nil => exact absurd rfl h
  | cons a t ih =>
    cases t with
    | nil => simp [goalsOk, run]
    | cons b t' =>
      rw [List.cons_append, goalsOk_cons, ih _ _ (by simp), goalsOk_cons σ nl a (b :: t'), run_cons σ nl a]
      simp only [Bool.and_assoc]

theorem adjChain_append (xs ys : List Tok) (a b : Tok) (hx : xs.getLast? = some a) (hy : ys.head? = some b) :
    adjChain (xs ++ ys) = (adjChain xs && adjOk a b && adjChain ys) := by
  induction xs with
  | nil => simp at hx
  | cons x t ih =>
    cases t with
    | nil =>
      simp at hx; subst hx
      cases ys with
      | nil => simp at hy
      | cons y ys' => simp at hy; subst hy; simp [adjChain]
    | cons x2 t' =>
      have hx' : (x2 :: t').getLast? = some a := by simpa [List.getLast?_cons_cons] using hx
      simp only [List.cons_append, adjChain]
      rw [show x2 :: (t' ++ ys) = (x2 :: t') ++ ys from rfl, ih hx']
      simp only [Bool.and_assoc]

/-! ## token classes -/

/-- tokens that can start an operand -/
def isS : Tok → Bool
  | .ident _ => true
  | .num _ _ => true
  | .str _ => true
  | .kw k => ["true", "false", "null", "typeof", "void", "delete"].contains k
  | .p s => ["!", "~", "+", "-", "++", "--", "("].contains s

/-- tokens that can end an operand -/
def isE : Tok → Bool
  | .ident _ => true
  | .num _ bd => !bd
  | .str _ => true
  | .kw k => ["true", "false", "null"].contains k
  | .p s => [")", "]", "++", "--"].contains s

/-- punctuators after which an operand starts: binary and assignment operators, prefix operators, `(`, `[`, `,`,
    `?`, `:` -/
def leaders : List String :=
  ["=", "*=", "/=", "%=", "**=", "+=", "-=", "<<=", ">>=", ">>>=", "&=", "^=", "|=", "&&=", "||=", "??=",
   "**", "*", "/", "%", "+", "-", "<<", ">>", ">>>", "<", "<=", ">", ">=", "==", "!=", "===", "!==",
   "&", "^", "|", "&&", "||", "??", "!", "~", "++", "--", "(", "[", ",", "?", ":"]

/-- punctuators that can follow an operand -/
def followers : List String :=
  ["=", "*=", "/=", "%=", "**=", "+=", "-=", "<<=", ">>=", ">>>=", "&=", "^=", "|=", "&&=", "||=", "??=",
   "**", "*", "/", "%", "+", "-", "<<", ">>", ">>>", "<", "<=", ">", ">=", "==", "!=", "===", "!==",
   "&", "^", "|", "&&", "||", "??", "++", "--", "(", ")", "[", "]", ",", "?", ":", ";", "}", "?."]

theorem leaders_frag : ∀ s ∈ leaders, s.toList ∈ fragPuncts := by decide
theorem followers_frag : ∀ s ∈ followers, s.toList ∈ fragPuncts := by decide

theorem leaders_sPunct : ∀ a ∈ leaders, ∀ b ∈ ["!", "~", "+", "-", "++", "--", "("], adjOk (.p a) (.p b) = true := by
  decide

/-- the characters that extend a punctuator are punctuator characters -/
theorem ext_no_word (p : List Char) (c : Char) (h : c ∈ ext p) : isIdPart c = false ∧ c ≠ '"' := by
  obtain ⟨q, hq, hc⟩ := ext_sub p c h
  have : ∀ q ∈ puncts, ∀ c ∈ q, isIdPart c = false ∧ c ≠ '"' := by decide
  exact this q hq c hc

theorem leaders_props : ∀ s ∈ leaders, s ≠ "/" ∨ True := by intro _ _; right; trivial

/-- the first character of an operand-starting token that is not a punctuator: an identifier byte or `"` -/
theorem first_word (b : Tok) (hb : tokOk b = true) (hS : isS b = true) (hp : ∀ s, b ≠ .p s) :
    ∃ c, firstC b = some c ∧ (isIdPart c = true ∨ c = '"') := by
  cases b with
  | ident s =>
    simp only [tokOk, identOk, Bool.and_eq_true] at hb
    cases hs : s.toList with
    | nil => rw [hs] at hb; simp [nameOk] at hb
    | cons d r =>
      rw [hs] at hb
      have := hb.1.1.1; simp [nameOk] at this
      exact ⟨d, by simp [firstC, txt, tokText, hs], Or.inl (isIdPart_of_start d this.1)⟩
  | kw s =>
    simp only [tokOk, List.contains_iff_mem] at hb
    have h1 : ∀ k ∈ fragKw, ∃ c, k.toList.head? = some c ∧ isIdPart c = true := by decide
    obtain ⟨c, hc1, hc2⟩ := h1 s hb
    exact ⟨c, by simpa [firstC, txt, tokText] using hc1, Or.inl hc2⟩
  | num n bd =>
    rcases num_shape n bd with ⟨ds, hw, hd, hne, _⟩ | ⟨ds, hw, hd, hne, _⟩ | ⟨m, z, hw, hm, hmne, _, _, _⟩
    · cases ds with
      | nil => exact absurd rfl hne
      | cons d r => exact ⟨d, by simp [firstC, hw], Or.inl (isIdPart_digit d (hd d (by simp)))⟩
    · cases ds with
      | nil => exact absurd rfl hne
      | cons d r => exact ⟨d, by simp [firstC, hw], Or.inl (isIdPart_digit d (hd d (by simp)))⟩
    · cases m with
      | nil => exact absurd rfl hmne
      | cons d r => exact ⟨d, by simp [firstC, hw], Or.inl (isIdPart_digit d (hm d (by simp)))⟩
  | str s => exact ⟨'"', by simp [firstC, txt, tokText, String.toList_append], Or.inr rfl⟩
  | p s => exact absurd rfl (hp s)

/-- after a leader punctuator any operand start is fine -/
theorem adj_leader_S (a : String) (ha : a ∈ leaders) (b : Tok) (hb : tokOk b = true) (hS : isS b = true) :
    adjOk (.p a) b = true := by
  by_cases hp : ∃ s, b = .p s
  · obtain ⟨s, rfl⟩ := hp
    simp only [isS, List.contains_iff_mem] at hS
    exact leaders_sPunct a ha s hS
  · have hp' : ∀ s, b ≠ .p s := fun s e => hp ⟨s, e⟩
    obtain ⟨c, hc, hcc⟩ := first_word b hb hS hp'
    have hne : c ∉ ext a.toList := by
      intro hin
      have := ext_no_word _ c hin
      rcases hcc with h | h
      · rw [this.1] at h; exact absurd h (by simp)
      · exact this.2 h
    have hstar : c ≠ '*' := by
      rcases hcc with h | h
      · intro e; subst e; exact absurd h (by decide)
      · subst h; decide
    have hdot : a.toList ≠ ['.'] ∧ a.toList ≠ ['?', '.'] := by
      have : ∀ s ∈ leaders, s.toList ≠ ['.'] ∧ s.toList ≠ ['?', '.'] := by decide
      exact this a ha
    simp only [adjOk, hc, plainInt, Bool.and_eq_true, Bool.or_eq_true, Bool.not_eq_true', bne_iff_ne, ne_eq]
    refine ⟨⟨⟨Or.inl (by simpa using hne), Or.inr hstar⟩, Or.inl hdot⟩, Or.inl trivial⟩


theorem startsIdPart_punct (s : String) (h : s.toList ∈ fragPuncts) : startsIdPart (.p s) = false := by
  have := fragPuncts_noId _ h
  simp only [startsIdPart, firstC, txt, tokText]
  cases hs : s.toList with
  | nil => rfl
  | cons c r => rw [hs] at this; simpa [punctNoId] using this

theorem closers_followers : ∀ a ∈ [")", "]", "++", "--"], ∀ b ∈ followers, adjOk (.p a) (.p b) = true := by decide

theorem followers_noDot : ∀ s ∈ followers, s.toList.head? ≠ some '.' := by decide

/-- after an operand end any follower punctuator is fine -/
theorem adj_E_follower (a : Tok) (hE : isE a = true) (s : String) (hs : s ∈ followers) :
    adjOk a (.p s) = true := by
  have hfr := followers_frag s hs
  have hsp := startsIdPart_punct s hfr
  have hnd : firstC (.p s) ≠ some '.' := by simpa [firstC, txt, tokText] using followers_noDot s hs
  cases a with
  | ident n => simp [adjOk, hsp, plainInt]
  | kw k => simp [adjOk, hsp, plainInt]
  | num n bd => simp [adjOk, hsp, hnd]
  | str n => simp [adjOk, plainInt]
  | p q =>
    simp only [isE, List.contains_iff_mem] at hE
    exact closers_followers q hE s hs

theorem ident_lastIdent (s : String) (h : identOk s = true) : lastIdent (.ident s) = true := by
  simp only [identOk, Bool.and_eq_true] at h
  have hn := h.1.1.1
  simp only [lastIdent, txt, tokText]
  cases hl : s.toList.getLast? with
  | none =>
    have : s.toList = [] := by simpa using hl
    rw [this] at hn; simp [nameOk] at hn
  | some c =>
    have hmem : c ∈ s.toList := List.mem_of_getLast? hl
    cases hs : s.toList with
    | nil => rw [hs] at hmem; simp at hmem
    | cons d r =>
      rw [hs] at hn hmem
      simp only [nameOk, Bool.and_eq_true, List.all_eq_true] at hn
      have := hn.2 c hmem
      simp at this
      exact isIdentChar_of_idPart c this.1 this.2

theorem getLast?_append_ne {α : Type} (a b : List α) (hb : b ≠ []) : (a ++ b).getLast? = b.getLast? := by
  cases hl : b.getLast? with
  | none => simp at hl; exact absurd hl hb
  | some c => simp [List.getLast?_append, hl]

theorem lastDigit (l : List Char) (h : ∀ c ∈ l, c.isDigit = true) (hne : l ≠ []) :
    ∃ c, l.getLast? = some c ∧ c.isDigit = true := by
  cases hl : l.getLast? with
  | none => simp at hl; exact absurd hl hne
  | some c => exact ⟨c, rfl, h c (List.mem_of_getLast? hl)⟩

theorem num_lastIdent (n : Nat) : lastIdent (.num n false) = true := by
  have htx : txt (.num n false) = (numText n).toList := by simp [txt, tokText]
  have : ∃ c, (numText n).toList.getLast? = some c ∧ c.isDigit = true := by
    rw [numText_toList]
    split
    · rw [getLast?_append_ne _ _ (by simp), show ('e' :: Nat.toDigits 10 (trailingZeros 64 n)) =
          ['e'] ++ Nat.toDigits 10 (trailingZeros 64 n) from rfl, getLast?_append_ne _ _ Nat.toDigits_ne_nil]
      exact lastDigit _ (toDigits_allDigit _) Nat.toDigits_ne_nil
    · exact lastDigit _ (toDigits_allDigit _) Nat.toDigits_ne_nil
  obtain ⟨c, hc, hd⟩ := this
  simp only [lastIdent, htx, hc]
  exact isIdentChar_digit c hd

theorem kwlit_inof : ∀ k ∈ ["true", "false", "null"], ∀ b ∈ ["in", "instanceof"], adjOk (.kw k) (.kw b) = true := by
  decide
theorem closers_inof : ∀ a ∈ [")", "]", "++", "--"], ∀ b ∈ ["in", "instanceof"], adjOk (.p a) (.kw b) = true := by
  decide

/-- after an operand end, `in` / `instanceof` is fine (the writer puts a space behind an identifier byte) -/
theorem adj_E_inof (a : Tok) (ha : tokOk a = true) (hE : isE a = true) (b : String) (hb : b ∈ ["in", "instanceof"]) :
    adjOk a (.kw b) = true := by
  have hio : isInOf (.kw b) = true := by
    simp only [List.mem_cons, List.not_mem_nil, or_false] at hb
    rcases hb with rfl | rfl <;> rfl
  have hfc : firstC (.kw b) ≠ some '.' := by
    simp only [List.mem_cons, List.not_mem_nil, or_false] at hb
    rcases hb with rfl | rfl <;> decide
  cases a with
  | ident n =>
    simp only [tokOk] at ha
    simp [adjOk, hio, ident_lastIdent n ha, plainInt]
  | kw k =>
    simp only [isE, List.contains_iff_mem] at hE
    exact kwlit_inof k hE b hb
  | num n bd =>
    have hbd : bd = false := by simpa [isE] using hE
    subst hbd
    simp [adjOk, hio, num_lastIdent n, hfc]
  | str n => simp [adjOk, plainInt]
  | p q =>
    simp only [isE, List.contains_iff_mem] at hE
    exact closers_inof q hE b hb

/-- keyword operators (`typeof`, `void`, `delete`, `in`, `instanceof`) are followed by a space if needed -/
theorem adj_kwop (k : String) (hk : k ∈ ["typeof", "void", "delete", "in", "instanceof"]) (b : Tok) :
    adjOk (.kw k) b = true := by
  have : kwNeedsSpace k = true := by
    have : ∀ k ∈ ["typeof", "void", "delete", "in", "instanceof"], kwNeedsSpace k = true := by decide
    exact this k hk
  simp [adjOk, this, plainInt]

theorem adj_numdot (n : Nat) : adjOk (.num n true) (.p ".") = true := by
  have : startsIdPart (.p ".") = false := by decide
  simp [adjOk, this, plainInt]

theorem adj_dot_ident (s : String) (h : identOk s = true) : adjOk (.p ".") (.ident s) = true := by
  simp only [identOk, Bool.and_eq_true] at h
  have hn := h.1.1.1
  cases hs : s.toList with
  | nil => rw [hs] at hn; simp [nameOk] at hn
  | cons c r =>
    rw [hs] at hn
    have hc : isIdStart c = true := by simp [nameOk] at hn; exact hn.1
    have hfc : firstC (.ident s) = some c := by simp [firstC, txt, tokText, hs]
    have hne : c ∉ ext ".".toList := by
      intro hin
      have := (ext_no_word _ c hin).1
      rw [isIdPart_of_start c hc] at this; exact absurd this (by simp)
    have hnd : c.isDigit = false := by
      cases hd : c.isDigit with
      | false => rfl
      | true => rw [isIdStart_digit c hd] at hc; exact absurd hc (by simp)
    simp only [adjOk, hfc, plainInt, Bool.and_eq_true, Bool.or_eq_true, Bool.not_eq_true', bne_iff_ne, ne_eq]
    refine ⟨⟨⟨Or.inl (by simpa using hne), Or.inl (by decide)⟩, Or.inr hnd⟩, Or.inl trivial⟩

theorem closers_dot : ∀ a ∈ [")", "]", "++", "--"], adjOk (.p a) (.p ".") = true := by decide

/-- an operand end that is not a bare decimal integer may be followed by a member dot -/
theorem adj_E_dot (a : Tok) (hE : isE a = true) (hnp : plainInt a = false) : adjOk a (.p ".") = true := by
  have hsp : startsIdPart (.p ".") = false := by decide
  cases a with
  | ident n => simp [adjOk, hsp, plainInt]
  | kw k => simp [adjOk, hsp, plainInt]
  | num n bd => simp [adjOk, hsp, hnp]
  | str n => simp [adjOk, plainInt]
  | p q =>
    simp only [isE, List.contains_iff_mem] at hE
    exact closers_dot q hE


/-! ## the goal tracker on the tokens of the fragment -/

/-- operand position: the tracker expects an operand, no control keyword / `.` / `function` head is pending -/
def P0 (σ : St) : Prop := σ.exprEnd = false ∧ σ.ctlKw = false ∧ σ.afterDot = false ∧ σ.fnHead = none

theorem P0_operandPos (σ : St) (h : σ.fnHead = none) : P0 (operandPos σ) := ⟨rfl, rfl, rfl, h⟩

theorem step_name (σ : St) (nl : Bool) (t : Tok) (s : String) (h : txt t = s.toList) (hk : kind t = .name) :
    step σ (lexTok nl t) = stepName σ s := by
  simp [step, lexTok, hk, h]

theorem stepName_ident (σ : St) (s : String) (h : identOk s = true) : stepName σ s = operandEnd σ := by
  simp only [identOk, Bool.and_eq_true, Bool.not_eq_true'] at h
  obtain ⟨⟨_, hr⟩, hx⟩ := h
  have hr' : ∀ k ∈ reserved, s ≠ k := by
    intro k hk e; subst e
    have : reserved.contains s = true := by simpa using hk
    rw [this] at hr; exact absurd hr (by simp)
  have hx' : s ≠ "yield" ∧ s ≠ "await" ∧ s ≠ "of" ∧ s ≠ "async" := by simpa using hx
  have h1 := hr' "this" (by decide); have h2 := hr' "super" (by decide); have h3 := hr' "null" (by decide)
  have h4 := hr' "true" (by decide); have h5 := hr' "false" (by decide); have h6 := hr' "if" (by decide)
  have h7 := hr' "while" (by decide); have h8 := hr' "for" (by decide); have h9 := hr' "with" (by decide)
  have h10 := hr' "switch" (by decide); have h11 := hr' "catch" (by decide); have h12 := hr' "else" (by decide)
  have h13 := hr' "do" (by decide); have h14 := hr' "try" (by decide); have h15 := hr' "finally" (by decide)
  have h16 := hr' "default" (by decide); have h17 := hr' "export" (by decide); have h18 := hr' "function" (by decide)
  have h19 := hr' "class" (by decide)
  unfold stepName
  by_cases hd : σ.afterDot = true
  · simp [hd]
  · have hnr : s ∉ reserved := fun hm => hr' s hm rfl
    simp [hd, h1, h2, h3, h4, h5, h6, h7, h8, h9, h10, h11, h12, h13, h14, h15, h16, h17, h18, h19, hnr, hx'.1, hx'.2.1,
      hx'.2.2.1, hx'.2.2.2]

theorem stepName_lit (σ : St) (k : String) (hk : k ∈ ["true", "false", "null"]) : stepName σ k = operandEnd σ := by
  simp only [List.mem_cons, List.not_mem_nil, or_false] at hk
  by_cases hd : σ.afterDot = true
  · rcases hk with rfl | rfl | rfl <;> simp [stepName, hd]
  · rcases hk with rfl | rfl | rfl <;> simp [stepName, hd]

theorem stepName_op (σ : St) (k : String) (hk : k ∈ ["typeof", "void", "delete", "in", "instanceof"])
    (hd : σ.afterDot = false) : stepName σ k = operandPos σ := by
  simp only [List.mem_cons, List.not_mem_nil, or_false] at hk
  rcases hk with rfl | rfl | rfl | rfl | rfl <;> simp [stepName, hd, reserved]

theorem step_punct (σ : St) (nl : Bool) (s : String) : step σ (lexTok nl (.p s)) = stepPunct σ s nl := by
  simp [step, lexTok, kind, txt, tokText]

/-- punctuators the tracker treats like any operator: after them an operand is expected -/
def plainOps : List String :=
  ["=", "*=", "/=", "%=", "**=", "+=", "-=", "<<=", ">>=", ">>>=", "&=", "^=", "|=", "&&=", "||=", "??=",
   "**", "*", "/", "%", "+", "-", "<<", ">>", ">>>", "<", "<=", ">", ">=", "==", "!=", "===", "!==",
   "&", "^", "|", "&&", "||", "??", "!", "~", ","]

theorem stepPunct_plain (σ : St) (nl : Bool) (s : String) (hs : s ∈ plainOps) : stepPunct σ s nl = operandPos σ := by
  have : ∀ q ∈ plainOps, q ≠ "(" ∧ q ≠ ")" ∧ q ≠ "[" ∧ q ≠ "]" ∧ q ≠ "{" ∧ q ≠ "}" ∧ q ≠ ";" ∧ q ≠ "++" ∧ q ≠ "--"
      ∧ q ≠ "=>" ∧ q ≠ "?" ∧ q ≠ ":" ∧ q ≠ "." ∧ q ≠ "?." := by decide
  obtain ⟨h1, h2, h3, h4, h5, h6, h7, h8, h9, h10, h11, h12, h13, h14⟩ := this s hs
  simp [stepPunct, h1, h2, h3, h4, h5, h6, h7, h8, h9, h10, h11, h12, h13, h14]

theorem step_num (σ : St) (nl : Bool) (n : Nat) (bd : Bool) : step σ (lexTok nl (.num n bd)) = operandEnd σ := by
  simp [step, lexTok, kind]

theorem step_str (σ : St) (nl : Bool) (s : String) : step σ (lexTok nl (.str s)) = operandEnd σ := by
  simp [step, lexTok, kind]


/-! ## pieces of a token stream: composable facts -/

/-- the goal condition for one token in tracker state `σ` -/
def gcond (σ : St) (t : Tok) : Bool :=
  ((txt t).head? != some '/' || σ.exprEnd) && (txt t != ['}'] || !tmplClose σ)

/-- `ts` is a non-empty run of valid tokens without an unsafe adjacency; started in a tracker state satisfying `pre`
    (and not on a fresh line when the state is in operator position) all goal conditions hold along `ts` and the
    tracker ends in `post σ` -/
structure Piece (ts : List Tok) (pre : St → Prop) (post : St → St) : Prop where
  ne : ts ≠ []
  ok : ∀ t ∈ ts, tokOk t = true
  adj : adjChain ts = true
  goal : ∀ σ nl, pre σ → (nl = true → σ.exprEnd = false) → goalsOk σ nl ts = true ∧ run σ nl ts = post σ

theorem Piece.single (t : Tok) (hok : tokOk t = true) (pre : St → Prop) (post : St → St)
    (h : ∀ σ nl, pre σ → (nl = true → σ.exprEnd = false) → gcond σ t = true ∧ step σ (lexTok nl t) = post σ) :
    Piece [t] pre post where
  ne := by simp
  ok := by intro x hx; simp at hx; subst hx; exact hok
  adj := rfl
  goal := by
    intro σ nl hp hn
    obtain ⟨h1, h2⟩ := h σ nl hp hn
    simp only [gcond] at h1
    simp [goalsOk, run, h1, h2]

theorem Piece.append {xs ys : List Tok} {pre1 pre2 : St → Prop} {post1 post2 : St → St}
    (hx : Piece xs pre1 post1) (hy : Piece ys pre2 post2) (hpre : ∀ σ, pre1 σ → pre2 (post1 σ))
    (a b : Tok) (ha : xs.getLast? = some a) (hb : ys.head? = some b) (hab : adjOk a b = true) :
    Piece (xs ++ ys) pre1 (fun σ => post2 (post1 σ)) where
  ne := by simp [hx.ne]
  ok := by
    intro t ht
    simp only [List.mem_append] at ht
    rcases ht with ht | ht
    · exact hx.ok t ht
    · exact hy.ok t ht
  adj := by rw [adjChain_append xs ys a b ha hb, hx.adj, hab, hy.adj]; rfl
  goal := by
    intro σ nl hp hn
    obtain ⟨g1, r1⟩ := hx.goal σ nl hp hn
    obtain ⟨g2, r2⟩ := hy.goal (post1 σ) false (hpre σ hp) (by intro h; exact absurd h (by simp))
    rw [goalsOk_append σ nl xs ys hx.ne, run_append σ nl xs ys hx.ne, g1, r1, g2, r2]
    exact ⟨rfl, rfl⟩

theorem Piece.conv {ts : List Tok} {pre pre' : St → Prop} {post post' : St → St} (h : Piece ts pre post)
    (hpre : ∀ σ, pre' σ → pre σ) (hpost : ∀ σ, pre' σ → post σ = post' σ) : Piece ts pre' post' where
  ne := h.ne
  ok := h.ok
  adj := h.adj
  goal := by
    intro σ nl hp hn
    obtain ⟨g, r⟩ := h.goal σ nl (hpre σ hp) hn
    exact ⟨g, by rw [r, hpost σ hp]⟩

/-- operator position: the previous token ended an operand -/
def PE (σ : St) : Prop := σ.exprEnd = true ∧ σ.ctlKw = false ∧ σ.afterDot = false ∧ σ.fnHead = none

theorem PE_operandEnd (σ : St) (h : σ.fnHead = none) : PE (operandEnd σ) := ⟨rfl, rfl, rfl, h⟩

/-- an expression: a piece from operand position to "operand ended", starting and ending with the right tokens -/
structure Seg (ts : List Tok) : Prop where
  piece : Piece ts P0 operandEnd
  first : ∃ t, ts.head? = some t ∧ isS t = true
  last : ∃ t, ts.getLast? = some t ∧ isE t = true

theorem gcond_plain (σ : St) (t : Tok) (h1 : (txt t).head? ≠ some '/') (h2 : txt t ≠ ['}']) : gcond σ t = true := by
  simp [gcond, h1, h2]

theorem gcond_PE (σ : St) (t : Tok) (h : σ.exprEnd = true) (h2 : txt t ≠ ['}']) : gcond σ t = true := by
  simp [gcond, h, h2]


/-! ## single tokens as pieces -/

theorem plainOps_frag : ∀ s ∈ plainOps, tokOk (.p s) = true ∧ s.toList ≠ ['}'] := by decide

theorem prefixOps_noSlash : ∀ s ∈ ["!", "~", "+", "-", "++", "--"], tokOk (.p s) = true ∧ s.toList.head? ≠ some '/' ∧
    s.toList ≠ ['}'] := by decide

/-- an operand made of one token -/
theorem piece_atom (t : Tok) (hok : tokOk t = true) (hstep : ∀ σ nl, step σ (lexTok nl t) = operandEnd σ)
    (h1 : (txt t).head? ≠ some '/') (h2 : txt t ≠ ['}']) : Piece [t] (fun _ => True) operandEnd :=
  Piece.single t hok _ _ (fun σ nl _ _ => ⟨gcond_plain σ t h1 h2, hstep σ nl⟩)

/-- a binary / assignment operator or a comma -/
theorem piece_binop (s : String) (hs : s ∈ plainOps) : Piece [.p s] PE operandPos :=
  Piece.single _ (plainOps_frag s hs).1 _ _ (fun σ nl hp _ =>
    ⟨gcond_PE σ _ hp.1 (by simpa [txt, tokText] using (plainOps_frag s hs).2),
     by rw [step_punct, stepPunct_plain σ nl s hs]⟩)

/-- a prefix operator spelled as a punctuator -/
theorem piece_prefix (s : String) (hs : s ∈ ["!", "~", "+", "-", "++", "--"]) : Piece [.p s] P0 operandPos :=
  Piece.single _ (prefixOps_noSlash s hs).1 _ _ (fun σ nl hp _ => by
    refine ⟨gcond_plain σ _ (by simpa [txt, tokText] using (prefixOps_noSlash s hs).2.1)
      (by simpa [txt, tokText] using (prefixOps_noSlash s hs).2.2), ?_⟩
    rw [step_punct]
    simp only [List.mem_cons, List.not_mem_nil, or_false] at hs
    rcases hs with rfl | rfl | rfl | rfl | rfl | rfl
    · exact stepPunct_plain σ nl _ (by decide)
    · exact stepPunct_plain σ nl _ (by decide)
    · exact stepPunct_plain σ nl _ (by decide)
    · exact stepPunct_plain σ nl _ (by decide)
    · simp [stepPunct, hp.1]
    · simp [stepPunct, hp.1])

/-- a postfix update operator -/
theorem piece_postfix (s : String) (hs : s ∈ ["++", "--"]) : Piece [.p s] PE operandEnd :=
  Piece.single _ (by simp only [List.mem_cons, List.not_mem_nil, or_false] at hs; rcases hs with rfl | rfl <;> decide)
    _ _ (fun σ nl hp hn => by
    have hnl : nl = false := by
      cases nl with
      | false => rfl
      | true => have := hn rfl; rw [hp.1] at this; exact absurd this (by simp)
    subst hnl
    simp only [List.mem_cons, List.not_mem_nil, or_false] at hs
    rcases hs with rfl | rfl
    · exact ⟨gcond_PE σ _ hp.1 (by decide), by rw [step_punct]; simp [stepPunct, hp.1]⟩
    · exact ⟨gcond_PE σ _ hp.1 (by decide), by rw [step_punct]; simp [stepPunct, hp.1]⟩)

theorem kw_txt (k : String) : txt (.kw k) = k.toList := rfl

/-- a keyword operator in prefix position: `typeof`, `void`, `delete` -/
theorem piece_kwprefix (k : String) (hk : k ∈ ["typeof", "void", "delete"]) : Piece [.kw k] P0 operandPos :=
  Piece.single _ (by simp only [List.mem_cons, List.not_mem_nil, or_false] at hk; rcases hk with rfl | rfl | rfl <;> decide)
    _ _ (fun σ nl hp _ => by
    have hk' : k ∈ ["typeof", "void", "delete", "in", "instanceof"] := by
      simp only [List.mem_cons, List.not_mem_nil, or_false] at hk ⊢
      rcases hk with rfl | rfl | rfl <;> simp
    refine ⟨?_, by rw [step_name σ nl (.kw k) k rfl rfl, stepName_op σ k hk' hp.2.2.1]⟩
    simp only [List.mem_cons, List.not_mem_nil, or_false] at hk
    rcases hk with rfl | rfl | rfl <;> exact gcond_plain σ _ (by decide) (by decide))

/-- `in` / `instanceof` -/
theorem piece_kwbin (k : String) (hk : k ∈ ["in", "instanceof"]) : Piece [.kw k] PE operandPos :=
  Piece.single _ (by simp only [List.mem_cons, List.not_mem_nil, or_false] at hk; rcases hk with rfl | rfl <;> decide)
    _ _ (fun σ nl hp _ => by
    have hk' : k ∈ ["typeof", "void", "delete", "in", "instanceof"] := by
      simp only [List.mem_cons, List.not_mem_nil, or_false] at hk ⊢
      rcases hk with rfl | rfl <;> simp
    refine ⟨?_, by rw [step_name σ nl (.kw k) k rfl rfl, stepName_op σ k hk' hp.2.2.1]⟩
    simp only [List.mem_cons, List.not_mem_nil, or_false] at hk
    rcases hk with rfl | rfl <;> exact gcond_plain σ _ (by decide) (by decide))

/-- `?` of a conditional expression -/
theorem piece_quest : Piece [.p "?"] PE (fun σ => { operandPos σ with tern := σ.tern + 1 }) :=
  Piece.single _ (by decide) _ _ (fun σ nl hp _ =>
    ⟨gcond_PE σ _ hp.1 (by decide), by rw [step_punct]; simp [stepPunct]⟩)

/-- `:` of a conditional expression -/
theorem piece_colon : Piece [.p ":"] (fun σ => PE σ ∧ 0 < σ.tern) (fun σ => { operandPos σ with tern := σ.tern - 1 }) :=
  Piece.single _ (by decide) _ _ (fun σ nl hp _ =>
    ⟨gcond_PE σ _ hp.1.1 (by decide), by rw [step_punct]; simp [stepPunct, hp.2]⟩)

/-- the state inside a parenthesis that is neither a control head nor a parameter list -/
def openParen (σ : St) : St := { operandPos (push σ (.paren false none)) with fnHead := none }

theorem piece_lparen : Piece [.p "("] (fun σ => σ.ctlKw = false ∧ σ.fnHead = none) openParen :=
  Piece.single _ (by decide) _ _ (fun σ nl hp _ =>
    ⟨gcond_plain σ _ (by decide) (by decide), by rw [step_punct]; simp [stepPunct, openParen, hp.1, hp.2]⟩)

theorem piece_rparen : Piece [.p ")"] (fun σ => topFrame σ = some (.paren false none)) (fun σ => operandEnd (pop σ)) :=
  Piece.single _ (by decide) _ _ (fun σ nl hp _ =>
    ⟨gcond_plain σ _ (by decide) (by decide), by rw [step_punct]; simp [stepPunct, hp]⟩)

theorem piece_lbrack : Piece [.p "["] (fun _ => True) (fun σ => operandPos (push σ .brack)) :=
  Piece.single _ (by decide) _ _ (fun σ nl _ _ =>
    ⟨gcond_plain σ _ (by decide) (by decide), by rw [step_punct]; simp [stepPunct]⟩)

theorem piece_rbrack : Piece [.p "]"] (fun _ => True) (fun σ => operandEnd (pop σ)) :=
  Piece.single _ (by decide) _ _ (fun σ nl _ _ =>
    ⟨gcond_plain σ _ (by decide) (by decide), by rw [step_punct]; simp [stepPunct]⟩)

theorem piece_dot : Piece [.p "."] (fun _ => True) (fun σ => { operandPos σ with afterDot := true }) :=
  Piece.single _ (by decide) _ _ (fun σ nl _ _ =>
    ⟨gcond_plain σ _ (by decide) (by decide), by rw [step_punct]; simp [stepPunct]⟩)

/-- `?.` of an optional chain: like the member dot, the next name is a property name -/
theorem piece_qdot : Piece [.p "?."] (fun _ => True) (fun σ => { operandPos σ with afterDot := true }) :=
  Piece.single _ (by decide) _ _ (fun σ nl _ _ =>
    ⟨gcond_plain σ _ (by decide) (by decide), by rw [step_punct]; simp [stepPunct]⟩)

theorem adj_qdot_ident (s : String) (h : identOk s = true) : adjOk (.p "?.") (.ident s) = true := by
  simp only [identOk, Bool.and_eq_true] at h
  have hn := h.1.1.1
  cases hs : s.toList with
  | nil => rw [hs] at hn; simp [nameOk] at hn
  | cons c r =>
    rw [hs] at hn
    have hc : isIdStart c = true := by simp [nameOk] at hn; exact hn.1
    have hfc : firstC (.ident s) = some c := by simp [firstC, txt, tokText, hs]
    have hne : c ∉ ext "?.".toList := by
      intro hin
      have := (ext_no_word _ c hin).1
      rw [isIdPart_of_start c hc] at this; exact absurd this (by simp)
    have hnd : c.isDigit = false := by
      cases hd : c.isDigit with
      | false => rfl
      | true => rw [isIdStart_digit c hd] at hc; exact absurd hc (by simp)
    simp only [adjOk, hfc, plainInt, Bool.and_eq_true, Bool.or_eq_true, Bool.not_eq_true', bne_iff_ne, ne_eq]
    refine ⟨⟨⟨Or.inl (by simpa using hne), Or.inl (by decide)⟩, Or.inr hnd⟩, Or.inl trivial⟩

/-- **the `?.` hazard**: `?.` directly before a digit is not the punctuator `?.` (`a?.5:1` is `a ? .5 : 1`); the
    writer contract `adjOk` excludes every numeric token behind `?.` -/
theorem adj_qdot_num (n : Nat) (bd : Bool) : adjOk (.p "?.") (.num n bd) = false := by
  have hd : ∃ c, firstC (.num n bd) = some c ∧ c.isDigit = true := by
    rcases num_shape n bd with ⟨ds, hw, hd, hne, _⟩ | ⟨ds, hw, hd, hne, _⟩ | ⟨m, z, hw, hm, hmne, _, _, _⟩
    · cases ds with
      | nil => exact absurd rfl hne
      | cons c r => exact ⟨c, by simp [firstC, hw], hd c (by simp)⟩
    · cases ds with
      | nil => exact absurd rfl hne
      | cons c r => exact ⟨c, by simp [firstC, hw], hd c (by simp)⟩
    · cases m with
      | nil => exact absurd rfl hmne
      | cons c r => exact ⟨c, by simp [firstC, hw], hm c (by simp)⟩
  obtain ⟨c, hc, hcd⟩ := hd
  simp [adjOk, hc, hcd]

/-! ## expressions -/

theorem head?_append_ne {α : Type} (a b : List α) (ha : a ≠ []) : (a ++ b).head? = a.head? := by
  cases a with
  | nil => exact absurd rfl ha
  | cons x t => rfl

theorem P0_fn {σ : St} (h : P0 σ) : σ.fnHead = none := h.2.2.2

theorem last_snoc {α : Type} (l : List α) (a : α) : (l ++ [a]).getLast? = some a :=
  getLast?_append_ne l [a] (by simp)

theorem PE_of_seg {σ : St} (h : P0 σ) : PE (operandEnd σ) := PE_operandEnd σ (P0_fn h)

/-- an operand consisting of a single token -/
theorem seg_atom (t : Tok) (hok : tokOk t = true) (hS : isS t = true) (hE : isE t = true)
    (hstep : ∀ σ nl, step σ (lexTok nl t) = operandEnd σ)
    (h1 : (txt t).head? ≠ some '/') (h2 : txt t ≠ ['}']) : Seg [t] where
  piece := (piece_atom t hok hstep h1 h2).conv (fun _ _ => trivial) (fun _ _ => rfl)
  first := ⟨t, rfl, hS⟩
  last := ⟨t, rfl, hE⟩

/-- `op x` for a prefix operator token `op` -/
theorem seg_prefix (op : Tok) (xs : List Tok) (hx : Seg xs) (hop : Piece [op] P0 operandPos) (hS : isS op = true)
    (hadj : ∀ b, tokOk b = true → isS b = true → adjOk op b = true) : Seg (op :: xs) := by
  obtain ⟨b, hb, hbS⟩ := hx.first
  have hbok : tokOk b = true := hx.piece.ok b (List.mem_of_mem_head? hb)
  have := Piece.append hop hx.piece (fun σ h => P0_operandPos σ (P0_fn h)) op b rfl hb (hadj b hbok hbS)
  refine ⟨this.conv (fun _ h => h) (fun _ _ => rfl), ⟨op, rfl, hS⟩, ?_⟩
  obtain ⟨e, he, heE⟩ := hx.last
  exact ⟨e, by rw [show op :: xs = [op] ++ xs from rfl, getLast?_append_ne _ _ hx.piece.ne]; exact he, heE⟩

/-- `x op` for a postfix operator token, `x op y` for an infix token: the general join -/
theorem seg_postfix (xs : List Tok) (s : String) (hs : s ∈ ["++", "--"]) (hx : Seg xs) : Seg (xs ++ [.p s]) := by
  obtain ⟨a, ha, haE⟩ := hx.last
  have hfol : s ∈ followers := by
    simp only [List.mem_cons, List.not_mem_nil, or_false] at hs; rcases hs with rfl | rfl <;> decide
  have := Piece.append hx.piece (piece_postfix s hs) (fun σ h => PE_of_seg h) a (.p s) ha rfl
    (adj_E_follower a haE s hfol)
  refine ⟨this.conv (fun _ h => h) (fun _ _ => rfl), ?_, ⟨.p s, last_snoc _ _, ?_⟩⟩
  · obtain ⟨b, hb, hbS⟩ := hx.first
    exact ⟨b, by rw [head?_append_ne _ _ hx.piece.ne]; exact hb, hbS⟩
  · simp only [List.mem_cons, List.not_mem_nil, or_false] at hs; rcases hs with rfl | rfl <;> rfl

theorem seg_infix (xs ys : List Tok) (op : Tok) (hx : Seg xs) (hy : Seg ys) (hop : Piece [op] PE operandPos)
    (hadj1 : ∀ a, tokOk a = true → isE a = true → adjOk a op = true)
    (hadj2 : ∀ b, tokOk b = true → isS b = true → adjOk op b = true) : Seg (xs ++ [op] ++ ys) := by
  obtain ⟨a, ha, haE⟩ := hx.last
  obtain ⟨b, hb, hbS⟩ := hy.first
  have haok : tokOk a = true := hx.piece.ok a (List.mem_of_getLast? ha)
  have hbok : tokOk b = true := hy.piece.ok b (List.mem_of_mem_head? hb)
  have p1 := Piece.append hx.piece hop (fun σ h => PE_of_seg h) a op ha rfl (hadj1 a haok haE)
  have p2 := Piece.append p1 hy.piece (fun σ h => by have hfn : σ.fnHead = none := h.2.2.2; exact ⟨rfl, rfl, rfl, hfn⟩) op b (by simp) hb
    (hadj2 b hbok hbS)
  refine ⟨p2.conv (fun _ h => h) (fun _ _ => rfl), ?_, ?_⟩
  · obtain ⟨f, hf, hfS⟩ := hx.first
    exact ⟨f, by rw [List.append_assoc, head?_append_ne _ _ hx.piece.ne]; exact hf, hfS⟩
  · obtain ⟨e, he, heE⟩ := hy.last
    exact ⟨e, by rw [getLast?_append_ne _ _ hy.piece.ne]; exact he, heE⟩

theorem ternary_state (σ : St) :
    operandEnd { operandPos (operandEnd { operandPos (operandEnd σ) with tern := (operandEnd σ).tern + 1 }) with
      tern := (operandEnd { operandPos (operandEnd σ) with tern := (operandEnd σ).tern + 1 }).tern - 1 }
      = operandEnd σ := by
  simp [operandEnd, operandPos]

/-- `c ? x : y` -/
theorem seg_cond (cs xs ys : List Tok) (hc : Seg cs) (hx : Seg xs) (hy : Seg ys) :
    Seg (cs ++ [.p "?"] ++ xs ++ [.p ":"] ++ ys) := by
  obtain ⟨a1, ha1, ha1E⟩ := hc.last
  obtain ⟨b1, hb1, hb1S⟩ := hx.first
  obtain ⟨a2, ha2, ha2E⟩ := hx.last
  obtain ⟨b2, hb2, hb2S⟩ := hy.first
  have hb1ok : tokOk b1 = true := hx.piece.ok b1 (List.mem_of_mem_head? hb1)
  have hb2ok : tokOk b2 = true := hy.piece.ok b2 (List.mem_of_mem_head? hb2)
  have p1 := Piece.append hc.piece piece_quest (fun σ h => PE_of_seg h) a1 (.p "?") ha1 rfl
    (adj_E_follower a1 ha1E "?" (by decide))
  have p2 := Piece.append p1 hx.piece (fun σ h => by have hfn : σ.fnHead = none := h.2.2.2; exact ⟨rfl, rfl, rfl, hfn⟩) (.p "?") b1 (by simp) hb1
    (adj_leader_S "?" (by decide) b1 hb1ok hb1S)
  have p3 := Piece.append p2 piece_colon
    (fun σ h => by
      have hfn : σ.fnHead = none := h.2.2.2
      exact ⟨⟨rfl, rfl, rfl, hfn⟩, by show 0 < (operandEnd σ).tern + 1; omega⟩) a2 (.p ":")
    (by rw [getLast?_append_ne _ _ hx.piece.ne]; exact ha2) rfl (adj_E_follower a2 ha2E ":" (by decide))
  have p4 := Piece.append p3 hy.piece (fun σ h => by have hfn : σ.fnHead = none := h.2.2.2; exact ⟨rfl, rfl, rfl, hfn⟩) (.p ":") b2 (last_snoc _ _) hb2
    (adj_leader_S ":" (by decide) b2 hb2ok hb2S)
  refine ⟨p4.conv (fun _ h => h) (fun σ _ => ternary_state σ), ?_, ?_⟩
  · obtain ⟨f, hf, hfS⟩ := hc.first
    exact ⟨f, by simp only [List.append_assoc]; rw [head?_append_ne _ _ hc.piece.ne]; exact hf, hfS⟩
  · obtain ⟨e, he, heE⟩ := hy.last
    exact ⟨e, by rw [getLast?_append_ne _ _ hy.piece.ne]; exact he, heE⟩

theorem paren_state (σ : St) (h : σ.fnHead = none) : operandEnd (pop (operandEnd (openParen σ))) = operandEnd σ := by
  cases σ
  simp_all [operandEnd, pop, openParen, operandPos, push]

theorem paren_state0 (σ : St) (h : σ.fnHead = none) : operandEnd (pop (openParen σ)) = operandEnd σ := by
  cases σ
  simp_all [operandEnd, pop, openParen, operandPos, push]

theorem brack_state (σ : St) : operandEnd (pop (operandEnd (operandPos (push σ .brack)))) = operandEnd σ := by
  cases σ
  simp [operandEnd, pop, operandPos, push]

/-- `( x )` -/
theorem seg_group (xs : List Tok) (hx : Seg xs) : Seg ([.p "("] ++ xs ++ [.p ")"]) := by
  obtain ⟨b, hb, hbS⟩ := hx.first
  obtain ⟨a, ha, haE⟩ := hx.last
  have hbok : tokOk b = true := hx.piece.ok b (List.mem_of_mem_head? hb)
  have p0 : Piece [.p "("] P0 openParen := piece_lparen.conv (fun σ h => ⟨h.2.1, h.2.2.2⟩) (fun _ _ => rfl)
  have p1 := Piece.append p0 hx.piece (fun σ h => ⟨rfl, rfl, rfl, rfl⟩) (.p "(") b rfl hb
    (adj_leader_S "(" (by decide) b hbok hbS)
  have p2 := Piece.append p1 piece_rparen (fun σ h => rfl) a (.p ")")
    (by rw [getLast?_append_ne _ _ hx.piece.ne]; exact ha) rfl (adj_E_follower a haE ")" (by decide))
  exact ⟨p2.conv (fun _ h => h) (fun σ h => paren_state σ (P0_fn h)), ⟨.p "(", rfl, rfl⟩,
    ⟨.p ")", last_snoc _ _, rfl⟩⟩

/-- `f ( args )` with a non-empty argument list -/
theorem seg_call (fs as : List Tok) (hf : Seg fs) (ha : Seg as) : Seg (fs ++ [.p "("] ++ as ++ [.p ")"]) := by
  obtain ⟨a1, ha1, ha1E⟩ := hf.last
  obtain ⟨b, hb, hbS⟩ := ha.first
  obtain ⟨a2, ha2, ha2E⟩ := ha.last
  have hbok : tokOk b = true := ha.piece.ok b (List.mem_of_mem_head? hb)
  have p1 := Piece.append hf.piece piece_lparen (fun σ h => by have hfn : σ.fnHead = none := h.2.2.2; exact ⟨rfl, hfn⟩) a1 (.p "(") ha1 rfl
    (adj_E_follower a1 ha1E "(" (by decide))
  have p2 := Piece.append p1 ha.piece (fun σ h => ⟨rfl, rfl, rfl, rfl⟩) (.p "(") b (by simp) hb
    (adj_leader_S "(" (by decide) b hbok hbS)
  have p3 := Piece.append p2 piece_rparen (fun σ h => rfl) a2 (.p ")")
    (by rw [getLast?_append_ne _ _ ha.piece.ne]; exact ha2) rfl (adj_E_follower a2 ha2E ")" (by decide))
  refine ⟨p3.conv (fun _ h => h) (fun σ h => ?_), ?_, ⟨.p ")", last_snoc _ _, rfl⟩⟩
  · show operandEnd (pop (operandEnd (openParen (operandEnd σ)))) = operandEnd σ
    rw [paren_state (operandEnd σ) (by exact (P0_fn h : σ.fnHead = none))]; rfl
  · obtain ⟨f, hff, hfS⟩ := hf.first
    exact ⟨f, by simp only [List.append_assoc]; rw [head?_append_ne _ _ hf.piece.ne]; exact hff, hfS⟩

/-- `f ( )` -/
theorem seg_call0 (fs : List Tok) (hf : Seg fs) : Seg (fs ++ [.p "("] ++ [.p ")"]) := by
  obtain ⟨a1, ha1, ha1E⟩ := hf.last
  have p1 := Piece.append hf.piece piece_lparen (fun σ h => by have hfn : σ.fnHead = none := h.2.2.2; exact ⟨rfl, hfn⟩) a1 (.p "(") ha1 rfl
    (adj_E_follower a1 ha1E "(" (by decide))
  have p2 := Piece.append p1 piece_rparen (fun σ h => rfl) (.p "(") (.p ")") (by simp) rfl (by decide)
  refine ⟨p2.conv (fun _ h => h) (fun σ h => ?_), ?_, ⟨.p ")", last_snoc _ _, rfl⟩⟩
  · show operandEnd (pop (openParen (operandEnd σ))) = operandEnd σ
    rw [paren_state0 (operandEnd σ) (by exact (P0_fn h : σ.fnHead = none))]; rfl
  · obtain ⟨f, hff, hfS⟩ := hf.first
    exact ⟨f, by simp only [List.append_assoc]; rw [head?_append_ne _ _ hf.piece.ne]; exact hff, hfS⟩

/-- `x [ y ]` -/
theorem seg_index (xs ys : List Tok) (hx : Seg xs) (hy : Seg ys) : Seg (xs ++ [.p "["] ++ ys ++ [.p "]"]) := by
  obtain ⟨a1, ha1, ha1E⟩ := hx.last
  obtain ⟨b, hb, hbS⟩ := hy.first
  obtain ⟨a2, ha2, ha2E⟩ := hy.last
  have hbok : tokOk b = true := hy.piece.ok b (List.mem_of_mem_head? hb)
  have p1 := Piece.append hx.piece piece_lbrack (fun σ h => trivial) a1 (.p "[") ha1 rfl
    (adj_E_follower a1 ha1E "[" (by decide))
  have p2 := Piece.append p1 hy.piece (fun σ h => by have hfn : σ.fnHead = none := h.2.2.2; exact ⟨rfl, rfl, rfl, hfn⟩) (.p "[") b (by simp) hb
    (adj_leader_S "[" (by decide) b hbok hbS)
  have p3 := Piece.append p2 piece_rbrack (fun σ h => trivial) a2 (.p "]")
    (by rw [getLast?_append_ne _ _ hy.piece.ne]; exact ha2) rfl (adj_E_follower a2 ha2E "]" (by decide))
  refine ⟨p3.conv (fun _ h => h) (fun σ h => ?_), ?_, ⟨.p "]", last_snoc _ _, rfl⟩⟩
  · show operandEnd (pop (operandEnd (operandPos (push (operandEnd σ) .brack)))) = operandEnd σ
    rw [brack_state]; rfl
  · obtain ⟨f, hff, hfS⟩ := hx.first
    exact ⟨f, by simp only [List.append_assoc]; rw [head?_append_ne _ _ hx.piece.ne]; exact hff, hfS⟩


theorem ident_facts (n : String) (h : identOk n = true) :
    tokOk (.ident n) = true ∧ (txt (.ident n)).head? ≠ some '/' ∧ txt (.ident n) ≠ ['}'] ∧
      ∀ σ nl, step σ (lexTok nl (.ident n)) = operandEnd σ := by
  refine ⟨h, ?_, ?_, fun σ nl => by rw [step_name σ nl (.ident n) n rfl rfl, stepName_ident σ n h]⟩
  · simp only [identOk, Bool.and_eq_true] at h
    have hn := h.1.1.1
    simp only [txt, tokText]
    cases hs : n.toList with
    | nil => simp
    | cons c r =>
      rw [hs] at hn
      have : isIdStart c = true := by simp [nameOk] at hn; exact hn.1
      simp only [List.head?_cons, ne_eq, Option.some.injEq]
      intro e; subst e; exact absurd this (by decide)
  · simp only [identOk, Bool.and_eq_true] at h
    have hn := h.1.1.1
    simp only [txt, tokText]
    intro e
    rw [e] at hn
    exact absurd hn (by decide)

/-- `x . name` where `x` does not end in a bare decimal integer -/
theorem seg_dot (xs : List Tok) (n : String) (hx : Seg xs) (hnp : ∃ a, xs.getLast? = some a ∧ plainInt a = false)
    (hn : identOk n = true) : Seg (xs ++ [.p ".", .ident n]) := by
  obtain ⟨a, ha, hap⟩ := hnp
  have haE : isE a = true := by
    obtain ⟨a', ha', h'⟩ := hx.last
    rw [ha] at ha'; injection ha' with e; subst e; exact h'
  obtain ⟨hok, h1, h2, hstep⟩ := ident_facts n hn
  have pid := piece_atom (.ident n) hok hstep h1 h2
  have p1 := Piece.append hx.piece piece_dot (fun σ h => trivial) a (.p ".") ha rfl (adj_E_dot a haE hap)
  have p2 := Piece.append p1 pid (fun σ h => trivial) (.p ".") (.ident n) (last_snoc _ _) rfl (adj_dot_ident n hn)
  have e : xs ++ [.p ".", .ident n] = xs ++ [.p "."] ++ [.ident n] := by simp
  rw [e]
  refine ⟨p2.conv (fun _ h => h) (fun σ h => rfl), ?_, ⟨.ident n, last_snoc _ _, rfl⟩⟩
  obtain ⟨f, hf, hfS⟩ := hx.first
  exact ⟨f, by simp only [List.append_assoc]; rw [head?_append_ne _ _ hx.piece.ne]; exact hf, hfS⟩

theorem num_facts (k : Nat) (bd : Bool) :
    (txt (.num k bd)).head? ≠ some '/' ∧ txt (.num k bd) ≠ ['}'] := by
  have hd : ∃ c r, txt (.num k bd) = c :: r ∧ c.isDigit = true := by
    rcases num_shape k bd with ⟨ds, hw, hd, hne, _⟩ | ⟨ds, hw, hd, hne, _⟩ | ⟨m, z, hw, hm, hmne, _, _, _⟩
    · cases ds with
      | nil => exact absurd rfl hne
      | cons c r => exact ⟨c, r, hw, hd c (by simp)⟩
    · cases ds with
      | nil => exact absurd rfl hne
      | cons c r => exact ⟨c, r ++ ['.'], hw, hd c (by simp)⟩
    · cases m with
      | nil => exact absurd rfl hmne
      | cons c r => exact ⟨c, r ++ 'e' :: z, hw, hm c (by simp)⟩
  obtain ⟨c, r, hw, hc⟩ := hd
  rw [hw]
  refine ⟨?_, ?_⟩
  · simp only [List.head?_cons, ne_eq, Option.some.injEq]; intro e; subst e; exact absurd hc (by decide)
  · intro e; injection e with e1 _; subst e1; exact absurd hc (by decide)

/-- `5..name`: a decimal integer literal, the dot that ends it, the member dot, the name -/
theorem seg_numdot (k : Nat) (n : String) (hn : identOk n = true) : Seg [.num k true, .p ".", .ident n] := by
  obtain ⟨hok, h1, h2, hstep⟩ := ident_facts n hn
  have pid := piece_atom (.ident n) hok hstep h1 h2
  have pn := piece_atom (.num k true) rfl (fun σ nl => step_num σ nl k true) (num_facts k true).1 (num_facts k true).2
  have p1 := Piece.append pn piece_dot (fun σ h => trivial) (.num k true) (.p ".") rfl rfl (adj_numdot k)
  have p2 := Piece.append p1 pid (fun σ h => trivial) (.p ".") (.ident n) rfl rfl (adj_dot_ident n hn)
  exact ⟨p2.conv (fun _ _ => trivial) (fun σ h => rfl), ⟨.num k true, rfl, rfl⟩, ⟨.ident n, rfl, rfl⟩⟩

/-! ### optional links: `x ?. name`, `x ?. ( args )`, `x ?. [ y ]` -/

/-- the tracker state behind `?.` written after an operand -/
def qd (σ : St) : St := { operandPos (operandEnd σ) with afterDot := true }

theorem qparen_state (σ : St) (h : σ.fnHead = none) : operandEnd (pop (operandEnd (openParen (qd σ)))) = operandEnd σ := by
  cases σ
  simp_all [operandEnd, pop, openParen, operandPos, push, qd]

theorem qparen_state0 (σ : St) (h : σ.fnHead = none) : operandEnd (pop (openParen (qd σ))) = operandEnd σ := by
  cases σ
  simp_all [operandEnd, pop, openParen, operandPos, push, qd]

theorem qbrack_state (σ : St) : operandEnd (pop (operandEnd (operandPos (push (qd σ) .brack)))) = operandEnd σ := by
  cases σ
  simp [operandEnd, pop, operandPos, push, qd]

/-- an operand followed by `?.` -/
theorem piece_q (xs : List Tok) (hx : Seg xs) : Piece (xs ++ [.p "?."]) P0 qd := by
  obtain ⟨a, ha, haE⟩ := hx.last
  have := Piece.append hx.piece piece_qdot (fun σ h => trivial) a (.p "?.") ha rfl
    (adj_E_follower a haE "?." (by decide))
  exact this.conv (fun _ h => h) (fun σ h => rfl)

theorem first_q (xs : List Tok) (hx : Seg xs) (ys : List Tok) : ∃ t, (xs ++ ys).head? = some t ∧ isS t = true := by
  obtain ⟨f, hf, hfS⟩ := hx.first
  exact ⟨f, by rw [head?_append_ne _ _ hx.piece.ne]; exact hf, hfS⟩

/-- `x ?. name` (no restriction on the last token of `x`: `5?.a` is `5` `?.` `a`) -/
theorem seg_qdot (xs : List Tok) (n : String) (hx : Seg xs) (hn : identOk n = true) :
    Seg (xs ++ [.p "?.", .ident n]) := by
  obtain ⟨hok, h1, h2, hstep⟩ := ident_facts n hn
  have pid := piece_atom (.ident n) hok hstep h1 h2
  have p2 := Piece.append (piece_q xs hx) pid (fun σ h => trivial) (.p "?.") (.ident n) (last_snoc _ _) rfl
    (adj_qdot_ident n hn)
  have e : xs ++ [.p "?.", .ident n] = xs ++ [.p "?."] ++ [.ident n] := by simp
  rw [e]
  refine ⟨p2.conv (fun _ h => h) (fun σ h => ?_), ?_, ⟨.ident n, last_snoc _ _, rfl⟩⟩
  · cases σ; simp [operandEnd, operandPos, qd]
  · simp only [List.append_assoc]; exact first_q xs hx _

/-- `f ?. ( args )` with a non-empty argument list -/
theorem seg_qcall (fs as : List Tok) (hf : Seg fs) (ha : Seg as) :
    Seg (fs ++ [.p "?."] ++ [.p "("] ++ as ++ [.p ")"]) := by
  obtain ⟨b, hb, hbS⟩ := ha.first
  obtain ⟨a2, ha2, ha2E⟩ := ha.last
  have hbok : tokOk b = true := ha.piece.ok b (List.mem_of_mem_head? hb)
  have p1 := Piece.append (piece_q fs hf) piece_lparen
    (fun σ h => by have hfn : σ.fnHead = none := h.2.2.2; exact ⟨rfl, hfn⟩) (.p "?.") (.p "(") (last_snoc _ _) rfl
    (by decide)
  have p2 := Piece.append p1 ha.piece (fun σ h => ⟨rfl, rfl, rfl, rfl⟩) (.p "(") b (last_snoc _ _) hb
    (adj_leader_S "(" (by decide) b hbok hbS)
  have p3 := Piece.append p2 piece_rparen (fun σ h => rfl) a2 (.p ")")
    (by rw [getLast?_append_ne _ _ ha.piece.ne]; exact ha2) rfl (adj_E_follower a2 ha2E ")" (by decide))
  refine ⟨p3.conv (fun _ h => h) (fun σ h => ?_), ?_, ⟨.p ")", last_snoc _ _, rfl⟩⟩
  · exact qparen_state σ (P0_fn h)
  · simp only [List.append_assoc]; exact first_q fs hf _

/-- `f ?. ( )` -/
theorem seg_qcall0 (fs : List Tok) (hf : Seg fs) : Seg (fs ++ [.p "?."] ++ [.p "("] ++ [.p ")"]) := by
  have p1 := Piece.append (piece_q fs hf) piece_lparen
    (fun σ h => by have hfn : σ.fnHead = none := h.2.2.2; exact ⟨rfl, hfn⟩) (.p "?.") (.p "(") (last_snoc _ _) rfl
    (by decide)
  have p2 := Piece.append p1 piece_rparen (fun σ h => rfl) (.p "(") (.p ")") (last_snoc _ _) rfl (by decide)
  refine ⟨p2.conv (fun _ h => h) (fun σ h => ?_), ?_, ⟨.p ")", last_snoc _ _, rfl⟩⟩
  · exact qparen_state0 σ (P0_fn h)
  · simp only [List.append_assoc]; exact first_q fs hf _

/-- `x ?. [ y ]` -/
theorem seg_qindex (xs ys : List Tok) (hx : Seg xs) (hy : Seg ys) :
    Seg (xs ++ [.p "?."] ++ [.p "["] ++ ys ++ [.p "]"]) := by
  obtain ⟨b, hb, hbS⟩ := hy.first
  obtain ⟨a2, ha2, ha2E⟩ := hy.last
  have hbok : tokOk b = true := hy.piece.ok b (List.mem_of_mem_head? hb)
  have p1 := Piece.append (piece_q xs hx) piece_lbrack (fun σ h => trivial) (.p "?.") (.p "[") (last_snoc _ _) rfl
    (by decide)
  have p2 := Piece.append p1 hy.piece
    (fun σ h => by have hfn : σ.fnHead = none := h.2.2.2; exact ⟨rfl, rfl, rfl, hfn⟩) (.p "[") b (last_snoc _ _) hb
    (adj_leader_S "[" (by decide) b hbok hbS)
  have p3 := Piece.append p2 piece_rbrack (fun σ h => trivial) a2 (.p "]")
    (by rw [getLast?_append_ne _ _ hy.piece.ne]; exact ha2) rfl (adj_E_follower a2 ha2E "]" (by decide))
  refine ⟨p3.conv (fun _ h => h) (fun σ h => ?_), ?_, ⟨.p "]", last_snoc _ _, rfl⟩⟩
  · exact qbrack_state σ
  · simp only [List.append_assoc]; exact first_q xs hx _

/-! ## all trees of the grammar -/

def litOk : Lit → Bool
  | .str s => wfStr s
  | _ => true

mutual
/-- names are plain identifiers (also behind a dot), strings are in the modelled alphabet -/
def treeOk : E → Bool
  | .var n => identOk n
  | .lit l => litOk l
  | .unary _ x => treeOk x
  | .bin _ x y => treeOk x && treeOk y
  | .cond c x y => treeOk c && treeOk x && treeOk y
  | .comma l => treeOkL l
  | .call f a => treeOk f && treeOkL a
  | .dot x n => treeOk x && identOk n
  | .index x y => treeOk x && treeOk y
  | .group x => treeOk x
  | .opt _ e => treeOk e
def treeOkL : List E → Bool
  | [] => true
  | a :: t => treeOk a && treeOkL t
end

theorem treeOkL_mem (l : List E) (h : treeOkL l = true) : ∀ a ∈ l, treeOk a = true := by
  induction l with
  | nil => intro a ha; cases ha
  | cons b t ih =>
    simp only [treeOkL, Bool.and_eq_true] at h
    intro a ha
    cases ha with
    | head => exact h.1
    | tail _ h' => exact ih h.2 a h'

theorem gwfAItems_mem (l : List E) (h : gwfAItems l = true) : ∀ a ∈ l, gwfA a = true := by
  induction l with
  | nil => intro a ha; cases ha
  | cons b t ih =>
    simp only [gwfAItems, Bool.and_eq_true] at h
    intro a ha
    cases ha with
    | head => exact h.1.2
    | tail _ h' => exact ih h.2 a h'

/-- a comma-separated list of expressions -/
theorem seg_sep (l : List E) (hne : l ≠ []) (h : ∀ a ∈ l, Seg (yield a)) : Seg (yieldSep l) := by
  induction l with
  | nil => exact absurd rfl hne
  | cons x t ih =>
    cases t with
    | nil => simpa [yieldSep] using h x (by simp)
    | cons y t' =>
      have hx := h x (by simp)
      have hr := ih (by simp) (fun a ha => h a (by simp [ha]))
      have := seg_infix (yield x) (yieldSep (y :: t')) (.p ",") hx hr (piece_binop "," (by decide))
        (fun a _ haE => adj_E_follower a haE "," (by decide))
        (fun b hb hbS => adj_leader_S "," (by decide) b hb hbS)
      simpa [yieldSep] using this

theorem binop_lists (op : BOp) (h : op.isWord = false) :
    op.text ∈ plainOps ∧ op.text ∈ followers ∧ op.text ∈ leaders := by
  cases op <;> first | (exact absurd h (by decide)) | decide


theorem yield_dot_gen (x : E) (n : String) (h : ∀ k, x ≠ .lit (.num k)) :
    yield (.dot x n) = yield x ++ [.p ".", .ident n] := by
  rw [yield]
  exact fun k e => h k e

/-- the last token of a member / call / primary expression other than a numeric literal is not a bare integer -/
theorem last_not_plain (x : E) (hl : lvCall ≤ lvl x) (hn : ∀ k, x ≠ .lit (.num k)) (hx : Seg (yield x)) :
    ∃ a, (yield x).getLast? = some a ∧ plainInt a = false := by
  cases x with
  | var n => exact ⟨.ident n, by simp [yield], rfl⟩
  | lit l =>
    cases l with
    | num k => exact absurd rfl (hn k)
    | str s => exact ⟨.str s, by simp [yield], rfl⟩
    | «true» => exact ⟨.kw "true", by simp [yield], rfl⟩
    | «false» => exact ⟨.kw "false", by simp [yield], rfl⟩
    | null => exact ⟨.kw "null", by simp [yield], rfl⟩
  | unary op x => simp [lvl, lvCall, lvUpdate, lvUnary] at hl; split at hl <;> omega
  | bin op x y =>
    have : ∀ o : BOp, ¬ lvCall ≤ opLevel o := by intro o; cases o <;> decide
    exact absurd hl (this op)
  | cond c x y => exact absurd hl (by simp [lvl]; decide)
  | comma l => exact absurd hl (by simp [lvl]; decide)
  | call f args => exact ⟨.p ")", by simp only [yield]; exact last_snoc _ _, rfl⟩
  | dot y n =>
    refine ⟨.ident n, ?_, rfl⟩
    simp only [yield]
    rw [show ∀ (l : List Tok), l ++ [Tok.p ".", Tok.ident n] = (l ++ [Tok.p "."]) ++ [Tok.ident n] from by simp]
    exact last_snoc _ _
  | index y z => exact ⟨.p "]", by simp only [yield]; exact last_snoc _ _, rfl⟩
  | group y => exact ⟨.p ")", by simp only [yield]; exact last_snoc _ _, rfl⟩
  | opt a y => exact absurd hl (by simp [lvl]; decide)

/-- the last token of an optional chain is `)`, `]` or a name: never a bare integer -/
theorem last_opt_not_plain (x : E) (hl : x.isLink = true) :
    ∃ a, (yieldOpt x).getLast? = some a ∧ plainInt a = false := by
  cases x with
  | call f args => exact ⟨.p ")", by simp only [yieldOpt]; exact last_snoc _ _, rfl⟩
  | dot y n =>
    refine ⟨.ident n, ?_, rfl⟩
    have e : ∀ (l : List Tok) (q : Tok), l ++ [q, Tok.ident n] = (l ++ [q]) ++ [Tok.ident n] := by simp
    simp only [yieldOpt]
    split
    · rw [e]; exact last_snoc _ _
    · rw [e]; exact last_snoc _ _
  | index y z => exact ⟨.p "]", by simp only [yieldOpt]; exact last_snoc _ _, rfl⟩
  | _ => simp [E.isLink] at hl

theorem isLink_of_chainVar (e : E) (a : String) (h : (e.chainVar? == some a) = true) : e.isLink = true := by
  cases hl : e.isLink with
  | true => rfl
  | false => simp [E.chainVar?, hl] at h

/-- **Theorem B, expression level**: the terminal string of every derivation tree of the expression grammar (with
    plain names and strings) is a well-formed expression segment — valid tokens, no unsafe adjacency, the goal
    tracker agrees at every token and is back in operator position with the same bracket stack at the end -/
theorem yield_seg_both : ∀ e : E, (gwfA e = true → treeOk e = true → Seg (yield e)) ∧
    (e.isLink = true → gwfA e = true → treeOk e = true → Seg (yieldOpt e)) := by
  intro e
  induction e using Verif.Proofs.JsSemLemmas.E.ind with
  | hvar n =>
    refine ⟨?_, fun h => by simp [E.isLink] at h⟩
    intro _ ht
    simp only [treeOk] at ht
    obtain ⟨hok, h1, h2, hstep⟩ := ident_facts n ht
    simpa [yield] using seg_atom (.ident n) hok rfl rfl hstep h1 h2
  | hlit l =>
    refine ⟨?_, fun h => by simp [E.isLink] at h⟩
    intro _ ht
    cases l with
    | num k =>
      simpa [yield] using seg_atom (.num k false) rfl rfl rfl (fun σ nl => step_num σ nl k false)
        (num_facts k false).1 (num_facts k false).2
    | str s =>
      simp only [treeOk, litOk] at ht
      simpa [yield] using seg_atom (.str s) ht rfl rfl (fun σ nl => step_str σ nl s)
        (by simp [txt, tokText, String.toList_append]) (by simp [txt, tokText, String.toList_append])
    | «true» =>
      simpa [yield] using seg_atom (.kw "true") rfl rfl rfl
        (fun σ nl => by rw [step_name σ nl (.kw "true") "true" rfl rfl, stepName_lit σ _ (by decide)])
        (by decide) (by decide)
    | «false» =>
      simpa [yield] using seg_atom (.kw "false") rfl rfl rfl
        (fun σ nl => by rw [step_name σ nl (.kw "false") "false" rfl rfl, stepName_lit σ _ (by decide)])
        (by decide) (by decide)
    | null =>
      simpa [yield] using seg_atom (.kw "null") rfl rfl rfl
        (fun σ nl => by rw [step_name σ nl (.kw "null") "null" rfl rfl, stepName_lit σ _ (by decide)])
        (by decide) (by decide)
  | hun op x ih =>
    refine ⟨?_, fun h => by simp [E.isLink] at h⟩
    intro hg ht
    have hgx : gwfA x = true := by simp only [gwfA, Bool.and_eq_true] at hg; exact hg.2
    have hx := ih.1 hgx (by simpa [treeOk] using ht)
    have hpre : ∀ s, s ∈ ["!", "~", "+", "-", "++", "--"] → Seg (Tok.p s :: yield x) := fun s hs =>
      seg_prefix (.p s) _ hx (piece_prefix s hs)
        (by simp only [List.mem_cons, List.not_mem_nil, or_false] at hs; rcases hs with rfl | rfl | rfl | rfl | rfl | rfl <;> rfl)
        (fun b hb hbS => adj_leader_S s (by
          simp only [List.mem_cons, List.not_mem_nil, or_false] at hs
          rcases hs with rfl | rfl | rfl | rfl | rfl | rfl <;> decide) b hb hbS)
    have hkw : ∀ k, k ∈ ["typeof", "void", "delete"] → Seg (Tok.kw k :: yield x) := fun k hk =>
      seg_prefix (.kw k) _ hx (piece_kwprefix k hk)
        (by simp only [List.mem_cons, List.not_mem_nil, or_false] at hk; rcases hk with rfl | rfl | rfl <;> rfl)
        (fun b _ _ => adj_kwop k (by
          simp only [List.mem_cons, List.not_mem_nil, or_false] at hk ⊢
          rcases hk with rfl | rfl | rfl <;> simp) b)
    cases op with
    | not => simpa [yield, opTok, UOp.isWord, UOp.text] using hpre "!" (by decide)
    | bitnot => simpa [yield, opTok, UOp.isWord, UOp.text] using hpre "~" (by decide)
    | pos => simpa [yield, opTok, UOp.isWord, UOp.text] using hpre "+" (by decide)
    | neg => simpa [yield, opTok, UOp.isWord, UOp.text] using hpre "-" (by decide)
    | preinc => simpa [yield, opTok, UOp.isWord, UOp.text] using hpre "++" (by decide)
    | predec => simpa [yield, opTok, UOp.isWord, UOp.text] using hpre "--" (by decide)
    | typeof => simpa [yield, opTok, UOp.isWord, UOp.text] using hkw "typeof" (by decide)
    | void => simpa [yield, opTok, UOp.isWord, UOp.text] using hkw "void" (by decide)
    | delete => simpa [yield, opTok, UOp.isWord, UOp.text] using hkw "delete" (by decide)
    | postinc => simpa [yield, UOp.text] using seg_postfix _ "++" (by decide) hx
    | postdec => simpa [yield, UOp.text] using seg_postfix _ "--" (by decide) hx
  | hbin op x y ihx ihy =>
    refine ⟨?_, fun h => by simp [E.isLink] at h⟩
    intro hg ht
    simp only [gwfA, Bool.and_eq_true] at hg
    simp only [treeOk, Bool.and_eq_true] at ht
    have hx := ihx.1 hg.1.2 ht.1
    have hy := ihy.1 hg.2 ht.2
    by_cases hw : op.isWord = true
    · have hk : op.text ∈ ["in", "instanceof"] := by cases op <;> first | (exact absurd hw (by decide)) | decide
      have := seg_infix _ _ (.kw op.text) hx hy (piece_kwbin op.text hk)
        (fun a ha haE => adj_E_inof a ha haE op.text hk)
        (fun b _ _ => adj_kwop op.text (by
          simp only [List.mem_cons, List.not_mem_nil, or_false] at hk ⊢
          rcases hk with h | h <;> simp [h]) b)
      simpa [yield, opTok, hw] using this
    · have hw' : op.isWord = false := by simpa using hw
      obtain ⟨h1, h2, h3⟩ := binop_lists op hw'
      have := seg_infix _ _ (.p op.text) hx hy (piece_binop op.text h1)
        (fun a _ haE => adj_E_follower a haE op.text h2)
        (fun b hb hbS => adj_leader_S op.text h3 b hb hbS)
      simpa [yield, opTok, hw'] using this
  | hcond c x y ihc ihx ihy =>
    refine ⟨?_, fun h => by simp [E.isLink] at h⟩
    intro hg ht
    simp only [gwfA, Bool.and_eq_true] at hg
    simp only [treeOk, Bool.and_eq_true] at ht
    have := seg_cond _ _ _ (ihc.1 hg.1.1.2 ht.1.1) (ihx.1 hg.1.2 ht.1.2) (ihy.1 hg.2 ht.2)
    simpa [yield] using this
  | hcomma l ih =>
    refine ⟨?_, fun h => by simp [E.isLink] at h⟩
    intro hg ht
    simp only [gwfA, Bool.and_eq_true, decide_eq_true_eq] at hg
    simp only [treeOk] at ht
    have hne : l ≠ [] := by intro e; subst e; simp at hg
    have := seg_sep l hne (fun a ha => (ih a ha).1 (gwfAItems_mem l hg.2 a ha) (treeOkL_mem l ht a ha))
    simpa [yield] using this
  | hcall f args ihf iha =>
    have first : gwfA (.call f args) = true → treeOk (.call f args) = true → Seg (yield (.call f args)) := by
      intro hg ht
      simp only [gwfA, Bool.and_eq_true] at hg
      simp only [treeOk, Bool.and_eq_true] at ht
      have hf := ihf.1 hg.1.2 ht.1
      by_cases hargs : args = []
      · subst hargs
        simpa [yield, yieldSep] using seg_call0 _ hf
      · have ha := seg_sep args hargs (fun a hm => (iha a hm).1 (gwfAItems_mem args hg.2 a hm) (treeOkL_mem args ht.2 a hm))
        simpa [yield] using seg_call _ _ hf ha
    refine ⟨first, ?_⟩
    intro _ hg ht
    simp only [gwfA, Bool.and_eq_true] at hg
    simp only [treeOk, Bool.and_eq_true] at ht
    by_cases hl : f.isLink = true
    · have hf := ihf.2 hl hg.1.2 ht.1
      by_cases hargs : args = []
      · subst hargs
        simpa [yieldOpt, yieldSep, hl] using seg_call0 _ hf
      · have ha := seg_sep args hargs (fun a hm => (iha a hm).1 (gwfAItems_mem args hg.2 a hm) (treeOkL_mem args ht.2 a hm))
        simpa [yieldOpt, hl] using seg_call _ _ hf ha
    · have hf := ihf.1 hg.1.2 ht.1
      by_cases hargs : args = []
      · subst hargs
        simpa [yieldOpt, yieldSep, hl] using seg_qcall0 _ hf
      · have ha := seg_sep args hargs (fun a hm => (iha a hm).1 (gwfAItems_mem args hg.2 a hm) (treeOkL_mem args ht.2 a hm))
        simpa [yieldOpt, hl] using seg_qcall _ _ hf ha
  | hdot x n ih =>
    have first : gwfA (.dot x n) = true → treeOk (.dot x n) = true → Seg (yield (.dot x n)) := by
      intro hg ht
      simp only [gwfA, Bool.and_eq_true, decide_eq_true_eq] at hg
      simp only [treeOk, Bool.and_eq_true] at ht
      by_cases hnum : ∃ k, x = .lit (.num k)
      · obtain ⟨k, rfl⟩ := hnum
        simpa [yield] using seg_numdot k n ht.2
      · have hn : ∀ k, x ≠ .lit (.num k) := fun k e => hnum ⟨k, e⟩
        have hx := ih.1 hg.2 ht.1
        rw [yield_dot_gen x n hn]
        exact seg_dot _ n hx (last_not_plain x hg.1 hn hx) ht.2
    refine ⟨first, ?_⟩
    intro _ hg ht
    simp only [gwfA, Bool.and_eq_true, decide_eq_true_eq] at hg
    simp only [treeOk, Bool.and_eq_true] at ht
    by_cases hl : x.isLink = true
    · have hx := ih.2 hl hg.2 ht.1
      simpa [yieldOpt, hl] using seg_dot _ n hx (last_opt_not_plain x hl) ht.2
    · have hx := ih.1 hg.2 ht.1
      simpa [yieldOpt, hl] using seg_qdot _ n hx ht.2
  | hindex x y ihx ihy =>
    have first : gwfA (.index x y) = true → treeOk (.index x y) = true → Seg (yield (.index x y)) := by
      intro hg ht
      simp only [gwfA, Bool.and_eq_true] at hg
      simp only [treeOk, Bool.and_eq_true] at ht
      simpa [yield] using seg_index _ _ (ihx.1 hg.1.2 ht.1) (ihy.1 hg.2 ht.2)
    refine ⟨first, ?_⟩
    intro _ hg ht
    simp only [gwfA, Bool.and_eq_true] at hg
    simp only [treeOk, Bool.and_eq_true] at ht
    by_cases hl : x.isLink = true
    · simpa [yieldOpt, hl] using seg_index _ _ (ihx.2 hl hg.1.2 ht.1) (ihy.1 hg.2 ht.2)
    · simpa [yieldOpt, hl] using seg_qindex _ _ (ihx.1 hg.1.2 ht.1) (ihy.1 hg.2 ht.2)
  | hgroup x ih =>
    refine ⟨?_, fun h => by simp [E.isLink] at h⟩
    intro hg ht
    simp only [gwfA] at hg
    simp only [treeOk] at ht
    simpa [yield] using seg_group _ (ih.1 hg ht)
  | hopt a e ih =>
    refine ⟨?_, fun h => by simp [E.isLink] at h⟩
    intro hg ht
    simp only [gwfA, Bool.and_eq_true] at hg
    simp only [treeOk] at ht
    simpa [yield] using ih.2 (isLink_of_chainVar e a hg.1) hg.2 ht

/-- **Theorem B, expression level**: the terminal string of every derivation tree of the expression grammar (optional
    chains included) is a well-formed expression segment -/
theorem yield_seg (e : E) (hg : gwfA e = true) (ht : treeOk e = true) : Seg (yield e) := (yield_seg_both e).1 hg ht

/-- the terminals of a chain written with `?.` at its innermost link form an expression segment as well -/
theorem yieldOpt_seg (e : E) (hl : e.isLink = true) (hg : gwfA e = true) (ht : treeOk e = true) : Seg (yieldOpt e) :=
  (yield_seg_both e).2 hl hg ht

/-! ## `-->` at the start of a script -/

theorem isS_first (b : Tok) (hb : tokOk b = true) (hS : isS b = true) : firstC b ≠ some '>' := by
  by_cases hp : ∃ s, b = .p s
  · obtain ⟨s, rfl⟩ := hp
    simp only [isS, List.contains_iff_mem] at hS
    have : ∀ q ∈ ["!", "~", "+", "-", "++", "--", "("], firstC (.p q) ≠ some '>' := by decide
    exact this s hS
  · obtain ⟨c, hc, hcc⟩ := first_word b hb hS (fun s e => hp ⟨s, e⟩)
    rw [hc]
    intro e; injection e with e; subst e
    rcases hcc with h | h
    · exact absurd h (by decide)
    · exact absurd h (by decide)

/-- an optional chain has at least two tokens behind its root -/
theorem yieldOpt_len2 (x : E) (hl : x.isLink = true) : 2 ≤ (yieldOpt x).length := by
  cases x with
  | call f args => simp only [yieldOpt, List.length_append, List.length_cons, List.length_nil]; omega
  | dot y n =>
    simp only [yieldOpt]
    split <;> simp only [List.length_append, List.length_cons, List.length_nil] <;> omega
  | index y z => simp only [yieldOpt, List.length_append, List.length_cons, List.length_nil]; omega
  | _ => simp [E.isLink] at hl

/-- the first token of a member / call / primary expression that is no link: a name, a literal or `(` -/
theorem head_primary (x : E) (hl : lvCall ≤ lvl x) (hnl : x.isLink = false) :
    yield x ≠ [] ∧ (yield x).head? ≠ some (.p "--") := by
  cases x with
  | var n => simp [yield]
  | lit l => cases l <;> simp [yield]
  | unary op x => simp [lvl, lvCall, lvUpdate, lvUnary] at hl; split at hl <;> omega
  | bin op x y =>
    have : ∀ o : BOp, ¬ lvCall ≤ opLevel o := by intro o; cases o <;> decide
    exact absurd hl (this op)
  | cond c x y => exact absurd hl (by simp [lvl]; decide)
  | comma l => exact absurd hl (by simp [lvl]; decide)
  | call f args => simp [E.isLink] at hnl
  | dot y n => simp [E.isLink] at hnl
  | index y z => simp [E.isLink] at hnl
  | group y => simp [yield]
  | opt a y => exact absurd hl (by simp [lvl]; decide)

/-- an optional chain does not start with `--` -/
theorem yieldOpt_head : ∀ e : E, e.isLink = true → gwfA e = true → treeOk e = true →
    (yieldOpt e).head? ≠ some (.p "--") := by
  intro e
  induction e using Verif.Proofs.JsSemLemmas.E.ind with
  | hcall f args ihf _ =>
    intro _ hg ht
    simp only [gwfA, Bool.and_eq_true, decide_eq_true_eq] at hg
    simp only [treeOk, Bool.and_eq_true] at ht
    by_cases hl : f.isLink = true
    · have hne := (yieldOpt_seg f hl hg.1.2 ht.1).piece.ne
      simp only [yieldOpt, hl, if_true, List.append_assoc]
      rw [head?_append_ne _ _ hne]
      exact ihf hl hg.1.2 ht.1
    · have hp := head_primary f hg.1.1 (by simpa using hl)
      simp only [yieldOpt, hl]
      rw [if_neg (by simp)]
      simp only [List.append_assoc]
      rw [head?_append_ne _ _ hp.1]
      exact hp.2
  | hdot x n ih =>
    intro _ hg ht
    simp only [gwfA, Bool.and_eq_true, decide_eq_true_eq] at hg
    simp only [treeOk, Bool.and_eq_true] at ht
    by_cases hl : x.isLink = true
    · have hne := (yieldOpt_seg x hl hg.2 ht.1).piece.ne
      simp only [yieldOpt, hl, if_true]
      rw [head?_append_ne _ _ hne]
      exact ih hl hg.2 ht.1
    · have hp := head_primary x hg.1 (by simpa using hl)
      simp only [yieldOpt, hl]
      rw [if_neg (by simp), head?_append_ne _ _ hp.1]
      exact hp.2
  | hindex x y ihx _ =>
    intro _ hg ht
    simp only [gwfA, Bool.and_eq_true, decide_eq_true_eq] at hg
    simp only [treeOk, Bool.and_eq_true] at ht
    by_cases hl : x.isLink = true
    · have hne := (yieldOpt_seg x hl hg.1.2 ht.1).piece.ne
      simp only [yieldOpt, hl, if_true, List.append_assoc]
      rw [head?_append_ne _ _ hne]
      exact ihx hl hg.1.2 ht.1
    · have hp := head_primary x hg.1.1 (by simpa using hl)
      simp only [yieldOpt, hl]
      rw [if_neg (by simp)]
      simp only [List.append_assoc]
      rw [head?_append_ne _ _ hp.1]
      exact hp.2
  | hvar n => intro h; simp [E.isLink] at h
  | hlit l => intro h; simp [E.isLink] at h
  | hun op x _ => intro h; simp [E.isLink] at h
  | hbin op x y _ _ => intro h; simp [E.isLink] at h
  | hcond c x y _ _ _ => intro h; simp [E.isLink] at h
  | hcomma l _ => intro h; simp [E.isLink] at h
  | hgroup x _ => intro h; simp [E.isLink] at h
  | hopt a e _ => intro h; simp [E.isLink] at h

/-- a tree whose terminal string is a single token is a variable or a literal: that token is no punctuator -/
theorem single_not_punct (e : E) (hg : gwfA e = true) (ht : treeOk e = true) (t : Tok) (h : yield e = [t]) :
    ∀ s, t ≠ .p s := by
  have len2 : ∀ (xs : List Tok) (a : Tok) (ys : List Tok), xs ≠ [] → xs ++ a :: ys ≠ [t] := by
    intro xs a ys hne e
    have := congrArg List.length e
    cases xs with
    | nil => exact hne rfl
    | cons x r => simp at this
  cases e with
  | var n => simp [yield] at h; subst h; intro s e; cases e
  | lit l => cases l <;> simp [yield] at h <;> subst h <;> intro s e <;> cases e
  | unary op x =>
    have hx := (yield_seg x (by simp only [gwfA, Bool.and_eq_true] at hg; exact hg.2) (by simpa [treeOk] using ht)).piece.ne
    simp only [yield] at h
    split at h
    · exact absurd h (len2 _ _ [] hx)
    · cases hy : yield x with
      | nil => exact absurd hy hx
      | cons a r => rw [hy] at h; simp at h
  | bin op x y =>
    simp only [gwfA, Bool.and_eq_true] at hg
    simp only [treeOk, Bool.and_eq_true] at ht
    have hx := (yield_seg x hg.1.2 ht.1).piece.ne
    simp only [yield, List.append_assoc, List.singleton_append] at h
    exact absurd h (len2 _ _ _ hx)
  | cond c x y =>
    simp only [gwfA, Bool.and_eq_true] at hg
    simp only [treeOk, Bool.and_eq_true] at ht
    have hc := (yield_seg c hg.1.1.2 ht.1.1).piece.ne
    simp only [yield, List.append_assoc, List.singleton_append] at h
    exact absurd h (len2 _ _ _ hc)
  | comma l =>
    simp only [gwfA, Bool.and_eq_true, decide_eq_true_eq] at hg
    simp only [treeOk] at ht
    match l, hg, ht with
    | [], hg, _ => simp at hg
    | [_], hg, _ => simp at hg
    | x :: y :: r, hg, ht =>
      have hx := (yield_seg x (gwfAItems_mem _ hg.2 x (by simp)) (treeOkL_mem _ ht x (by simp))).piece.ne
      simp only [yield, yieldSep, List.append_assoc, List.singleton_append] at h
      exact absurd h (len2 _ _ _ hx)
  | call f args =>
    simp only [gwfA, Bool.and_eq_true] at hg
    simp only [treeOk, Bool.and_eq_true] at ht
    have hf := (yield_seg f hg.1.2 ht.1).piece.ne
    simp only [yield, List.append_assoc, List.singleton_append] at h
    exact absurd h (len2 _ _ _ hf)
  | dot x n =>
    by_cases hnum : ∃ k, x = .lit (.num k)
    · obtain ⟨k, rfl⟩ := hnum
      simp [yield] at h
    · rw [yield_dot_gen x n (fun k e => hnum ⟨k, e⟩)] at h
      simp only [gwfA, Bool.and_eq_true, decide_eq_true_eq] at hg
      simp only [treeOk, Bool.and_eq_true] at ht
      have hx := (yield_seg x hg.2 ht.1).piece.ne
      exact absurd h (len2 _ _ _ hx)
  | index x y =>
    simp only [gwfA, Bool.and_eq_true] at hg
    simp only [treeOk, Bool.and_eq_true] at ht
    have hx := (yield_seg x hg.1.2 ht.1).piece.ne
    simp only [yield, List.append_assoc, List.singleton_append] at h
    exact absurd h (len2 _ _ _ hx)
  | group x => simp [yield] at h
  | opt a x =>
    simp only [gwfA, Bool.and_eq_true] at hg
    have hl := isLink_of_chainVar x a hg.1
    have h2 := yieldOpt_len2 x hl
    simp only [yield] at h
    rw [h] at h2; simp at h2

theorem headOk_append (xs ys : List Tok) (h : headOk xs = true) (h2 : 2 ≤ xs.length) : headOk (xs ++ ys) = true := by
  match xs, h, h2 with
  | a :: b :: r, h, _ =>
    simp only [List.cons_append]
    unfold headOk at h ⊢
    split
    · rename_i b' r' heq
      simp only [List.cons.injEq] at heq
      obtain ⟨ha, hb, _⟩ := heq
      subst ha; subst hb
      simpa [headOk] using h
    · rfl

theorem headOk_of_first (xs : List Tok) (h : xs.head? ≠ some (.p "--")) : headOk xs = true := by
  unfold headOk
  split
  · simp at h
  · rfl

/-- the terminal string of a tree never starts with `--` `>…` -/
theorem yield_headOk : ∀ e : E, gwfA e = true → treeOk e = true → headOk (yield e) = true := by
  intro e
  induction e using Verif.Proofs.JsSemLemmas.E.ind with
  | hvar n => intro _ _; simp [yield, headOk]
  | hlit l => intro _ _; cases l <;> simp [yield, headOk]
  | hgroup x _ => intro _ _; simp [yield, headOk]
  | hun op x ih =>
    intro hg ht
    have hgx : gwfA x = true := by simp only [gwfA, Bool.and_eq_true] at hg; exact hg.2
    have htx : treeOk x = true := by simpa [treeOk] using ht
    have hx := yield_seg x hgx htx
    by_cases hpost : op = .postinc ∨ op = .postdec
    · have hy : yield (.unary op x) = yield x ++ [.p op.text] := by
        rcases hpost with rfl | rfl <;> simp [yield]
      rw [hy]
      cases hq : yield x with
      | nil => exact absurd hq hx.piece.ne
      | cons a r =>
        cases r with
        | nil =>
          have := single_not_punct x hgx htx a hq
          exact headOk_of_first _ (by simp; exact fun e => this "--" e)
        | cons b r' => rw [← hq]; exact headOk_append _ _ (ih hgx htx) (by rw [hq]; simp)
    · obtain ⟨b, hb, hbS⟩ := hx.first
      have hbok : tokOk b = true := hx.piece.ok b (List.mem_of_mem_head? hb)
      have hy : yield (.unary op x) = opTok op.isWord op.text :: yield x := by
        cases op <;> simp_all [yield]
      rw [hy]
      cases hq : yield x with
      | nil => exact absurd hq hx.piece.ne
      | cons b' r =>
        rw [hq] at hb; simp at hb; subst hb
        unfold headOk
        split
        · rename_i b2 r2 heq
          simp only [List.cons.injEq] at heq
          obtain ⟨_, hb2, _⟩ := heq
          subst hb2
          simp [isS_first b' hbok hbS]
        · rfl
  | hbin op x y ihx _ =>
    intro hg ht
    simp only [gwfA, Bool.and_eq_true] at hg
    simp only [treeOk, Bool.and_eq_true] at ht
    have hx := yield_seg x hg.1.2 ht.1
    simp only [yield, List.append_assoc]
    cases hq : yield x with
    | nil => exact absurd hq hx.piece.ne
    | cons a r =>
      cases r with
      | nil =>
        have := single_not_punct x hg.1.2 ht.1 a hq
        exact headOk_of_first _ (by simp; exact fun e => this "--" e)
      | cons b r' => rw [← hq]; exact headOk_append _ _ (ihx hg.1.2 ht.1) (by rw [hq]; simp)
  | hcond c x y ihc _ _ =>
    intro hg ht
    simp only [gwfA, Bool.and_eq_true] at hg
    simp only [treeOk, Bool.and_eq_true] at ht
    have hc := yield_seg c hg.1.1.2 ht.1.1
    simp only [yield, List.append_assoc]
    cases hq : yield c with
    | nil => exact absurd hq hc.piece.ne
    | cons a r =>
      cases r with
      | nil =>
        have := single_not_punct c hg.1.1.2 ht.1.1 a hq
        exact headOk_of_first _ (by simp; exact fun e => this "--" e)
      | cons b r' => rw [← hq]; exact headOk_append _ _ (ihc hg.1.1.2 ht.1.1) (by rw [hq]; simp)
  | hcomma l ih =>
    intro hg ht
    simp only [gwfA, Bool.and_eq_true, decide_eq_true_eq] at hg
    simp only [treeOk] at ht
    match l, hg, ht, ih with
    | [], hg, _, _ => simp at hg
    | [_], hg, _, _ => simp at hg
    | x :: y :: r, hg, ht, ih =>
      have hgx := gwfAItems_mem _ hg.2 x (by simp)
      have htx := treeOkL_mem _ ht x (by simp)
      have hx := yield_seg x hgx htx
      simp only [yield, yieldSep, List.append_assoc]
      cases hq : yield x with
      | nil => exact absurd hq hx.piece.ne
      | cons a r2 =>
        cases r2 with
        | nil =>
          have := single_not_punct x hgx htx a hq
          exact headOk_of_first _ (by simp; exact fun e => this "--" e)
        | cons b r' => rw [← hq]; exact headOk_append _ _ (ih x (by simp) hgx htx) (by rw [hq]; simp)
  | hcall f args ihf _ =>
    intro hg ht
    simp only [gwfA, Bool.and_eq_true] at hg
    simp only [treeOk, Bool.and_eq_true] at ht
    have hf := yield_seg f hg.1.2 ht.1
    simp only [yield, List.append_assoc]
    cases hq : yield f with
    | nil => exact absurd hq hf.piece.ne
    | cons a r =>
      cases r with
      | nil =>
        have := single_not_punct f hg.1.2 ht.1 a hq
        exact headOk_of_first _ (by simp; exact fun e => this "--" e)
      | cons b r' => rw [← hq]; exact headOk_append _ _ (ihf hg.1.2 ht.1) (by rw [hq]; simp)
  | hdot x n ih =>
    intro hg ht
    simp only [gwfA, Bool.and_eq_true, decide_eq_true_eq] at hg
    simp only [treeOk, Bool.and_eq_true] at ht
    by_cases hnum : ∃ k, x = .lit (.num k)
    · obtain ⟨k, rfl⟩ := hnum
      simp [yield, headOk]
    · rw [yield_dot_gen x n (fun k e => hnum ⟨k, e⟩)]
      have hx := yield_seg x hg.2 ht.1
      cases hq : yield x with
      | nil => exact absurd hq hx.piece.ne
      | cons a r =>
        cases r with
        | nil =>
          have := single_not_punct x hg.2 ht.1 a hq
          exact headOk_of_first _ (by simp; exact fun e => this "--" e)
        | cons b r' => rw [← hq]; exact headOk_append _ _ (ih hg.2 ht.1) (by rw [hq]; simp)
  | hindex x y ihx _ =>
    intro hg ht
    simp only [gwfA, Bool.and_eq_true] at hg
    simp only [treeOk, Bool.and_eq_true] at ht
    have hx := yield_seg x hg.1.2 ht.1
    simp only [yield, List.append_assoc]
    cases hq : yield x with
    | nil => exact absurd hq hx.piece.ne
    | cons a r =>
      cases r with
      | nil =>
        have := single_not_punct x hg.1.2 ht.1 a hq
        exact headOk_of_first _ (by simp; exact fun e => this "--" e)
      | cons b r' => rw [← hq]; exact headOk_append _ _ (ihx hg.1.2 ht.1) (by rw [hq]; simp)
  | hopt a e _ =>
    intro hg ht
    simp only [gwfA, Bool.and_eq_true] at hg
    simp only [treeOk] at ht
    simp only [yield]
    exact headOk_of_first _ (yieldOpt_head e (isLink_of_chainVar e a hg.1) hg.2 ht)

end Verif.Proofs.C09JsTree

import Verif.Base.Pack
import Verif.Spec.HtmlRefs
import Verif.Spec.CssUnits
import Verif.Gen.HashNames
import Verif.Gen.Html5Entities
/-!
# C17 — whole-table checks of the hash name tables and of the (independent) HTML5 entity table

Checker definitions and their `decide +kernel` evaluation; `Props/C17.lean` states the theorems.
-/
namespace Verif.Proofs.C17
open Verif Verif.Gen Verif.Spec.HtmlRefs Verif.Spec.CssUnits

set_option maxRecDepth 1000000

/-- the constant identifier spells the name it stands for: same length, letters/digits equal up to case,
    `_` for every other character -/
def identMatches : List Nat → List Nat → Bool
  | [], [] => true
  | c :: cs, n :: ns =>
    (if isAlnum n then lowerCp c == lowerCp n else c == 95) && identMatches cs ns
  | _, _ => false

/-- (a leading `-` of a name — vendor prefixes such as `-ms-filter` ↔ `Ms_Filter` — has no counterpart) -/
def hashRowOk (row : Nat × Nat) : Bool :=
  identMatches (unpack row.1) ((unpack row.2).dropWhile (fun c => !isAlnum c)) && row.2 != 0

theorem hash_html_all : HashNames.html.all hashRowOk = true := by decide +kernel
theorem hash_css_all : HashNames.css.all hashRowOk = true := by decide +kernel
theorem hash_svg_all : HashNames.svg.all hashRowOk = true := by decide +kernel

/-- `[0-9A-Za-z]+ ;?` -/
def nameShape : List Nat → Bool
  | [] => false
  | [c] => isAlnum c
  | [c, d] => isAlnum c && (isAlnum d || d == cSemi)
  | c :: r => isAlnum c && nameShape r

/-- a non-empty list of Unicode scalar values other than NUL -/
def cpsOk : List Nat → Bool
  | [] => false
  | [c] => 0 < c && c ≤ 0x10FFFF && !(0xD800 ≤ c && c ≤ 0xDFFF)
  | c :: r => 0 < c && c ≤ 0x10FFFF && !(0xD800 ≤ c && c ≤ 0xDFFF) && cpsOk r

def html5NameOk (first : Nat) (e : Nat × List Nat) : Bool :=
  match unpack e.1 with
  | [] => false
  | c :: r => c == first && nameShape (c :: r) && cpsOk e.2

theorem html5_table_all : Html5Entities.buckets.all (fun b => b.2.all (html5NameOk b.1)) = true := by
  decide +kernel

end Verif.Proofs.C17

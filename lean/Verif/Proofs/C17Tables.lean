import Verif.Spec.TableChecks
import Verif.Gen.HashNames
import Verif.Gen.Html5Entities
/-!
# C17 — whole-table checks of the hash name tables and of the (independent) HTML5 entity table

`decide +kernel` evaluations of the checkers of `Spec/TableChecks.lean`; `Props/C17.lean` states the theorems.
-/
namespace Verif.Proofs.C17
open Verif Verif.Gen Verif.Spec.TableChecks

set_option maxRecDepth 1000000

theorem hash_html_all : HashNames.html.all hashRowOk = true := by decide +kernel
theorem hash_css_all : HashNames.css.all hashRowOk = true := by decide +kernel
theorem hash_svg_all : HashNames.svg.all hashRowOk = true := by decide +kernel

theorem html5_table_all : Html5Entities.buckets.all (fun b => b.2.all (html5NameOk b.1)) = true := by
  decide +kernel

end Verif.Proofs.C17

import Verif.Proofs.JsHoistMerge
/-!
# C01D — `hoistVars` (`Model.JsHoist.hoistBody`) preserves the semantics

Part 1 (`applyL_dyn`): whatever the plan, rewriting the `var` declarations (the best one gets extra names without
initialiser, the others lose their `var` keyword) does not change the execution of the body in any environment, nor
its lexical declarations, functions, fragment membership.
Part 2 (`hoist_names`): with the plan that `hoistVars` computes, the set of `var` names of the body is unchanged.
-/
namespace Verif.Proofs.JsDecl
open Verif.Spec.JsDeclSem Verif.Model.JsHoist

/-! ## part 1: execution -/

structure DynEq (s r : DS) : Prop where
  dyn : ∀ H K env, exec H K r env = exec H K s env
  lex : lexDeclsL [r] = lexDeclsL [s]
  lexS : lexDeclsS r = lexDeclsS s
  fns : fnDeclsL [r] = fnDeclsL [s]
  isFn : isFn r = isFn s
  frag : fragS r = fragS s
  cni : constNoInit r = constNoInit s

structure DynEqL (l r : List DS) : Prop where
  dyn : ∀ H K env, execL H K r env = execL H K l env
  lex : lexDeclsL r = lexDeclsL l
  fns : fnDeclsL r = fnDeclsL l
  anyFn : r.any Verif.Spec.JsDeclSem.isFn = l.any Verif.Spec.JsDeclSem.isFn
  frag : fragL r = fragL l

theorem DynEq.refl (s : DS) : DynEq s s := ⟨fun _ _ _ => rfl, rfl, rfl, rfl, rfl, rfl, rfl⟩

theorem bares_all (l : List String) : (l.map bare).all isBare = true := by
  induction l with
  | nil => rfl
  | cons x t ih => simp [bare, isBare, ih]

theorem bestItems_eval (H : Host) (K : Val → List Val → M Val) (p : Plan) (items : List DE) (env : Env) :
    evalItems H K (p.bestItems items) env = evalItems H K items env := by
  simp only [Plan.bestItems, evalItems_append, evalItems_bares H K _ env (bares_all _), retM_bind]
  exact bind_retM _

theorem act_dyn (p : Plan) (n : Nat) (items : List DE) : DynEq (.decl .var items) (p.act n items) := by
  unfold Plan.act
  split
  · exact ⟨fun H K env => by rw [exec_declVar, exec_declVar, bestItems_eval], rfl, rfl, rfl, rfl, rfl, rfl⟩
  · split
    · exact ⟨fun H K env => by rw [exec_declVar, exec_declHoisted], rfl, rfl, rfl, rfl, rfl, rfl⟩
    · exact DynEq.refl _

theorem exec_ifS (H : Host) (K : Val → List Val → M Val) (c : DE) (t e : DS) (env : Env) :
    exec H K (.ifS c t e) env = bindM (eval H K c env) (fun v => if truthy v then exec H K t env else exec H K e env) := by
  simp only [exec]

theorem exec_block (H : Host) (K : Val → List Val → M Val) (l : List DS) (env : Env) :
    exec H K (.block l) env = withLex (lexDeclsL l) env (fun env' => execL H K l env') := by
  simp only [exec]

theorem exec_forS (H : Host) (K : Val → List Val → M Val) (w : Bool) (i : DS) (c p : Option DE) (b : List DS)
    (env : Env) :
    exec H K (.forS w i c p b) env =
      withLex (lexDeclsS i) env (fun env' => bindM (exec H K i env') (fun _ => forRest H K c p b env')) := by
  rw [exec]
  rfl

/-- execution of `try` from the executions of its two blocks -/
def tryM (x : String) (env : Env) (mb : Env → M Compl) (mc : Env → M Compl) (lb lc : List (String × Bool)) : M Compl :=
  fun s =>
    match withLex lb env mb s with
    | .thr v s' =>
        bindM (alloc (fun y => if y == x then some ⟨some v, false⟩ else none)) (fun id =>
          withLex lc (id :: env) mc) s'
    | r => r

theorem exec_tryS (H : Host) (K : Val → List Val → M Val) (b cb : List DS) (x : String) (a : Ann) (env : Env) :
    exec H K (.tryS b x a cb) env =
      tryM x env (fun env' => execL H K b env') (fun env' => execL H K cb env') (lexDeclsL b) (lexDeclsL cb) := by
  rw [exec]
  rfl

theorem forRest_congr (H : Host) (K : Val → List Val → M Val) (c p : Option DE) {b b' : List DS} (env : Env)
    (hl : lexDeclsL b' = lexDeclsL b) (hd : ∀ env, execL H K b' env = execL H K b env) :
    forRest H K c p b' env = forRest H K c p b env := by
  have : (fun env'' => execL H K b' env'') = (fun env'' => execL H K b env'') := funext hd
  simp only [forRest, hl, this]

mutual
theorem applyS_dyn (p : Plan) : (s : DS) → (n : Nat) → DynEq s (applyS p s n).1
  | .decl .var items, n => by simpa [applyS] using act_dyn p n items
  | .decl .let_ items, n => by simpa [applyS] using DynEq.refl _
  | .decl .const_ items, n => by simpa [applyS] using DynEq.refl _
  | .decl .hoisted items, n => by simpa [applyS] using DynEq.refl _
  | .expr e, n => by simpa [applyS] using DynEq.refl _
  | .ret e, n => by simpa [applyS] using DynEq.refl _
  | .throw e, n => by simpa [applyS] using DynEq.refl _
  | .fn name a ps body, n => by simpa [applyS] using DynEq.refl _
  | .empty, n => by simpa [applyS] using DynEq.refl _
  | .absent, n => by simpa [applyS] using DynEq.refl _
  | .ifS c t e, n => by
    have ht := applyS_dyn p t n
    have he := applyS_dyn p e (applyS p t n).2
    simp only [applyS]
    exact ⟨fun H K env => by rw [exec_ifS, exec_ifS, ht.dyn H K env, he.dyn H K env], rfl, rfl, rfl, rfl,
      by simp only [fragS, ht.frag, he.frag, ht.isFn, he.isFn], rfl⟩
  | .block l, n => by
    have hl := applyL_dyn p l n
    simp only [applyS]
    refine ⟨fun H K env => ?_, rfl, rfl, rfl, rfl, by simp only [fragS, hl.frag, hl.anyFn], rfl⟩
    have : (fun env' => execL H K (applyL p l n).1 env') = (fun env' => execL H K l env') := funext (hl.dyn H K)
    rw [exec_block, exec_block, hl.lex, this]
  | .tryS b x a cb, n => by
    have hb := applyL_dyn p b n
    have hc := applyL_dyn p cb (applyL p b n).2
    simp only [applyS]
    refine ⟨fun H K env => ?_, rfl, rfl, rfl, rfl,
      by simp only [fragS, hb.frag, hb.anyFn, hc.frag, hc.anyFn], rfl⟩
    have h1 : (fun env' => execL H K (applyL p b n).1 env') = (fun env' => execL H K b env') := funext (hb.dyn H K)
    have h2 : (fun env' => execL H K (applyL p cb (applyL p b n).2).1 env') = (fun env' => execL H K cb env') :=
      funext (hc.dyn H K)
    rw [exec_tryS, exec_tryS, hb.lex, hc.lex, h1, h2]
  | .forS w i c po b, n => by
    cases i with
    | decl k items =>
      cases k with
      | var =>
        have hb := applyL_dyn p b (n + 1)
        have ha := act_dyn p n items
        simp only [applyS]
        refine ⟨fun H K env => ?_, rfl, rfl, rfl, rfl, by simp only [fragS, hb.frag, hb.anyFn], rfl⟩
        rw [exec_forS, exec_forS, ha.lexS]
        congr 1
        funext env'
        rw [ha.dyn H K env', forRest_congr H K c po env' hb.lex (hb.dyn H K)]
      | _ =>
        have hb := applyL_dyn p b n
        simp only [applyS]
        refine ⟨fun H K env => ?_, rfl, rfl, rfl, rfl, by simp only [fragS, hb.frag, hb.anyFn], rfl⟩
        rw [exec_forS, exec_forS]
        congr 1
        funext env'
        rw [forRest_congr H K c po env' hb.lex (hb.dyn H K)]
    | empty =>
      have hb := applyL_dyn p b n
      simp only [applyS]
      refine ⟨fun H K env => ?_, rfl, rfl, rfl, rfl, by simp only [fragS, hb.frag, hb.anyFn], rfl⟩
      rw [exec_forS, exec_forS]
      split
      · -- the empty head receives the hoisted names
        rw [show lexDeclsS (DS.decl DeclKind.var (p.bestItems [])) = lexDeclsS DS.empty from rfl]
        congr 1
        funext env'
        rw [exec_declVar, bestItems_eval, exec_empty, forRest_congr H K c po env' hb.lex (hb.dyn H K)]
        simp [evalItems, retM_bind]
      · congr 1
        funext env'
        rw [forRest_congr H K c po env' hb.lex (hb.dyn H K)]
    | _ =>
      have hb := applyL_dyn p b n
      simp only [applyS]
      refine ⟨fun H K env => ?_, rfl, rfl, rfl, rfl, by simp only [fragS, hb.frag, hb.anyFn], rfl⟩
      rw [exec_forS, exec_forS]
      congr 1
      funext env'
      rw [forRest_congr H K c po env' hb.lex (hb.dyn H K)]
theorem applyL_dyn (p : Plan) : (l : List DS) → (n : Nat) → DynEqL l (applyL p l n).1
  | [], n => by simpa [applyL] using ⟨fun _ _ _ => rfl, rfl, rfl, rfl, rfl⟩
  | s :: t, n => by
    have hs := applyS_dyn p s n
    have ht := applyL_dyn p t (applyS p s n).2
    simp only [applyL]
    refine ⟨fun H K env => ?_, ?_, ?_, ?_, ?_⟩
    · rw [execL_cons, execL_cons, hs.dyn H K env]
      have : contL H K (applyL p t (applyS p s n).2).1 env = contL H K t env := by
        funext c
        cases c <;> simp [contL, ht.dyn H K env]
      rw [this]
    · rw [lexDeclsL_cons, lexDeclsL_cons s, hs.lex, ht.lex]
    · rw [fnDeclsL_cons, fnDeclsL_cons s, hs.fns, ht.fns]
    · simp only [List.any_cons, hs.isFn, ht.anyFn]
    · simp only [fragL, hs.frag, ht.frag]
end

/-! ## part 2: the `var` names -/

mutual
/-- the item lists of the `var` declarations of a statement in the order of `Scope.VarDecls` (`collectS`) -/
def declsS : DS → List (List DE)
  | .decl .var items => [items]
  | .ifS _ t e => declsS t ++ declsS e
  | .block l => declsL l
  | .forS _ i _ _ b =>
    match i with
    | .decl .var items => items :: declsL b
    | .empty => declsL b ++ [[]]
    | _ => declsL b
  | .tryS b _ _ cb => declsL b ++ declsL cb
  | _ => []
def declsL : List DS → List (List DE)
  | [] => []
  | s :: t => declsS s ++ declsL t
end

mutual
theorem collectS_items (kw : Bool) : (s : DS) → (path : List (List String)) → (collectS kw path s).map (·.items) = declsS s
  | .decl .var items, path => by simp [collectS, declsS]
  | .decl .let_ items, path => by simp [collectS, declsS]
  | .decl .const_ items, path => by simp [collectS, declsS]
  | .decl .hoisted items, path => by simp [collectS, declsS]
  | .expr e, path => by simp [collectS, declsS]
  | .ret e, path => by simp [collectS, declsS]
  | .throw e, path => by simp [collectS, declsS]
  | .fn name a ps body, path => by simp [collectS, declsS]
  | .empty, path => by simp [collectS, declsS]
  | .absent, path => by simp [collectS, declsS]
  | .ifS c t e, path => by
    simp only [collectS, declsS, List.map_append, collectS_items kw t path, collectS_items kw e path]
  | .block l, path => by simp only [collectS, declsS, collectL_items kw l _]
  | .tryS b x a cb, path => by
    simp only [collectS, declsS, List.map_append, collectL_items kw b _, collectL_items kw cb _]
  | .forS w i c po b, path => by
    cases i with
    | decl k items =>
      cases k <;> simp only [collectS, declsS, List.map_cons, collectL_items kw b _]
    | empty => simp [collectS, declsS, collectL_items kw b _]
    | _ => simp only [collectS, declsS, collectL_items kw b _]
theorem collectL_items (kw : Bool) : (l : List DS) → (path : List (List String)) → (collectL kw path l).map (·.items) = declsL l
  | [], path => by simp [collectL, declsL]
  | s :: t, path => by
    simp only [collectL, declsL, List.map_append, collectS_items kw s path, collectL_items kw t path]
end

mutual
theorem applyS_count (p : Plan) : (s : DS) → (n : Nat) → (applyS p s n).2 = n + (declsS s).length
  | .decl .var items, n => by simp [applyS, declsS]
  | .decl .let_ items, n => by simp [applyS, declsS]
  | .decl .const_ items, n => by simp [applyS, declsS]
  | .decl .hoisted items, n => by simp [applyS, declsS]
  | .expr e, n => by simp [applyS, declsS]
  | .ret e, n => by simp [applyS, declsS]
  | .throw e, n => by simp [applyS, declsS]
  | .fn name a ps body, n => by simp [applyS, declsS]
  | .empty, n => by simp [applyS, declsS]
  | .absent, n => by simp [applyS, declsS]
  | .ifS c t e, n => by
    simp only [applyS, declsS, List.length_append, applyS_count p e _, applyS_count p t n]
    omega
  | .block l, n => by simp only [applyS, declsS, applyL_count p l n]
  | .tryS b x a cb, n => by
    simp only [applyS, declsS, List.length_append, applyL_count p cb _, applyL_count p b n]
    omega
  | .forS w i c po b, n => by
    cases i with
    | decl k items =>
      cases k <;> simp only [applyS, declsS, List.length_cons, applyL_count p b _] <;> omega
    | empty =>
      simp only [applyS, declsS, List.length_append, List.length_cons, List.length_nil, applyL_count p b n]
      omega
    | _ => simp only [applyS, declsS, applyL_count p b n]
theorem applyL_count (p : Plan) : (l : List DS) → (n : Nat) → (applyL p l n).2 = n + (declsL l).length
  | [], n => by simp [applyL, declsL]
  | s :: t, n => by
    simp only [applyL, declsL, List.length_append, applyL_count p t _, applyS_count p s n]
    omega
end

/-- the `var` names that the declaration with index `n` contributes after hoisting -/
def actNames (p : Plan) (n : Nat) (items : List DE) : List String :=
  if n == p.best then p.pre ++ itemNames items ++ p.post
  else if p.hoist.getD n false then [] else itemNames items

def namesFrom (p : Plan) : Nat → List (List DE) → List String
  | _, [] => []
  | n, items :: t => actNames p n items ++ namesFrom p (n + 1) t

theorem namesFrom_append (p : Plan) : ∀ (a b : List (List DE)) (n : Nat),
    namesFrom p n (a ++ b) = namesFrom p n a ++ namesFrom p (n + a.length) b := by
  intro a
  induction a with
  | nil => intro b n; simp [namesFrom]
  | cons x t ih =>
    intro b n
    simp only [List.cons_append, namesFrom, ih, List.length_cons, List.append_assoc]
    congr 3
    omega

theorem itemNames_bares (l : List String) : itemNames (l.map bare) = l := by
  induction l with
  | nil => rfl
  | cons x t ih => simp [itemNames_cons, bare, itemName, ih]

theorem act_names (p : Plan) (n : Nat) (items : List DE) : varNamesS (p.act n items) = actNames p n items := by
  unfold Plan.act actNames
  split
  · simp [varNamesS, Plan.bestItems, itemNames_append, itemNames_bares]
  · split <;> simp [varNamesS]

theorem act_initNames (p : Plan) (n : Nat) (items : List DE) : forInitNames (p.act n items) = actNames p n items := by
  unfold Plan.act actNames
  split
  · simp [forInitNames, Plan.bestItems, itemNames_append, itemNames_bares]
  · split <;> simp [forInitNames]

/-- the head that an empty `for` head becomes -/
theorem emptyHead_names (p : Plan) (m : Nat) (y : String) :
    y ∈ forInitNames (if (m == p.best && !(p.bestItems []).isEmpty) = true
        then DS.decl DeclKind.var (p.bestItems []) else DS.empty) ↔ y ∈ actNames p m [] := by
  unfold actNames
  by_cases hb : (m == p.best) = true
  · by_cases he : (p.bestItems []).isEmpty = true
    · have h0 : p.bestItems [] = [] := List.isEmpty_iff.mp he
      have h1 : p.pre = [] ∧ p.post = [] := by
        simp only [Plan.bestItems, List.append_nil, List.append_eq_nil_iff, List.map_eq_nil_iff] at h0
        exact h0
      rw [if_neg (by simp [hb, he]), if_pos hb, h1.1, h1.2]
      simp [forInitNames, itemNames]
    · rw [if_pos (by simp [hb, he]), if_pos hb]
      simp only [forInitNames, Plan.bestItems, List.append_nil, itemNames_append, itemNames_bares]
      simp [itemNames]
  · rw [if_neg (by simp [hb]), if_neg hb]
    split <;> simp [forInitNames, itemNames]

mutual
theorem applyS_names (p : Plan) : (s : DS) → (n : Nat) → ∀ y,
    y ∈ varNamesS (applyS p s n).1 ↔ y ∈ namesFrom p n (declsS s)
  | .decl .var items, n => by intro y; simp [applyS, declsS, namesFrom, act_names]
  | .decl .let_ items, n => by intro y; simp [applyS, declsS, namesFrom, varNamesS]
  | .decl .const_ items, n => by intro y; simp [applyS, declsS, namesFrom, varNamesS]
  | .decl .hoisted items, n => by intro y; simp [applyS, declsS, namesFrom, varNamesS]
  | .expr e, n => by intro y; simp [applyS, declsS, namesFrom, varNamesS]
  | .ret e, n => by intro y; simp [applyS, declsS, namesFrom, varNamesS]
  | .throw e, n => by intro y; simp [applyS, declsS, namesFrom, varNamesS]
  | .fn name a ps body, n => by intro y; simp [applyS, declsS, namesFrom, varNamesS]
  | .empty, n => by intro y; simp [applyS, declsS, namesFrom, varNamesS]
  | .absent, n => by intro y; simp [applyS, declsS, namesFrom, varNamesS]
  | .ifS c t e, n => by
    intro y
    simp only [applyS, declsS, varNamesS, List.mem_append, namesFrom_append, applyS_names p t n y,
      applyS_names p e _ y, applyS_count p t n]
  | .block l, n => by
    intro y
    simp only [applyS, declsS, varNamesS, applyL_names p l n y]
  | .tryS b x a cb, n => by
    intro y
    simp only [applyS, declsS, varNamesS, List.mem_append, namesFrom_append, applyL_names p b n y,
      applyL_names p cb _ y, applyL_count p b n]
  | .forS w i c po b, n => by
    intro y
    cases i with
    | decl k items =>
      cases k with
      | var =>
        simp only [applyS, declsS, varNamesS, List.mem_append, namesFrom, act_initNames, applyL_names p b _ y]
      | _ => simp only [applyS, declsS, varNamesS, forInitNames, List.mem_append, List.not_mem_nil, false_or,
          applyL_names p b _ y]
    | empty =>
      simp only [applyS, declsS, namesFrom_append, List.mem_append, applyL_count p b n, namesFrom,
        List.append_nil, varNamesS]
      rw [applyL_names p b n y, emptyHead_names]
      constructor
      · rintro (h | h)
        · exact Or.inr h
        · exact Or.inl h
      · rintro (h | h)
        · exact Or.inr h
        · exact Or.inl h
    | _ => simp only [applyS, declsS, varNamesS, forInitNames, List.mem_append, List.not_mem_nil, false_or,
        applyL_names p b _ y]
theorem applyL_names (p : Plan) : (l : List DS) → (n : Nat) → ∀ y,
    y ∈ varNamesL (applyL p l n).1 ↔ y ∈ namesFrom p n (declsL l)
  | [], n => by intro y; simp [applyL, declsL, namesFrom, varNamesL]
  | s :: t, n => by
    intro y
    simp only [applyL, declsL, varNamesL, List.mem_append, namesFrom_append, applyS_names p s n y,
      applyL_names p t _ y, applyS_count p s n]
end

mutual
theorem varNamesS_decls : (s : DS) → ∀ y, y ∈ varNamesS s ↔ y ∈ (declsS s).flatMap itemNames
  | .decl .var items => by intro y; simp [varNamesS, declsS]
  | .decl .let_ items => by intro y; simp [varNamesS, declsS]
  | .decl .const_ items => by intro y; simp [varNamesS, declsS]
  | .decl .hoisted items => by intro y; simp [varNamesS, declsS]
  | .expr e => by intro y; simp [varNamesS, declsS]
  | .ret e => by intro y; simp [varNamesS, declsS]
  | .throw e => by intro y; simp [varNamesS, declsS]
  | .fn name a ps body => by intro y; simp [varNamesS, declsS]
  | .empty => by intro y; simp [varNamesS, declsS]
  | .absent => by intro y; simp [varNamesS, declsS]
  | .ifS c t e => by
    intro y
    simp only [varNamesS, declsS, List.mem_append, List.flatMap_append, varNamesS_decls t y, varNamesS_decls e y]
  | .block l => by intro y; simp only [varNamesS, declsS, varNamesL_decls l y]
  | .tryS b x a cb => by
    intro y
    simp only [varNamesS, declsS, List.mem_append, List.flatMap_append, varNamesL_decls b y, varNamesL_decls cb y]
  | .forS w i c po b => by
    intro y
    cases i with
    | decl k items =>
      cases k <;> simp [varNamesS, forInitNames, declsS, varNamesL_decls b y]
    | empty => simp [varNamesS, forInitNames, declsS, varNamesL_decls b y, itemNames]
    | _ => simp [varNamesS, forInitNames, declsS, varNamesL_decls b y]
theorem varNamesL_decls : (l : List DS) → ∀ y, y ∈ varNamesL l ↔ y ∈ (declsL l).flatMap itemNames
  | [] => by intro y; simp [varNamesL, declsL]
  | s :: t => by
    intro y
    simp only [varNamesL, declsL, List.mem_append, List.flatMap_append, varNamesS_decls s y, varNamesL_decls t y]
end

/-! ### the plan -/

theorem newNames_spec : ∀ (items : List DE) (orig : List String),
    (newNames orig items).2 = orig ++ (newNames orig items).1 ∧
    (∀ y, y ∈ (newNames orig items).1 → y ∈ itemNames items) ∧
    (∀ y, y ∈ itemNames items → y ∈ orig ∨ y ∈ (newNames orig items).1) := by
  intro items
  induction items with
  | nil => intro orig; simp [newNames, itemNames]
  | cons it t ih =>
    intro orig
    cases hx : itemName it with
    | none =>
      have := ih orig
      simp only [newNames, hx, mem_itemNames_cons]
      refine ⟨this.1, fun y hy => Or.inr (this.2.1 y hy), fun y hy => ?_⟩
      rcases hy with hy | hy
      · cases hy
      · exact this.2.2 y hy
    | some x =>
      by_cases hc : orig.contains x = true
      · have := ih orig
        simp only [newNames, hx, hc, if_true, mem_itemNames_cons]
        refine ⟨this.1, fun y hy => Or.inr (this.2.1 y hy), fun y hy => ?_⟩
        rcases hy with hy | hy
        · have : x = y := by simpa using hy
          subst this
          exact Or.inl (by simpa using hc)
        · exact this.2.2 y hy
      · have := ih (orig ++ [x])
        simp only [newNames, hx, hc, mem_itemNames_cons]
        refine ⟨?_, fun y hy => ?_, fun y hy => ?_⟩
        · simp [this.1]
        · rcases List.mem_cons.mp hy with hy | hy
          · exact Or.inl (by rw [hy])
          · exact Or.inr (this.2.1 y hy)
        · rcases hy with hy | hy
          · have : x = y := by simpa using hy
            subst this
            exact Or.inr (List.mem_cons_self)
          · rcases this.2.2 y hy with h | h
            · rcases List.mem_append.mp h with h | h
              · exact Or.inl h
              · have : y = x := by simpa using h
                subst this
                exact Or.inr (List.mem_cons_self)
            · exact Or.inr (List.mem_cons_of_mem _ h)

/-- the names of the declarations whose flag is set -/
def hoistedNames : List Bool → List DeclInfo → List String
  | true :: fs, d :: ds => itemNames d.items ++ hoistedNames fs ds
  | false :: fs, _ :: ds => hoistedNames fs ds
  | _, _ => []

theorem hoistedNames_sub : ∀ (fs : List Bool) (ds : List DeclInfo) (y : String),
    y ∈ hoistedNames fs ds → y ∈ (ds.map (·.items)).flatMap itemNames := by
  intro fs
  induction fs with
  | nil => intro ds y h; cases ds <;> simp [hoistedNames] at h
  | cons f t ih =>
    intro ds y h
    cases ds with
    | nil => cases f <;> simp [hoistedNames] at h
    | cons d ds =>
      cases f with
      | true =>
        simp only [hoistedNames, List.mem_append] at h
        simp only [List.map_cons, List.flatMap_cons, List.mem_append]
        rcases h with h | h
        · exact Or.inl h
        · exact Or.inr (ih ds y h)
      | false =>
        simp only [hoistedNames] at h
        simp only [List.map_cons, List.flatMap_cons, List.mem_append]
        exact Or.inr (ih ds y h)

theorem planLoop_spec (best : Nat) (target : DeclInfo) :
    ∀ (ds : List DeclInfo) (hs : List Bool) (i : Nat) (orig pre post : List String),
      let r := planLoop best target ds hs i orig pre post
      (∀ y, y ∈ pre → y ∈ r.2.1) ∧ (∀ y, y ∈ post → y ∈ r.2.2) ∧
      (∀ y, y ∈ r.2.1 ∨ y ∈ r.2.2 → y ∈ pre ∨ y ∈ post ∨ y ∈ hoistedNames r.1 ds) ∧
      (∀ y, y ∈ hoistedNames r.1 ds → y ∈ orig ∨ y ∈ r.2.1 ∨ y ∈ r.2.2) := by
  intro ds
  induction ds with
  | nil =>
    intro hs i orig pre post
    simp only [planLoop, hoistedNames]
    refine ⟨fun y h => h, fun y h => h, fun y h => ?_, fun y h => ?_⟩
    · rcases h with h | h
      · exact Or.inl h
      · exact Or.inr (Or.inl h)
    · cases h
  | cons d ds ih =>
    intro hs i orig pre post
    cases hs with
    | nil =>
      simp only [planLoop, hoistedNames]
      refine ⟨fun y h => h, fun y h => h, fun y h => ?_, fun y h => ?_⟩
      · rcases h with h | h
        · exact Or.inl h
        · exact Or.inr (Or.inl h)
      · cases h
    | cons h hs =>
      by_cases h1 : (h && !isShadowed d target) = true
      · have nn := newNames_spec d.items orig
        by_cases hlt : i < best
        · have := ih hs (i + 1) (newNames orig d.items).2 (pre ++ (newNames orig d.items).1) post
          simp only [planLoop, h1, if_true, hlt, hoistedNames, List.mem_append] at this ⊢
          obtain ⟨m1, m2, p2, p3⟩ := this
          refine ⟨fun y hy => m1 y (Or.inl hy), m2, fun y hy => ?_, fun y hy => ?_⟩
          · rcases p2 y hy with (h | h) | h | h
            · exact Or.inl h
            · exact Or.inr (Or.inr (Or.inl (nn.2.1 y h)))
            · exact Or.inr (Or.inl h)
            · exact Or.inr (Or.inr (Or.inr h))
          · rcases hy with hy | hy
            · rcases nn.2.2 y hy with h | h
              · exact Or.inl h
              · exact Or.inr (Or.inl (m1 y (Or.inr h)))
            · rcases p3 y hy with h | h
              · rw [nn.1] at h
                rcases List.mem_append.mp h with h | h
                · exact Or.inl h
                · exact Or.inr (Or.inl (m1 y (Or.inr h)))
              · exact Or.inr h
        · have := ih hs (i + 1) (newNames orig d.items).2 pre (post ++ (newNames orig d.items).1)
          simp only [planLoop, h1, if_true, hlt, if_false, hoistedNames, List.mem_append] at this ⊢
          obtain ⟨m1, m2, p2, p3⟩ := this
          refine ⟨m1, fun y hy => m2 y (Or.inl hy), fun y hy => ?_, fun y hy => ?_⟩
          · rcases p2 y hy with h | (h | h) | h
            · exact Or.inl h
            · exact Or.inr (Or.inl h)
            · exact Or.inr (Or.inr (Or.inl (nn.2.1 y h)))
            · exact Or.inr (Or.inr (Or.inr h))
          · rcases hy with hy | hy
            · rcases nn.2.2 y hy with h | h
              · exact Or.inl h
              · exact Or.inr (Or.inr (m2 y (Or.inr h)))
            · rcases p3 y hy with h | h
              · rw [nn.1] at h
                rcases List.mem_append.mp h with h | h
                · exact Or.inl h
                · exact Or.inr (Or.inr (m2 y (Or.inr h)))
              · exact Or.inr h
      · have := ih hs (i + 1) orig pre post
        have h1' : (h && !isShadowed d target) = false := by simpa using h1
        simp only [planLoop, h1', Bool.false_eq_true, if_false, hoistedNames] at this ⊢
        exact this

theorem bestFrom_lt : ∀ (t : List Int) (i b : Nat) (bs : Int), b < i → bestFrom t i b bs < i + t.length := by
  intro t
  induction t with
  | nil => intro i b bs h; simpa [bestFrom] using h
  | cons sc t ih =>
    intro i b bs h
    simp only [bestFrom, List.length_cons]
    split
    · have := ih (i + 1) i sc (by omega)
      omega
    · have := ih (i + 1) b bs (by omega)
      omega

theorem bestIdx_lt (scores : List Int) (h : 0 < scores.length) : bestIdx scores < scores.length := by
  cases scores with
  | nil => simp at h
  | cons s0 t =>
    simp only [bestIdx, List.length_cons]
    have := bestFrom_lt t 1 0 s0 (by omega)
    omega

/-- the names contributed from index `n` on, by recursion over the flags -/
def namesZ (best : Nat) (pre post : List String) : List Bool → List DeclInfo → Nat → List String
  | fl, d :: t, n =>
    (if n == best then pre ++ itemNames d.items ++ post
     else if fl.headD false then [] else itemNames d.items) ++ namesZ best pre post fl.tail t (n + 1)
  | _, [], _ => []

theorem getD_drop (l : List Bool) (n : Nat) : l.getD n false = (l.drop n).headD false := by
  induction l generalizing n with
  | nil => simp
  | cons a t ih =>
    cases n with
    | zero => simp
    | succ n => simpa using ih n

theorem namesFrom_eq (p : Plan) : ∀ (ds : List DeclInfo) (n : Nat),
    namesFrom p n (ds.map (·.items)) = namesZ p.best p.pre p.post (p.hoist.drop n) ds n := by
  intro ds
  induction ds with
  | nil => intro n; simp [namesFrom, namesZ]
  | cons d t ih =>
    intro n
    simp only [List.map_cons, namesFrom, namesZ, actNames, ih (n + 1), getD_drop, List.tail_drop]

/-- every name that `namesZ` yields is a prepended / appended name or a name of one of the declarations -/
theorem namesZ_sub (best : Nat) (pre post : List String) : ∀ (ds : List DeclInfo) (fl : List Bool) (n : Nat) (y : String),
    y ∈ namesZ best pre post fl ds n → y ∈ pre ∨ y ∈ post ∨ y ∈ (ds.map (·.items)).flatMap itemNames := by
  intro ds
  induction ds with
  | nil => intro fl n y h; simp [namesZ] at h
  | cons d t ih =>
    intro fl n y h
    simp only [namesZ, List.mem_append] at h
    simp only [List.map_cons, List.flatMap_cons, List.mem_append]
    rcases h with h | h
    · split at h
      · simp only [List.mem_append] at h
        rcases h with (h | h) | h
        · exact Or.inl h
        · exact Or.inr (Or.inr (Or.inl h))
        · exact Or.inr (Or.inl h)
      · split at h
        · cases h
        · exact Or.inr (Or.inr (Or.inl h))
    · rcases ih _ _ y h with h | h | h
      · exact Or.inl h
      · exact Or.inr (Or.inl h)
      · exact Or.inr (Or.inr (Or.inr h))

/-- the best declaration contributes the prepended names, its own and the appended ones -/
theorem namesZ_best (best : Nat) (pre post : List String) : ∀ (ds : List DeclInfo) (fl : List Bool) (n : Nat)
    (hn : n ≤ best) (hb : best < n + ds.length) (y : String),
    (y ∈ pre ∨ y ∈ itemNames (ds.getD (best - n) default).items ∨ y ∈ post) → y ∈ namesZ best pre post fl ds n := by
  intro ds
  induction ds with
  | nil => intro fl n hn hb; simp at hb; omega
  | cons d t ih =>
    intro fl n hn hb y h
    simp only [namesZ, List.mem_append]
    by_cases he : n = best
    · subst he
      left
      simp only [beq_self_eq_true, if_true, List.mem_append]
      simp only [Nat.sub_self, List.getD_cons_zero] at h
      rcases h with h | h | h
      · exact Or.inl (Or.inl h)
      · exact Or.inl (Or.inr h)
      · exact Or.inr h
    · right
      have hlen : best < (n + 1) + t.length := by simp only [List.length_cons] at hb; omega
      apply ih fl.tail (n + 1) (by omega) hlen y
      have : best - n = (best - (n + 1)) + 1 := by omega
      rw [this, List.getD_cons_succ] at h
      exact h

/-- a name of a declaration is contributed by it, or the declaration is hoisted -/
theorem namesZ_own (best : Nat) (pre post : List String) : ∀ (ds : List DeclInfo) (fl : List Bool) (n : Nat) (y : String),
    y ∈ (ds.map (·.items)).flatMap itemNames →
      y ∈ namesZ best pre post fl ds n ∨ y ∈ hoistedNames fl ds := by
  intro ds
  induction ds with
  | nil => intro fl n y h; simp at h
  | cons d t ih =>
    intro fl n y h
    simp only [List.map_cons, List.flatMap_cons, List.mem_append] at h
    simp only [namesZ, List.mem_append]
    rcases h with h | h
    · by_cases he : (n == best) = true
      · left; left
        simp only [he, if_true, List.mem_append]
        exact Or.inl (Or.inr h)
      · cases fl with
        | nil =>
          left; left
          simp only [he, Bool.false_eq_true, if_false, List.headD_nil]
          exact h
        | cons f fl =>
          cases f with
          | true => right; simp only [hoistedNames, List.mem_append]; exact Or.inl h
          | false =>
            left; left
            simp only [he, Bool.false_eq_true, if_false, List.headD_cons]
            exact h
    · rcases ih fl.tail (n + 1) y h with h2 | h2
      · exact Or.inl (Or.inr h2)
      · right
        cases fl with
        | nil => simp [hoistedNames] at h2
        | cons f fl =>
          cases f with
          | true => simp only [hoistedNames, List.mem_append]; exact Or.inr (by simpa using h2)
          | false => simpa [hoistedNames] using h2

/-- **`hoistVars` keeps the set of `var` names of the function** -/
theorem hoist_names (kw : Bool) (body : List DS) (y : String) :
    y ∈ varNamesL (hoistBodyG kw body) ↔ y ∈ varNamesL body := by
  unfold hoistBodyG
  cases hp : plan (collectL kw [] body) with
  | none => rfl
  | some p =>
    simp only
    rw [applyL_names p body 0 y, varNamesL_decls body y, ← collectL_items kw body [], namesFrom_eq]
    generalize hds : collectL kw [] body = ds at hp
    -- unfold the plan
    unfold plan at hp
    split at hp
    · cases hp
    · rename_i hlen
      simp only [Option.some.injEq] at hp
      subst hp
      simp only [List.drop_zero]
      have hbest : bestIdx (ds.map score) < ds.length := by
        have := bestIdx_lt (ds.map score) (by simp; omega)
        simpa using this
      have spec := planLoop_spec (bestIdx (ds.map score)) (ds.getD (bestIdx (ds.map score)) default) ds
        (flagsFrom (bestIdx (ds.map score)) (ds.map score) 0) 0
        (itemNames (ds.getD (bestIdx (ds.map score)) default).items) [] []
      simp only [List.not_mem_nil, false_or] at spec
      obtain ⟨_, _, p2, p3⟩ := spec
      constructor
      · intro h
        rcases namesZ_sub _ _ _ ds _ 0 y h with h | h | h
        · exact hoistedNames_sub _ _ y (p2 y (Or.inl h))
        · exact hoistedNames_sub _ _ y (p2 y (Or.inr h))
        · exact h
      · intro h
        rcases namesZ_own (bestIdx (ds.map score)) _ _ ds _ 0 y h with h | h
        · exact h
        · apply namesZ_best _ _ _ ds _ 0 (by omega) (by omega) y
          simp only [Nat.sub_zero]
          rcases p3 y h with h | h | h
          · exact Or.inr (Or.inl h)
          · exact Or.inl h
          · exact Or.inr (Or.inr h)

end Verif.Proofs.JsDecl

import Verif.Proofs.JsNumberBase
/-!
# C01N — structured decimal lexemes and the specification parser on them

`DLex` = integer part, optional fraction, optional exponent.  `decParts_str`: the specification's
splitter `decParts` recovers the three parts of `l.str` whenever the parts consist of digits and
separators; everything the specification computes on a decimal lexeme follows by rewriting with it.
-/
namespace Verif.Proofs.JsNumber
open Verif.Spec.JsNumberSem

/-- digits and separators only -/
def AllDS (l : List Char) : Prop := ∀ c ∈ l, c.isDigit = true ∨ c = '_'

theorem AllDig.allDS {l : List Char} (h : AllDig l) : AllDS l := fun c hc => Or.inl (h c hc)

structure DLex where
  ip : List Char
  fp : Option (List Char)
  ex : Option (Char × List Char × List Char)

def DLex.dotPart (l : DLex) : List Char :=
  match l.fp with
  | none => []
  | some f => '.' :: f

def DLex.exPart (l : DLex) : List Char :=
  match l.ex with
  | none => []
  | some (c, sg, d) => c :: (sg ++ d)

def DLex.str (l : DLex) : List Char := l.ip ++ (l.dotPart ++ l.exPart)

/-- the text after the exponent indicator -/
def DLex.exText (l : DLex) : Option (List Char) := l.ex.map (fun x => x.2.1 ++ x.2.2)

structure DLex.Shape (l : DLex) : Prop where
  ip : AllDS l.ip
  fp : ∀ f, l.fp = some f → AllDS f
  ex : ∀ c sg d, l.ex = some (c, sg, d) →
    (c = 'e' ∨ c = 'E') ∧ (sg = [] ∨ sg = ['+'] ∨ sg = ['-']) ∧ AllDS d

theorem ds_notDotE {c : Char} (h : c.isDigit = true ∨ c = '_') : notDotE c = true := by
  rcases h with h | h
  · have h1 : c ≠ '.' := digit_ne h (by decide)
    have h2 : c ≠ 'e' := digit_ne h (by decide)
    have h3 : c ≠ 'E' := digit_ne h (by decide)
    simp [notDotE, h1, h2, h3]
  · subst h; decide

theorem ds_notE {c : Char} (h : c.isDigit = true ∨ c = '_') : notE c = true := by
  rcases h with h | h
  · have h2 : c ≠ 'e' := digit_ne h (by decide)
    have h3 : c ≠ 'E' := digit_ne h (by decide)
    simp [notE, h2, h3]
  · subst h; decide

theorem exPart_head (l : DLex) (h : l.Shape) : ∀ c t, l.exPart = c :: t → c = 'e' ∨ c = 'E' := by
  intro c t hc
  unfold DLex.exPart at hc
  split at hc
  · cases hc
  · rename_i c' sg d hex
    injection hc with h1 _
    subst h1
    exact (h.ex _ _ _ hex).1

theorem exPart_afterE (l : DLex) : afterE l.exPart = l.exText := by
  unfold DLex.exPart DLex.exText afterE
  cases l.ex with
  | none => rfl
  | some x => obtain ⟨c, sg, d⟩ := x; rfl

theorem decParts_str (l : DLex) (h : l.Shape) :
    decParts l.str = { ip := l.ip, fp := l.fp, ex := l.exText } := by
  have hip : ∀ x ∈ l.ip, notDotE x = true := fun x hx => ds_notDotE (h.ip x hx)
  have hstop : ∀ c t, l.dotPart ++ l.exPart = c :: t → notDotE c = false := by
    intro c t hc
    unfold DLex.dotPart at hc
    split at hc
    · simp only [List.nil_append] at hc
      rcases exPart_head l h c t hc with e | e <;> subst e <;> decide
    · simp only [List.cons_append] at hc
      injection hc with h1 _; subst h1; decide
  unfold decParts DLex.str
  rw [takeWhile_append_stop hip hstop, dropWhile_append_stop hip hstop]
  cases hfp : l.fp with
  | none =>
    have hd : l.dotPart = [] := by unfold DLex.dotPart; rw [hfp]
    rw [hd, List.nil_append]
    cases hex : l.exPart with
    | nil =>
      have := exPart_afterE l; rw [hex] at this
      simp [← this]
    | cons c t =>
      have hc := exPart_head l h c t hex
      have := exPart_afterE l; rw [hex] at this
      rcases hc with e | e <;> subst e <;> simp [← this]
  | some f =>
    have hd : l.dotPart = '.' :: f := by unfold DLex.dotPart; rw [hfp]
    rw [hd]
    have hf : ∀ x ∈ f, notE x = true := fun x hx => ds_notE (h.fp f hfp x hx)
    have hstop2 : ∀ c t, l.exPart = c :: t → notE c = false := by
      intro c t hc
      rcases exPart_head l h c t hc with e | e <;> subst e <;> decide
    simp only [List.cons_append]
    rw [takeWhile_append_stop hf hstop2, dropWhile_append_stop hf hstop2, exPart_afterE]

/-! ## `sepDigits`, `stripSep` -/

theorem stripSep_append (a b : List Char) : stripSep (a ++ b) = stripSep a ++ stripSep b := by
  unfold stripSep; simp

theorem stripSep_cons_ne {c : Char} (l : List Char) (h : c ≠ '_') : stripSep (c :: l) = c :: stripSep l := by
  unfold stripSep; simp [h]

theorem stripSep_cons_sep (l : List Char) : stripSep ('_' :: l) = stripSep l := by
  unfold stripSep; simp

theorem stripSep_of_allDig {l : List Char} (h : AllDig l) : stripSep l = l := by
  unfold stripSep
  rw [List.filter_eq_self]
  intro c hc
  have : c ≠ '_' := digit_ne (h c hc) (by decide)
  simp [this]

theorem stripSep_idem (l : List Char) : stripSep (stripSep l) = stripSep l := by
  unfold stripSep; simp

theorem mem_stripSep {l : List Char} {c : Char} : c ∈ stripSep l ↔ c ∈ l ∧ c ≠ '_' := by
  unfold stripSep; simp

theorem stripSep_allDig {l : List Char} (h : AllDS l) : AllDig (stripSep l) := by
  intro c hc
  obtain ⟨h1, h2⟩ := mem_stripSep.mp hc
  rcases h c h1 with h | h
  · exact h
  · exact absurd h h2

theorem sepDigitsAux_spec {p : Char → Bool} (hp : p '_' = false) :
    ∀ (l : List Char) (prev : Bool), sepDigitsAux p prev l = true →
      (∀ c ∈ l, p c = true ∨ c = '_') ∧ (prev = false → stripSep l ≠ []) := by
  intro l
  induction l with
  | nil =>
    intro prev h
    unfold sepDigitsAux at h
    subst h
    exact ⟨(by intro c hc; cases hc), (by intro h; cases h)⟩
  | cons c r ih =>
    intro prev h
    unfold sepDigitsAux at h
    by_cases hc : p c = true
    · rw [if_pos hc] at h
      obtain ⟨h1, _⟩ := ih true h
      have hne : c ≠ '_' := by intro e; subst e; rw [hp] at hc; cases hc
      refine ⟨?_, ?_⟩
      · intro x hx
        rcases List.mem_cons.mp hx with e | e
        · subst e; exact Or.inl hc
        · exact h1 x e
      · intro _; rw [stripSep_cons_ne r hne]; simp
    · rw [if_neg hc] at h
      by_cases hs : (c == '_' && prev) = true
      · rw [if_pos hs] at h
        obtain ⟨h1, h2⟩ := ih false h
        simp only [Bool.and_eq_true, beq_iff_eq] at hs
        obtain ⟨hs1, hs2⟩ := hs
        subst hs1
        refine ⟨?_, ?_⟩
        · intro x hx
          rcases List.mem_cons.mp hx with e | e
          · subst e; exact Or.inr rfl
          · exact h1 x e
        · intro hprev; rw [hs2] at hprev; cases hprev
      · rw [if_neg hs] at h; cases h

theorem sepDigits_spec {p : Char → Bool} (hp : p '_' = false) {l : List Char} (h : sepDigits p l = true) :
    (∀ c ∈ l, p c = true ∨ c = '_') ∧ stripSep l ≠ [] := by
  obtain ⟨h1, h2⟩ := sepDigitsAux_spec hp l false h
  exact ⟨h1, h2 rfl⟩

theorem sepDigitsAux_of_all {p : Char → Bool} : ∀ (l : List Char) (prev : Bool),
    (∀ c ∈ l, p c = true) → (prev = true ∨ l ≠ []) → sepDigitsAux p prev l = true := by
  intro l
  induction l with
  | nil =>
    intro prev _ h
    rcases h with h | h
    · unfold sepDigitsAux; exact h
    · exact absurd rfl h
  | cons c r ih =>
    intro prev hall _
    unfold sepDigitsAux
    rw [if_pos (hall c (by simp))]
    exact ih true (fun x hx => hall x (by simp [hx])) (Or.inl rfl)

theorem sepDigits_of_all {p : Char → Bool} {l : List Char} (h : ∀ c ∈ l, p c = true) (hne : l ≠ []) :
    sepDigits p l = true := sepDigitsAux_of_all l false h (Or.inr hne)

theorem sepDigits_isDigit_spec {l : List Char} (h : sepDigits Char.isDigit l = true) :
    AllDS l ∧ stripSep l ≠ [] := sepDigits_spec (by decide) h

/-! ## character sets: no radix prefix, no suffix -/

/-- characters of a decimal lexeme -/
def DecChar (c : Char) : Prop :=
  c.isDigit = true ∨ c = '_' ∨ c = '.' ∨ c = 'e' ∨ c = 'E' ∨ c = '+' ∨ c = '-'

theorem DecChar.ne_of {c d : Char} (h : DecChar c) (hd : d.isDigit = false) (h1 : d ≠ '_') (h2 : d ≠ '.')
    (h3 : d ≠ 'e') (h4 : d ≠ 'E') (h5 : d ≠ '+') (h6 : d ≠ '-') : c ≠ d := by
  intro e; subst e
  rcases h with h | h | h | h | h | h | h
  · rw [h] at hd; cases hd
  all_goals contradiction

theorem radixPrefix_none {b : List Char} (h : ∀ c ∈ b, DecChar c) : radixPrefix b = none := by
  unfold radixPrefix
  split
  · rename_i c r
    have hc : DecChar c := h c (by simp)
    have n1 : c ≠ 'x' := hc.ne_of (by decide) (by decide) (by decide) (by decide) (by decide) (by decide) (by decide)
    have n2 : c ≠ 'X' := hc.ne_of (by decide) (by decide) (by decide) (by decide) (by decide) (by decide) (by decide)
    have n3 : c ≠ 'o' := hc.ne_of (by decide) (by decide) (by decide) (by decide) (by decide) (by decide) (by decide)
    have n4 : c ≠ 'O' := hc.ne_of (by decide) (by decide) (by decide) (by decide) (by decide) (by decide) (by decide)
    have n5 : c ≠ 'b' := hc.ne_of (by decide) (by decide) (by decide) (by decide) (by decide) (by decide) (by decide)
    have n6 : c ≠ 'B' := hc.ne_of (by decide) (by decide) (by decide) (by decide) (by decide) (by decide) (by decide)
    simp [n1, n2, n3, n4, n5, n6]
  · rfl

theorem splitSuffix_none {b : List Char} (h : ∀ c ∈ b, DecChar c) : splitSuffix b = (b, false) := by
  unfold splitSuffix
  cases hl : b.getLast? with
  | none => rfl
  | some c =>
    have hc : DecChar c := h c (List.mem_of_getLast? hl)
    have : c ≠ 'n' := hc.ne_of (by decide) (by decide) (by decide) (by decide) (by decide) (by decide) (by decide)
    split
    · rename_i heq; injection heq with heq; exact absurd heq this
    · rfl

theorem splitSuffix_snoc (b : List Char) : splitSuffix (b ++ ['n']) = (b, true) := by
  unfold splitSuffix
  simp

theorem DLex.decChar (l : DLex) (h : l.Shape) : ∀ c ∈ l.str, DecChar c := by
  intro c hc
  unfold DLex.str at hc
  rcases List.mem_append.mp hc with hc | hc
  · rcases h.ip c hc with e | e
    · exact Or.inl e
    · exact Or.inr (Or.inl e)
  · rcases List.mem_append.mp hc with hc | hc
    · unfold DLex.dotPart at hc
      split at hc
      · cases hc
      · rename_i f hf
        rcases List.mem_cons.mp hc with e | e
        · exact Or.inr (Or.inr (Or.inl e))
        · rcases h.fp f hf c e with e | e
          · exact Or.inl e
          · exact Or.inr (Or.inl e)
    · unfold DLex.exPart at hc
      split at hc
      · cases hc
      · rename_i c' sg d hex
        obtain ⟨h1, h2, h3⟩ := h.ex _ _ _ hex
        rcases List.mem_cons.mp hc with e | e
        · subst e
          rcases h1 with e | e
          · exact Or.inr (Or.inr (Or.inr (Or.inl e)))
          · exact Or.inr (Or.inr (Or.inr (Or.inr (Or.inl e))))
        · rcases List.mem_append.mp e with e | e
          · rcases h2 with s | s | s <;> subst s
            · cases e
            · simp at e; exact Or.inr (Or.inr (Or.inr (Or.inr (Or.inr (Or.inl e)))))
            · simp at e; exact Or.inr (Or.inr (Or.inr (Or.inr (Or.inr (Or.inr e)))))
          · rcases h3 c e with e | e
            · exact Or.inl e
            · exact Or.inr (Or.inl e)

end Verif.Proofs.JsNumber

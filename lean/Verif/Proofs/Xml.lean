import Verif.Model.Xml
import Verif.Spec.Xml
/-!
# Helper lemmas for C06 (core Lean only)

A. lists;  B. the specification decoder is compositional over grammar units;  C. the model scanner
(`parse.ReplaceEntities…`) over grammar units;  D. `canonGo` over runs of characters;  E. per-token lemmas.
-/
namespace Verif.Proofs.Xml
open Verif.Xml (XTok)
open Verif.Spec.Xml
open Verif.Model.Xml
open Verif.Gen

/-! ## A. lists -/

theorem takeWhile_append_stop {α} (p : α → Bool) (l : List α) (c : α) (X : List α)
    (hl : ∀ x ∈ l, p x = true) (hc : p c = false) : (l ++ c :: X).takeWhile p = l := by
  induction l with
  | nil => simp [hc]
  | cons a l ih =>
    have ha : p a = true := hl a (by simp)
    simp only [List.cons_append, List.takeWhile_cons, ha, if_true]
    rw [ih (fun x hx => hl x (by simp [hx]))]

theorem drop_length_append {α} (l X : List α) : (l ++ X).drop l.length = X := by
  simp

/-! ## B. the specification decoder over units -/

theorem decodeGo_skip (a : Bool) (n : Nat) (l : List Char) :
    decodeGo a n l = decodeGo a 0 (l.drop n) := by
  induction n generalizing l with
  | zero => simp
  | succ n ih =>
    cases l with
    | nil => simp [decodeGo]
    | cons c r => simp only [decodeGo, List.drop_succ_cons]; exact ih r

theorem isDig_not_semicolon : isDig ';' = false := by decide
theorem isHex_not_semicolon : isHex ';' = false := by decide
theorem isNameChar_not_semicolon : isNameChar ';' = false := by decide

theorem numRef_dec (ds X : List Char) (h1 : ds ≠ []) (h2 : ∀ c ∈ ds, isDig c = true) :
    numRef ('#' :: (ds ++ ';' :: X)) = some (numVal 10 ds, ds.length + 2) := by
  cases ds with
  | nil => exact absurd rfl h1
  | cons d0 ds' =>
    have hd0 : isDig d0 = true := h2 d0 (by simp)
    have hx : d0 ≠ 'x' := by
      intro h; subst h; revert hd0; decide
    have htw : ((d0 :: ds') ++ ';' :: X).takeWhile isDig = d0 :: ds' :=
      takeWhile_append_stop isDig (d0 :: ds') ';' X h2 isDig_not_semicolon
    unfold numRef
    split
    · next r2 heq =>
      simp only [List.cons_append, List.cons.injEq, true_and] at heq
      exact absurd heq.1 hx
    · next r2 heq =>
      simp only [List.cons.injEq, true_and] at heq
      subst heq
      simp only [htw]
      have : ((d0 :: ds') ++ ';' :: X).drop (d0 :: ds').length = ';' :: X := drop_length_append _ _
      rw [this]
      simp
    · next _ h => exact absurd rfl (h _)

theorem numRef_hex (ds X : List Char) (h1 : ds ≠ []) (h2 : ∀ c ∈ ds, isHex c = true) :
    numRef ('#' :: 'x' :: (ds ++ ';' :: X)) = some (numVal 16 ds, ds.length + 3) := by
  have htw : (ds ++ ';' :: X).takeWhile isHex = ds :=
    takeWhile_append_stop isHex ds ';' X h2 isHex_not_semicolon
  simp only [numRef, htw, drop_length_append]
  cases ds with
  | nil => exact absurd rfl h1
  | cons d0 ds' => simp

theorem numRef_named (nm X : List Char) (h1 : nm ≠ []) (h2 : ∀ c ∈ nm, isNameChar c = true) :
    numRef (nm ++ ';' :: X) = none := by
  cases nm with
  | nil => exact absurd rfl h1
  | cons n0 nm' =>
    have : n0 ≠ '#' := by
      intro h; subst h
      have := h2 '#' (by simp)
      revert this; decide
    unfold numRef
    split
    · next r2 heq => simp only [List.cons_append, List.cons.injEq] at heq; exact absurd heq.1 this
    · next r2 heq => simp only [List.cons_append, List.cons.injEq] at heq; exact absurd heq.1 this
    · rfl

theorem specRef_dec (ds X : List Char) (h1 : ds ≠ []) (h2 : ∀ c ∈ ds, isDig c = true) :
    specRef ('#' :: (ds ++ ';' :: X)) = some (DCh.c (numVal 10 ds), ds.length + 2) := by
  simp [specRef, numRef_dec ds X h1 h2]

theorem specRef_hex (ds X : List Char) (h1 : ds ≠ []) (h2 : ∀ c ∈ ds, isHex c = true) :
    specRef ('#' :: 'x' :: (ds ++ ';' :: X)) = some (DCh.c (numVal 16 ds), ds.length + 3) := by
  simp [specRef, numRef_hex ds X h1 h2]

theorem specRef_named (nm X : List Char) (h1 : nm ≠ []) (h2 : ∀ c ∈ nm, isNameChar c = true) :
    specRef (nm ++ ';' :: X) = some (XUnit.val false (.named nm), nm.length + 1) := by
  have htw : (nm ++ ';' :: X).takeWhile isNameChar = nm :=
    takeWhile_append_stop isNameChar nm ';' X h2 isNameChar_not_semicolon
  cases nm with
  | nil => exact absurd rfl h1
  | cons n0 nm' =>
    have hn : n0 ≠ '#' := by
      intro h; subst h
      have := h2 '#' (by simp)
      revert this; decide
    unfold specRef
    split
    · next r2 heq => simp only [List.cons_append, List.cons.injEq] at heq; exact absurd heq.1 hn
    · simp only [htw, drop_length_append, XUnit.val]
      cases predefined (n0 :: nm') <;> simp

theorem val_named_attr (a : Bool) (nm : List Char) : XUnit.val a (.named nm) = XUnit.val false (.named nm) := rfl

/-- the decoder reads one grammar unit -/
theorem decodeGo_unit (a : Bool) (u : XUnit) (hu : u.ok = true) (Y : List Char) :
    decodeGo a 0 (u.chars ++ Y) = u.val a :: decodeGo a 0 Y := by
  cases u with
  | lit c =>
    simp only [XUnit.ok, litOk, Bool.and_eq_true, bne_iff_ne, ne_eq] at hu
    have hc : (c == '&') = false := by simpa using hu.1.2
    simp [XUnit.chars, decodeGo, hc, XUnit.val]
  | named nm =>
    simp only [XUnit.ok, Bool.and_eq_true, Bool.not_eq_true', List.isEmpty_eq_false_iff, List.all_eq_true] at hu
    have := specRef_named nm Y hu.1 hu.2
    have e : (XUnit.named nm).chars ++ Y = '&' :: (nm ++ ';' :: Y) := by simp [XUnit.chars]
    rw [e, decodeGo]
    simp only [beq_self_eq_true, if_true, this]
    rw [decodeGo_skip]
    simp [val_named_attr]
  | dec ds =>
    simp only [XUnit.ok, Bool.and_eq_true, Bool.not_eq_true', List.isEmpty_eq_false_iff, List.all_eq_true] at hu
    have := specRef_dec ds Y hu.1.1 hu.1.2
    have e : (XUnit.dec ds).chars ++ Y = '&' :: '#' :: (ds ++ ';' :: Y) := by simp [XUnit.chars]
    rw [e, decodeGo]
    simp only [beq_self_eq_true, if_true, this]
    rw [decodeGo_skip]
    simp [XUnit.val]
  | hex ds =>
    simp only [XUnit.ok, Bool.and_eq_true, Bool.not_eq_true', List.isEmpty_eq_false_iff, List.all_eq_true] at hu
    have := specRef_hex ds Y hu.1.1 hu.1.2
    have e : (XUnit.hex ds).chars ++ Y = '&' :: '#' :: 'x' :: (ds ++ ';' :: Y) := by simp [XUnit.chars]
    rw [e, decodeGo]
    simp only [beq_self_eq_true, if_true, this]
    rw [decodeGo_skip]
    simp [XUnit.val]

theorem flat_cons (u : XUnit) (us : List XUnit) : flat (u :: us) = u.chars ++ flat us := by
  simp [flat]

theorem flat_append (a b : List XUnit) : flat (a ++ b) = flat a ++ flat b := by
  simp [flat]

/-- the decoder agrees with the grammar: a sequence of units decodes to the units' values -/
theorem decodeGo_flat (a : Bool) (us : List XUnit) (h : us.all XUnit.ok = true) (Y : List Char) :
    decodeGo a 0 (flat us ++ Y) = us.map (XUnit.val a) ++ decodeGo a 0 Y := by
  induction us with
  | nil => simp [flat]
  | cons u us ih =>
    simp only [List.all_cons, Bool.and_eq_true] at h
    rw [flat_cons, List.append_assoc, decodeGo_unit a u h.1, ih h.2]
    simp

theorem decodeText_flat (us : List XUnit) (h : us.all XUnit.ok = true) :
    decodeText (flat us) = us.map (XUnit.val false) := by
  have := decodeGo_flat false us h []
  simpa [decodeText, decodeGo] using this

theorem normAttr_flat (us : List XUnit) (h : us.all XUnit.ok = true) :
    normAttr (flat us) = us.map (XUnit.val true) := by
  have := decodeGo_flat true us h []
  simpa [normAttr, decodeGo] using this

/-! ## C. the model scanner over grammar units -/

theorem isHexDigit_eq : isHexDigit = isHex := rfl
theorem isDigit_eq : isDigit = isDig := rfl

theorem hexVal_eq (ds : List Char) : hexVal ds = numVal 16 ds := by
  have : (fun (a : Nat) (c : Char) => a * 16 + hexDigitVal c) = (fun a c => a * 16 + digVal c) := by
    funext a c; rfl
  simp [hexVal, numVal, this]

theorem foldl_congr_mem {α β} (f g : β → α → β) (l : List α) (b : β)
    (h : ∀ b, ∀ a ∈ l, f b a = g b a) : l.foldl f b = l.foldl g b := by
  induction l generalizing b with
  | nil => rfl
  | cons a l ih =>
    simp only [List.foldl_cons]
    rw [h b a (by simp)]
    exact ih _ (fun b x hx => h b x (by simp [hx]))

theorem decVal_eq (ds : List Char) (h : ∀ c ∈ ds, isDig c = true) : decVal ds = numVal 10 ds := by
  unfold decVal numVal
  apply foldl_congr_mem
  intro b a ha
  simp [digVal, h a ha]

theorem scan_skip (ws : Bool) (e : List (List Char × List Char)) (rv : List (Char × List Char)) (n : Nat)
    (l : List Char) : scan ws e rv n l = scan ws e rv 0 (l.drop n) := by
  induction n generalizing l with
  | zero => simp
  | succ n ih =>
    cases l with
    | nil => simp [scan]
    | cons c r => simp only [scan, List.drop_succ_cons]; exact ih r

/-- bytes that are neither white space nor `&` pass through the scanner -/
theorem scan_pass (ws : Bool) (e : List (List Char × List Char)) (rv : List (Char × List Char))
    (l X : List Char) (h : ∀ c ∈ l, isWs c = false ∧ c ≠ '&') :
    scan ws e rv 0 (l ++ X) = l ++ scan ws e rv 0 X := by
  induction l with
  | nil => simp
  | cons c l ih =>
    have hc := h c (by simp)
    have h1 : (c == '&') = false := by simpa using hc.2
    simp only [List.cons_append, scan, hc.1, Bool.and_false, h1, Bool.false_and]
    simp [ih (fun x hx => h x (by simp [hx]))]

theorem split_unique {α} [DecidableEq α] (c : α) (l1 l2 a b : List α) (h1 : c ∉ l1) (h2 : c ∉ l2)
    (h : l1 ++ c :: a = l2 ++ c :: b) : l1 = l2 ∧ a = b := by
  induction l1 generalizing l2 with
  | nil =>
    cases l2 with
    | nil => simpa using h
    | cons y l2 =>
      simp only [List.nil_append, List.cons_append, List.cons.injEq] at h
      exact absurd (h.1 ▸ (by simp : y ∈ y :: l2)) (by simp [h.1] at h2)
  | cons x l1 ih =>
    cases l2 with
    | nil =>
      simp only [List.nil_append, List.cons_append, List.cons.injEq] at h
      exact absurd (h.1 ▸ (by simp : x ∈ x :: l1)) (by simp [h.1] at h1)
    | cons y l2 =>
      simp only [List.cons_append, List.cons.injEq] at h
      have := ih l2 (fun hh => h1 (by simp [hh])) (fun hh => h2 (by simp [hh])) h.2
      exact ⟨by rw [h.1, this.1], this.2⟩

theorem take_length_succ_append {α} (l : List α) (c : α) (X : List α) :
    (l ++ c :: X).take (l.length + 1) = l ++ [c] := by
  induction l with
  | nil => simp
  | cons a l ih => simpa using ih

theorem decodeRef_dec (e : List (List Char × List Char)) (rv : List (Char × List Char)) (ds X : List Char)
    (h1 : ds ≠ []) (h2 : ∀ c ∈ ds, isDig c = true) :
    decodeRef e rv ('#' :: (ds ++ ';' :: X)) =
      if 128 ≤ numVal 10 ds then none
      else (finishRef rv ('&' :: '#' :: (ds ++ [';'])) [Char.ofNat (numVal 10 ds)] X).map
        (fun q => (q, ds.length + 2)) := by
  cases ds with
  | nil => exact absurd rfl h1
  | cons d0 ds' =>
    have hd0 : isDig d0 = true := h2 d0 (by simp)
    have hx : d0 ≠ 'x' := by
      intro h; subst h; revert hd0; decide
    have htw : ((d0 :: ds') ++ ';' :: X).takeWhile isDigit = d0 :: ds' :=
      takeWhile_append_stop isDigit (d0 :: ds') ';' X h2 isDig_not_semicolon
    have hv := decVal_eq (d0 :: ds') h2
    have htk : ('#' :: ((d0 :: ds') ++ ';' :: X)).take ((d0 :: ds').length + 2) = '#' :: ((d0 :: ds') ++ [';']) := by
      have := take_length_succ_append (d0 :: ds') ';' X
      simpa using this
    unfold decodeRef
    split
    · next r2 heq =>
      simp only [List.cons_append, List.cons.injEq, true_and] at heq
      exact absurd heq.1 hx
    · next r2 heq =>
      simp only [List.cons.injEq, true_and] at heq
      subst heq
      simp only [htw, hv, htk, drop_length_append]
      simp
    · next _ h => exact absurd rfl (h _)

theorem decodeRef_hex (e : List (List Char × List Char)) (rv : List (Char × List Char)) (ds X : List Char)
    (h1 : ds ≠ []) (h2 : ∀ c ∈ ds, isHex c = true) :
    decodeRef e rv ('#' :: 'x' :: (ds ++ ';' :: X)) =
      if 10000 ≤ numVal 16 ds then none
      else (finishRef rv ('&' :: '#' :: 'x' :: (ds ++ [';']))
        (if numVal 16 ds < 128 then [Char.ofNat (numVal 16 ds)] else '&' :: '#' :: (decDigits (numVal 16 ds) ++ [';'])) X).map
        (fun q => (q, ds.length + 3)) := by
  have htw : (ds ++ ';' :: X).takeWhile isHexDigit = ds :=
    takeWhile_append_stop isHexDigit ds ';' X h2 isHex_not_semicolon
  have htk : ('#' :: 'x' :: (ds ++ ';' :: X)).take (ds.length + 3) = '#' :: 'x' :: (ds ++ [';']) := by
    have := take_length_succ_append ds ';' X
    simpa using this
  have hne : ds.isEmpty = false := by cases ds <;> simp_all
  simp only [decodeRef, htw, hexVal_eq, htk, drop_length_append, hne, Bool.false_or, decide_eq_true_eq]

theorem mem_takeWhile_imp' {α} (p : α → Bool) (l : List α) (x : α) (h : x ∈ l.takeWhile p) : p x = true := by
  induction l with
  | nil => simp at h
  | cons a l ih =>
    simp only [List.takeWhile_cons] at h
    split at h
    · next hp =>
      simp only [List.mem_cons] at h
      rcases h with h | h
      · rw [h]; exact hp
      · exact ih h
    · simp at h

theorem isAlnum_not_semicolon : isAlnum ';' = false := by decide

theorem decodeRef_named (e : List (List Char × List Char)) (rv : List (Char × List Char)) (nm X : List Char)
    (h1 : nm ≠ []) (h2 : ∀ c ∈ nm, isNameChar c = true) (rep : List Char) (n : Nat)
    (h : decodeRef e rv (nm ++ ';' :: X) = some (rep, n)) :
    n = nm.length + 1 ∧ ∃ rep0, e.lookup nm = some rep0 ∧ finishRef rv ('&' :: (nm ++ [';'])) rep0 X = some rep := by
  cases hnm : nm with
  | nil => exact absurd hnm h1
  | cons n0 nm' =>
    have hn : n0 ≠ '#' := by
      intro hh; subst hh
      have := h2 '#' (by simp [hnm])
      revert this; decide
    rw [← hnm]
    unfold decodeRef at h
    split at h
    · next r2 heq => rw [hnm] at heq; simp only [List.cons_append, List.cons.injEq] at heq; exact absurd heq.1 hn
    · next r2 heq => rw [hnm] at heq; simp only [List.cons_append, List.cons.injEq] at heq; exact absurd heq.1 hn
    · simp only at h
      generalize hl : ((nm ++ ';' :: X).take 32).takeWhile isAlnum = l at h
      have hpre : l <+: (nm ++ ';' :: X) := by
        rw [← hl]; exact (List.takeWhile_prefix _).trans (List.take_prefix _ _)
      have hall : ∀ x ∈ l, isAlnum x = true := by
        intro x hx; rw [← hl] at hx; exact mem_takeWhile_imp' _ _ _ hx
      have heq := List.prefix_iff_eq_append.mp hpre
      split at h
      · exact absurd h (by simp)
      · split at h
        · next after hd =>
          rw [hd] at heq
          have hsc1 : ';' ∉ l := fun hm => by have := hall _ hm; rw [isAlnum_not_semicolon] at this; exact absurd this (by simp)
          have hsc2 : ';' ∉ nm := fun hm => by have := h2 _ hm; rw [isNameChar_not_semicolon] at this; exact absurd this (by simp)
          have := split_unique ';' l nm after X hsc1 hsc2 heq
          obtain ⟨e1, e2⟩ := this
          subst e1 e2
          have htk : (l ++ ';' :: after).take (l.length + 1) = l ++ [';'] := take_length_succ_append l ';' after
          rw [htk] at h
          cases hlk : List.lookup l e with
          | none => rw [hlk] at h; exact absurd h (by simp)
          | some rep0 =>
            rw [hlk] at h
            simp only [Option.map_eq_some_iff, Prod.mk.injEq] at h
            obtain ⟨q, hq, hq1, hq2⟩ := h
            exact ⟨hq2.symm, rep0, rfl, by rw [hq, hq1]⟩
        · exact absurd h (by simp)

/-- row of `xml.EntitiesMap`: one character, the character XML 1.0 predefines for that name, plain ASCII that
needs no escaping -/
def entRowOk (p : List Char × List Char) : Bool :=
  match p.2 with
  | [c] => predefined p.1 == some c.toNat && decide (c.toNat < 128) && c != '&' && c != '<' && !isS c &&
      decide (32 ≤ c.toNat)
  | _ => false

theorem entities_sound : XmlTables.entities.all entRowOk = true := by decide

/-- row of `xml.TextRevEntitiesMap` / `xml.AttrRevEntitiesMap`: the escape is a reference (to a predefined
entity, or a decimal character reference) that stands for the byte -/
def revRowOk (p : Char × List Char) : Bool :=
  p.2.head? == some '&' && p.2.getLast? == some ';' &&
    ((!((p.2.drop 1).dropLast).isEmpty && ((p.2.drop 1).dropLast).all isNameChar &&
        predefined ((p.2.drop 1).dropLast) == some p.1.toNat) ||
     (match (p.2.drop 1).dropLast with
      | '#' :: ds => !ds.isEmpty && ds.all isDig && numVal 10 ds == p.1.toNat
      | _ => false))

/-- a reverse table all of whose rows are sound and which escapes `&` and `<` -/
def RevOk (rv : List (Char × List Char)) : Prop :=
  rv.all revRowOk = true ∧ (rv.lookup '&').isSome = true ∧ (rv.lookup '<').isSome = true

theorem textRev_sound : RevOk XmlTables.textRev := by unfold RevOk; decide
theorem attrRev_sound : RevOk XmlTables.attrRev := by unfold RevOk; decide
theorem attrRev_ws : (XmlTables.attrRev.lookup '\t').isSome = true ∧ (XmlTables.attrRev.lookup '\n').isSome = true ∧
    (XmlTables.attrRev.lookup '\r').isSome = true := by decide

theorem ofNat_toNat_small : ∀ v, v < 128 → (Char.ofNat v).toNat = v := by decide

theorem isWs_cases (c : Char) (h : isWs c = true) :
    c = ' ' ∨ c = '\n' ∨ c = '\t' ∨ c = '\r' ∨ c = Char.ofNat 12 := by
  simpa [isWs, or_assoc] using h

theorem nameChar_pass (c : Char) (h : isNameChar c = true) : isWs c = false ∧ c ≠ '&' := by
  constructor
  · cases hw : isWs c with
    | false => rfl
    | true =>
      rcases isWs_cases c hw with r | r | r | r | r <;> subst r <;> revert h <;> decide
  · intro r; subst r; revert h; decide

theorem hex_pass (c : Char) (h : isHex c = true) : isWs c = false ∧ c ≠ '&' := by
  constructor
  · cases hw : isWs c with
    | false => rfl
    | true =>
      rcases isWs_cases c hw with r | r | r | r | r <;> subst r <;> revert h <;> decide
  · intro r; subst r; revert h; decide

theorem dig_hex (c : Char) (h : isDig c = true) : isHex c = true := by simp [isHex, h]


theorem eq_dropLast_append {α} (l : List α) (x : α) (h : l.getLast? = some x) : l = l.dropLast ++ [x] := by
  obtain ⟨ys, hys⟩ := List.getLast?_eq_some_iff.mp h
  subst hys
  simp

theorem lookup_mem {α β} [BEq α] [LawfulBEq α] (l : List (α × β)) (k : α) (v : β)
    (h : l.lookup k = some v) : (k, v) ∈ l := by
  induction l with
  | nil => simp at h
  | cons p l ih =>
    obtain ⟨a, b⟩ := p
    simp only [List.lookup_cons] at h
    split at h
    · next hk =>
      have : k = a := by simpa using hk
      simp only [Option.some.injEq] at h
      simp [this, h]
    · exact List.mem_cons_of_mem _ (ih h)

/-- a character reference / predefined entity handled by `replaceEntities`: outcome of one reference unit -/
def RefStep (ws : Bool) (rv : List (Char × List Char)) (u : XUnit) (X : List Char) : Prop :=
  scan ws XmlTables.entities rv 0 (u.chars ++ X) = u.chars ++ scan ws XmlTables.entities rv 0 X ∨
  (∃ (c : Char) (src rep : List Char), c.toNat < 128 ∧ u.val false = DCh.c c.toNat ∧
      ((∃ ds, u = .dec ds ∨ u = .hex ds) ∨
        (c ≠ '&' ∧ c ≠ '<' ∧ isS c = false ∧ 32 ≤ c.toNat)) ∧
      finishRef rv src [c] X = some rep ∧
      scan ws XmlTables.entities rv 0 (u.chars ++ X) = rep ++ scan ws XmlTables.entities rv 0 X) ∨
  (∃ ds, u = .hex ds ∧ 128 ≤ numVal 16 ds ∧ numVal 16 ds < 10000 ∧
      scan ws XmlTables.entities rv 0 (u.chars ++ X) =
        (XUnit.dec (decDigits (numVal 16 ds))).chars ++ scan ws XmlTables.entities rv 0 X)

theorem scan_amp (ws : Bool) (rv : List (Char × List Char)) (r : List Char) :
    scan ws XmlTables.entities rv 0 ('&' :: r) =
      if 3 ≤ r.length then
        match decodeRef XmlTables.entities rv r with
        | some (rep, n) => rep ++ scan ws XmlTables.entities rv n r
        | none => '&' :: scan ws XmlTables.entities rv 0 r
      else '&' :: scan ws XmlTables.entities rv 0 r := by
  have h1 : isWs '&' = false := by decide
  by_cases h : 3 ≤ r.length
  · cases hd : decodeRef XmlTables.entities rv r with
    | none => simp [scan, h1, h, hd]
    | some p => obtain ⟨rep, n⟩ := p; simp [scan, h1, h, hd]
  · simp [scan, h1, h]

theorem refStep_dec (ws : Bool) (rv : List (Char × List Char)) (ds X : List Char)
    (hu : (XUnit.dec ds).ok = true) : RefStep ws rv (.dec ds) X := by
  simp only [XUnit.ok, Bool.and_eq_true, Bool.not_eq_true', List.isEmpty_eq_false_iff, List.all_eq_true] at hu
  obtain ⟨⟨h1, h2⟩, _⟩ := hu
  have e : (XUnit.dec ds).chars ++ X = '&' :: '#' :: (ds ++ ';' :: X) := by simp [XUnit.chars]
  have hlen : 3 ≤ ('#' :: (ds ++ ';' :: X)).length := by
    cases ds with
    | nil => exact absurd rfl h1
    | cons a b => simp; omega
  have hpass : scan ws XmlTables.entities rv 0 ('#' :: (ds ++ ';' :: X)) =
      '#' :: (ds ++ [';']) ++ scan ws XmlTables.entities rv 0 X := by
    have := scan_pass ws XmlTables.entities rv ('#' :: (ds ++ [';'])) X (by
      intro c hc
      simp only [List.mem_cons, List.mem_append, List.mem_nil_iff, or_false] at hc
      rcases hc with r | r | r
      · subst r; decide
      · exact hex_pass c (dig_hex c (h2 c r))
      · subst r; decide)
    simp at this ⊢
    exact this
  have hdrop : ('#' :: (ds ++ ';' :: X)).drop (ds.length + 2) = X := by
    have := drop_length_append (ds ++ [';']) X
    simp at this ⊢
  rw [RefStep, e, scan_amp, if_pos hlen, decodeRef_dec _ rv ds X h1 h2]
  by_cases hv : 128 ≤ numVal 10 ds
  · left
    simp only [hv, if_true, hpass]
    simp [XUnit.chars]
  · simp only [hv, if_false]
    cases hf : finishRef rv ('&' :: '#' :: (ds ++ [';'])) [Char.ofNat (numVal 10 ds)] X with
    | none =>
      left
      simp only [Option.map_none, hpass]
      simp [XUnit.chars]
    | some rep =>
      right; left
      refine ⟨Char.ofNat (numVal 10 ds), _, rep, ?_, ?_, Or.inl ⟨ds, Or.inl rfl⟩, hf, ?_⟩
      · rw [ofNat_toNat_small _ (by omega)]; omega
      · rw [ofNat_toNat_small _ (by omega)]; rfl
      · simp only [Option.map_some]
        rw [scan_skip, hdrop]

theorem finishRef_long (rv : List (Char × List Char)) (src rep X : List Char) (h : 2 ≤ rep.length) :
    finishRef rv src rep X = some rep := by
  unfold finishRef
  split
  · next c => simp at h
  · rfl

theorem refStep_hex (ws : Bool) (rv : List (Char × List Char)) (ds X : List Char)
    (hu : (XUnit.hex ds).ok = true) : RefStep ws rv (.hex ds) X := by
  simp only [XUnit.ok, Bool.and_eq_true, Bool.not_eq_true', List.isEmpty_eq_false_iff, List.all_eq_true] at hu
  obtain ⟨⟨h1, h2⟩, _⟩ := hu
  have e : (XUnit.hex ds).chars ++ X = '&' :: '#' :: 'x' :: (ds ++ ';' :: X) := by simp [XUnit.chars]
  have hlen : 3 ≤ ('#' :: 'x' :: (ds ++ ';' :: X)).length := by simp; omega
  have hpass : scan ws XmlTables.entities rv 0 ('#' :: 'x' :: (ds ++ ';' :: X)) =
      '#' :: 'x' :: (ds ++ [';']) ++ scan ws XmlTables.entities rv 0 X := by
    have := scan_pass ws XmlTables.entities rv ('#' :: 'x' :: (ds ++ [';'])) X (by
      intro c hc
      simp only [List.mem_cons, List.mem_append, List.mem_nil_iff, or_false] at hc
      rcases hc with r | r | r | r
      · subst r; decide
      · subst r; decide
      · exact hex_pass c (h2 c r)
      · subst r; decide)
    simp at this ⊢
    exact this
  have hdrop : ('#' :: 'x' :: (ds ++ ';' :: X)).drop (ds.length + 3) = X := by
    have := drop_length_append (ds ++ [';']) X
    simp at this ⊢
  rw [RefStep, e, scan_amp, if_pos hlen, decodeRef_hex _ rv ds X h1 h2]
  by_cases hv : 10000 ≤ numVal 16 ds
  · left
    simp only [hv, if_true, hpass]
    simp [XUnit.chars]
  · simp only [hv, if_false]
    by_cases hs : numVal 16 ds < 128
    · simp only [hs, if_true]
      cases hf : finishRef rv ('&' :: '#' :: 'x' :: (ds ++ [';'])) [Char.ofNat (numVal 16 ds)] X with
      | none =>
        left
        simp only [Option.map_none, hpass]
        simp [XUnit.chars]
      | some rep =>
        right; left
        refine ⟨Char.ofNat (numVal 16 ds), _, rep, ?_, ?_, Or.inl ⟨ds, Or.inr rfl⟩, hf, ?_⟩
        · rw [ofNat_toNat_small _ hs]; exact hs
        · rw [ofNat_toNat_small _ hs]; rfl
        · simp only [Option.map_some]
          rw [scan_skip, hdrop]
    · right; right
      refine ⟨ds, rfl, by omega, by omega, ?_⟩
      simp only [hs, if_false]
      rw [finishRef_long _ _ _ _ (by simp)]
      simp only [Option.map_some]
      rw [scan_skip, hdrop]
      simp [XUnit.chars]

theorem refStep_named (ws : Bool) (rv : List (Char × List Char)) (nm X : List Char)
    (hu : (XUnit.named nm).ok = true) : RefStep ws rv (.named nm) X := by
  simp only [XUnit.ok, Bool.and_eq_true, Bool.not_eq_true', List.isEmpty_eq_false_iff, List.all_eq_true] at hu
  obtain ⟨h1, h2⟩ := hu
  have e : (XUnit.named nm).chars ++ X = '&' :: (nm ++ ';' :: X) := by simp [XUnit.chars]
  have hpass : scan ws XmlTables.entities rv 0 (nm ++ ';' :: X) =
      (nm ++ [';']) ++ scan ws XmlTables.entities rv 0 X := by
    have := scan_pass ws XmlTables.entities rv (nm ++ [';']) X (by
      intro c hc
      simp only [List.mem_append, List.mem_cons, List.mem_nil_iff, or_false] at hc
      rcases hc with r | r
      · exact nameChar_pass c (h2 c r)
      · subst r; decide)
    simp at this ⊢
    exact this
  have hunch : '&' :: scan ws XmlTables.entities rv 0 (nm ++ ';' :: X) =
      (XUnit.named nm).chars ++ scan ws XmlTables.entities rv 0 X := by
    rw [hpass]; simp [XUnit.chars]
  have hdrop : (nm ++ ';' :: X).drop (nm.length + 1) = X := by
    have := drop_length_append (nm ++ [';']) X
    simp at this ⊢
  rw [RefStep, e, scan_amp]
  by_cases hlen : 3 ≤ (nm ++ ';' :: X).length
  · rw [if_pos hlen]
    cases hd : decodeRef XmlTables.entities rv (nm ++ ';' :: X) with
    | none => left; simpa using hunch
    | some p =>
      obtain ⟨rep, n⟩ := p
      obtain ⟨hn, rep0, hl, hf⟩ := decodeRef_named _ rv nm X h1 h2 rep n hd
      have hrow := lookup_mem _ _ _ hl
      have hok := List.all_eq_true.mp entities_sound _ hrow
      rcases rep0 with _ | ⟨c, _ | ⟨d, t⟩⟩
      · simp [entRowOk] at hok
      · simp only [entRowOk, Bool.and_eq_true, beq_iff_eq, decide_eq_true_eq, bne_iff_ne, ne_eq,
          Bool.not_eq_true'] at hok
        obtain ⟨⟨⟨⟨⟨p1, p2⟩, p3⟩, p4⟩, p5⟩, p6⟩ := hok
        right; left
        refine ⟨c, _, rep, p2, ?_, Or.inr ⟨p3, p4, p5, p6⟩, hf, ?_⟩
        · simp [XUnit.val, p1]
        · simp only [hn]
          rw [scan_skip, hdrop]
      · simp [entRowOk] at hok
  · rw [if_neg hlen]; left; exact hunch

theorem refStep (ws : Bool) (rv : List (Char × List Char)) (u : XUnit) (X : List Char) (hu : u.ok = true)
    (hr : ∀ c, u ≠ .lit c) : RefStep ws rv u X := by
  cases u with
  | lit c => exact absurd rfl (hr c)
  | named nm => exact refStep_named ws rv nm X hu
  | dec ds => exact refStep_dec ws rv ds X hu
  | hex ds => exact refStep_hex ws rv ds X hu

theorem digit_char : ∀ j, j < 10 → isDig (Char.ofNat (48 + j)) = true ∧ digVal (Char.ofNat (48 + j)) = j := by
  decide

theorem decDigits_spec (v : Nat) (hv : v < 10000) :
    numVal 10 (decDigits v) = v ∧ (∀ c ∈ decDigits v, isDig c = true) ∧ decDigits v ≠ [] := by
  have d0 := digit_char (v % 10) (Nat.mod_lt _ (by omega))
  have d1 := digit_char (v / 10 % 10) (Nat.mod_lt _ (by omega))
  have d2 := digit_char (v / 100 % 10) (Nat.mod_lt _ (by omega))
  have d3 := digit_char (v / 1000 % 10) (Nat.mod_lt _ (by omega))
  unfold decDigits
  simp only
  split
  · refine ⟨?_, ?_, by simp⟩
    · simp only [numVal, List.foldl, d0.2]; omega
    · intro c hc; simp only [List.mem_singleton] at hc; subst hc; exact d0.1
  · split
    · refine ⟨?_, ?_, by simp⟩
      · simp only [numVal, List.foldl, d0.2, d1.2]; omega
      · intro c hc
        simp only [List.mem_cons, List.mem_nil_iff, or_false] at hc
        rcases hc with r | r <;> subst r
        · exact d1.1
        · exact d0.1
    · split
      · refine ⟨?_, ?_, by simp⟩
        · simp only [numVal, List.foldl, d0.2, d1.2, d2.2]; omega
        · intro c hc
          simp only [List.mem_cons, List.mem_nil_iff, or_false] at hc
          rcases hc with r | r | r <;> subst r
          · exact d2.1
          · exact d1.1
          · exact d0.1
      · refine ⟨?_, ?_, by simp⟩
        · simp only [numVal, List.foldl, d0.2, d1.2, d2.2, d3.2]; omega
        · intro c hc
          simp only [List.mem_cons, List.mem_nil_iff, or_false] at hc
          rcases hc with r | r | r | r <;> subst r
          · exact d3.1
          · exact d2.1
          · exact d1.1
          · exact d0.1


theorem dec_of_hex_ok (ds : List Char) (hu : (XUnit.hex ds).ok = true) (hv : numVal 16 ds < 10000) :
    (XUnit.dec (decDigits (numVal 16 ds))).ok = true ∧
    ∀ a, (XUnit.dec (decDigits (numVal 16 ds))).val a = (XUnit.hex ds).val a := by
  obtain ⟨e1, e2, e3⟩ := decDigits_spec _ hv
  simp only [XUnit.ok, Bool.and_eq_true, Bool.not_eq_true', List.isEmpty_eq_false_iff, List.all_eq_true] at hu ⊢
  refine ⟨⟨⟨e3, e2⟩, by rw [e1]; exact hu.2⟩, fun a => by simp [XUnit.val, e1]⟩

theorem legal_small (c : Char) (h1 : c.toNat < 128) (h2 : legalChar c.toNat = true) :
    c = '\t' ∨ c = '\n' ∨ c = '\r' ∨ 32 ≤ c.toNat := by
  have hc := Char.ofNat_toNat c
  simp only [legalChar, Bool.or_eq_true, beq_iff_eq, Bool.and_eq_true, decide_eq_true_eq] at h2
  rcases h2 with ((((h | h) | h) | h) | h) | h
  · left; rw [h] at hc; exact hc.symm
  · right; left; rw [h] at hc; exact hc.symm
  · right; right; left; rw [h] at hc; exact hc.symm
  · right; right; right; exact h.1
  · omega
  · omega

/-- numeric value of a numeric character reference unit -/
def numOf : XUnit → Option Nat
  | .dec ds => some (numVal 10 ds)
  | .hex ds => some (numVal 16 ds)
  | _ => none

theorem val_numOf (u : XUnit) (v : Nat) (h : numOf u = some v) (a : Bool) : u.val a = DCh.c v := by
  cases u <;> simp_all [numOf, XUnit.val]

theorem ok_legal_numOf (u : XUnit) (v : Nat) (h : numOf u = some v) (hu : u.ok = true) : legalChar v = true := by
  cases u <;> simp_all [numOf, XUnit.ok]

/-- a reference unit is rewritten to a well-formed unit with the same value (any sound reverse table) -/
theorem step_rev (ws : Bool) (rv : List (Char × List Char)) (hrv : RevOk rv) (u : XUnit) (X : List Char)
    (hu : u.ok = true) (hr : ∀ c, u ≠ .lit c) :
    ∃ u' : XUnit, scan ws XmlTables.entities rv 0 (u.chars ++ X) =
        u'.chars ++ scan ws XmlTables.entities rv 0 X ∧ u'.ok = true ∧
        u'.val false = u.val false ∧ (∀ c, u' = .lit c → c.toNat < 128 ∧ rv.lookup c = none) := by
  obtain ⟨hrows, hkamp, hklt⟩ := hrv
  rcases refStep ws rv u X hu hr with h | ⟨c, src, rep, hc, hval, hkind, hf, hs⟩ | ⟨ds, hds, h1, h2, hs⟩
  · exact ⟨u, h, hu, rfl, fun c hc => absurd hc (hr c)⟩
  · have hlegal : (∃ ds, u = .dec ds ∨ u = .hex ds) → legalChar c.toNat = true := by
      rintro ⟨ds, hd | hd⟩
      · have := ok_legal_numOf u (numVal 10 ds) (by simp [hd, numOf]) hu
        have hv : u.val false = DCh.c (numVal 10 ds) := by simp [hd, XUnit.val]
        rw [hval] at hv; simp only [DCh.c.injEq] at hv
        rw [← hv] at this; exact this
      · have := ok_legal_numOf u (numVal 16 ds) (by simp [hd, numOf]) hu
        have hv : u.val false = DCh.c (numVal 16 ds) := by simp [hd, XUnit.val]
        rw [hval] at hv; simp only [DCh.c.injEq] at hv
        rw [← hv] at this; exact this
    have hleg : c = '\t' ∨ c = '\n' ∨ c = '\r' ∨ 32 ≤ c.toNat := by
      rcases hkind with hnum | hrow
      · exact legal_small c hc (hlegal hnum)
      · exact Or.inr (Or.inr (Or.inr hrow.2.2.2))
    have hlegal' : legalChar c.toNat = true := by
      rcases hkind with hnum | hrow
      · exact hlegal hnum
      · simp only [legalChar, Bool.or_eq_true, beq_iff_eq, Bool.and_eq_true, decide_eq_true_eq]
        have := hrow.2.2.2
        left; left; right; omega
    unfold finishRef at hf
    simp only at hf
    cases hl : List.lookup c rv with
    | some q =>
      rw [hl] at hf
      simp only at hf
      split at hf
      · exact absurd hf (by simp)
      · simp only [Option.some.injEq] at hf
        have hrow := List.all_eq_true.mp hrows _ (lookup_mem _ _ _ hl)
        rcases q with _ | ⟨q0, rest⟩
        · simp [revRowOk] at hrow
        · simp only [revRowOk, List.head?_cons, Bool.and_eq_true, beq_iff_eq, Option.some.injEq,
            List.drop_succ_cons, List.drop_zero, Bool.or_eq_true] at hrow
          obtain ⟨⟨r0, r1⟩, hbody⟩ := hrow
          subst r0
          have hrne : rest ≠ [] := by
            intro h; subst h
            rcases hbody with h | h
            · simp at h
            · simp at h
          have hrest : rest = rest.dropLast ++ [';'] := by
            apply eq_dropLast_append
            cases rest with
            | nil => exact absurd rfl hrne
            | cons a b => simpa [List.getLast?_cons_cons] using r1
          rcases hbody with hb | hb
          · simp only [Bool.not_eq_true', List.isEmpty_eq_false_iff, List.all_eq_true] at hb
            obtain ⟨⟨r2, r3⟩, r4⟩ := hb
            refine ⟨.named rest.dropLast, ?_, ?_, ?_, fun c h => by cases h⟩
            · rw [hs, ← hf]
              simp only [XUnit.chars, List.cons_append, List.cons.injEq, true_and]
              rw [← hrest]
            · simp only [XUnit.ok, Bool.and_eq_true, Bool.not_eq_true', List.isEmpty_eq_false_iff, List.all_eq_true]
              exact ⟨r2, r3⟩
            · rw [hval]; simp [XUnit.val, r4]
          · cases hdl : rest.dropLast with
            | nil => rw [hdl] at hb; simp at hb
            | cons b0 ds' =>
              rw [hdl] at hb
              by_cases hb0 : b0 = '#'
              · subst hb0
                simp only [Bool.and_eq_true, Bool.not_eq_true', List.isEmpty_eq_false_iff, List.all_eq_true,
                  beq_iff_eq] at hb
                obtain ⟨⟨r2, r3⟩, r4⟩ := hb
                refine ⟨.dec ds', ?_, ?_, ?_, fun c h => by cases h⟩
                · rw [hs, ← hf]
                  simp only [XUnit.chars, List.cons_append, List.cons.injEq, true_and]
                  rw [hrest, hdl]; simp
                · simp only [XUnit.ok, Bool.and_eq_true, Bool.not_eq_true', List.isEmpty_eq_false_iff,
                    List.all_eq_true]
                  exact ⟨⟨r2, r3⟩, by rw [r4]; exact hlegal'⟩
                · rw [hval]; simp [XUnit.val, r4]
              · exfalso
                revert hb
                split
                · next ds hh => simp only [List.cons.injEq] at hh; exact absurd hh.1 hb0
                · simp
    | none =>
      rw [hl] at hf
      simp only at hf
      have hamp : c ≠ '&' := by
        intro h; subst h; rw [hl] at hkamp; exact absurd hkamp (by simp)
      have hlt : c ≠ '<' := by
        intro h; subst h; rw [hl] at hklt; exact absurd hklt (by simp)
      have hb : (c == '&') = false := by simpa using hamp
      rw [hb] at hf
      simp only [Bool.false_eq_true, if_false, Option.some.injEq] at hf
      refine ⟨.lit c, by rw [hs, ← hf]; rfl, ?_, ?_, fun c' h => by cases h; exact ⟨hc, hl⟩⟩
      · simp only [XUnit.ok, litOk, Bool.and_eq_true, bne_iff_ne, ne_eq, Bool.or_eq_true, decide_eq_true_eq]
        refine ⟨⟨hlt, hamp⟩, ?_⟩
        rcases hleg with r | r | r | r
        · left; subst r; decide
        · left; subst r; decide
        · left; subst r; decide
        · right; exact r
      · rw [hval]; simp [XUnit.val, lit, hc]
  · obtain ⟨o1, o2⟩ := dec_of_hex_ok ds (hds ▸ hu) h2
    exact ⟨_, hs, o1, by rw [hds]; exact o2 false, fun c h => by cases h⟩

/-! ### text tokens: white space runs and references -/

def isWsLit : XUnit → Bool
  | .lit c => isS c
  | _ => false

theorem isWs_of_isS (c : Char) (h : isS c = true) : isWs c = true := by
  simp only [isS, Bool.or_eq_true, beq_iff_eq] at h
  rcases h with ((h | h) | h) | h <;> subst h <;> decide

theorem isS_of_isWs_ok (c : Char) (hok : litOk c = true) (h : isWs c = true) : isS c = true := by
  rcases isWs_cases c h with r | r | r | r | r <;> subst r <;> first | decide | (revert hok; decide)

theorem isWs_eq_isS_ok (c : Char) (hok : litOk c = true) : isWs c = isS c := by
  cases h : isS c with
  | true => exact isWs_of_isS c h
  | false =>
    cases h2 : isWs c with
    | false => rfl
    | true => rw [isS_of_isWs_ok c hok h2] at h; exact absurd h (by simp)

/-- white space at the head of a unit sequence -/
theorem flat_takeWhile_ws (r : List XUnit) (hr : r.all XUnit.ok = true) :
    (flat r).takeWhile isWs = flat (r.takeWhile isWsLit) ∧
    (flat r).drop (flat (r.takeWhile isWsLit)).length = flat (r.dropWhile isWsLit) := by
  induction r with
  | nil => simp [flat]
  | cons u r ih =>
    simp only [List.all_cons, Bool.and_eq_true] at hr
    obtain ⟨ih1, ih2⟩ := ih hr.2
    cases u with
    | lit c =>
      have hc := isWs_eq_isS_ok c hr.1
      by_cases hs : isS c = true
      · have hw : isWs c = true := by rw [hc]; exact hs
        simp only [flat_cons, XUnit.chars, List.singleton_append, List.takeWhile_cons, hw, if_true, isWsLit, hs,
          List.dropWhile_cons, List.length_cons, List.drop_succ_cons]
        exact ⟨by rw [ih1], ih2⟩
      · have hs' : isS c = false := by simpa using hs
        have hw : isWs c = false := by rw [hc]; exact hs'
        simp [XUnit.chars, hw, isWsLit, hs', flat]
    | named nm =>
      have : isWs '&' = false := by decide
      simp [XUnit.chars, this, isWsLit, flat]
    | dec ds =>
      have : isWs '&' = false := by decide
      simp [XUnit.chars, this, isWsLit, flat]
    | hex ds =>
      have : isWs '&' = false := by decide
      simp [XUnit.chars, this, isWsLit, flat]

/-- relation between the units of a text and the units written by `ReplaceMultipleWhitespaceAndEntities` -/
inductive Sim : List XUnit → List XUnit → Prop
  | nil : Sim [] []
  | unit (u u' : XUnit) (r r' : List XUnit) : u'.val false = u.val false → Sim r r' → Sim (u :: r) (u' :: r')
  | run (w : Char) (ws1 r r' : List XUnit) : ws1 ≠ [] → (∀ x ∈ ws1, isWsLit x = true) → isS w = true →
      Sim r r' → Sim (ws1 ++ r) (.lit w :: r')

theorem all_ok_dropWhile (r : List XUnit) (p : XUnit → Bool) (h : r.all XUnit.ok = true) :
    (r.dropWhile p).all XUnit.ok = true := by
  simp only [List.all_eq_true] at h ⊢
  intro x hx
  exact h x ((List.dropWhile_sublist p).subset hx)

theorem scan_text_aux (n : Nat) : ∀ us : List XUnit, us.length ≤ n → us.all XUnit.ok = true →
    ∃ us', scan true XmlTables.entities XmlTables.textRev 0 (flat us) = flat us' ∧ us'.all XUnit.ok = true ∧
      Sim us us' ∧ (us ≠ [] → us' ≠ []) := by
  induction n with
  | zero =>
    intro us hl _
    have : us = [] := List.length_eq_zero_iff.mp (by omega)
    subst this
    exact ⟨[], by simp [flat, scan], by simp, Sim.nil, fun h => absurd rfl h⟩
  | succ n ih =>
    intro us hl hok
    cases us with
    | nil => exact ⟨[], by simp [flat, scan], by simp, Sim.nil, fun h => absurd rfl h⟩
    | cons u r =>
      simp only [List.all_cons, Bool.and_eq_true] at hok
      simp only [List.length_cons] at hl
      by_cases hlit : ∃ c, u = .lit c
      · obtain ⟨c, rfl⟩ := hlit
        have hc := isWs_eq_isS_ok c hok.1
        by_cases hs : isS c = true
        · -- white space run
          have hw : isWs c = true := by rw [hc]; exact hs
          obtain ⟨t1, t2⟩ := flat_takeWhile_ws r hok.2
          have hlen : (r.dropWhile isWsLit).length ≤ n := by
            have := (List.dropWhile_sublist isWsLit (l := r)).length_le
            omega
          obtain ⟨us2, e1, e2, e3, _⟩ := ih (r.dropWhile isWsLit) hlen (all_ok_dropWhile r _ hok.2)
          let w : Char := if isNewline c || ((flat r).takeWhile isWs).any isNewline then '\n' else ' '
          have hwS : isS w = true := by
            simp only [w]; split <;> decide
          refine ⟨.lit w :: us2, ?_, ?_, ?_, by simp⟩
          · simp only [flat_cons, XUnit.chars, List.singleton_append, scan, hw, Bool.true_and, if_true]
            rw [scan_skip, t1, t2, e1]
            simp only [w, t1]
          · simp only [List.all_cons, Bool.and_eq_true]
            refine ⟨?_, e2⟩
            simp only [XUnit.ok, litOk, hwS, Bool.true_or, Bool.and_true, Bool.and_eq_true, bne_iff_ne, ne_eq]
            simp only [w]; split <;> decide
          · have hsplit : XUnit.lit c :: r = (XUnit.lit c :: r.takeWhile isWsLit) ++ r.dropWhile isWsLit := by
              simp [List.takeWhile_append_dropWhile]
            rw [hsplit]
            refine Sim.run w _ _ _ (by simp) ?_ hwS e3
            intro x hx
            simp only [List.mem_cons] at hx
            rcases hx with rfl | hx
            · simpa [isWsLit] using hs
            · exact mem_takeWhile_imp' _ _ _ hx
        · have hs' : isS c = false := by simpa using hs
          have hw : isWs c = false := by rw [hc]; exact hs'
          have hamp : (c == '&') = false := by
            simp only [XUnit.ok, litOk, Bool.and_eq_true, bne_iff_ne, ne_eq] at hok
            simpa using hok.1.1.2
          obtain ⟨us2, e1, e2, e3, _⟩ := ih r (by omega) hok.2
          refine ⟨.lit c :: us2, ?_, by simp [hok.1, e2], Sim.unit _ _ _ _ rfl e3, by simp⟩
          simp [flat_cons, XUnit.chars, scan, hw, hamp, e1]
      · have hr : ∀ c, u ≠ .lit c := fun c h => hlit ⟨c, h⟩
        obtain ⟨u', s1, s2, s3, _⟩ := step_rev true XmlTables.textRev textRev_sound u (flat r) hok.1 hr
        obtain ⟨us2, e1, e2, e3, _⟩ := ih r (by omega) hok.2
        refine ⟨u' :: us2, ?_, by simp [s2, e2], Sim.unit _ _ _ _ s3 e3, by simp⟩
        rw [flat_cons, s1, e1, flat_cons]

theorem scan_text (us : List XUnit) (hok : us.all XUnit.ok = true) :
    ∃ us', textRepl (flat us) = flat us' ∧ us'.all XUnit.ok = true ∧ Sim us us' ∧ (us ≠ [] → us' ≠ []) :=
  scan_text_aux us.length us (Nat.le_refl _) hok


/-! ## D. `canonGo` over runs of characters -/

/-- after a soft solid pending white space is irrelevant -/
theorem canon_soft (K : Bool) (E : List Ev) : ∀ p p', canonGo K p true E = canonGo K p' true E := by
  induction E with
  | nil => intro p p'; rfl
  | cons e r ih =>
    intro p p'
    cases e with
    | ch d =>
      simp only [canonGo]
      split
      · rfl
      · simp
    | mark m =>
      simp only [canonGo]
      split
      · simp
      · rw [ih p p']

/-- the events start with white space, an element tag next to which white space is insignificant, or end -/
def leadsSoft (K : Bool) : List Ev → Bool
  | [] => true
  | .ch d :: _ => isWsD d
  | .mark m :: r => if m.isTag then !K else leadsSoft K r

theorem canon_leadsSoft (K : Bool) (ps : Bool) (E : List Ev) (h : leadsSoft K E = true) :
    ∀ p p', canonGo K p ps E = canonGo K p' ps E := by
  induction E with
  | nil => intro p p'; rfl
  | cons e r ih =>
    intro p p'
    cases e with
    | ch d =>
      simp only [leadsSoft] at h
      simp [canonGo, h]
    | mark m =>
      simp only [leadsSoft] at h
      simp only [canonGo]
      split
      · next ht =>
        rw [if_pos ht] at h
        have : K = false := by simpa using h
        subst this; simp
      · next ht =>
        rw [if_neg ht] at h
        rw [ih h p p']

def afterC (p ps : Bool) : List DCh → Bool × Bool
  | [] => (p, ps)
  | d :: r => if isWsD d then afterC true ps r else afterC false false r

def outC (p ps : Bool) : List DCh → List CEv
  | [] => []
  | d :: r => if isWsD d then outC true ps r else .ch (p && !ps) d :: outC false false r

theorem canon_chars (K : Bool) (V : List DCh) (E : List Ev) : ∀ p ps,
    canonGo K p ps (V.map .ch ++ E) = outC p ps V ++ canonGo K (afterC p ps V).1 (afterC p ps V).2 E := by
  induction V with
  | nil => intro p ps; simp [outC, afterC]
  | cons d r ih =>
    intro p ps
    simp only [List.map_cons, List.cons_append, canonGo, outC, afterC]
    split
    · exact ih true ps
    · simp [ih false false]

theorem afterC_append_ws (V : List DCh) (w : DCh) (hw : isWsD w = true) : ∀ p ps,
    afterC p ps (V ++ [w]) = (true, (afterC p ps V).2) := by
  induction V with
  | nil => intro p ps; simp [afterC, hw]
  | cons d r ih =>
    intro p ps
    simp only [List.cons_append, afterC]
    split
    · exact ih true ps
    · exact ih false false

theorem outC_append_ws (V : List DCh) (w : DCh) (hw : isWsD w = true) : ∀ p ps,
    outC p ps (V ++ [w]) = outC p ps V := by
  induction V with
  | nil => intro p ps; simp [outC, hw]
  | cons d r ih =>
    intro p ps
    simp only [List.cons_append, outC]
    split
    · exact ih true ps
    · rw [ih false false]

/-- dropping one white space character at the head is invisible when white space is already pending or the
previous solid is soft -/
theorem canon_trim_left (K : Bool) (p ps : Bool) (w : DCh) (hw : isWsD w = true) (E : List Ev)
    (h : ps = true ∨ p = true) : canonGo K p ps E = canonGo K p ps (.ch w :: E) := by
  simp only [canonGo, hw, if_true]
  rcases h with h | h
  · subst h; exact canon_soft K E p true
  · subst h; rfl

/-- dropping one white space character at the end is invisible when the continuation leads soft -/
theorem canon_trim_right (K : Bool) (p ps : Bool) (V : List DCh) (w : DCh) (hw : isWsD w = true) (R : List Ev)
    (h : leadsSoft K R = true) :
    canonGo K p ps (V.map .ch ++ R) = canonGo K p ps ((V ++ [w]).map .ch ++ R) := by
  rw [canon_chars, canon_chars, outC_append_ws V w hw, afterC_append_ws V w hw]
  simp only
  rw [canon_leadsSoft K _ R h _ true]

theorem canon_ws_run (K : Bool) (W : List DCh) (hne : W ≠ []) (hW : ∀ d ∈ W, isWsD d = true) (E : List Ev) :
    ∀ p ps, canonGo K p ps (W.map .ch ++ E) = canonGo K true ps E := by
  induction W with
  | nil => exact absurd rfl hne
  | cons d r ih =>
    intro p ps
    have hd : isWsD d = true := hW d (by simp)
    simp only [List.map_cons, List.cons_append, canonGo, hd, if_true]
    cases r with
    | nil => simp
    | cons d2 r2 => exact ih (by simp) (fun x hx => hW x (by simp [hx])) true ps

theorem isWsD_lit_of_isS (c : Char) (h : isS c = true) : isWsD (lit c) = true := by
  simp only [isS, Bool.or_eq_true, beq_iff_eq] at h
  rcases h with ((h | h) | h) | h <;> subst h <;> decide

theorem isWsLit_val (x : XUnit) (h : isWsLit x = true) : isWsD (x.val false) = true := by
  cases x with
  | lit c => simp only [isWsLit] at h; simpa [XUnit.val] using isWsD_lit_of_isS c h
  | named _ => simp [isWsLit] at h
  | dec _ => simp [isWsLit] at h
  | hex _ => simp [isWsLit] at h

theorem canon_sim (K : Bool) {us us' : List XUnit} (h : Sim us us') (E : List Ev) : ∀ p ps,
    canonGo K p ps ((us'.map (XUnit.val false)).map .ch ++ E) =
      canonGo K p ps ((us.map (XUnit.val false)).map .ch ++ E) := by
  induction h with
  | nil => intro p ps; rfl
  | unit u u' r r' hv _ ih =>
    intro p ps
    simp only [List.map_cons, List.cons_append, canonGo, hv]
    split
    · exact ih true ps
    · rw [ih false false]
  | run w ws1 r r' hne hall hw _ ih =>
    intro p ps
    have hwd : isWsD ((XUnit.lit w).val false) = true := by
      simpa [XUnit.val] using isWsD_lit_of_isS w hw
    simp only [List.map_cons, List.cons_append, canonGo, hwd, if_true, List.map_append, List.append_assoc]
    rw [canon_ws_run K (ws1.map (XUnit.val false)) (by simpa using hne)
      (by intro d hd; simp only [List.mem_map] at hd; obtain ⟨x, hx, rfl⟩ := hd; exact isWsLit_val x (hall x hx))]
    exact ih true ps

theorem sim_head (us us' : List XUnit) (h : Sim us us') :
    headIsWsD (us'.map (XUnit.val false)) = headIsWsD (us.map (XUnit.val false)) := by
  cases h with
  | nil => rfl
  | unit u u' r r' hv _ => simp [headIsWsD, hv]
  | run w ws1 r r' hne hall hw _ =>
    have hwd : isWsD ((XUnit.lit w).val false) = true := by
      simpa [XUnit.val] using isWsD_lit_of_isS w hw
    cases ws1 with
    | nil => exact absurd rfl hne
    | cons x t =>
      have := isWsLit_val x (hall x (by simp))
      simp [headIsWsD, hwd, this]


/-! ## E. per-token lemmas -/

theorem chars_ne_nil (u : XUnit) : u.chars ≠ [] := by cases u <;> simp [XUnit.chars]

theorem flat_eq_nil (us : List XUnit) : flat us = [] ↔ us = [] := by
  cases us with
  | nil => simp [flat]
  | cons u r => simp [flat_cons, chars_ne_nil]

/-- last byte of a unit: the literal byte, or `;` -/
theorem chars_last (u : XUnit) : ∃ pre, u.chars = pre ++ [match u with | .lit c => c | _ => ';'] := by
  cases u with
  | lit c => exact ⟨[], rfl⟩
  | named nm => exact ⟨'&' :: nm, by simp [XUnit.chars]⟩
  | dec ds => exact ⟨'&' :: '#' :: ds, by simp [XUnit.chars]⟩
  | hex ds => exact ⟨'&' :: '#' :: 'x' :: ds, by simp [XUnit.chars]⟩

theorem endsWs_append_singleton (l : List Char) (c : Char) : endsWs (l ++ [c]) = isWs c := by
  simp [endsWs]

theorem startsWs_flat_cons (u : XUnit) (r : List XUnit) :
    startsWs (flat (u :: r)) = (match u with | .lit c => isWs c | _ => false) := by
  cases u <;> simp [flat_cons, XUnit.chars, startsWs] <;> decide

theorem exists_concat {α} (l : List α) (h : l ≠ []) : ∃ a x, l = a ++ [x] := by
  induction l with
  | nil => exact absurd rfl h
  | cons y t ih =>
    cases t with
    | nil => exact ⟨[], y, rfl⟩
    | cons z t' =>
      obtain ⟨a, x, hx⟩ := ih (by simp)
      exact ⟨y :: a, x, by rw [hx]; rfl⟩

def lastWs (V : List DCh) : Prop := ∃ V3 w, V = V3 ++ [w] ∧ isWsD w = true

/-- What the text branch of `xml.go` does to a text token `d`, at the level of decoded characters:
`V1` = characters after `ReplaceMultipleWhitespaceAndEntities`, `V2` = after the optional left trim. -/
theorem text_token (o : XmlOpts) (om : Bool) (d : List Char) (rest : List XTok) (hd : WfText d) :
    ∃ V1 : List DCh, V1 ≠ [] ∧
      (∀ K p ps E, canonGo K p ps (V1.map .ch ++ E) = canonGo K p ps ((decodeText d).map .ch ++ E)) ∧
      headIsWsD V1 = headIsWsD (decodeText d) ∧
      ∃ V2, (V2 = V1 ∨ (om = true ∧ ∃ w, isWsD w = true ∧ V1 = w :: V2)) ∧
        ((V2 = [] ∧ textStep o om d rest = ([], true)) ∨
         (decodeText (textStep o om d rest).1 = V2 ∧ V2 ≠ [] ∧
            (((textStep o om d rest).2 = true ∧ lastWs V2) ∨ (textStep o om d rest).2 = false)) ∨
         (∃ V3 w, V2 = V3 ++ [w] ∧ isWsD w = true ∧ decodeText (textStep o om d rest).1 = V3 ∧
            (textStep o om d rest).2 = false ∧ peekTrim o rest = true)) ∧
        ((textStep o om d rest).1 = [] ∨ WfText (textStep o om d rest).1) := by
  obtain ⟨us, hok, rfl, hne⟩ := hd
  obtain ⟨us', e1, e2, e3, e4⟩ := scan_text us hok
  have hne' := e4 hne
  refine ⟨us'.map (XUnit.val false), by simpa using hne', ?_, ?_, ?_⟩
  · intro K p ps E
    rw [decodeText_flat us hok]
    exact canon_sim K e3 E p ps
  · rw [decodeText_flat us hok]; exact sim_head us us' e3
  · -- left trim: the result is again a unit sequence `u2`
    have hleft : ∃ u2 : List XUnit, u2.all XUnit.ok = true ∧
        (if om && startsWs (flat us') then (flat us').drop 1 else flat us') = flat u2 ∧
        (u2.map (XUnit.val false) = us'.map (XUnit.val false) ∨
          (om = true ∧ ∃ w, isWsD w = true ∧ us'.map (XUnit.val false) = w :: u2.map (XUnit.val false))) := by
      cases hus : us' with
      | nil => exact absurd hus hne'
      | cons h t =>
        rw [hus] at e2
        simp only [List.all_cons, Bool.and_eq_true] at e2
        by_cases hc : (om && startsWs (flat (h :: t))) = true
        · rw [if_pos hc]
          simp only [Bool.and_eq_true] at hc
          rw [startsWs_flat_cons] at hc
          cases h with
          | lit c =>
            simp only at hc
            have hs : isS c = true := by rw [← isWs_eq_isS_ok c e2.1]; exact hc.2
            refine ⟨t, e2.2, by simp [flat_cons, XUnit.chars], Or.inr ⟨hc.1, _, ?_, rfl⟩⟩
            simpa [XUnit.val] using isWsD_lit_of_isS c hs
          | named _ => simp at hc
          | dec _ => simp at hc
          | hex _ => simp at hc
        · rw [if_neg hc]
          exact ⟨h :: t, by simp [e2.1, e2.2], rfl, Or.inl rfl⟩
    obtain ⟨u2, k1, k2, k3⟩ := hleft
    refine ⟨u2.map (XUnit.val false), k3, ?_⟩
    have hstep : textStep o om (flat us) rest =
        (if (flat u2).isEmpty then ([], true)
         else if endsWs (flat u2) then (if peekTrim o rest then ((flat u2).dropLast, false) else (flat u2, true))
         else (flat u2, false)) := by
      simp only [textStep, e1, k2]
    rw [hstep]
    by_cases hemp : u2 = []
    · subst hemp; exact ⟨Or.inl (by simp [flat]), Or.inl (by simp [flat])⟩
    · have hfe : (flat u2).isEmpty = false := by
        simp only [List.isEmpty_eq_false_iff, ne_eq, flat_eq_nil]; exact hemp
      rw [hfe]
      simp only [Bool.false_eq_true, if_false]
      -- last unit
      obtain ⟨u3, l, rfl⟩ := exists_concat u2 hemp
      have k1' : u3.all XUnit.ok = true ∧ l.ok = true := by
        simpa [List.all_append] using k1
      have hwfall : WfText (flat (u3 ++ [l])) := ⟨_, k1, rfl, hemp⟩
      obtain ⟨pre, hpre⟩ := chars_last l
      have hflat : flat (u3 ++ [l]) = (flat u3 ++ pre) ++ [match l with | .lit c => c | _ => ';'] := by
        rw [flat_append]; simp [flat, hpre]
      cases l with
      | lit c =>
        simp only at hflat
        have hpre0 : pre = [] := by
          simp only [XUnit.chars] at hpre
          cases pre with
          | nil => rfl
          | cons a b => simp at hpre
        subst hpre0
        simp only [List.append_nil] at hflat
        rw [hflat, endsWs_append_singleton]
        by_cases hw : isWs c = true
        · have hs : isS c = true := by rw [← isWs_eq_isS_ok c k1'.2]; exact hw
          have hwd : isWsD ((XUnit.lit c).val false) = true := by
            simpa [XUnit.val] using isWsD_lit_of_isS c hs
          rw [if_pos hw]
          by_cases hp : peekTrim o rest = true
          · rw [if_pos hp]
            simp only [List.dropLast_concat]
            refine ⟨Or.inr (Or.inr ⟨u3.map (XUnit.val false), (XUnit.lit c).val false, by simp, hwd,
              decodeText_flat u3 k1'.1, trivial, hp⟩), ?_⟩
            by_cases h3 : u3 = []
            · left; subst h3; simp [flat]
            · right; exact ⟨u3, k1'.1, rfl, h3⟩
          · rw [if_neg hp]
            refine ⟨Or.inr (Or.inl ⟨?_, by simp,
              Or.inl ⟨rfl, u3.map (XUnit.val false), (XUnit.lit c).val false, by simp, hwd⟩⟩), Or.inr ?_⟩
            · simp only
              rw [← hflat]; exact decodeText_flat _ k1
            · simp only; rw [← hflat]; exact hwfall
        · rw [if_neg hw]
          refine ⟨Or.inr (Or.inl ⟨?_, by simp, Or.inr rfl⟩), Or.inr ?_⟩
          · simp only
            rw [← hflat]; exact decodeText_flat _ k1
          · simp only; rw [← hflat]; exact hwfall
      | named nm =>
        simp only at hflat
        have : endsWs (flat (u3 ++ [XUnit.named nm])) = false := by
          rw [hflat, endsWs_append_singleton]; decide
        rw [this]
        simp only [Bool.false_eq_true, if_false]
        exact ⟨Or.inr (Or.inl ⟨decodeText_flat _ k1, by simp, Or.inr trivial⟩), Or.inr hwfall⟩
      | dec ds =>
        simp only at hflat
        have : endsWs (flat (u3 ++ [XUnit.dec ds])) = false := by
          rw [hflat, endsWs_append_singleton]; decide
        rw [this]
        simp only [Bool.false_eq_true, if_false]
        exact ⟨Or.inr (Or.inl ⟨decodeText_flat _ k1, by simp, Or.inr trivial⟩), Or.inr hwfall⟩
      | hex ds =>
        simp only at hflat
        have : endsWs (flat (u3 ++ [XUnit.hex ds])) = false := by
          rw [hflat, endsWs_append_singleton]; decide
        rw [this]
        simp only [Bool.false_eq_true, if_false]
        exact ⟨Or.inr (Or.inl ⟨decodeText_flat _ k1, by simp, Or.inr trivial⟩), Or.inr hwfall⟩

/-! ### attribute values -/

theorem escQuote_append (q : Char) (esc a b : List Char) :
    escQuote q esc (a ++ b) = escQuote q esc a ++ escQuote q esc b := by
  induction a with
  | nil => simp [escQuote]
  | cons c a ih =>
    simp only [List.cons_append, escQuote]
    split <;> simp [ih]

theorem escQuote_id (q : Char) (esc l : List Char) (h : ∀ c ∈ l, c ≠ q) : escQuote q esc l = l := by
  induction l with
  | nil => rfl
  | cons c l ih =>
    have hc : (c == q) = false := by simpa using h c (by simp)
    simp only [escQuote, hc, Bool.false_eq_true, if_false]
    rw [ih (fun x hx => h x (by simp [hx]))]

theorem ref_chars_noquote (u : XUnit) (hu : u.ok = true) (hr : ∀ c, u ≠ .lit c) (q : Char)
    (hq : q = '"' ∨ q = '\'') : ∀ c ∈ u.chars, c ≠ q := by
  have nq : ∀ c, isNameChar c = true → c ≠ q := by
    intro c hc h; subst h; rcases hq with r | r <;> subst r <;> revert hc <;> decide
  have hq' : ∀ c, isHex c = true → c ≠ q := by
    intro c hc h; subst h; rcases hq with r | r <;> subst r <;> revert hc <;> decide
  have k1 : '&' ≠ q := by rcases hq with r | r <;> subst r <;> decide
  have k2 : '#' ≠ q := by rcases hq with r | r <;> subst r <;> decide
  have k3 : 'x' ≠ q := by rcases hq with r | r <;> subst r <;> decide
  have k4 : ';' ≠ q := by rcases hq with r | r <;> subst r <;> decide
  cases u with
  | lit c => exact absurd rfl (hr c)
  | named nm =>
    simp only [XUnit.ok, Bool.and_eq_true, List.all_eq_true] at hu
    intro c hc
    simp only [XUnit.chars, List.mem_cons, List.mem_append, List.mem_nil_iff, or_false] at hc
    rcases hc with r | r | r
    · subst r; exact k1
    · exact nq c (hu.2 c r)
    · subst r; exact k4
  | dec ds =>
    simp only [XUnit.ok, Bool.and_eq_true, List.all_eq_true] at hu
    intro c hc
    simp only [XUnit.chars, List.mem_cons, List.mem_append, List.mem_nil_iff, or_false] at hc
    rcases hc with r | r | r | r
    · subst r; exact k1
    · subst r; exact k2
    · exact hq' c (dig_hex c (hu.1.2 c r))
    · subst r; exact k4
  | hex ds =>
    simp only [XUnit.ok, Bool.and_eq_true, List.all_eq_true] at hu
    intro c hc
    simp only [XUnit.chars, List.mem_cons, List.mem_append, List.mem_nil_iff, or_false] at hc
    rcases hc with r | r | r | r | r
    · subst r; exact k1
    · subst r; exact k2
    · subst r; exact k3
    · exact hq' c (hu.1.2 c r)
    · subst r; exact k4

/-- unit-level description of `EscapeAttrVal`'s quote escaping -/
def escU (q : Char) (esc : List Char) (u : XUnit) : XUnit :=
  match u with
  | .lit c => if c == q then .dec esc else .lit c
  | u => u

theorem escQuote_flat (q : Char) (hq : q = '"' ∨ q = '\'') (ds : List Char) (us : List XUnit)
    (hok : us.all XUnit.ok = true) :
    escQuote q ('&' :: '#' :: (ds ++ [';'])) (flat us) = flat (us.map (escU q ds)) := by
  induction us with
  | nil => simp [flat, escQuote]
  | cons u r ih =>
    simp only [List.all_cons, Bool.and_eq_true] at hok
    rw [flat_cons, escQuote_append, ih hok.2, List.map_cons, flat_cons]
    congr 1
    cases u with
    | lit c =>
      by_cases hc : (c == q) = true
      · simp [XUnit.chars, escQuote, escU, hc]
      · simp [XUnit.chars, escQuote, escU, hc]
    | named nm => exact escQuote_id q _ _ (ref_chars_noquote _ hok.1 (fun c h => by cases h) q hq)
    | dec d => exact escQuote_id q _ _ (ref_chars_noquote _ hok.1 (fun c h => by cases h) q hq)
    | hex d => exact escQuote_id q _ _ (ref_chars_noquote _ hok.1 (fun c h => by cases h) q hq)

theorem escU_props (q : Char) (ds : List Char) (hq : q = '"' ∨ q = '\'')
    (hds : (XUnit.dec ds).ok = true ∧ numVal 10 ds = q.toNat) (u : XUnit) (hu : u.ok = true) :
    (escU q ds u).ok = true ∧ (escU q ds u).val true = u.val true ∧ escU q ds u ≠ .lit q := by
  cases u with
  | lit c =>
    by_cases hc : (c == q) = true
    · have : c = q := by simpa using hc
      subst this
      simp only [escU, hc, if_true]
      refine ⟨hds.1, ?_, by simp⟩
      rcases hq with r | r <;> subst r <;> simp [XUnit.val, hds.2] <;> decide
    · simp only [escU, hc]
      have : c ≠ q := by simpa using hc
      exact ⟨hu, rfl, by simpa using this⟩
  | named nm => exact ⟨hu, rfl, by simp [escU]⟩
  | dec d => exact ⟨hu, rfl, by simp [escU]⟩
  | hex d => exact ⟨hu, rfl, by simp [escU]⟩

theorem unquote_wrap (q : Char) (hq : q = '"' ∨ q = '\'') (b : List Char) :
    unquote (q :: (b ++ [q])) = some (q, b) := by
  have : (q == '"' || q == '\'') = true := by rcases hq with r | r <;> subst r <;> decide
  simp [unquote, this]

/-- `EscapeAttrVal` on a sequence of units: a well-formed literal with the same normalised value -/
theorem escapeAttrVal_flat (us : List XUnit) (hok : us.all XUnit.ok = true) :
    attrValue (escapeAttrVal (flat us)) = us.map (XUnit.val true) ∧ WfAttrVal (escapeAttrVal (flat us)) := by
  have h34 : (XUnit.dec ['3', '4']).ok = true ∧ numVal 10 ['3', '4'] = ('"' : Char).toNat := by decide
  have h39 : (XUnit.dec ['3', '9']).ok = true ∧ numVal 10 ['3', '9'] = ('\'' : Char).toNat := by decide
  have key : ∀ (q : Char) (ds : List Char), (q = '"' ∨ q = '\'') →
      ((XUnit.dec ds).ok = true ∧ numVal 10 ds = q.toNat) →
      attrValue (q :: (escQuote q ('&' :: '#' :: (ds ++ [';'])) (flat us) ++ [q])) = us.map (XUnit.val true) ∧
      WfAttrVal (q :: (escQuote q ('&' :: '#' :: (ds ++ [';'])) (flat us) ++ [q])) := by
    intro q ds hq hds
    rw [escQuote_flat q hq ds us hok]
    have hall : (us.map (escU q ds)).all XUnit.ok = true := by
      simp only [List.all_map, List.all_eq_true, Function.comp] at hok ⊢
      intro u hu; exact (escU_props q ds hq hds u (hok u hu)).1
    constructor
    · simp only [attrValue, unquote_wrap q hq]
      rw [normAttr_flat _ hall, List.map_map]
      apply List.map_congr_left
      intro u hu
      simp only [List.all_eq_true] at hok
      exact (escU_props q ds hq hds u (hok u hu)).2.1
    · refine ⟨q, us.map (escU q ds), hq, hall, ?_, rfl⟩
      simp only [List.mem_map, not_exists, not_and]
      intro u hu
      simp only [List.all_eq_true] at hok
      exact (escU_props q ds hq hds u (hok u hu)).2.2
  unfold escapeAttrVal
  simp only
  split
  · exact key '\'' ['3', '9'] (Or.inr rfl) h39
  · exact key '"' ['3', '4'] (Or.inl rfl) h34

/-- `ReplaceEntities` with the attribute table on a sequence of units -/
theorem scan_attr (us : List XUnit) (hok : us.all XUnit.ok = true) :
    ∃ us', replEnt XmlTables.entities XmlTables.attrRev (flat us) = flat us' ∧ us'.all XUnit.ok = true ∧
      us'.map (XUnit.val true) = us.map (XUnit.val true) := by
  induction us with
  | nil => exact ⟨[], by simp [flat, replEnt, scan], by simp, rfl⟩
  | cons u r ih =>
    simp only [List.all_cons, Bool.and_eq_true] at hok
    obtain ⟨r', e1, e2, e3⟩ := ih hok.2
    unfold replEnt at e1 ⊢
    by_cases hlit : ∃ c, u = .lit c
    · obtain ⟨c, rfl⟩ := hlit
      have hamp : (c == '&') = false := by
        have := hok.1
        simp only [XUnit.ok, litOk, Bool.and_eq_true, bne_iff_ne, ne_eq] at this
        simpa using this.1.2
      refine ⟨.lit c :: r', ?_, by simp [hok.1, e2], by simp [e3]⟩
      simp [flat_cons, XUnit.chars, scan, hamp, e1]
    · have hr : ∀ c, u ≠ .lit c := fun c h => hlit ⟨c, h⟩
      obtain ⟨u', s1, s2, s3, s4⟩ := step_rev false XmlTables.attrRev attrRev_sound u (flat r) hok.1 hr
      refine ⟨u' :: r', by rw [flat_cons, s1, e1, flat_cons], by simp [s2, e2], ?_⟩
      simp only [List.map_cons, e3, List.cons.injEq, and_true]
      have hu : u.val true = u.val false := by
        cases u with
        | lit c => exact absurd rfl (hr c)
        | named _ => rfl
        | dec _ => rfl
        | hex _ => rfl
      rw [hu, ← s3]
      cases u' with
      | lit c =>
        obtain ⟨_, hl⟩ := s4 c rfl
        by_cases hs : isS c = true
        · simp only [isS, Bool.or_eq_true, beq_iff_eq] at hs
          rcases hs with ((h | h) | h) | h
          · subst h; decide
          · subst h; have := attrRev_ws.1; rw [hl] at this; exact absurd this (by simp)
          · subst h; have := attrRev_ws.2.1; rw [hl] at this; exact absurd this (by simp)
          · subst h; have := attrRev_ws.2.2; rw [hl] at this; exact absurd this (by simp)
        · simp [XUnit.val, hs]
      | named _ => rfl
      | dec _ => rfl
      | hex _ => rfl

/-- the attribute branch of `xml.go`: same normalised value, well-formed literal -/
theorem attr_token (v : List Char) (hv : WfAttrVal v) :
    attrValue (attrOut v) = attrValue v ∧ WfAttrVal (attrOut v) := by
  obtain ⟨q, us, hq, hok, hnq, rfl⟩ := hv
  rcases hq with rfl | rfl
  · have h1 : attrOut ('"' :: (flat us ++ ['"'])) =
        escapeAttrVal (replEnt XmlTables.entities XmlTables.attrRev (flat us)) := by
      have hg : ('"' :: (flat us ++ ['"'])).getLast? = some '"' := by
        have : '"' :: (flat us ++ ['"']) = ('"' :: flat us) ++ ['"'] := rfl
        rw [this, List.getLast?_concat]
      have hd : (List.drop 1 ('"' :: (flat us ++ ['"']))).dropLast = flat us := by simp
      have hlen : ¬ (('"' :: (flat us ++ ['"'])).length < 2) := by simp
      unfold attrOut
      rw [hg, hd]
      simp only [hlen, List.head?_cons, bne_self_eq_false, Bool.or_self, decide_false,
        Bool.false_eq_true, if_false]
    obtain ⟨us', e1, e2, e3⟩ := scan_attr us hok
    rw [h1, e1]
    obtain ⟨a1, a2⟩ := escapeAttrVal_flat us' e2
    refine ⟨?_, a2⟩
    rw [a1, e3]
    simp only [attrValue, unquote_wrap '"' (Or.inl rfl)]
    exact (normAttr_flat us hok).symm
  · have h1 : attrOut ('\'' :: (flat us ++ ['\''])) = '\'' :: (flat us ++ ['\'']) := by
      simp [attrOut]
    rw [h1]
    exact ⟨rfl, '\'', us, Or.inr rfl, hok, hnq, rfl⟩

/-- the attribute branch inside a processing instruction (/repo 59fe76b: no `ReplaceEntities`): same normalised
value, well-formed literal -/
theorem attr_tokenPI (v : List Char) (hv : WfAttrVal v) :
    attrValue (attrOutPI v) = attrValue v ∧ WfAttrVal (attrOutPI v) := by
  obtain ⟨q, us, hq, hok, hnq, rfl⟩ := hv
  rcases hq with rfl | rfl
  · have h1 : attrOutPI ('"' :: (flat us ++ ['"'])) = escapeAttrVal (flat us) := by
      have hg : ('"' :: (flat us ++ ['"'])).getLast? = some '"' := by
        have : '"' :: (flat us ++ ['"']) = ('"' :: flat us) ++ ['"'] := rfl
        rw [this, List.getLast?_concat]
      have hd : (List.drop 1 ('"' :: (flat us ++ ['"']))).dropLast = flat us := by simp
      have hlen : ¬ (('"' :: (flat us ++ ['"'])).length < 2) := by simp
      unfold attrOutPI
      rw [hg, hd]
      simp only [hlen, List.head?_cons, bne_self_eq_false, Bool.or_self, decide_false,
        Bool.false_eq_true, if_false]
    rw [h1]
    obtain ⟨a1, a2⟩ := escapeAttrVal_flat us hok
    refine ⟨?_, a2⟩
    rw [a1]
    simp only [attrValue, unquote_wrap '"' (Or.inl rfl)]
    exact (normAttr_flat us hok).symm
  · have h1 : attrOutPI ('\'' :: (flat us ++ ['\''])) = '\'' :: (flat us ++ ['\'']) := by
      simp [attrOutPI]
    rw [h1]
    exact ⟨rfl, '\'', us, Or.inr rfl, hok, hnq, rfl⟩

/-- value written by the attribute branch, outside (`pi = false`) and inside a processing instruction -/
theorem attr_token_any (pi : Bool) (v : List Char) (hv : WfAttrVal v) :
    attrValue (if pi then attrOutPI v else attrOut v) = attrValue v ∧
      WfAttrVal (if pi then attrOutPI v else attrOut v) := by
  cases pi
  · simpa using attr_token v hv
  · simpa using attr_tokenPI v hv

/-! ### CDATA sections -/

def cdU (c : Char) : XUnit :=
  if c == '<' then .named ['l', 't'] else if c == '&' then .named ['a', 'm', 'p'] else .lit c

theorem escCData_flat (t : List Char) : escCData t = flat (t.map cdU) := by
  induction t with
  | nil => rfl
  | cons c r ih =>
    simp only [escCData, List.map_cons, flat_cons, cdU]
    split
    · simp [XUnit.chars, ih]
    · split
      · simp [XUnit.chars, ih]
      · simp [XUnit.chars, ih]

theorem cdU_ok (c : Char) (h : isS c = true ∨ 32 ≤ c.toNat) : (cdU c).ok = true ∧ (cdU c).val false = lit c := by
  unfold cdU
  split
  · next hc => have : c = '<' := by simpa using hc
               subst this; decide
  · split
    · next hc => have : c = '&' := by simpa using hc
                 subst this; decide
    · next h1 h2 =>
      refine ⟨?_, by simp [XUnit.val]⟩
      simp only [XUnit.ok, litOk, Bool.and_eq_true, bne_iff_ne, ne_eq, Bool.or_eq_true, decide_eq_true_eq]
      exact ⟨⟨by simpa using h1, by simpa using h2⟩, h⟩

theorem escCData_length (t : List Char) :
    (escCData t).length = t.length + (3 * t.count '<' + 4 * t.count '&') := by
  induction t with
  | nil => rfl
  | cons c r ih =>
    simp only [escCData, List.count_cons]
    split
    · next hc =>
      have : c = '<' := by simpa using hc
      subst this
      simp [ih]; omega
    · split
      · next hc =>
        have : c = '&' := by simpa using hc
        subst this
        simp [ih]; omega
      · next h1 h2 =>
        simp [ih]; omega

/-- CDATA → text conversion keeps exactly the characters, yields well-formed character data, and the text is
not longer than the section `<![CDATA[`…`]]>` (12 bytes of delimiters) -/
theorem cdata_token (t e : List Char) (ht : WfCDataText t) (h : escapeCDATAVal t = some e) :
    decodeText e = t.map lit ∧ e.length ≤ t.length + 12 ∧ (t ≠ [] → WfText e) := by
  unfold escapeCDATAVal at h
  split at h
  · exact absurd h (by simp)
  · next hn =>
    simp only [Option.some.injEq] at h
    subst h
    have hok : (t.map cdU).all XUnit.ok = true := by
      simp only [List.all_map, List.all_eq_true, Function.comp]
      intro c hc; exact (cdU_ok c (ht c hc)).1
    refine ⟨?_, ?_, ?_⟩
    · rw [escCData_flat, decodeText_flat _ hok, List.map_map]
      apply List.map_congr_left
      intro c hc; exact (cdU_ok c (ht c hc)).2
    · rw [escCData_length]; omega
    · intro hne
      exact ⟨t.map cdU, hok, escCData_flat t, by simpa using hne⟩

/-! ### `escapeCDEnd` -/

theorem escCD_append (a b : List Char) : ∀ n, escCD n (a ++ b) = escCD n a ++ escCD (brAfter n a) b := by
  induction a with
  | nil => intro n; rfl
  | cons c a ih =>
    intro n
    simp only [List.cons_append, escCD, brAfter]
    split
    · simp [ih]
    · split <;> simp [ih]

theorem brAfter_append (a b : List Char) : ∀ n, brAfter n (a ++ b) = brAfter (brAfter n a) b := by
  induction a with
  | nil => intro n; rfl
  | cons c a ih =>
    intro n
    simp only [List.cons_append, brAfter]
    split <;> exact ih _

theorem escCD_pass (l : List Char) (h : ∀ c ∈ l, c ≠ ']' ∧ c ≠ '>') : ∀ n,
    escCD n l = l ∧ (l ≠ [] → brAfter n l = 0) := by
  induction l with
  | nil => intro n; exact ⟨rfl, fun h => absurd rfl h⟩
  | cons c l ih =>
    intro n
    have hc := h c (by simp)
    have h1 : (c == ']') = false := by simpa using hc.1
    have h2 : (c == '>') = false := by simpa using hc.2
    obtain ⟨i1, i2⟩ := ih (fun x hx => h x (by simp [hx])) 0
    refine ⟨by simp [escCD, h1, h2, i1], fun _ => ?_⟩
    simp only [brAfter, h1, Bool.false_eq_true, if_false]
    cases l with
    | nil => rfl
    | cons a b => exact i2 (by simp)

theorem ref_chars_avoid (u : XUnit) (hu : u.ok = true) (hr : ∀ c, u ≠ .lit c) (q : Char)
    (q1 : isNameChar q = false) (q2 : isHex q = false) (q3 : q ≠ '&' ∧ q ≠ '#' ∧ q ≠ 'x' ∧ q ≠ ';') :
    ∀ c ∈ u.chars, c ≠ q := by
  have nq : ∀ c, isNameChar c = true → c ≠ q := by
    intro c hc h; subst h; rw [q1] at hc; exact absurd hc (by simp)
  have hq' : ∀ c, isHex c = true → c ≠ q := by
    intro c hc h; subst h; rw [q2] at hc; exact absurd hc (by simp)
  obtain ⟨k1, k2, k3, k4⟩ := q3
  cases u with
  | lit c => exact absurd rfl (hr c)
  | named nm =>
    simp only [XUnit.ok, Bool.and_eq_true, List.all_eq_true] at hu
    intro c hc
    simp only [XUnit.chars, List.mem_cons, List.mem_append, List.mem_nil_iff, or_false] at hc
    rcases hc with r | r | r
    · subst r; exact fun h => k1 h.symm
    · exact nq c (hu.2 c r)
    · subst r; exact fun h => k4 h.symm
  | dec ds =>
    simp only [XUnit.ok, Bool.and_eq_true, List.all_eq_true] at hu
    intro c hc
    simp only [XUnit.chars, List.mem_cons, List.mem_append, List.mem_nil_iff, or_false] at hc
    rcases hc with r | r | r | r
    · subst r; exact fun h => k1 h.symm
    · subst r; exact fun h => k2 h.symm
    · exact hq' c (dig_hex c (hu.1.2 c r))
    · subst r; exact fun h => k4 h.symm
  | hex ds =>
    simp only [XUnit.ok, Bool.and_eq_true, List.all_eq_true] at hu
    intro c hc
    simp only [XUnit.chars, List.mem_cons, List.mem_append, List.mem_nil_iff, or_false] at hc
    rcases hc with r | r | r | r | r
    · subst r; exact fun h => k1 h.symm
    · subst r; exact fun h => k2 h.symm
    · subst r; exact fun h => k3 h.symm
    · exact hq' c (hu.1.2 c r)
    · subst r; exact fun h => k4 h.symm

/-- `escapeCDEnd` on a sequence of units: some literal `>` become `&gt;`; same values, same length -/
theorem escCD_flat (us : List XUnit) (hok : us.all XUnit.ok = true) : ∀ n,
    ∃ us', escCD n (flat us) = flat us' ∧ us'.all XUnit.ok = true ∧
      us'.map (XUnit.val false) = us.map (XUnit.val false) ∧ us'.length = us.length := by
  induction us with
  | nil => intro n; exact ⟨[], by simp [flat, escCD], by simp, rfl, rfl⟩
  | cons u r ih =>
    intro n
    simp only [List.all_cons, Bool.and_eq_true] at hok
    rw [flat_cons, escCD_append]
    obtain ⟨r', e1, e2, e3, e4⟩ := ih hok.2 (brAfter n u.chars)
    by_cases hlit : ∃ c, u = .lit c
    · obtain ⟨c, rfl⟩ := hlit
      by_cases hgt : (c == '>' && decide (2 ≤ n)) = true
      · simp only [Bool.and_eq_true, beq_iff_eq, decide_eq_true_eq] at hgt
        obtain ⟨rfl, hn⟩ := hgt
        refine ⟨.named ['g', 't'] :: r', ?_, by simp [e2]; decide, ?_, by simp [e4]⟩
        · have : escCD n (XUnit.lit '>').chars = (XUnit.named ['g', 't']).chars := by
            simp [XUnit.chars, escCD, hn]
          rw [this, e1, flat_cons]
        · simp only [List.map_cons, e3, List.cons.injEq, and_true]; decide
      · refine ⟨.lit c :: r', ?_, by simp [hok.1, e2], by simp [e3], by simp [e4]⟩
        have : escCD n (XUnit.lit c).chars = (XUnit.lit c).chars := by
          have hgt' : (c == '>' && decide (2 ≤ n)) = false := by simpa using hgt
          simp only [XUnit.chars, escCD, hgt']
          by_cases h1 : (c == ']') = true <;> simp [h1]
        rw [this, e1, flat_cons]
    · have hr : ∀ c, u ≠ .lit c := fun c h => hlit ⟨c, h⟩
      have hav : ∀ c ∈ u.chars, c ≠ ']' ∧ c ≠ '>' := fun c hc =>
        ⟨ref_chars_avoid u hok.1 hr ']' (by decide) (by decide) (by decide) c hc,
         ref_chars_avoid u hok.1 hr '>' (by decide) (by decide) (by decide) c hc⟩
      refine ⟨u :: r', ?_, by simp [hok.1, e2], by simp [e3], by simp [e4]⟩
      rw [(escCD_pass u.chars hav n).1, e1, flat_cons]

theorem escCD_text (n : Nat) (d : List Char) (h : d = [] ∨ WfText d) :
    decodeText (escCD n d) = decodeText d ∧ (escCD n d = [] ∨ WfText (escCD n d)) ∧ (escCD n d = [] ↔ d = []) := by
  rcases h with rfl | ⟨us, hok, rfl, hne⟩
  · simp [escCD]
  · obtain ⟨us', e1, e2, e3, e4⟩ := escCD_flat us hok n
    have hne' : us' ≠ [] := by
      intro h; rw [h] at e4; exact hne (List.length_eq_zero_iff.mp e4.symm)
    rw [e1, decodeText_flat us' e2, decodeText_flat us hok, e3]
    exact ⟨rfl, Or.inr ⟨us', e2, rfl, hne'⟩, by simp [flat_eq_nil, hne, hne']⟩

/-! ### the written character data never contains `]]>` -/

def cdState : Nat → List Char → Nat
  | k, [] => k
  | k, c :: r => if c == ']' then cdState (k + 1) r else cdState 0 r

theorem cdAuto_append (a b : List Char) : ∀ k, cdAuto k (a ++ b) = (cdAuto k a || cdAuto (cdState k a) b) := by
  induction a with
  | nil => intro k; simp [cdAuto, cdState]
  | cons c a ih =>
    intro k
    simp only [List.cons_append, cdAuto, cdState]
    split
    · exact ih _
    · split
      · rw [ih 0, Bool.or_assoc]
      · exact ih 0

theorem cdState_append (a b : List Char) : ∀ k, cdState k (a ++ b) = cdState (cdState k a) b := by
  induction a with
  | nil => intro k; rfl
  | cons c a ih =>
    intro k
    simp only [List.cons_append, cdState]
    split <;> exact ih _

/-- the data written by `escapeCDEnd` does not complete `]]>`, and `brackets` is the automaton state -/
theorem escCD_free (d : List Char) : ∀ n, cdAuto n (escCD n d) = false ∧ cdState n (escCD n d) = brAfter n d := by
  induction d with
  | nil => intro n; simp [escCD, cdAuto, cdState, brAfter]
  | cons c d ih =>
    intro n
    simp only [escCD, brAfter]
    by_cases h1 : (c == ']') = true
    · simp only [h1, if_true, cdAuto, cdState]
      exact ih (n + 1)
    · simp only [h1, Bool.false_eq_true, if_false]
      by_cases h2 : (c == '>' && decide (2 ≤ n)) = true
      · simp only [h2, if_true]
        have := ih 0
        simp [cdAuto, cdState, this]
      · simp only [h2, Bool.false_eq_true, if_false, cdAuto, cdState, h1]
        by_cases h3 : (c == '>') = true
        · have hn : ¬ 2 ≤ n := by
            intro hn; exact h2 (by simp [h3, hn])
          simp [h3, hn, ih 0]
        · simp [h3, ih 0]

theorem sc1 (c : Char) (l : List Char) (h : c ≠ ']') : startsCdEnd (c :: l) = false := by
  unfold startsCdEnd; split <;> simp_all

theorem sc2 (c : Char) (l : List Char) (h : c ≠ ']') : startsCdEnd (']' :: c :: l) = false := by
  unfold startsCdEnd; split <;> simp_all

theorem sc3 (c : Char) (l : List Char) (h : c ≠ '>') : startsCdEnd (']' :: ']' :: c :: l) = false := by
  unfold startsCdEnd; split <;> simp_all

/-- the automaton decides "contains the substring `]]>`" -/
theorem cdAuto_spec (l : List Char) : ∀ k,
    cdAuto k l = hasCdEnd (List.replicate (min k 2) ']' ++ l) := by
  induction l with
  | nil =>
    intro k
    have : min k 2 = 0 ∨ min k 2 = 1 ∨ min k 2 = 2 := by omega
    rcases this with h | h | h <;> rw [h] <;> simp [cdAuto, List.replicate, hasCdEnd, startsCdEnd]
  | cons c l ih =>
    intro k
    have hk : min k 2 = 0 ∨ min k 2 = 1 ∨ min k 2 = 2 := by omega
    simp only [cdAuto]
    by_cases h1 : c = ']'
    · subst h1
      simp only [beq_self_eq_true, if_true, ih (k + 1)]
      rcases hk with h | h | h
      · have : min (k + 1) 2 = 1 := by omega
        rw [h, this]; rfl
      · have : min (k + 1) 2 = 2 := by omega
        rw [h, this]; rfl
      · have : min (k + 1) 2 = 2 := by omega
        rw [h, this]
        simp [List.replicate, hasCdEnd, startsCdEnd]
    · have h1' : (c == ']') = false := by simpa using h1
      simp only [h1', Bool.false_eq_true, if_false]
      by_cases h2 : c = '>'
      · subst h2
        simp only [beq_self_eq_true, if_true, ih 0]
        rcases hk with h | h | h
        · have : ¬ 2 ≤ k := by omega
          rw [h]; simp [this, hasCdEnd, startsCdEnd]
        · have : ¬ 2 ≤ k := by omega
          rw [h]; simp [this, List.replicate, hasCdEnd, startsCdEnd]
        · have : 2 ≤ k := by omega
          rw [h]; simp [this, List.replicate, hasCdEnd, startsCdEnd]
      · have h2' : (c == '>') = false := by simpa using h2
        simp only [h2', Bool.false_eq_true, if_false, ih 0]
        rcases hk with h | h | h
        · rw [h]; simp [hasCdEnd, sc1 c l h1]
        · rw [h]; simp [List.replicate, hasCdEnd, sc1 c l h1, sc2 c l h1]
        · rw [h]; simp [List.replicate, hasCdEnd, sc1 c l h1, sc2 c l h1, sc3 c l h2]

theorem cdAuto_hasCdEnd (l : List Char) : cdAuto 0 l = hasCdEnd l := by
  simpa using cdAuto_spec l 0

/-! ## F. the loop -/

theorem infoset_cons (t : XTok) (r : List XTok) : infoset (t :: r) = evTok t ++ infoset r := by
  simp [infoset]

theorem emitGo_skip (o : XmlOpts) (om : Bool) (br : Nat) (pi : Bool) (n : Nat) (ts : List XTok) :
    emitGo o om br pi n ts = emitGo o om br pi 0 (ts.drop n) := by
  induction n generalizing ts with
  | zero => simp
  | succ n ih =>
    cases ts with
    | nil => simp [emitGo]
    | cons c r => simp only [emitGo, List.drop_succ_cons]; exact ih r

theorem infoset_emitText (d : List Char) (k : List XTok) :
    infoset (emitText d k) = (decodeText d).map .ch ++ infoset k := by
  unfold emitText
  split
  · next h =>
    have : d = [] := by simpa using h
    subst this; simp [decodeText, decodeGo]
  · simp [infoset_cons, evTok]

theorem wf_tail {t : XTok} {r : List XTok} (h : ∀ x ∈ t :: r, WfTokP x) : ∀ x ∈ r, WfTokP x :=
  fun x hx => h x (by simp [hx])

theorem cdata_head_ws (t : List Char) (ht : WfCDataText t) (h : startsWs t = true) :
    ∃ c r, t = c :: r ∧ isWsD (lit c) = true := by
  cases t with
  | nil => simp [startsWs] at h
  | cons c r =>
    refine ⟨c, r, rfl, ?_⟩
    simp only [startsWs] at h
    rcases ht c (by simp) with hs | hs
    · exact isWsD_lit_of_isS c hs
    · rcases isWs_cases c h with q | q | q | q | q <;> subst q <;> first | decide | (revert hs; decide)

/-- the `Peek` loop only removes white space in front of something that leads soft -/
theorem peek_leadsSoft (o : XmlOpts) (r : List XTok) (hwf : ∀ x ∈ r, WfTokP x) (hs : lexShape false r = true)
    (h : peekTrim o r = true) : leadsSoft o.keepWhitespace (infoset r) = true := by
  induction r with
  | nil => rfl
  | cons t r ih =>
    have hwr := wf_tail hwf
    rw [infoset_cons]
    cases t with
    | startTag n => simpa [peekTrim, evTok, leadsSoft, Mark.isTag] using h
    | endTag d n => simpa [peekTrim, evTok, leadsSoft, Mark.isTag] using h
    | startTagPI n => simpa [evTok, leadsSoft, Mark.isTag] using ih hwr (by simpa [lexShape] using hs) (by simpa [peekTrim] using h)
    | attr n v => simpa [evTok, leadsSoft, Mark.isTag] using ih hwr (by simpa [lexShape] using hs) (by simpa [peekTrim] using h)
    | attrBare d n => simpa [evTok, leadsSoft, Mark.isTag] using ih hwr (by simpa [lexShape] using hs) (by simpa [peekTrim] using h)
    | startTagClose => simp [lexShape] at hs
    | startTagCloseVoid => simp [lexShape] at hs
    | startTagClosePI => simpa [evTok, leadsSoft, Mark.isTag] using ih hwr (by simpa [lexShape] using hs) (by simpa [peekTrim] using h)
    | comment d => simpa [evTok] using ih hwr (by simpa [lexShape] using hs) (by simpa [peekTrim] using h)
    | doctype d => simpa [evTok, leadsSoft, Mark.isTag] using ih hwr (by simpa [lexShape] using hs) (by simpa [peekTrim] using h)
    | text d =>
      have hd : WfText d := hwf (.text d) (by simp)
      obtain ⟨us, hok, rfl, hne⟩ := hd
      simp only [peekTrim] at h
      cases us with
      | nil => exact absurd rfl hne
      | cons u us' =>
        rw [startsWs_flat_cons] at h
        simp only [List.all_cons, Bool.and_eq_true] at hok
        cases u with
        | lit c =>
          simp only at h
          have hsS : isS c = true := by rw [← isWs_eq_isS_ok c hok.1]; exact h
          have := decodeText_flat (XUnit.lit c :: us') (by simp [hok.1, hok.2])
          simp only [evTok, this, List.map_cons, List.cons_append, leadsSoft, XUnit.val]
          simpa using isWsD_lit_of_isS c hsS
        | named _ => simp at h
        | dec _ => simp at h
        | hex _ => simp at h
    | cdata d t =>
      have ht : WfCDataText t := hwf (.cdata d t) (by simp)
      simp only [peekTrim] at h
      obtain ⟨c, r', rfl, hc⟩ := cdata_head_ws t ht h
      simp [evTok, leadsSoft, hc]


theorem collapseSkip_cases (o : XmlOpts) (r : List XTok) :
    collapseSkip o r = none ∨
    (∃ d n r', r = .endTag d n :: r' ∧ collapseSkip o r = some 1) ∨
    (∃ d d2 n r', r = .text d :: .endTag d2 n :: r' ∧ allWs d = true ∧ o.keepWhitespace = false ∧
      collapseSkip o r = some 2) := by
  unfold collapseSkip
  split
  · next d n r' => exact Or.inr (Or.inl ⟨d, n, r', rfl, rfl⟩)
  · next d d2 n r' =>
    by_cases h : (!o.keepWhitespace && allWs d) = true
    · simp only [Bool.and_eq_true, Bool.not_eq_true'] at h
      exact Or.inr (Or.inr ⟨d, d2, n, r', rfl, h.2, h.1, by simp [h.1, h.2]⟩)
    · left; simp [h]
  · left; rfl

/-- a text token made of white space only -/
theorem allWs_text (d : List Char) (hd : WfText d) (h : allWs d = true) :
    d.all isS = true ∧ decodeText d ≠ [] ∧ ∀ x ∈ decodeText d, isWsD x = true := by
  obtain ⟨us, hok, rfl, hne⟩ := hd
  have key : ∀ us : List XUnit, us.all XUnit.ok = true → allWs (flat us) = true →
      (flat us).all isS = true ∧ ∀ x ∈ us.map (XUnit.val false), isWsD x = true := by
    intro us
    induction us with
    | nil => intro _ _; simp [flat]
    | cons u r ih =>
      intro hok h
      simp only [List.all_cons, Bool.and_eq_true] at hok
      rw [flat_cons] at h ⊢
      simp only [allWs, List.all_append, Bool.and_eq_true] at h
      obtain ⟨i1, i2⟩ := ih hok.2 (by simpa [allWs] using h.2)
      cases u with
      | lit c =>
        have hw : isWs c = true := by simpa [XUnit.chars] using h.1
        have hs : isS c = true := by rw [← isWs_eq_isS_ok c hok.1]; exact hw
        refine ⟨by simp [XUnit.chars, hs, i1], ?_⟩
        intro x hx
        simp only [List.map_cons, List.mem_cons] at hx
        rcases hx with rfl | hx
        · simpa [XUnit.val] using isWsD_lit_of_isS c hs
        · exact i2 x hx
      | named nm => simp [XUnit.chars] at h; exact absurd h.1.1 (by decide)
      | dec ds => simp [XUnit.chars] at h; exact absurd h.1.1 (by decide)
      | hex ds => simp [XUnit.chars] at h; exact absurd h.1.1 (by decide)
  obtain ⟨k1, k2⟩ := key us hok h
  rw [decodeText_flat us hok]
  exact ⟨k1, by simpa using hne, k2⟩

theorem afterC_last_ws (V : List DCh) (h : lastWs V) (p ps : Bool) : (afterC p ps V).1 = true := by
  obtain ⟨V3, w, rfl, hw⟩ := h
  rw [afterC_append_ws V3 w hw]

theorem infoset_emitText_esc (n : Nat) (d : List Char) (h : d = [] ∨ WfText d) (k : List XTok) :
    infoset (emitText (escCD n d) k) = (decodeText d).map .ch ++ infoset k := by
  rw [infoset_emitText, (escCD_text n d h).1]

set_option maxHeartbeats 1000000 in
/-- the loop of `xml.go` preserves the canonical form of the infoset (state invariant: `omitSpace` is set only
when white space is pending in the output or the previous solid is soft) -/
theorem loop_aux (o : XmlOpts) (n : Nat) : ∀ ts : List XTok, ts.length ≤ n →
    (∀ x ∈ ts, WfTokP x) → ∀ (om : Bool) (br : Nat) (pi tg p ps : Bool), lexShape tg ts = true →
    (tg = true → o.keepWhitespace = true → om = false) →
    (om = true → ps = true ∨ p = true) →
    canonGo o.keepWhitespace p ps (infoset (emitGo o om br pi 0 ts)) =
      canonGo o.keepWhitespace p ps (infoset ts) := by
  induction n with
  | zero =>
    intro ts hl _ om br pi tg p ps _ _ _
    have : ts = [] := List.length_eq_zero_iff.mp (by omega)
    subst this; rfl
  | succ n ih =>
    intro ts hl hwf om br pi tg p ps hsh htg hom
    cases ts with
    | nil => rfl
    | cons t r =>
      simp only [List.length_cons] at hl
      have hlr : r.length ≤ n := by omega
      have hwr := wf_tail hwf
      have softK : ∀ om' : Bool, (om' = true → o.keepWhitespace = false) →
          (om' = true → (!o.keepWhitespace) = true ∨ false = true) := by
        intro om' h h'; left; simp [h h']
      cases t with
      | startTag nm =>
        simp only [emitGo, infoset_cons, evTok, List.singleton_append, canonGo, Mark.isTag, if_true]
        congr 1
        apply ih r hlr hwr _ 0 pi true false _ (by simpa [lexShape] using hsh)
        · intro _ hK; simp [hK]
        · apply softK
          intro h
          cases hK : o.keepWhitespace with
          | true => simp [hK] at h
          | false => rfl
      | endTag d nm =>
        simp only [emitGo, infoset_cons, evTok, List.singleton_append, canonGo, Mark.isTag, if_true]
        congr 1
        apply ih r hlr hwr _ 0 pi false false _ (by simpa [lexShape] using hsh)
        · intro h; exact absurd h (by simp)
        · apply softK
          intro h
          cases hK : o.keepWhitespace with
          | true => simp [hK] at h
          | false => rfl
      | attr nm v =>
        have hv : WfAttrVal v := hwf (.attr nm v) (by simp)
        simp only [emitGo, infoset_cons, evTok, List.singleton_append, canonGo, Mark.isTag,
          Bool.false_eq_true, if_false, (attr_token_any pi v hv).1]
        congr 1
        exact ih r hlr hwr om 0 pi tg p ps (by simpa [lexShape] using hsh) htg hom
      | attrBare d nm =>
        have hrec := ih r hlr hwr om 0 pi tg p ps (by simpa [lexShape] using hsh) htg hom
        cases pi with
        | true =>
          simp only [emitGo, if_true, infoset_cons, evTok, List.singleton_append, canonGo, Mark.isTag,
            Bool.false_eq_true, if_false]
          rw [hrec]
        | false =>
          simp only [emitGo, Bool.false_eq_true, if_false, infoset_cons, evTok, List.singleton_append, canonGo,
            Mark.isTag, attrValue, unquote]
          rw [hrec]
      | startTagPI nm =>
        simp only [emitGo, infoset_cons, evTok, List.singleton_append, canonGo, Mark.isTag,
          Bool.false_eq_true, if_false]
        congr 1
        exact ih r hlr hwr om 0 true false p ps (by simpa [lexShape] using hsh) (fun h => absurd h (by simp)) hom
      | startTagClosePI =>
        simp only [emitGo, infoset_cons, evTok, List.singleton_append, canonGo, Mark.isTag,
          Bool.false_eq_true, if_false]
        congr 1
        exact ih r hlr hwr om 0 false false p ps (by simpa [lexShape] using hsh) (fun h => absurd h (by simp)) hom
      | doctype d =>
        simp only [emitGo, infoset_cons, evTok, List.singleton_append, canonGo, Mark.isTag,
          Bool.false_eq_true, if_false]
        congr 1
        exact ih r hlr hwr om 0 pi false p ps (by simpa [lexShape] using hsh) (fun h => absurd h (by simp)) hom
      | comment d =>
        simp only [emitGo, infoset_cons, evTok, List.nil_append]
        exact ih r hlr hwr om br pi false p ps (by simpa [lexShape] using hsh) (fun h => absurd h (by simp)) hom
      | startTagCloseVoid =>
        simp only [lexShape, Bool.and_eq_true] at hsh
        simp only [emitGo, infoset_cons, evTok, List.singleton_append, canonGo, Mark.isTag, if_true]
        congr 1
        apply ih r hlr hwr om 0 false false false _ hsh.2 (fun h => absurd h (by simp))
        apply softK
        intro h
        cases hK : o.keepWhitespace with
        | true => have := htg hsh.1 hK; rw [this] at h; exact absurd h (by simp)
        | false => rfl
      | startTagClose =>
        simp only [lexShape, Bool.and_eq_true] at hsh
        have homK : om = true → o.keepWhitespace = false := by
          intro h
          cases hK : o.keepWhitespace with
          | true => have := htg hsh.1 hK; rw [this] at h; exact absurd h (by simp)
          | false => rfl
        cases pi with
        | true =>
          simp only [emitGo, if_true, infoset_cons, evTok, List.nil_append]
          exact ih r hlr hwr om 0 false false p ps hsh.2 (fun h => absurd h (by simp)) hom
        | false =>
        rcases collapseSkip_cases o r with hc | ⟨d, nm, r', rfl, hc⟩ | ⟨d, d2, nm, r', rfl, haw, hK, hc⟩
        · simp only [emitGo, Bool.false_eq_true, if_false, hc, infoset_cons, evTok, List.nil_append]
          exact ih r hlr hwr om 0 false false p ps hsh.2 (fun h => absurd h (by simp)) hom
        · simp only [emitGo, Bool.false_eq_true, if_false, hc, infoset_cons, evTok, List.nil_append, List.singleton_append, canonGo,
            Mark.isTag, if_true]
          congr 1
          exact ih r' (by simp at hlr; omega) (wf_tail hwr) om 0 false false false _
            (by simpa [lexShape] using hsh.2) (fun h => absurd h (by simp)) (softK om homK)
        · have hd : WfText d := hwf (.text d) (by simp)
          obtain ⟨a1, a2, a3⟩ := allWs_text d hd haw
          simp only [emitGo, Bool.false_eq_true, if_false, hc, infoset_cons, evTok, List.nil_append, List.singleton_append]
          rw [canon_ws_run _ (decodeText d) a2 a3]
          simp only [canonGo, Mark.isTag, if_true, hK, Bool.and_false, Bool.not_false]
          congr 1
          have := ih r' (by simp at hlr; omega) (wf_tail (wf_tail hwr)) om 0 false false false true
            (by simpa [lexShape] using hsh.2) (fun h => absurd h (by simp)) (fun _ => Or.inl rfl)
          rw [hK] at this
          exact this
      | cdata data txt =>
        have ht : WfCDataText txt := hwf (.cdata data txt) (by simp)
        by_cases hemp : txt = []
        · subst hemp
          simp only [emitGo, List.isEmpty_nil, if_true, infoset_cons, evTok, List.map_nil, List.nil_append]
          exact ih r hlr hwr om br pi false p ps (by simpa [lexShape] using hsh) (fun h => absurd h (by simp)) hom
        · have hne : txt.isEmpty = false := by simpa using hemp
          have hev2 : evTok (XTok.cdata data txt) = (txt.map lit).map .ch := by simp [evTok]
          have hemit : ∃ (tok : XTok) (br' : Nat), evTok tok = (txt.map lit).map .ch ∧
              emitGo o om br pi 0 (XTok.cdata data txt :: r) = tok :: emitGo o (endsWs txt) br' pi 0 r := by
            cases he : escapeCDATAVal txt with
            | none => exact ⟨_, 0, hev2, by simp [emitGo, hne, he]⟩
            | some e =>
              refine ⟨XTok.text (escCD br e), brAfter br e, ?_, by simp [emitGo, hne, he]⟩
              obtain ⟨c1, _, c3⟩ := cdata_token txt e ht he
              simp only [evTok, (escCD_text br e (Or.inr (c3 hemp))).1, c1]
          obtain ⟨tok, br', htok, hem⟩ := hemit
          rw [hem, infoset_cons, infoset_cons, htok, hev2, canon_chars, canon_chars]
          congr 1
          apply ih r hlr hwr _ br' pi false _ _ (by simpa [lexShape] using hsh) (fun h => absurd h (by simp))
          intro hew
          right
          obtain ⟨a, c, rfl⟩ := exists_concat txt hemp
          rw [endsWs_append_singleton] at hew
          have hcs : isWsD (lit c) = true := by
            rcases ht c (by simp) with hs | hs
            · exact isWsD_lit_of_isS c hs
            · rcases isWs_cases c hew with q | q | q | q | q <;> subst q <;>
                first | decide | (revert hs; decide)
          apply afterC_last_ws
          exact ⟨a.map lit, lit c, by simp, hcs⟩
      | text d =>
        have hd : WfText d := hwf (.text d) (by simp)
        have hshr : lexShape false r = true := by simpa [lexShape] using hsh
        obtain ⟨V1, hV1, h1, h2, V2, hV2, hcases, hout⟩ := text_token o om d r hd
        have hpeek : peekTrim o r = true → leadsSoft o.keepWhitespace (infoset r) = true :=
          peek_leadsSoft o r hwr hshr
        -- left trim is invisible
        have hpp : (∃ w, isWsD w = true ∧ V1 = w :: V2) → om = true → ps = true ∨ p = true :=
          fun _ h => hom h
        have hleft : ∀ X, canonGo o.keepWhitespace p ps (V2.map .ch ++ X) =
            canonGo o.keepWhitespace p ps (V1.map .ch ++ X) := by
          intro X
          rcases hV2 with rfl | ⟨homt, w, hw, rfl⟩
          · rfl
          · simpa using canon_trim_left _ p ps w hw (V2.map .ch ++ X) (hom homt)
        have hpp0 : V2 = [] → ps = true ∨ p = true := by
          intro hV
          rcases hV2 with rfl | ⟨homt, w, hw, rfl⟩
          · exact absurd hV hV1
          · exact hom homt
        simp only [emitGo, infoset_cons, evTok, infoset_emitText_esc _ _ hout]
        rw [← h1 o.keepWhitespace p ps (infoset r), ← hleft]
        rcases hcases with ⟨hV, hs⟩ | ⟨hdec, hne, hs⟩ | ⟨V3, w, hV, hw, hdec, hs2, hp⟩
        · rw [hs, hV]
          simp only [decodeText, decodeGo, List.map_nil, List.nil_append]
          exact ih r hlr hwr true _ pi false p ps hshr (fun h => absurd h (by simp)) (fun _ => hpp0 hV)
        · rw [hdec, canon_chars, canon_chars]
          congr 1
          apply ih r hlr hwr _ _ pi false _ _ hshr (fun h => absurd h (by simp))
          intro h
          rcases hs with ⟨_, hl⟩ | hf
          · right; exact afterC_last_ws V2 hl _ _
          · rw [hf] at h; exact absurd h (by simp)
        · rw [hdec, hs2, hV, ← canon_trim_right _ p ps V3 w hw (infoset r) (hpeek hp), canon_chars, canon_chars]
          congr 1
          exact ih r hlr hwr false _ pi false _ _ hshr (fun h => absurd h (by simp))
            (fun h => absurd h (by simp))

/-! ## G. items other than characters; well-formedness of emitted tokens -/

theorem marks_append (a b : List Ev) : marks (a ++ b) = marks a ++ marks b := by
  induction a with
  | nil => rfl
  | cons e r ih => cases e <;> simp [marks, ih]

theorem marks_chars (V : List DCh) : marks (V.map .ch) = [] := by
  induction V with
  | nil => rfl
  | cons d r ih => simp [marks, ih]

theorem marks_chars_append (V : List DCh) (E : List Ev) : marks (V.map .ch ++ E) = marks E := by
  rw [marks_append, marks_chars]; rfl

theorem marks_aux (o : XmlOpts) (n : Nat) : ∀ ts : List XTok, ts.length ≤ n →
    (∀ x ∈ ts, WfTokP x) → ∀ (om : Bool) (br : Nat) (pi : Bool),
    marks (infoset (emitGo o om br pi 0 ts)) = marks (infoset ts) := by
  induction n with
  | zero =>
    intro ts hl _ om br pi
    have : ts = [] := List.length_eq_zero_iff.mp (by omega)
    subst this; rfl
  | succ n ih =>
    intro ts hl hwf om br pi
    cases ts with
    | nil => rfl
    | cons t r =>
      simp only [List.length_cons] at hl
      have hlr : r.length ≤ n := by omega
      have hwr := wf_tail hwf
      cases t with
      | startTag nm => simp only [emitGo, infoset_cons, evTok, marks_append, ih r hlr hwr]
      | endTag d nm => simp only [emitGo, infoset_cons, evTok, marks_append, ih r hlr hwr]
      | attr nm v =>
        have hv : WfAttrVal v := hwf (.attr nm v) (by simp)
        simp only [emitGo, infoset_cons, evTok, marks_append, ih r hlr hwr, (attr_token_any pi v hv).1]
      | attrBare d nm =>
        cases pi <;> simp only [emitGo, if_true, Bool.false_eq_true, if_false, infoset_cons, evTok, marks_append,
          ih r hlr hwr, attrValue, unquote]
      | startTagPI nm => simp only [emitGo, infoset_cons, evTok, marks_append, ih r hlr hwr]
      | startTagClosePI => simp only [emitGo, infoset_cons, evTok, marks_append, ih r hlr hwr]
      | doctype d => simp only [emitGo, infoset_cons, evTok, marks_append, ih r hlr hwr]
      | comment d => simp only [emitGo, infoset_cons, evTok, List.nil_append, ih r hlr hwr]
      | startTagCloseVoid => simp only [emitGo, infoset_cons, evTok, marks_append, ih r hlr hwr]
      | startTagClose =>
        cases pi with
        | true => simp only [emitGo, if_true, infoset_cons, evTok, List.nil_append, ih r hlr hwr]
        | false =>
        rcases collapseSkip_cases o r with hc | ⟨d, nm, r', rfl, hc⟩ | ⟨d, d2, nm, r', rfl, _, _, hc⟩
        · simp only [emitGo, Bool.false_eq_true, if_false, hc, infoset_cons, evTok, List.nil_append, ih r hlr hwr]
        · simp only [emitGo, Bool.false_eq_true, if_false, hc, infoset_cons, evTok, List.nil_append, marks_append,
            ih r' (by simp at hlr; omega) (wf_tail hwr)]
        · simp only [emitGo, Bool.false_eq_true, if_false, hc, infoset_cons, evTok, List.nil_append, marks_append, marks_chars,
            ih r' (by simp at hlr; omega) (wf_tail (wf_tail hwr))]
      | cdata data txt =>
        have hcd : marks (List.map (fun c => Ev.ch (lit c)) txt) = [] := by
          have h := marks_chars (txt.map lit)
          rw [List.map_map] at h
          exact h
        by_cases hemp : txt = []
        · subst hemp
          simp only [emitGo, List.isEmpty_nil, if_true, infoset_cons, evTok, List.map_nil, List.nil_append,
            ih r hlr hwr]
        · have hne : txt.isEmpty = false := by simpa using hemp
          cases he : escapeCDATAVal txt with
          | none =>
            simp only [emitGo, hne, he, Bool.false_eq_true, if_false, infoset_cons, evTok, marks_append,
              ih r hlr hwr]
          | some e =>
            simp only [emitGo, hne, he, Bool.false_eq_true, if_false, infoset_cons, evTok, marks_append,
              ih r hlr hwr, marks_chars, hcd]
      | text d =>
        simp only [emitGo, infoset_cons, evTok, infoset_emitText, marks_chars_append, ih r hlr hwr]

theorem wfout_aux (o : XmlOpts) (n : Nat) : ∀ ts : List XTok, ts.length ≤ n →
    (∀ x ∈ ts, WfTokP x) → ∀ (om : Bool) (br : Nat) (pi : Bool), bareInPI pi ts = true →
    ∀ y ∈ emitGo o om br pi 0 ts, WfOutP y := by
  induction n with
  | zero =>
    intro ts hl _ om br pi _
    have : ts = [] := List.length_eq_zero_iff.mp (by omega)
    subst this; simp [emitGo]
  | succ n ih =>
    intro ts hl hwf om br pi hb
    cases ts with
    | nil => simp [emitGo]
    | cons t r =>
      simp only [List.length_cons] at hl
      have hlr : r.length ≤ n := by omega
      have hwr := wf_tail hwf
      have step : ∀ (t' : XTok) (om' : Bool) (br' : Nat) (pi' : Bool), bareInPI pi' r = true → WfOutP t' →
          ∀ y ∈ t' :: emitGo o om' br' pi' 0 r, WfOutP y := by
        intro t' om' br' pi' hb' ht' y hy
        simp only [List.mem_cons] at hy
        rcases hy with rfl | hy
        · exact ht'
        · exact ih r hlr hwr om' br' pi' hb' y hy
      cases t with
      | startTag nm => simpa only [emitGo] using step (.startTag nm) _ 0 pi (by simpa [bareInPI] using hb) trivial
      | endTag d nm =>
        simpa only [emitGo] using step (.endTag (endTagOut d nm) nm) _ 0 pi (by simpa [bareInPI] using hb) trivial
      | attr nm v =>
        have hv : WfAttrVal v := hwf (.attr nm v) (by simp)
        simpa only [emitGo] using step (.attr nm (if pi then attrOutPI v else attrOut v)) om 0 pi
          (by simpa [bareInPI] using hb) (attr_token_any pi v hv).2
      | attrBare d nm =>
        simp only [bareInPI, Bool.and_eq_true] at hb
        obtain ⟨hpi, hb⟩ := hb
        subst hpi
        simpa only [emitGo, if_true] using step (.attrBare d nm) om 0 true hb trivial
      | startTagPI nm => simpa only [emitGo] using step (.startTagPI nm) om 0 true (by simpa [bareInPI] using hb) trivial
      | startTagClosePI =>
        simpa only [emitGo] using step .startTagClosePI om 0 false (by simpa [bareInPI] using hb) trivial
      | doctype d => simpa only [emitGo] using step (.doctype d) om 0 pi (by simpa [bareInPI] using hb) trivial
      | comment d => simpa only [emitGo] using ih r hlr hwr om br pi (by simpa [bareInPI] using hb)
      | startTagCloseVoid =>
        simpa only [emitGo] using step .startTagCloseVoid om 0 false (by simpa [bareInPI] using hb) trivial
      | startTagClose =>
        have hb' : bareInPI false r = true := by simpa [bareInPI] using hb
        cases pi with
        | true => simpa only [emitGo, if_true] using step .startTagClose om 0 false hb' trivial
        | false =>
        rcases collapseSkip_cases o r with hc | ⟨d, nm, r', rfl, hc⟩ | ⟨d, d2, nm, r', rfl, _, _, hc⟩
        · simpa only [emitGo, Bool.false_eq_true, if_false, hc] using step .startTagClose om 0 false hb' trivial
        · simp only [emitGo, Bool.false_eq_true, if_false, hc]
          intro y hy
          simp only [List.mem_cons] at hy
          rcases hy with rfl | hy
          · trivial
          · exact ih r' (by simp at hlr; omega) (wf_tail hwr) om 0 false (by simpa [bareInPI] using hb') y hy
        · simp only [emitGo, Bool.false_eq_true, if_false, hc]
          intro y hy
          simp only [List.mem_cons] at hy
          rcases hy with rfl | hy
          · trivial
          · exact ih r' (by simp at hlr; omega) (wf_tail (wf_tail hwr)) om 0 false (by simpa [bareInPI] using hb') y hy
      | cdata data txt =>
        have ht : WfCDataText txt := hwf (.cdata data txt) (by simp)
        have hb' : bareInPI pi r = true := by simpa [bareInPI] using hb
        by_cases hemp : txt = []
        · subst hemp
          simpa only [emitGo, List.isEmpty_nil, if_true] using ih r hlr hwr om br pi hb'
        · have hne : txt.isEmpty = false := by simpa using hemp
          cases he : escapeCDATAVal txt with
          | none =>
            simpa only [emitGo, hne, he, Bool.false_eq_true, if_false] using step (.cdata data txt) _ 0 pi hb' ht
          | some e =>
            have hwe := (cdata_token txt e ht he).2.2 hemp
            have h2 := escCD_text br e (Or.inr hwe)
            have hwf2 : WfText (escCD br e) := by
              rcases h2.2.1 with h | h
              · have : e = [] := h2.2.2.mp h
                obtain ⟨us, _, rfl, hne'⟩ := hwe
                exact absurd ((flat_eq_nil us).mp this) hne'
              · exact h
            simpa only [emitGo, hne, he, Bool.false_eq_true, if_false] using
              step (.text (escCD br e)) _ _ pi hb' hwf2
      | text d =>
        have hd : WfText d := hwf (.text d) (by simp)
        have hb' : bareInPI pi r = true := by simpa [bareInPI] using hb
        obtain ⟨_, _, _, _, _, _, _, hout⟩ := text_token o om d r hd
        have h2 := escCD_text br (textStep o om d r).1 hout
        simp only [emitGo]
        intro y hy
        unfold emitText at hy
        split at hy
        · exact ih r hlr hwr _ _ pi hb' y hy
        · next hne =>
          simp only [List.mem_cons] at hy
          rcases hy with rfl | hy
          · rcases h2.2.1 with h | h
            · rw [h] at hne; simp at hne
            · exact h
          · exact ih r hlr hwr _ _ pi hb' y hy

/-- `ReplaceMultipleWhitespaceAndEntities` on a text token: same characters up to collapsing white space runs -/
theorem text_repl_equiv (d : List Char) (hd : WfText d) (K p ps : Bool) (E : List Ev) :
    canonGo K p ps ((decodeText (textRepl d)).map .ch ++ E) = canonGo K p ps ((decodeText d).map .ch ++ E) := by
  obtain ⟨us, hok, rfl, _⟩ := hd
  obtain ⟨us', e1, e2, e3, _⟩ := scan_text us hok
  rw [e1, decodeText_flat us' e2, decodeText_flat us hok]
  exact canon_sim K e3 E p ps

/-! ## H. element nesting -/

theorem nest_emitText (st : List (List Char)) (d : List Char) (k : List XTok) :
    nest st (emitText d k) = nest st k := by
  unfold emitText
  split
  · rfl
  · cases st <;> simp [nest]

theorem nest_aux (o : XmlOpts) (n : Nat) : ∀ ts : List XTok, ts.length ≤ n →
    ∀ (om : Bool) (br : Nat) (pi : Bool) (st : List (List Char)),
    nest st ts = true → nest st (emitGo o om br pi 0 ts) = true := by
  induction n with
  | zero =>
    intro ts hl om br pi st h
    have : ts = [] := List.length_eq_zero_iff.mp (by omega)
    subst this; simpa [emitGo] using h
  | succ n ih =>
    intro ts hl om br pi st h
    cases ts with
    | nil => simpa [emitGo] using h
    | cons t r =>
      simp only [List.length_cons] at hl
      have hlr : r.length ≤ n := by omega
      cases t with
      | startTag nm => simp only [emitGo, nest] at h ⊢; exact ih r hlr _ _ _ _ h
      | endTag d nm =>
        cases st with
        | nil => simp [nest] at h
        | cons a st' =>
          simp only [emitGo, nest, Bool.and_eq_true] at h ⊢
          exact ⟨h.1, ih r hlr _ _ _ _ h.2⟩
      | attr nm v => cases st <;> (simp only [emitGo, nest] at h ⊢; exact ih r hlr _ _ _ _ h)
      | attrBare d nm =>
        cases pi <;> cases st <;>
          (simp only [emitGo, if_true, Bool.false_eq_true, if_false, nest] at h ⊢; exact ih r hlr _ _ _ _ h)
      | startTagPI nm => cases st <;> (simp only [emitGo, nest] at h ⊢; exact ih r hlr _ _ _ _ h)
      | startTagClosePI => cases st <;> (simp only [emitGo, nest] at h ⊢; exact ih r hlr _ _ _ _ h)
      | doctype d => cases st <;> (simp only [emitGo, nest] at h ⊢; exact ih r hlr _ _ _ _ h)
      | comment d => cases st <;> (simp only [emitGo, nest] at h ⊢; exact ih r hlr _ _ _ _ h)
      | startTagCloseVoid =>
        cases st with
        | nil => simp [nest] at h
        | cons a st' => simp only [emitGo, nest] at h ⊢; exact ih r hlr _ _ _ _ h
      | startTagClose =>
        cases pi with
        | true => cases st <;> (simp only [emitGo, if_true, nest] at h ⊢; exact ih r hlr _ _ _ _ h)
        | false =>
        rcases collapseSkip_cases o r with hc | ⟨d, nm, r', rfl, hc⟩ | ⟨d, d2, nm, r', rfl, _, _, hc⟩
        · cases st <;> (simp only [emitGo, Bool.false_eq_true, if_false, hc, nest] at h ⊢; exact ih r hlr _ _ _ _ h)
        · cases st with
          | nil => simp [nest] at h
          | cons a st' =>
            simp only [emitGo, Bool.false_eq_true, if_false, hc, nest, Bool.and_eq_true] at h ⊢
            exact ih r' (by simp at hlr; omega) _ _ _ _ h.2
        · cases st with
          | nil => simp [nest] at h
          | cons a st' =>
            simp only [emitGo, Bool.false_eq_true, if_false, hc, nest, Bool.and_eq_true] at h ⊢
            exact ih r' (by simp at hlr; omega) _ _ _ _ h.2
      | cdata data txt =>
        by_cases hemp : txt.isEmpty = true
        · cases st <;> (simp only [emitGo, hemp, if_true, nest] at h ⊢; exact ih r hlr _ _ _ _ h)
        · cases he : escapeCDATAVal txt <;> cases st <;>
            (simp only [emitGo, hemp, he, Bool.false_eq_true, if_false, nest] at h ⊢; exact ih r hlr _ _ _ _ h)
      | text d =>
        have h' : nest st r = true := by cases st <;> simpa [nest] using h
        simp only [emitGo, nest_emitText]
        exact ih r hlr _ _ _ _ h'

/-! ## I. the written character data never contains `]]>` -/

/-- all raw character data runs of a token stream, starting inside a run `acc`, are free of `]]>` -/
def runsFree (acc : List Char) (ts : List XTok) : Prop := ∀ run ∈ rawRuns acc ts, cdAuto 0 run = false

theorem rawRuns_emitText (acc d : List Char) (k : List XTok) :
    rawRuns acc (emitText d k) = rawRuns (acc ++ d) k := by
  unfold emitText
  split
  · next h =>
    have : d = [] := by simpa using h
    subst this; simp
  · rfl

theorem rawfree_aux (o : XmlOpts) (n : Nat) : ∀ ts : List XTok, ts.length ≤ n →
    ∀ (om : Bool) (br : Nat) (pi : Bool) (acc : List Char),
    cdAuto 0 acc = false → cdState 0 acc = br → runsFree acc (emitGo o om br pi 0 ts) := by
  induction n with
  | zero =>
    intro ts hl om br pi acc h1 _
    have : ts = [] := List.length_eq_zero_iff.mp (by omega)
    subst this
    intro run hr
    simp only [emitGo, rawRuns, List.mem_singleton] at hr
    subst hr; exact h1
  | succ n ih =>
    intro ts hl om br pi acc h1 h2
    cases ts with
    | nil =>
      intro run hr
      simp only [emitGo, rawRuns, List.mem_singleton] at hr
      subst hr; exact h1
    | cons t r =>
      simp only [List.length_cons] at hl
      have hlr : r.length ≤ n := by omega
      -- a token other than text ends the run
      have flush : ∀ (t' : XTok) (rest : List XTok), (∀ d, t' ≠ .text d) → (∀ d, t' ≠ .comment d) →
          runsFree [] rest → runsFree acc (t' :: rest) := by
        intro t' rest hn1 hn2 hrest run hr
        cases t' with
        | text d => exact absurd rfl (hn1 d)
        | comment d => exact absurd rfl (hn2 d)
        | _ =>
          simp only [rawRuns, List.mem_cons] at hr
          rcases hr with rfl | hr
          · exact h1
          · exact hrest run hr
      have nil0 : cdAuto 0 ([] : List Char) = false ∧ cdState 0 ([] : List Char) = 0 := ⟨rfl, rfl⟩
      have textcase : ∀ (d : List Char) (om' pi' : Bool),
          runsFree acc (emitText (escCD br d) (emitGo o om' (brAfter br d) pi' 0 r)) := by
        intro d om' pi'
        unfold runsFree
        rw [rawRuns_emitText]
        have hf := escCD_free d br
        apply ih r hlr om' _ pi' (acc ++ escCD br d)
        · rw [cdAuto_append, h1, h2, hf.1]; rfl
        · rw [cdState_append, h2, hf.2]
      cases t with
      | startTag nm =>
        simp only [emitGo]
        exact flush _ _ (fun _ h => by cases h) (fun _ h => by cases h) (ih r hlr _ 0 pi [] nil0.1 nil0.2)
      | endTag d nm =>
        simp only [emitGo]
        exact flush _ _ (fun _ h => by cases h) (fun _ h => by cases h) (ih r hlr _ 0 pi [] nil0.1 nil0.2)
      | attr nm v =>
        simp only [emitGo]
        exact flush _ _ (fun _ h => by cases h) (fun _ h => by cases h) (ih r hlr _ 0 pi [] nil0.1 nil0.2)
      | attrBare d nm =>
        simp only [emitGo]
        cases pi with
        | true => exact flush _ _ (fun _ h => by cases h) (fun _ h => by cases h) (ih r hlr _ 0 true [] nil0.1 nil0.2)
        | false => exact flush _ _ (fun _ h => by cases h) (fun _ h => by cases h) (ih r hlr _ 0 false [] nil0.1 nil0.2)
      | startTagPI nm =>
        simp only [emitGo]
        exact flush _ _ (fun _ h => by cases h) (fun _ h => by cases h) (ih r hlr _ 0 true [] nil0.1 nil0.2)
      | startTagClosePI =>
        simp only [emitGo]
        exact flush _ _ (fun _ h => by cases h) (fun _ h => by cases h) (ih r hlr _ 0 false [] nil0.1 nil0.2)
      | doctype d =>
        simp only [emitGo]
        exact flush _ _ (fun _ h => by cases h) (fun _ h => by cases h) (ih r hlr _ 0 pi [] nil0.1 nil0.2)
      | comment d =>
        simp only [emitGo]
        exact ih r hlr om br pi acc h1 h2
      | startTagCloseVoid =>
        simp only [emitGo]
        exact flush _ _ (fun _ h => by cases h) (fun _ h => by cases h) (ih r hlr _ 0 false [] nil0.1 nil0.2)
      | startTagClose =>
        cases pi with
        | true =>
          simp only [emitGo, if_true]
          exact flush _ _ (fun _ h => by cases h) (fun _ h => by cases h) (ih r hlr _ 0 false [] nil0.1 nil0.2)
        | false =>
        rcases collapseSkip_cases o r with hc | ⟨d, nm, r', rfl, hc⟩ | ⟨d, d2, nm, r', rfl, _, _, hc⟩
        · simp only [emitGo, Bool.false_eq_true, if_false, hc]
          exact flush _ _ (fun _ h => by cases h) (fun _ h => by cases h) (ih r hlr _ 0 false [] nil0.1 nil0.2)
        · simp only [emitGo, Bool.false_eq_true, if_false, hc]
          exact flush _ _ (fun _ h => by cases h) (fun _ h => by cases h)
            (ih r' (by simp at hlr; omega) _ 0 false [] nil0.1 nil0.2)
        · simp only [emitGo, Bool.false_eq_true, if_false, hc]
          exact flush _ _ (fun _ h => by cases h) (fun _ h => by cases h)
            (ih r' (by simp at hlr; omega) _ 0 false [] nil0.1 nil0.2)
      | cdata data txt =>
        by_cases hemp : txt.isEmpty = true
        · simp only [emitGo, hemp, if_true]
          exact ih r hlr om br pi acc h1 h2
        · cases he : escapeCDATAVal txt with
          | none =>
            simp only [emitGo, hemp, he, Bool.false_eq_true, if_false]
            exact flush _ _ (fun _ h => by cases h) (fun _ h => by cases h) (ih r hlr _ 0 pi [] nil0.1 nil0.2)
          | some e =>
            simp only [emitGo, hemp, he, Bool.false_eq_true, if_false]
            intro run hr
            simp only [rawRuns] at hr
            have hf := escCD_free e br
            exact ih r hlr _ _ pi (acc ++ escCD br e)
              (by rw [cdAuto_append, h1, h2, hf.1]; rfl) (by rw [cdState_append, h2, hf.2]) run hr
      | text d =>
        simp only [emitGo]
        exact textcase _ _ _

/-! ## J. bytes: `renderGo` (space in front of a `>` / `/>` inside a processing instruction, /repo 59fe76b) -/

/-- no `>` / `/>` token between `<?target` and `?>` (what the grammar of processing instructions says; the
dependency lexer delivers such a token for a `>` behind white space in the data of a processing instruction) -/
def noCloseInPI : Bool → List XTok → Bool
  | _, [] => true
  | _, .startTagPI _ :: r => noCloseInPI true r
  | _, .startTagClosePI :: r => noCloseInPI false r
  | pi, .startTagClose :: r => !pi && noCloseInPI false r
  | pi, .startTagCloseVoid :: r => !pi && noCloseInPI false r
  | pi, .startTag _ :: r => noCloseInPI pi r
  | pi, .attr _ _ :: r => noCloseInPI pi r
  | pi, .attrBare _ _ :: r => noCloseInPI pi r
  | pi, .endTag _ _ :: r => noCloseInPI pi r
  | pi, .text _ :: r => noCloseInPI pi r
  | pi, .cdata _ _ :: r => noCloseInPI pi r
  | pi, .comment _ :: r => noCloseInPI pi r
  | pi, .doctype _ :: r => noCloseInPI pi r

/-- without such tokens the bytes are the concatenation of the tokens' bytes -/
theorem renderGo_eq_renderAll (ts : List XTok) : ∀ pi, noCloseInPI pi ts = true → renderGo pi ts = renderAll ts := by
  induction ts with
  | nil => intro _ _; rfl
  | cons t r ih =>
    intro pi h
    cases t <;> simp only [noCloseInPI, Bool.and_eq_true, Bool.not_eq_true'] at h <;>
      simp only [renderGo, renderAll, List.flatMap_cons] <;>
      first
        | (rw [ih _ h]; rfl)
        | (rw [ih _ h.2, h.1]; rfl)

/-- a well-formed attribute value literal contains its quote character only at the two ends -/
theorem flat_noquote (q : Char) (hq : q = '"' ∨ q = '\'') (us : List XUnit) (hok : us.all XUnit.ok = true)
    (hnq : (.lit q) ∉ us) : ∀ c ∈ flat us, c ≠ q := by
  induction us with
  | nil => intro c hc; simp [flat] at hc
  | cons u us ih =>
    intro c hc
    simp only [List.all_cons, Bool.and_eq_true] at hok
    rw [flat_cons, List.mem_append] at hc
    rcases hc with hc | hc
    · cases u with
      | lit d =>
        simp only [XUnit.chars, List.mem_singleton] at hc
        subst hc
        intro h; subst h; exact hnq (by simp)
      | named nm => exact ref_chars_noquote _ hok.1 (by intro c h; cases h) q hq c hc
      | dec ds => exact ref_chars_noquote _ hok.1 (by intro c h; cases h) q hq c hc
      | hex ds => exact ref_chars_noquote _ hok.1 (by intro c h; cases h) q hq c hc
    · exact ih hok.2 (fun h => hnq (by simp [h])) c hc

/-- inside a processing instruction a well-formed pseudo-attribute value is written byte for byte -/
theorem attrOutPI_id (v : List Char) (hv : WfAttrVal v) : attrOutPI v = v := by
  obtain ⟨q, us, hq, hok, hnq, rfl⟩ := hv
  rcases hq with rfl | rfl
  · have hg : ('"' :: (flat us ++ ['"'])).getLast? = some '"' := by
      have : '"' :: (flat us ++ ['"']) = ('"' :: flat us) ++ ['"'] := rfl
      rw [this, List.getLast?_concat]
    have hd : (List.drop 1 ('"' :: (flat us ++ ['"']))).dropLast = flat us := by simp
    have hlen : ¬ (('"' :: (flat us ++ ['"'])).length < 2) := by simp
    have hno := flat_noquote '"' (Or.inl rfl) us hok hnq
    have hcount : (flat us).count '"' = 0 := by
      rw [List.count_eq_zero]
      intro hmem; exact hno '"' hmem rfl
    unfold attrOutPI
    rw [hg, hd]
    simp only [hlen, List.head?_cons, bne_self_eq_false, Bool.or_self, decide_false,
      Bool.false_eq_true, if_false]
    unfold escapeAttrVal
    simp only [hcount, Nat.not_lt_zero, gt_iff_lt, if_false, escQuote_id '"' _ (flat us) hno]
  · simp [attrOutPI]

end Verif.Proofs.Xml

import Verif.Proofs.JsNumberStrip
/-!
# C01N — the literal printer on every `NumericLiteral`: decimal literals
-/
namespace Verif.Proofs.JsNumber
open Verif.Spec.JsNumberSem
open Verif.Model.JsNumber
open Verif.Model.JsNumber.JsNumberDec (number decStr natOf)

/-- what the property asks of the printed literal -/
def Good (s t : List Char) : Prop :=
  isNumericLiteral t = true ∧ mathValue t = mathValue s ∧ isBigIntLit t = isBigIntLit s ∧
  isLegacyLike t = false ∧ ∀ c ∈ t, c ≠ '_'

theorem plain_noSep (l : DLex) (h : l.Plain) : ∀ c ∈ l.str, c ≠ '_' := by
  intro c hc
  have hdig : ∀ x : Char, x.isDigit = true → x ≠ '_' := fun x hx => digit_ne hx (by decide)
  unfold DLex.str at hc
  rcases List.mem_append.mp hc with hc | hc
  · exact hdig c (h.ip c hc)
  · rcases List.mem_append.mp hc with hc | hc
    · unfold DLex.dotPart at hc
      split at hc
      · cases hc
      · rename_i f hf
        rcases List.mem_cons.mp hc with e | e
        · rw [e]; decide
        · exact hdig c (h.fp f hf c e)
    · unfold DLex.exPart at hc
      split at hc
      · cases hc
      · rename_i c' sg d hex
        obtain ⟨h1, h2, h3, _⟩ := h.ex _ _ _ hex
        rcases List.mem_cons.mp hc with e | e
        · rw [e]; rcases h1 with e1 | e1 <;> rw [e1] <;> decide
        · rcases List.mem_append.mp e with e | e
          · rcases h2 with s | s | s <;> subst s
            · cases e
            · simp at e; rw [e]; decide
            · simp at e; rw [e]; decide
          · exact hdig c (h3 c e)

/-- a plain, non-legacy lexeme as a printed literal -/
theorem good_of_plain {s : List Char} (l' : DLex) (h : l'.Plain) (hnl : isLegacyLike l'.str = false)
    (hv : l'.val = mathValue s) (hb : isBigIntLit s = false) : Good s l'.str :=
  ⟨isNumericLiteral_str l' h hnl, by rw [mathValue_str l' h.shape hnl, hv], by rw [isBigIntLit_str l' h.shape, hb],
    hnl, plain_noSep l' h⟩

def dfltTok (s : List Char) : Tok :=
  if s.any (fun c => c == '.' || c == 'e' || c == 'E') then .decimal else .integer

theorem dfltTok_cases (s : List Char) : dfltTok s = .decimal ∨ dfltTok s = .integer := by
  unfold dfltTok; split
  · exact Or.inl rfl
  · exact Or.inr rfl

theorem tokOf_other {s : List Char} (hne : ∀ c r, s ≠ '0' :: c :: r) :
    tokOf s = dfltTok s ∧ isLegacyLike s = false := by
  constructor
  · unfold tokOf dfltTok
    simp only
  · unfold isLegacyLike
    split
    · exact absurd rfl (hne _ _)
    · rfl

theorem tokOf_zero (c : Char) (r : List Char) :
    tokOf ('0' :: c :: r) =
      if (c == 'x' || c == 'X') = true then .hex
      else if (c == 'b' || c == 'B') = true then .binary
      else if (c == 'o' || c == 'O') = true then .octal
      else if c.isDigit = true then .reject else dfltTok ('0' :: c :: r) := rfl

/-- the token type of a lexeme without radix prefix -/
theorem tokOf_noRadix {s : List Char} (hr : radixPrefix s = none) (h : tokOf s ≠ .reject) :
    isLegacyLike s = false ∧ (tokOf s = .decimal ∨ tokOf s = .integer) := by
  by_cases hz : ∃ c r, s = '0' :: c :: r
  · obtain ⟨c, r, e⟩ := hz
    subst e
    rw [tokOf_zero] at h ⊢
    unfold radixPrefix at hr
    simp only at hr
    by_cases h1 : (c == 'x' || c == 'X') = true
    · rw [if_pos h1] at hr; cases hr
    · rw [if_neg h1] at hr h ⊢
      by_cases h2 : (c == 'o' || c == 'O') = true
      · rw [if_pos h2] at hr; cases hr
      · rw [if_neg h2] at hr
        by_cases h3 : (c == 'b' || c == 'B') = true
        · rw [if_pos h3] at hr; cases hr
        · rw [if_neg h3] at h ⊢
          rw [if_neg h2] at h ⊢
          by_cases h4 : c.isDigit = true
          · rw [if_pos h4] at h; exact absurd rfl h
          · rw [if_neg h4]
            refine ⟨?_, dfltTok_cases _⟩
            unfold isLegacyLike; simpa using h4
  · have hne : ∀ c r, s ≠ '0' :: c :: r := fun c r e => hz ⟨c, r, e⟩
    obtain ⟨h1, h2⟩ := tokOf_other hne
    exact ⟨h2, by rw [h1]; exact dfltTok_cases s⟩

theorem printTok_dec {s : List Char} (h : tokOf s = .decimal ∨ tokOf s = .integer) :
    printNumLit s = decimalNumber s := by
  unfold printNumLit printTok
  rcases h with e | e <;> rw [e]

/-- decimal literal without suffix: the printer returns a plain lexeme of the same value -/
theorem decimal_case (L : DLex) (h : DecLit L) (hnl : isLegacyLike L.str = false) :
    ∃ l' : DLex, l'.Plain ∧ l'.str = decimalNumber L.str ∧ l'.val = L.val ∧ isLegacyLike l'.str = false := by
  obtain ⟨hp, hn⟩ := strip_plain L h hnl
  have hr : removeUnderscoresAndSuffix L.str = (L.strip.str, false) := by
    rw [rus_eq, strip_str L h.shape, splitSuffix_none (L.strip.decChar hp.shape)]
  unfold decimalNumber
  rw [hr]
  simp only [Bool.false_eq_true, if_false]
  obtain ⟨l', h1, h2, h3, h4⟩ := number_plain L.strip hp hn
  exact ⟨l', h1, h2, by rw [h3, strip_val], by rw [h2]; exact h4⟩

theorem splitSuffix_false {s : List Char} (h : (splitSuffix s).2 = false) : (splitSuffix s).1 = s := by
  unfold splitSuffix at h ⊢
  split
  · rename_i heq; rw [heq] at h; cases h
  · rfl

theorem splitSuffix_true {s : List Char} (h : (splitSuffix s).2 = true) : s = (splitSuffix s).1 ++ ['n'] := by
  unfold splitSuffix at h ⊢
  split
  · rename_i heq
    simp only
    rename_i x
    have hne : s ≠ [] := by intro e; rw [e] at heq; cases heq
    have hl : s.getLast hne = 'n' := by
      rw [List.getLast?_eq_some_getLast hne] at heq
      injection heq
    have := List.dropLast_concat_getLast hne
    rw [hl] at this
    exact this.symm
  · rename_i hne
    split at h
    · rename_i heq; exact absurd heq (by intro e; exact hne e)
    · cases h

end Verif.Proofs.JsNumber

import Verif.Spec.HtmlKnownDoc
/-!
# C03 — end-tag omission against the HTML standard's optional-tag rules (helper lemmas)
-/
namespace Verif.Proofs.HtmlOptional
open Verif.Model.Html Verif.Spec.HtmlOptional Verif.Spec.HtmlKnownDoc

theorem allWs_eq (d : List Char) : isAllWhitespace d = allWs d := by
  unfold isAllWhitespace allWs
  congr 1

theorem hashIs_eq' {n : List Char} {x : String} (h : hashIs n x = true) : n = x.toList := by
  simpa [hashIs, Verif.Model.Html.s] using h

theorem lookup_mem'' {β : Type} (l : List (List Char × β)) (k : List Char) (v : β)
    (h : l.lookup k = some v) : (k, v) ∈ l := by
  induction l with
  | nil => simp [List.lookup] at h
  | cons a l ih =>
    obtain ⟨ka, va⟩ := a
    simp only [List.lookup] at h
    split at h
    · next hk =>
      have : k = ka := by simpa using hk
      simp at h; subst h; subst this; simp
    · exact List.mem_cons_of_mem _ (ih h)

/-! ## `</p>` -/

/-- what the `</p>` look-ahead has seen when it decides to omit -/
theorem omitPEnd_next (rest : List HTok) (h : omitPEnd rest = true) :
    nextOf rest = .eof ∨
    (∃ n, nextOf rest = .end_ n ∧ tagTraits n ≠ 0 ∧ has (tagTraits n) Verif.Gen.C03Tables.keepPTag = false) ∨
    (∃ n, nextOf rest = .start n ∧ has (tagTraits n) Verif.Gen.C03Tables.omitPTag = true) := by
  induction rest with
  | nil => left; rfl
  | cons t r ih =>
    cases t with
    | text d tm =>
      simp only [omitPEnd] at h
      split at h
      · next hw =>
        simp only [nextOf, ← allWs_eq, hw, if_true]
        exact ih h
      · simp at h
    | endTag n d =>
      simp only [omitPEnd, Bool.and_eq_true, bne_iff_ne, ne_eq, Bool.not_eq_true'] at h
      right; left; exact ⟨n, rfl, h.1, h.2⟩
    | startTag n a =>
      simp only [omitPEnd] at h
      right; right; exact ⟨n, rfl, h⟩
    | comment d tx => simp [omitPEnd] at h
    | doctype => simp [omitPEnd] at h
    | svg d => simp [omitPEnd] at h
    | math d => simp [omitPEnd] at h
    | template d => simp [omitPEnd] at h

/-- html/table.go, whole table: every tag with `omitPTag` is one of the standard's start tags that close a `p`;
    every tag of the standard's "keep `</p>` inside" list carries `keepPTag`; no known tag is a custom element name -/
theorem p_tables_ok :
    Verif.Gen.C03Tables.tagMap.all (fun e =>
      (!has e.2 Verif.Gen.C03Tables.omitPTag || isOneOf e.1 pClosers) &&
      (has e.2 Verif.Gen.C03Tables.keepPTag || !isOneOf e.1 pKeepParents) &&
      !isCustomName e.1) = true := by
  decide +kernel

theorem omit_p_allowed (rest : List HTok) (h : omitPEnd rest = true) :
    mayOmitEnd "p".toList (nextOf rest) = true := by
  rcases omitPEnd_next rest h with e | ⟨n, e, hkn, hk⟩ | ⟨n, e, ho⟩
  · rw [e]; decide
  · rw [e]
    unfold tagTraits at hkn hk
    cases hl : Verif.Gen.C03Tables.tagMap.lookup n with
    | none => simp [hl] at hkn
    | some tr =>
      have hm := List.all_eq_true.mp p_tables_ok _ (lookup_mem'' _ _ _ hl)
      simp only [hl, Option.getD_some] at hk
      simp only [hk, Bool.false_or, Bool.and_eq_true, Bool.not_eq_true'] at hm
      have : mayOmitEnd "p".toList (.end_ n) = (!isOneOf n pKeepParents && !isCustomName n) := by
        simp [mayOmitEnd, isDocElem, omitAtEnd, is]
      rw [this, hm.1.2, hm.2]; rfl
  · rw [e]
    unfold tagTraits at ho
    cases hl : Verif.Gen.C03Tables.tagMap.lookup n with
    | none => simp [hl, has] at ho
    | some tr =>
      have hm := List.all_eq_true.mp p_tables_ok _ (lookup_mem'' _ _ _ hl)
      simp only [hl, Option.getD_some] at ho
      simp only [ho, Bool.not_true, Bool.false_or, Bool.and_eq_true] at hm
      have : mayOmitEnd "p".toList (.start n) = isOneOf n pClosers := by
        simp [mayOmitEnd, isDocElem, closers, is]
      rw [this]; exact hm.1.1

/-! ## the end tags guarded by `endTagOmittable` -/

def omittedNames : List (List Char) := alwaysOmitEnd.map String.toList

/-- every start tag that `closesBefore` accepts -/
def closerNames : List (List Char) :=
  ["li", "dt", "dd", "rb", "rt", "rtc", "rp", "option", "optgroup", "tbody", "tfoot", "thead", "tr", "td", "th"].map
    String.toList

theorem closesBefore_names (h n : List Char) (hc : closesBefore h n = true) : n ∈ closerNames := by
  by_cases hm : n ∈ closerNames
  · exact hm
  · exfalso
    simp only [closerNames, List.map_cons, List.map_nil, List.mem_cons, List.mem_nil_iff, or_false, not_or] at hm
    have f : ∀ x : String, n ≠ x.toList → hashIs n x = false := by
      intro x hx
      cases hh : hashIs n x with
      | false => rfl
      | true => exact absurd (hashIs_eq' hh) hx
    obtain ⟨h1, h2, h3, h4, h5, h6, h7, h8, h9, h10, h11, h12, h13, h14, h15⟩ := hm
    have : closesBefore h n = false := by
      unfold closesBefore
      simp only [f _ h1, f _ h2, f _ h3, f _ h4, f _ h5, f _ h6, f _ h7, f _ h8, f _ h9, f _ h10, f _ h11, f _ h12,
        f _ h13, f _ h14, f _ h15, Bool.or_self, ite_self]
    rw [this] at hc; exact absurd hc (by decide)

/-- what `endTagOmittable` has seen when it answers yes -/
theorem endTagOmittable_next (h : List Char) (rest : List HTok) (ho : endTagOmittable h rest = true) :
    (hashIs h "option" = true ∧ nextOf rest = .other) ∨ nextOf rest = .eof ∨ (∃ n, nextOf rest = .end_ n) ∨
    (∃ n, nextOf rest = .start n ∧ closesBefore h n = true) := by
  induction rest with
  | nil => right; left; rfl
  | cons t r ih =>
    cases t with
    | text d tm =>
      simp only [endTagOmittable] at ho
      split at ho
      · next hw =>
        by_cases hws : isAllWhitespace d = true
        · simp only [nextOf, ← allWs_eq, hws, if_true]; exact ih ho
        · simp only [hws, Bool.false_or] at hw
          left; refine ⟨hw, ?_⟩
          simp only [nextOf, ← allWs_eq, hws, Bool.false_eq_true, if_false]
      · simp at ho
    | comment d tx => simp only [endTagOmittable] at ho; simp only [nextOf]; exact ih ho
    | template d =>
      simp only [endTagOmittable] at ho
      split at ho
      · next hw => left; exact ⟨hw, rfl⟩
      · simp at ho
    | endTag n d => right; right; left; exact ⟨n, rfl⟩
    | startTag n a => simp only [endTagOmittable] at ho; right; right; right; exact ⟨n, rfl, ho⟩
    | doctype => simp [endTagOmittable] at ho
    | svg d => simp [endTagOmittable] at ho
    | math d => simp [endTagOmittable] at ho

/-- finite check: for every unconditionally handled element and every start tag that `closesBefore` accepts, and
    for the end of the parent: allowed by the content models ⇒ allowed by the optional-tag rule -/
theorem omittable_finite :
    omittedNames.all (fun h =>
      closerNames.all (fun n => !(closesBefore h n && conformingAfter h (.start n)) || mayOmitEnd h (.start n)) &&
      (!conformingAfter h .eof || mayOmitEnd h .eof) &&
      (!conformingAfter h (.end_ []) || mayOmitEnd h (.end_ [])) &&
      (!(h = "option".toList) || !conformingAfter h .other) && !(h = "p".toList)) = true := by
  decide +kernel

theorem end_indep (h n : List Char) (hp : h ≠ "p".toList) :
    mayOmitEnd h (.end_ n) = mayOmitEnd h (.end_ []) ∧ conformingAfter h (.end_ n) = conformingAfter h (.end_ []) := by
  have : is h "p" = false := by unfold is; exact decide_eq_false hp
  constructor
  · simp [mayOmitEnd, this]
  · unfold conformingAfter
    cases allowedAfter h <;> simp [nextIsStart]

theorem omit_always_allowed (h : List Char) (rest : List HTok) (hm : h ∈ omittedNames)
    (ho : endTagOmittable h rest = true) (hc : conformingAfter h (nextOf rest) = true) :
    mayOmitEnd h (nextOf rest) = true := by
  have hf := List.all_eq_true.mp omittable_finite h hm
  simp only [Bool.and_eq_true, Bool.or_eq_true, Bool.not_eq_true', decide_eq_false_iff_not, List.all_eq_true] at hf
  obtain ⟨⟨⟨⟨hstart, heof⟩, hend⟩, hother⟩, hnp⟩ := hf
  rcases endTagOmittable_next h rest ho with ⟨hopt, e⟩ | e | ⟨n, e⟩ | ⟨n, e, hcl⟩
  · rw [e] at hc
    rcases hother with h1 | h1
    · exact absurd (hashIs_eq' hopt) h1
    · rw [h1] at hc; exact absurd hc (by decide)
  · rw [e] at hc ⊢
    rcases heof with h1 | h1
    · rw [h1] at hc; exact absurd hc (by decide)
    · exact h1
  · rw [e] at hc ⊢
    have hi := end_indep h n hnp
    rw [hi.1]; rw [hi.2] at hc
    rcases hend with h1 | h1
    · rw [h1] at hc; exact absurd hc (by decide)
    · exact h1
  · rw [e] at hc ⊢
    rcases hstart n (closesBefore_names h n hcl) with h1 | h1
    · simp only [hcl, Bool.true_and] at h1; rw [h1] at hc; exact absurd hc (by decide)
    · exact h1

/-! ## `</optgroup>` -/

theorem omitOptgroupEnd_next (rest : List HTok) (h : omitOptgroupEnd rest = true) :
    nextOf rest = .other ∨ nextOf rest = .eof ∨ (∃ n, nextOf rest = .end_ n) ∨
    nextOf rest = .start "optgroup".toList := by
  induction rest with
  | nil => right; left; rfl
  | cons t r ih =>
    cases t with
    | text d tm =>
      simp only [omitOptgroupEnd] at h
      simp only [nextOf]
      split
      · exact ih h
      · left; rfl
    | comment d tx => simp only [omitOptgroupEnd] at h; simp only [nextOf]; exact ih h
    | endTag n d => right; right; left; exact ⟨n, rfl⟩
    | startTag n a =>
      simp only [omitOptgroupEnd] at h
      right; right; right
      simp only [nextOf]; rw [hashIs_eq' h]
    | doctype => simp [omitOptgroupEnd] at h
    | svg d => simp [omitOptgroupEnd] at h
    | math d => simp [omitOptgroupEnd] at h
    | template d => simp [omitOptgroupEnd] at h

theorem omit_optgroup_allowed (rest : List HTok) (h : omitOptgroupEnd rest = true)
    (hc : conformingAfter "optgroup".toList (nextOf rest) = true) :
    mayOmitEnd "optgroup".toList (nextOf rest) = true := by
  rcases omitOptgroupEnd_next rest h with e | e | ⟨n, e⟩ | e
  · rw [e] at hc; exact absurd hc (by decide)
  · rw [e]; decide
  · rw [e]; simp [mayOmitEnd, isDocElem, omitAtEnd, is]
  · rw [e]; decide

theorem alwaysOmit_mem (e : List Char) (h : alwaysOmitEnd.any (hashIs e) = true) : e ∈ omittedNames := by
  simp only [List.any_eq_true] at h
  obtain ⟨x, hx, hh⟩ := h
  rw [hashIs_eq' hh]
  exact List.mem_map_of_mem hx

end Verif.Proofs.HtmlOptional

import Verif.Spec.HtmlKnownDoc
/-!
# C03 — end-tag omission against the HTML standard's optional-tag rules (helper lemmas)
-/
namespace Verif.Proofs.HtmlOptional
open Verif.Model.Html Verif.Spec.HtmlOptional Verif.Spec.HtmlKnownDoc

theorem isWs_eq (c : Char) : Verif.Model.HtmlAttr.isWhitespace c = isWsChar c := rfl

theorem allWs_eq (d : List Char) : isAllWhitespace d = allWs d := by
  unfold isAllWhitespace allWs
  congr 1

/-- what the `</p>` look-ahead has seen when it decides to omit -/
theorem omitPEnd_next (rest : List HTok) (h : omitPEnd rest = true) :
    nextOf rest = .eof ∨
    (∃ n, nextOf rest = .end_ n ∧ has (tagTraits n) Verif.Gen.C03Tables.keepPTag = false) ∨
    (∃ n, nextOf rest = .start n ∧ has (tagTraits n) Verif.Gen.C03Tables.omitPTag = true) := by
  induction rest with
  | nil => left; rfl
  | cons t r ih =>
    cases t with
    | text d tm =>
      simp only [omitPEnd] at h
      split at h
      · next hw =>
        simp only [nextOf, ← allWs_eq, hw, if_true]
        exact ih h
      · simp at h
    | endTag n d =>
      simp only [omitPEnd, Bool.not_eq_true'] at h
      right; left; exact ⟨n, rfl, h⟩
    | startTag n a =>
      simp only [omitPEnd] at h
      right; right; exact ⟨n, rfl, h⟩
    | comment d tx => simp [omitPEnd] at h
    | doctype => simp [omitPEnd] at h
    | svg d => simp [omitPEnd] at h
    | math d => simp [omitPEnd] at h
    | template d => simp [omitPEnd] at h

/-- html/table.go: every tag with `omitPTag` is one of the standard's start tags that close a `p`;
    every tag of the standard's "keep `</p>` inside" list carries `keepPTag` -/
theorem p_tables_ok :
    Verif.Gen.C03Tables.tagMap.all (fun e =>
      (!has e.2 Verif.Gen.C03Tables.omitPTag || isOneOf e.1 pClosers) &&
      (has e.2 Verif.Gen.C03Tables.keepPTag || !isOneOf e.1 pKeepParents)) = true := by
  decide +kernel

theorem lookup_mem'' {β : Type} (l : List (List Char × β)) (k : List Char) (v : β)
    (h : l.lookup k = some v) : (k, v) ∈ l := by
  induction l with
  | nil => simp [List.lookup] at h
  | cons a l ih =>
    obtain ⟨ka, va⟩ := a
    simp only [List.lookup] at h
    split at h
    · next hk =>
      have : k = ka := by simpa using hk
      simp at h; subst h; subst this; simp
    · exact List.mem_cons_of_mem _ (ih h)

theorem omit_p_allowed (rest : List HTok) (h : omitPEnd rest = true)
    (ht : trigPEnd "p".toList (nextOf rest) = false) : mayOmitEnd "p".toList (nextOf rest) = true := by
  rcases omitPEnd_next rest h with e | ⟨n, e, hk⟩ | ⟨n, e, ho⟩
  · rw [e]; decide
  · rw [e] at ht ⊢
    simp only [trigPEnd, decide_true, Bool.true_and, Bool.or_eq_false_iff, Bool.not_eq_false',
      decide_eq_false_iff_not] at ht
    obtain ⟨⟨hc, hs⟩, hkn⟩ := ht
    unfold knownToMinifier at hkn
    cases hl : Verif.Gen.C03Tables.tagMap.lookup n with
    | none => simp [hl] at hkn
    | some tr =>
      have hm := List.all_eq_true.mp p_tables_ok _ (lookup_mem'' _ _ _ hl)
      simp only [tagTraits, hl, Option.getD_some] at hk
      simp only [hk, Bool.false_or, Bool.and_eq_true, Bool.not_eq_true'] at hm
      have : mayOmitEnd "p".toList (.end_ n) = (!isOneOf n pKeepParents && !isCustomName n) := by
        simp [mayOmitEnd, nextIsStart]
      rw [this, hm.2, hc]; rfl
  · rw [e]
    unfold tagTraits at ho
    cases hl : Verif.Gen.C03Tables.tagMap.lookup n with
    | none => simp [hl, has] at ho
    | some tr =>
      have hm := List.all_eq_true.mp p_tables_ok _ (lookup_mem'' _ _ _ hl)
      simp only [hl, Option.getD_some] at ho
      simp only [ho, Bool.not_true, Bool.false_or, Bool.and_eq_true] at hm
      have : mayOmitEnd "p".toList (.start n) = isOneOf n pClosers := by
        simp [mayOmitEnd, nextIsStart]
      rw [this]; exact hm.1

theorem hashIs_eq' {n : List Char} {x : String} (h : hashIs n x = true) : n = x.toList := by
  simpa [hashIs, Verif.Model.Html.s] using h

theorem alwaysOmit_names (e : List Char) (h : alwaysOmitEnd.any (hashIs e) = true) :
    isOneOf e alwaysOmitted = true := by
  simp only [alwaysOmitEnd, List.any_cons, List.any_nil, Bool.or_false, Bool.or_eq_true] at h
  simp only [isOneOf, names, alwaysOmitted, List.map_cons, List.map_nil, List.contains_cons, List.contains_nil,
    Bool.or_false, Bool.or_eq_true, beq_iff_eq]
  simp only [hashIs, Verif.Model.Html.s, beq_iff_eq] at h
  exact h

end Verif.Proofs.HtmlOptional

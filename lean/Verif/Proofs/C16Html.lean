import Verif.Model.Html
/-!
# C16 — helper definitions and lemmas for the per-option theorems about `Verif.Model.Html`

`trace` decomposes the output of the model's token loop (`run`) into one piece per input token, so that a
statement "token `t` is written as …" can be made about the whole output: `run_eq_trace` says that the output is
the concatenation of the pieces in token order, `trace_toks` that there is exactly one piece per input token.
Core Lean only.
-/
namespace Verif.Proofs.C16Html
open Verif.Model.Html Verif.Model.HtmlAttr Verif.Gen

/-- one entry per input token: the loop state before the token, the token, the tokens after it (the look-ahead
    window), the bytes written for it -/
structure Piece where
  st : St
  tok : HTok
  rest : List HTok
  out : List Char

/-- the token loop, recording what is written for which token -/
def trace (o : Opts) (ext : Ext) (sub : Sub) : St → List HTok → Except String (List Piece)
  | _, [] => .ok []
  | st, t :: rest =>
    match step o ext sub st t rest with
    | .error e => .error e
    | .ok (st', out) =>
      match trace o ext sub st' rest with
      | .error e => .error e
      | .ok ps => .ok (⟨st, t, rest, out⟩ :: ps)

def flat (ps : List Piece) : List Char := (ps.map (·.out)).flatten

/-- the output of the loop is the concatenation of the pieces (and the loop fails iff the trace fails) -/
theorem run_eq_trace (o : Opts) (ext : Ext) (sub : Sub) (st : St) (toks : List HTok) :
    run o ext sub st toks = (trace o ext sub st toks).map flat := by
  induction toks generalizing st with
  | nil => rfl
  | cons t rest ih =>
    simp only [run, trace]
    cases hs : step o ext sub st t rest with
    | error e => rfl
    | ok r =>
      obtain ⟨st', out⟩ := r
      simp only [bind, Except.bind]
      rw [ih st']
      cases trace o ext sub st' rest with
      | error e => rfl
      | ok ps => simp [Except.map, flat]

/-- unfolding of `trace` at a non-empty token list -/
theorem trace_cons (o : Opts) (ext : Ext) (sub : Sub) (st : St) (t : HTok) (rest : List HTok) (ps : List Piece)
    (h : trace o ext sub st (t :: rest) = .ok ps) :
    ∃ st' out ps', step o ext sub st t rest = .ok (st', out) ∧ trace o ext sub st' rest = .ok ps' ∧
      ps = ⟨st, t, rest, out⟩ :: ps' := by
  simp only [trace] at h
  cases hs : step o ext sub st t rest with
  | error e => simp only [hs] at h; cases h
  | ok r =>
    obtain ⟨st', out⟩ := r
    simp only [hs] at h
    cases ht : trace o ext sub st' rest with
    | error e => simp only [ht] at h; cases h
    | ok ps' =>
      simp only [ht] at h
      cases h
      exact ⟨st', out, ps', rfl, ht, rfl⟩

/-- one piece per input token, in order -/
theorem trace_toks (o : Opts) (ext : Ext) (sub : Sub) (st : St) (toks : List HTok) (ps : List Piece)
    (h : trace o ext sub st toks = .ok ps) : ps.map (·.tok) = toks := by
  induction toks generalizing st ps with
  | nil => simp only [trace] at h; cases h; rfl
  | cons t rest ih =>
    obtain ⟨st', out, ps', _, ht, rfl⟩ := trace_cons o ext sub st t rest ps h
    simp only [List.map_cons, ih st' ps' ht]

/-- every piece is one step of the loop -/
theorem trace_step (o : Opts) (ext : Ext) (sub : Sub) (st : St) (toks : List HTok) (ps : List Piece)
    (h : trace o ext sub st toks = .ok ps) :
    ∀ p ∈ ps, ∃ st', step o ext sub p.st p.tok p.rest = .ok (st', p.out) := by
  induction toks generalizing st ps with
  | nil => simp only [trace] at h; cases h; intro p hp; cases hp
  | cons t rest ih =>
    obtain ⟨st', out, ps', hs, ht, rfl⟩ := trace_cons o ext sub st t rest ps h
    intro p hp
    rcases List.mem_cons.mp hp with e | hp'
    · subst e; exact ⟨st', hs⟩
    · exact ih st' ps' ht p hp'

/-! ## the skip flag `dropEnd` is only ever set in front of an end tag -/

def isEndTag : HTok → Bool
  | .endTag _ _ => true
  | _ => false

theorem endStep_dropEnd (o : Opts) (st0 : St) (name data : List Char) (rest : List HTok) :
    (endStep o st0 name data rest).1.dropEnd = st0.dropEnd := by
  unfold endStep
  by_cases hp : hashIs name "pre" = true
  · simp only [hp, if_true]; split <;> (try split) <;> rfl
  · simp only [hp]; split <;> (try split) <;> rfl

theorem startPre_dropEnd (st0 : St) (name : List Char) (attrs : List Attr) :
    (startPre st0 name attrs).dropEnd = st0.dropEnd := by
  unfold startPre; simp only; split <;> rfl

theorem startPost_dropEnd (o : Opts) (st3 : St) (name : List Char) (rest : List HTok) (mt : Option (List Char)) :
    (startPost o st3 name rest mt).dropEnd = st3.dropEnd := by
  cases mt <;> simp only [startPost, apply_ite St.dropEnd, ite_self]

/-- after a step the skip flag is set only if the step was an attribute-less `<script>`/`<style>` start tag
    directly followed by an end tag -/
theorem step_dropEnd (o : Opts) (ext : Ext) (sub : Sub) (st st' : St) (t : HTok) (rest : List HTok)
    (out : List Char) (h : step o ext sub st t rest = .ok (st', out)) (hd : st'.dropEnd = true) :
    ∃ t' r, rest = t' :: r ∧ isEndTag t' = true := by
  unfold step at h
  split at h
  · cases h; simp at hd
  · next hde =>
    simp only [Bool.not_eq_true] at hde
    cases t with
    | doctype => simp only at h; cases h; simp [hde] at hd
    | comment data text =>
      simp only [bind, Except.bind] at h
      split at h
      · cases h
      · cases h; simp [hde] at hd
    | svg data => simp only at h; cases h; simp [hde] at hd
    | math data => simp only at h; cases h; simp [hde] at hd
    | template data => simp only at h; cases h; simp [hde] at hd
    | text data tmpl =>
      simp only at h
      split at h
      · cases h; simp [hde] at hd
      · split at h
        · split at h <;> (cases h; simp [hde] at hd)
        · split at h <;> (cases h; simp [hde] at hd)
    | endTag name data =>
      simp only [Except.ok.injEq] at h
      have e := congrArg Prod.fst h
      simp only at e
      rw [← e, endStep_dropEnd] at hd; simp [hde] at hd
    | startTag name attrs =>
      simp only at h
      split at h
      · next he =>
        unfold emptyRawElement at he
        simp only [Bool.and_eq_true] at he
        obtain ⟨_, he2⟩ := he
        cases rest with
        | nil => simp at he2
        | cons t' r =>
          refine ⟨t', r, rfl, ?_⟩
          cases t' <;> simp at he2 <;> rfl
      · split at h
        · cases h; rw [startPre_dropEnd] at hd; simp [hde] at hd
        · simp only [bind, Except.bind] at h
          split at h
          · cases h
          · split at h
            · cases h
            · cases h; rw [startPost_dropEnd, startPre_dropEnd] at hd; simp [hde] at hd

/-- in a trace from a state without the skip flag, a piece whose state has the flag belongs to an end tag -/
theorem trace_dropEnd (o : Opts) (ext : Ext) (sub : Sub) (st : St) (toks : List HTok) (ps : List Piece)
    (h : trace o ext sub st toks = .ok ps)
    (h0 : st.dropEnd = true → ∃ t r, toks = t :: r ∧ isEndTag t = true) :
    ∀ p ∈ ps, p.st.dropEnd = true → isEndTag p.tok = true := by
  induction toks generalizing st ps with
  | nil => simp only [trace] at h; cases h; intro p hp; cases hp
  | cons t rest ih =>
    obtain ⟨st', out, ps', hs, ht, rfl⟩ := trace_cons o ext sub st t rest ps h
    intro p hp
    rcases List.mem_cons.mp hp with e | hp'
    · subst e
      intro hd
      obtain ⟨t', r', e1, e2⟩ := h0 hd
      cases e1; exact e2
    · exact ih st' ps' ht (fun hd => step_dropEnd o ext sub st st' t rest out hs hd) p hp'

end Verif.Proofs.C16Html

import Verif.Proofs.JsStringSim
import Verif.Proofs.JsStringEnds
/-!
# C01E proofs, part 6: the simulation theorem and its consequences for whole literals
-/
set_option linter.unusedSimpArgs false
namespace Verif.Proofs.JsString
open Verif.JsStrBase Verif.Spec.JsStringSem Verif.Model.JsString
variable {cf : Bool}

/-- a raw line terminator (only possible in a template) -/
theorem sim_newline {m : Bool} {qi q : Nat} (cx : Ctx m qi q) {an : Bool} {c : Nat} {r w : List Nat}
    (hc : c = 10 ∨ c = 13) (hg : Guard cf (c :: r) = true)
    (hv : decBody m qi (c :: r) = some w) (ih : IH cf m qi q r.length) :
    decBody m q (repA q an (c :: r)) = some w := by
  obtain ⟨us, k, v', hst, hv', hw⟩ := valid_cons hv
  have hqi : qi = 96 := by
    by_cases h : qi = 96
    · exact h
    · have hcq : c ≠ qi := by rcases cx.hqi with h' | h' | h' <;> omega
      simp only [decStep, if_neg hcq, if_neg (show c ≠ 92 by omega), if_pos hc, if_neg h] at hst
      simp at hst
  have hq : q = 96 := cx.hT hqi
  subst hqi; subst hq
  have hg' : ∀ k, Guard cf (r.drop k) = true := guard_drop (by simpa using guard_drop hg 1)
  rcases hc with rfl | rfl
  · -- LF
    have : decStep m 96 10 r = some ([10], 0) := by simp [decStep]
    rw [this] at hst
    simp only [Option.some.injEq, Prod.mk.injEq] at hst
    obtain ⟨rfl, rfl⟩ := hst
    subst hw
    rw [repA_inert (by unfold Inert; omega), dec_lf_tmpl, ih _ (Nat.le_refl _) v' (by simpa using hg' 0) (by simpa using hv')]
    rfl
  · by_cases hh : r.head? = some 10
    · -- CR LF
      cases r with
      | nil => simp at hh
      | cons x r' =>
        simp only [List.head?_cons, Option.some.injEq] at hh
        subst hh
        have : decStep m 96 13 (10 :: r') = some ([10], 1) := by simp [decStep]
        rw [this] at hst
        simp only [Option.some.injEq, Prod.mk.injEq] at hst
        obtain ⟨rfl, rfl⟩ := hst
        subst hw
        have hs : step 96 an 13 (10 :: r') = ([13], 0, false) := by simp [step]
        rw [repA_cons, hs]
        simp only [List.drop_zero, List.cons_append, List.nil_append]
        rw [repA_inert (by unfold Inert; omega), dec_crlf_tmpl,
          ih r' (by simp) v' (by simpa using hg' 1) (by simpa using hv')]
        rfl
    · -- lone CR, written as LF
      have : decStep m 96 13 r = some ([10], 0) := by simp [decStep, hh]
      rw [this] at hst
      simp only [Option.some.injEq, Prod.mk.injEq] at hst
      obtain ⟨rfl, rfl⟩ := hst
      subst hw
      have hs : step 96 an 13 r = ([10], 0, false) := by simp [step, hh]
      rw [repA_cons, hs]
      simp only [List.drop_zero, List.cons_append, List.nil_append]
      rw [dec_lf_tmpl, ih _ (Nat.le_refl _) v' (by simpa using hg' 0) (by simpa using hv')]
      rfl

/-- **the simulation**: on the guarded fragment the output body denotes what the input body denotes -/
theorem sim_all {m : Bool} {qi q : Nat} (cx : Ctx m qi q) (hcf : CaseC m qi q → cf = true) : ∀ n, IH cf m qi q n := by
  intro n
  induction n with
  | zero =>
    intro l hl w _ hv
    have : l = [] := List.eq_nil_of_length_eq_zero (by omega)
    subst this
    simpa using hv
  | succ n ihn =>
    intro l hl w hg hv
    cases l with
    | nil => simpa using hv
    | cons c r =>
      have hrl : r.length ≤ n := by simpa using hl
      have ih : IH cf m qi q r.length := ih_mono ihn hrl
      by_cases hc : c = 92
      · subst hc
        cases r with
        | nil =>
          obtain ⟨us, k, v', hst, _, _⟩ := valid_cons hv
          rcases cx.hqi with h | h | h <;> (subst h; simp [decStep] at hst)
        | cons e r1 =>
          have ih' : IH cf m qi q (e :: r1).length := ih
          by_cases hk : e = q ∨ e = 92 ∨ e = 114 ∨ (q ≠ 96 ∧ e = 110)
          · exact sim_keep cx hk hg hv ih'
          · by_cases h48 : e = 48
            · subst h48; exact sim_nul cx ((guard_esc hg).1 rfl) hg hv ih'
            have hk' : ¬ (e = q ∨ e = 92 ∨ e = 114 ∨ (q ≠ 96 ∧ e = 110) ∨ (e = 48 ∧ ¬ r1.head?.any isOct)) := by
              rintro (h | h | h | h | ⟨h, _⟩)
              · exact hk (Or.inl h)
              · exact hk (Or.inr (Or.inl h))
              · exact hk (Or.inr (Or.inr (Or.inl h)))
              · exact hk (Or.inr (Or.inr (Or.inr h)))
              · exact h48 h
            by_cases hl : 0 < lcLen e r1
            · exact sim_lc cx hk' hl hg hv ih'
            · by_cases hx : e = 120
              · subst hx; exact sim_hex cx hg hv ih'
              · by_cases hct : (q = 96 ∧ e = 110) ∨ e = 116 ∨ e = 102 ∨ e = 118 ∨ e = 98
                · exact sim_ctrl cx hct hg hv ih'
                · have h110 : e ≠ 110 := by
                    intro h
                    by_cases h96 : q = 96
                    · exact hct (Or.inl ⟨h96, h⟩)
                    · exact hk (Or.inr (Or.inr (Or.inr ⟨h96, h⟩)))
                  by_cases hu : e = 117
                  · subst hu; exact sim_uni cx hg hv ih'
                  · by_cases hdig : isDig e = true
                    · by_cases hoct : isOct e = true
                      · exact sim_oct cx hcf hoct h48 hg hv ih'
                      · have h89 : e = 56 ∨ e = 57 := by
                          simp only [isDig, isOct, Bool.and_eq_true, decide_eq_true_eq] at hdig hoct
                          omega
                        exact sim_89 cx h89 hg hv ih'
                    · refine sim_ident cx hk' (by omega) ⟨hx, h110, ?_, ?_, ?_, ?_⟩ hu (by simpa using hdig) hg hv ih' <;>
                        (intro h; apply hct; simp [h])
      · by_cases hnl : c = 10 ∨ c = 13
        · exact sim_newline cx hnl hg hv ih
        · obtain ⟨us, k, v', hst, hv', hw⟩ := valid_cons hv
          have hg' : ∀ k, Guard cf (r.drop k) = true := guard_drop (by simpa using guard_drop hg 1)
          by_cases h128 : c < 128
          · have hcq : c ≠ qi := by
              intro h; subst h; simp [decStep] at hst
            have hd : ¬ (c = 36 ∧ qi = 96 ∧ r.head? = some 123) := by
              intro h
              simp only [decStep, if_neg hcq, if_neg hc, if_neg hnl, if_pos h] at hst
              simp at hst
            rw [decStep_plain h128 hcq hc (by omega) (by omega) hd] at hst
            simp only [Option.some.injEq, Prod.mk.injEq] at hst
            obtain ⟨rfl, rfl⟩ := hst
            subst hw
            exact sim_raw cx hc h128 (by omega) (by omega) (by simpa using hg' 0) (by simpa using hv') ih
          · rw [decStep_utf8 cx.hqi (by omega)] at hst
            subst hw
            exact sim_utf8 cx (by omega) hst (hg' k) hv' ih

/-! ## whole literals -/

theorem decodeLit_wrap {m : Bool} {q : Nat} {b : List Nat} (hq : IsQ q) :
    decodeLit m (q :: (b ++ [q])) = decBody m q b := by
  have : isQuote q = true := by rcases hq with h | h | h <;> (subst h; rfl)
  simp [decodeLit, this]

/-- a literal that decodes is `q · body · q` -/
theorem decodeLit_inv {m : Bool} {s v : List Nat} (h : decodeLit m s = some v) :
    ∃ q b, IsQ q ∧ s = q :: (b ++ [q]) ∧ decBody m q b = some v := by
  cases s with
  | nil => simp [decodeLit] at h
  | cons q rest =>
    simp only [decodeLit] at h
    split at h
    · rename_i hc
      obtain ⟨hq, hl⟩ := hc
      have hq' : IsQ q := by
        simp only [isQuote, Bool.or_eq_true, decide_eq_true_eq] at hq
        rcases hq with (h | h) | h
        · exact Or.inl h
        · exact Or.inr (Or.inl h)
        · exact Or.inr (Or.inr h)
      have hne : rest ≠ [] := by intro h'; subst h'; simp at hl
      have hr : rest = rest.dropLast ++ [q] := by
        have h1 := List.dropLast_concat_getLast hne
        have h2 : rest.getLast hne = q := by
          have := List.getLast?_eq_some_getLast hne
          rw [this] at hl
          exact Option.some.inj hl
        rw [h2] at h1
        exact h1.symm
      exact ⟨q, rest.dropLast, hq', by rw [← hr], h⟩
    · simp at h

theorem chooseQuote_isQ (a : Bool) (b : List Nat) : IsQ (chooseQuote a b) := by
  unfold chooseQuote IsQ
  simp only []
  repeat' split
  all_goals omega

theorem minifyString_wrap {a : Bool} {qi : Nat} {b : List Nat} (hb : b ≠ []) :
    minifyString a (qi :: (b ++ [qi])) =
      chooseQuote a b :: (escEnds (rep (chooseQuote a b) b) ++ [chooseQuote a b]) := by
  unfold minifyString
  have hl : ¬ (qi :: (b ++ [qi])).length < 3 := by
    cases b with
    | nil => exact absurd rfl hb
    | cons x b' => simp
  rw [if_neg hl]
  simp

theorem minifyString_empty {a : Bool} {qi : Nat} : minifyString a [qi, qi] = [34, 34] := by
  simp [minifyString]


theorem templateLit_wrap {b : List Nat} : templateLit (96 :: (b ++ [96])) = 96 :: (escEnds (rep 96 b) ++ [96]) := by
  unfold templateLit
  have hl : ¬ (96 :: (b ++ [96])).length < 2 := by simp
  rw [if_neg hl]
  simp

/-- the fragment of the partial theorems: `\0` only at the end of the body or in front of a raw byte that is neither a
    digit nor a backslash -/
def NoNul (l : List Nat) : Bool := Guard false l

theorem guard_true_of {l : List Nat} (h1 : Guard false l = true) (h2 : gated l = false) : Guard true l = true := by
  induction l with
  | nil => rfl
  | cons c r ih =>
    simp only [Guard, Bool.and_eq_true] at h1 ⊢
    simp only [gated, Bool.or_eq_false_iff] at h2
    refine ⟨⟨h1.1.1, by simp [h2.1]⟩, ih h1.2 h2.2⟩

theorem chooseQuote_tmpl {a : Bool} {b : List Nat} (h : chooseQuote a b = 96) : gated b = false := by
  by_cases hc : (a && !gated b) = true ∧ cnt 3 b + cnt 5 b < (if cnt 1 b < cnt 2 b then cnt 1 b else cnt 2 b) + cnt 4 b
  · have := hc.1
    simp only [Bool.and_eq_true, Bool.not_eq_true'] at this
    exact this.2
  · exfalso
    simp only [chooseQuote] at h
    rw [if_neg hc] at h
    split at h <;> (try split at h) <;> omega

/-- value preservation for `'…'` / `"…"` literals on the guarded fragment -/
theorem minifyString_value {m a : Bool} {s v : List Nat} (hq : s.head? = some 39 ∨ s.head? = some 34)
    (hv : decodeLit m s = some v) (hg : NoNul ((s.drop 1).dropLast) = true) :
    decodeLit m (minifyString a s) = some v := by
  obtain ⟨qi, b, hqi, rfl, hb⟩ := decodeLit_inv hv
  have hne : qi ≠ 96 := by
    simp only [List.head?_cons, Option.some.injEq] at hq
    omega
  have hgb : Guard false b = true := by simpa [NoNul] using hg
  by_cases hbn : b = []
  · subst hbn
    have : minifyString a (qi :: ([] ++ [qi])) = [34, 34] := minifyString_empty
    rw [this]
    simp only [decBody_nil, Option.some.injEq] at hb
    subst hb
    cases m <;> rfl
  · rw [minifyString_wrap hbn, decodeLit_wrap (chooseQuote_isQ a b), rep_eq_repA]
    have cx : Ctx m qi (chooseQuote a b) := ⟨hqi, chooseQuote_isQ a b, fun h => absurd h hne⟩
    -- the pass `escapeHTMLEnds` over the rewritten body does not change the value
    apply escEnds_value (chooseQuote_isQ a b) _ _ v (Nat.le_refl _)
    by_cases h96 : chooseQuote a b = 96
    · have hgt : Guard true b = true := guard_true_of hgb (chooseQuote_tmpl h96)
      exact sim_all (cf := true) cx (fun _ => rfl) b.length b (Nat.le_refl _) v hgt hb
    · exact sim_all (cf := false) cx (fun h => absurd h.2.2 h96) b.length b (Nat.le_refl _) v hgb hb

/-- value preservation for substitution-free templates on the guarded fragment -/
theorem templateLit_value {m : Bool} {s v : List Nat} (hq : s.head? = some 96)
    (hv : decodeLit m s = some v) (hg : NoNul ((s.drop 1).dropLast) = true) :
    decodeLit m (templateLit s) = some v := by
  obtain ⟨qi, b, hqi, rfl, hb⟩ := decodeLit_inv hv
  have h96 : qi = 96 := by simpa using hq
  subst h96
  have hgb : Guard false b = true := by simpa [NoNul] using hg
  rw [templateLit_wrap, decodeLit_wrap hqi, rep_eq_repA]
  have cx : Ctx m 96 96 := ⟨hqi, hqi, fun h => h⟩
  apply escEnds_value hqi _ _ v (Nat.le_refl _)
  exact sim_all (cf := false) cx (fun h => absurd rfl h.2.1) b.length b (Nat.le_refl _) v hgb hb

end Verif.Proofs.JsString

import Verif.Proofs.JsNumberTop
/-!
# C01N — BigInt decimal literals and literals with a radix prefix
-/
namespace Verif.Proofs.JsNumber
open Verif.Spec.JsNumberSem
open Verif.Model.JsNumber
open Verif.Model.JsNumber.JsNumberDec (number decStr natOf)

theorem char_le_iff (a b : Char) : a ≤ b ↔ a.toNat ≤ b.toNat := by
  rw [Char.le_def]; simp only [UInt32.le_iff_toNat_le]; rfl

theorem char_lt_iff (a b : Char) : a < b ↔ a.toNat < b.toNat := by
  rw [Char.lt_def]; simp only [UInt32.lt_iff_toNat_lt]; rfl

theorem isNonZeroDigit_of {c : Char} (h : c.isDigit = true) (h0 : c ≠ '0') : isNonZeroDigit c = true := by
  have := (isDigit_iff c).mp h
  have hne48 : c.toNat ≠ 48 := by
    intro e; apply h0
    exact Char.toNat_inj.mp (by rw [e]; rfl)
  simp only [isNonZeroDigit, Bool.and_eq_true, decide_eq_true_eq, char_le_iff]
  have e1 : ('1' : Char).toNat = 49 := by decide
  have e2 : ('9' : Char).toNat = 57 := by decide
  omega

/-- decimal digits of a number: `0` or no leading zero -/
theorem decStr_head (n : Nat) : decStr n = ['0'] ∨ ∃ c t, decStr n = c :: t ∧ c ≠ '0' := by
  cases hd : decStr n with
  | nil => exact absurd hd (decStr_ne_nil n)
  | cons c t =>
    by_cases hc : c = '0'
    · subst hc
      left
      cases t with
      | nil => rfl
      | cons c2 t2 =>
        exfalso
        have hv : natOf (decStr n) = n := natOf_decStr n
        have hdig : AllDig (decStr n) := AllDig.decStr n
        rw [hd] at hv hdig
        have h1 : natOf ('0' :: c2 :: t2) = natOf (c2 :: t2) := by
          have := natOf_zeros_append 1 (c2 :: t2)
          simpa using this
        have h2 : natOf (c2 :: t2) < 10 ^ (c2 :: t2).length := natOf_lt hdig.of_cons.2
        have h3 : lenNat n ≤ (c2 :: t2).length := by
          apply (lenNat_le_iff (by simp)).mpr
          rw [← hv, h1]; exact h2
        have h4 : lenNat n = ('0' :: c2 :: t2).length := by rw [← hd]; rfl
        simp only [List.length_cons] at h3 h4
        omega
    · exact Or.inr ⟨c, t, rfl, hc⟩

theorem decStr_nonLegacy (n : Nat) : isLegacyLike (decStr n) = false := by
  rcases decStr_head n with e | ⟨c, t, e, hc⟩
  · rw [e]; rfl
  · rw [e]; exact isLegacyLike_cons_ne _ hc

theorem allDig_decChar {X : List Char} (h : AllDS X) : ∀ c ∈ X, DecChar c := by
  intro c hc
  rcases h c hc with e | e
  · exact Or.inl e
  · exact Or.inr (Or.inl e)

/-- value of `X n` for a digit string `X` (with separators) that is not of the legacy form -/
theorem mathDec_snoc {X : List Char} (hs : AllDS X) (hl : isLegacyLike X = false) :
    mathDec (X ++ ['n']) = (natOf10 (stripSep X), 0) := by
  unfold mathDec
  rw [splitSuffix_snoc]
  simp only
  rw [radixPrefix_none (allDig_decChar hs)]
  have : isLegacyOctal X = false := by
    cases ho : isLegacyOctal X with
    | false => rfl
    | true => rw [isLegacyOctal_imp_like ho] at hl; cases hl
  simp only [this]
  have hsh : (DLex.mk X none none).Shape := ⟨hs, (by intro f hf; cases hf), (by intro c sg d hx; cases hx)⟩
  have := decDec_str (DLex.mk X none none) hsh
  have hstr : (DLex.mk X none none).str = X := by simp [DLex.str, DLex.dotPart, DLex.exPart]
  rw [hstr] at this
  rw [this]
  simp [DLex.dec, DLex.fpd, DLex.expVal, stripSep]

theorem isDecBigInt_spec {b : List Char} (h : isDecBigInt b = true) :
    b = ['0'] ∨ ∃ c r, b = c :: r ∧ c.isDigit = true ∧ c ≠ '0' ∧ sepDigits Char.isDigit (c :: r) = true := by
  unfold isDecBigInt at h
  split at h
  · exact Or.inl rfl
  · rename_i c r _
    simp only [Bool.and_eq_true] at h
    obtain ⟨h1, h2⟩ := isNonZeroDigit_spec h.1
    exact Or.inr ⟨c, r, rfl, h1, h2, h.2⟩
  · cases h

theorem isDecBigInt_of {X : List Char} (hd : AllDig X) (h : X = ['0'] ∨ ∃ c r, X = c :: r ∧ c ≠ '0') :
    isDecBigInt X = true := by
  rcases h with e | ⟨c, r, e, hc⟩
  · rw [e]; rfl
  · subst e
    unfold isDecBigInt
    split
    · rename_i heq; injection heq with e _; exact absurd e hc
    · rename_i heq
      injection heq with e1 e2; subst e1; subst e2
      rw [isNonZeroDigit_of (hd _ (by simp)) hc, Bool.true_and]
      exact sepDigits_of_all hd (by simp)
    · rename_i heq; cases heq

/-- `X n` for a plain digit string `X` without leading zero is a BigInt literal with value `X` -/
theorem good_bigint {s X : List Char} (hd : AllDig X) (h : X = ['0'] ∨ ∃ c r, X = c :: r ∧ c ≠ '0')
    (hv : mathDec s = (natOf10 X, 0)) (hb : isBigIntLit s = true) : Good s (X ++ ['n']) := by
  have hl : isLegacyLike X = false := by
    rcases h with e | ⟨c, r, e, hc⟩
    · rw [e]; rfl
    · rw [e]; exact isLegacyLike_cons_ne _ hc
  refine ⟨?_, ?_, ?_, ?_, ?_⟩
  · unfold isNumericLiteral
    rw [splitSuffix_snoc]
    simp only
    rw [radixPrefix_none (allDig_decChar hd.allDS)]
    simp only [if_true]
    exact isDecBigInt_of hd h
  · unfold mathValue
    rw [mathDec_snoc hd.allDS hl, hv, stripSep_of_allDig hd]
  · unfold isBigIntLit at hb ⊢
    rw [splitSuffix_snoc, hb]
  · rcases h with e | ⟨c, r, e, hc⟩
    · rw [e]; rfl
    · rw [e]; exact isLegacyLike_cons_ne _ hc
  · intro c hc
    rcases List.mem_append.mp hc with hc | hc
    · exact digit_ne (hd c hc) (by decide)
    · simp at hc; rw [hc]; decide


theorem radixPrefix_head_ne {c : Char} (r : List Char) (h : c ≠ '0') : radixPrefix (c :: r) = none := by
  unfold radixPrefix
  split
  · rename_i heq; injection heq with e _; exact absurd e h
  · rfl

theorem minifyNumLit_some {s t : List Char} (h : minifyNumLit s = some t) :
    tokOf s ≠ .reject ∧ t = printNumLit s := by
  unfold minifyNumLit at h
  split at h
  · cases h
  · rename_i hne; injection h with h; exact ⟨hne, h.symm⟩

/-- decimal BigInt literals -/
theorem bigdec_case {s t : List Char} (hb : (splitSuffix s).2 = true)
    (hd : isDecBigInt (splitSuffix s).1 = true) (ht : minifyNumLit s = some t) : Good s t := by
  have hs := splitSuffix_true hb
  obtain ⟨hne, htp⟩ := minifyNumLit_some ht
  generalize (splitSuffix s).1 = b at hs hd
  have hbig : isBigIntLit s = true := hb
  -- facts about b
  have hfacts : AllDS b ∧ isLegacyLike b = false ∧ radixPrefix s = none ∧
      (stripSep b = ['0'] ∨ ∃ c r, stripSep b = c :: r ∧ c ≠ '0') := by
    rcases isDecBigInt_spec hd with e | ⟨c, r, e, hc, hc0, hsd⟩
    · subst e; subst hs
      exact ⟨by intro c hc; simp at hc; subst hc; left; decide, rfl, rfl, Or.inl rfl⟩
    · subst e; subst hs
      have hc_ : c ≠ '_' := digit_ne hc (by decide)
      exact ⟨(sepDigits_isDigit_spec hsd).1, isLegacyLike_cons_ne _ hc0, radixPrefix_head_ne _ hc0,
        Or.inr ⟨c, stripSep r, stripSep_cons_ne _ hc_, hc0⟩⟩
  obtain ⟨hds, hnl, hrp, hhead⟩ := hfacts
  have hprint : printNumLit s = stripSep b ++ ['n'] := by
    rw [printTok_dec (tokOf_noRadix hrp hne).2]
    unfold decimalNumber
    have : removeUnderscoresAndSuffix s = (stripSep b, true) := by
      rw [rus_eq, hs, stripSep_append]
      exact splitSuffix_snoc _
    rw [this]
    rfl
  rw [htp, hprint]
  exact good_bigint (stripSep_allDig hds) hhead (by rw [hs]; exact mathDec_snoc hds hnl) hbig


/-! ## radix prefix -/

theorem radixPrefix_inv {b : List Char} {base : Nat} {r : List Char} (h : radixPrefix b = some (base, r)) :
    ∃ c, b = '0' :: c :: r ∧ (((c = 'x' ∨ c = 'X') ∧ base = 16) ∨ ((c = 'o' ∨ c = 'O') ∧ base = 8) ∨
      ((c = 'b' ∨ c = 'B') ∧ base = 2)) := by
  unfold radixPrefix at h
  split at h
  · rename_i c r'
    by_cases h1 : (c == 'x' || c == 'X') = true
    · rw [if_pos h1] at h
      injection h with h; injection h with e1 e2
      subst e1; subst e2
      simp only [Bool.or_eq_true, beq_iff_eq] at h1
      exact ⟨c, rfl, Or.inl ⟨h1, rfl⟩⟩
    · rw [if_neg h1] at h
      by_cases h2 : (c == 'o' || c == 'O') = true
      · rw [if_pos h2] at h
        injection h with h; injection h with e1 e2
        subst e1; subst e2
        simp only [Bool.or_eq_true, beq_iff_eq] at h2
        exact ⟨c, rfl, Or.inr (Or.inl ⟨h2, rfl⟩)⟩
      · rw [if_neg h2] at h
        by_cases h3 : (c == 'b' || c == 'B') = true
        · rw [if_pos h3] at h
          injection h with h; injection h with e1 e2
          subst e1; subst e2
          simp only [Bool.or_eq_true, beq_iff_eq] at h3
          exact ⟨c, rfl, Or.inr (Or.inr ⟨h3, rfl⟩)⟩
        · rw [if_neg h3] at h; cases h
  · cases h

theorem isDigitOf_cases {base : Nat} {c : Char} (h : isDigitOf base c = true) :
    (c.isDigit = true ∨ isHexLetter c = true) ∧ digitVal c < base := by
  simpa [isDigitOf] using h

theorem isDigitOf_ne {base : Nat} {c : Char} (h : isDigitOf base c = true) : c ≠ 'n' ∧ c ≠ '_' := by
  constructor
  · intro e; subst e; have := (isDigitOf_cases h).1; revert this; decide
  · intro e; subst e; have := (isDigitOf_cases h).1; revert this; decide

theorem goDigit_eq {base : Nat} {c : Char} (h : isDigitOf base c = true) : goDigit c = digitVal c := by
  have e9 : ('9' : Char).toNat = 57 := by decide
  have eF : ('F' : Char).toNat = 70 := by decide
  have eA : ('A' : Char).toNat = 65 := by decide
  have ea : ('a' : Char).toNat = 97 := by decide
  have ef : ('f' : Char).toNat = 102 := by decide
  rcases (isDigitOf_cases h).1 with hd | hl
  · have := (isDigit_iff c).mp hd
    unfold goDigit digitVal
    rw [if_pos hd, if_pos ((char_le_iff _ _).mpr (by omega))]
  · have hnd : ¬ c.isDigit = true := by
      intro hd
      have := (isDigit_iff c).mp hd
      simp only [isHexLetter, Bool.or_eq_true, Bool.and_eq_true, decide_eq_true_eq, char_le_iff] at hl
      omega
    simp only [isHexLetter, Bool.or_eq_true, Bool.and_eq_true, decide_eq_true_eq, char_le_iff] at hl
    unfold goDigit digitVal
    rw [if_neg hnd]
    rcases hl with hl | hl
    · rw [if_neg (by rw [char_le_iff]; omega), if_neg (by rw [char_le_iff]; omega)]
      rw [if_pos (by simp only [Bool.and_eq_true, decide_eq_true_eq, char_le_iff]; omega)]
      omega
    · rw [if_neg (by rw [char_le_iff]; omega), if_pos (by rw [char_le_iff]; omega)]
      rw [if_neg (by simp only [Bool.and_eq_true, decide_eq_true_eq, char_le_iff]; omega)]
      rw [if_pos (by simp only [Bool.and_eq_true, decide_eq_true_eq, char_le_iff]; omega)]
      omega

theorem foldBase_eq {base : Nat} {D : List Char} (h : ∀ c ∈ D, isDigitOf base c = true) :
    foldBase base D = natOfBase base D := by
  unfold foldBase natOfBase
  generalize (0 : Nat) = a
  induction D generalizing a with
  | nil => rfl
  | cons c t ih =>
    simp only [List.foldl_cons]
    rw [goDigit_eq (h c (by simp))]
    exact ih (fun x hx => h x (by simp [hx])) _

/-- facts about a literal with radix prefix -/
structure RadixLit (s : List Char) (base : Nat) (c : Char) (D : List Char) (big : Bool) : Prop where
  letter : ((c = 'x' ∨ c = 'X') ∧ base = 16) ∨ ((c = 'o' ∨ c = 'O') ∧ base = 8) ∨ ((c = 'b' ∨ c = 'B') ∧ base = 2)
  dig : ∀ x ∈ D, isDigitOf base x = true
  ne : D ≠ []
  rus : removeUnderscoresAndSuffix s = ('0' :: c :: D, big)
  val : mathDec s = (natOfBase base D, 0)
  big : isBigIntLit s = big
  head : ∃ r, s = '0' :: c :: r

theorem splitSuffix_no_n {x : List Char} (h : ∀ c ∈ x, c ≠ 'n') : splitSuffix x = (x, false) := by
  unfold splitSuffix
  cases hl : x.getLast? with
  | none => rfl
  | some c =>
    have hc := h c (List.mem_of_getLast? hl)
    split
    · rename_i heq; injection heq with heq; exact absurd heq hc
    · rfl

theorem letter_ne {base : Nat} {c : Char}
    (h : ((c = 'x' ∨ c = 'X') ∧ base = 16) ∨ ((c = 'o' ∨ c = 'O') ∧ base = 8) ∨ ((c = 'b' ∨ c = 'B') ∧ base = 2)) :
    c ≠ 'n' ∧ c ≠ '_' := by
  rcases h with ⟨e | e, _⟩ | ⟨e | e, _⟩ | ⟨e | e, _⟩ <;> subst e <;> exact ⟨by decide, by decide⟩

theorem radixLit_of {s : List Char} {base : Nat} {r : List Char}
    (hr : radixPrefix (splitSuffix s).1 = some (base, r)) (hd : sepDigits (isDigitOf base) r = true) :
    ∃ c, RadixLit s base c (stripSep r) (splitSuffix s).2 := by
  obtain ⟨c, hb, hl⟩ := radixPrefix_inv hr
  have hp_ : isDigitOf base '_' = false := by unfold isDigitOf; rfl
  obtain ⟨hall, hne⟩ := sepDigits_spec hp_ hd
  have hdig : ∀ x ∈ stripSep r, isDigitOf base x = true := by
    intro x hx
    obtain ⟨h1, h2⟩ := mem_stripSep.mp hx
    rcases hall x h1 with e | e
    · exact e
    · exact absurd e h2
  obtain ⟨hcn, hc_⟩ := letter_ne hl
  have hsb : stripSep ('0' :: c :: r) = '0' :: c :: stripSep r := by
    rw [stripSep_cons_ne _ (by decide), stripSep_cons_ne _ hc_]
  have hval : mathDec s = (natOfBase base (stripSep r), 0) := by
    unfold mathDec
    simp only [hr]
  refine ⟨c, ?_⟩
  cases hbig : (splitSuffix s).2 with
  | true =>
    have hs := splitSuffix_true hbig
    rw [hb] at hs
    exact {
      letter := hl, dig := hdig, ne := hne
      rus := (by rw [rus_eq, hs, stripSep_append, hsb]; exact splitSuffix_snoc _)
      val := hval
      big := hbig
      head := ⟨r ++ ['n'], by rw [hs]; rfl⟩ }
  | false =>
    have hs := splitSuffix_false hbig
    rw [hb] at hs
    exact {
      letter := hl, dig := hdig, ne := hne
      rus := (by
        rw [rus_eq, ← hs, hsb]
        apply splitSuffix_no_n
        intro x hx
        rcases List.mem_cons.mp hx with e | hx
        · rw [e]; decide
        · rcases List.mem_cons.mp hx with e | hx
          · rw [e]; exact hcn
          · exact (isDigitOf_ne (hdig x hx)).1)
      val := hval
      big := hbig
      head := ⟨r, hs.symm⟩ }


theorem radixPrefix_mk {base : Nat} {c : Char} (D : List Char)
    (h : ((c = 'x' ∨ c = 'X') ∧ base = 16) ∨ ((c = 'o' ∨ c = 'O') ∧ base = 8) ∨ ((c = 'b' ∨ c = 'B') ∧ base = 2)) :
    radixPrefix ('0' :: c :: D) = some (base, D) := by
  rcases h with ⟨e | e, hb⟩ | ⟨e | e, hb⟩ | ⟨e | e, hb⟩ <;> subst e <;> subst hb <;> rfl

theorem stripSep_digits {base : Nat} {D : List Char} (h : ∀ x ∈ D, isDigitOf base x = true) : stripSep D = D := by
  unfold stripSep
  rw [List.filter_eq_self]
  intro x hx
  have := (isDigitOf_ne (h x hx)).2
  simp [this]

theorem mathValue_of_dec {s : List Char} {N : Nat} (h : mathDec s = (N, 0)) : mathValue s = dv N 0 := by
  unfold mathValue dv; rw [h]

/-- the literal kept in its notation (separators removed) -/
theorem radix_keep {s : List Char} {base : Nat} {c : Char} {D : List Char} {big : Bool}
    (R : RadixLit s base c D big) : Good s (keepRadix ('0' :: c :: D, big)) := by
  obtain ⟨hcn, hc_⟩ := letter_ne R.letter
  have hnon : ∀ x ∈ '0' :: c :: D, x ≠ 'n' := by
    intro x hx
    rcases List.mem_cons.mp hx with e | hx
    · rw [e]; decide
    · rcases List.mem_cons.mp hx with e | hx
      · rw [e]; exact hcn
      · exact (isDigitOf_ne (R.dig x hx)).1
  have hsplit : splitSuffix (keepRadix ('0' :: c :: D, big)) = ('0' :: c :: D, big) := by
    unfold keepRadix
    cases big with
    | true => simp only [if_true]; exact splitSuffix_snoc _
    | false => simp only [Bool.false_eq_true, if_false]; exact splitSuffix_no_n hnon
  refine ⟨?_, ?_, ?_, ?_, ?_⟩
  · unfold isNumericLiteral
    rw [hsplit]
    simp only
    rw [radixPrefix_mk D R.letter]
    simp only
    exact sepDigits_of_all R.dig R.ne
  · have : mathDec (keepRadix ('0' :: c :: D, big)) = (natOfBase base D, 0) := by
      unfold mathDec
      rw [hsplit]
      simp only
      rw [radixPrefix_mk D R.letter]
      simp only
      rw [stripSep_digits R.dig]
    rw [mathValue_of_dec this, mathValue_of_dec R.val]
  · unfold isBigIntLit
    rw [hsplit]
    exact R.big.symm
  · have hcd : c.isDigit = false := by
      rcases R.letter with ⟨e | e, _⟩ | ⟨e | e, _⟩ | ⟨e | e, _⟩ <;> subst e <;> decide
    unfold keepRadix
    cases big <;> simp only [Bool.false_eq_true, if_false, if_true, List.cons_append] <;> unfold isLegacyLike <;> exact hcd
  · have hall : ∀ x ∈ '0' :: c :: D, x ≠ '_' := by
      intro x hx
      rcases List.mem_cons.mp hx with e | hx
      · rw [e]; decide
      · rcases List.mem_cons.mp hx with e | hx
        · rw [e]; exact hc_
        · exact (isDigitOf_ne (R.dig x hx)).2
    unfold keepRadix
    intro x hx
    cases big with
    | true =>
      simp only [if_true] at hx
      rcases List.mem_append.mp hx with hx | hx
      · exact hall x hx
      · simp at hx; rw [hx]; decide
    | false =>
      simp only [Bool.false_eq_true, if_false] at hx
      exact hall x hx

/-- the literal converted to decimal -/
theorem radix_finish {s : List Char} {base : Nat} {c : Char} {D : List Char} {big : Bool}
    (R : RadixLit s base c D big) : Good s (finishRadix (foldBase base D) big) := by
  rw [foldBase_eq R.dig]
  generalize hN : natOfBase base D = N
  have hval : mathDec s = (N, 0) := by rw [R.val, hN]
  unfold finishRadix
  cases hb : big with
  | true =>
    simp only [if_true]
    apply good_bigint (AllDig.decStr N)
    · rcases decStr_head N with e | ⟨c', t', e, hc'⟩
      · exact Or.inl e
      · exact Or.inr ⟨c', t', e, hc'⟩
    · rw [hval, natOf10_eq, natOf_decStr]
    · rw [R.big, hb]
  | false =>
    simp only [Bool.false_eq_true, if_false]
    have hp : (DLex.mk (decStr N) none none).Plain :=
      plain_mk (AllDig.decStr N) (by intro f hf; cases hf) (Or.inl rfl) (Or.inl (decStr_ne_nil N))
    have hstr : (DLex.mk (decStr N) none none).str = decStr N := by simp [DLex.str, DLex.dotPart, DLex.exPart]
    have hnl : isLegacyLike (DLex.mk (decStr N) none none).str = false := by rw [hstr]; exact decStr_nonLegacy N
    obtain ⟨l', h1, h2, h3, h4⟩ := number_plain _ hp hnl
    rw [hstr] at h2 h4
    rw [← h2]
    apply good_of_plain l' h1 (by rw [h2]; exact h4)
    · rw [h3, DLex.val_plain _ hp, mathValue_of_dec hval]
      apply dv_congr
      · simp only [DLex.fpd, Option.getD_none, List.append_nil]; exact natOf_decStr N
      · simp [DLex.fpd, DLex.expVal]
    · rw [R.big, hb]

theorem tokOf_radix {s : List Char} {base : Nat} {c : Char} {D : List Char} {big : Bool}
    (R : RadixLit s base c D big) :
    (base = 16 ∧ tokOf s = .hex) ∨ (base = 8 ∧ tokOf s = .octal) ∨ (base = 2 ∧ tokOf s = .binary) := by
  obtain ⟨r, hs⟩ := R.head
  rw [hs, tokOf_zero]
  rcases R.letter with ⟨e | e, hb⟩ | ⟨e | e, hb⟩ | ⟨e | e, hb⟩ <;> subst e <;> subst hb <;> simp

/-- literals with radix prefix -/
theorem radix_case {s t : List Char} {base : Nat} {c : Char} {D : List Char} {big : Bool}
    (R : RadixLit s base c D big) (ht : minifyNumLit s = some t) : Good s t := by
  obtain ⟨_, htp⟩ := minifyNumLit_some ht
  rw [htp]
  unfold printNumLit printTok
  rcases tokOf_radix R with ⟨hb, e⟩ | ⟨hb, e⟩ | ⟨hb, e⟩ <;> subst hb <;> rw [e] <;> simp only
  · unfold hexadecimalNumber
    rw [R.rus]
    simp only [List.drop_succ_cons, List.drop_zero]
    split
    · exact radix_keep R
    · exact radix_finish R
  · unfold octalNumber
    rw [R.rus]
    simp only [List.drop_succ_cons, List.drop_zero]
    split
    · exact radix_keep R
    · exact radix_finish R
  · unfold binaryNumber
    rw [R.rus]
    simp only [List.drop_succ_cons, List.drop_zero]
    split
    · exact radix_keep R
    · exact radix_finish R

end Verif.Proofs.JsNumber

import Verif.Model.Html
import Verif.Spec.HtmlRawText

/-!
# C03 — what html.go accepts as content of `style` / `iframe` is read back by the standard's RAWTEXT tokenisation

`rawTextEndsAtEnd` (the model of the lexer's `shiftRawText` on `<name>` + b + `</name>`) is at least as strict as the
standard: wherever the standard sees an appropriate end tag, the lexer ends the raw text as well (the lexer also ends
it at `</name` + any other non-letter).  Hence a result accepted by html.go contains no appropriate end tag, and the
standard's tokenisation of `b</name>…` ends the element exactly behind `b`, whatever follows.
-/
namespace Verif.Proofs.HtmlRawText
open Verif.Model.Html Verif.Model.HtmlAttr Verif.Spec.HtmlRawText

def isLower (c : Char) : Bool := 'a' ≤ c && c ≤ 'z'

theorem lower_eq : asciiLower = rawLower := rfl

theorem alpha_of_lower (c p : Char) (hp : isLower p = true) (h : asciiLower c = p) : rawLetter c = true := by
  unfold asciiLower at h
  unfold rawLetter
  by_cases hu : ('A' ≤ c && c ≤ 'Z') = true
  · simp [hu]
  · simp only [hu, Bool.false_eq_true, if_false] at h
    subst h
    unfold isLower at hp
    simp [hp]

theorem lower_of_lower (p : Char) (hp : isLower p = true) : asciiLower p = p := by
  unfold asciiLower
  have : ('A' ≤ p && p ≤ 'Z') = false := by
    unfold isLower at hp
    simp only [Bool.and_eq_true, decide_eq_true_eq] at hp
    simp only [Bool.and_eq_false_iff, decide_eq_false_iff_not, Char.not_le]
    right
    exact Nat.lt_of_lt_of_le (by decide : 'Z'.val.toNat < 'a'.val.toNat) hp.1
  simp [this]

theorem lt_not_lower : ∀ p, isLower p = true → asciiLower '<' ≠ p := by
  intro p hp e
  have : asciiLower '<' = '<' := by decide
  rw [this] at e; subst e; exact absurd hp (by decide)

theorem delim_not_alpha (d : Char) (h : isDelim d = true) : rawLetter d = false := by
  simp only [isDelim, Bool.or_eq_true, decide_eq_true_eq] at h
  rcases h with ((((h | h) | h) | h) | h) | h <;> (subst h; decide)

/-- where the standard sees `name` + delimiter, the letters at that place are `name` -/
theorem word_of_startsCI : ∀ (name l : List Char), name.all isLower = true → nameThenDelim name l = true →
    wordIs name l = true := by
  intro name
  induction name with
  | nil =>
    intro l _ h
    simp only [nameThenDelim, startsCI] at h
    cases l with
    | nil => simp at h
    | cons d t =>
      simp only at h
      simp [wordIs, List.takeWhile, delim_not_alpha d h]
  | cons p ps ih =>
    intro l hn h
    simp only [List.all_cons, Bool.and_eq_true] at hn
    cases l with
    | nil => simp [nameThenDelim, startsCI] at h
    | cons c r =>
      simp only [nameThenDelim, startsCI] at h
      by_cases hc : asciiLower c = p
      · simp only [hc, if_true] at h
        have ha := alpha_of_lower c p hn.1 hc
        have := ih r hn.2 (by simpa [nameThenDelim] using h)
        simp only [wordIs, beq_iff_eq] at this ⊢
        simp only [List.takeWhile, ha, List.map_cons, this]
        rw [← lower_eq, hc]
      · simp [hc] at h

/-- the standard's verdict at a place does not depend on what follows a later `<` -/
theorem nameThenDelim_cut : ∀ (name x r1 r2 : List Char), name.all isLower = true →
    nameThenDelim name (x ++ '<' :: r1) = nameThenDelim name (x ++ '<' :: r2) := by
  intro name
  induction name with
  | nil =>
    intro x r1 r2 _
    cases x <;> simp [nameThenDelim, startsCI]
  | cons p ps ih =>
    intro x r1 r2 hn
    simp only [List.all_cons, Bool.and_eq_true] at hn
    cases x with
    | nil => simp [nameThenDelim, startsCI, lt_not_lower p hn.1]
    | cons c x' =>
      simp only [nameThenDelim, startsCI, List.cons_append]
      by_cases hc : asciiLower c = p
      · simp only [hc, if_true]
        exact ih x' r1 r2 hn.2
      · simp [hc]

theorem appropriateEnd_cut (name : List Char) (c : Char) (x r1 r2 : List Char) (hn : name.all isLower = true) :
    appropriateEnd name (c :: x ++ '<' :: r1) = appropriateEnd name (c :: x ++ '<' :: r2) := by
  cases x with
  | nil => simp [appropriateEnd]
  | cons c2 x' =>
    simp only [appropriateEnd, List.cons_append]
    rw [nameThenDelim_cut name x' r1 r2 hn]

theorem startsCI_self : ∀ (name rest : List Char), name.all isLower = true → startsCI name (name ++ rest) = some rest := by
  intro name
  induction name with
  | nil => intro rest _; rfl
  | cons p ps ih =>
    intro rest hn
    simp only [List.all_cons, Bool.and_eq_true] at hn
    simp only [List.cons_append, startsCI, lower_of_lower p hn.1, if_true]
    exact ih rest hn.2

theorem appropriateEnd_suffix (name tail : List Char) (hn : name.all isLower = true) :
    appropriateEnd name ('<' :: '/' :: (name ++ '>' :: tail)) = true := by
  have : nameThenDelim name (name ++ '>' :: tail) = true := by
    simp only [nameThenDelim, startsCI_self name ('>' :: tail) hn]
    decide
  simp [appropriateEnd, this]

/-- plain mode of the lexer, at a byte that is looked at: one step -/
theorem rawEnd_plain (name : List Char) (hs : name ≠ "script".toList) (pos : Nat) (c : Char) (r : List Char) :
    rawEnd name 0 0 pos (c :: r) =
      if (c = '<' ∧ headIs (· = '/') r = true ∧ wordIs name (r.drop 1) = true) then pos
      else rawEnd name 0 0 (pos + 1) r := by
  have hs' : (name = s "script") = False := by
    simp only [s, eq_iff_iff, iff_false]; exact hs
  rw [rawEnd]
  by_cases h1 : c = '<'
  · by_cases h2 : headIs (· = '/') r = true
    · by_cases h3 : wordIs name (r.drop 1) = true <;> simp [h1, h2, h3]
    · simp [h1, h2, hs']
  · simp [h1]

/-- where the standard sees an appropriate end tag the lexer ends the raw text -/
theorem lexer_match_of_spec (name : List Char) (hn : name.all isLower = true) (c : Char) (r : List Char)
    (h : appropriateEnd name (c :: r) = true) :
    c = '<' ∧ headIs (· = '/') r = true ∧ wordIs name (r.drop 1) = true := by
  cases r with
  | nil => simp [appropriateEnd] at h
  | cons c2 r' =>
    simp only [appropriateEnd, Bool.and_eq_true, decide_eq_true_eq] at h
    refine ⟨h.1.1, by simp [headIs, h.1.2], ?_⟩
    simpa using word_of_startsCI name r' hn h.2

/-- **the accepted content is read back**: if the lexer model reads `a` + `</name>` back as exactly `a`, the
    standard's RAWTEXT tokenisation of `a` + `</name>` + anything ends the text exactly behind `a` -/
theorem spec_of_rawEnd (name tail : List Char) (hn : name.all isLower = true) (hs : name ≠ "script".toList) :
    ∀ (a : List Char) (pos : Nat),
      rawEnd name 0 0 pos (a ++ '<' :: '/' :: (name ++ ['>'])) = pos + a.length →
      rawTextEnd name pos (a ++ '<' :: '/' :: (name ++ '>' :: tail)) = pos + a.length := by
  intro a
  induction a with
  | nil =>
    intro pos _
    simp only [List.nil_append, rawTextEnd, appropriateEnd_suffix name tail hn, if_true, List.length_nil, Nat.add_zero]
  | cons c a' ih =>
    intro pos h
    simp only [List.cons_append, rawEnd_plain name hs] at h
    simp only [List.cons_append, rawTextEnd, List.length_cons]
    split at h
    · simp only [List.length_cons] at h; exact absurd h (by omega)
    · next hm =>
      have hne : appropriateEnd name (c :: a' ++ '<' :: '/' :: (name ++ '>' :: tail)) = false := by
        cases hx : appropriateEnd name (c :: a' ++ '<' :: '/' :: (name ++ '>' :: tail)) with
        | false => rfl
        | true =>
          exfalso
          rw [appropriateEnd_cut name c a' ('/' :: (name ++ '>' :: tail)) ('/' :: (name ++ ['>'])) hn] at hx
          exact hm (lexer_match_of_spec name hn c _ hx)
      simp only [List.cons_append] at hne
      simp only [hne, Bool.false_eq_true, if_false]
      have := ih (pos + 1) (by simpa [List.length_cons, Nat.add_assoc, Nat.add_comm 1] using h)
      simpa [Nat.add_assoc, Nat.add_comm 1] using this

end Verif.Proofs.HtmlRawText

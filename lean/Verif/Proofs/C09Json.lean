import Verif.Props.C07
import Verif.Model.Num
/-!
# C09 — JSON: the second pass is a fixed point (where the number writer is)

`C07_shape` gives: the first output is `compact v₁` with `v₁ = mapNum (jsonNum o num) v`.  The second pass maps it to
`compact (mapNum (jsonNum o num) v₁)`; it is the same text as soon as the number writer reproduces its own outputs
(`NumFix`).  That hypothesis is about `minify.Number` (C08) composed with the `0.`-repair of json.go; the harness checks
it on the real code (stage `c09-json-fixpoint`).  With `KeepNumbers` it holds for every `num`.
-/
namespace Verif.Proofs.C09Json
open Verif.Spec.Json Verif.Model.Json Verif.Proofs.Json

/-- the number writer of json.go reproduces its own outputs -/
def NumFix (o : JsonOpts) (num : List Char → Int → List Char) : Prop :=
  ∀ s, isJsonNumber s = true → jsonNum o num (jsonNum o num s) = jsonNum o num s

mutual
theorem mapNum_idem (f : List Char → List Char)
    (hf : ∀ s, isJsonNumber s = true → f (f s) = f s) :
    ∀ v : JV, wf v = true → mapNum f (mapNum f v) = mapNum f v
  | .lit _, _ => by simp [mapNum]
  | .num s, hw => by simp only [mapNum, wf] at hw ⊢; rw [hf s hw]
  | .str _, _ => by simp [mapNum]
  | .arr xs, hw => by simp only [mapNum, wf] at hw ⊢; rw [mapNumElems_idem f hf xs hw]
  | .obj ms, hw => by simp only [mapNum, wf] at hw ⊢; rw [mapNumMems_idem f hf ms hw]
theorem mapNumElems_idem (f : List Char → List Char)
    (hf : ∀ s, isJsonNumber s = true → f (f s) = f s) :
    ∀ xs : List JV, wfElems xs = true → mapNumElems f (mapNumElems f xs) = mapNumElems f xs
  | [], _ => by simp [mapNumElems]
  | x :: r, hw => by
    simp only [mapNumElems, wfElems, Bool.and_eq_true] at hw ⊢
    rw [mapNum_idem f hf x hw.1, mapNumElems_idem f hf r hw.2]
theorem mapNumMems_idem (f : List Char → List Char)
    (hf : ∀ s, isJsonNumber s = true → f (f s) = f s) :
    ∀ ms : List (List Char × JV), wfMems ms = true → mapNumMems f (mapNumMems f ms) = mapNumMems f ms
  | [], _ => by simp [mapNumMems]
  | (k, x) :: r, hw => by
    simp only [mapNumMems, wfMems, Bool.and_eq_true] at hw ⊢
    rw [mapNum_idem f hf x hw.1.2, mapNumMems_idem f hf r hw.2]
end

/-- **JSON, second pass is the identity**: for every well-formed value, decoration, option set and precision, if the
    number writer reproduces its own outputs (`NumFix`; trivially true with `KeepNumbers`), minifying the output of the
    first pass again succeeds and returns the same bytes. -/
theorem json_second_pass_fixed (o : JsonOpts) (num : List Char → Int → List Char)
    (hg : NumGrammar num o.precision) (hfix : NumFix o num) (v : JV) (hw : wf v = true) (ws : Ws) :
    ∃ out, minifyText o num (render ws v) = some out ∧ minifyText o num out = some out := by
  obtain ⟨h1, hw1, _⟩ := Verif.Props.C07.C07_shape o num hg v hw ws
  refine ⟨_, h1, ?_⟩
  obtain ⟨h2, _, _⟩ := Verif.Props.C07.C07_shape o num hg _ hw1 noWs
  have h2' : minifyText o num (compact (mapNum (jsonNum o num) v)) =
      some (compact (mapNum (jsonNum o num) (mapNum (jsonNum o num) v))) := h2
  rw [h2', mapNum_idem (jsonNum o num) hfix v hw]

/-- `NumFix` holds for every `num` when numbers are kept -/
theorem numFix_keep (o : JsonOpts) (num : List Char → Int → List Char) (hk : o.keepNumbers = true) :
    NumFix o num := by
  intro s _
  simp [jsonNum, hk]

theorem repair_id (r : List Char) (h : startsDot r = false) : repair r = r := by
  unfold repair
  split
  · simp [startsDot] at h
  · simp [startsDot] at h
  · rfl

/-- non-vacuity of the hypotheses: the sample number writer of C07 (`1e-3 ↦ .001`, kept as `1e-3` by json.go; identity
    elsewhere) satisfies `NumGrammar` and `NumFix` -/
theorem numCE_fix : NumFix {} Verif.Props.C07.numCE := by
  have key : ∀ s, isJsonNumber s = true → jsonNum {} Verif.Props.C07.numCE s = s := by
    intro s hs
    by_cases h : s = ['1', 'e', '-', '3']
    · subst h; decide
    · have hr : Verif.Props.C07.numCE s ({} : JsonOpts).precision = s := by simp [Verif.Props.C07.numCE, h]
      have hd := Verif.Props.C07.json_not_startsDot s hs
      simp [jsonNum, jsonNumOut, hr, hd, repair_id s hd]
  intro s hs
  rw [key s hs, key s hs]

example : ∃ out, minifyText {} Verif.Props.C07.numCE (render noWs Verif.Props.C07.sample) = some out ∧
    minifyText {} Verif.Props.C07.numCE out = some out :=
  json_second_pass_fixed {} _ Verif.Props.C07.numCE_ok.1 numCE_fix _ (by decide) noWs

/-- with `Precision > 0` the hypothesis is FALSE for the real number writer (`Model.Num.number`, the C08 model of
    `minify.Number`): a lexeme with an exponent is not rounded on the first pass — `-67E-1` ↦ `-6.7` at precision 1 — but its
    exponent-free respelling is on the second — `-6.7` ↦ `-7`.  (Observed on the real code by stage `c09-json-fixpoint`;
    this is the rounding gap of C08 `number_round_partial`, not a validity defect: both outputs are valid JSON.) -/
theorem numFix_precision_counterexample : ¬ NumFix {precision := 1} Verif.Model.Num.number := by
  intro h
  have h1 := h "-67E-1".toList (by decide)
  revert h1
  decide +kernel

end Verif.Proofs.C09Json
